// E8 Preflight correspondence harness (C12): the real helper functions of streamable_headers.go /
// streamableAccepts on generated inputs, whole ServeHTTP calls (streamable stateless / stateful, SSE)
// through a recording ResponseWriter with every server handler and middleware counting what reached
// it, and the real streamable client against the real stateless server - call by call (kind e2e) and as one session
// over time with cached tools/list pages, TTLs, list_changed and re-registered tools (kind seq:
// zz_verif_preflight_seq_test.go).
//
// Record format: see ENGINE_GUIDE.md. Every op starts with a token "@<kind>:<seed>:<index>" that the Lean
// driver ignores; VERIF_REPLAY uses it to regenerate exactly that case.
package mcp

import (
	"bytes"
	"context"
	"encoding/base64"
	"encoding/json"
	"errors"
	"fmt"
	"io"
	"math/rand"
	"net"
	"net/http"
	"net/http/httptest"
	"os"
	"slices"
	"sort"
	"strconv"
	"strings"
	"sync"
	"sync/atomic"
	"testing"
	"time"

	internaljson "github.com/modelcontextprotocol/go-sdk/internal/json"
	"github.com/modelcontextprotocol/go-sdk/internal/jsonrpc2"
	"github.com/modelcontextprotocol/go-sdk/internal/util"
	"github.com/modelcontextprotocol/go-sdk/jsonrpc"
)

// ---------------------------------------------------------------------------------------------
// JSON values with raw number texts, printed both as JSON and as driver tokens.

type pfJ struct {
	kind   byte // z null, b bool, n number, s string, a array, o object
	b      bool
	num    string
	s      string
	fields []pfField
	raw    string // for arrays: the JSON text
}
type pfField struct {
	k string
	v *pfJ
}

func pfStr(s string) *pfJ { return &pfJ{kind: 's', s: s} }
func pfNum(t string) *pfJ { return &pfJ{kind: 'n', num: t} }

func (j *pfJ) json() string {
	switch j.kind {
	case 'z':
		return "null"
	case 'b':
		if j.b {
			return "true"
		}
		return "false"
	case 'n':
		return j.num
	case 's':
		b, _ := json.Marshal(j.s)
		return string(b)
	case 'a':
		return j.raw
	}
	var sb strings.Builder
	sb.WriteByte('{')
	for i, f := range j.fields {
		if i > 0 {
			sb.WriteByte(',')
		}
		k, _ := json.Marshal(f.k)
		sb.Write(k)
		sb.WriteByte(':')
		sb.WriteString(f.v.json())
	}
	sb.WriteByte('}')
	return sb.String()
}

func (j *pfJ) tok() string {
	switch j.kind {
	case 'z':
		return "z"
	case 'b':
		if j.b {
			return "t"
		}
		return "f"
	case 'n':
		return "n" + j.num
	case 's':
		return "s" + hxs(j.s)
	case 'a':
		return "a"
	}
	parts := []string{"o{"}
	for _, f := range j.fields {
		parts = append(parts, "k"+hxs(f.k), f.v.tok())
	}
	parts = append(parts, "}")
	return strings.Join(parts, " ")
}

// pfParseJ converts JSON text into pfJ keeping number texts (used for bodies produced by the real client).
func pfParseJ(data []byte) (*pfJ, error) {
	dec := json.NewDecoder(bytes.NewReader(data))
	dec.UseNumber()
	var v any
	if err := dec.Decode(&v); err != nil {
		return nil, err
	}
	return pfFromAny(v, data), nil
}

func pfFromAny(v any, src []byte) *pfJ {
	switch x := v.(type) {
	case nil:
		return &pfJ{kind: 'z'}
	case bool:
		return &pfJ{kind: 'b', b: x}
	case json.Number:
		return pfNum(x.String())
	case string:
		return pfStr(x)
	case []any:
		return &pfJ{kind: 'a', raw: "[]"}
	case map[string]any:
		keys := make([]string, 0, len(x))
		for k := range x {
			keys = append(keys, k)
		}
		sort.Strings(keys)
		o := &pfJ{kind: 'o'}
		for _, k := range keys {
			o.fields = append(o.fields, pfField{k, pfFromAny(x[k], nil)})
		}
		return o
	}
	return &pfJ{kind: 'a', raw: "[]"}
}

// ---------------------------------------------------------------------------------------------
// Schemas with x-mcp-header annotations.

type pfProp struct {
	name     string
	ty       string
	hasTy    bool
	xh       byte // '-' absent, 'z' null, 's' string, 'o' other
	xhStr    string
	xhOther  string // JSON text for 'o'
	children []*pfProp
}

func pfPropsJSON(ps []*pfProp) string {
	var sb strings.Builder
	sb.WriteByte('{')
	for i, p := range ps {
		if i > 0 {
			sb.WriteByte(',')
		}
		k, _ := json.Marshal(p.name)
		sb.Write(k)
		sb.WriteString(":{")
		first := true
		add := func(s string) {
			if !first {
				sb.WriteByte(',')
			}
			first = false
			sb.WriteString(s)
		}
		if p.hasTy {
			t, _ := json.Marshal(p.ty)
			add(`"type":` + string(t))
		}
		switch p.xh {
		case 'z':
			add(`"x-mcp-header":null`)
		case 's':
			h, _ := json.Marshal(p.xhStr)
			add(`"x-mcp-header":` + string(h))
		case 'o':
			add(`"x-mcp-header":` + p.xhOther)
		}
		if len(p.children) > 0 {
			add(`"properties":` + pfPropsJSON(p.children))
		}
		sb.WriteByte('}')
	}
	sb.WriteByte('}')
	return sb.String()
}

func pfSchemaJSON(ps []*pfProp) string {
	return `{"type":"object","properties":` + pfPropsJSON(ps) + `}`
}

func pfPropsTok(ps []*pfProp) string {
	parts := []string{"p{"}
	for _, p := range ps {
		parts = append(parts, "k"+hxs(p.name), "y"+hxs(p.ty))
		switch p.xh {
		case '-':
			parts = append(parts, "x-")
		case 'z':
			parts = append(parts, "xz")
		case 's':
			parts = append(parts, "xs"+hxs(p.xhStr))
		default:
			parts = append(parts, "xo")
		}
		parts = append(parts, pfPropsTok(p.children))
	}
	parts = append(parts, "}")
	return strings.Join(parts, " ")
}

var pfHeaderNames = []string{"Region", "X-Tenant", "n", "a.b", "!#$%&'*+-.^_`|~", "Zone1", "trace-id", "Q", "Flag", "Count", "LONG-HEADER-NAME-0123456789"}
var pfBadHeaderNames = []string{"My Region", "Région", "a:b", "", "X-(R)", "R=1", "a\tb", "é"}
var pfPropNames = []string{"region", "tenant", "n", "flag", "q", "filter", "opts", "inner", "deep", "x y", "é", "a.b", "Region"}

// pfGen is the seeded generator. epoch selects the generator version: 1 = the original shapes (schemas of depth ≤ 3,
// bodies with a declared length), kept so that "@kind:seed:index" ids in corpus/replay files regenerate the same
// case; 2 adds deep and wide schemas and the body-delivery modes; 3 adds the array-body family of whole requests (JSON
// arrays of 1..3 elements under every version header × _meta version). Ids of epoch ≥ 2 are "@kind:seed:index:epoch".
type pfGen struct {
	rng   *rand.Rand
	epoch int
}

const pfEpoch = 6

func (g *pfGen) pick(ss []string) string { return ss[g.rng.Intn(len(ss))] }
func (g *pfGen) chance(pct int) bool     { return g.rng.Intn(100) < pct }

// schema generates a property tree. valid: annotations pass validateParamHeaderAnnotations.
// Shapes: bushy trees of depth ≤ 3 (epoch 1: only these), and - epoch 2 - deep trees: a spine of nested objects
// down to a leaf level 3..9 names below `arguments` with 1-4 siblings per level, annotations at any level
// (the usual "filter.scope.target.{region,tenant}" shape is one of them).
func (g *pfGen) schema(valid bool) []*pfProp {
	used := map[string]bool{}
	var names []string
	for _, h := range g.rng.Perm(len(pfHeaderNames)) {
		names = append(names, pfHeaderNames[h])
	}
	maxObj, deep := 2, false
	if g.epoch >= 2 && g.chance(45) {
		deep = true
		maxObj = 2 + g.rng.Intn(7) // objects at depths 0..maxObj-1: leaf paths of up to maxObj+1 names (3..9)
	}
	var build func(depth int) []*pfProp
	build = func(depth int) []*pfProp {
		n := 1 + g.rng.Intn(3)
		if depth > 0 && g.chance(30) {
			n = 1
		}
		if deep && depth >= 2 && g.chance(60) {
			n = 2 + g.rng.Intn(3) // siblings deep down
		}
		spine := -1
		if deep && depth < maxObj && g.chance(90) {
			spine = g.rng.Intn(n) // this sibling continues the spine
		}
		var out []*pfProp
		seen := map[string]bool{}
		for i := 0; i < n; i++ {
			nm := g.pick(pfPropNames)
			if seen[nm] {
				if i == spine {
					spine++
				}
				continue
			}
			seen[nm] = true
			p := &pfProp{name: nm, xh: '-', hasTy: true}
			if i == spine || (depth < maxObj && g.chance(30) && !(deep && depth >= 3 && g.chance(70))) {
				p.ty = "object"
				p.children = build(depth + 1)
				if !valid && g.chance(10) {
					// an annotated object
					p.xh, p.xhStr = 's', "Obj"
				}
			} else {
				p.ty = g.pick([]string{"string", "string", "integer", "boolean"})
				if g.chance(85) && len(names) > 0 {
					p.xh = 's'
					p.xhStr = names[0]
					names = names[1:]
					if g.chance(25) {
						p.xhStr = strings.ToUpper(p.xhStr)
					}
					used[strings.ToLower(p.xhStr)] = true
				}
				if valid && p.xh == 's' && g.chance(5) {
					// an annotated primitive that also has (ignored) sub-properties
					p.children = []*pfProp{{name: "sub", ty: "string", hasTy: true, xh: '-'}}
				}
			}
			out = append(out, p)
		}
		return out
	}
	ps := build(0)
	if !valid {
		// one or two defects somewhere
		var all []*pfProp
		var walk func(ps []*pfProp)
		walk = func(ps []*pfProp) {
			for _, p := range ps {
				all = append(all, p)
				walk(p.children)
			}
		}
		walk(ps)
		for k := 0; k < 1+g.rng.Intn(2); k++ {
			p := all[g.rng.Intn(len(all))]
			switch g.rng.Intn(8) {
			case 0:
				p.xh, p.xhStr = 's', g.pick(pfBadHeaderNames)
			case 1:
				p.xh, p.xhOther = 'o', g.pick([]string{"5", "true", "{}", `["a"]`, "1.5"})
			case 2:
				p.xh = 'z'
			case 3:
				if p.xh == '-' {
					p.xh, p.xhStr = 's', "Extra"
				}
				p.ty = g.pick([]string{"number", "object", "array", "null", "String", ""})
			case 4:
				if p.xh == '-' {
					p.xh, p.xhStr = 's', "Extra"
				}
				p.hasTy, p.ty = false, ""
			case 5:
				// duplicate of another annotation (possibly differing in case)
				for _, q := range all {
					if q != p && q.xh == 's' && q.xhStr != "" {
						p.xh, p.xhStr = 's', q.xhStr
						if g.chance(50) {
							p.xhStr = strings.ToLower(q.xhStr)
						}
						if p.ty == "object" {
							p.ty = "string"
						}
						break
					}
				}
			case 6:
				p.xh, p.xhStr = 's', ""
			default:
				// no defect: invalid-stream schemas may be valid too
			}
		}
	}
	return ps
}

var pfStrings = []string{"", "", "x", "us-west1", "hello world", " pad", "pad ", "\tpad", "pad\t", " ", "é", "日本語", "naïve café", "a\x01b", "a\nb", "line\r\n",
	"=?base64?abc?=", "=?base64?=", "=?base64??=", "=?base64?aGk=?=", "=?BASE64?aGk=?=", "?=", "=?base64?", "true", "false", "123", "-5", "null", "\x7f", "~}|", "a,b;c",
	"0", "9007199254740993", "1e3", strings.Repeat("long", 40), " nbsp", "tab\tinside", "\"quoted\"", "back\\slash"}

var pfInts = []string{"0", "1", "-1", "5", "42", "-42", "9007199254740991", "-9007199254740991", "123456789012", "-0"}
var pfOddNums = []string{"9007199254740992", "-9007199254740992", "9007199254740993", "1.0", "1e2", "1.5", "1E400", "1e-400", "100e-2", "0.1", "-1.50",
	"12345678901234567890", "5.0000000000000001", "9007199254740991.3", "2.5e1", "1e0", "0e5", "4503599627370497.5"}

// value generates an argument value for a leaf property: mostly valid for its type.
func (g *pfGen) value(ty string, validOnly bool) *pfJ {
	if !validOnly && g.chance(18) {
		switch g.rng.Intn(6) {
		case 0:
			return &pfJ{kind: 'a', raw: `["x"]`}
		case 1:
			return pfNum(g.pick(pfOddNums))
		case 2:
			return &pfJ{kind: 'o', fields: []pfField{{"k", pfStr("v")}}}
		case 3:
			return pfStr(g.pick(pfStrings))
		case 4:
			return pfNum(g.pick(pfInts))
		default:
			return &pfJ{kind: 'b', b: g.chance(50)}
		}
	}
	switch ty {
	case "integer":
		if g.chance(30) {
			return pfNum(strconv.FormatInt(g.rng.Int63n(2000001)-1000000, 10))
		}
		if g.chance(15) {
			return pfNum(strconv.FormatInt((1<<53-1)-g.rng.Int63n(3), 10))
		}
		return pfNum(g.pick(pfInts))
	case "boolean":
		return &pfJ{kind: 'b', b: g.chance(50)}
	default:
		if g.chance(15) {
			// random printable / non-printable mix
			n := g.rng.Intn(8)
			rs := make([]rune, n)
			for i := range rs {
				rs[i] = []rune{'a', 'Z', ' ', '\t', 'é', '=', '?', '0', '~', 0x7f, 0x1f, '世'}[g.rng.Intn(12)]
			}
			return pfStr(string(rs))
		}
		return pfStr(g.pick(pfStrings))
	}
}

// args generates an arguments object for the schema.
func (g *pfGen) args(ps []*pfProp, validOnly bool) *pfJ {
	o := &pfJ{kind: 'o'}
	for _, p := range ps {
		r := g.rng.Intn(100)
		if g.epoch >= 2 && p.ty == "object" && len(p.children) > 0 && r < 23 && g.chance(75) {
			r = 50 // nested objects are mostly present, so that deep members are reached
		}
		switch {
		case r < 15:
			continue // absent
		case r < 23:
			o.fields = append(o.fields, pfField{p.name, &pfJ{kind: 'z'}})
			continue
		}
		if p.ty == "object" && len(p.children) > 0 {
			if !validOnly && g.chance(10) {
				o.fields = append(o.fields, pfField{p.name, g.value("string", false)})
				continue
			}
			o.fields = append(o.fields, pfField{p.name, g.args(p.children, validOnly)})
			continue
		}
		o.fields = append(o.fields, pfField{p.name, g.value(p.ty, validOnly)})
	}
	if !validOnly && g.chance(10) {
		o.fields = append(o.fields, pfField{"extra", pfStr("e")})
	}
	return o
}

// pfParseOrdered parses JSON text keeping, for every object, the members in source order with repeated names and
// names that differ only in case (number texts are kept; an array is re-rendered from its elements).
func pfParseOrdered(data []byte) (*pfJ, error) {
	dec := json.NewDecoder(bytes.NewReader(data))
	dec.UseNumber()
	j, err := pfOrderedValue(dec)
	if err != nil {
		return nil, err
	}
	if _, err := dec.Token(); err != io.EOF {
		return nil, errors.New("trailing data")
	}
	return j, nil
}

func pfOrderedValue(dec *json.Decoder) (*pfJ, error) {
	t, err := dec.Token()
	if err != nil {
		return nil, err
	}
	switch x := t.(type) {
	case nil:
		return &pfJ{kind: 'z'}, nil
	case bool:
		return &pfJ{kind: 'b', b: x}, nil
	case json.Number:
		return pfNum(x.String()), nil
	case string:
		return pfStr(x), nil
	case json.Delim:
		switch x {
		case '{':
			o := &pfJ{kind: 'o'}
			for dec.More() {
				kt, err := dec.Token()
				if err != nil {
					return nil, err
				}
				k, ok := kt.(string)
				if !ok {
					return nil, errors.New("member name is not a string")
				}
				v, err := pfOrderedValue(dec)
				if err != nil {
					return nil, err
				}
				o.fields = append(o.fields, pfField{k, v})
			}
			_, err := dec.Token()
			return o, err
		case '[':
			var elems []string
			for dec.More() {
				v, err := pfOrderedValue(dec)
				if err != nil {
					return nil, err
				}
				elems = append(elems, v.json())
			}
			_, err := dec.Token()
			return &pfJ{kind: 'a', raw: "[" + strings.Join(elems, ",") + "]"}, err
		}
	}
	return nil, errors.New("unexpected token")
}

// pfParamsTok renders `params` the way the JSON text has it, for the model to decode: P- absent, Pz null, Px another
// non-object, "P o{ k<hex> <value> ... }" the members in source order (repeated and case-variant names kept).
func pfParamsTok(params json.RawMessage) string {
	if len(params) == 0 {
		return "P-"
	}
	j, err := pfParseOrdered(params)
	switch {
	case err != nil:
		return "Px"
	case j.kind == 'z':
		return "Pz"
	case j.kind == 'o':
		return "P " + j.tok()
	}
	return "Px"
}

func pfPrimTok(v any) string {
	switch x := v.(type) {
	case nil:
		return "nil"
	case string:
		return "S" + hxs(x)
	case bool:
		if x {
			return "B1"
		}
		return "B0"
	case int64:
		return "I" + strconv.FormatInt(x, 10)
	}
	return fmt.Sprintf("?%T", v)
}

func pfBool(b bool) string {
	if b {
		return "t"
	}
	return "f"
}

func pfB01(b bool) string {
	if b {
		return "1"
	}
	return "0"
}

// pfSafe runs f, turning a panic into the observation "panic".
func pfSafe(f func() string) (obs string) {
	defer func() {
		if r := recover(); r != nil {
			obs = "panic"
		}
	}()
	return f()
}

func pfParamHdrTok(h http.Header) string {
	var items []string
	for k, vs := range h {
		if strings.HasPrefix(k, paramHeaderPrefix) && len(vs) > 0 {
			items = append(items, "k"+hxs(strings.ToLower(k[len(paramHeaderPrefix):]))+"=v"+hxs(vs[0]))
		}
	}
	sort.Strings(items)
	if len(items) == 0 {
		return "H{ }"
	}
	return "H{ " + strings.Join(items, " ") + " }"
}

func pfErrKind(err error) string {
	if err == nil {
		return "ok"
	}
	s := err.Error()
	switch {
	case strings.Contains(s, "unexpected"):
		return "unexpected"
	case strings.Contains(s, "missing Mcp-Param-"):
		return "missing"
	case strings.Contains(s, "invalid Base64"):
		return "badb64"
	case strings.Contains(s, "not a primitive type"):
		return "notprim"
	case strings.Contains(s, "does not match body value"):
		return "mismatch"
	case strings.Contains(s, "missing required Mcp-Method"):
		return "nomethod"
	case strings.Contains(s, "Mcp-Method header value"):
		return "methodmismatch"
	case strings.Contains(s, "missing required Mcp-Name"):
		return "noname"
	case strings.Contains(s, "failed to extract name"):
		return "nameextract"
	case strings.Contains(s, "Mcp-Name header value"):
		return "namemismatch"
	}
	return "other"
}

// pfUnmarshal is the decoder the package uses (case-sensitive segmentio decoder).
func pfUnmarshal(data []byte, v any) error { return internaljson.Unmarshal(data, v) }

// ---------------------------------------------------------------------------------------------
// Level 1: helper functions.

var pfAcceptAtoms = []string{"application/json", "text/event-stream", "*/*", "application/*", "text/*", "text/plain", "APPLICATION/JSON", "Text/Event-Stream",
	"application/json;charset=utf-8", "text/event-stream; q=0.9", " application/json ", "application/json ;q=1", "", ";", "application/jsonx", "xapplication/json",
	"application/ json", "*/* ;q=0.1", "applİcation/json", "text/event-stream ", " */*", "application/json\t", "*", "*/*/*", "text/*;", "application/Kon",
	"text/event-stream;application/json", "application/json,", "\xff", "application/json\xc3", "APPLICATION/*", "text/event‐stream", "ſtream"}

func (g *pfGen) acceptValues() []string {
	switch g.rng.Intn(10) {
	case 0:
		return nil
	case 1:
		return []string{"application/json, text/event-stream"}
	case 2:
		return []string{"application/json", "text/event-stream"}
	}
	n := 1 + g.rng.Intn(3)
	var out []string
	for i := 0; i < n; i++ {
		m := 1 + g.rng.Intn(3)
		var parts []string
		for j := 0; j < m; j++ {
			parts = append(parts, g.pick(pfAcceptAtoms))
		}
		out = append(out, strings.Join(parts, g.pick([]string{",", ", ", " , ", ",\t"})))
	}
	return out
}

func pfAcceptTok(vs []string) string {
	parts := []string{"ac{"}
	for _, v := range vs {
		parts = append(parts, "v"+hxs(v))
	}
	parts = append(parts, "}")
	return strings.Join(parts, " ")
}

var pfIntHeaders = []string{"5", "05", "+5", "5.0", "5e0", "50e-1", "0x5p0", "0X5P0", "1_0", "5.", ".5e1", "5.5", "abc", "", " 5", "5 ", "Inf", "-inf", "NaN", "infinity",
	"9007199254740991", "9007199254740992", "9007199254740993", "-9007199254740991", "-9007199254740992", "1e400", "1e-400", "-0", "0", "0.0", "−5", "5.0000000000000001",
	"9007199254740991.3", "9007199254740990.9", "0x1p-1", "0x.8p1", "1__0", "_10", "10_", "1e1_0", "0x_5p0", "5e", "5e+", "e5", "0x5", "0b101", "1e10000000000", "0.000000000000000000000000000001e30",
	"42", "-42", "4.2e1", "420e-1", "١٢"}

func (g *pfGen) prim() any {
	switch g.rng.Intn(3) {
	case 0:
		return g.value("string", true).s
	case 1:
		return g.chance(50)
	default:
		n, _ := strconv.ParseInt(g.value("integer", true).num, 10, 64)
		return n
	}
}

func pfHelperCase(g *pfGen, kind string) (op, obs string, tags []string) {
	switch kind {
	case "accepts":
		vs := g.acceptValues()
		op = "accepts " + pfAcceptTok(vs)
		obs = pfSafe(func() string {
			j, s := streamableAccepts(vs)
			return pfBool(j) + " " + pfBool(s)
		})
		tags = []string{"accepts-" + strings.ReplaceAll(obs, " ", "")}
	case "codec":
		v := g.prim()
		op = "rt " + pfPrimTok(v)
		obs = pfSafe(func() string {
			s, _ := primitiveToString(v)
			enc, ok := encodeHeaderValue(v)
			if !ok {
				return "noenc"
			}
			dec, ok := decodeHeaderValue(enc)
			if !ok {
				return "e" + hxs(enc) + " bad"
			}
			return "r" + pfBool(requiresBase64Encoding(s)) + " e" + hxs(enc) + " d" + hxs(dec)
		})
		tags = []string{"rt-" + obs[:2]}
	case "decode":
		var h string
		switch g.rng.Intn(8) {
		case 0:
			h = g.pick(pfStrings)
		case 1:
			h = encodeBase64(g.pick(pfStrings))
		case 2:
			h = base64Prefix + g.pick([]string{"!!!!", "aGk", "aGk=", "aGk==", "aG k=", "aGk=\n", "aGl=", "", "=", "====", "aGk=aGk=", "YQ", "YQ==", "YR==", "\r\naGk="}) + base64Suffix
		case 3:
			h = base64Prefix + base64.RawStdEncoding.EncodeToString([]byte(g.pick(pfStrings))) + base64Suffix
		case 4:
			h = base64Prefix + base64.URLEncoding.EncodeToString([]byte(g.pick(pfStrings))) + base64Suffix
		case 5:
			h = strings.ToUpper(base64Prefix) + base64.StdEncoding.EncodeToString([]byte("hi")) + base64Suffix
		case 6:
			h = base64Prefix + base64.StdEncoding.EncodeToString([]byte(g.pick(pfStrings)))
		default:
			h = base64.StdEncoding.EncodeToString([]byte(g.pick(pfStrings))) + base64Suffix
		}
		op = "dec s" + hxs(h)
		obs = pfSafe(func() string {
			d, ok := decodeHeaderValue(h)
			if !ok {
				return "bad"
			}
			return "d" + hxs(d)
		})
		tags = []string{"dec-" + obs[:1]}
	case "unprim":
		var j *pfJ
		if g.chance(40) {
			j = pfNum(g.pick(pfOddNums))
		} else {
			j = g.value(g.pick([]string{"string", "integer", "boolean"}), false)
		}
		if g.chance(5) {
			j = &pfJ{kind: 'z'}
		}
		op = "unprim " + j.tok()
		obs = pfSafe(func() string { return pfPrimTok(unmarshalPrimitive(json.RawMessage(j.json()))) })
		tags = []string{"unprim-" + string(j.kind) + "-" + obs[:1]}
	case "peq":
		v := g.prim()
		var h string
		switch n := v.(type) {
		case int64:
			switch g.rng.Intn(4) {
			case 0:
				h = strconv.FormatInt(n, 10)
			case 1:
				h = g.pick(pfIntHeaders)
			case 2:
				h = strconv.FormatInt(n, 10) + g.pick([]string{".0", "e0", ".5", "0", " ", "_", ".0000000000000001", "e-0"})
			default:
				h = g.pick([]string{"+", "0", "00", "0x"}) + strconv.FormatInt(n, 10)
			}
		default:
			s, _ := primitiveToString(v)
			switch g.rng.Intn(4) {
			case 0:
				h = s
			case 1:
				h = g.pick(pfStrings)
			case 2:
				h = strings.ToUpper(s)
			default:
				h = s + g.pick([]string{" ", "x", ""})
			}
		}
		op = "peq s" + hxs(h) + " " + pfPrimTok(v)
		obs = pfSafe(func() string { return pfBool(primitiveEqual(h, v)) })
		tags = []string{"peq-" + pfPrimTok(v)[:1] + "-" + obs}
	case "annot":
		ps := g.schema(g.chance(50))
		tool := &Tool{Name: "t", InputSchema: json.RawMessage(pfSchemaJSON(ps))}
		op = "annot " + pfPropsTok(ps)
		obs = pfSafe(func() string {
			v := "ok"
			if err := validateParamHeaderAnnotations(tool); err != nil {
				v = "err"
			}
			var items []string
			for _, b := range extractParamHeaderAnnotations(tool) {
				var p []string
				for _, s := range b.Path {
					p = append(p, "p"+hxs(s))
				}
				items = append(items, strings.Join(p, ".")+"=h"+hxs(b.Header))
			}
			sort.Strings(items)
			return strings.TrimSpace(v + " " + strings.Join(items, " "))
		})
		tags = []string{"annot-" + obs[:2], pfDepthTag(ps)}
	case "params":
		// extractName / extractRequestMeta on params as a foreign peer may send them (epoch 4 decoys: most cases)
		c := &pfHTTPCase{toolName: "tool", schema: g.validSchema()}
		method := g.pick([]string{"tools/call", "tools/call", "tools/call", "prompts/get", "resources/read", "resources/read", "ping", "tools/list", "initialize"})
		meta := ""
		if g.chance(60) {
			meta = pfMeta(g.pick(append([]string{protocolVersion20260728, protocolVersion20260728, "2027-01-01"}, pfOldVersions...)), g.chance(70))
		}
		text, _ := g.message(c, method, 1, true, meta, g.chance(75))
		var req struct {
			Params json.RawMessage `json:"params"`
		}
		_ = json.Unmarshal([]byte(text), &req)
		params := req.Params
		dtags := c.decoy.tags
		if len(dtags) == 0 && len(params) > 0 && params[0] == '{' && g.chance(75) {
			p2, d := g.decorate(method, string(params), c.schema, c.toolName, []string{"name", "name", "name", "args", "argkey", "meta", "metakey", "metakey", "stray"})
			params, dtags = json.RawMessage(p2), d.tags
		}
		op = "params M" + hxs(method) + " " + pfParamsTok(params)
		obs = pfSafe(func() string {
			name, nok := extractName(method, params)
			mv := ""
			if m := extractRequestMeta(params); m != nil {
				mv, _ = m[MetaKeyProtocolVersion].(string)
			}
			return "n" + pfB01(nok) + " N" + hxs(name) + " V" + hxs(mv)
		})
		tags = append([]string{"params-" + strings.ReplaceAll(method, "/", "-"), "params-" + obs[:2]}, dtags...)
	case "gen", "vph":
		ps := g.validSchema()
		tool := &Tool{Name: "t", InputSchema: json.RawMessage(pfSchemaJSON(ps))}
		params := g.callParams("t", ps, false)
		nb := len(extractParamHeaderAnnotations(tool))
		// epoch 4: params of a foreign peer - case-variant / repeated members next to `arguments`, `name` and inside the
		// arguments; the headers are then sometimes those a client would derive from the decoy instead of the real member
		hdrSrc := params
		var dtags []string
		if g.epoch >= 4 && g.chance(35) {
			p2, d := g.decorate("tools/call", string(params), ps, "t", []string{"args", "args", "argkey", "argkey", "name"})
			if kind == "vph" && g.chance(15) {
				p2, d = g.decorate("tools/call", string(params), ps, "t", []string{"argsdup"})
			}
			params = json.RawMessage(p2)
			hdrSrc = params
			dtags = d.tags
			if d.params != "" && g.chance(50) {
				hdrSrc = json.RawMessage(d.params)
				dtags = append(dtags, "decoy-aligned")
			}
		}
		if kind == "gen" {
			op = "gen " + pfPropsTok(ps) + " " + pfParamsTok(params)
			obs = pfSafe(func() string {
				h := http.Header{}
				for k, v := range generateParamHeaders(tool, params) {
					h[k] = []string{v} // keys as the function returns them; canonicalised for printing only
				}
				hh := http.Header{}
				for k, v := range h {
					hh[http.CanonicalHeaderKey(k)] = v
				}
				return pfParamHdrTok(hh)
			})
			tags = append([]string{"gen", fmt.Sprintf("gen-n%d", strings.Count(obs, "=")), pfDepthTag(ps)}, dtags...)
		} else {
			h := http.Header{}
			for k, v := range generateParamHeaders(tool, hdrSrc) {
				h.Set(k, v)
			}
			g.mutateParamHeaders(h, tool, params)
			op = "vph " + pfPropsTok(ps) + " " + pfParamsTok(params) + " " + pfParamHdrTok(h)
			obs = pfSafe(func() string {
				err := validateParamHeaders(h, &jsonrpc.Request{Method: "tools/call", Params: params}, tool)
				if err == nil {
					return "ok"
				}
				if nb == 1 {
					return "err " + pfErrKind(err)
				}
				return "err"
			})
			tags = append([]string{"vph-" + strings.ReplaceAll(obs, " ", "-"), pfDepthTag(ps)}, dtags...)
		}
	}
	return
}

// pfDepthTag: the length of the longest property-name path that carries an annotation, and whether some annotated
// property at that level has a sibling ("w": the shape in which sibling paths could alias).
func pfDepthTag(ps []*pfProp) string {
	best, wide := 0, false
	var walk func(ps []*pfProp, d int)
	walk = func(ps []*pfProp, d int) {
		for _, p := range ps {
			if p.xh != '-' {
				if d > best {
					best, wide = d, false
				}
				if d == best && len(ps) > 1 {
					wide = true
				}
			}
			walk(p.children, d+1)
		}
	}
	walk(ps, 1)
	if wide {
		return fmt.Sprintf("ann-depth%dw", best)
	}
	return fmt.Sprintf("ann-depth%d", best)
}

func (g *pfGen) validSchema() []*pfProp {
	for {
		ps := g.schema(true)
		if validateParamHeaderAnnotations(&Tool{Name: "t", InputSchema: json.RawMessage(pfSchemaJSON(ps))}) == nil {
			return ps
		}
	}
}

// callParams builds tools/call params for the schema; shapes of `arguments`: object (mostly), absent, null, non-object.
func (g *pfGen) callParams(name string, ps []*pfProp, validOnly bool, meta ...string) json.RawMessage {
	var members []string
	if len(meta) > 0 && meta[0] != "" {
		members = append(members, `"_meta":`+meta[0])
	}
	nm, _ := json.Marshal(name)
	members = append(members, `"name":`+string(nm))
	r := g.rng.Intn(100)
	switch {
	case validOnly || r < 88:
		members = append(members, `"arguments":`+g.args(ps, validOnly).json())
	case r < 91:
		// absent
	case r < 94:
		members = append(members, `"arguments":null`)
	case r < 97:
		members = append(members, `"arguments":"str"`)
	default:
		members = append(members, `"arguments":["a"]`)
	}
	return json.RawMessage("{" + strings.Join(members, ",") + "}")
}

// ---------------------------------------------------------------------------------------------
// Epoch 4: params as a foreign peer may send them - members whose names differ from a known member's only in case
// ("Name", "URI", "Arguments", "_META", ...), repeated members, before and after the real one, at the top level of
// params, inside `arguments` (at any depth) and inside `_meta`.

type pfMember struct{ k, raw string }

// pfSplitMembers splits the text of a JSON object into its members (source order, raw value texts).
func pfSplitMembers(text string) ([]pfMember, bool) {
	dec := json.NewDecoder(strings.NewReader(text))
	if t, err := dec.Token(); err != nil || t != json.Delim('{') {
		return nil, false
	}
	var out []pfMember
	for dec.More() {
		kt, err := dec.Token()
		if err != nil {
			return nil, false
		}
		k, ok := kt.(string)
		if !ok {
			return nil, false
		}
		var raw json.RawMessage
		if dec.Decode(&raw) != nil {
			return nil, false
		}
		out = append(out, pfMember{k, string(raw)})
	}
	return out, true
}

func pfJoinMembers(ms []pfMember) string {
	parts := make([]string, len(ms))
	for i, m := range ms {
		k, _ := json.Marshal(m.k)
		parts[i] = string(k) + ":" + m.raw
	}
	return "{" + strings.Join(parts, ",") + "}"
}

func pfInsertMember(ms []pfMember, at int, m pfMember) []pfMember {
	out := make([]pfMember, 0, len(ms)+1)
	out = append(out, ms[:at]...)
	out = append(out, m)
	return append(out, ms[at:]...)
}

// pfLastMember: index of the last member called exactly key (-1: none).
func pfLastMember(ms []pfMember, key string) int {
	idx := -1
	for i, m := range ms {
		if m.k == key {
			idx = i
		}
	}
	return idx
}

// pfStrictString is the harness's own reading of a string member: the last member called exactly key whose value is a
// string (what a client that mirrors the body puts into Mcp-Name).
func pfStrictString(ms []pfMember, key string) string {
	out := ""
	for _, m := range ms {
		if m.k == key {
			var s string
			if len(m.raw) > 0 && m.raw[0] == '"' && json.Unmarshal([]byte(m.raw), &s) == nil {
				out = s
			}
		}
	}
	return out
}

// caseVariant returns key with a random non-empty subset of its letters switched to the other case: every casing of
// the name other than the name itself ("" if the key has no letter).
func (g *pfGen) caseVariant(key string) string {
	var letters []int
	for i := 0; i < len(key); i++ {
		if c := key[i] | 0x20; c >= 'a' && c <= 'z' {
			letters = append(letters, i)
		}
	}
	if len(letters) == 0 {
		return ""
	}
	b := []byte(key)
	switch g.rng.Intn(4) {
	case 0: // first letter only ("Name", "Arguments")
		b[letters[0]] ^= 0x20
	case 1: // all letters ("NAME", "URI")
		for _, i := range letters {
			b[i] ^= 0x20
		}
	default: // a random non-empty subset
		n := 0
		for _, i := range letters {
			if g.chance(50) {
				b[i] ^= 0x20
				n++
			}
		}
		if n == 0 {
			b[letters[g.rng.Intn(len(letters))]] ^= 0x20
		}
	}
	return string(b)
}

// pfDecoy describes the member a decoration added.
type pfDecoy struct {
	kind   string   // name, args, argkey, meta, metakey, stray ("" = none)
	str    string   // the decoy's string value (a name / uri / protocol version), if it is one
	isStr  bool
	params string   // args / argkey: the params text in which the decoy took the real member's place (to derive headers from)
	tags   []string
}

// position draws where the decoy goes relative to the real member at index idx of a list of n: before or after it.
func (g *pfGen) position(idx, n int) (at int, where string) {
	if idx < 0 {
		return g.rng.Intn(n + 1), "alone"
	}
	if g.chance(50) {
		return g.rng.Intn(idx + 1), "before"
	}
	return idx + 1 + g.rng.Intn(n-idx), "after"
}

// otherValue: a value of the same JSON kind as v, but different.
func (g *pfGen) otherValue(v *pfJ) *pfJ {
	switch v.kind {
	case 's':
		return pfStr(v.s + g.pick([]string{"x", "-decoy", " ", "é"}))
	case 'n':
		if n, err := strconv.ParseInt(v.num, 10, 64); err == nil && n < 1<<52 && n > -(1<<52) {
			return pfNum(strconv.FormatInt(n+1+int64(g.rng.Intn(3)), 10))
		}
		return pfNum("7")
	case 'b':
		return &pfJ{kind: 'b', b: !v.b}
	case 'z':
		return pfStr("decoy")
	}
	return g.pick2(pfStr("decoy"), pfNum("7"))
}

func (g *pfGen) pick2(a, b *pfJ) *pfJ {
	if g.chance(50) {
		return a
	}
	return b
}

// decoyInObject adds to some object of the tree under o (o itself, or a nested object member, at any depth) a member
// whose name is a case variant of an existing member's name (sometimes the very name: a repeated member) and whose value
// differs. It returns the tree in which the decoy's value took the original member's place (nil if nothing was added).
func (g *pfGen) decoyInObject(o *pfJ) (swapped *pfJ, tags []string) {
	if o.kind != 'o' || len(o.fields) == 0 {
		return nil, nil
	}
	i := g.rng.Intn(len(o.fields))
	f := o.fields[i]
	if f.v.kind == 'o' && len(f.v.fields) > 0 && g.chance(60) {
		sw, tags := g.decoyInObject(f.v)
		if sw == nil {
			return nil, nil
		}
		cp := &pfJ{kind: 'o', fields: append([]pfField(nil), o.fields...)}
		cp.fields[i] = pfField{f.k, sw}
		return cp, tags
	}
	key, tag := g.caseVariant(f.k), "decoy-argkey"
	if key == "" || g.chance(10) {
		key, tag = f.k, "decoy-argkey-exactdup"
	}
	val := g.otherValue(f.v)
	at, where := g.position(i, len(o.fields))
	// the tree a client mirroring the DECOY would have sent: the decoy's value under the original name
	cp := &pfJ{kind: 'o', fields: append([]pfField(nil), o.fields...)}
	cp.fields[i] = pfField{f.k, val}
	if key == f.k && where == "before" {
		cp = nil // a repeated member before the real one is overwritten: nothing to mirror
	}
	nf := make([]pfField, 0, len(o.fields)+1)
	nf = append(nf, o.fields[:at]...)
	nf = append(nf, pfField{key, val})
	nf = append(nf, o.fields[at:]...)
	o.fields = nf
	if cp == nil {
		cp = &pfJ{kind: 'o', fields: append([]pfField(nil), o.fields...)}
	}
	return cp, []string{tag, tag + "-" + where}
}

// decorate adds one decoy member to the params text (kinds: which decorations are eligible).
func (g *pfGen) decorate(method, params string, schema []*pfProp, toolName string, kinds []string) (string, pfDecoy) {
	ms, ok := pfSplitMembers(params)
	if !ok {
		return params, pfDecoy{}
	}
	idKey := ""
	switch method {
	case "tools/call", "TOOLS/CALL", "prompts/get":
		idKey = "name"
	case "resources/read":
		idKey = "uri"
	}
	var elig []string
	for _, k := range kinds {
		switch k {
		case "name":
			if idKey != "" {
				elig = append(elig, k)
			}
		case "args", "argkey", "argsdup":
			if method == "tools/call" {
				elig = append(elig, k)
			}
		case "metakey":
			if i := pfLastMember(ms, "_meta"); i >= 0 && strings.HasPrefix(ms[i].raw, "{") {
				elig = append(elig, k)
			}
		default:
			elig = append(elig, k)
		}
	}
	if len(elig) == 0 {
		return params, pfDecoy{}
	}
	d := pfDecoy{kind: elig[g.rng.Intn(len(elig))]}
	quote := func(s string) string { b, _ := json.Marshal(s); return string(b) }
	switch d.kind {
	case "name":
		key, tag := g.caseVariant(idKey), "decoy-"+idKey
		if g.chance(12) {
			key, tag = idKey, "decoy-"+idKey+"-exactdup"
		}
		var raw string
		if g.chance(80) {
			if idKey == "uri" {
				d.str = g.pick([]string{"file:///r", "file:///r", "file:///none", "file:///secret", ""})
			} else {
				d.str = g.pick([]string{"plain", "plain", toolName, toolName, "pr", "nosuch", "T", ""})
			}
			d.isStr = true
			raw = quote(d.str)
		} else {
			raw = g.pick([]string{"5", "null", `{"x":1}`, `["a"]`, "true"})
		}
		at, where := g.position(pfLastMember(ms, idKey), len(ms))
		ms = pfInsertMember(ms, at, pfMember{key, raw})
		d.tags = []string{tag, tag + "-" + where}
	case "args":
		key := g.caseVariant("arguments")
		var raw string
		switch r := g.rng.Intn(100); {
		case r < 70:
			raw = g.args(schema, true).json()
		case r < 80:
			raw = "null"
		case r < 90:
			raw = `"str"`
		default:
			raw = "{}"
		}
		idx := pfLastMember(ms, "arguments")
		// what a client mirroring the decoy would have sent
		sw := append([]pfMember(nil), ms...)
		if idx >= 0 {
			sw[idx] = pfMember{"arguments", raw}
		} else {
			sw = append(sw, pfMember{"arguments", raw})
		}
		d.params = pfJoinMembers(sw)
		at, where := g.position(idx, len(ms))
		ms = pfInsertMember(ms, at, pfMember{key, raw})
		d.tags = []string{"decoy-arguments", "decoy-arguments-" + where}
	case "argsdup":
		// a second member called exactly `arguments`: the dispatcher (a json.RawMessage field) keeps the last one
		idx := pfLastMember(ms, "arguments")
		if idx < 0 || !strings.HasPrefix(ms[idx].raw, "{") {
			return params, pfDecoy{}
		}
		var raw string
		switch r := g.rng.Intn(100); {
		case r < 70:
			raw = g.args(schema, true).json()
		case r < 85:
			raw = "{}"
		case r < 93:
			raw = "null"
		default:
			raw = `"str"`
		}
		at, where := g.position(idx, len(ms))
		// what a peer aiming at a decoder that MERGES repeated members would mirror: all entries of both
		if a, ok := pfSplitMembers(ms[idx].raw); ok {
			if b, ok := pfSplitMembers(raw); ok {
				merged := append(append([]pfMember(nil), a...), b...)
				if where == "before" {
					merged = append(append([]pfMember(nil), b...), a...)
				}
				sw := append([]pfMember(nil), ms...)
				sw[idx] = pfMember{"arguments", pfJoinMembers(merged)}
				d.params = pfJoinMembers(sw)
			}
		}
		ms = pfInsertMember(ms, at, pfMember{"arguments", raw})
		d.kind = "args"
		d.tags = []string{"decoy-arguments-exactdup", "decoy-arguments-exactdup-" + where}
	case "argkey":
		idx := pfLastMember(ms, "arguments")
		if idx < 0 {
			return params, pfDecoy{}
		}
		o, err := pfParseOrdered([]byte(ms[idx].raw))
		if err != nil || o.kind != 'o' {
			return params, pfDecoy{}
		}
		sw, tags := g.decoyInObject(o)
		if sw == nil {
			return params, pfDecoy{}
		}
		swm := append([]pfMember(nil), ms...)
		swm[idx] = pfMember{"arguments", sw.json()}
		d.params = pfJoinMembers(swm)
		ms[idx] = pfMember{"arguments", o.json()}
		d.tags = tags
	case "meta":
		key, tag := g.caseVariant("_meta"), "decoy-meta"
		if g.chance(12) {
			key, tag = "_meta", "decoy-meta-exactdup"
		}
		var raw string
		if g.chance(80) {
			d.str = g.pick([]string{protocolVersion20260728, protocolVersion20260728, protocolVersion20251125, protocolVersion20250618, protocolVersion20250326, "2027-01-01"})
			d.isStr = true
			raw = pfMeta(d.str, g.chance(70))
		} else {
			raw = g.pick([]string{"null", "5", "{}", `"m"`})
		}
		at, where := g.position(pfLastMember(ms, "_meta"), len(ms))
		ms = pfInsertMember(ms, at, pfMember{key, raw})
		d.tags = []string{tag, tag + "-" + where}
	case "metakey":
		idx := pfLastMember(ms, "_meta")
		mm, ok := pfSplitMembers(ms[idx].raw)
		if !ok {
			return params, pfDecoy{}
		}
		key, tag := g.caseVariant(pfMetaKeyV), "decoy-metakey"
		if g.chance(12) {
			key, tag = pfMetaKeyV, "decoy-metakey-exactdup"
		}
		var raw string
		if g.chance(85) {
			d.str = g.pick([]string{protocolVersion20260728, protocolVersion20251125, protocolVersion20250618, protocolVersion20250326, "2027-01-01"})
			d.isStr = true
			raw = quote(d.str)
		} else {
			raw = g.pick([]string{"5", "null", "{}"})
		}
		at, where := g.position(pfLastMember(mm, pfMetaKeyV), len(mm))
		mm = pfInsertMember(mm, at, pfMember{key, raw})
		ms[idx] = pfMember{"_meta", pfJoinMembers(mm)}
		d.tags = []string{tag, tag + "-" + where}
	default: // stray: a member that means something for another method only
		key := g.caseVariant(g.pick([]string{"name", "uri", "arguments"}))
		at, _ := g.position(-1, len(ms))
		ms = pfInsertMember(ms, at, pfMember{key, g.pick([]string{`"tool"`, `"plain"`, `{"a":1}`, "5", "null"})})
		d.tags = []string{"decoy-stray"}
	}
	d.tags = append(d.tags, "decoy")
	return pfJoinMembers(ms), d
}

// mutateParamHeaders perturbs client-correct Mcp-Param-* headers: each binding independently
// kept / dropped / mismatching / re-encoded / broken / emptied; sometimes a header for an absent argument is added.
func (g *pfGen) mutateParamHeaders(h http.Header, tool *Tool, params json.RawMessage) {
	if g.chance(45) {
		return // client-correct
	}
	var raw struct {
		Arguments map[string]json.RawMessage `json:"arguments"`
	}
	_ = pfUnmarshal(params, &raw)
	for _, b := range extractParamHeaderAnnotations(tool) {
		key := paramHeaderPrefix + b.Header
		cur := h.Get(key)
		argRaw, _ := lookupArgument(raw.Arguments, b.Path)
		r := g.rng.Intn(100)
		switch {
		case r < 40:
			// keep
		case r < 50:
			h.Del(key)
		case r < 60:
			h.Set(key, g.pick(pfStrings))
		case r < 70:
			if cur != "" {
				if d, ok := decodeHeaderValue(cur); ok {
					h.Set(key, encodeBase64(d)) // encoded although not required (or re-encoded)
				}
			} else {
				h.Set(key, encodeBase64(""))
			}
		case r < 76:
			h.Set(key, base64Prefix+g.pick([]string{"!!!", "aGk", "a", "===="})+base64Suffix)
		case r < 82:
			h.Set(key, "")
		case r < 92:
			// numeric respellings / near misses for integers, case changes for others
			if v, ok := unmarshalPrimitive(argRaw).(int64); ok {
				s := strconv.FormatInt(v, 10)
				h.Set(key, g.pick([]string{s + ".0", "+" + s, s + "e0", "0" + s, s + ".5", s + "1", s + " ", strconv.FormatInt(v+1, 10), g.pick(pfIntHeaders)}))
			} else if cur != "" {
				h.Set(key, g.pick([]string{strings.ToUpper(cur), cur + "x", " " + cur, "True", "1"}))
			}
		default:
			h.Set(key, g.pick(pfIntHeaders))
		}
	}
}

// ---------------------------------------------------------------------------------------------
// Level 2: whole ServeHTTP calls.

type pfAddr string

func (a pfAddr) Network() string { return "tcp" }
func (a pfAddr) String() string  { return string(a) }

type pfCounters struct {
	mw, h atomic.Int64
	mu    sync.Mutex
	names []string // what the tool / prompt / resource handlers were run for (Params.Name / Params.URI as decoded by the dispatcher)
}

func (c *pfCounters) saw(name string) {
	c.h.Add(1)
	c.mu.Lock()
	c.names = append(c.names, name)
	c.mu.Unlock()
}

// seen: "X=" field of the observation: the names the handlers saw, sorted, hex, comma-separated ("-": none).
func (c *pfCounters) seen() string {
	c.mu.Lock()
	defer c.mu.Unlock()
	if len(c.names) == 0 {
		return "-"
	}
	hs := make([]string, len(c.names))
	for i, n := range c.names {
		hs[i] = hxs(n)
	}
	sort.Strings(hs)
	return strings.Join(hs, ",")
}

func pfServer(cnt *pfCounters, toolName string, schema []*pfProp, noSID bool) *Server {
	var sopts *ServerOptions
	if noSID {
		// a server that issues no session ids: a stateful handler serves every POST on an ephemeral session
		sopts = &ServerOptions{GetSessionID: func() string { return "" }}
	}
	s := NewServer(&Implementation{Name: "verif", Version: "1"}, sopts)
	s.AddReceivingMiddleware(func(next MethodHandler) MethodHandler {
		return func(ctx context.Context, method string, req Request) (Result, error) {
			cnt.mw.Add(1)
			return next(ctx, method, req)
		}
	})
	if toolName != "" {
		s.AddTool(&Tool{Name: toolName, InputSchema: json.RawMessage(pfSchemaJSON(schema))}, func(ctx context.Context, req *CallToolRequest) (*CallToolResult, error) {
			cnt.saw(req.Params.Name)
			return &CallToolResult{}, nil
		})
	}
	s.AddTool(&Tool{Name: "plain", InputSchema: json.RawMessage(`{"type":"object"}`)}, func(ctx context.Context, req *CallToolRequest) (*CallToolResult, error) {
		cnt.saw(req.Params.Name)
		return &CallToolResult{}, nil
	})
	s.AddPrompt(&Prompt{Name: "pr"}, func(ctx context.Context, req *GetPromptRequest) (*GetPromptResult, error) {
		cnt.saw(req.Params.Name)
		return &GetPromptResult{}, nil
	})
	s.AddResource(&Resource{URI: "file:///r", Name: "r"}, func(ctx context.Context, req *ReadResourceRequest) (*ReadResourceResult, error) {
		cnt.saw(req.Params.URI)
		return &ReadResourceResult{Contents: []*ResourceContents{{URI: "file:///r", Text: "x"}}}, nil
	})
	return s
}

// pfStreamRec is a concurrency-safe recording ResponseWriter for long-lived SSE responses.
type pfStreamRec struct {
	mu     sync.Mutex
	hdr    http.Header
	status int
	buf    bytes.Buffer
	notify chan struct{}
}

func newPfStreamRec() *pfStreamRec {
	return &pfStreamRec{hdr: http.Header{}, notify: make(chan struct{}, 1)}
}
func (r *pfStreamRec) Header() http.Header { return r.hdr }
func (r *pfStreamRec) WriteHeader(s int) {
	r.mu.Lock()
	if r.status == 0 {
		r.status = s
	}
	r.mu.Unlock()
	r.ping()
}
func (r *pfStreamRec) Write(b []byte) (int, error) {
	r.mu.Lock()
	if r.status == 0 {
		r.status = 200
	}
	r.buf.Write(b)
	r.mu.Unlock()
	r.ping()
	return len(b), nil
}
func (r *pfStreamRec) Flush() {}
func (r *pfStreamRec) ping() {
	select {
	case r.notify <- struct{}{}:
	default:
	}
}
func (r *pfStreamRec) text() string {
	r.mu.Lock()
	defer r.mu.Unlock()
	return r.buf.String()
}

const pfMetaKeyV = MetaKeyProtocolVersion

// pfMsg is one generated JSON-RPC message of a body.
type pfMsg struct {
	text string
}

type pfHTTPCase struct {
	kind       string // sl, sf, sse
	disabled   bool
	localAddr  string // "" = none
	host       string
	originCfg  bool
	origin     string // Origin header ("" none)
	secFetch   string
	method     string
	ctype      string
	hasCT      bool
	accept     []string
	version    string
	sess       string // n, k, u
	lastEvent  bool
	limit      int64
	body       []byte
	mcpMethod  *string
	mcpName    *string
	paramHdr   http.Header
	toolName   string
	schema     []*pfProp
	jsonResp   bool
	cancelled  bool
	wantsKnown bool
	sizeClass  string
	muts       []string
	// body delivery: "cl" declared length (Content-Length), "ch" no declared length (chunked upload), delivered at once,
	// "dr" no declared length, delivered in small pieces, "ab" the upload breaks off after abortAt bytes
	// (with or without a declared length)
	bodyMode  string
	abortAt   int
	abortDecl bool
	noSID     bool // the server's GetSessionID returns "" (stateful handler: ephemeral sessions)
	famTags   []string // array-body family: element count, header-version class, _meta-version classes
	wire      bool // send the request over a real loopback socket through net/http's server instead of calling ServeHTTP
	decoy     pfDecoy  // epoch 4: the decoy member the last generated message carries (kind "" = none)
	decoyTags []string // the decoys of the base message
}

var pfOldVersions = []string{protocolVersion20251125, protocolVersion20250618, protocolVersion20250326, protocolVersion20241105}
var pfBadVersions = []string{"2025-01-01", "1999", "garbage", "2026-07-27", "3", "2026-07-28 ", " 2025-06-18", "2025-06-18x", "2026", "2027-01-01", "2026-07-29", "9", "~"}
var pfHosts = []string{"localhost", "localhost:8080", "127.0.0.1", "127.0.0.1:9", "[::1]:9", "[::1]", "::1", "127.5.5.5:1", "evil.com", "evil.com:80", "127.0.0.1.evil.com", "", "LOCALHOST", "localhost.", "0.0.0.0", "192.168.1.5:80", "[::ffff:127.0.0.1]:80", "localhost:8080:1"}
var pfLocalAddrs = []string{"127.0.0.1:8080", "[::1]:80", "192.168.1.5:80", "0.0.0.0:80", "127.9.9.9:1", "10.0.0.1:443", ""}
var pfCTypes = []string{"application/json", "application/json; charset=utf-8", "APPLICATION/JSON", "application/json;", "text/plain", "", "application/jsonx", " application/json", "application/json, text/plain",
	"application/json; charset", "text/plain; application/json", "application/*", "*/*", "application/x-www-form-urlencoded", "Application/Json ; q=1", "application/json;charset=\"utf-8\"", "application / json"}
var pfMethods = []string{"tools/call", "tools/call", "tools/call", "prompts/get", "resources/read", "tools/list", "ping", "initialize", "notifications/initialized", "server/discover", "unknown/method", "notifications/cancelled", "notifications/unknown", "resources/list", "TOOLS/CALL"}

func pfMeta(version string, extra bool) string {
	v, _ := json.Marshal(version)
	m := `{"` + pfMetaKeyV + `":` + string(v)
	if extra {
		m += `,"` + MetaKeyClientCapabilities + `":{},"` + MetaKeyClientInfo + `":{"name":"c","version":"1"}`
	}
	return m + "}"
}

// message builds one JSON-RPC message text. meta: "" none, else the _meta JSON.
func (g *pfGen) message(c *pfHTTPCase, method string, id int, withID bool, meta string, validArgs bool) (text string, name string) {
	var params string
	switch method {
	case "tools/call", "TOOLS/CALL":
		name = c.toolName
		if g.chance(12) {
			name = g.pick([]string{"plain", "nosuch", "", "T"})
		}
		params = string(g.callParams(name, c.schema, validArgs, meta))
		if g.chance(3) {
			params = `{"name":5}`
		}
	case "prompts/get":
		name = g.pick([]string{"pr", "pr", "nosuch", ""})
		nm, _ := json.Marshal(name)
		params = `{"name":` + string(nm)
		if g.chance(10) {
			params += `,"arguments":{"a":5}` // GetPromptParams.Arguments is map[string]string: extractName fails
		}
		if meta != "" {
			params += `,"_meta":` + meta
		}
		params += "}"
	case "resources/read":
		name = g.pick([]string{"file:///r", "file:///r", "file:///none", ""})
		nm, _ := json.Marshal(name)
		params = `{"uri":` + string(nm)
		if meta != "" {
			params += `,"_meta":` + meta
		}
		params += "}"
	case "initialize":
		params = `{"protocolVersion":"2025-06-18","capabilities":{},"clientInfo":{"name":"c","version":"1"}`
		if meta != "" {
			params += `,"_meta":` + meta
		}
		params += "}"
	default:
		if meta != "" {
			params = `{"_meta":` + meta + `}`
		} else if g.chance(50) {
			params = `{}`
		}
	}
	c.decoy = pfDecoy{}
	if g.epoch >= 4 && strings.HasPrefix(params, "{") && g.chance(24) {
		kinds := []string{"name", "name", "name", "name", "args", "argkey", "argsdup", "meta", "metakey", "metakey"}
		if method != "tools/call" && method != "TOOLS/CALL" && method != "prompts/get" && method != "resources/read" {
			kinds = []string{"meta", "metakey", "metakey", "stray"}
		}
		params, c.decoy = g.decorate(method, params, c.schema, c.toolName, kinds)
		if g.chance(25) {
			// a second, independent decoy
			var d2 pfDecoy
			params, d2 = g.decorate(method, params, c.schema, c.toolName, kinds)
			c.decoy.tags = append(c.decoy.tags, d2.tags...)
			if c.decoy.kind == "" {
				c.decoy = d2
			}
		}
		// the name a client mirroring the body announces: the last member called exactly name / uri
		if ms, ok := pfSplitMembers(params); ok {
			switch method {
			case "tools/call", "TOOLS/CALL", "prompts/get":
				name = pfStrictString(ms, "name")
			case "resources/read":
				name = pfStrictString(ms, "uri")
			}
		}
	}
	var sb strings.Builder
	sb.WriteString(`{"jsonrpc":"2.0"`)
	if withID {
		fmt.Fprintf(&sb, `,"id":%d`, id)
	}
	m, _ := json.Marshal(method)
	sb.WriteString(`,"method":` + string(m))
	if params != "" && !(g.chance(4)) {
		sb.WriteString(`,"params":` + params)
	}
	sb.WriteString("}")
	return sb.String(), name
}

func pfIsNotification(method string) bool { return strings.HasPrefix(method, "notifications/") }

// pfVersionClass names the class of a version string for the tags: none, batch-ok (a supported version under which
// arrays are legal), no-batch (supported, ≥ 2025-06-18, before 2026-07-28), new (2026-07-28), bad (anything else).
func pfVersionClass(v string) string {
	switch v {
	case "":
		return "none"
	case protocolVersion20250326, protocolVersion20241105:
		return "batch-ok"
	case protocolVersion20250618, protocolVersion20251125:
		return "no-batch"
	case protocolVersion20260728:
		return "new"
	}
	return "bad"
}

// arrayBody generates the elements of a JSON-array body (1..3 of them) and sets the version header of the case:
// every header-version class (absent, each legacy version, 2026-07-28, unsupported) × for every request element
// every _meta version class (absent, equal to the header, each legacy version, 2026-07-28, unsupported, not a
// string); elements are calls, notifications and responses (mixed batches). Most elements before the last are such
// that they pass the per-message gates, so that the gates meet the later ones too.
func (g *pfGen) arrayBody(c *pfHTTPCase, baseMethod string) []string {
	switch r := g.rng.Intn(100); {
	case r < 22:
		c.version = ""
	case r < 40:
		c.version = protocolVersion20250326
	case r < 58:
		c.version = protocolVersion20241105
	case r < 67:
		c.version = protocolVersion20250618
	case r < 75:
		c.version = protocolVersion20251125
	case r < 90:
		c.version = protocolVersion20260728
	default:
		c.version = g.pick(pfBadVersions)
	}
	if g.chance(70) {
		c.mcpMethod, c.mcpName = nil, nil
		c.paramHdr = http.Header{}
	}
	metaOf := func(last bool) (string, string) {
		var mv string
		r := g.rng.Intn(100)
		if !last {
			r = r * 6 / 10 // elements before the last: mostly no _meta or the header's version
		}
		switch {
		case r < 28:
			return "", "none"
		case r < 44:
			mv = c.version
			if mv == "" {
				return "", "none"
			}
		case r < 74:
			mv = protocolVersion20260728
		case r < 86:
			mv = g.pick(pfOldVersions)
		case r < 95:
			mv = g.pick([]string{"2027-01-01", "garbage", "2026-07-29", "1999", " "})
		default:
			return `{"` + pfMetaKeyV + `":5}`, "notstring"
		}
		return pfMeta(mv, g.chance(85)), pfVersionClass(mv)
	}
	n := 1 + g.rng.Intn(3)
	var msgs []string
	classes := map[string]bool{}
	for i := 0; i < n; i++ {
		last := i == n-1
		switch r := g.rng.Intn(100); {
		case r < 8:
			msgs = append(msgs, fmt.Sprintf(`{"jsonrpc":"2.0","id":%d,"result":{}}`, 70+i))
			classes["response"] = true
		default:
			m := g.pick([]string{"tools/call", "tools/call", "ping", "ping", "tools/list", "prompts/get", "resources/read", "notifications/initialized", "notifications/cancelled", "server/discover", "resources/list", baseMethod, g.pick(pfMethods)})
			meta, cl := metaOf(last)
			t, _ := g.message(c, m, i+1, !pfIsNotification(m), meta, true)
			msgs = append(msgs, t)
			classes[cl] = true
		}
	}
	var cls []string
	for k := range classes {
		cls = append(cls, k)
	}
	sort.Strings(cls)
	c.famTags = []string{"array-family", fmt.Sprintf("arr-n%d", n), "arr-hv-" + pfVersionClass(c.version)}
	for _, k := range cls {
		c.famTags = append(c.famTags, "arr-mv-"+k)
	}
	c.famTags = append(c.famTags, "arr-hv-"+pfVersionClass(c.version)+"-mv-"+strings.Join(cls, "+"))
	return msgs
}

// httpCase generates one whole request: a valid base request of one of several families, then 0–3 perturbations.
func (g *pfGen) httpCase() *pfHTTPCase {
	c := &pfHTTPCase{method: "POST", ctype: "application/json", hasCT: true, accept: []string{"application/json, text/event-stream"},
		localAddr: "127.0.0.1:8080", host: "localhost:8080", sess: "n", paramHdr: http.Header{}, toolName: "tool"}
	c.schema = g.validSchema()
	switch r := g.rng.Intn(100); {
	case r < 62:
		c.kind = "sl"
	case r < 87:
		c.kind = "sf"
	default:
		c.kind = "sse"
	}
	newProto := c.kind == "sl" && g.chance(70)
	if c.kind == "sf" && g.chance(12) {
		newProto = true
	}
	var method string
	if newProto {
		c.version = protocolVersion20260728
		method = g.pick(pfMethods)
		if g.chance(50) {
			method = "tools/call"
		}
	} else {
		c.version = g.pick(append([]string{""}, pfOldVersions...))
		method = g.pick(pfMethods)
	}
	if c.kind == "sf" {
		c.sess = g.pick([]string{"n", "k", "k", "u"})
		if g.chance(12) {
			c.method = g.pick([]string{"GET", "DELETE"})
		}
	}
	if c.kind == "sse" {
		c.sess = g.pick([]string{"k", "k", "k", "n", "u"})
		c.accept = nil
	}
	meta := ""
	if newProto {
		meta = pfMeta(c.version, true)
	}
	withID := !pfIsNotification(method)
	text, name := g.message(c, method, 1, withID, meta, g.chance(75))
	msgs := []string{text}
	batch := false
	// client-correct standard headers for the base request
	if newProto {
		mm := method
		c.mcpMethod = &mm
		if method == "tools/call" || method == "prompts/get" || method == "resources/read" {
			nn := name
			c.mcpName = &nn
		}
		if method == "tools/call" && name == c.toolName {
			var req struct {
				Params json.RawMessage `json:"params"`
			}
			if json.Unmarshal([]byte(text), &req) == nil && req.Params != nil {
				tool := &Tool{Name: c.toolName, InputSchema: json.RawMessage(pfSchemaJSON(c.schema))}
				for k, v := range generateParamHeaders(tool, req.Params) {
					c.paramHdr.Set(k, v)
				}
				g.mutateParamHeaders(c.paramHdr, tool, req.Params)
			}
		}
	}
	// epoch 4: StreamableHTTPOptions.JSONResponse is a dimension of the configuration, not only a perturbation
	if g.epoch >= 4 && c.kind != "sse" && g.chance(18) {
		c.jsonResp = true
		c.decoyTags = append(c.decoyTags, "cfg-json-response")
	}
	// epoch 4: the base message carries a decoy member: the headers sometimes mirror the DECOY (what a peer would send
	// to make an intermediary route on one value and the server act on another)
	if d := c.decoy; d.kind != "" {
		c.decoyTags = append(c.decoyTags, d.tags...)
		if g.chance(55) {
			aligned := false
			switch {
			case d.kind == "name" && d.isStr && newProto:
				v := d.str
				c.mcpName = &v
				aligned = true
			case (d.kind == "args" || d.kind == "argkey") && d.params != "" && newProto && method == "tools/call" && name == c.toolName:
				tool := &Tool{Name: c.toolName, InputSchema: json.RawMessage(pfSchemaJSON(c.schema))}
				c.paramHdr = http.Header{}
				for k, v := range generateParamHeaders(tool, json.RawMessage(d.params)) {
					c.paramHdr.Set(k, v)
				}
				aligned = true
			case (d.kind == "meta" || d.kind == "metakey") && d.isStr:
				c.version = d.str
				aligned = true
			}
			if aligned {
				c.decoyTags = append(c.decoyTags, "decoy-aligned", "decoy-aligned-"+d.kind)
			}
		}
	}
	// epoch 3: the array-body family (readBatch's isBatch) replaces the base body
	family := false
	if g.epoch >= 3 && c.kind != "sse" && g.chance(16) {
		family = true
		msgs = g.arrayBody(c, method)
		batch = true
	}
	// perturbations
	nmut := []int{0, 0, 1, 1, 1, 2, 2, 3}[g.rng.Intn(8)]
	if family && g.chance(55) {
		nmut = 0 // most array bodies meet the gates with nothing else wrong
	}
	for i := 0; i < nmut; i++ {
		nmk := 19
		if g.epoch >= 2 {
			nmk = 21
		}
		mk := g.rng.Intn(nmk)
		c.muts = append(c.muts, "mut-"+[]string{"host", "listener", "protection-off", "origin", "method", "ctype", "accept", "version", "session", "last-event-id", "size", "body", "meta", "mcp-method", "mcp-name", "param-extra", "json-response", "std-headers-flip", "bad-version", "size-undeclared", "delivery"}[mk])
		switch mk {
		case 19:
			// a body around the limit uploaded without a declared length
			c.limit = []int64{-1, 1, -2, -2, -4, -4, -5}[g.rng.Intn(7)]
			c.bodyMode = g.pick([]string{"ch", "dr"})
		case 20:
			c.bodyMode = g.pick([]string{"ch", "dr", "ab", "ab"})
		case 0:
			c.host = g.pick(pfHosts)
		case 1:
			c.localAddr = g.pick(pfLocalAddrs)
			c.host = g.pick(pfHosts)
		case 2:
			c.disabled = true
			c.host = g.pick(pfHosts)
		case 3:
			c.originCfg = g.chance(70)
			c.origin = g.pick([]string{"https://evil.example", "http://localhost:8080", "null", ""})
			c.secFetch = g.pick([]string{"", "", "cross-site", "same-origin", "none"})
			if g.chance(30) {
				c.host = g.pick(pfHosts)
			}
		case 4:
			c.method = g.pick([]string{"GET", "DELETE", "PUT", "PATCH", "HEAD", "OPTIONS", "POST"})
		case 5:
			c.ctype = g.pick(pfCTypes)
			c.hasCT = c.ctype != "" || g.chance(50)
		case 6:
			c.accept = g.acceptValues()
		case 7:
			c.version = g.pick(append(append([]string{"", protocolVersion20260728}, pfOldVersions...), pfBadVersions...))
		case 8:
			c.sess = g.pick([]string{"n", "k", "u"})
		case 9:
			c.lastEvent = true
		case 10:
			// body size relative to the limit: decided below
			c.limit = []int64{-1, -1, 1, -2, -3, -4, -5}[g.rng.Intn(7)] // placeholders resolved after the body is known
		case 11:
			switch g.rng.Intn(7) {
			case 0:
				msgs = nil // empty body
			case 1:
				msgs = []string{g.pick([]string{"7", "{", "nope", "[]", `{"jsonrpc":"2.0"}`, `{"jsonrpc":"1.0","id":1,"method":"ping"}`, `[{"jsonrpc":"2.0","id":1,"method":"ping"},5]`, `{"id":1,"method":"ping"}`, `"str"`, `null`, ` `})}
				batch = false
			case 2, 3:
				batch = true
				if g.chance(60) {
					m2 := g.pick(pfMethods)
					t2, _ := g.message(c, m2, 2, !pfIsNotification(m2), g.pick([]string{"", "", meta, pfMeta(protocolVersion20260728, true)}), true)
					msgs = append(msgs, t2)
				}
				if g.chance(30) {
					msgs = append(msgs, `{"jsonrpc":"2.0","id":77,"result":{}}`)
				}
			case 4:
				msgs = []string{`{"jsonrpc":"2.0","id":5,"result":{}}`}
			case 5:
				// id / notification mismatch
				t2, _ := g.message(c, method, 1, !withID, meta, true)
				msgs = []string{t2}
			default:
				m2 := g.pick(pfMethods)
				t2, n2 := g.message(c, m2, 1, !pfIsNotification(m2), meta, true)
				msgs = []string{t2}
				_ = n2
			}
		case 12:
			// _meta version perturbation
			mv := g.pick([]string{"", protocolVersion20260728, protocolVersion20251125, "2027-01-01", "garbage"})
			m := ""
			if mv != "" {
				m = pfMeta(mv, g.chance(80))
			}
			if g.chance(10) {
				m = `{"` + pfMetaKeyV + `":5}`
			}
			t2, _ := g.message(c, method, 1, withID, m, true)
			if len(msgs) == 0 {
				msgs = []string{t2}
			} else {
				msgs[0] = t2
			}
		case 13:
			switch g.rng.Intn(5) {
			case 0:
				c.mcpMethod = nil
			case 1:
				s := g.pick(pfMethods)
				c.mcpMethod = &s
			case 2:
				s := strings.ToUpper(method)
				c.mcpMethod = &s
			case 3:
				s := encodeBase64(method)
				c.mcpMethod = &s
			default:
				s := ""
				c.mcpMethod = &s
			}
		case 14:
			switch g.rng.Intn(6) {
			case 0:
				c.mcpName = nil
			case 1:
				s := g.pick([]string{"tool", "plain", "pr", "file:///r", "other", "TOOL"})
				c.mcpName = &s
			case 2:
				s := strings.ToUpper(name)
				c.mcpName = &s
			case 3:
				s := encodeBase64(name)
				c.mcpName = &s
			case 4:
				s := name + " "
				c.mcpName = &s
			default:
				s := ""
				c.mcpName = &s
			}
		case 15:
			// a param header for nothing / wrong name
			c.paramHdr.Set(paramHeaderPrefix+g.pick(pfHeaderNames), g.pick(pfStrings))
		case 16:
			c.jsonResp = true
		case 17:
			// standard headers although old protocol, or none although new
			if c.mcpMethod == nil {
				s := method
				c.mcpMethod = &s
			} else {
				c.mcpMethod, c.mcpName = nil, nil
			}
		default:
			c.version = g.pick(pfBadVersions)
		}
	}
	// body text
	var body string
	switch {
	case len(msgs) == 0:
		body = ""
	case batch:
		body = "[" + strings.Join(msgs, ",") + "]"
	default:
		body = msgs[0]
	}
	// size classes relative to the limit
	c.sizeClass = "size-default"
	if c.limit != 0 {
		c.sizeClass = map[int64]string{-1: "size-eq-limit", 1: "size-limit-minus1", -2: "size-limit-plus1", -3: "size-limit1", -4: "size-padded-plus1", -5: "size-padded-eq"}[c.limit]
	}
	switch c.limit {
	case 0:
		if g.chance(3) {
			c.limit = -1 // unlimited
			c.sizeClass = "size-unlimited"
		}
	case -1:
		c.limit = int64(len(body)) // body = limit
	case 1:
		c.limit = int64(len(body)) + 1 // body = limit-1
	case -2:
		c.limit = int64(len(body)) - 1 // body = limit+1
		if c.limit <= 0 {
			c.limit = 1
			body = "  "
		}
	case -3:
		c.limit = 1
		if g.chance(50) {
			body = "7" // one byte, at the limit
		}
	case -4:
		// pad the body up to exactly limit+1 with leading blanks
		c.limit = int64(len(body)) + int64(g.rng.Intn(40))
		body = strings.Repeat(" ", int(c.limit)+1-len(body)) + body
	case -5:
		c.limit = int64(len(body)) + int64(g.rng.Intn(40))
		body = strings.Repeat(" ", int(c.limit)-len(body)) + body
	}
	c.body = []byte(body)
	if g.epoch >= 2 {
		if c.bodyMode == "" {
			switch r := g.rng.Intn(100); {
			case r < 70:
				c.bodyMode = "cl"
			case r < 82:
				c.bodyMode = "ch"
			case r < 94:
				c.bodyMode = "dr"
			default:
				c.bodyMode = "ab"
			}
		}
		if c.bodyMode == "ab" {
			if len(c.body) == 0 {
				c.bodyMode = "ch"
			} else {
				c.abortAt = g.rng.Intn(len(c.body))
				if g.chance(30) {
					c.abortAt = len(c.body) - 1
				}
				if (c.sizeClass == "size-default" || c.sizeClass == "size-unlimited") && g.chance(40) {
					// the upload breaks off inside trailing white space: what did arrive is a complete JSON text
					n := len(c.body)
					c.body = append(c.body, []byte(strings.Repeat(" ", 1+g.rng.Intn(4))+"\n")...)
					c.abortAt = n + g.rng.Intn(len(c.body)-n)
				}
				c.abortDecl = g.chance(50)
			}
		}
		c.wire = c.kind != "sse" && c.localAddr == "127.0.0.1:8080" && c.bodyMode != "ab" && g.chance(20)
		c.noSID = c.kind == "sf" && g.chance(15)
	} else {
		c.bodyMode = "cl"
	}
	return c
}

// One real net/http server on a loopback socket for all wire-mode cases (a server per case would wait out net/http's
// 500 ms RST-avoidance delay on every refused upload when it is closed). Cases register their handler under a
// unique path; every request uses a fresh connection.
var (
	pfWireOnce     sync.Once
	pfWireSrv      *httptest.Server
	pfWireHandlers sync.Map
	pfWireSeq      atomic.Int64
	pfWireClient   = &http.Client{Timeout: 10 * time.Second, Transport: &http.Transport{DisableKeepAlives: true}}
)

func pfWireRegister(h http.Handler) (url string, unregister func()) {
	pfWireOnce.Do(func() {
		pfWireSrv = httptest.NewServer(http.HandlerFunc(func(w http.ResponseWriter, r *http.Request) {
			if h, ok := pfWireHandlers.Load(r.URL.Path); ok {
				h.(http.Handler).ServeHTTP(w, r)
				return
			}
			http.NotFound(w, r)
		}))
	})
	path := fmt.Sprintf("/c%d", pfWireSeq.Add(1))
	pfWireHandlers.Store(path, h)
	return pfWireSrv.URL + path, func() { pfWireHandlers.Delete(path) }
}

// pfBodyReader delivers a request body without revealing its length (so that no Content-Length is declared), in
// pieces of the given sizes (nil: at once), optionally ending with an error instead of EOF.
type pfBodyReader struct {
	data   []byte
	pieces []int
	fail   bool
}

func (r *pfBodyReader) Read(p []byte) (int, error) {
	if len(r.data) == 0 {
		if r.fail {
			return 0, io.ErrUnexpectedEOF
		}
		return 0, io.EOF
	}
	n := len(r.data)
	if len(r.pieces) > 0 {
		if r.pieces[0] < n {
			n = r.pieces[0]
		}
		r.pieces = append(r.pieces[1:], r.pieces[0])
	}
	if n > len(p) {
		n = len(p)
	}
	copy(p, r.data[:n])
	r.data = r.data[n:]
	return n, nil
}

// pfDescribeMsg renders the abstract message the gates see, from what the real parser produced.
func pfDescribeMsg(msg jsonrpc.Message, infos map[string]methodInfo, srv *Server) string {
	req, ok := msg.(*jsonrpc.Request)
	if !ok {
		return "m{ r0 }"
	}
	chk := "ok"
	if _, err := checkRequest(req, infos); err != nil {
		if errors.Is(err, jsonrpc2.ErrNotHandled) {
			chk = "nh"
		} else {
			chk = "inv"
		}
	}
	mv := ""
	if meta := extractRequestMeta(req.Params); meta != nil {
		mv, _ = meta[MetaKeyProtocolVersion].(string)
	}
	name, nok := extractName(req.Method, req.Params)
	// V / n / N: what the implementation's own extractors return (the model decodes the member list itself and the
	// monitor compares); T{ }: the server's tool table as far as this request can name it (real lookups); P: params
	parts := []string{"m{", "r1", "c" + pfB01(req.IsCall()), "q" + chk, "M" + hxs(req.Method), "V" + hxs(mv), "n" + pfB01(nok), "N" + hxs(name), "T{"}
	if req.Method == "tools/call" && srv != nil {
		for _, cand := range pfToolCandidates(req.Params, name) {
			if st, ok := srv.getServerTool(cand); ok && st != nil {
				parts = append(parts, "t"+hxs(cand), pfToolPropsTok(st.tool))
			}
		}
	}
	parts = append(parts, "}", pfParamsTok(req.Params), "}")
	return strings.Join(parts, " ")
}

// pfToolCandidates: every name the request could possibly mean - the two registered names, what extractName returned,
// and the string value of every top-level member whose name is `name` in any casing.
func pfToolCandidates(params json.RawMessage, extracted string) []string {
	set := map[string]bool{"tool": true, "plain": true, extracted: true}
	if ms, ok := pfSplitMembers(string(params)); ok {
		for _, m := range ms {
			var s string
			if strings.EqualFold(m.k, "name") && json.Unmarshal([]byte(m.raw), &s) == nil {
				set[s] = true
			}
		}
	}
	var out []string
	for k := range set {
		out = append(out, k)
	}
	sort.Strings(out)
	return out
}

// pfToolPropsTok re-derives the property tree of a registered tool from its InputSchema JSON
// (object member order of the JSON text; only the members the SDK looks at).
func pfToolPropsTok(t *Tool) string {
	data, err := json.Marshal(t.InputSchema)
	if err != nil {
		return "p{ }"
	}
	var top struct {
		Properties json.RawMessage `json:"properties"`
	}
	if json.Unmarshal(data, &top) != nil || top.Properties == nil {
		return "p{ }"
	}
	return pfPropsTok(pfPropsFromJSON(top.Properties))
}

func pfPropsFromJSON(data json.RawMessage) []*pfProp {
	dec := json.NewDecoder(bytes.NewReader(data))
	if t, err := dec.Token(); err != nil || t != json.Delim('{') {
		return nil
	}
	var out []*pfProp
	for dec.More() {
		kt, err := dec.Token()
		if err != nil {
			return out
		}
		var raw json.RawMessage
		if dec.Decode(&raw) != nil {
			return out
		}
		var m map[string]json.RawMessage
		_ = json.Unmarshal(raw, &m)
		p := &pfProp{name: kt.(string), xh: '-'}
		if ty, ok := m["type"]; ok {
			var s string
			if json.Unmarshal(ty, &s) == nil {
				p.ty, p.hasTy = s, true
			}
		}
		if xh, ok := m["x-mcp-header"]; ok {
			var s string
			switch {
			case string(xh) == "null":
				p.xh = 'z'
			case json.Unmarshal(xh, &s) == nil:
				p.xh, p.xhStr = 's', s
			default:
				p.xh, p.xhOther = 'o', string(xh)
			}
		}
		if ch, ok := m["properties"]; ok {
			p.children = pfPropsFromJSON(ch)
		}
		out = append(out, p)
	}
	return out
}

// pfListsSupported: the error data of a -32022 answer is {"supported":[…],"requested":…} with a non-empty list of
// versions this SDK implements.
func pfListsSupported(body []byte) bool {
	var resp struct {
		Error *struct {
			Data *UnsupportedProtocolVersionData `json:"data"`
		} `json:"error"`
	}
	if json.Unmarshal(body, &resp) != nil || resp.Error == nil || resp.Error.Data == nil {
		return false
	}
	d := resp.Error.Data
	if len(d.Supported) == 0 {
		return false
	}
	for _, v := range d.Supported {
		ok := false
		for _, k := range supportedProtocolVersions {
			ok = ok || v == k
		}
		if !ok {
			return false
		}
	}
	return true
}

// run executes the case against the real handler and returns (op tokens, observation, tags).
func (c *pfHTTPCase) run() (op, obs string, tags []string) {
	cnt := &pfCounters{}
	srv := pfServer(cnt, c.toolName, c.schema, c.noSID)
	var handler http.Handler
	var sh *StreamableHTTPHandler
	var cop *http.CrossOriginProtection
	switch c.kind {
	case "sse":
		handler = NewSSEHandler(func(*http.Request) *Server { return srv }, &SSEOptions{DisableLocalhostProtection: c.disabled})
	default:
		// the body limit is installed after the set-up requests (which must not be subject to the limit under test)
		opts := &StreamableHTTPOptions{Stateless: c.kind == "sl", DisableLocalhostProtection: c.disabled, JSONResponse: c.jsonResp}
		if c.originCfg {
			cop = http.NewCrossOriginProtection()
			opts.CrossOriginProtection = cop
		}
		sh = NewStreamableHTTPHandler(func(*http.Request) *Server { return srv }, opts)
		handler = sh
	}
	baseCtx := context.Background()
	if c.localAddr != "" {
		baseCtx = context.WithValue(baseCtx, http.LocalAddrContextKey, net.Addr(pfAddr(c.localAddr)))
	}
	serve := func(req *http.Request, w http.ResponseWriter) bool {
		done := make(chan struct{})
		go func() {
			defer close(done)
			defer func() { recover() }()
			handler.ServeHTTP(w, req)
		}()
		select {
		case <-done:
			return true
		case <-time.After(10 * time.Second):
			return false
		}
	}
	// set-up: a known session (not part of the record)
	sessionID := ""
	var teardown func()
	if c.sess == "u" {
		sessionID = "nosuchsession"
	}
	if c.sess == "k" {
		switch c.kind {
		case "sf":
			init := httptest.NewRequest("POST", "http://localhost:8080/", strings.NewReader(`{"jsonrpc":"2.0","id":900,"method":"initialize","params":{"protocolVersion":"2025-06-18","capabilities":{},"clientInfo":{"name":"c","version":"1"}}}`))
			init.Header.Set("Content-Type", "application/json")
			init.Header.Set("Accept", "application/json, text/event-stream")
			rec := httptest.NewRecorder()
			serve(init, rec)
			sessionID = rec.Header().Get(sessionIDHeader)
			n := httptest.NewRequest("POST", "http://localhost:8080/", strings.NewReader(`{"jsonrpc":"2.0","method":"notifications/initialized"}`))
			n.Header.Set("Content-Type", "application/json")
			n.Header.Set("Accept", "application/json, text/event-stream")
			n.Header.Set(sessionIDHeader, sessionID)
			serve(n, httptest.NewRecorder())
			teardown = func() { sh.closeAll() }
		case "sse":
			ctx, cancel := context.WithCancel(context.Background())
			rec := newPfStreamRec()
			get := httptest.NewRequest("GET", "http://localhost:8080/", nil).WithContext(ctx)
			var wg sync.WaitGroup
			wg.Add(1)
			go func() {
				defer wg.Done()
				handler.ServeHTTP(rec, get)
			}()
			deadline := time.After(5 * time.Second)
		wait:
			for {
				if t := rec.text(); strings.Contains(t, "sessionid=") {
					i := strings.Index(t, "sessionid=")
					sessionID = strings.TrimSpace(strings.SplitN(t[i+len("sessionid="):], "\n", 2)[0])
					break
				}
				select {
				case <-rec.notify:
				case <-deadline:
					break wait
				}
			}
			teardown = func() { cancel(); wg.Wait() }
		}
	}
	if c.kind == "sf" && teardown == nil {
		teardown = func() { sh.closeAll() }
	}
	// quiesce the set-up, then snapshot the counters
	time.Sleep(0)
	if c.sess == "k" && c.kind == "sf" {
		// the initialized notification is handled asynchronously: fence with a ping
		p := httptest.NewRequest("POST", "http://localhost:8080/", strings.NewReader(`{"jsonrpc":"2.0","id":901,"method":"ping"}`))
		p.Header.Set("Content-Type", "application/json")
		p.Header.Set("Accept", "application/json, text/event-stream")
		p.Header.Set(sessionIDHeader, sessionID)
		serve(p, httptest.NewRecorder())
	}
	mw0, h0 := cnt.mw.Load(), cnt.h.Load()
	if sh != nil {
		// what NewStreamableHTTPHandler does with the option
		sh.opts.MaxRequestBodyBytes = c.limit
		if sh.opts.MaxRequestBodyBytes == 0 {
			sh.opts.MaxRequestBodyBytes = DefaultMaxRequestBodyBytes
		}
	}

	// the request under test
	url := "http://placeholder/"
	if c.kind == "sse" && sessionID != "" {
		url += "?sessionid=" + sessionID
	}
	delivered := c.body
	readFails := false
	dribble := func() []int {
		// deterministic piece sizes derived from the body (no generator state is consumed at run time)
		return []int{1 + len(c.body)%7, 1 + len(c.body)%3, 16, 1}
	}
	newBody := func() io.Reader {
		switch c.bodyMode {
		case "ch":
			return &pfBodyReader{data: c.body}
		case "dr":
			return &pfBodyReader{data: c.body, pieces: dribble()}
		case "ab":
			return &pfBodyReader{data: c.body[:c.abortAt], pieces: dribble(), fail: true}
		}
		return bytes.NewReader(c.body)
	}
	if c.bodyMode == "ab" {
		delivered, readFails = c.body[:c.abortAt], true
	}
	if c.method != "POST" {
		c.lastEvent = false // resumption (GET + Last-Event-ID) belongs to C08
	}
	setHeaders := func(req *http.Request) {
		req.Host = c.host
		if c.hasCT {
			req.Header["Content-Type"] = []string{c.ctype}
		}
		if c.accept != nil {
			req.Header["Accept"] = c.accept
		}
		if c.version != "" {
			req.Header[http.CanonicalHeaderKey(protocolVersionHeader)] = []string{c.version}
		}
		if c.kind != "sse" && sessionID != "" {
			req.Header[http.CanonicalHeaderKey(sessionIDHeader)] = []string{sessionID}
		}
		if c.lastEvent {
			req.Header[http.CanonicalHeaderKey(lastEventIDHeader)] = []string{"abc_1"}
		}
		if c.origin != "" {
			req.Header["Origin"] = []string{c.origin}
		}
		if c.secFetch != "" {
			req.Header["Sec-Fetch-Site"] = []string{c.secFetch}
		}
		if c.mcpMethod != nil {
			req.Header[http.CanonicalHeaderKey(methodHeader)] = []string{*c.mcpMethod}
		}
		if c.mcpName != nil {
			req.Header[http.CanonicalHeaderKey(nameHeader)] = []string{*c.mcpName}
		}
		for k, v := range c.paramHdr {
			req.Header[k] = v
		}
	}

	// ---- the abstract request: computed from the *http.Request the handler receives (in wire mode: the one net/http's
	// server built from the bytes on the socket); opaque values are what the real functions return
	var bodyTok, paramTok string
	abstract := func(req *http.Request) string {
		listenerLoop, hasLocal := false, false
		if la, ok := req.Context().Value(http.LocalAddrContextKey).(net.Addr); ok && la != nil {
			hasLocal = true
			listenerLoop = util.IsLoopback(la.String())
		}
		hostLoop := util.IsLoopback(req.Host)
		originRejects := false
		if cop != nil {
			originRejects = cop.Check(req) != nil
		}
		media := baseMediaType(req.Header.Get("Content-Type")) // SSEHandler calls mime.ParseMediaType directly: same function
		meth := map[string]string{"GET": "G", "POST": "P", "DELETE": "D"}[req.Method]
		if meth == "" {
			meth = "O"
		}
		infos := srv.receivingMethodInfos()
		if c.kind == "sse" {
			infos = serverMethodInfos
			if msg, err := jsonrpc2.DecodeMessage(delivered); err != nil {
				bodyTok = "bM"
			} else {
				bodyTok = "bS " + pfDescribeMsg(msg, infos, srv)
			}
		} else {
			msgs, isBatch, err := readBatch(delivered)
			switch {
			case err != nil:
				bodyTok = "bM"
			default:
				var parts []string
				for _, m := range msgs {
					parts = append(parts, pfDescribeMsg(m, infos, srv))
				}
				if isBatch {
					bodyTok = "bB " + strings.Join(parts, " ")
				} else {
					bodyTok = "bS " + strings.Join(parts, " ")
				}
			}
		}
		sess := "n"
		if c.kind == "sse" {
			sess = c.sess
		} else if id := req.Header.Get(sessionIDHeader); id != "" {
			sess = "u"
			if id == sessionID && c.sess == "k" {
				sess = "k"
			}
		}
		paramTok = pfParamHdrTok(req.Header)
		return strings.Join([]string{"http", "K" + c.kind, "pd" + pfB01(c.disabled), "la" + pfB01(hasLocal), "ll" + pfB01(listenerLoop), "hl" + pfB01(hostLoop),
			"or" + pfB01(originRejects), "M" + meth, "ct" + hxs(media), pfAcceptTok(req.Header.Values("Accept")), "pv" + hxs(req.Header.Get(protocolVersionHeader)), "ss" + sess, "ns" + pfB01(c.noSID),
			"le" + pfB01(len(req.Header.Values(lastEventIDHeader)) > 0),
			"lim" + strconv.FormatInt(c.limit, 10), "len" + strconv.Itoa(len(delivered)), "dl" + strconv.FormatInt(req.ContentLength, 10), "rf" + pfB01(readFails),
			"mm" + hxs(req.Header.Get(methodHeader)), "mn" + hxs(req.Header.Get(nameHeader)), paramTok, bodyTok}, " ")
	}

	// ---- run
	rec := httptest.NewRecorder()
	finished := true
	panicked := false
	wired := false
	if c.wire && c.method != "GET" { // (a GET that passes the gates is a stream that stays open)
		// a real loopback socket: net/http's server parses the request (Content-Length / chunked framing, header
		// trimming) and calls the handler; the abstract request is taken from what the server hands over
		var wop string
		var wmu sync.Mutex
		wurl, unregister := pfWireRegister(http.HandlerFunc(func(w http.ResponseWriter, r *http.Request) {
			wmu.Lock()
			wop = abstract(r)
			wmu.Unlock()
			handler.ServeHTTP(w, r)
		}))
		func() {
			defer unregister()
			wreq, err := http.NewRequest(c.method, wurl, newBody())
			if err != nil {
				return
			}
			setHeaders(wreq)
			resp, err := pfWireClient.Do(wreq)
			if err != nil {
				return
			}
			data, err := io.ReadAll(resp.Body)
			resp.Body.Close()
			wmu.Lock()
			defer wmu.Unlock()
			if err != nil || wop == "" {
				return
			}
			op = wop
			rec = &httptest.ResponseRecorder{Code: resp.StatusCode, HeaderMap: resp.Header, Body: bytes.NewBuffer(data)}
			wired = true
		}()
		if !wired {
			// the request could not be put on the wire (a header value net/http refuses to send, a Host the server
			// rejects by itself, ...) or the connection broke: observe the same case in-process instead
			if teardown != nil {
				teardown()
			}
			c.wire = false
			return c.run()
		}
	} else {
		req := httptest.NewRequest(c.method, url, newBody())
		if c.bodyMode == "ab" && c.abortDecl {
			req.ContentLength = int64(len(c.body)) // fewer bytes arrive than were declared
		}
		ctx := baseCtx
		if c.method == "GET" {
			cctx, cancel := context.WithCancel(ctx)
			cancel() // a GET that passes the gates hangs until the client goes away: it is gone already
			ctx = cctx
		}
		req = req.WithContext(ctx)
		setHeaders(req)
		op = abstract(req)
		func() {
			done := make(chan struct{})
			go func() {
				defer close(done)
				defer func() {
					if r := recover(); r != nil {
						panicked = true
					}
				}()
				handler.ServeHTTP(rec, req)
			}()
			select {
			case <-done:
			case <-time.After(10 * time.Second):
				finished = false
			}
		}()
	}
	if teardown != nil {
		teardown()
	}
	switch {
	case panicked:
		obs = "panic"
	case !finished:
		obs = "hang"
	default:
		code := "-"
		if rec.Code >= 300 && strings.HasPrefix(rec.Header().Get("Content-Type"), "application/json") {
			var resp struct {
				Error *struct {
					Code int64 `json:"code"`
				} `json:"error"`
			}
			if json.Unmarshal(rec.Body.Bytes(), &resp) == nil && resp.Error != nil {
				code = strconv.FormatInt(resp.Error.Code, 10)
				if resp.Error.Code == CodeUnsupportedProtocolVersion && !pfListsSupported(rec.Body.Bytes()) {
					// "unsupported-version (-32022, listing the supported versions)": an answer with that code whose data
					// does not list versions of this SDK is printed as another code
					code = "-3202299"
				}
			}
		}
		// A request whose version header names an unknown version that is not older than 2026-07-28 passes the HTTP front
		// door so that the session can refuse it with JSON-RPC -32022 / -32602.  On an established stateful session that
		// answer travels as an event of the POST's stream (HTTP 200), not as an HTTP 400: for these requests the error code
		// of a 200 answer (SSE event or JSON body) is printed too.
		if hv := c.version; rec.Code == http.StatusOK && c.kind != "sse" && hv >= protocolVersion20260728 && !slices.Contains(supportedProtocolVersions, hv) {
			payload := rec.Body.Bytes()
			if strings.HasPrefix(rec.Header().Get("Content-Type"), "text/event-stream") {
				payload = nil
				for _, line := range bytes.Split(rec.Body.Bytes(), []byte("\n")) {
					if rest, ok := bytes.CutPrefix(line, []byte("data:")); ok && bytes.Contains(rest, []byte(`"error"`)) {
						payload = bytes.TrimSpace(rest)
					}
				}
			}
			var resp struct {
				Error *struct {
					Code int64 `json:"code"`
				} `json:"error"`
			}
			if payload != nil && json.Unmarshal(payload, &resp) == nil && resp.Error != nil &&
				(resp.Error.Code == CodeUnsupportedProtocolVersion || resp.Error.Code == jsonrpc.CodeInvalidParams) {
				code = strconv.FormatInt(resp.Error.Code, 10)
				if resp.Error.Code == CodeUnsupportedProtocolVersion && !pfListsSupported(payload) {
					code = "-3202299"
				}
			}
		}
		allow := "-"
		if a := rec.Header().Get("Allow"); a != "" {
			allow = hxs(a)
		}
		// servePOST sets Cache-Control after its last gate and before it enqueues the messages (structural fact
		// preflight.order.streamableServerConn.servePOST): the header witnesses that a call-carrying POST was dispatched
		// even when the session's answer later overrides the HTTP status (SEP-2575 error mapping).
		d := 0
		if c.method == "POST" && (rec.Header().Get("Cache-Control") == "no-cache, no-transform" || rec.Code == http.StatusAccepted) {
			d = 1
		}
		obs = fmt.Sprintf("S=%d E=%s A=%s R=%d H=%d D=%d X=%s", rec.Code, code, allow, cnt.mw.Load()-mw0, cnt.h.Load()-h0, d, cnt.seen())
	}
	tags = []string{"http-" + c.kind, fmt.Sprintf("http-%s-%d", c.kind, rec.Code), c.sizeClass, "body-" + strings.Fields(bodyTok)[0][1:], fmt.Sprintf("ph%d", strings.Count(paramTok, "=")), "bd-" + c.bodyMode, pfDepthTag(c.schema)}
	if c.noSID {
		tags = append(tags, "no-session-ids")
	}
	if wired {
		tags = append(tags, "wire")
	}
	tags = append(tags, c.famTags...)
	tags = append(tags, c.decoyTags...)
	tags = append(tags, c.muts...)
	if len(c.muts) == 0 {
		tags = append(tags, "mut-none")
	}
	if strings.Contains(obs, " D=1 ") {
		tags = append(tags, "dispatched")
		if rec.Code >= 300 {
			tags = append(tags, "late-error")
		}
	} else if finished && !panicked {
		tags = append(tags, fmt.Sprintf("st%d", rec.Code))
		if strings.Contains(obs, "E=-3") {
			tags = append(tags, "rpc"+strings.Fields(obs)[1][2:])
		}
	}
	return
}

// ---------------------------------------------------------------------------------------------
// Level 3: the real streamable client against the real stateless server.

type pfE2E struct {
	srv    *Server
	hs     *httptest.Server
	cs     *ClientSession
	mu     sync.Mutex
	seen   []string
	schema []*pfProp
}

func pfNewE2E(t *testing.T, schema []*pfProp) *pfE2E {
	e := &pfE2E{schema: schema}
	e.srv = NewServer(&Implementation{Name: "verif", Version: "1"}, nil)
	e.srv.AddTool(&Tool{Name: "tool", InputSchema: json.RawMessage(pfSchemaJSON(schema))}, func(ctx context.Context, req *CallToolRequest) (*CallToolResult, error) {
		e.mu.Lock()
		e.seen = append(e.seen, string(req.Params.Arguments))
		e.mu.Unlock()
		return &CallToolResult{}, nil
	})
	h := NewStreamableHTTPHandler(func(*http.Request) *Server { return e.srv }, &StreamableHTTPOptions{Stateless: true})
	e.hs = httptest.NewServer(h)
	ctx, cancel := context.WithTimeout(context.Background(), 60*time.Second)
	defer cancel()
	c := NewClient(&Implementation{Name: "c", Version: "1"}, nil)
	cs, err := c.Connect(ctx, &StreamableClientTransport{Endpoint: e.hs.URL}, &ClientSessionOptions{ProtocolVersion: protocolVersion20260728})
	if err != nil {
		t.Fatalf("e2e connect: %v", err)
	}
	e.cs = cs
	if _, err := cs.ListTools(ctx, nil); err != nil {
		t.Fatalf("e2e list tools: %v", err)
	}
	return e
}

func (e *pfE2E) close() {
	e.cs.Close()
	e.hs.Close()
}

// call: one tools/call through the real client. meta: extra `_meta` entries the caller's application attaches (epoch 4:
// entries whose keys differ from the protocol's own keys only in case; the client adds its own entries next to them).
func (e *pfE2E) call(args *pfJ, meta map[string]any) (op, obs string, tags []string) {
	argsJSON := args.json()
	metaJSON := ""
	if len(meta) > 0 {
		b, _ := json.Marshal(meta)
		metaJSON = `"_meta":` + string(b) + `,`
	}
	params := json.RawMessage(`{` + metaJSON + `"name":"tool","arguments":` + argsJSON + `}`)
	// opaque: whether the SDK can decode these params at all (extractName unmarshals the whole params, so e.g. a
	// number outside the float64 range anywhere in the arguments makes it fail on both sides)
	_, nok := extractName("tools/call", params)
	op = "e2e n" + pfB01(nok) + " " + pfPropsTok(e.schema) + " " + pfParamsTok(params)
	e.mu.Lock()
	e.seen = nil
	e.mu.Unlock()
	ctx, cancel := context.WithTimeout(context.Background(), 60*time.Second)
	defer cancel()
	var err error
	var seen []string
	for attempt := 0; attempt < 3; attempt++ {
		_, err = e.cs.CallTool(ctx, &CallToolParams{Meta: Meta(meta), Name: "tool", Arguments: json.RawMessage(argsJSON)})
		e.mu.Lock()
		seen = e.seen
		e.mu.Unlock()
		var werr *jsonrpc.Error
		if err == nil || errors.As(err, &werr) || len(seen) > 0 {
			break // only a transport-level failure that reached nothing is retried (loaded machine)
		}
	}
	switch {
	case err == nil && len(seen) == 1:
		a, _ := pfParseJ([]byte(seen[0]))
		b, _ := pfParseJ([]byte(argsJSON))
		if a != nil && b != nil && pfCanon(a) == pfCanon(b) {
			obs = "ok same"
		} else {
			obs = "ok differs"
		}
	case err == nil:
		obs = fmt.Sprintf("ok handler=%d", len(seen))
	default:
		var werr *jsonrpc.Error
		if errors.As(err, &werr) {
			obs = fmt.Sprintf("rej %d handler=%d", werr.Code, len(seen))
		} else {
			obs = fmt.Sprintf("err:%s handler=%d", hxs(firstN(err.Error(), 60)), len(seen))
		}
	}
	tags = []string{"e2e", "e2e-" + strings.SplitN(strings.Fields(obs)[0], ":", 2)[0], pfDepthTag(e.schema)}
	return
}

func firstN(s string, n int) string {
	if len(s) > n {
		return s[:n]
	}
	return s
}

// pfCanon prints a value with sorted object keys (number texts kept).
func pfCanon(j *pfJ) string {
	if j.kind != 'o' {
		return j.tok()
	}
	fs := append([]pfField(nil), j.fields...)
	sort.SliceStable(fs, func(a, b int) bool { return fs[a].k < fs[b].k })
	parts := []string{"o{"}
	for _, f := range fs {
		parts = append(parts, "k"+hxs(f.k), pfCanon(f.v))
	}
	return strings.Join(append(parts, "}"), " ")
}

// ---------------------------------------------------------------------------------------------

var pfKinds = []string{"accepts", "codec", "decode", "unprim", "peq", "annot", "gen", "vph", "http", "e2e", "params", "seq", "vm"}

func pfRngFor(seed int64, kind string, idx int) *rand.Rand {
	k := 0
	for i, s := range pfKinds {
		if s == kind {
			k = i
		}
	}
	return rand.New(rand.NewSource(seed*1000003 + int64(k)*100000007 + int64(idx)))
}

// pfRunCase generates and runs case (kind, seed, idx) and writes its record.
func pfAt(kind string, seed int64, idx, epoch int) string {
	if epoch <= 1 {
		return fmt.Sprintf("@%s:%d:%d", kind, seed, idx)
	}
	return fmt.Sprintf("@%s:%d:%d:%d", kind, seed, idx, epoch)
}

func pfRunCase(t *testing.T, out *verifOut, kind string, seed int64, idx int, epoch int, extraTag string) {
	g := &pfGen{rng: pfRngFor(seed, kind, idx), epoch: epoch}
	cs := fmt.Sprintf("%s%d", kind, idx)
	at := pfAt(kind, seed, idx, epoch)
	var op, obs string
	var tags []string
	switch kind {
	case "http":
		c := g.httpCase()
		op, obs, tags = c.run()
	case "vm":
		// a row of the version matrix (zz_verif_preflight_versions_test.go): the index is the row
		pfRunVersionRow(out, idx, extraTag)
		return
	case "seq":
		// one session over time (zz_verif_preflight_seq_test.go); records carry no @-token: their replay is literal
		pfqRun(t, out, cs, "", g.pfqGenerate(), extraTag)
		return
	case "e2e":
		schema := g.validSchema()
		e := pfNewE2E(t, schema)
		defer e.close()
		n := 6
		for i := 0; i < n; i++ {
			args := g.args(schema, g.chance(85))
			var meta map[string]any
			var dtags []string
			if g.epoch >= 4 && g.chance(35) {
				// an application whose argument object / _meta carry members differing from a bound parameter's name (or
				// from the protocol's _meta keys) only in case: the mirror and the version agreement must not see them
				if g.chance(60) {
					_, dtags = g.decoyInObject(args)
				}
				if dtags == nil || g.chance(40) {
					meta = map[string]any{g.caseVariant(pfMetaKeyV): g.pick([]string{protocolVersion20250618, protocolVersion20251125, "2027-01-01", protocolVersion20260728})}
					if g.chance(40) {
						meta[g.caseVariant(MetaKeyClientCapabilities)] = g.pick([]string{"x", ""})
					}
					dtags = append(dtags, "decoy-metakey", "decoy")
				}
			}
			op, obs, tags = e.call(args, meta)
			tags = append(tags, dtags...)
			if extraTag != "" {
				tags = append(tags, extraTag)
			}
			out.line(cs, at+" "+op, obs, tags...)
		}
		return
	default:
		op, obs, tags = pfHelperCase(g, kind)
	}
	if extraTag != "" {
		tags = append(tags, extraTag)
	}
	out.line(cs, at+" "+op, obs, tags...)
}

func pfReplay(t *testing.T, out *verifOut, path, tag string) {
	b, err := os.ReadFile(path)
	if err != nil {
		t.Fatal(err)
	}
	done := map[string]bool{}
	var seqLines []string
	for _, ln := range strings.Split(string(b), "\n") {
		f := strings.Fields(ln)
		if len(f) > 0 && f[0] == "seq" {
			seqLines = append(seqLines, ln) // a literal session (kind `seq`): interpreted line by line, below
			continue
		}
		if len(f) == 0 || !strings.HasPrefix(f[0], "@") || done[f[0]] {
			continue
		}
		done[f[0]] = true
		p := strings.Split(f[0][1:], ":")
		if len(p) != 3 && len(p) != 4 {
			continue
		}
		seed, _ := strconv.ParseInt(p[1], 10, 64)
		idx, _ := strconv.Atoi(p[2])
		epoch := 1
		if len(p) == 4 {
			epoch, _ = strconv.Atoi(p[3])
		}
		pfRunCase(t, out, p[0], seed, idx, epoch, tag)
	}
	if len(seqLines) > 0 {
		name := path[strings.LastIndex(path, "/")+1:]
		pfqRun(t, out, "seq:"+strings.TrimSuffix(name, ".ops"), "", seqLines, tag)
	}
}

func TestVerifPreflight(t *testing.T) {
	out := verifOpen(t)
	defer out.close()
	if p := os.Getenv("VERIF_CORPUS"); p != "" {
		ents, _ := os.ReadDir(p)
		for _, e := range ents {
			if strings.HasSuffix(e.Name(), ".ops") {
				pfReplay(t, out, p+"/"+e.Name(), "corpus")
			}
		}
	}
	if p := os.Getenv("VERIF_REPLAY"); p != "" {
		pfReplay(t, out, p, "replay")
		return
	}
	seed := verifSeed()
	scale := func(q, th int) int { return verifN(q, th) }
	over := os.Getenv("VERIF_CASES") != ""
	counts := map[string]int{
		"accepts": scale(2500, 40000), "codec": scale(2500, 40000), "decode": scale(1500, 20000), "unprim": scale(2500, 30000),
		"peq": scale(4000, 60000), "annot": scale(2500, 30000), "gen": scale(2500, 40000), "vph": scale(4000, 80000),
		"http": scale(8000, 120000), "e2e": scale(250, 4000), "params": scale(3000, 40000), "seq": scale(400, 4000),
	}
	if over {
		// VERIF_CASES scales the whole-request stream; helpers follow proportionally
		n := verifN(0, 0)
		counts = map[string]int{"accepts": n / 4, "codec": n / 4, "decode": n / 8, "unprim": n / 4, "peq": n / 2, "annot": n / 4, "gen": n / 4, "vph": n / 2, "http": n, "e2e": n / 40, "params": n / 4, "seq": n / 8}
	}
	only := os.Getenv("VERIF_PF_KINDS") // debugging aid: run these record kinds only (comma-separated)
	for _, kind := range pfKinds {
		n := counts[kind]
		if only != "" && !strings.Contains(","+only+",", ","+kind+",") {
			continue
		}
		if pfRace {
			n /= 6
		}
		if kind == "http" {
			// whole requests are independent: run them on a few workers, write in order
			type rec struct{ op, obs string; tags []string }
			res := make([]rec, n)
			var wg sync.WaitGroup
			workers := 8
			for w := 0; w < workers; w++ {
				wg.Add(1)
				go func(w int) {
					defer wg.Done()
					for i := w; i < n; i += workers {
						g := &pfGen{rng: pfRngFor(seed, "http", i), epoch: pfEpoch}
						c := g.httpCase()
						op, obs, tags := c.run()
						res[i] = rec{op, obs, tags}
					}
				}(w)
			}
			wg.Wait()
			for i, r := range res {
				out.line(fmt.Sprintf("http%d", i), pfAt("http", seed, i, pfEpoch)+" "+r.op, r.obs, r.tags...)
			}
			continue
		}
		for i := 0; i < n; i++ {
			pfRunCase(t, out, kind, seed, i, pfEpoch, "")
		}
	}
}
