// E5 correspondence harness (C08, C10): a real StreamableHTTPHandler driven through ServeHTTP inside
// testing/synctest bubbles, with recording ResponseWriters (write failures, cancellable request
// contexts), a ground-truth recorder around MemoryEventStore (with park points in Append/After to force
// both orders of a write racing a resume) and scripted tool handlers that emit on command.
//
// One record per op.  The observation lists, in canonical order, everything the implementation did
// until the bubble was quiescent again:
//
//	x<k>:<kind>[:<stream>]   exchange k was opened; kind = sse|json|<http status>; stream = canonical id if a store saw it
//	a:<sess>:<stream>:<p>    EventStore.Append (ground truth; p = "-" for the empty priming payload)
//	x<k>+<ev> / x<k>!<ev>    event written to exchange k / written while its writer fails (reaches nobody)
//	                         ev = K (": ok" comment) | P/<id> | M/<id|->/<p> | Z (close event) | J/<p>,<p>… (JSON body)
//	x<k>.                    the HTTP handler of exchange k returned
//	w=<ok|rej|closed|err|pending>  what the emitting call returned
//	S…                       snapshot of the session's streams / requestStreams / isDone read from the real structs
//
// Stream ids, session ids and event ids are renamed in order of first appearance (t0 = standalone "").
//
// Fan-out ops (C10): `plain <sess> id=<n> m=sub` POSTs resources/subscribe; `fanout <sess> <req> x<post> <h|b> <serial> |
// <sessions…>` makes the SERVER call Server.ResourceUpdated while request <req> of <sess> is in flight — with the handler's
// own context (h) or context.Background() (b); every subscribed session gets a copy tagged F.<sess>.<req>.x<post>.<h|b>.<serial>.
// `emit … L …` is ServerSession.Log to the handler's own session (the control).
// Store-pressure op (C08): `getp <sessA> hv= last= k=<k> | <sessB> <req> x<post> <c|d> n=<n> <serial>`: a resume of <sessA>
// during which — after the k-th item EventStore.After yielded, i.e. inside acquireStream's collect loop — ANOTHER session's
// handler writes n notifications (each Append of the bounded MemoryEventStore purges first).
package mcp

import (
	"bytes"
	"context"
	"encoding/json"
	"errors"
	"fmt"
	"iter"
	"math/rand"
	"net/http"
	"net/http/httptest"
	"os"
	"runtime"
	"sort"
	"strconv"
	"strings"
	"sync"
	"testing"
	"testing/synctest"
	"time"

	"github.com/modelcontextprotocol/go-sdk/internal/jsonrpc2"
	"github.com/modelcontextprotocol/go-sdk/jsonrpc"
)

// ---------------------------------------------------------------------------------------------
// recording ResponseWriter

type rzItem struct {
	ev   string // canonical event token (filled at render time; ids renamed lazily)
	raw  rzRaw
	lost bool
}

type rzRaw struct {
	kind string // K P M Z J
	id   string // raw SSE id
	data []byte
}

type rzExch struct {
	h        *rzHarness
	n        int
	sess     string // canonical session the request was addressed to ("" = none)
	hdr      http.Header
	status   int
	items    []rzItem
	reported int  // items already printed
	budget   int  // successful stream writes left; <0 = unlimited
	ended    bool // handler returned
	endRep   bool
	opened   bool // creation token printed
	cancel   context.CancelFunc
}

func (x *rzExch) Header() http.Header { return x.hdr }
func (x *rzExch) WriteHeader(code int) {
	x.h.mu.Lock()
	defer x.h.mu.Unlock()
	if x.status == 0 {
		x.status = code
	}
}
func (x *rzExch) Flush() {}

func (x *rzExch) Write(b []byte) (int, error) {
	x.h.mu.Lock()
	defer x.h.mu.Unlock()
	if x.status == 0 {
		x.status = 200
	}
	if x.status != 200 {
		return len(b), nil // body of an error / 202 answer: not part of the stream
	}
	raw := rzParseWrite(b, x.hdr.Get("Content-Type"))
	if x.budget == 0 {
		x.items = append(x.items, rzItem{raw: raw, lost: true})
		return 0, errors.New("verif: broken pipe")
	}
	if x.budget > 0 {
		x.budget--
	}
	x.items = append(x.items, rzItem{raw: raw})
	return len(b), nil
}

func rzParseWrite(b []byte, ct string) rzRaw {
	s := string(b)
	if strings.HasPrefix(s, ": ") {
		return rzRaw{kind: "K"}
	}
	if strings.HasPrefix(s, "event: ") || strings.HasPrefix(s, "id: ") || strings.HasPrefix(s, "data: ") || strings.HasPrefix(s, "retry: ") {
		var r rzRaw
		r.kind = "M"
		for _, ln := range strings.Split(strings.TrimRight(s, "\n"), "\n") {
			k, v, _ := strings.Cut(ln, ": ")
			switch k {
			case "event":
				switch v {
				case "prime":
					r.kind = "P"
				case "close":
					r.kind = "Z"
				case "message":
					r.kind = "M"
				default:
					r.kind = "?" + v
				}
			case "id":
				r.id = v
			case "data":
				r.data = []byte(v)
			}
		}
		return r
	}
	return rzRaw{kind: "J", data: append([]byte(nil), b...)}
}

// ---------------------------------------------------------------------------------------------
// ground-truth event store

type rzStore struct {
	h     *rzHarness
	inner *MemoryEventStore
	// park points
	parkAppend chan struct{} // non-nil: the next Append blocks here until closed
	parkAfter  chan struct{}
	parkOpen   chan struct{} // non-nil: the next Open blocks here until closed (an event store is an I/O boundary)
	// one-shot: after the k-th item the next After yielded (or at the end of its iteration when it has fewer), run fire()
	// on the iterating goroutine — store pressure from another session in the middle of a replay
	afterHook *rzAfterHook
	// one-shot: the next Append fails (an EventStore is an I/O boundary: a database/disk/quota backed one can fail);
	// nothing is recorded as ground truth, the inner store is not called
	failAppend bool
	failed     bool
	// gauge: MemoryEventStore evicts (purge) only inside Append and SetMaxBytes, and only while nBytes > maxBytes. The
	// wrapper reads nBytes / maxBytes of the real store right before every Append and SetMaxBytes it passes on; `over`
	// = at such a moment since the last report the store was over its limit (an eviction reported now may have been forced)
	over bool
}

// gauge notes whether the real store is over the limit `limit` (<= 0: the one in force) right now. Called with h.mu held.
func (s *rzStore) gauge(limit int) {
	in := s.inner
	in.mu.Lock()
	if limit <= 0 {
		limit = in.maxBytes
	}
	if in.nBytes > limit {
		s.over = true
	}
	in.mu.Unlock()
}

// setMax = MemoryEventStore.SetMaxBytes with the gauge read first (n <= 0 = the default limit)
func (s *rzStore) setMax(n int) {
	eff := n
	if eff <= 0 {
		eff = defaultMaxBytes
	}
	s.h.mu.Lock()
	s.gauge(eff)
	s.h.mu.Unlock()
	s.inner.SetMaxBytes(n)
}

type rzAfterHook struct {
	k     int
	fire  func()
	where string // "" not fired; "mid" fired between two items; "end" fired after the last item / the error
}

func (s *rzStore) Open(ctx context.Context, sess, stream string) error {
	s.h.mu.Lock()
	p := s.parkOpen
	if stream != "" {
		s.parkOpen = nil
	} else {
		p = nil
	}
	s.h.mu.Unlock()
	if p != nil {
		<-p
	}
	s.h.mu.Lock()
	s.h.sawStream(sess, stream) // named when the Open takes effect
	s.h.mu.Unlock()
	return s.inner.Open(ctx, sess, stream)
}

func (s *rzStore) Append(ctx context.Context, sess, stream string, data []byte) error {
	s.h.mu.Lock()
	p := s.parkAppend
	s.parkAppend = nil
	s.h.mu.Unlock()
	if p != nil {
		<-p
	}
	s.h.mu.Lock()
	if s.failAppend {
		s.failAppend, s.failed = false, true
		s.h.mu.Unlock()
		return errors.New("verif: event store append failed")
	}
	s.h.sawStream(sess, stream)
	s.h.appends = append(s.h.appends, rzAppend{sess: sess, stream: stream, data: append([]byte(nil), data...)})
	s.gauge(0)
	s.h.mu.Unlock()
	return s.inner.Append(ctx, sess, stream, data)
}

func (s *rzStore) After(ctx context.Context, sess, stream string, index int) iter.Seq2[[]byte, error] {
	s.h.mu.Lock()
	p := s.parkAfter
	s.parkAfter = nil
	s.h.mu.Unlock()
	if p != nil {
		<-p
	}
	s.h.mu.Lock()
	hook := s.afterHook
	s.afterHook = nil
	s.h.mu.Unlock()
	inner := s.inner.After(ctx, sess, stream, index)
	if hook == nil {
		return inner
	}
	return func(yield func([]byte, error) bool) {
		n := 0
		for d, err := range inner {
			// (the inner iterator has read item n already; items n+1… are read after the pressure)
			if !yield(d, err) {
				if hook.where == "" {
					hook.where = "end"
					hook.fire()
				}
				return
			}
			n++
			if err == nil && n == hook.k && hook.where == "" {
				hook.where = "mid"
				hook.fire()
			}
		}
		if hook.where == "" {
			hook.where = "end"
			hook.fire()
		}
	}
}

func (s *rzStore) SessionClosed(ctx context.Context, sess string) error {
	return s.inner.SessionClosed(ctx, sess)
}

type rzApp struct {
	idx int
	txt string
}

func (h *rzHarness) sessIndex(s *rzSess) int {
	for i, x := range h.sessions {
		if x == s {
			return i
		}
	}
	return -1
}

type rzAppend struct {
	sess, stream string
	data         []byte
}

// ---------------------------------------------------------------------------------------------
// scripted handlers

type rzCall struct {
	ctx     context.Context // request context without cancellation (keeps idContextKey etc.)
	ss      *ServerSession
	extra   *RequestExtra
	respond chan string
	responded bool
}

type rzSess struct {
	name    string // canonical: s1.. (stateful), q1.. (one per stateless POST)
	realID  string
	conn    *streamableServerConn
	streams map[string]string // real stream id -> canonical t<n>
	nstream int
	// direct use of the transport (no StreamableHTTPHandler): the application made the StreamableServerTransport itself,
	// connected it with Server.Connect and hands every HTTP request of the session to transport.ServeHTTP
	direct *StreamableServerTransport
	ss     *ServerSession
}

type rzHarness struct {
	mu        sync.Mutex
	t         *testing.T
	handler   *StreamableHTTPHandler
	server    *Server
	store     *rzStore
	stateless bool
	jsonMode  bool
	exchs     []*rzExch
	appends   []rzAppend
	appRep    int
	sessions  []*rzSess          // by creation
	byReal    map[string]*rzSess // real session id -> sess (stateful)
	calls     map[string]*rzCall // "<sess>.<req>" -> parked handler
	pending   map[string]*rzSess // key announced by a stateless POST before its handler ran
	serial    int
	current   *rzSess // stateless: the ephemeral session whose POST is being served (owner of newly seen stream ids)
	results   map[string]string // emit result by key
	srvCalls  map[string]string // tag of server->client call -> its JSON-RPC id (raw json) once seen on the wire
	cancels   map[string][]context.CancelFunc // session -> cancel funcs of pending server->client calls
	owner     map[string]*rzSess              // stateless: real stream id -> ephemeral session
	callTags  map[string]string               // "<sess>#<jsonrpc id of a server->client call>" -> tag
	callIDs   map[string]string               // tag -> jsonrpc id
	callCancel map[string]context.CancelFunc  // tag -> cancel of the pending call
	ncalls    map[string]int                  // per session: calls issued so far (jsonrpc2 numbers them 1,2,…)
	cancelled map[string]chan struct{}        // handler key -> gate of a cancelled tool handler waiting to return
	finishing bool
	firsts    map[string]int // "<real session>\x00<real stream>" -> dataList.first last reported (evictions by the store)
	maxBytes  int           // standing limit of the store set by `maxbytes` (0 = default)
	yieldSite string        // one-shot: the next goroutine reaching this verifYield site parks
	yieldGate chan struct{} // ... on this gate
	yielded   bool          // a goroutine is parked at the site (the site is instrumented in this tree)
	lastNote  string        // coverage note of the last op (read by the generator for its tags)
	stubborn  map[string]bool // handler keys that do not return when their request is cancelled (op `cancel`): they go on until `resp`
	callKind  map[string]string // tag of a server->client call -> C (sampling) | P (ping) | R (roots/list)
}

func (h *rzHarness) sawStream(sess, stream string) {
	s := h.byReal[sess]
	if s == nil && h.stateless && stream != "" {
		// every ephemeral connection stores under session "": a new stream id belongs to the POST in progress
		if h.owner[stream] == nil && h.current != nil {
			h.owner[stream] = h.current
		}
		s = h.owner[stream]
	}
	if s == nil {
		return
	}
	if _, ok := s.streams[stream]; !ok {
		if stream == "" {
			s.streams[stream] = "t0"
		} else {
			s.nstream++
			s.streams[stream] = "t" + strconv.Itoa(s.nstream)
		}
	}
}

func (h *rzHarness) canonStream(sess *rzSess, stream string) string {
	if stream == "" {
		return "t0"
	}
	if sess == nil {
		return "t?"
	}
	if c, ok := sess.streams[stream]; ok {
		return c
	}
	sess.nstream++
	c := "t" + strconv.Itoa(sess.nstream)
	sess.streams[stream] = c
	return c
}

func (h *rzHarness) realStream(sess *rzSess, canon string) string {
	if canon == "t0" {
		return ""
	}
	for r, c := range sess.streams {
		if c == canon {
			return r
		}
	}
	return "unknownstream" + canon
}

// payload token of a JSON-RPC message on the wire
func (h *rzHarness) payload(sess string, data []byte) string {
	if len(data) == 0 {
		return "-"
	}
	var m struct {
		ID     json.RawMessage `json:"id"`
		Method string          `json:"method"`
		Params struct {
			Message      string          `json:"message"`
			SystemPrompt string          `json:"systemPrompt"`
			RequestID    json.RawMessage `json:"requestId"`
			Logger       string          `json:"logger"`
			Meta         struct {
				Verif string `json:"verif"`
			} `json:"_meta"`
		} `json:"params"`
		Result *struct {
			Content []struct {
				Text string `json:"text"`
			} `json:"content"`
			ProtocolVersion string `json:"protocolVersion"`
		} `json:"result"`
		Error *struct {
			Code int `json:"code"`
		} `json:"error"`
	}
	if err := json.Unmarshal(data, &m); err != nil {
		return "U.unparsable"
	}
	switch {
	case m.Method == "notifications/progress":
		return "N." + m.Params.Message
	case m.Method == "notifications/message":
		return "N." + m.Params.Logger
	case m.Method == "notifications/resources/updated":
		return "F." + m.Params.Meta.Verif
	case m.Method == "sampling/createMessage":
		return "C." + m.Params.SystemPrompt
	case (m.Method == "ping" || m.Method == "roots/list") && m.Params.Meta.Verif != "":
		return "C." + m.Params.Meta.Verif // server->client requests issued by `emit … P|R …`
	case m.Method == "notifications/cancelled":
		if tag, ok := h.callTags[sess+"#"+string(m.Params.RequestID)]; ok {
			return "X." + tag
		}
		return "X.unknown" + string(m.Params.RequestID)
	case m.Method != "":
		return "U." + m.Method
	case m.Result != nil:
		id := strings.Trim(string(m.ID), `"`)
		if m.Result.ProtocolVersion != "" {
			return "R." + id + ".init"
		}
		if len(m.Result.Content) > 0 {
			return "R." + id + "." + m.Result.Content[0].Text
		}
		return "R." + id + ".plain" // an empty result: resources/subscribe (op `plain`)
	case m.Error != nil:
		return "R." + strings.Trim(string(m.ID), `"`) + ".err" + strconv.Itoa(m.Error.Code)
	}
	return "U.unknown"
}

func (h *rzHarness) canonEventID(sess *rzSess, id string) string {
	if id == "" {
		return "-"
	}
	i := strings.LastIndex(id, "_")
	if i < 0 {
		return "badid"
	}
	return h.canonStream(sess, id[:i]) + id[i:]
}

func (h *rzHarness) sessByName(name string) *rzSess {
	for _, s := range h.sessions {
		if s.name == name {
			return s
		}
	}
	return nil
}

func (h *rzHarness) renderItem(x *rzExch, it rzItem) string {
	sess := h.sessByName(x.sess)
	r := it.raw
	switch r.kind {
	case "K", "Z":
		return r.kind
	case "P":
		return "P/" + h.canonEventID(sess, r.id)
	case "M":
		p := h.payload(x.sess, r.data)
		h.noteServerCall(x.sess, r.data)
		return "M/" + h.canonEventID(sess, r.id) + "/" + p
	case "J":
		var arr []json.RawMessage
		if err := json.Unmarshal(r.data, &arr); err != nil {
			arr = []json.RawMessage{r.data}
		}
		ps := make([]string, len(arr))
		for i, a := range arr {
			ps[i] = h.payload(x.sess, a)
			h.noteServerCall(x.sess, a)
		}
		return "J/" + strings.Join(ps, ",")
	}
	return r.kind
}

// noteServerCall remembers the JSON-RPC id of a server->client call seen on the wire so that an
// `answer` op can respond to it.
func (h *rzHarness) noteServerCall(sess string, data []byte) {
	var m struct {
		ID     json.RawMessage `json:"id"`
		Method string          `json:"method"`
		Params struct {
			SystemPrompt string `json:"systemPrompt"`
			Meta         struct {
				Verif string `json:"verif"`
			} `json:"_meta"`
		} `json:"params"`
	}
	if json.Unmarshal(data, &m) == nil && len(m.ID) > 0 {
		if m.Method == "sampling/createMessage" {
			h.srvCalls[m.Params.SystemPrompt] = string(m.ID)
		} else if (m.Method == "ping" || m.Method == "roots/list") && m.Params.Meta.Verif != "" {
			h.srvCalls[m.Params.Meta.Verif] = string(m.ID)
		}
	}
}

// ---------------------------------------------------------------------------------------------

func rzNewHarness(t *testing.T, stateless, jsonMode, withStore bool) *rzHarness {
	h := &rzHarness{t: t, stateless: stateless, jsonMode: jsonMode, byReal: map[string]*rzSess{}, calls: map[string]*rzCall{},
		pending: map[string]*rzSess{}, results: map[string]string{}, srvCalls: map[string]string{}, cancels: map[string][]context.CancelFunc{}, owner: map[string]*rzSess{},
		callTags: map[string]string{}, callIDs: map[string]string{}, callCancel: map[string]context.CancelFunc{}, ncalls: map[string]int{}}
	h.server = NewServer(&Implementation{Name: "verif", Version: "1"}, &ServerOptions{
		SubscribeHandler:   func(context.Context, *SubscribeRequest) error { return nil },
		UnsubscribeHandler: func(context.Context, *UnsubscribeRequest) error { return nil },
	})
	h.server.AddTool(&Tool{Name: "t", InputSchema: json.RawMessage(`{"type":"object"}`)}, h.tool)
	opts := &StreamableHTTPOptions{Stateless: stateless, JSONResponse: jsonMode, DisableLocalhostProtection: true}
	if withStore {
		h.store = &rzStore{h: h, inner: NewMemoryEventStore(nil)}
		opts.EventStore = h.store
	}
	h.handler = NewStreamableHTTPHandler(func(*http.Request) *Server { return h.server }, opts)
	// schedule points inside streamable.go (present only in a tree with fixes/hook-resume-yield.patch): between Write's
	// routing section and its delivery section, between acquireStream's lookup and its stream-lock section
	fn := func(site, detail string) {
		h.mu.Lock()
		if h.yieldSite != site || h.yieldGate == nil {
			h.mu.Unlock()
			return
		}
		gate := h.yieldGate
		h.yieldSite, h.yielded = "", true
		h.mu.Unlock()
		<-gate
	}
	verifYieldHook.Store(&fn)
	return h
}

func (h *rzHarness) tool(ctx context.Context, req *CallToolRequest) (*CallToolResult, error) {
	var args struct {
		K string `json:"k"`
	}
	json.Unmarshal(req.Params.Arguments, &args)
	c := &rzCall{ctx: context.WithoutCancel(ctx), ss: req.Session, extra: req.Extra, respond: make(chan string, 1)}
	// ServerSession.Log sends nothing until the client has set a level (`emit … L …`): set up as if it had
	req.Session.mu.Lock()
	if req.Session.state.LogLevel == "" {
		req.Session.state.LogLevel = "debug"
	}
	req.Session.mu.Unlock()
	h.mu.Lock()
	h.calls[args.K] = c
	if s := h.pending[args.K]; s != nil && s.conn == nil {
		if sc, ok := req.Session.mcpConn.(*streamableServerConn); ok {
			s.conn = sc
		}
	}
	h.mu.Unlock()
	select {
	case txt := <-c.respond:
		return &CallToolResult{Content: []Content{&TextContent{Text: txt}}}, nil
	case <-ctx.Done():
		h.mu.Lock()
		stub := h.stubborn[args.K]
		h.mu.Unlock()
		if stub {
			// a handler that does not watch its context (blocking work): the client's notifications/cancelled does not
			// make it return; it answers when told to (`resp`), and may go on emitting with its request's context
			txt := <-c.respond
			return &CallToolResult{Content: []Content{&TextContent{Text: txt}}}, nil
		}
		// Cancelled handlers return one at a time, in request order (drainCancelled): the first response after
		// the transport was closed still passes the shutdown gate of jsonrpc2 and reaches Write (which drops
		// its requestStreams entry before failing); which handler that is must not depend on the scheduler.
		h.cancelGate(args.K)
		return nil, ctx.Err()
	}
}

// cancelGate parks a cancelled tool handler until the harness lets it return.
func (h *rzHarness) cancelGate(key string) {
	ch := make(chan struct{})
	h.mu.Lock()
	if h.finishing {
		h.mu.Unlock()
		return
	}
	if h.cancelled == nil {
		h.cancelled = map[string]chan struct{}{}
	}
	h.cancelled[key] = ch
	h.mu.Unlock()
	<-ch
}

// rzKeyLess orders handler keys `<sess>.<req>.x<post>` by session, request id, exchange.
func rzKeyLess(a, b string) bool {
	pa, pb := strings.Split(a, "."), strings.Split(b, ".")
	if len(pa) == 3 && len(pb) == 3 {
		if pa[0] != pb[0] {
			return pa[0] < pb[0]
		}
		ra, _ := strconv.Atoi(pa[1])
		rb, _ := strconv.Atoi(pb[1])
		if ra != rb {
			return ra < rb
		}
		xa, _ := strconv.Atoi(strings.TrimPrefix(pa[2], "x"))
		xb, _ := strconv.Atoi(strings.TrimPrefix(pb[2], "x"))
		return xa < xb
	}
	return a < b
}

// drainCancelled lets the cancelled handlers return, smallest key first, quiescing after each.
func (h *rzHarness) drainCancelled() {
	for {
		h.mu.Lock()
		best := ""
		for k := range h.cancelled {
			if best == "" || rzKeyLess(k, best) {
				best = k
			}
		}
		var ch chan struct{}
		if best != "" {
			ch = h.cancelled[best]
			delete(h.cancelled, best)
		}
		h.mu.Unlock()
		if ch == nil {
			return
		}
		close(ch)
		synctest.Wait()
	}
}

type rzReq struct {
	method  string
	sess    string // canonical session name whose real id goes into Mcp-Session-Id ("" none, "?" unknown id)
	version string // Mcp-Protocol-Version header ("" absent)
	lastID  string // Last-Event-ID header ("" absent)
	body    string
	budget  int
	extra   map[string]string
}

// serve starts one HTTP exchange in its own goroutine and returns it (not yet quiescent).
func (h *rzHarness) serve(r rzReq) *rzExch {
	var body *bytes.Reader
	if r.body != "" {
		body = bytes.NewReader([]byte(r.body))
	} else {
		body = bytes.NewReader(nil)
	}
	req := httptest.NewRequest(r.method, "http://verif.invalid/", body)
	ctx, cancel := context.WithCancel(context.Background())
	req = req.WithContext(ctx)
	req.Header.Set("Accept", "application/json, text/event-stream")
	if r.method == "POST" {
		req.Header.Set("Content-Type", "application/json")
	}
	if r.version != "" {
		req.Header.Set(protocolVersionHeader, r.version)
	}
	if r.lastID != "" {
		req.Header.Set(lastEventIDHeader, r.lastID)
	}
	for k, v := range r.extra {
		req.Header.Set(k, v)
	}
	sessName := r.sess
	if r.sess == "?" {
		req.Header.Set(sessionIDHeader, "no-such-session")
	} else if r.sess != "" {
		if s := h.sessByName(r.sess); s != nil && s.realID != "" {
			req.Header.Set(sessionIDHeader, s.realID)
		}
	}
	h.mu.Lock()
	x := &rzExch{h: h, n: len(h.exchs) + 1, sess: sessName, hdr: http.Header{}, budget: r.budget, cancel: cancel}
	h.exchs = append(h.exchs, x)
	h.mu.Unlock()
	var direct *StreamableServerTransport
	if s := h.sessByName(r.sess); s != nil {
		direct = s.direct
	}
	go func() {
		defer func() {
			if rec := recover(); rec != nil {
				h.mu.Lock()
				x.items = append(x.items, rzItem{raw: rzRaw{kind: "PANIC"}})
				h.mu.Unlock()
			}
			h.mu.Lock()
			x.ended = true
			h.mu.Unlock()
		}()
		if direct != nil {
			direct.ServeHTTP(x, req)
			return
		}
		h.handler.ServeHTTP(x, req)
	}()
	return x
}

// observe renders everything new since the previous call (canonical order) plus the snapshot of sess.
func (h *rzHarness) observe(snap ...string) string {
	h.drainCancelled()
	if h.stateless {
		// find the connection of the ephemeral session created by the op in progress
		var conns []*streamableServerConn
		for ss := range h.server.Sessions() {
			if sc, ok := ss.mcpConn.(*streamableServerConn); ok {
				conns = append(conns, sc)
			}
		}
		h.mu.Lock()
		if h.current != nil && h.current.conn == nil {
			known := map[*streamableServerConn]bool{}
			for _, s := range h.sessions {
				if s.conn != nil {
					known[s.conn] = true
				}
			}
			for _, sc := range conns {
				if !known[sc] {
					h.current.conn = sc
				}
			}
		}
		h.mu.Unlock()
	}
	h.mu.Lock()
	defer h.mu.Unlock()
	var out []string
	for _, x := range h.exchs {
		if !x.opened {
			// register a session created by this exchange before naming anything
			if id := x.hdr.Get(sessionIDHeader); id != "" && h.byReal[id] == nil {
				if s := h.sessByName(x.sess); s != nil && s.realID == "" {
					s.realID = id
					h.byReal[id] = s
					if h.handler.sessions[id] != nil {
						s.conn = h.handler.sessions[id].transport.connection
					}
					// streams seen by the store before the id was known
					if h.store != nil {
						h.sawStream(id, "")
					}
				}
			}
		}
	}
	// stateless: every ephemeral connection uses store session ""
	for _, x := range h.exchs {
		if !x.opened {
			x.opened = true
			kind := "-"
			switch {
			case x.status != 0 && x.status != 200:
				kind = strconv.Itoa(x.status)
			case strings.HasPrefix(x.hdr.Get("Content-Type"), "text/event-stream"):
				kind = "sse"
			case strings.HasPrefix(x.hdr.Get("Content-Type"), "application/json"):
				kind = "json"
			case x.ended:
				kind = "200"
			}
			out = append(out, fmt.Sprintf("x%d:%s", x.n, kind))
		}
	}
	var apps []rzApp
	for ; h.appRep < len(h.appends); h.appRep++ {
		a := h.appends[h.appRep]
		s := h.byReal[a.sess]
		name := "?"
		if s == nil && h.stateless {
			h.sawStream(a.sess, a.stream)
			s = h.owner[a.stream]
			name = "q" // the standalone stream "" of session "" is shared by all ephemeral connections
		}
		if s != nil {
			name = s.name
		}
		pname := name
		if s == nil && len(a.data) > 0 {
			// shared standalone stream of the stateless store session: the writer is named in the payload tag itself
			pname = ""
		}
		apps = append(apps, rzApp{idx: h.sessIndex(s), txt: "a:" + name + ":" + h.canonStream(s, a.stream) + ":" + h.payload(pname, a.data)})
	}
	sort.SliceStable(apps, func(i, j int) bool { return apps[i].idx < apps[j].idx })
	for _, a := range apps {
		out = append(out, a.txt)
	}
	out = append(out, h.purgeTokens()...)
	for _, x := range h.exchs {
		for ; x.reported < len(x.items); x.reported++ {
			it := x.items[x.reported]
			sep := "+"
			if it.lost {
				sep = "!"
			}
			out = append(out, fmt.Sprintf("x%d%s%s", x.n, sep, h.renderItem(x, it)))
		}
	}
	for _, x := range h.exchs {
		if x.ended && !x.endRep {
			x.endRep = true
			out = append(out, fmt.Sprintf("x%d.", x.n))
		}
	}
	for _, name := range snap {
		out = append(out, h.snapshot(name))
	}
	return strings.Join(out, " ")
}

// purgeTokens reports what the in-memory event store has evicted since the last report: `p:<sess>:<stream>:<first>:<f|u>`
// = the store now holds the log of that stream from index <first> on (read from the real dataList); f = since the last
// report the store was over its size limit right before an Append / SetMaxBytes (the eviction may have been forced), u =
// it was not (rzStore.gauge). Stateful
// sessions only (there is no resumption in stateless mode). Called with h.mu held.
func (h *rzHarness) purgeTokens() []string {
	if h.store == nil || h.stateless {
		return nil
	}
	type pt struct {
		si    int
		st    string
		first int
		name  string
	}
	var pts []pt
	in := h.store.inner
	in.mu.Lock()
	for sess, sm := range in.store {
		s := h.byReal[sess]
		if s == nil {
			continue
		}
		for stream, dl := range sm {
			key := sess + "\x00" + stream
			if dl.first != h.firsts[key] {
				if h.firsts == nil {
					h.firsts = map[string]int{}
				}
				h.firsts[key] = dl.first
				pts = append(pts, pt{si: h.sessIndex(s), st: h.canonStream(s, stream), first: dl.first, name: s.name})
			}
		}
	}
	in.mu.Unlock()
	sort.Slice(pts, func(i, j int) bool {
		if pts[i].si != pts[j].si {
			return pts[i].si < pts[j].si
		}
		return rzStreamLess(pts[i].st, pts[j].st)
	})
	var out []string
	flag := "u"
	if h.store.over {
		flag = "f"
	}
	h.store.over = false
	for _, p := range pts {
		out = append(out, fmt.Sprintf("p:%s:%s:%d:%s", p.name, p.st, p.first, flag))
	}
	return out
}

func rzStreamLess(a, b string) bool {
	x, _ := strconv.Atoi(strings.TrimLeft(a, "t"))
	y, _ := strconv.Atoi(strings.TrimLeft(b, "t"))
	return x < y
}

// snapshot reads the real streamableServerConn of a session (under its locks).
func (h *rzHarness) snapshot(name string) string {
	s := h.sessByName(name)
	if s == nil || s.conn == nil {
		return "S" + name + "[?]"
	}
	c := s.conn
	c.mu.Lock()
	type row struct{ key, txt string }
	var rows []row
	streams := make([]*stream, 0, len(c.streams))
	for _, st := range c.streams {
		streams = append(streams, st)
	}
	var rs []string
	for id, sid := range c.requestStreams {
		rs = append(rs, fmt.Sprintf("%v>%s", id.Raw(), h.canonStream(s, sid)))
	}
	done := c.isDone
	c.mu.Unlock()
	for _, st := range streams {
		st.mu.Lock()
		att := "-"
		if st.w != nil {
			att = "?"
			if x, ok := st.w.(*rzExch); ok {
				att = "x" + strconv.Itoa(x.n)
			}
		}
		op := "c"
		if st.done != nil {
			op = "o"
		}
		var reqs []string
		for id := range st.requests {
			reqs = append(reqs, fmt.Sprint(id.Raw()))
		}
		sort.Slice(reqs, func(i, j int) bool { a, _ := strconv.Atoi(reqs[i]); b, _ := strconv.Atoi(reqs[j]); return a < b })
		js := "s"
		if st.pendingJSONMessages != nil {
			js = "j" + strconv.Itoa(len(st.pendingJSONMessages))
		}
		li := ""
		if st.isListen {
			li = ":L"
		}
		cid := h.canonStream(s, st.id)
		if h.stateless && st.id != "" && h.owner[st.id] == nil {
			h.owner[st.id] = s // (2026-07-28 streams are not Opened in the store: first seen here)
		}
		rows = append(rows, row{cid, fmt.Sprintf("%s:%s:%s:%d:%s:%s%s", cid, att, op, st.lastIdx, strings.Join(reqs, ","), js, li)})
		st.mu.Unlock()
	}
	sort.Slice(rows, func(i, j int) bool { return rzLessCanon(rows[i].key, rows[j].key) })
	sort.Slice(rs, func(i, j int) bool {
		a, _ := strconv.Atoi(strings.SplitN(rs[i], ">", 2)[0])
		b, _ := strconv.Atoi(strings.SplitN(rs[j], ">", 2)[0])
		return a < b
	})
	var txt []string
	for _, r := range rows {
		txt = append(txt, r.txt)
	}
	d := ""
	if done {
		d = "D"
	}
	return "S" + name + "[" + strings.Join(txt, ";") + "|" + strings.Join(rs, ",") + "]" + d
}

func rzLessCanon(a, b string) bool {
	x, _ := strconv.Atoi(strings.TrimLeft(a, "t"))
	y, _ := strconv.Atoi(strings.TrimLeft(b, "t"))
	return x < y
}

// ---------------------------------------------------------------------------------------------
// ops

const (
	rzInitBody = `{"jsonrpc":"2.0","id":%d,"method":"initialize","params":{"protocolVersion":%q,"capabilities":{"sampling":{},"roots":{}},"clientInfo":{"name":"verif","version":"1"}}}`
	rzCallBody = `{"jsonrpc":"2.0","id":%d,"method":"tools/call","params":{"name":"t","arguments":{"k":%q}}}`
	// 2026-07-28: per-request _meta instead of the initialize handshake
	rzMeta        = `"_meta":{"io.modelcontextprotocol/protocolVersion":"2026-07-28","io.modelcontextprotocol/clientCapabilities":{}}`
	rzCallBodyNew = `{"jsonrpc":"2.0","id":%d,"method":"tools/call","params":{` + rzMeta + `,"name":"t","arguments":{"k":%q}}}`
	rzListenBody  = `{"jsonrpc":"2.0","id":%d,"method":"subscriptions/listen","params":{` + rzMeta + `,"notifications":{"toolsListChanged":true}}}`
)

func rzVersion(v string) string {
	switch v {
	case "a":
		return protocolVersion20250326
	case "b":
		return protocolVersion20250618
	case "c":
		return protocolVersion20251125
	case "d":
		return protocolVersion20260728
	}
	return "" // "-" : header absent
}

func rzBudget(s string) int {
	if s == "" || s == "-" {
		return -1
	}
	n, _ := strconv.Atoi(s)
	return n
}

func rzKV(toks []string) map[string]string {
	m := map[string]string{}
	for _, t := range toks {
		if k, v, ok := strings.Cut(t, "="); ok {
			m[k] = v
		}
	}
	return m
}

// apply executes one op and returns the observation.
func (h *rzHarness) apply(toks []string) (obs string) {
	defer func() {
		if r := recover(); r != nil {
			obs = fmt.Sprintf("panic %v", r)
		}
	}()
	kv := rzKV(toks)
	if kv["af"] == "1" && (toks[0] == "emit" || toks[0] == "resp") {
		// `emit … af=1` / `resp … af=1`: the EventStore.Append of this write fails (if the write gets that far)
		toks = toks[:len(toks)-1]
		if h.store != nil {
			h.mu.Lock()
			h.store.failAppend, h.store.failed = true, false
			h.mu.Unlock()
			defer func() {
				h.mu.Lock()
				h.store.failAppend = false
				if h.store.failed {
					h.lastNote = "append-failed"
				} else {
					h.lastNote = "append-not-reached"
				}
				h.mu.Unlock()
			}()
		}
	}
	switch toks[0] {
	case "init": // init <sess> id=<n> v=<a|b|c> b=<budget> [dt=1]
		s := &rzSess{name: toks[1], streams: map[string]string{}}
		h.mu.Lock()
		h.sessions = append(h.sessions, s)
		h.mu.Unlock()
		if kv["dt"] == "1" {
			// dt=1: a session served by a StreamableServerTransport the application created and connected itself
			if h.stateless {
				return "bad-op"
			}
			t := &StreamableServerTransport{SessionID: "verif-direct-" + toks[1]}
			if h.store != nil {
				t.EventStore = h.store
			}
			t.jsonResponse = h.jsonMode
			h.mu.Lock()
			s.realID, s.direct = t.SessionID, t
			h.byReal[t.SessionID] = s
			h.mu.Unlock()
			ss, err := h.server.Connect(context.Background(), t, nil)
			if err != nil {
				return "connect-failed"
			}
			h.mu.Lock()
			s.ss, s.conn = ss, t.connection
			if h.store != nil {
				h.sawStream(t.SessionID, "")
			}
			h.mu.Unlock()
			synctest.Wait()
		}
		id, _ := strconv.Atoi(kv["id"])
		h.serve(rzReq{method: "POST", sess: toks[1], body: fmt.Sprintf(rzInitBody, id, rzVersion(kv["v"])), budget: rzBudget(kv["b"])})
		synctest.Wait()
		return h.observe(toks[1])
	case "cancel": // cancel <sess> <req> x<post> hv=<ver> : the CLIENT gives up on its request: POST notifications/cancelled {requestId}
		// (the handler does not return on cancellation; the request is over only when its response is written)
		key := toks[1] + "." + toks[2] + "." + toks[3]
		h.mu.Lock()
		if h.stubborn == nil {
			h.stubborn = map[string]bool{}
		}
		h.stubborn[key] = true
		h.mu.Unlock()
		rid, _ := strconv.Atoi(toks[2])
		body := fmt.Sprintf(`{"jsonrpc":"2.0","method":"notifications/cancelled","params":{"requestId":%d,"reason":"verif"}}`, rid)
		h.serve(rzReq{method: "POST", sess: toks[1], version: rzVersion(kv["hv"]), body: body, budget: -1})
		synctest.Wait()
		return h.observe(toks[1])
	case "note": // note <sess> hv=<ver> : POST notifications/initialized
		h.serve(rzReq{method: "POST", sess: toks[1], version: rzVersion(kv["hv"]), body: `{"jsonrpc":"2.0","method":"notifications/initialized"}`, budget: -1})
		synctest.Wait()
		return h.observe(toks[1])
	case "call": // call <sess> ids=3,4 hv=<ver> nn=<notifications in the batch> b=<budget>
		name := toks[1]
		h.postCall(name, kv)
		synctest.Wait()
		return h.observe(name)
	case "plain": // plain <sess> id=<n> m=sub hv=<ver> b=<budget> : POST a request that is answered at once (resources/subscribe)
		name := toks[1]
		id, _ := strconv.Atoi(kv["id"])
		body := fmt.Sprintf(`{"jsonrpc":"2.0","id":%d,"method":"resources/subscribe","params":{"uri":%q}}`, id, rzFanURI)
		h.serve(rzReq{method: "POST", sess: name, version: rzVersion(kv["hv"]), body: body, budget: rzBudget(kv["b"])})
		synctest.Wait()
		return h.observe(name)
	case "fanout": // fanout <sess> <req> x<post> <h|b> <serial> | <sess>… : Server.ResourceUpdated issued while <req> of <sess> is in flight
		return h.fanout(toks)
	case "getp": // getp <sessA> hv= last= k=<k> b= | <sessB> <req> x<post> <c|d> n=<n> <serial>
		return h.getPressure(toks)
	case "duprace": // duprace <sess> ids=<r> hv=<ver> : two POSTs carrying the same call id; the first is parked inside EventStore.Open while the second arrives
		if h.store == nil || h.stateless {
			return "bad-op"
		}
		name := toks[1]
		park := make(chan struct{})
		h.mu.Lock()
		h.store.parkOpen = park
		h.mu.Unlock()
		h.postCall(name, kv) // A: sits inside Open
		synctest.Wait()
		h.postCall(name, kv) // B: same id(s)
		synctest.Wait()
		close(park)
		synctest.Wait()
		h.mu.Lock()
		h.store.parkOpen = nil
		h.mu.Unlock()
		return h.observe(name)
	case "listen": // listen <sess> id=<n> b=<budget> : stateless 2026-07-28 subscriptions/listen
		name := toks[1]
		s := &rzSess{name: name, streams: map[string]string{}}
		h.mu.Lock()
		h.sessions = append(h.sessions, s)
		h.current = s
		h.mu.Unlock()
		id, _ := strconv.Atoi(kv["id"])
		h.serve(rzReq{method: "POST", sess: name, version: protocolVersion20260728, body: fmt.Sprintf(rzListenBody, id), budget: rzBudget(kv["b"]),
			extra: map[string]string{"Mcp-Method": "subscriptions/listen"}})
		synctest.Wait()
		return h.observe(name)
	case "toolchange": // toolchange <n> <sess>… : the server's tool list changes; listeners are notified after the debounce delay
		h.server.AddTool(&Tool{Name: "extra" + toks[1], InputSchema: json.RawMessage(`{"type":"object"}`)}, h.tool)
		time.Sleep(50 * time.Millisecond)
		synctest.Wait()
		return h.observe(toks[2:]...)
	case "emit": // emit <sess> <req> <x-of-post> <N|C> <c|d> <serial>
		key := toks[1] + "." + toks[2] + "." + toks[3]
		h.mu.Lock()
		c := h.calls[key]
		h.mu.Unlock()
		if c == nil {
			return "nocall"
		}
		ctx := c.ctx
		if toks[5] == "d" {
			ctx = context.Background()
		}
		tag := strings.Join([]string{toks[1], toks[2], toks[3], toks[5], toks[6]}, ".")
		res := h.emit(c, toks[4], ctx, tag)
		synctest.Wait()
		return h.observe(toks[1]) + " w=" + res()
	case "resp": // resp <sess> <req> <x-of-post>
		key := toks[1] + "." + toks[2] + "." + toks[3]
		h.mu.Lock()
		c := h.calls[key]
		h.mu.Unlock()
		if c == nil || c.responded {
			return "nocall"
		}
		c.responded = true
		c.respond <- key
		synctest.Wait()
		return h.observe(toks[1])
	case "sclose": // sclose <sess> <req> <x-of-post> retry=<0|1>
		key := toks[1] + "." + toks[2] + "." + toks[3]
		h.mu.Lock()
		c := h.calls[key]
		h.mu.Unlock()
		if c == nil || c.extra == nil || c.extra.CloseSSEStream == nil {
			return "nocall"
		}
		var d time.Duration
		if kv["retry"] == "1" {
			d = 7 * time.Millisecond
		}
		c.extra.CloseSSEStream(CloseSSEStreamArgs{RetryAfter: d})
		synctest.Wait()
		return h.observe(toks[1])
	case "wfail": // wfail x<k> <sess>
		x := h.exch(toks[1])
		h.mu.Lock()
		x.budget = 0
		h.mu.Unlock()
		return h.observe(toks[2])
	case "cut": // cut x<k> <sess>
		x := h.exch(toks[1])
		x.cancel()
		synctest.Wait()
		return h.observe(toks[2])
	case "get": // get <sess> hv=<ver> last=<none|bad|t<n>_<idx>> b=<budget>
		h.serve(h.getReq(toks[1], kv))
		synctest.Wait()
		return h.observe(toks[1])
	case "delete": // delete <sess>
		h.abandon(toks[1])
		h.serve(rzReq{method: "DELETE", sess: toks[1], budget: -1})
		synctest.Wait()
		return h.observe(toks[1])
	case "answer": // answer <sess> <tag> : POST the client's response to a server->client call
		h.mu.Lock()
		id := h.callIDs[toks[2]]
		h.mu.Unlock()
		if id == "" {
			return "nocall"
		}
		body := fmt.Sprintf(`{"jsonrpc":"2.0","id":%s,"result":{"role":"assistant","model":"m","content":{"type":"text","text":"ok"}}}`, id)
		h.mu.Lock()
		switch h.callKind[toks[2]] {
		case "P":
			body = fmt.Sprintf(`{"jsonrpc":"2.0","id":%s,"result":{}}`, id)
		case "R":
			body = fmt.Sprintf(`{"jsonrpc":"2.0","id":%s,"result":{"roots":[]}}`, id)
		}
		h.mu.Unlock()
		h.serve(rzReq{method: "POST", sess: toks[1], body: body, budget: -1})
		synctest.Wait()
		return h.observe(toks[1])
	case "cancelcall": // cancelcall <sess> <tag> : the server side abandons a pending server->client call
		h.mu.Lock()
		cancel := h.callCancel[toks[2]]
		delete(h.callCancel, toks[2])
		h.mu.Unlock()
		if cancel == nil {
			return "nocall"
		}
		cancel()
		synctest.Wait()
		return h.observe(toks[1])
	case "gc": // gc : the garbage collector runs (twice: sync.Pool contents survive one cycle in the victim cache) between two steps
		runtime.GC()
		runtime.GC()
		return h.observe()
	case "purge": // purge <maxbytes> : the store is squeezed to <maxbytes> once (MemoryEventStore.SetMaxBytes purges), then relaxed again
		if h.store == nil {
			return "nostore"
		}
		n, _ := strconv.Atoi(toks[1])
		if n < 1 {
			n = 1
		}
		h.store.setMax(n)
		h.store.setMax(h.maxBytes)
		return h.observe()
	case "maxbytes": // maxbytes <n> : the store keeps this limit from now on (0 = default): appends evict
		if h.store == nil {
			return "nostore"
		}
		n, _ := strconv.Atoi(toks[1])
		h.maxBytes = n
		h.store.setMax(n)
		return h.observe()
	case "kill": // kill <sess> : the transport is closed underneath the session
		s := h.sessByName(toks[1])
		if s == nil || s.conn == nil {
			return "nosess"
		}
		s.conn.Close()
		synctest.Wait()
		return h.observe(toks[1])
	case "racerg": // racerg <emit args> | get-args… : the write is held between its routing and its delivery section while the GET runs
		return h.raceRouted(toks)
	case "racewg": // racewg <sess> <req> <x> <N|C> <c|d> <serial> | get-args… : the write takes the stream lock first
		return h.race(toks, true)
	case "racegw":
		return h.race(toks, false)
	}
	return "bad-op"
}

// postCall starts one POST carrying tools/call requests with the given ids (handler keys <sess>.<id>.x<exchange>).
func (h *rzHarness) postCall(name string, kv map[string]string) {
	var s *rzSess
	if h.stateless {
		s = &rzSess{name: name, streams: map[string]string{}}
		h.mu.Lock()
		h.sessions = append(h.sessions, s)
		h.current = s
		h.mu.Unlock()
	}
	h.mu.Lock()
	n := len(h.exchs) + 1
	h.mu.Unlock()
	var parts []string
	for _, id := range strings.Split(kv["ids"], ",") {
		idn, _ := strconv.Atoi(id)
		key := fmt.Sprintf("%s.%d.x%d", name, idn, n)
		if s != nil {
			h.mu.Lock()
			h.pending[key] = s
			h.mu.Unlock()
		}
		if kv["hv"] == "d" {
			parts = append(parts, fmt.Sprintf(rzCallBodyNew, idn, key))
		} else {
			parts = append(parts, fmt.Sprintf(rzCallBody, idn, key))
		}
	}
	// nn=<k>: k notifications grouped with the calls (after the first call, the rest at the end)
	if nn, _ := strconv.Atoi(kv["nn"]); nn > 0 {
		const note = `{"jsonrpc":"2.0","method":"notifications/roots/list_changed"}`
		mixed := []string{parts[0], note}
		mixed = append(mixed, parts[1:]...)
		for i := 1; i < nn; i++ {
			mixed = append(mixed, note)
		}
		parts = mixed
	}
	body := parts[0]
	if len(parts) > 1 {
		body = "[" + strings.Join(parts, ",") + "]"
	}
	r := rzReq{method: "POST", sess: name, version: rzVersion(kv["hv"]), body: body, budget: rzBudget(kv["b"])}
	if kv["hv"] == "d" {
		r.extra = map[string]string{"Mcp-Method": "tools/call", "Mcp-Name": "t"}
	}
	h.serve(r)
}

func (h *rzHarness) exch(tok string) *rzExch {
	n, _ := strconv.Atoi(strings.TrimPrefix(tok, "x"))
	h.mu.Lock()
	defer h.mu.Unlock()
	return h.exchs[n-1]
}

func (h *rzHarness) getReq(sess string, kv map[string]string) rzReq {
	r := rzReq{method: "GET", sess: sess, version: rzVersion(kv["hv"]), budget: rzBudget(kv["b"])}
	switch last := kv["last"]; {
	case last == "" || last == "none":
	case last == "bad":
		r.lastID = "not-an-event-id"
	default:
		canon, idx, _ := strings.Cut(last, "_")
		h.mu.Lock()
		r.lastID = h.realStream(h.sessByName(sess), canon) + "_" + idx
		h.mu.Unlock()
	}
	return r
}

// emit starts the emitting call in its own goroutine; the returned func reports what it returned.
func (h *rzHarness) emit(c *rzCall, kind string, ctx context.Context, tag string) func() string {
	var mu sync.Mutex
	res := "pending"
	if kind != "N" && kind != "L" {
		// a pending server->client call blocks ServerSession.Close: make it abandonable
		var cancel context.CancelFunc
		ctx, cancel = context.WithCancel(ctx)
		sess, _, _ := strings.Cut(tag, ".")
		h.mu.Lock()
		h.cancels[sess] = append(h.cancels[sess], cancel)
		if ip := c.ss.InitializeParams(); ip == nil || ip.ProtocolVersion < protocolVersion20260728 {
			// jsonrpc2 numbers outgoing calls 1,2,… per connection (nothing else calls on these sessions)
			h.ncalls[sess]++
			id := strconv.Itoa(h.ncalls[sess])
			h.callTags[sess+"#"+id] = tag
			h.callIDs[tag] = id
			if h.callKind == nil {
				h.callKind = map[string]string{}
			}
			h.callKind[tag] = kind
		}
		h.callCancel[tag] = cancel
		h.mu.Unlock()
	}
	go func() {
		var err error
		defer func() {
			if r := recover(); r != nil {
				mu.Lock()
				res = "panic"
				mu.Unlock()
			}
		}()
		if kind == "N" {
			err = c.ss.NotifyProgress(ctx, &ProgressNotificationParams{ProgressToken: "p", Message: tag, Progress: 1})
		} else if kind == "L" {
			err = c.ss.Log(ctx, &LoggingMessageParams{Level: "info", Logger: tag, Data: "x"})
		} else if kind == "P" {
			// a server-initiated ping (what ServerOptions.KeepAlive sends): a server->client REQUEST on the stream
			err = c.ss.Ping(ctx, &PingParams{Meta: Meta{"verif": tag}})
		} else if kind == "R" {
			_, err = c.ss.ListRoots(ctx, &ListRootsParams{Meta: Meta{"verif": tag}})
		} else {
			// The call returns only when the client answers; report the outcome of the *write*:
			// a rejected write makes CreateMessage return at once.
			_, err = c.ss.CreateMessage(ctx, &CreateMessageParams{SystemPrompt: tag, MaxTokens: 1})
		}
		mu.Lock()
		defer mu.Unlock()
		switch {
		case err == nil:
			res = "ok"
		case errors.Is(err, jsonrpc2.ErrRejected):
			res = "rej"
		case strings.Contains(err.Error(), "session is closed"):
			res = "closed"
		case errors.Is(err, jsonrpc2.ErrClientClosing) || errors.Is(err, jsonrpc2.ErrServerClosing) || errors.Is(err, ErrConnectionClosed):
			res = "closing"
		default:
			res = "err"
		}
	}()
	return func() string { mu.Lock(); defer mu.Unlock(); return res }
}

func (h *rzHarness) race(toks []string, writeFirst bool) string {
	bar := -1
	for i, t := range toks {
		if t == "|" {
			bar = i
		}
	}
	if bar < 0 || h.store == nil {
		return "bad-op"
	}
	w, g := toks[1:bar], toks[bar+1:]
	key := w[0] + "." + w[1] + "." + w[2]
	h.mu.Lock()
	c := h.calls[key]
	h.mu.Unlock()
	if c == nil {
		return "nocall"
	}
	ctx := c.ctx
	if w[4] == "d" {
		ctx = context.Background()
	}
	tag := strings.Join([]string{w[0], w[1], w[2], w[4], w[5]}, ".")
	park := make(chan struct{})
	var res func() string
	// no eviction while the two parties race (which of them the store would evict under is not controlled here):
	// the standing limit is lifted for the race and re-imposed — evicting — once both are done
	h.store.setMax(0)
	if writeFirst {
		h.mu.Lock()
		h.store.parkAppend = park
		h.mu.Unlock()
		res = h.emit(c, w[3], ctx, tag)
		synctest.Wait() // the write now sits inside Append, holding the stream lock
		h.serve(h.getReq(g[0], rzKV(g)))
		rzYield() // the GET runs into the stream lock (a goroutine blocked on a sync.Mutex is not durably blocked: no Wait here)
	} else {
		h.mu.Lock()
		h.store.parkAfter = park
		h.mu.Unlock()
		h.serve(h.getReq(g[0], rzKV(g)))
		synctest.Wait() // the GET sits inside After, holding the stream lock
		res = h.emit(c, w[3], ctx, tag)
		rzYield() // the write runs into the stream lock
	}
	close(park)
	synctest.Wait()
	h.mu.Lock()
	h.store.parkAppend, h.store.parkAfter = nil, nil
	h.mu.Unlock()
	h.store.setMax(h.maxBytes)
	return h.observe(w[0]) + " w=" + res()
}

// raceRouted holds a write at the schedule point between Write's two critical sections (routed under c.mu, stream
// lock not yet taken), lets a GET run to completion, then releases the write. `win=1`: the site exists in this tree
// and the write was parked there; `win=0`: not instrumented — the write simply completed before the GET.
func (h *rzHarness) raceRouted(toks []string) string {
	bar := -1
	for i, t := range toks {
		if t == "|" {
			bar = i
		}
	}
	if bar < 0 {
		return "bad-op"
	}
	w, g := toks[1:bar], toks[bar+1:]
	key := w[0] + "." + w[1] + "." + w[2]
	h.mu.Lock()
	c := h.calls[key]
	h.mu.Unlock()
	if c == nil {
		return "nocall"
	}
	ctx := c.ctx
	if w[4] == "d" {
		ctx = context.Background()
	}
	tag := strings.Join([]string{w[0], w[1], w[2], w[4], w[5]}, ".")
	gate := make(chan struct{})
	if h.store != nil {
		h.store.setMax(0) // as in race(): no eviction inside the race
	}
	h.mu.Lock()
	h.yieldSite, h.yieldGate, h.yielded = "streamable.Write.routed", gate, false
	h.mu.Unlock()
	res := h.emit(c, w[3], ctx, tag)
	synctest.Wait()
	h.mu.Lock()
	win := h.yielded
	h.yieldSite = ""
	h.mu.Unlock()
	h.serve(h.getReq(g[0], rzKV(g)))
	synctest.Wait()
	close(gate)
	synctest.Wait()
	h.mu.Lock()
	h.yieldGate, h.yielded = nil, false
	h.mu.Unlock()
	if h.store != nil {
		h.store.setMax(h.maxBytes)
	}
	ws := "0"
	if win {
		ws = "1"
	}
	return h.observe(w[0]) + " w=" + res() + " win=" + ws
}

const rzFanURI = "verif://r"

func rzBar(toks []string) int {
	for i, t := range toks {
		if t == "|" {
			return i
		}
	}
	return -1
}

// fanout makes the server emit a session-independent notification (resources/updated to every subscribed session)
// while a request of one session is being handled: with that handler's context, or with context.Background().
func (h *rzHarness) fanout(toks []string) string {
	bar := rzBar(toks)
	if bar != 6 || h.stateless {
		return "bad-op"
	}
	key := toks[1] + "." + toks[2] + "." + toks[3]
	h.mu.Lock()
	c := h.calls[key]
	h.mu.Unlock()
	if c == nil {
		return "nocall"
	}
	ctx := c.ctx
	if toks[4] == "b" {
		ctx = context.Background()
	}
	tag := strings.Join(toks[1:6], ".")
	var mu sync.Mutex
	res := "pending"
	go func() {
		defer func() {
			if r := recover(); r != nil {
				mu.Lock()
				res = "panic"
				mu.Unlock()
			}
		}()
		err := h.server.ResourceUpdated(ctx, &ResourceUpdatedNotificationParams{URI: rzFanURI, Meta: Meta{"verif": tag}})
		mu.Lock()
		defer mu.Unlock()
		if err != nil {
			res = "err"
		} else {
			res = "ok"
		}
	}()
	synctest.Wait()
	mu.Lock()
	defer mu.Unlock()
	return h.observe(toks[bar+1:]...) + " w=" + res
}

// getPressure serves a resuming GET of one session and, from inside EventStore.After's iteration (after its k-th item;
// at its end if it yields fewer; after the GET if After was never reached), lets a handler of ANOTHER session write n
// notifications: every Append of the bounded store purges first, so entries After has snapshotted but not yet yielded
// are evicted underneath the replay.
func (h *rzHarness) getPressure(toks []string) string {
	bar := rzBar(toks)
	if bar < 0 || h.store == nil || h.stateless || len(toks) < bar+7 {
		return "bad-op"
	}
	g, w := toks[1:bar], toks[bar+1:]
	if w[0] == g[0] {
		return "bad-op" // the writer must be another session (the GET holds its stream's lock)
	}
	key := w[0] + "." + w[1] + "." + w[2]
	h.mu.Lock()
	c := h.calls[key]
	h.mu.Unlock()
	if c == nil {
		return "nocall"
	}
	kvg, kvw := rzKV(g), rzKV(w)
	k, _ := strconv.Atoi(kvg["k"])
	n, _ := strconv.Atoi(kvw["n"])
	serial, _ := strconv.Atoi(w[len(w)-1])
	ctx := c.ctx
	if w[3] == "d" {
		ctx = context.Background()
	}
	fire := func() {
		for i := 0; i < n; i++ {
			tag := strings.Join([]string{w[0], w[1], w[2], w[3], strconv.Itoa(serial + i)}, ".")
			func() {
				defer func() { recover() }()
				c.ss.NotifyProgress(ctx, &ProgressNotificationParams{ProgressToken: "p", Message: tag, Progress: 1})
			}()
		}
	}
	hook := &rzAfterHook{k: k, fire: fire}
	h.mu.Lock()
	h.store.afterHook = hook
	h.mu.Unlock()
	h.serve(h.getReq(g[0], kvg))
	synctest.Wait()
	h.mu.Lock()
	h.store.afterHook = nil
	h.mu.Unlock()
	if hook.where == "" {
		hook.where = "late"
		fire()
		synctest.Wait()
	}
	h.lastNote = "pressure-" + hook.where
	return h.observe(g[0], w[0])
}

// abandon cancels the pending server->client calls of a session (Close would wait for them).
func (h *rzHarness) abandon(sess string) {
	h.mu.Lock()
	cs := h.cancels[sess]
	delete(h.cancels, sess)
	h.mu.Unlock()
	for _, c := range cs {
		c()
	}
	synctest.Wait()
}

func rzYield() {
	for i := 0; i < 300; i++ {
		runtime.Gosched()
	}
}

// finish releases everything so that the bubble can exit.
func (h *rzHarness) finish() {
	defer verifYieldHook.Store(nil)
	h.drainCancelled()
	h.mu.Lock()
	h.finishing = true
	xs := append([]*rzExch(nil), h.exchs...)
	calls := h.calls
	h.calls = map[string]*rzCall{}
	h.mu.Unlock()
	for _, s := range h.sessions {
		h.abandon(s.name)
	}
	for _, x := range xs {
		x.cancel()
	}
	for _, c := range calls {
		select {
		case c.respond <- "bye":
		default:
		}
	}
	synctest.Wait()
	h.handler.closeAll()
	synctest.Wait()
	for _, s := range h.sessions {
		if s.ss != nil {
			go s.ss.Close()
		}
	}
	synctest.Wait()
}

// ---------------------------------------------------------------------------------------------

func rzRunCase(t *testing.T, out *verifOut, cs string, ops []string, tagOf func(op, obs string) []string) {
	synctest.Test(t, func(t *testing.T) {
		var h *rzHarness
		out.line(cs, "reset", "ok", "reset")
		for _, op := range ops {
			toks := strings.Fields(op)
			if len(toks) == 0 {
				continue
			}
			if toks[0] == "cfg" { // cfg <stateful|stateless> <sse|json> <store|nostore>
				if h != nil {
					h.finish()
				}
				h = rzNewHarness(t, toks[1] == "stateless", toks[2] == "json", toks[3] == "store")
				out.line(cs, op, "ok", "cfg")
				continue
			}
			if h == nil {
				out.line(cs, op, "nocfg", "bad")
				continue
			}
			obs := h.apply(toks)
			out.line(cs, op, obs, tagOf(op, obs)...)
		}
		if h != nil {
			h.finish()
		}
	})
}

func TestVerifResumeDebug(t *testing.T) {
	if os.Getenv("VERIF_DEBUG") == "" {
		t.Skip()
	}
	out := verifOpen(t)
	defer out.close()
	ops := strings.Split(os.Getenv("VERIF_DEBUG"), ";")
	rzRunCase(t, out, "dbg", ops, func(op, obs string) []string { return []string{"dbg"} })
}

var _ = jsonrpc.ID{}

// ---------------------------------------------------------------------------------------------
// generator: adaptive (it looks at the implementation's observations to choose valid next ops), seeded
// only by VERIF_SEED.  What it produced is a literal op list, so a replay needs no generator.

type rzGReq struct {
	id        int
	x         int // exchange of the POST
	responded bool
	cancelled bool // the client sent notifications/cancelled for it (its handler goes on)
}

type rzGStream struct {
	napp int // appends seen (ids t_0 … t_(napp-1) have been issued)
	att  int // exchange attached (0 = none)
	open bool
	reqs int // outstanding requests
}

type rzGSess struct {
	name     string
	reqs     []*rzGReq
	streams  map[string]*rzGStream
	calls    []string // pending server->client calls (tags)
	gone     bool     // deleted / killed / closed
	newProto bool
	listen   bool
	postX    int  // stateless: the POST exchange
	sub      bool // resources/subscribe was answered: the session is entitled to resources/updated
	direct   bool // served by transport.ServeHTTP directly (no handler)
}

type rzGen struct {
	rng       *rand.Rand
	h         *rzHarness
	out       *verifOut
	cs        string
	prop      string
	stateless bool
	jsonMode  bool
	store     bool
	sess      []*rzGSess
	hang      map[int]string // hanging exchange -> session
	nex       int
	serial    int
	nsess     int
	ntool     int
	maxSess   int
	idReuse   bool // also generate in-request stragglers after a within-session id reuse
	probes    int
	stop      bool
	// coverage of the case
	cuts, resumes, races int
	prng   *rand.Rand // decisions about store evictions (separate stream: the other choices stay what they were)
	purges int
	// a resume that was gone again at the end of its record (its connection broke during the replay, After failed, it was
	// refused …): the client resumes again from the same id ("however often the client resumes")
	again     *rzGAgain
	broken    int // resumes that broke during their replay
	reresumes int // resumes that follow one that was gone again
	fanouts   int  // server-level notifications issued from inside a handler
	pressures int  // resumes with another session's appends (purges) in the middle of the replay
	maxb      bool // a standing store limit is in force
	midPost   string // a response was just written for a POST (of this session) that still has unanswered calls
	mids      int    // writes of another session placed between two responses of one POST
	gcs       int    // garbage collections forced between two steps
	cancels   int  // requests the client cancelled while their handler was running
	directs   int  // sessions served by transport.ServeHTTP directly
}

type rzGAgain struct {
	sess, last string
	left       int // further attempts
}

func (g *rzGen) find(name string) *rzGSess {
	for _, s := range g.sess {
		if s.name == name {
			return s
		}
	}
	return nil
}

func (g *rzGen) stream(s *rzGSess, t string) *rzGStream {
	st := s.streams[t]
	if st == nil {
		st = &rzGStream{}
		s.streams[t] = st
	}
	return st
}

// absorb updates the generator's view from the implementation's observation.
func (g *rzGen) absorb(obs string) {
	for _, t := range strings.Fields(obs) {
		switch {
		case strings.HasPrefix(t, "a:"):
			f := strings.SplitN(t, ":", 4)
			if len(f) == 4 {
				if s := g.find(f[1]); s != nil {
					g.stream(s, f[2]).napp++
				}
			}
		case strings.HasPrefix(t, "x") && strings.HasSuffix(t, "."):
			n, _ := strconv.Atoi(strings.Trim(t, "x."))
			delete(g.hang, n)
		case strings.HasPrefix(t, "x") && !strings.ContainsAny(t, "+!/") && strings.Count(t, ":") == 1:
			f := strings.Split(t, ":")
			n, _ := strconv.Atoi(strings.TrimPrefix(f[0], "x"))
			if n > g.nex {
				g.nex = n
			}
		case strings.HasPrefix(t, "S") && strings.Contains(t, "["):
			name := t[1:strings.Index(t, "[")]
			s := g.find(name)
			if s == nil {
				continue
			}
			body := t[strings.Index(t, "[")+1:]
			if strings.HasSuffix(body, "D") {
				s.gone = true
				body = strings.TrimSuffix(body, "D")
			}
			body = strings.TrimSuffix(body, "]")
			rows, _, _ := strings.Cut(body, "|")
			seen := map[string]bool{}
			for _, r := range strings.Split(rows, ";") {
				f := strings.Split(r, ":")
				if len(f) < 6 {
					continue
				}
				st := g.stream(s, f[0])
				seen[f[0]] = true
				st.att = 0
				if strings.HasPrefix(f[1], "x") {
					st.att, _ = strconv.Atoi(f[1][1:])
				}
				st.open = f[2] == "o"
				st.reqs = 0
				if f[4] != "" {
					st.reqs = len(strings.Split(f[4], ","))
				}
			}
			for name, st := range s.streams {
				if !seen[name] {
					st.att, st.open, st.reqs = 0, false, 0
				}
			}
		}
	}
}

func (g *rzGen) do(op string, tags ...string) string {
	toks := strings.Fields(op)
	before := g.nex
	obs := g.h.apply(toks)
	g.absorb(obs)
	// exchanges opened by this op that did not end are hanging
	for _, t := range strings.Fields(obs) {
		if strings.HasPrefix(t, "x") && !strings.ContainsAny(t, "+!/.") && strings.Count(t, ":") == 1 {
			f := strings.Split(t, ":")
			n, _ := strconv.Atoi(strings.TrimPrefix(f[0], "x"))
			if n > before && !strings.Contains(obs, fmt.Sprintf("x%d.", n)) {
				sess := ""
				if len(toks) > 1 {
					sess = toks[1]
				}
				if toks[0] == "racewg" || toks[0] == "racegw" || toks[0] == "racerg" || toks[0] == "getp" {
					sess = toks[1]
				}
				g.hang[n] = sess
			}
			if n > before && toks[0] == "get" && strings.Contains(obs, fmt.Sprintf("x%d!", n)) && strings.Contains(" "+obs+" ", fmt.Sprintf(" x%d. ", n)) {
				tags = append(tags, "get-broke-during-replay")
			}
		}
	}
	if (toks[0] == "getp" || strings.HasSuffix(op, " af=1")) && g.h.lastNote != "" {
		tags = append(tags, g.h.lastNote)
		g.h.lastNote = ""
	}
	g.out.line(g.cs, op, obs, append([]string{toks[0]}, tags...)...)
	return obs
}

func (g *rzGen) pick(n int) int { return g.rng.Intn(n) }
func (g *rzGen) chance(pct int) bool { return g.rng.Intn(100) < pct }

func (g *rzGen) version() string { return []string{"-", "a", "b", "c", "c"}[g.pick(5)] }

func (g *rzGen) budget() string {
	if g.chance(10) {
		return fmt.Sprintf(" b=%d", g.pick(3))
	}
	return ""
}

func (g *rzGen) liveSess() []*rzGSess {
	var l []*rzGSess
	for _, s := range g.sess {
		if !s.gone {
			l = append(l, s)
		}
	}
	return l
}

func (s *rzGSess) parked() []*rzGReq {
	var l []*rzGReq
	for _, r := range s.reqs {
		if !r.responded {
			l = append(l, r)
		}
	}
	return l
}

func (g *rzGen) newSession() {
	g.nsess++
	name := fmt.Sprintf("s%d", g.nsess)
	s := &rzGSess{name: name, streams: map[string]*rzGStream{}}
	g.sess = append(g.sess, s)
	v := []string{"a", "b", "c", "c"}[g.pick(4)]
	b := g.budget()
	if g.prng != nil && g.prng.Intn(100) < 15 {
		// the application uses the transport directly: no handler in front of it
		s.direct = true
		g.directs++
		g.do(fmt.Sprintf("init %s id=0 v=%s%s dt=1", name, v, b), "init-direct-transport")
	} else {
		g.do(fmt.Sprintf("init %s id=0 v=%s%s", name, v, b))
	}
	if g.chance(50) {
		g.do(fmt.Sprintf("note %s hv=%s", name, g.version()))
	}
	if g.prop == "C10" && g.prng != nil && g.prng.Intn(100) < 60 {
		g.subscribe(s)
	}
}

// subscribe POSTs resources/subscribe with a request id that is free in the session.
func (g *rzGen) subscribe(s *rzGSess) {
	inflight := map[int]bool{}
	for _, r := range s.parked() {
		inflight[r.id] = true
	}
	id := 1 + g.prng.Intn(4)
	for k := 1; inflight[id] && k <= 6; k++ {
		id = k
	}
	obs := g.do(fmt.Sprintf("plain %s id=%d m=sub hv=%s", s.name, id, []string{"-", "a", "b", "c", "c"}[g.prng.Intn(5)]), "plain-sub")
	if strings.Contains(obs, fmt.Sprintf("R.%d.plain", id)) {
		s.sub = true
	}
}

// fanout: while a request of some session is in flight, the server announces a resource change to every subscribed
// session (Server.ResourceUpdated with the handler's context or with context.Background()).
func (g *rzGen) fanout() bool {
	var origins []*rzGSess
	nsub := 0
	for _, s := range g.liveSess() {
		if len(s.reqs) > 0 {
			origins = append(origins, s)
		}
		if s.sub {
			nsub++
		}
	}
	if len(origins) == 0 || nsub == 0 {
		return false
	}
	a := origins[g.prng.Intn(len(origins))]
	var q *rzGReq
	if p := a.parked(); len(p) > 0 && g.prng.Intn(100) < 85 {
		q = p[g.prng.Intn(len(p))]
	} else {
		q = a.reqs[g.prng.Intn(len(a.reqs))]
	}
	flag := "h"
	if g.prng.Intn(100) < 30 {
		flag = "b"
	}
	tags := []string{"fanout-" + flag}
	for _, s := range g.liveSess() {
		if s == a || !s.sub {
			continue
		}
		tags = append(tags, "fanout-to-other-session")
		for _, r := range s.parked() {
			if r.id == q.id {
				tags = append(tags, "fanout-other-session-same-id-in-flight")
			}
		}
		if st := s.streams["t0"]; st != nil && st.att != 0 {
			tags = append(tags, "fanout-other-session-has-standalone")
		}
	}
	if a.sub {
		tags = append(tags, "fanout-origin-subscribed")
	}
	var names []string
	for _, x := range g.sess {
		names = append(names, x.name)
	}
	g.serial++
	g.fanouts++
	g.do(fmt.Sprintf("fanout %s %d x%d %s %d | %s", a.name, q.id, q.x, flag, g.serial, strings.Join(names, " ")), tags...)
	return true
}

// pressure: a resume of one session while a handler of another session appends (the bounded store purges) in the middle
// of the replay.
func (g *rzGen) pressure() bool {
	live := g.liveSess()
	if len(live) < 2 {
		return false
	}
	type cand struct {
		a    *rzGSess
		t    string
		napp int
	}
	var cands []cand
	for _, s := range live {
		var names []string
		for n := range s.streams {
			names = append(names, n)
		}
		sort.Strings(names)
		for _, n := range names {
			if st := s.streams[n]; st.napp >= 3 && st.att == 0 {
				cands = append(cands, cand{s, n, st.napp})
			}
		}
	}
	if len(cands) == 0 {
		return false
	}
	c := cands[g.prng.Intn(len(cands))]
	var writers []*rzGSess
	for _, s := range live {
		if s != c.a && len(s.parked()) > 0 {
			writers = append(writers, s)
		}
	}
	if len(writers) == 0 {
		return false
	}
	b := writers[g.prng.Intn(len(writers))]
	q := b.parked()[g.prng.Intn(len(b.parked()))]
	if !g.maxb {
		g.maxb = true
		g.do(fmt.Sprintf("maxbytes %d", 150+g.prng.Intn(700)), "maxbytes")
	}
	idx := g.prng.Intn(c.napp - 2) // at least two entries after it
	k := 1 + g.prng.Intn(c.napp-idx-2)
	n := 1 + g.prng.Intn(3)
	flag := "c"
	if g.prng.Intn(100) < 40 {
		flag = "d"
	}
	serial := g.serial + 1
	g.serial += n
	g.resumes++
	g.pressures++
	op := fmt.Sprintf("getp %s hv=%s last=%s_%d k=%d | %s %d x%d %s n=%d %d", c.a.name, []string{"-", "a", "b", "c", "c"}[g.prng.Intn(5)], c.t, idx, k,
		b.name, q.id, q.x, flag, n, serial)
	g.do(op, "get-resume", "get-under-store-pressure")
	return true
}

func (g *rzGen) call(s *rzGSess) {
	hv := g.version()
	// ids from a small pool: reused across sessions, over time and (deliberately, sometimes) while in flight
	id := 1 + g.pick(4)
	inflight := map[int]bool{}
	for _, r := range s.parked() {
		inflight[r.id] = true
	}
	if inflight[id] && !g.chance(25) {
		for k := 1; k <= 6; k++ {
			if !inflight[k] {
				id = k
				break
			}
		}
	}
	reuse := false
	if g.prng != nil {
		// a client that cancelled a request regards the request as over and its id as free again
		for _, r := range s.parked() {
			if r.cancelled && g.prng.Intn(100) < 50 {
				id, reuse = r.id, true
				break
			}
		}
	}
	ids := []int{id}
	nn := 0
	legacy := hv == "-" || hv == "a"
	if legacy && g.chance(30) {
		id2 := 1 + g.pick(6)
		if id2 != id {
			ids = append(ids, id2)
		}
	}
	if legacy && g.prng != nil {
		// pre-2025-06-18: one POST may carry a batch of several calls and notifications (one logical stream for all of
		// them; it is done with the LAST response). C02 runs concentrate on them.
		pct := 12
		if g.prop == "C02" {
			pct = 40
		} else if g.prop == "C10" && g.jsonMode {
			pct = 35 // application/json bodies of several calls are assembled over time
		}
		if g.prng.Intn(100) < pct {
			for want := 2 + g.prng.Intn(2); len(ids) < want; {
				k := 1 + g.prng.Intn(8)
				fresh := true
				for _, i := range ids {
					fresh = fresh && i != k
				}
				if fresh {
					ids = append(ids, k)
				}
			}
			nn = g.prng.Intn(3)
		} else if g.prng.Intn(100) < 10 {
			nn = 1 + g.prng.Intn(2) // a batch of one call and notifications
		}
	}
	dup := false
	var idtxt []string
	for _, i := range ids {
		dup = dup || inflight[i]
		idtxt = append(idtxt, strconv.Itoa(i))
	}
	x := g.nex + 1
	tag := "call"
	if dup {
		tag = "call-dup"
	} else if len(ids) > 1 {
		tag = "call-batch"
	}
	tags := []string{tag}
	if reuse {
		tags = append(tags, "call-reuses-id-of-cancelled-request")
	}
	if len(ids) > 2 {
		tags = append(tags, "call-batch-3")
	}
	nntxt := ""
	if nn > 0 {
		nntxt = fmt.Sprintf(" nn=%d", nn)
		tags = append(tags, "call-batch-with-notifications")
	}
	g.do(fmt.Sprintf("call %s ids=%s hv=%s%s%s", s.name, strings.Join(idtxt, ","), hv, nntxt, g.budget()), tags...)
	if !dup {
		for _, i := range ids {
			s.reqs = append(s.reqs, &rzGReq{id: i, x: x})
		}
	}
}

func (g *rzGen) statelessCall() {
	g.nsess++
	name := fmt.Sprintf("q%d", g.nsess)
	s := &rzGSess{name: name, streams: map[string]*rzGStream{}, postX: g.nex + 1}
	g.sess = append(g.sess, s)
	if g.chance(15) {
		s.newProto, s.listen = true, true
		// (no write budget here: a failed acknowledgement makes the listen handler give up — E14's business)
		g.do(fmt.Sprintf("listen %s id=%d", name, 1+g.pick(4)), "listen")
		return
	}
	hv := []string{"-", "a", "b", "c", "c", "d"}[g.pick(6)]
	s.newProto = hv == "d"
	id := 1 + g.pick(4)
	g.do(fmt.Sprintf("call %s ids=%d hv=%s%s", name, id, hv, g.budget()), "call-stateless")
	s.reqs = append(s.reqs, &rzGReq{id: id, x: s.postX})
}

func (g *rzGen) emit(s *rzGSess, r *rzGReq) {
	g.serial++
	kind := "N"
	if g.chance(25) {
		kind = "C"
	}
	flag := "c"
	if g.chance(35) {
		flag = "d"
	}
	if kind == "N" && g.prop == "C10" && !g.stateless && !s.newProto && g.prng != nil && g.prng.Intn(100) < 20 {
		kind = "L" // ServerSession.Log to the handler's own session
	}
	if kind == "C" && !g.stateless && !s.newProto && g.prng != nil {
		// other server->client requests: a ping (what keep-alive sends), roots/list
		switch r := g.prng.Intn(100); {
		case r < 45:
			kind = "P"
		case r < 60:
			kind = "R"
		}
	}
	if r.responded && flag == "c" && !g.idReuse {
		// A straggler that still uses the context of a finished request is rejected by the server —
		// unless the client has meanwhile reused that request id for a new request of the same session
		// (which the protocol forbids): then it lands on the new request's stream.  Only generated
		// with VERIF_RESUME_IDREUSE=1.
		for _, q := range s.reqs {
			if q != r && q.id == r.id && q.x > r.x {
				flag = "d"
			}
		}
	}
	tag := fmt.Sprintf("%s.%d.x%d.%s.%d", s.name, r.id, r.x, flag, g.serial)
	t := "emit-" + kind + flag
	if r.responded {
		t += "-after-response"
	}
	af := ""
	if g.prop == "C02" && g.store && !g.stateless && g.prng != nil && g.prng.Intn(100) < 15 {
		af, t = " af=1", t+"-append-fails"
	}
	obs := g.do(fmt.Sprintf("emit %s %d x%d %s %s %d%s", s.name, r.id, r.x, kind, flag, g.serial, af), t)
	if (kind == "C" || kind == "P" || kind == "R") && strings.HasSuffix(obs, "w=pending") {
		s.calls = append(s.calls, tag)
	}
}

// issued picks a previously issued event id of some stream of s (preferring detached / finished streams).
func (g *rzGen) issued(s *rzGSess) (string, bool) {
	var names []string
	for n, st := range s.streams {
		if st.napp > 0 {
			names = append(names, n)
		}
	}
	if len(names) == 0 {
		return "", false
	}
	sort.Strings(names)
	// prefer streams that nobody is attached to
	var free []string
	for _, n := range names {
		if s.streams[n].att == 0 {
			free = append(free, n)
		}
	}
	if len(free) > 0 && g.chance(85) {
		names = free
	}
	n := names[g.pick(len(names))]
	return fmt.Sprintf("%s_%d", n, g.pick(s.streams[n].napp)), true
}

func (g *rzGen) get(s *rzGSess) string {
	hv := g.version()
	last := "none"
	tag := "get-standalone"
	switch r := g.pick(100); {
	case r < 62:
		if id, ok := g.issued(s); ok && g.store {
			last, tag = id, "get-resume"
		} else if !g.store && g.chance(15) {
			last, tag = "t1_0", "get-resume-nostore"
		}
	case r < 66:
		last, tag = "bad", "get-bad"
	case r < 70:
		last, tag = "t99_0", "get-unknown-stream"
	}
	if tag == "get-resume" {
		g.resumes++
	}
	b := g.budget()
	if tag == "get-resume" && b == "" && g.prng != nil && g.prng.Intn(100) < 30 {
		// the resuming connection breaks at its k-th write: before the first replayed event, in the middle of the
		// replay, at its last event, or at the first live event after it (k ranges over the events there are to replay)
		b = fmt.Sprintf(" b=%d", g.prng.Intn(g.toReplay(s, last)+1))
	}
	return fmt.Sprintf("get %s hv=%s last=%s%s", s.name, hv, last, b) + "\x00" + tag
}

// toReplay is the number of stored entries after event id `last` (as far as the generator has seen appends).
func (g *rzGen) toReplay(s *rzGSess, last string) int {
	t, idx, ok := strings.Cut(last, "_")
	if !ok {
		return 0
	}
	i, _ := strconv.Atoi(idx)
	st := s.streams[t]
	if st == nil || st.napp-i-1 < 0 {
		return 0
	}
	return st.napp - i - 1
}

// noteResume looks at what became of a resume: if its exchange is gone again by the end of the record and the stream
// still has something to say (requests outstanding or entries to replay), the client will resume again from the same id.
func (g *rzGen) noteResume(s *rzGSess, op, obs string) {
	kv := rzKV(strings.Fields(op))
	last := kv["last"]
	if last == "" || last == "none" || last == "bad" || !g.store {
		return
	}
	x := 0
	for _, t := range strings.Fields(obs) {
		if strings.HasPrefix(t, "x") && !strings.ContainsAny(t, "+!/.") && strings.Count(t, ":") == 1 {
			x, _ = strconv.Atoi(strings.TrimPrefix(strings.Split(t, ":")[0], "x"))
		}
	}
	if x == 0 || !strings.Contains(" "+obs+" ", fmt.Sprintf(" x%d. ", x)) {
		return // still hanging
	}
	if strings.Contains(obs, fmt.Sprintf("x%d!", x)) {
		g.broken++
	} else if strings.Contains(" "+obs+" ", fmt.Sprintf(" x%d:sse ", x)) && g.prng.Intn(100) >= 20 {
		// served to the end (the stream is complete): resumed again only now and then
		g.again = nil
		return
	}
	left := 1 + g.prng.Intn(3)
	if g.again != nil && g.again.sess == s.name && g.again.last == last {
		left = g.again.left - 1
	}
	if left <= 0 {
		g.again = nil
		return
	}
	g.again = &rzGAgain{sess: s.name, last: last, left: left}
}

func (g *rzGen) hangingOf(s *rzGSess) []int {
	var l []int
	for n, name := range g.hang {
		if name == s.name {
			l = append(l, n)
		}
	}
	sort.Ints(l)
	return l
}

// cancelReq: the client gives up on a request whose handler is running (notifications/cancelled); the handler goes on and
// answers later, may emit meanwhile; the client may reuse the id at once.
func (g *rzGen) cancelReq() bool {
	var cands []*rzGSess
	for _, s := range g.liveSess() {
		for _, r := range s.parked() {
			if !r.cancelled {
				cands = append(cands, s)
				break
			}
		}
	}
	if len(cands) == 0 {
		return false
	}
	s := cands[g.prng.Intn(len(cands))]
	var rs []*rzGReq
	for _, r := range s.parked() {
		if !r.cancelled {
			rs = append(rs, r)
		}
	}
	r := rs[g.prng.Intn(len(rs))]
	r.cancelled = true
	g.cancels++
	tags := []string{"cancel-in-flight-request"}
	if st := s.streams["t0"]; st != nil && st.att != 0 {
		tags = append(tags, "cancel-with-standalone-attached")
	}
	g.do(fmt.Sprintf("cancel %s %d x%d hv=%s", s.name, r.id, r.x, []string{"-", "a", "b", "c", "c"}[g.prng.Intn(5)]), tags...)
	return true
}

// between: a POST that carried several calls has had one of them answered and still waits for others; before the next
// response of that POST another session writes (its own response, or a notification): sessions interleave in the middle of
// the assembly of one HTTP response.
func (g *rzGen) between(name string) bool {
	var others []*rzGSess
	for _, s := range g.liveSess() {
		if s.name != name && len(s.parked()) > 0 {
			others = append(others, s)
		}
	}
	if len(others) == 0 {
		return false
	}
	s := others[g.prng.Intn(len(others))]
	p := s.parked()
	q := p[g.prng.Intn(len(p))]
	g.mids++
	if g.prng.Intn(100) < 55 {
		q.responded = true
		g.do(fmt.Sprintf("resp %s %d x%d", s.name, q.id, q.x), "resp-between-responses-of-another-sessions-post")
		if g.prng.Intn(100) < 60 {
			g.gc("gc-between-responses-of-one-post")
		}
		return true
	}
	g.serial++
	flag := "c"
	if g.prng.Intn(100) < 35 {
		flag = "d"
	}
	g.do(fmt.Sprintf("emit %s %d x%d N %s %d", s.name, q.id, q.x, flag, g.serial), "emit-between-responses-of-another-sessions-post")
	if g.prng.Intn(100) < 60 {
		g.gc("gc-between-responses-of-one-post")
	}
	return true
}

// gc: the collector runs between two steps (pooled / weakly held memory is dropped)
func (g *rzGen) gc(tags ...string) {
	g.gcs++
	g.do("gc", tags...)
}

func (g *rzGen) stepStateful() {
	if mid := g.midPost; mid != "" && g.prng != nil {
		g.midPost = ""
		if g.prop == "C10" && g.prng.Intn(100) < 65 && g.between(mid) {
			return
		}
	}
	if g.prng != nil && g.nsess > 0 && g.prng.Intn(100) < 6 {
		if g.cancelReq() {
			return
		}
	}
	if g.prng != nil && g.nsess > 0 && g.prng.Intn(100) < 2 {
		g.gc()
		return
	}
	if g.store && g.prng != nil && g.nsess > 0 && g.prng.Intn(100) < 5 {
		// the store comes under memory pressure: squeeze it once (evicts the oldest entries of every stream)
		g.purges++
		g.do(fmt.Sprintf("purge %d", 1+g.prng.Intn(700)), "purge")
		return
	}
	if g.prop == "C10" && g.prng != nil && g.nsess > 0 && g.prng.Intn(100) < 14 {
		if g.fanout() {
			return
		}
	}
	if g.prop == "C10" && g.prng != nil && g.prng.Intn(100) < 4 {
		// a session subscribes later in its life
		var l []*rzGSess
		for _, s := range g.liveSess() {
			if !s.sub {
				l = append(l, s)
			}
		}
		if len(l) > 0 {
			g.subscribe(l[g.prng.Intn(len(l))])
			return
		}
	}
	if g.prop == "C08" && g.store && g.prng != nil && g.nsess > 1 && g.prng.Intn(100) < 12 {
		if g.pressure() {
			return
		}
	}
	if a := g.again; a != nil && g.prng != nil && g.prng.Intn(100) < 55 {
		if s := g.find(a.sess); s != nil && !s.gone {
			// the client resumes again from the id it has: mostly on a healthy connection, sometimes on one that breaks too
			b := ""
			if g.prng.Intn(100) < 30 {
				b = fmt.Sprintf(" b=%d", g.prng.Intn(g.toReplay(s, a.last)+1))
			}
			g.resumes++
			g.reresumes++
			op := fmt.Sprintf("get %s hv=%s last=%s%s", s.name, []string{"-", "a", "b", "c", "c"}[g.prng.Intn(5)], a.last, b)
			obs := g.do(op, "get-resume", "get-resume-again")
			g.noteResume(s, op, obs)
			return
		}
		g.again = nil
	}
	live := g.liveSess()
	if len(live) == 0 || (len(g.sess) < g.maxSess && g.chance(12)) {
		if len(g.sess) < g.maxSess {
			g.newSession()
			return
		}
		if len(live) == 0 {
			// every session is gone: requests to a closed session are answered 404 (a few probes, then stop)
			g.probes++
			if g.probes > 2 {
				g.stop = true
				return
			}
			s := g.sess[g.pick(len(g.sess))]
			if g.chance(50) {
				g.do(fmt.Sprintf("get %s hv=c last=none", s.name), "gone-404")
			} else {
				g.do(fmt.Sprintf("call %s ids=1 hv=c", s.name), "gone-404")
			}
			return
		}
	}
	s := live[g.pick(len(live))]
	parked := s.parked()
	hanging := g.hangingOf(s)
	r := g.pick(100)
	switch {
	case r < 14:
		if len(parked) < 4 {
			if g.store && g.prng != nil && g.prng.Intn(100) < 10 {
				// two POSTs with the same (free) call id, the first one held inside EventStore.Open while the second arrives
				inflight := map[int]bool{}
				for _, q := range parked {
					inflight[q.id] = true
				}
				id := 0
				for k := 1; k <= 6; k++ {
					if !inflight[k] {
						id = k
						break
					}
				}
				if id != 0 {
					x := g.nex + 2 // the second POST is the one that is accepted
					g.do(fmt.Sprintf("duprace %s ids=%d hv=%s", s.name, id, g.version()), "duprace")
					s.reqs = append(s.reqs, &rzGReq{id: id, x: x})
					return
				}
			}
			g.call(s)
			return
		}
		fallthrough
	case r < 38:
		if len(s.reqs) > 0 {
			var q *rzGReq
			if len(parked) > 0 && !g.chance(12) {
				q = parked[g.pick(len(parked))]
			} else {
				q = s.reqs[g.pick(len(s.reqs))]
			}
			g.emit(s, q)
			return
		}
		g.call(s)
	case r < 50:
		if len(parked) > 0 {
			q := parked[g.pick(len(parked))]
			q.responded = true
			for _, o := range parked {
				if o != q && o.x == q.x {
					g.midPost = s.name // the POST of q still waits for other responses
				}
			}
			if g.prop == "C02" && g.store && g.prng != nil && g.prng.Intn(100) < 30 {
				// the event store fails to record this response (first / middle / last of a batch as it comes)
				g.do(fmt.Sprintf("resp %s %d x%d af=1", s.name, q.id, q.x), "resp-append-fails")
				return
			}
			g.do(fmt.Sprintf("resp %s %d x%d", s.name, q.id, q.x))
			return
		}
		g.call(s)
	case r < 62:
		if len(hanging) > 0 {
			g.cuts++
			g.do(fmt.Sprintf("cut x%d %s", hanging[g.pick(len(hanging))], s.name))
			return
		}
		g.call(s)
	case r < 66:
		if len(hanging) > 0 {
			g.do(fmt.Sprintf("wfail x%d %s", hanging[g.pick(len(hanging))], s.name))
			return
		}
		fallthrough
	case r < 84:
		// race a write with a resume when possible
		if g.store && len(parked) > 0 && g.chance(30) {
			q := parked[g.pick(len(parked))]
			if id, ok := g.issued(s); ok {
				g.serial++
				g.races++
				g.resumes++
				op := "racewg"
				if g.chance(50) {
					op = "racegw"
				}
				if g.prng != nil && g.prng.Intn(100) < 30 {
					op = "racerg" // inside the window between Write's two critical sections
				}
				flag := "c"
				if g.chance(30) {
					flag = "d"
				}
				g.do(fmt.Sprintf("%s %s %d x%d N %s %d | %s hv=%s last=%s", op, s.name, q.id, q.x, flag, g.serial, s.name, g.version(), id), op)
				return
			}
		}
		optag := strings.SplitN(g.get(s), "\x00", 2)
		obs := g.do(optag[0], optag[1])
		if optag[1] == "get-resume" && g.prng != nil {
			g.noteResume(s, optag[0], obs)
		}
	case r < 88:
		if len(parked) > 0 {
			q := parked[g.pick(len(parked))]
			g.do(fmt.Sprintf("sclose %s %d x%d retry=%d", s.name, q.id, q.x, g.pick(2)))
			return
		}
		g.call(s)
	case r < 92:
		if len(s.calls) > 0 {
			i := g.pick(len(s.calls))
			tag := s.calls[i]
			s.calls = append(s.calls[:i], s.calls[i+1:]...)
			// tag = <sess>.<req>.x<post>.<c|d>.<serial>: cancelling an in-request call is a straggler too (see emit)
			f := strings.Split(tag, ".")
			reused := false
			if len(f) == 5 && f[3] == "c" && !g.idReuse {
				id, _ := strconv.Atoi(f[1])
				px, _ := strconv.Atoi(strings.TrimPrefix(f[2], "x"))
				for _, q := range s.reqs {
					if q.id == id && q.x > px {
						reused = true
					}
				}
			}
			if reused || g.chance(50) {
				g.do(fmt.Sprintf("answer %s %s", s.name, tag))
			} else {
				g.do(fmt.Sprintf("cancelcall %s %s", s.name, tag))
			}
			return
		}
		g.call(s)
	case r < 93:
		g.do(fmt.Sprintf("note %s hv=%s", s.name, g.version()))
	case r < 95:
		g.ntool++
		names := []string{}
		for _, x := range g.sess {
			names = append(names, x.name)
		}
		g.do(fmt.Sprintf("toolchange %d %s", g.ntool, strings.Join(names, " ")))
	case r < 97:
		// DELETE waits for handlers and pending calls: only when there are none
		if len(parked) == 0 && len(s.calls) == 0 {
			if s.direct {
				g.do("delete "+s.name, "delete-direct-405") // the transport serves GET and POST only; the session lives on
				return
			}
			g.do("delete " + s.name)
			s.gone = true
			return
		}
		g.call(s)
	default:
		stuck := false
		for _, q := range parked {
			stuck = stuck || q.cancelled // (its handler ignores the cancellation the dying connection sends: not killed now)
		}
		if g.chance(40) && !stuck {
			g.do("kill " + s.name)
			s.gone = true
			s.calls = nil
			for _, q := range s.reqs {
				q.responded = true
			}
			return
		}
		g.call(s)
	}
}

func (g *rzGen) stepStateless() {
	live := g.liveSess()
	if len(live) == 0 || (len(live) < g.maxSess && g.chance(25)) {
		g.statelessCall()
		return
	}
	s := live[g.pick(len(live))]
	parked := s.parked()
	hanging := g.hangingOf(s)
	r := g.pick(100)
	switch {
	case r < 40 && len(s.reqs) > 0:
		g.emit(s, s.reqs[g.pick(len(s.reqs))])
	case r < 60 && len(parked) > 0:
		q := parked[0]
		q.responded = true
		g.do(fmt.Sprintf("resp %s %d x%d", s.name, q.id, q.x))
	case r < 70 && len(hanging) > 0 && !s.listen:
		// (a cut of a subscriptions/listen exchange races the handler's final result with the release: not generated)
		g.cuts++
		g.do(fmt.Sprintf("cut x%d %s", hanging[0], s.name))
	case r < 75 && len(hanging) > 0:
		g.do(fmt.Sprintf("wfail x%d %s", hanging[0], s.name))
	case r < 80 && len(parked) > 0:
		g.do(fmt.Sprintf("sclose %s %d x%d retry=%d", s.name, parked[0].id, parked[0].x, g.pick(2)))
	case r < 84:
		g.do(fmt.Sprintf("get %s hv=c last=none", s.name), "get-405")
	case r < 94:
		g.ntool++
		names := []string{}
		for _, x := range g.sess {
			names = append(names, x.name)
		}
		g.do(fmt.Sprintf("toolchange %d %s", g.ntool, strings.Join(names, " ")))
	default:
		g.statelessCall()
	}
}

func rzFlush(out *verifOut) {
	out.mu.Lock()
	out.w.Flush()
	out.mu.Unlock()
}

// rzGenCase runs one generated scenario in its own bubble.
func rzGenCase(t *testing.T, out *verifOut, c int, prop string) (cuts, resumes, races int) {
	rng := verifRng(int64(c))
	cs := fmt.Sprintf("g%d", c)
	synctest.Test(t, func(t *testing.T) {
		g := &rzGen{rng: rng, out: out, cs: cs, prop: prop, hang: map[int]string{}, idReuse: os.Getenv("VERIF_RESUME_IDREUSE") == "1"}
		// configuration: C08 concentrates on stateful SSE with a store; C10 spreads over the matrix
		r := rng.Intn(100)
		if prop == "C02" {
			// id bookkeeping on the streamable server: stateful, mostly without a store (an undeliverable response is dropped),
			// cuts, and ids from a small pool reused after completion
			g.stateless = false
			g.jsonMode = r%4 == 0
			g.store = r%5 == 0 || r%7 == 3
			g.maxSess = 1 + rng.Intn(2)
		} else if prop == "C10" {
			g.stateless = r%4 == 0
			g.jsonMode = (r/4)%3 == 0
			g.store = (r/12)%3 != 0
			g.maxSess = 1 + rng.Intn(4)
		} else {
			g.stateless = r >= 92
			g.jsonMode = r >= 80 && r < 88
			g.store = !(r >= 88 && r < 92)
			g.maxSess = 1 + rng.Intn(2)
		}
		if g.stateless {
			g.maxSess = 1 + rng.Intn(4)
		}
		mode, resp, st := "stateful", "sse", "store"
		if g.stateless {
			mode = "stateless"
		}
		if g.jsonMode {
			resp = "json"
		}
		if !g.store {
			st = "nostore"
		}
		out.line(cs, "reset", "ok", "reset")
		g.h = rzNewHarness(t, g.stateless, g.jsonMode, g.store)
		out.line(cs, fmt.Sprintf("cfg %s %s %s", mode, resp, st), "ok", "cfg", "cfg-"+mode+"-"+resp+"-"+st)
		g.prng = verifRng(int64(c) + 7777777)
		if g.store && !g.stateless && g.prng.Intn(100) < 12 {
			// a small standing limit: appends evict as they go
			g.do(fmt.Sprintf("maxbytes %d", 150+g.prng.Intn(1500)), "maxbytes")
			g.maxb = true
		}
		n := 8 + rng.Intn(28)
		for i := 0; i < n && !g.stop; i++ {
			if g.stateless {
				g.stepStateless()
			} else {
				g.stepStateful()
			}
		}
		var tags []string
		if g.cuts > 0 {
			tags = append(tags, "case-with-cut")
		}
		if g.resumes >= 2 {
			tags = append(tags, "case-with-2+-resumes")
		}
		if g.resumes >= 1 {
			tags = append(tags, "case-with-resume")
		}
		if g.races > 0 {
			tags = append(tags, "case-with-race")
		}
		if len(g.sess) > 1 {
			tags = append(tags, "case-multi-session")
		}
		if g.purges > 0 {
			tags = append(tags, "case-with-purge")
		}
		if g.broken > 0 {
			tags = append(tags, "case-with-broken-replay")
		}
		if g.reresumes > 0 {
			tags = append(tags, "case-with-resume-after-gone-resume")
		}
		if g.fanouts > 0 {
			tags = append(tags, "case-with-fanout-from-handler")
		}
		if g.pressures > 0 {
			tags = append(tags, "case-with-store-pressure-during-replay")
		}
		if g.cancels > 0 {
			tags = append(tags, "case-with-client-cancel")
		}
		if g.directs > 0 {
			tags = append(tags, "case-with-direct-transport")
		}
		if g.gcs > 0 {
			tags = append(tags, "case-with-gc-between-steps")
		}
		if g.mids > 0 {
			tags = append(tags, "case-with-other-session-writing-between-responses-of-one-post")
		}
		out.line(cs, "endcase", "ok", append([]string{"endcase"}, tags...)...)
		cuts, resumes, races = g.cuts, g.resumes, g.races
		g.h.finish()
	})
	rzFlush(out)
	return
}

func rzReplayFile(t *testing.T, out *verifOut, path, cs string) {
	b, err := os.ReadFile(path)
	if err != nil {
		t.Fatal(err)
	}
	var ops []string
	for _, ln := range strings.Split(string(b), "\n") {
		ln = strings.TrimSpace(ln)
		if ln == "" || strings.HasPrefix(ln, "#") || ln == "reset" || ln == "endcase" {
			continue
		}
		ops = append(ops, ln)
	}
	if cs != "replay" && strings.Contains(string(b), " af=1") && os.Getenv("VERIF_PROPERTY") != "C02" {
		// a failing EventStore.Append is outside C08 (which assumes the store meets its contract: the ids of everything
		// after an unstored message are off by one — Lean: `append_failure_breaks_alignment`) and outside C10's
		// "response neither delivered nor stored" check: such corpus cases run under C02 only
		return
	}
	rzRunCase(t, out, cs, ops, func(op, obs string) []string { return []string{"corpus", strings.Fields(op)[0]} })
	rzFlush(out)
}

func TestVerifResume(t *testing.T) {
	out := verifOpen(t)
	defer out.close()
	prop := os.Getenv("VERIF_PROPERTY")
	if p := os.Getenv("VERIF_REPLAY"); p != "" {
		rzReplayFile(t, out, p, "replay")
		return
	}
	if p := os.Getenv("VERIF_CORPUS"); p != "" {
		ents, _ := os.ReadDir(p)
		for _, e := range ents {
			if strings.HasSuffix(e.Name(), ".ops") {
				rzReplayFile(t, out, p+"/"+e.Name(), "corpus-"+strings.TrimSuffix(e.Name(), ".ops"))
			}
		}
	}
	n := verifN(6000, 60000)
	salt := 0
	if prop == "C10" {
		salt = 500000
	}
	for c := 0; c < n; c++ {
		rzGenCase(t, out, salt+c, prop)
	}
}
