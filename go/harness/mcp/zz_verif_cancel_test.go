// Engine `cancel` (C04 end to end): real mcp Client and Server sessions over every transport, under
// testing/synctest virtual time.  Per case: a transport configuration, 1-4 concurrent calls (client→server
// tools/call and ping; server→client sampling / elicitation / roots / ping issued INSIDE the handler of a
// carrier tools/call, on a context derived from the handler's — "nested", dir s2cn — or on a context derived
// from context.Background() — "detached", dir s2cd), peer handlers that park until they are released or their
// context ends (park), that ignore their context (deaf) or that answer after d virtual ms (quick); the context
// of a PRNG-chosen victim ends (cancel() or deadline) at a PRNG-chosen instant (pre: its request is queued
// behind a notification handler that holds the peer's dispatcher · run: while the handler is parked · race:
// in the virtual instant in which the handler answers · post: after the call returned), optionally with the
// notifications/cancelled notice undeliverable (the transport Write of exactly that message stalls until its
// context ends / is rejected / fails).  Then a follow-up call in the victim's direction while everything else
// is still parked, the release of every handler, and — 6 s later, after notifyCancellationTimeout — a second
// follow-up.  Observed: one global event log (snd: API call begins · ret: it returned, with what · beg/fin: the
// peer's handler — outermost receiving middleware — starts/ends · hc: the handler's context ended while the
// handler was running, with the cause · can: the call's context ended), each with the virtual time in ms.
// The Lean driver (McpModel/Cancel/Driver) checks that the log is the visible part of a run of the proved
// model and evaluates the property monitor (McpModel/Cancel/Monitor) on it.
//
// Not part of the repository; grafted into package mcp by -overlay together with zz_verif_order_test.go (whose
// in-process http.RoundTripper ordRT it uses).  See DESIGN.md §4 E16, §5 C04.
package mcp

import (
	"context"
	"encoding/json"
	"errors"
	"fmt"
	"io"
	"math/rand"
	"net/http"
	"os"
	"sort"
	"strconv"
	"strings"
	"sync"
	"testing"
	"testing/synctest"
	"time"

	"github.com/modelcontextprotocol/go-sdk/internal/jsonrpc2"
	"github.com/modelcontextprotocol/go-sdk/jsonrpc"
)

// ---------------------------------------------------------------------------------------------
// Scenario

type canCall struct {
	dir  string // c2s | s2cn (nested: context derived from the carrier handler's) | s2cd (detached: derived from context.Background())
	meth string // c2s: tool ping drive(the carrier) · s2c: sample elicit roots ping
	mode string // park | deaf | quick | drive
	d    int    // quick: the handler answers after d ms
	at   int    // the call is issued `at` ms after the scenario (c2s) resp. the carrier's handler (s2c) started
	s    int    // the session the call is made on (0; 1 = the second session of a twin case, client→server only)
	grp  bool   // the call's context is ALSO a child of the case's shared group context (errgroup / request scope / common
	//             deadline): it ends in the instant in which the victim's context ends, with the same error
}

type canCase struct {
	tr     string // mem io sse sh shj she shje shn(sh, client without standalone SSE stream) shen sl slj
	pv     string
	calls  []canCall
	victim int
	when   string // pre run race post
	tc     int    // the victim's context ends at tc ms (absolute, scenario clock)
	dl     bool   // … with context.DeadlineExceeded instead of context.Canceled
	cz     bool   // … by the CancelCauseFunc of a context.WithCancelCause context, with a custom cause (Err is context.Canceled,
	//               context.Cause — what net/http reports for an interrupted exchange — is the custom error)
	fault  string // none stall reject fail : what the transport does to the victim side's notifications/cancelled
	//                 on fj (what the foreign server does with the POST of the notice): none late stall timeout s503 reset
	twin   string // "" | c: ONE Client connected to TWO servers | s: ONE Server with TWO client sessions (two Clients); every
	//               call of the scenario proper is on session 0, the calls with s=1 on the other session
	victim2 int   // a call of session 1 whose context ends (cancel()) 20 ms after the victim's; -1: none
	bc     bool   // MCPGODEBUG=blockingcancelnotify=1: mcp.call sends the notice synchronously (cancelCall) before it retires the call
	rclose bool   // the RECEIVER of the victim's request starts a graceful Close 5 ms before the victim's context ends
}

func (c *canCase) cfgOp() string {
	op := fmt.Sprintf("cfg tr=%s pv=%s", c.tr, c.pv)
	if c.bc {
		op += " bc=1"
	}
	if c.twin != "" {
		op += " tw=" + c.twin
	}
	return op
}
func (c *canCase) callOp(i int) string {
	k := c.calls[i]
	op := fmt.Sprintf("c %d dir=%s meth=%s mode=%s d=%d at=%d", i, k.dir, k.meth, k.mode, k.d, k.at)
	if k.grp {
		op += " g=1"
	}
	if k.s != 0 {
		op += fmt.Sprintf(" s=%d", k.s)
	}
	return op
}
func (c *canCase) cancelOp() string {
	dl := 0
	if c.dl {
		dl = 1
	}
	op := fmt.Sprintf("x victim=%d when=%s tc=%d dl=%d fault=%s", c.victim, c.when, c.tc, dl, c.fault)
	if c.cz {
		op += " cz=1"
	}
	if c.twin != "" && c.victim2 >= 0 {
		op += fmt.Sprintf(" v2=%d", c.victim2)
	}
	if c.rclose {
		op += " rc=1"
	}
	return op
}

const canListenURI = "file:///listen/"

const (
	canBlockerTag = 1000  // + i : the notification that holds the peer's dispatcher in front of call i
	canFollow1    = 100   // tags of the follow-up calls: 100 c2s before the release, 101 nested before the release, 102 c2s at the end
	canFollowN    = 101
	canFollow2    = 102
	canFollow1B   = 103 // on session 1: before the release, at the end
	canFollow2B   = 104
	canIgnore     = -2
	canBlockMs    = 20
	canReleaseMs  = 400   // every handler is released this long after the cancellation
	canLateMs     = 6000  // the last follow-up: after notifyCancellationTimeout
	canFollowMs   = 2000  // a follow-up call gives up after this long
	canStuckMs    = 20000 // a call that has not returned this long after the release is reported as not returned
	canLateAckMs  = 1000  // fault=late: the Write / POST of the notice is acknowledged this long after it was handed over
)

type canEv struct {
	what string // snd ret beg hc fin can
	id   int
	arg  string
	ms   int64
}

type canTagKey struct{}
type canMrtrKey struct{}

var canWireMethod = map[string]string{"sample": methodCreateMessage, "elicit": methodElicit, "roots": methodListRoots, "ping": methodPing}

// canMrtrRound classifies an incoming tools/call of the tool "mrtr": 0 = not that tool, 1 = first round (no input
// responses yet), 2 = the retry that carries the input responses.
func canMrtrRound(req Request) int {
	if r, ok := req.(*CallToolRequest); ok && r.Params != nil && r.Params.Name == "mrtr" {
		if len(r.Params.InputResponses) == 0 {
			return 1
		}
		return 2
	}
	return 0
}

// canCtx is the context of one call: it ends when the harness says so (after logging `can`), with the error
// the harness chose, or when its parent ends (with the parent's error); values come from the parent.
type canCtx struct {
	parent context.Context
	done   chan struct{}
	once   sync.Once
	mu     sync.Mutex
	err    error
	dlAt   time.Time
	// cause != nil: the context is a context.WithCancelCause context (over the VALUES of parent); it is ended by its
	// CancelCauseFunc with a custom cause
	inner       context.Context
	innerCancel context.CancelCauseFunc
}

var errCanCause = errors.New("verif: the caller gave up (custom cause)")

func (c *canCtx) Deadline() (time.Time, bool) {
	if !c.dlAt.IsZero() {
		return c.dlAt, true
	}
	return c.parent.Deadline()
}
func (c *canCtx) Done() <-chan struct{} {
	if c.inner != nil {
		return c.inner.Done()
	}
	return c.done
}
func (c *canCtx) Err() error {
	if c.inner != nil {
		return c.inner.Err()
	}
	c.mu.Lock()
	defer c.mu.Unlock()
	return c.err
}
func (c *canCtx) Value(k any) any {
	if c.inner != nil {
		return c.inner.Value(k) // context.Cause finds the cancelCtx of inner
	}
	return c.parent.Value(k)
}

type canH struct {
	mu       sync.Mutex
	t0       time.Time
	evs      []canEv
	c        *canCase
	ctxs     map[int]*canCtx
	release  map[int]chan struct{}
	finished map[int]bool
	hcSeen   map[int]bool
	nbeg     map[int]int
	extra    int
	returned sync.WaitGroup
	follow   chan struct{} // closed when the carrier may make its nested follow-up call
	css      []*ClientSession // the client session of each session of the case
	group    *canCtx       // the shared context of the calls with grp (not a call: ending it is not logged)
	relAll   chan struct{}
	wfault   map[string]int // what the fault injection did
}

func (h *canH) log(what string, id int, arg string) {
	h.mu.Lock()
	h.evs = append(h.evs, canEv{what, id, arg, time.Since(h.t0).Milliseconds()})
	h.mu.Unlock()
}

// newCtx makes the context of call i below parent.
func (h *canH) newCtx(parent context.Context, i int) *canCtx {
	c := &canCtx{parent: parent, done: make(chan struct{})}
	member := i == h.c.victim || (i >= 0 && i < len(h.c.calls) && h.c.calls[i].grp)
	if member && h.c.dl {
		c.dlAt = h.t0.Add(time.Duration(h.c.tc) * time.Millisecond)
	}
	if member && h.c.cz {
		c.inner, c.innerCancel = context.WithCancelCause(context.WithoutCancel(parent))
	}
	h.mu.Lock()
	h.ctxs[i] = c
	h.mu.Unlock()
	var grp <-chan struct{}
	if i >= 0 && i < len(h.c.calls) && h.c.calls[i].grp {
		grp = h.group.done
	}
	if parent.Done() != nil || grp != nil {
		go func() {
			select {
			case <-parent.Done():
				h.end(i, parent.Err())
			case <-grp:
				h.end(i, h.group.Err())
			case <-c.done:
			}
		}()
	}
	return c
}

// end ends the context of call i: `can` is logged first, so that it precedes everything it causes.
func (h *canH) end(i int, err error) {
	h.mu.Lock()
	c := h.ctxs[i]
	h.mu.Unlock()
	if c == nil {
		return
	}
	c.once.Do(func() {
		k := "c"
		if errors.Is(err, context.DeadlineExceeded) {
			k = "d"
		}
		h.log("can", i, k)
		c.mu.Lock()
		c.err = err
		c.mu.Unlock()
		close(c.done)
		if c.innerCancel != nil {
			c.innerCancel(errCanCause)
		}
		if i >= 0 && i < len(h.c.calls) && h.c.calls[i].meth == "listen" && len(h.css) > h.c.calls[i].s && h.css[h.c.calls[i].s] != nil {
			// the context of a subscriptions/listen call belongs to the session: Unsubscribe ends it (a detached
			// goroutine then runs cancelCall); the caller's side of the cancellation is Unsubscribe returning
			uerr := h.css[h.c.calls[i].s].Unsubscribe(context.Background(), &UnsubscribeParams{URI: canListenURI + strconv.Itoa(i)})
			if uerr == nil {
				h.log("ret", i, "ctx:c")
			} else {
				h.log("ret", i, "err")
			}
		}
	})
}

func canTagOf(m map[string]any) (int, bool) {
	switch v := m["vtag"].(type) {
	case float64:
		return int(v), true
	case int:
		return v, true
	}
	return 0, false
}

// sendMW: outermost sending middleware of both sides.  Tags the message, logs snd / ret.
func (h *canH) sendMW(next MethodHandler) MethodHandler {
	return func(ctx context.Context, method string, req Request) (Result, error) {
		tag, ok := ctx.Value(canTagKey{}).(int)
		if lp, isListen := req.GetParams().(*SubscriptionsListenParams); method == methodSubscriptionsListen && isListen && lp != nil &&
			lp.Notifications != nil && len(lp.Notifications.ResourceSubscriptions) == 1 {
			// ClientSession.Subscribe (2026-07-28) opens the listen stream on a context of its own: the call is
			// identified by the URI it subscribes to
			if n, err := strconv.Atoi(strings.TrimPrefix(lp.Notifications.ResourceSubscriptions[0], canListenURI)); err == nil {
				tag, ok = n, true
			}
		}
		if !ok {
			tag = canIgnore
			// a server→client call made by serverMultiRoundTripMiddleware (mcp/mrtr.go) to fulfil an input request of
			// the carrier tool "mrtr": it is the declared nested call with that method; its context is a child of the
			// middleware's (errgroup) context
			if ctx.Value(canMrtrKey{}) != nil {
				for j, k := range h.c.calls {
					if k.dir == "s2cn" && canWireMethod[k.meth] == method {
						tag = j
						ctx = context.WithValue(h.newCtx(ctx, j), canTagKey{}, j)
					}
				}
			}
		}
		if p := req.GetParams(); p != nil && !p.isNil() {
			m := p.GetMeta()
			if m == nil {
				m = map[string]any{}
			}
			m["vtag"] = tag
			p.SetMeta(m)
		}
		if tag == canIgnore || tag >= canBlockerTag {
			return next(ctx, method, req)
		}
		h.log("snd", tag, "")
		res, err := next(ctx, method, req)
		if err != nil && os.Getenv("VERIF_CAN_DEBUG") != "" {
			fmt.Fprintf(os.Stderr, "DEBUG tag=%d method=%s err=%v\n", tag, method, err)
		}
		if method == methodSubscriptionsListen && err == nil {
			// callSubscriptionsListen does not await the call: Subscribe returning is not the return of the call; the
			// caller "returns" when it abandons the stream (Unsubscribe, see canH.end)
			return res, err
		}
		h.log("ret", tag, canClassify(res, err))
		return res, err
	}
}

func canClassify(res Result, err error) string {
	switch {
	case err == nil:
		if _, empty := res.(*emptyResult); res != nil && !empty {
			if p, ok := canTagOf(res.GetMeta()); ok {
				return "ok:" + strconv.Itoa(p)
			}
		}
		return "ok"
	case errors.Is(err, context.Canceled) && errors.Is(err, context.DeadlineExceeded):
		return "ctx:cd"
	case errors.Is(err, context.Canceled):
		return "ctx:c"
	case errors.Is(err, context.DeadlineExceeded):
		return "ctx:d"
	case errors.Is(err, ErrConnectionClosed):
		return "closed"
	}
	var je *jsonrpc.Error
	if errors.As(err, &je) {
		return "rpcerr"
	}
	if errors.Is(err, jsonrpc2.ErrRejected) {
		return "rejected"
	}
	return "err"
}

func (h *canH) spec(tag int) (canCall, bool) {
	switch {
	case tag >= 0 && tag < len(h.c.calls):
		return h.c.calls[tag], true
	case tag == canFollow1 || tag == canFollowN || tag == canFollow2 || tag == canFollow1B || tag == canFollow2B:
		return canCall{mode: "quick"}, true
	}
	return canCall{}, false
}

// recvMW: outermost receiving middleware of both sides: the peer's handler.
func (h *canH) recvMW(next MethodHandler) MethodHandler {
	return func(ctx context.Context, method string, req Request) (Result, error) {
		tag := canIgnore
		if p := req.GetParams(); p != nil && !p.isNil() {
			if v, ok := canTagOf(p.GetMeta()); ok {
				tag = v
			}
		}
		if tag >= canBlockerTag {
			time.Sleep(canBlockMs * time.Millisecond) // a notification handler: holds the dispatcher
			return next(ctx, method, req)
		}
		round := canMrtrRound(req)
		if round == 1 && h.c.pv >= protocolVersion20260728 {
			// 2026-07-28: the client's clientMultiRoundTripMiddleware fulfils the input requests itself and RETRIES the
			// call as a new request; the first round answers at once and is not "the handler" of the call: the retry is
			return next(ctx, method, req)
		}
		if round == 1 {
			ctx = context.WithValue(ctx, canMrtrKey{}, true) // legacy: serverMultiRoundTripMiddleware calls the client
		}
		k, ok := h.spec(tag)
		if !ok {
			if tag != canIgnore {
				h.mu.Lock()
				h.extra++
				h.mu.Unlock()
			}
			return next(ctx, method, req)
		}
		h.mu.Lock()
		h.nbeg[tag]++
		again := h.nbeg[tag] > 1
		rel := h.release[tag]
		h.mu.Unlock()
		if again {
			return next(ctx, method, req)
		}
		h.log("beg", tag, "")
		hcOnce := func() { // the handler's context ended while the handler was running
			cause := "s"
			if errors.Is(context.Cause(ctx), context.Canceled) {
				cause = "c"
			}
			h.mu.Lock()
			if !h.finished[tag] && !h.hcSeen[tag] {
				h.hcSeen[tag] = true
				h.evs = append(h.evs, canEv{"hc", tag, cause, time.Since(h.t0).Milliseconds()})
			}
			h.mu.Unlock()
		}
		stop := make(chan struct{})
		go func() {
			select {
			case <-ctx.Done():
				hcOnce()
			case <-stop:
			}
		}()
		var res Result
		var err error
		switch k.mode {
		case "park":
			select {
			case <-ctx.Done():
				hcOnce()
			case <-rel:
			}
		case "deaf":
			<-rel
		case "quick":
			if k.d > 0 {
				time.Sleep(time.Duration(k.d) * time.Millisecond)
			}
		}
		if k.mode == "park" && ctx.Err() != nil {
			err = ctx.Err()
		} else {
			res, err = next(ctx, method, req)
			if k.mode == "listen" && ctx.Err() != nil {
				hcOnce() // the real subscriptions/listen handler returned because its context ended
			}
			if _, empty := res.(*emptyResult); err == nil && res != nil && !empty {
				res.SetMeta(map[string]any{"vtag": tag})
			}
		}
		h.mu.Lock()
		h.finished[tag] = true
		h.evs = append(h.evs, canEv{"fin", tag, "", time.Since(h.t0).Milliseconds()})
		h.mu.Unlock()
		close(stop)
		return res, err
	}
}

// issue performs call i (or a follow-up) through the public API of the sending side.
func (h *canH) issue(ctx context.Context, tag int, dir, meth string, cs *ClientSession, ss *ServerSession) error {
	ctx = context.WithValue(ctx, canTagKey{}, tag)
	var err error
	if dir == "c2s" {
		switch meth {
		case "tool":
			_, err = cs.CallTool(ctx, &CallToolParams{Name: "t", Arguments: map[string]any{}})
		case "drive":
			_, err = cs.CallTool(ctx, &CallToolParams{Name: "drive", Arguments: map[string]any{}})
		case "mrtr":
			_, err = cs.CallTool(ctx, &CallToolParams{Name: "mrtr", Arguments: map[string]any{}})
		case "ping":
			err = cs.Ping(ctx, &PingParams{})
		case "listen":
			err = cs.Subscribe(ctx, &SubscribeParams{URI: canListenURI + strconv.Itoa(tag)})
		default:
			err = fmt.Errorf("bad method %q", meth)
		}
		return err
	}
	switch meth {
	case "sample":
		_, err = ss.CreateMessage(ctx, &CreateMessageParams{MaxTokens: 5, Messages: []*SamplingMessage{{Role: "user", Content: &TextContent{Text: "x"}}}})
	case "elicit":
		_, err = ss.Elicit(ctx, &ElicitParams{Message: "x"})
	case "roots":
		_, err = ss.ListRoots(ctx, &ListRootsParams{})
	case "ping":
		err = ss.Ping(ctx, &PingParams{})
	default:
		err = fmt.Errorf("bad method %q", meth)
	}
	return err
}

// followUp: a client→server ping that gives up after canFollowMs (a dead session must show as a failed
// follow-up, not as a bubble in which nothing can run).
func (h *canH) followUp(tag int, cs *ClientSession) {
	ctx, stop := context.WithTimeout(context.Background(), canFollowMs*time.Millisecond)
	defer stop()
	meth := "ping"
	if h.c.pv >= protocolVersion20260728 {
		meth = "tool" // ping was removed from the 2026-07-28 protocol
	}
	h.issue(ctx, tag, "c2s", meth, cs, nil)
}

// start issues call i from a goroutine of its own, `at` ms from now; parent is the context the call's context
// is derived from.  A `pre` victim is preceded, on the same goroutine, by a notification whose handler holds
// the peer's dispatcher for canBlockMs.
func (h *canH) start(parent context.Context, i int, cs *ClientSession, ss *ServerSession) {
	k := h.c.calls[i]
	h.returned.Add(1)
	go func() {
		defer h.returned.Done()
		if k.at > 0 {
			time.Sleep(time.Duration(k.at) * time.Millisecond)
		}
		ctx := h.newCtx(parent, i)
		if i == h.c.victim && h.c.when == "pre" {
			bctx := context.WithValue(parent, canTagKey{}, canBlockerTag+i)
			if k.dir == "c2s" {
				cs.NotifyProgress(bctx, &ProgressNotificationParams{ProgressToken: "tok", Progress: 1})
			} else {
				ss.NotifyProgress(bctx, &ProgressNotificationParams{ProgressToken: "tok", Progress: 1})
			}
		}
		dir := k.dir
		if dir != "c2s" {
			dir = "s2c"
		}
		h.issue(ctx, i, dir, k.meth, cs, ss)
	}()
}

// script is the body of the carrier's handler (tool "drive"): issue the server→client calls, make the nested
// follow-up call when told to, return when every child has returned and the carrier was released.
func (h *canH) script(ctx context.Context, ss *ServerSession, carrier int) {
	var kids sync.WaitGroup
	for i, k := range h.c.calls {
		if k.dir == "c2s" {
			continue
		}
		parent := ctx
		if k.dir == "s2cd" {
			parent = context.Background()
		}
		kids.Add(1)
		h.returned.Add(1)
		go func() {
			defer kids.Done()
			defer h.returned.Done()
			if k.at > 0 {
				time.Sleep(time.Duration(k.at) * time.Millisecond)
			}
			cctx := h.newCtx(parent, i)
			if i == h.c.victim && h.c.when == "pre" {
				ss.NotifyProgress(context.WithValue(parent, canTagKey{}, canBlockerTag+i), &ProgressNotificationParams{ProgressToken: "tok", Progress: 1})
			}
			h.issue(cctx, i, "s2c", k.meth, nil, ss)
		}()
	}
	select {
	case <-h.follow:
		if ctx.Err() == nil && !h.c.rclose && h.c.calls[h.c.victim].dir == "s2cn" {
			fctx, stop := context.WithTimeout(ctx, canFollowMs*time.Millisecond)
			h.issue(fctx, canFollowN, "s2c", "ping", nil, ss)
			stop()
		}
	case <-ctx.Done():
	}
	kids.Wait()
	h.mu.Lock()
	rel := h.release[carrier]
	h.mu.Unlock()
	select {
	case <-rel:
	case <-ctx.Done():
	}
}

// ---------------------------------------------------------------------------------------------
// Fault injection: what the transport does to ONE message, the notifications/cancelled of the victim.

func (h *canH) faultFor(isCancelNotice bool, side string, sess int) string {
	if !isCancelNotice || h.c.fault == "none" || sess != 0 { // only the victim's session is faulted
		return ""
	}
	vd := h.c.calls[h.c.victim].dir
	if (vd == "c2s") != (side == "client") {
		return ""
	}
	h.mu.Lock()
	h.wfault[h.c.fault]++
	h.mu.Unlock()
	return h.c.fault
}

var errCanInjected = errors.New("verif: injected transport write failure")

func canApplyFault(ctx context.Context, f string) (bool, error) {
	switch f {
	case "stall":
		<-ctx.Done()
		return true, ctx.Err()
	case "reject":
		return true, fmt.Errorf("%w: verif: injected rejection", jsonrpc2.ErrRejected)
	case "fail":
		return true, errCanInjected
	}
	return false, nil
}

// canFaultTransport wraps a pipe transport (mem, io): Write of the victim's cancel notice is faulted.
type canFaultTransport struct {
	Transport
	h    *canH
	side string
	sess int
}

func (t *canFaultTransport) Connect(ctx context.Context) (Connection, error) {
	c, err := t.Transport.Connect(ctx)
	if err != nil {
		return nil, err
	}
	return &canFaultConn{Connection: c, h: t.h, side: t.side, sess: t.sess}, nil
}

type canFaultConn struct {
	Connection
	h    *canH
	side string
	sess int
}

func (c *canFaultConn) Write(ctx context.Context, msg jsonrpc.Message) error {
	req, ok := msg.(*jsonrpc.Request)
	f := c.h.faultFor(ok && req.Method == notificationCancelled, c.side, c.sess)
	if done, err := canApplyFault(ctx, f); done {
		return err
	}
	err := c.Connection.Write(ctx, msg)
	if f == "late" && err == nil { // handed over at once, acknowledged late (a slow flush): not a fault
		select {
		case <-time.After(canLateAckMs * time.Millisecond):
		case <-ctx.Done():
			return ctx.Err()
		}
	}
	return err
}

// canFaultRT wraps the client's http.RoundTripper: the POST that carries the victim's cancel notice is faulted.
type canFaultRT struct {
	rt   http.RoundTripper
	h    *canH
	sess int
}

func (f *canFaultRT) RoundTrip(req *http.Request) (*http.Response, error) {
	if req.Method == http.MethodPost && req.Body != nil && f.h.c.fault != "none" {
		body, _ := io.ReadAll(req.Body)
		req.Body.Close()
		req.Body = io.NopCloser(strings.NewReader(string(body)))
		ft := f.h.faultFor(strings.Contains(string(body), `"`+notificationCancelled+`"`), "client", f.sess)
		if done, err := canApplyFault(req.Context(), ft); done {
			return nil, err
		}
		if ft == "late" { // the server processes the POST at once, the client sees the acknowledgement late: not a fault
			resp, err := f.rt.RoundTrip(req)
			select {
			case <-time.After(canLateAckMs * time.Millisecond):
			case <-req.Context().Done():
				if err == nil {
					resp.Body.Close()
				}
				return nil, req.Context().Err()
			}
			return resp, err
		}
	}
	return f.rt.RoundTrip(req)
}

// ---------------------------------------------------------------------------------------------
// A FOREIGN streamable server (transport fj), scripted as an http.RoundTripper: it answers every call with
// `200 application/json`, sending the status line and headers at once and the body only when the "handler" is
// done (released, cancelled by a notifications/cancelled naming the request, or after d ms) — what an HTTP server
// that flushes early does.  While the client is reading such a body the caller may cancel the call: as with
// net/http, the read then fails with the context's error.

type canForeign struct {
	h    *canH
	sess int
	mu  sync.Mutex
	can map[string]chan struct{} // request id (raw JSON) -> closed when a cancel notice named it
	tag map[string]int
}

// canNetTimeout is what net/http's Transport reports when ResponseHeaderTimeout fires: a net.Error with Timeout().
type canNetTimeout struct{}

func (canNetTimeout) Error() string   { return "net/http: timeout awaiting response headers" }
func (canNetTimeout) Timeout() bool   { return true }
func (canNetTimeout) Temporary() bool { return true }

type canForeignBody struct {
	ctx   context.Context
	ready chan struct{}
	data  *strings.Reader
}

func (b *canForeignBody) Read(p []byte) (int, error) {
	select {
	case <-b.ready:
		return b.data.Read(p)
	case <-b.ctx.Done():
		return 0, context.Cause(b.ctx) // as net/http: an interrupted body read reports context.Cause of the request's context
	}
}
func (b *canForeignBody) Close() error { return nil }

func (f *canForeign) resp(req *http.Request, code int, ct string, body io.ReadCloser) *http.Response {
	hd := http.Header{}
	if ct != "" {
		hd.Set("Content-Type", ct)
	}
	hd.Set(sessionIDHeader, "foreign-1")
	return &http.Response{Status: strconv.Itoa(code) + " " + http.StatusText(code), StatusCode: code, Proto: "HTTP/1.1", ProtoMajor: 1, ProtoMinor: 1,
		Header: hd, Body: body, ContentLength: -1, Request: req}
}

func (f *canForeign) RoundTrip(req *http.Request) (*http.Response, error) {
	if req.Method != http.MethodPost {
		if req.Body != nil {
			req.Body.Close()
		}
		code := http.StatusMethodNotAllowed
		if req.Method == http.MethodDelete {
			code = http.StatusNoContent
		}
		return f.resp(req, code, "", io.NopCloser(strings.NewReader(""))), nil
	}
	raw, _ := io.ReadAll(req.Body)
	req.Body.Close()
	var msg struct {
		ID     json.RawMessage `json:"id"`
		Method string          `json:"method"`
		Params struct {
			ProtocolVersion string          `json:"protocolVersion"`
			RequestID       json.RawMessage `json:"requestId"`
			Meta            map[string]any  `json:"_meta"`
		} `json:"params"`
	}
	if err := json.Unmarshal(raw, &msg); err != nil {
		return f.resp(req, http.StatusBadRequest, "", io.NopCloser(strings.NewReader("bad json"))), nil
	}
	now := func(body string) io.ReadCloser { return io.NopCloser(strings.NewReader(body)) }
	if len(msg.ID) == 0 { // a notification
		if msg.Method == notificationCancelled {
			fault := f.h.c.fault
			if f.sess != 0 {
				fault = "none"
			}
			if fault != "none" {
				f.h.mu.Lock()
				f.h.wfault[fault]++
				f.h.mu.Unlock()
			}
			switch fault {
			case "stall": // accepted, never acknowledged
				<-req.Context().Done()
				return nil, req.Context().Err()
			case "timeout": // accepted, not acknowledged before the HTTP client's response-header timeout
				select {
				case <-time.After(300 * time.Millisecond):
					return nil, canNetTimeout{}
				case <-req.Context().Done():
					return nil, req.Context().Err()
				}
			case "s503":
				return f.resp(req, http.StatusServiceUnavailable, "", now("busy")), nil
			case "reset":
				return nil, errors.New("read tcp 192.0.2.1:1234: connection reset by peer")
			}
			f.mu.Lock()
			ch, tag := f.can[string(msg.Params.RequestID)], f.tag[string(msg.Params.RequestID)]
			delete(f.can, string(msg.Params.RequestID))
			f.mu.Unlock()
			if ch != nil {
				f.h.mu.Lock()
				if !f.h.finished[tag] && !f.h.hcSeen[tag] {
					f.h.hcSeen[tag] = true
					f.h.evs = append(f.h.evs, canEv{"hc", tag, "c", time.Since(f.h.t0).Milliseconds()})
				}
				f.h.mu.Unlock()
				close(ch)
			}
			if fault == "late" { // processed at once, acknowledged late
				time.Sleep(canLateAckMs * time.Millisecond)
			}
		}
		return f.resp(req, http.StatusAccepted, "", now("")), nil
	}
	switch msg.Method {
	case methodInitialize:
		return f.resp(req, http.StatusOK, "application/json", now(fmt.Sprintf(
			`{"jsonrpc":"2.0","id":%s,"result":{"protocolVersion":%q,"capabilities":{"tools":{}},"serverInfo":{"name":"foreign","version":"1"}}}`,
			msg.ID, msg.Params.ProtocolVersion))), nil
	case methodPing, methodCallTool:
	default:
		return f.resp(req, http.StatusOK, "application/json", now(fmt.Sprintf(
			`{"jsonrpc":"2.0","id":%s,"error":{"code":-32601,"message":"method not found"}}`, msg.ID))), nil
	}
	tag, ok := canTagOf(msg.Params.Meta)
	k, known := f.h.spec(tag)
	result := `{}`
	if msg.Method == methodCallTool {
		result = fmt.Sprintf(`{"content":[{"type":"text","text":"ok"}],"_meta":{"vtag":%d}}`, tag)
	}
	answer := fmt.Sprintf(`{"jsonrpc":"2.0","id":%s,"result":%s}`, msg.ID, result)
	if !ok || !known {
		return f.resp(req, http.StatusOK, "application/json", now(answer)), nil
	}
	cancelled := make(chan struct{})
	f.mu.Lock()
	f.can[string(msg.ID)], f.tag[string(msg.ID)] = cancelled, tag
	f.mu.Unlock()
	f.h.mu.Lock()
	f.h.nbeg[tag]++
	rel := f.h.release[tag]
	f.h.mu.Unlock()
	f.h.log("beg", tag, "")
	body := &canForeignBody{ctx: req.Context(), ready: make(chan struct{})}
	go func() { // the "handler"
		switch k.mode {
		case "park":
			select {
			case <-cancelled:
				answer = fmt.Sprintf(`{"jsonrpc":"2.0","id":%s,"error":{"code":-32800,"message":"request cancelled"}}`, msg.ID)
			case <-rel:
			}
		case "deaf":
			<-rel
		default:
			if k.d > 0 {
				time.Sleep(time.Duration(k.d) * time.Millisecond)
			}
		}
		f.h.mu.Lock()
		f.h.finished[tag] = true
		f.h.evs = append(f.h.evs, canEv{"fin", tag, "", time.Since(f.h.t0).Milliseconds()})
		f.h.mu.Unlock()
		body.data = strings.NewReader(answer)
		close(body.ready)
	}()
	// status line and headers now, the body when the handler is done
	return f.resp(req, http.StatusOK, "application/json", body), nil
}

// ---------------------------------------------------------------------------------------------

func canRunCase(t *testing.T, out *verifOut, id string, c *canCase) {
	var recs [][3]string
	recs = append(recs, [3]string{"reset", "ok", "reset"})
	flushed := false
	flush := func() {
		if flushed {
			return
		}
		flushed = true
		for _, r := range recs {
			out.line(id, r[0], r[1], r[2])
		}
		out.flush()
	}
	defer flush()
	out.begin(id, func() string { return c.cfgOp() + " ; " + c.cancelOp() })
	synctest.Test(t, func(t *testing.T) {
		h := &canH{t0: time.Now(), c: c, ctxs: map[int]*canCtx{}, release: map[int]chan struct{}{}, finished: map[int]bool{}, hcSeen: map[int]bool{},
			nbeg: map[int]int{}, follow: make(chan struct{}), wfault: map[string]int{}}
		h.group = &canCtx{parent: context.Background(), done: make(chan struct{})}
		for i := range c.calls {
			h.release[i] = make(chan struct{})
		}
		status := "ok"
		if c.bc {
			old := blockingcancelnotify
			blockingcancelnotify = "1"
			defer func() { blockingcancelnotify = old }()
		}
		defer func() {
			if r := recover(); r != nil {
				recs = append(recs, [3]string{c.cfgOp(), "panic", "panic"})
				flush()
			}
		}()
		carrier := -1
		for i, k := range c.calls {
			if k.meth == "drive" || (k.meth == "mrtr" && k.mode == "drive") {
				carrier = i
			}
		}
		mkServer := func() *Server {
		server := NewServer(&Implementation{Name: "s", Version: "1"}, &ServerOptions{
			ProgressNotificationHandler: func(context.Context, *ProgressNotificationServerRequest) {},
			SubscribeHandler:            func(context.Context, *SubscribeRequest) error { return nil },
			UnsubscribeHandler:          func(context.Context, *UnsubscribeRequest) error { return nil },
			HasResources:                true,
		})
		server.AddReceivingMiddleware(h.recvMW)
		server.AddSendingMiddleware(h.sendMW)
		server.AddTool(&Tool{Name: "t", InputSchema: map[string]any{"type": "object"}}, func(ctx context.Context, req *CallToolRequest) (*CallToolResult, error) {
			return &CallToolResult{Content: []Content{&TextContent{Text: "ok"}}}, nil
		})
		server.AddTool(&Tool{Name: "mrtr", InputSchema: map[string]any{"type": "object"}}, func(ctx context.Context, req *CallToolRequest) (*CallToolResult, error) {
			if len(req.Params.InputResponses) > 0 {
				return &CallToolResult{Content: []Content{&TextContent{Text: "ok"}}}, nil
			}
			irs := InputRequestMap{}
			for _, k := range c.calls {
				if k.dir != "s2cn" {
					continue
				}
				switch k.meth {
				case "sample":
					irs["sample"] = &CreateMessageParams{MaxTokens: 5, Messages: []*SamplingMessage{{Role: "user", Content: &TextContent{Text: "x"}}}}
				case "elicit":
					irs["elicit"] = &ElicitParams{Message: "x"}
				case "roots":
					irs["roots"] = &ListRootsParams{}
				}
			}
			if len(irs) == 0 {
				irs["elicit"] = &ElicitParams{Message: "x"}
			}
			return &CallToolResult{InputRequests: irs, RequestState: "round-1"}, nil
		})
		server.AddTool(&Tool{Name: "drive", InputSchema: map[string]any{"type": "object"}}, func(ctx context.Context, req *CallToolRequest) (*CallToolResult, error) {
			h.script(ctx, req.Session, carrier)
			return &CallToolResult{Content: []Content{&TextContent{Text: "ok"}}}, nil
		})
		return server
		}
		mkClient := func() *Client {
		client := NewClient(&Implementation{Name: "c", Version: "1"}, &ClientOptions{
			CreateMessageHandler: func(context.Context, *CreateMessageRequest) (*CreateMessageResult, error) {
				return &CreateMessageResult{Model: "m", Role: "assistant", Content: &TextContent{Text: "y"}}, nil
			},
			ElicitationHandler: func(context.Context, *ElicitRequest) (*ElicitResult, error) {
				return &ElicitResult{Action: "decline"}, nil
			},
			ProgressNotificationHandler: func(context.Context, *ProgressNotificationClientRequest) {},
		})
		client.AddRoots(&Root{URI: "file:///base"})
		client.AddReceivingMiddleware(h.recvMW)
		client.AddSendingMiddleware(h.sendMW)

		return client
		}
		var cleanup []func()
		hds := map[*Server]http.Handler{} // one HTTP handler per server: two clients of one server share it
		url := "http://verif.invalid/mcp"
		// connect makes session number sess between server and client over the transport of the case
		connect := func(server *Server, client *Client, sess int) (*ClientSession, *ServerSession, bool) {
			var ct Transport
			var pipeSS *ServerSession
			getServer := func(*http.Request) *Server { return server }
			switch c.tr {
			case "mem":
				a, b := NewInMemoryTransports()
				var err error
				if pipeSS, err = server.Connect(context.Background(), &canFaultTransport{a, h, "server", sess}, nil); err != nil {
					return nil, nil, false
				}
				ct = &canFaultTransport{b, h, "client", sess}
			case "io":
				r1, w1 := io.Pipe()
				r2, w2 := io.Pipe()
				var err error
				if pipeSS, err = server.Connect(context.Background(), &canFaultTransport{&IOTransport{Reader: r1, Writer: w2}, h, "server", sess}, nil); err != nil {
					return nil, nil, false
				}
				ct = &canFaultTransport{&IOTransport{Reader: r2, Writer: w1}, h, "client", sess}
			case "fj":
				ct = &StreamableClientTransport{Endpoint: url, DisableStandaloneSSE: true,
					HTTPClient: &http.Client{Transport: &canForeign{h: h, sess: sess, can: map[string]chan struct{}{}, tag: map[string]int{}}}}
			case "sse":
				hd := hds[server]
				if hd == nil {
					hd = NewSSEHandler(getServer, nil)
					hds[server] = hd
				}
				ct = &SSEClientTransport{Endpoint: url, HTTPClient: &http.Client{Transport: &canFaultRT{&ordRT{h: hd}, h, sess}}}
			default:
				rest := strings.TrimPrefix(strings.TrimPrefix(c.tr, "sh"), "sl")
				hd := hds[server]
				if hd == nil {
					o := &StreamableHTTPOptions{}
					o.Stateless = strings.HasPrefix(c.tr, "sl")
					o.PropagateRequestCancellation = strings.Contains(rest, "p")
					o.JSONResponse = strings.Contains(rest, "j")
					if strings.Contains(rest, "e") {
						o.EventStore = NewMemoryEventStore(nil)
					}
					sh := NewStreamableHTTPHandler(getServer, o)
					cleanup = append(cleanup, sh.closeAll)
					hd = sh
					hds[server] = hd
				}
				ct = &StreamableClientTransport{Endpoint: url, HTTPClient: &http.Client{Transport: &canFaultRT{&ordRT{h: hd}, h, sess}},
					DisableStandaloneSSE: strings.Contains(rest, "n")}
			}
			cs, err := client.Connect(context.Background(), ct, &ClientSessionOptions{ProtocolVersion: c.pv})
			if err != nil {
				return nil, nil, false
			}
			return cs, pipeSS, true
		}
		server, client := mkServer(), mkClient()
		servers := []*Server{server}
		cs, pipeSS, ok := connect(server, client, 0)
		if !ok {
			status = "connect-fail"
		}
		h.css = []*ClientSession{cs}
		if status == "ok" && c.twin != "" {
			server1, client1 := server, client
			if c.twin == "c" { // one Client, two servers
				server1 = mkServer()
				servers = append(servers, server1)
			} else { // one Server, two client sessions
				client1 = mkClient()
			}
			cs1, _, ok := connect(server1, client1, 1)
			if !ok {
				status = "connect-fail"
			}
			h.css = append(h.css, cs1)
		}
		stuck, closeHung := 0, 0
		if status == "ok" {
			synctest.Wait()
			h.mu.Lock()
			h.t0 = time.Now() // the scenario clock starts after the handshake
			h.mu.Unlock()
			for i, k := range c.calls {
				if k.dir == "c2s" {
					h.start(context.Background(), i, h.css[k.s], nil)
				}
			}
			// the victim's context ends at tc; with rc the receiver of its request starts a graceful Close 5 ms before
			closed := make(chan struct{})
			if c.rclose && c.tc > 5 {
				time.Sleep(time.Duration(c.tc-5) * time.Millisecond)
				go func() {
					defer close(closed)
					if c.calls[c.victim].dir == "c2s" {
						if pipeSS != nil {
							pipeSS.Close()
						}
					} else {
						cs.Close()
					}
				}()
				time.Sleep(5 * time.Millisecond)
			} else {
				close(closed)
				time.Sleep(time.Duration(c.tc) * time.Millisecond)
			}
			err := context.Canceled
			if c.dl {
				err = context.DeadlineExceeded
			}
			if c.calls[c.victim].grp { // the shared context ends: the victim's and every other member's context with it
				h.group.once.Do(func() {
					h.group.mu.Lock()
					h.group.err = err
					h.group.mu.Unlock()
					close(h.group.done)
				})
			} else {
				h.end(c.victim, err)
			}
			if c.twin != "" && c.victim2 >= 0 { // 20 ms later a call of the OTHER session is cancelled
				time.Sleep(20 * time.Millisecond)
				h.end(c.victim2, context.Canceled)
				time.Sleep(30 * time.Millisecond)
			} else {
				time.Sleep(50 * time.Millisecond)
			}
			synctest.Wait()
			// follow-up calls while everything else is still parked
			close(h.follow)
			if !c.rclose {
				h.followUp(canFollow1, cs)
			}
			if c.twin != "" {
				h.followUp(canFollow1B, h.css[1])
			}
			time.Sleep(canReleaseMs * time.Millisecond)
			synctest.Wait()
			// release every handler and wait for every call to return
			h.mu.Lock()
			for _, ch := range h.release {
				close(ch)
			}
			h.mu.Unlock()
			allBack := make(chan struct{})
			go func() { h.returned.Wait(); close(allBack) }()
			select {
			case <-allBack:
			case <-time.After(canStuckMs * time.Millisecond):
				stuck = 1
			}
			synctest.Wait()
			time.Sleep(canLateMs * time.Millisecond)
			synctest.Wait()
			if c.twin != "" {
				h.followUp(canFollow2B, h.css[1])
			}
			if !c.rclose {
				h.followUp(canFollow2, cs)
			} else {
				select { // the receiver's graceful Close must have completed: every handler has returned
				case <-closed:
				default:
					closeHung = 1
				}
			}
			synctest.Wait()
		}
		h.mu.Lock()
		evs := append([]canEv(nil), h.evs...)
		extra := h.extra
		wf := fmt.Sprintf("stall=%d reject=%d fail=%d", h.wfault["stall"]+h.wfault["timeout"]+h.wfault["late"], h.wfault["reject"]+h.wfault["s503"]+h.wfault["reset"], h.wfault["fail"])
		h.mu.Unlock()
		total := time.Since(h.t0).Milliseconds()
		// teardown (not observed)
		for i := range c.calls {
			h.end(i, context.Canceled)
		}
		for _, x := range h.css {
			if x != nil {
				x.Close()
			}
		}
		synctest.Wait()
		for _, srv := range servers {
			for s := range srv.Sessions() {
				s.Close()
			}
		}
		for _, f := range cleanup {
			f()
		}
		synctest.Wait()

		recs = append(recs, [3]string{c.cfgOp(), status, strings.Join([]string{"tr=" + c.tr, "pv=" + c.pv, status, map[bool]string{true: "blockingcancelnotify", false: "detached-notifier"}[c.bc]}, ",")})
		for i, k := range c.calls {
			recs = append(recs, [3]string{c.callOp(i), "ok", strings.Join([]string{"dir=" + k.dir, k.dir + ":" + k.meth, "mode=" + k.mode, "tr=" + c.tr + "/" + k.dir}, ",")})
		}
		vd := c.calls[c.victim].dir
		ngrp := 1
		for i, k := range c.calls {
			if k.grp && i != c.victim {
				ngrp++
			}
		}
		scope := "peer-cancel-expected"
		if strings.HasPrefix(c.tr, "sl") && !strings.Contains(c.tr[2:], "p") {
			scope = "stateless-nocancel" // request and notice are served by different one-shot connections: the clause peerNotCancelled does not apply
		}
		if c.rclose {
			scope += ",receiver-closing"
		}
		recs = append(recs, [3]string{c.cancelOp(), "ok", strings.Join([]string{scope, "when=" + c.when, "fault=" + c.fault, "victim=" + vd, "tr=" + c.tr + "/" + vd + "/" + c.when,
			"victim-mode=" + c.calls[c.victim].mode, map[bool]string{true: "deadline", false: map[bool]string{true: "cancel-cause", false: "cancel"}[c.cz]}[c.dl],
			"cancelled-together=" + canBucket(ngrp), "sessions=" + map[string]string{"": "1", "c": "2:one-client-two-servers", "s": "2:one-server-two-clients"}[c.twin],
			map[bool]string{true: "other-session-cancel", false: "other-session-quiet"}[c.victim2 >= 0]}, ",")})
		for seq, e := range evs {
			op := fmt.Sprintf("e %d %s %d", seq, e.what, e.id)
			obs := fmt.Sprintf("t=%d", e.ms)
			if e.arg != "" {
				obs += " a=" + e.arg
			}
			tag := "ev=" + e.what
			if e.what == "ret" || e.what == "hc" {
				tag += "," + e.what + "=" + e.arg
				if e.id == c.victim {
					tag += ",victim-" + e.what + "=" + e.arg
				}
			}
			recs = append(recs, [3]string{op, obs, tag})
		}
		endObs := fmt.Sprintf("extra=%d stuck=%d t=%d %s", extra, stuck, total, wf)
		if c.rclose {
			endObs += fmt.Sprintf(" closehung=%d", closeHung)
		}
		recs = append(recs, [3]string{"end", endObs, "end"})
		flush()
	})
}

// ---------------------------------------------------------------------------------------------
// Generator

var canLegacy = []string{protocolVersion20251125, protocolVersion20250618, protocolVersion20250326, protocolVersion20241105}

// slp, sljp: stateless with StreamableHTTPOptions.PropagateRequestCancellation and protocol 2026-07-28 (the
// configuration in which the SDK ties a handler's context to its HTTP request).
// fj: the SDK's streamable client against a FOREIGN server that answers calls with application/json, headers first.
var canTransports = []string{"mem", "io", "sse", "sh", "shn", "shj", "she", "shen", "shje", "sl", "slj", "slp", "sljp", "fj"}

func canStateless(tr string) bool    { return strings.HasPrefix(tr, "sl") || tr == "fj" } // no server→client calls, no shared dispatcher
func canStreamable(tr string) bool   { return strings.HasPrefix(tr, "sh") || strings.HasPrefix(tr, "sl") }
func canNoStandalone(tr string) bool { return strings.HasPrefix(tr, "sh") && strings.Contains(tr[2:], "n") }
func canJSON(tr string) bool         { return canStreamable(tr) && strings.Contains(tr[2:], "j") }

// canGen.  Explicit exclusions: a stateless server cannot make server→client calls (sl, slj: client→server
// calls only); a detached server→client call needs the standalone SSE stream (none on shn, shen); with JSON
// responses every server→client message travels on the standalone stream (shj, shje have one); faults on the
// server side of an HTTP transport are not injected (the handler creates the transport itself): there the
// victim of a faulted cancellation is a client→server call.
// canGen: in a twelfth of the cases whose notice is not held up by the transport the compatibility switch
// MCPGODEBUG=blockingcancelnotify=1 is on (the caller then waits for the notice to be written, by design: with a
// transport that stalls or acknowledges late it would not return promptly — the documented reason for the default).
func canGen(rng *rand.Rand, tr string) *canCase {
	c := canGen0(rng, tr)
	c.victim2 = -1
	switch c.fault {
	case "none", "reject", "s503", "reset":
		c.bc = rng.Intn(12) == 0
	}
	// TWO sessions in one process (a sixth of the cases): the scenario proper runs on session 0; session 1 — a second
	// server of the same Client (tw=c) or a second client session of the same Server (tw=s; the foreign server is
	// one per client) — has 1-3 client→server calls of its own, one of which is cancelled 20 ms after the victim
	// (three quarters of the twins).  Faults are injected on session 0 only: whatever happens to the notices of one
	// session, the other session's calls, cancellations and follow-ups behave as if it were alone.
	if !c.rclose && rng.Intn(6) == 0 {
		c.twin = []string{"c", "s"}[rng.Intn(2)]
		if tr == "fj" {
			c.twin = "c"
		}
		n := 1 + rng.Intn(3)
		first := len(c.calls)
		for k := 0; k < n; k++ {
			mode, d := "park", 0
			switch rng.Intn(5) {
			case 0:
				mode = "deaf"
			case 1:
				mode, d = "quick", 1+rng.Intn(30)
			}
			meth := []string{"tool", "tool", "ping"}[rng.Intn(3)]
			if c.pv >= protocolVersion20260728 {
				meth = "tool"
			}
			c.calls = append(c.calls, canCall{dir: "c2s", meth: meth, mode: mode, d: d, at: rng.Intn(4), s: 1})
		}
		if rng.Intn(4) != 0 {
			c.victim2 = first + rng.Intn(n)
			c.calls[c.victim2].mode, c.calls[c.victim2].d = "park", 0
		}
	}
	return c
}

func canGen0(rng *rand.Rand, tr string) *canCase {
	c := &canCase{tr: tr, pv: canLegacy[rng.Intn(len(canLegacy))], fault: "none"}
	isNew := strings.HasPrefix(tr, "sl") && strings.Contains(tr[2:], "p")
	if isNew {
		c.pv = protocolVersion20260728
	}
	s2c := !canStateless(tr) && rng.Intn(10) < 6
	mode := func() (string, int) {
		switch rng.Intn(5) {
		case 0:
			return "deaf", 0
		case 1:
			return "quick", 1 + rng.Intn(30)
		default:
			return "park", 0
		}
	}
	at := func() int { return rng.Intn(4) }
	pipeTr := tr == "mem" || tr == "io"
	if (isNew && rng.Intn(4) == 0) || (pipeTr && rng.Intn(12) == 0) {
		// subscriptions/listen (2026-07-28): ClientSession.Subscribe opens a listen stream whose call is NOT awaited
		// (callSubscriptionsListen); Unsubscribe ends its context and a detached goroutine runs cancelCall.  The
		// server's handler (the real one) blocks until its context ends.  The listen call is the victim; 0-2 other
		// tool calls are in flight.  On the pipes the session then speaks 2026-07-28 too.
		c.pv = protocolVersion20260728
		c.calls = append(c.calls, canCall{dir: "c2s", meth: "listen", mode: "listen", at: at()})
		for k := rng.Intn(3); k > 0; k-- {
			m, d := mode()
			c.calls = append(c.calls, canCall{dir: "c2s", meth: "tool", mode: m, d: d, at: at()})
		}
		c.victim, c.when = 0, "run"
		c.tc = c.calls[0].at + 10 + rng.Intn(20)
		if pipeTr && rng.Intn(3) == 0 {
			c.fault = []string{"stall", "reject", "late"}[rng.Intn(3)]
		}
		return c
	}
	if rng.Intn(9) == 0 {
		// A GROUP of calls sharing one context (errgroup, request scope, common deadline) that ends at once: 2-7 or
		// 17-32 members (more than any small constant of the code), client→server or nested server→client inside one
		// carrier, plus bystanders whose contexts do not end.
		n := 2 + rng.Intn(6)
		if rng.Intn(2) == 0 {
			n = 17 + rng.Intn(16)
		}
		first := 0
		if s2c {
			c.calls = append(c.calls, canCall{dir: "c2s", meth: "drive", mode: "drive"})
			first = 1
		}
		for k := 0; k < n; k++ {
			m, d := mode()
			if s2c {
				c.calls = append(c.calls, canCall{dir: "s2cn", meth: []string{"sample", "elicit", "roots", "ping"}[rng.Intn(4)], mode: m, d: d, at: at(), grp: true})
			} else {
				meth := []string{"tool", "tool", "ping"}[rng.Intn(3)]
				if isNew {
					meth = "tool"
				}
				c.calls = append(c.calls, canCall{dir: "c2s", meth: meth, mode: m, d: d, at: at(), grp: true})
			}
		}
		for k := rng.Intn(3); k > 0; k-- { // bystanders
			m, d := mode()
			dir := "c2s"
			if s2c && rng.Intn(2) == 0 {
				dir = "s2cn"
			}
			meth := "tool"
			if dir != "c2s" {
				meth = "roots"
			}
			c.calls = append(c.calls, canCall{dir: dir, meth: meth, mode: m, d: d, at: at()})
		}
		c.victim = first + rng.Intn(n)
		v := &c.calls[c.victim]
		v.mode, v.d = "park", 0
		switch rng.Intn(8) {
		case 0, 1:
			c.dl = true
		case 2, 3:
			c.cz = true
		}
		c.when = "run"
		c.tc = 3 + 10 + rng.Intn(20)
		if s2c {
			c.tc++
		}
		pipe := tr == "mem" || tr == "io"
		switch {
		case tr == "fj":
			c.fault = []string{"none", "late", "late", "stall", "timeout", "s503"}[rng.Intn(6)]
		case (pipe || !s2c) && !canStateless(tr):
			c.fault = []string{"none", "late", "late", "stall", "reject"}[rng.Intn(5)]
		}
		return c
	}
	if s2c && rng.Intn(4) == 0 {
		// the carrier is a tool that asks for input (mcp/mrtr.go): for a legacy client serverMultiRoundTripMiddleware
		// makes the server→client calls itself (one per input request, concurrently, on an errgroup context derived
		// from the handler's) and re-invokes the handler.  The victim is the carrier or a bystander (a failing input
		// request fails the tool call by design, so no input request is a victim).
		c.calls = append(c.calls, canCall{dir: "c2s", meth: "mrtr", mode: "drive"})
		for _, m := range []string{"sample", "elicit", "roots"} {
			if rng.Intn(2) == 0 || (m == "roots" && len(c.calls) == 1) {
				md, d := mode()
				c.calls = append(c.calls, canCall{dir: "s2cn", meth: m, mode: md, d: d})
			}
		}
		if rng.Intn(2) == 0 {
			m, d := mode()
			c.calls = append(c.calls, canCall{dir: "c2s", meth: []string{"tool", "ping"}[rng.Intn(2)], mode: m, d: d, at: at()})
			if rng.Intn(2) == 0 {
				c.victim = len(c.calls) - 1
			}
		}
	} else if s2c {
		c.calls = append(c.calls, canCall{dir: "c2s", meth: "drive", mode: "drive"})
		n := 1 + rng.Intn(3)
		for k := 0; k < n; k++ {
			dir := "s2cn"
			if !canNoStandalone(tr) && rng.Intn(3) == 0 {
				dir = "s2cd"
			}
			m, d := mode()
			c.calls = append(c.calls, canCall{dir: dir, meth: []string{"sample", "elicit", "roots", "ping"}[rng.Intn(4)], mode: m, d: d, at: at()})
		}
		if rng.Intn(3) == 0 {
			m, d := mode()
			c.calls = append(c.calls, canCall{dir: "c2s", meth: []string{"tool", "ping"}[rng.Intn(2)], mode: m, d: d, at: at()})
		}
		c.victim = 1 + rng.Intn(len(c.calls)-1)
		if rng.Intn(8) == 0 {
			c.victim = 0
		}
	} else {
		n := 1 + rng.Intn(3)
		for k := 0; k < n; k++ {
			m, d := mode()
			meth := []string{"tool", "tool", "ping"}[rng.Intn(3)]
			if isNew {
				// 2026-07-28: "mrtr" = a tool that asks for input; clientMultiRoundTripMiddleware fulfils it and retries
				meth = []string{"tool", "mrtr"}[rng.Intn(2)]
			}
			c.calls = append(c.calls, canCall{dir: "c2s", meth: meth, mode: m, d: d, at: at()})
		}
		c.victim = rng.Intn(len(c.calls))
	}
	v := &c.calls[c.victim]
	switch rng.Intn(8) {
	case 0, 1:
		c.dl = true
	case 2, 3:
		c.cz = true
	}
	c.when = []string{"pre", "run", "run", "race", "post"}[rng.Intn(5)]
	if v.mode == "drive" || (c.when == "pre" && canStateless(tr)) {
		c.when = "run" // a stateless server has no dispatcher shared between two POSTs: nothing can be queued in front of the call
	}
	switch c.when {
	case "pre":
		c.tc = v.at + 10
	case "run":
		if v.mode == "quick" {
			v.mode = "park"
			v.d = 0
		}
		c.tc = v.at + 10 + rng.Intn(20)
	case "race":
		v.mode = "quick"
		if v.d == 0 {
			v.d = 1 + rng.Intn(30)
		}
		c.tc = v.at + v.d
	case "post":
		v.mode = "quick"
		if v.d == 0 {
			v.d = 1 + rng.Intn(30)
		}
		c.tc = v.at + v.d + 5 + rng.Intn(20)
	}
	if v.dir != "c2s" {
		c.tc += 1 // the carrier's handler starts in the instant the scenario starts; its children a little later
	}
	pipe := tr == "mem" || tr == "io"
	if rng.Intn(3) == 0 && (pipe || v.dir == "c2s") && !canStateless(tr) {
		c.fault = []string{"stall", "stall", "reject", "fail"}[rng.Intn(4)]
		if !pipe && c.fault == "fail" {
			c.fault = "reject" // the streamable and SSE clients turn every failed POST into a rejection
		}
	}
	if tr == "fj" && rng.Intn(2) == 0 {
		// what the foreign server does with the POST that carries the notice: 202 late / never / not before the HTTP
		// client's response-header timeout / 503 / connection reset
		c.fault = []string{"late", "stall", "timeout", "timeout", "s503", "reset"}[rng.Intn(6)]
	}
	if c.fault != "none" && tr != "fj" && rng.Intn(4) == 0 {
		c.fault = "late" // handed over at once, acknowledged a second later: not a fault
	}
	if pipe && c.fault == "none" && c.when == "run" && v.mode != "drive" && c.tc > 5 && rng.Intn(5) == 0 {
		c.rclose = true // the receiver closes gracefully while the call is in flight; only then the caller cancels
	}
	return c
}

func canBucket(n int) string {
	switch {
	case n <= 1:
		return "1"
	case n <= 4:
		return "2-4"
	case n <= 16:
		return "5-16"
	}
	return ">16"
}

func canParse(lines []string) (*canCase, bool) {
	c := &canCase{fault: "none", victim: -1, victim2: -1}
	kv := func(f []string, k string) string {
		for _, t := range f {
			if strings.HasPrefix(t, k+"=") {
				return t[len(k)+1:]
			}
		}
		return ""
	}
	for _, ln := range lines {
		f := strings.Fields(ln)
		if len(f) == 0 {
			continue
		}
		switch f[0] {
		case "cfg":
			c.tr, c.pv = kv(f, "tr"), kv(f, "pv")
			c.bc = kv(f, "bc") == "1"
			c.twin = kv(f, "tw")
		case "c":
			d, _ := strconv.Atoi(kv(f, "d"))
			at, _ := strconv.Atoi(kv(f, "at"))
			c.calls = append(c.calls, canCall{dir: kv(f, "dir"), meth: kv(f, "meth"), mode: kv(f, "mode"), d: d, at: at, grp: kv(f, "g") == "1", s: map[bool]int{true: 1}[kv(f, "s") == "1"]})
		case "x":
			c.victim, _ = strconv.Atoi(kv(f, "victim"))
			c.when = kv(f, "when")
			c.tc, _ = strconv.Atoi(kv(f, "tc"))
			c.dl = kv(f, "dl") == "1"
			c.fault = kv(f, "fault")
			c.rclose = kv(f, "rc") == "1"
			c.cz = kv(f, "cz") == "1"
			if v := kv(f, "v2"); v != "" {
				c.victim2, _ = strconv.Atoi(v)
			}
		}
	}
	return c, c.tr != "" && len(c.calls) > 0 && c.victim >= 0 && c.victim < len(c.calls)
}

func TestVerifCancel(t *testing.T) {
	out := verifOpen(t)
	defer out.close()
	replay := func(path, cs string) {
		b, err := os.ReadFile(path)
		if err != nil {
			t.Fatal(err)
		}
		var cur []string
		n := 0
		run := func() {
			if c, ok := canParse(cur); ok {
				canRunCase(t, out, fmt.Sprintf("%s-%d", cs, n), c)
				n++
			}
			cur = nil
		}
		for _, ln := range strings.Split(string(b), "\n") {
			ln = strings.TrimSpace(ln)
			if ln == "" || strings.HasPrefix(ln, "#") {
				continue
			}
			if ln == "reset" {
				run()
				continue
			}
			cur = append(cur, ln)
		}
		run()
	}
	if p := os.Getenv("VERIF_REPLAY"); p != "" {
		replay(p, "replay")
		return
	}
	if p := os.Getenv("VERIF_CORPUS"); p != "" {
		ents, _ := os.ReadDir(p)
		sort.Slice(ents, func(i, j int) bool { return ents[i].Name() < ents[j].Name() })
		for _, e := range ents {
			if strings.HasSuffix(e.Name(), ".ops") {
				replay(p+"/"+e.Name(), "corpus-"+strings.TrimSuffix(e.Name(), ".ops"))
			}
		}
	}
	rng := verifRng(47)
	n := verifN(2200, 12000)
	for i := 0; i < n; i++ {
		canRunCase(t, out, fmt.Sprintf("g%d", i), canGen(rng, canTransports[i%len(canTransports)]))
	}
}
