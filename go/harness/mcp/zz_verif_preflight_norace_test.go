//go:build !race

package mcp

const pfRace = false
