// E6 correspondence harness (C09): the real StreamableClientTransport + Client/ClientSession against a
// scripted http.RoundTripper whose SSE response bodies are byte prefixes of a well-formed event stream,
// ended by a clean EOF or by a read error, inside testing/synctest (virtual time skips the back-off).
//
// One case = one scenario:
//
//	reset
//	scn <kind> mr=<MaxRetries field> first=<cut>:<term> script=<a,a,...|-> log=<ev;ev;...|-> full=<hex>
//	x <k> <attempt> from=<idx|-> t=<µs> e=<µs>  observation  lei=<hex|->   (one per HTTP exchange on the stream; t/e: virtual start/end)
//	delivered atret=<n>                      observation  <label>... | -  (notifications handed to the session's handler; atret: how many when the call returned)
//	end                                      observation  result:<label> | err:<kind> | hang   (the pending call / the probe call)
//	leak                                     observation  none | leak
//
// kind post: the stream is the SSE response to a tools/call POST (exchange 0), resumed by GETs.
// kind sa:   the stream is the standalone GET stream (exchange 0 = initial GET); `end` is a ping probe.
// The scripted server is FAITHFUL (C08's guarantee): a GET carrying Last-Event-ID = the id of log item i is
// answered with the items after i; the attempt token only chooses the fault: terr (transport error),
// st<code> (status), ok:<cut>:<term> (200, body = first <cut> bytes of what a faithful server would send,
// then eof | err | hang).  An exhausted script answers terr.
//
// Fault kinds of a transport error (script token terr:<sub>; the x record says `terr is=<c><d><t>`: what the
// error http.Client.Do returned answers to errors.Is(context.Canceled) / errors.Is(context.DeadlineExceeded) /
// net.Error.Timeout(), MEASURED on the error value): dialto (a genuine *net.OpError dial timeout through a real
// http.Transport), hdrto (net/http's "timeout awaiting response headers": a real http.Transport with
// ResponseHeaderTimeout over a net.Pipe whose far end never answers), clito (a real http.Client whose Timeout
// elapses), canc (a real http.Client whose request context - not the caller's - was cancelled), eof (the far end
// of a net.Pipe closes without answering), refused (*net.OpError ECONNREFUSED).  All are produced by a nested
// real client and returned by the scripted RoundTripper, so the SDK's client wraps them in a *url.Error.
// The caller's own context (call streams only): ctxc (cancelled while the attempt is in flight), ctxd (its
// deadline passes while the attempt is in flight), ctxw (cancelled during the back-off wait: no request goes
// out; recorded as `c t=<µs>`).
// Foreign answers to the resumption GET (script token fj:<variant>:<term>; the x record says
// `ok:0:<term> code=<status> ct=<content type> junk=x<hex of the body>`): 204, json (200 application/json with
// the call's response as a JSON body), jsonl (the same with a trailing newline), ssejson (the JSON body under
// text/event-stream).  None of these bodies contains an SSE event (the driver checks that the model's scanner
// makes of them what it makes of an empty body), so for the monitor they are bodies without progress.
package mcp

import (
	"context"
	"encoding/hex"
	"encoding/json"
	"errors"
	"fmt"
	"io"
	"math/rand"
	"net"
	"net/http"
	"net/http/httptest"
	"os"
	"sort"
	"strconv"
	"strings"
	"sync"
	"syscall"
	"testing"
	"testing/synctest"
	"time"

	"github.com/modelcontextprotocol/go-sdk/jsonrpc"
)

// ---------------------------------------------------------------- scenario

type csItem struct {
	raw   bool   // raw block (comment lines etc.): data holds the bytes verbatim
	name  string // event:
	id    string // id:
	retry string // retry:
	data  string // data: (or the raw bytes)
	label string // n<k> notification k | r the call's response | - no message
}

type csAttempt struct {
	kind   string // terr | st | ok | ctx | fj
	sub    string // terr: fault kind ("" = a plain error); ctx: c | d | w; fj: 204 | json | jsonl | ssejson
	status int
	cut    int
	term   string // eof | err | hang
}

func (a csAttempt) String() string {
	switch a.kind {
	case "terr":
		if a.sub != "" {
			return "terr:" + a.sub
		}
		return "terr"
	case "ctx":
		return "ctx" + a.sub
	case "fj":
		return fmt.Sprintf("fj:%s:%s", a.sub, a.term)
	case "st":
		return fmt.Sprintf("st%d", a.status)
	}
	return fmt.Sprintf("ok:%d:%s", a.cut, a.term)
}

var csTerrSubs = []string{"", "dialto", "hdrto", "clito", "canc", "eof", "refused"}

func csParseAttempt(s string) (csAttempt, error) {
	switch {
	case s == "terr":
		return csAttempt{kind: "terr"}, nil
	case strings.HasPrefix(s, "terr:"):
		for _, k := range csTerrSubs {
			if k != "" && s[5:] == k {
				return csAttempt{kind: "terr", sub: k}, nil
			}
		}
		return csAttempt{}, fmt.Errorf("bad attempt %q", s)
	case s == "ctxc" || s == "ctxd" || s == "ctxw":
		return csAttempt{kind: "ctx", sub: s[3:]}, nil
	case strings.HasPrefix(s, "fj:"):
		p := strings.Split(s, ":")
		if len(p) != 3 || (p[2] != "eof" && p[2] != "err") {
			return csAttempt{}, fmt.Errorf("bad attempt %q", s)
		}
		switch p[1] {
		case "204", "json", "jsonl", "ssejson":
			return csAttempt{kind: "fj", sub: p[1], term: p[2]}, nil
		}
		return csAttempt{}, fmt.Errorf("bad attempt %q", s)
	case strings.HasPrefix(s, "st"):
		n, err := strconv.Atoi(s[2:])
		return csAttempt{kind: "st", status: n}, err
	case strings.HasPrefix(s, "ok:"):
		p := strings.Split(s, ":")
		if len(p) != 3 {
			return csAttempt{}, fmt.Errorf("bad attempt %q", s)
		}
		n, err := strconv.Atoi(p[1])
		return csAttempt{kind: "ok", cut: n, term: p[2]}, err
	}
	return csAttempt{}, fmt.Errorf("bad attempt %q", s)
}

type csScenario struct {
	kind   string // post | sa
	mr     int    // StreamableClientTransport.MaxRetries
	first  csAttempt
	script []csAttempt
	log    []csItem
	chunk  int // body chunking mode (not part of the scenario's meaning): 0 all at once, n>0 n bytes per Read, -1 data+error in one Read
	// bg: ANOTHER stream of the same connection, busy while the stream under test is cut (call streams only).
	// "sahang": the standalone stream is open (200 text/event-stream), ends cleanly without an event, and its
	// reconnection GET is accepted by the peer but never answered (no response headers) for as long as the
	// connection lives; the call under test is made once that GET is pending.  The streams of a connection are
	// independent: what the model says of the stream under test does not depend on bg.
	// "call": a SECOND call (tool "bg") is made at the same moment; its response stream (events zq_0 priming, zq_1 a
	// notification) is cut at the same virtual time as the first body of the stream under test, both reconnect, and the
	// second stream's resumption GET (Last-Event-ID zq_1) is answered SLOWLY (30 virtual seconds) with a second
	// notification and the second call's response. Reported in the `bg` record.
	bg string
}

const csCallID = 2 // initialize is request 1, the call under test request 2

func csNotif(k int) string {
	return fmt.Sprintf(`{"jsonrpc":"2.0","method":"notifications/message","params":{"level":"info","data":%d}}`, k)
}

func csResp() string {
	return fmt.Sprintf(`{"jsonrpc":"2.0","id":%d,"result":{"content":[{"type":"text","text":"R"}]}}`, csCallID)
}

// csRender renders one log item with the repository's own writeEvent.
func csRender(it csItem) []byte {
	if it.raw {
		return []byte(it.data)
	}
	rec := httptest.NewRecorder()
	writeEvent(rec, Event{Name: it.name, ID: it.id, Retry: it.retry, Data: []byte(it.data)})
	return rec.Body.Bytes()
}

func (s *csScenario) offsets() []int { // offsets[i] = start of item i in the full stream; offsets[len] = total
	off := []int{0}
	for _, it := range s.log {
		off = append(off, off[len(off)-1]+len(csRender(it)))
	}
	return off
}

func (s *csScenario) full() []byte {
	var b []byte
	for _, it := range s.log {
		b = append(b, csRender(it)...)
	}
	return b
}

func csItemString(it csItem) string {
	k := "e"
	if it.raw {
		k = "w"
	}
	return strings.Join([]string{k, hxs(it.name), hxs(it.id), hxs(it.retry), hxs(it.data), it.label}, ".")
}

func csParseItem(s string) (csItem, error) {
	p := strings.Split(s, ".")
	if len(p) != 6 {
		return csItem{}, fmt.Errorf("bad item %q", s)
	}
	var f [4]string
	for i := 0; i < 4; i++ {
		b, err := hex.DecodeString(p[1+i])
		if err != nil {
			return csItem{}, err
		}
		f[i] = string(b)
	}
	return csItem{raw: p[0] == "w", name: f[0], id: f[1], retry: f[2], data: f[3], label: p[5]}, nil
}

func (s *csScenario) op() string {
	sc := make([]string, len(s.script))
	for i, a := range s.script {
		sc[i] = a.String()
	}
	lg := make([]string, len(s.log))
	for i, it := range s.log {
		lg[i] = csItemString(it)
	}
	j := func(l []string, sep string) string {
		if len(l) == 0 {
			return "-"
		}
		return strings.Join(l, sep)
	}
	bg := ""
	if s.bg != "" {
		bg = " bg=" + s.bg
	}
	return fmt.Sprintf("scn %s mr=%d first=%d:%s script=%s log=%s full=%s%s", s.kind, s.mr, s.first.cut, s.first.term,
		j(sc, ","), j(lg, ";"), "x"+hx(s.full()), bg)
}

func csParseScenario(line string) (*csScenario, error) {
	toks := strings.Fields(line)
	if len(toks) < 6 || toks[0] != "scn" {
		return nil, fmt.Errorf("not a scn op")
	}
	s := &csScenario{kind: toks[1]}
	for _, t := range toks[2:] {
		k, v, _ := strings.Cut(t, "=")
		switch k {
		case "mr":
			n, err := strconv.Atoi(v)
			if err != nil {
				return nil, err
			}
			s.mr = n
		case "first":
			a, err := csParseAttempt("ok:" + v)
			if err != nil {
				return nil, err
			}
			s.first = a
		case "bg":
			if v != "sahang" && v != "call" {
				return nil, fmt.Errorf("bad bg %q", v)
			}
			s.bg = v
		case "script":
			if v != "-" {
				for _, x := range strings.Split(v, ",") {
					a, err := csParseAttempt(x)
					if err != nil {
						return nil, err
					}
					s.script = append(s.script, a)
				}
			}
		case "log":
			if v != "-" {
				for _, x := range strings.Split(v, ";") {
					it, err := csParseItem(x)
					if err != nil {
						return nil, err
					}
					s.log = append(s.log, it)
				}
			}
		}
	}
	return s, nil
}

// ---------------------------------------------------------------- scripted server

type csBody struct {
	data   []byte
	term   string
	chunk  int
	ctx    context.Context
	pos    int
	gate   chan struct{} // if non-nil: nothing is delivered before it is closed
	paused bool
	onEnd  func() // called once, when the termination is handed to the client
}

var errCsCut = errors.New("verif: connection reset by peer")

func (b *csBody) Read(p []byte) (int, error) {
	if b.gate != nil {
		select {
		case <-b.gate:
		case <-b.ctx.Done():
			return 0, b.ctx.Err()
		}
	}
	if b.pos < len(b.data) {
		n := len(b.data) - b.pos
		if b.chunk > 0 && n > b.chunk {
			n = b.chunk
		}
		if n > len(p) {
			n = len(p)
		}
		copy(p, b.data[b.pos:b.pos+n])
		b.pos += n
		return n, nil
	}
	if b.term == "hang" {
		<-b.ctx.Done()
		return 0, b.ctx.Err()
	}
	if !b.paused {
		// The cut happens a moment (of virtual time) after the last byte: everything the client can do
		// with what it has received happens first. (Without this, whether a message queued just before
		// a failure is still delivered is a coin flip in streamableClientConn.Read's select.)
		b.paused = true
		time.Sleep(time.Millisecond)
		if b.onEnd != nil {
			b.onEnd()
		}
	}
	return 0, b.end()
}

func (b *csBody) end() error {
	if b.term == "eof" {
		return io.EOF
	}
	return errCsCut
}

func (b *csBody) Close() error { return nil }

type csExchange struct {
	rec     string // "x" an HTTP exchange | "c" the caller's context was cancelled while no request was in flight
	k       int
	attempt string
	from    string
	us      int64 // start, µs of virtual time
	end     int64 // when the exchange was over for the client
	lei     string
	extra   string // further fields of the op (` is=<c><d><t>` of a transport error; ` code= ct= junk=` of a foreign answer)
}

type csServer struct {
	s      *csScenario
	off    []int
	full   []byte
	start  time.Time
	mu     sync.Mutex
	xs     []csExchange
	next   int // next script entry
	saSeen bool
	connected chan struct{}
	sent   int // high-water mark of bytes of the full stream handed to the client (for header-less standalone GETs)
	bad    []string
	cancelCall func() // ends the caller's context (ctxc / ctxw)
	bgID      string   // JSON of the second call's request id (bg=call)
	bgGets    []string // Last-Event-IDs of the second stream's resumption GETs
	bgSeen    int // GETs of the background stream (bg)
	bgPending int // of which: accepted and not answered
}

func (sv *csServer) json(req *http.Request, status int, body string) *http.Response {
	h := http.Header{}
	if body != "" {
		h.Set("Content-Type", "application/json")
	}
	h.Set(sessionIDHeader, "sess")
	return &http.Response{StatusCode: status, Status: http.StatusText(status), Header: h, Body: io.NopCloser(strings.NewReader(body)), Request: req,
		Proto: "HTTP/1.1", ProtoMajor: 1, ProtoMinor: 1}
}

// ---- genuine transport errors

var csDialTimeout error // a genuine dial timeout of package net (made once, outside every bubble)

func csInitFaults(t *testing.T) {
	d := net.Dialer{Deadline: time.Now().Add(-time.Second)}
	conn, err := d.Dial("tcp", "127.0.0.1:9")
	if err == nil {
		conn.Close()
		t.Fatal("verif: dial with an expired deadline succeeded")
	}
	csDialTimeout = err
}

type csBlackhole struct{}

func (csBlackhole) RoundTrip(req *http.Request) (*http.Response, error) {
	<-req.Context().Done()
	return nil, req.Context().Err()
}

// csFault produces the error of a failed attempt with a nested REAL client and says what the error answers to
// the tests a retry loop could apply to it.  The caller's context is live throughout (the nested request uses a
// context of its own, derived from Background).
func csFault(sub string) (err error, is string) {
	bg := context.Background()
	req, _ := http.NewRequestWithContext(bg, http.MethodGet, "http://verif.invalid/mcp", nil)
	pipe := func(far func(net.Conn)) *http.Transport {
		return &http.Transport{DisableKeepAlives: true, ResponseHeaderTimeout: 5 * time.Second,
			DialContext: func(ctx context.Context, network, addr string) (net.Conn, error) {
				cl, sv := net.Pipe()
				go far(sv)
				return cl, nil
			}}
	}
	switch sub {
	case "dialto":
		tr := &http.Transport{DisableKeepAlives: true, DialContext: func(ctx context.Context, network, addr string) (net.Conn, error) { return nil, csDialTimeout }}
		_, err = (&http.Client{Transport: tr}).Do(req)
	case "hdrto":
		tr := pipe(func(c net.Conn) { io.Copy(io.Discard, c); c.Close() })
		_, err = (&http.Client{Transport: tr}).Do(req)
		tr.CloseIdleConnections()
	case "clito":
		_, err = (&http.Client{Transport: csBlackhole{}, Timeout: 7 * time.Second}).Do(req)
	case "canc":
		ictx, cancel := context.WithCancel(bg)
		cancel()
		_, err = (&http.Client{Transport: csBlackhole{}}).Do(req.Clone(ictx))
	case "eof":
		tr := pipe(func(c net.Conn) { b := make([]byte, 1); c.Read(b); c.Close() })
		_, err = (&http.Client{Transport: tr}).Do(req)
		tr.CloseIdleConnections()
	case "refused":
		err = &net.OpError{Op: "dial", Net: "tcp", Err: syscall.ECONNREFUSED}
	default:
		err = errors.New("verif: dial failed")
	}
	if err == nil {
		err = errors.New("verif: fault " + sub + " produced no error")
	}
	bit := func(b bool) string {
		if b {
			return "1"
		}
		return "0"
	}
	var ne net.Error
	return err, bit(errors.Is(err, context.Canceled)) + bit(errors.Is(err, context.DeadlineExceeded)) + bit(errors.As(err, &ne) && ne.Timeout())
}

func (sv *csServer) now() int64 { return time.Since(sv.start).Microseconds() }

// sawCtxd: an attempt during which the caller's deadline passes (ctxd) has been made
func (sv *csServer) sawCtxd() bool {
	sv.mu.Lock()
	defer sv.mu.Unlock()
	for _, x := range sv.xs {
		if strings.HasPrefix(x.attempt, "ctxd") {
			return true
		}
	}
	return false
}

// afterExchange: an exchange is over for the client. If the script says that the caller's context is cancelled
// during the wait before the next attempt (ctxw), do that a moment later (the client is then inside
// connectSSE's select; the shortest wait of any schedule is far longer).
func (sv *csServer) afterExchange() {
	sv.mu.Lock()
	defer sv.mu.Unlock()
	if sv.next < len(sv.s.script) && sv.s.script[sv.next].kind == "ctx" && sv.s.script[sv.next].sub == "w" {
		sv.next++
		time.AfterFunc(time.Millisecond, func() {
			sv.mu.Lock()
			now := sv.now()
			sv.xs = append(sv.xs, csExchange{rec: "c", k: len(sv.xs), attempt: "ctxw", from: "-", us: now, end: now, lei: "-"})
			sv.mu.Unlock()
			if sv.cancelCall != nil {
				sv.cancelCall()
			}
		})
	}
}

// serve answers exchange k of the stream under test.
func (sv *csServer) serve(req *http.Request, a csAttempt, scripted bool) (*http.Response, error) {
	sv.mu.Lock()
	k := len(sv.xs)
	now := sv.now()
	x := csExchange{rec: "x", k: k, attempt: a.String(), from: "-", us: now, end: now, lei: "-"}
	vals := req.Header.Values(lastEventIDHeader)
	has := len(vals) > 0
	if has {
		x.lei = "x" + hxs(vals[0])
	}
	star := ""
	if !scripted {
		star = "*"
	}
	// faithful replay position
	from := -1
	switch {
	case k == 0:
		from = 0
	case !has || vals[0] == "":
		if sv.s.kind == "sa" {
			// a fresh standalone stream: only what has not been handed out yet
			for i := range sv.s.log {
				if sv.off[i] >= sv.sent {
					from = i
					break
				}
			}
			if from < 0 {
				from = len(sv.s.log)
			}
		}
	default:
		for i, it := range sv.s.log {
			if !it.raw && it.id != "" && it.id == vals[0] {
				from = i + 1
				break
			}
		}
	}
	if a.kind == "ctx" && a.sub == "w" {
		a.sub = "c" // a request did go out: the context is cancelled while it is in flight
	}
	var resp *http.Response
	slow := false // the answer takes (virtual) time: computed without the lock
	switch a.kind {
	case "terr":
		x.attempt = "terr" + star
		slow = true
	case "ctx":
		x.attempt = "ctx" + a.sub + star
		slow = true
	case "st":
		x.attempt += star
		resp = sv.json(req, a.status, "")
	case "ok", "fj":
		if from < 0 {
			x.attempt = fmt.Sprintf("ok:%d:%s", a.cut, a.term) + star
			x.from = "unknown"
			resp = sv.json(req, http.StatusBadRequest, "")
			break
		}
		x.from = strconv.Itoa(from)
		h := http.Header{}
		h.Set("Content-Type", "text/event-stream")
		h.Set(sessionIDHeader, "sess")
		status := 200
		var data []byte
		if a.kind == "fj" {
			x.attempt = fmt.Sprintf("ok:0:%s", a.term) + star
			ct := "sse"
			switch a.sub {
			case "204":
				status, ct = http.StatusNoContent, "-"
				h.Del("Content-Type")
			case "json":
				data, ct = []byte(csResp()), "json"
				h.Set("Content-Type", "application/json")
			case "jsonl":
				data, ct = []byte(csResp()+"\n"), "json"
				h.Set("Content-Type", "application/json; charset=utf-8")
			case "ssejson":
				data = []byte(csResp())
			}
			x.extra = fmt.Sprintf(" code=%d ct=%s junk=x%s", status, ct, hx(data))
		} else {
			x.attempt += star
			data = sv.full[sv.off[from]:]
			if a.cut < len(data) {
				data = data[:a.cut]
			}
			if e := sv.off[from] + len(data); e > sv.sent {
				sv.sent = e
			}
		}
		resp = &http.Response{StatusCode: status, Status: http.StatusText(status), Header: h, Request: req, Proto: "HTTP/1.1", ProtoMajor: 1, ProtoMinor: 1,
			Body: &csBody{data: data, term: a.term, chunk: sv.s.chunk, ctx: req.Context(), gate: sv.gate(k), onEnd: func() {
				sv.mu.Lock()
				sv.xs[k].end = sv.now()
				sv.mu.Unlock()
				sv.afterExchange()
			}}}
	}
	sv.xs = append(sv.xs, x)
	sv.mu.Unlock()
	if !slow {
		return resp, nil
	}
	var err error
	extra := ""
	if a.kind == "terr" {
		var is string
		err, is = csFault(a.sub)
		extra = " is=" + is
	} else {
		// the caller's context ends while the request is in flight: the scripted server never answers
		if a.sub == "c" && sv.cancelCall != nil {
			time.AfterFunc(time.Millisecond, sv.cancelCall)
		}
		<-req.Context().Done()
		err = req.Context().Err()
	}
	sv.mu.Lock()
	sv.xs[k].end = sv.now()
	sv.xs[k].extra = extra
	sv.mu.Unlock()
	if a.kind == "terr" {
		sv.afterExchange()
	}
	return nil, err
}

// gate: the first body of the standalone stream is held back until Connect has returned.
func (sv *csServer) gate(k int) chan struct{} {
	if sv.s.kind == "sa" && k == 0 {
		return sv.connected
	}
	return nil
}

// the second call's log (bg=call)
func (sv *csServer) bgLog() []csItem {
	sv.mu.Lock()
	id := sv.bgID
	sv.mu.Unlock()
	return []csItem{
		{id: "zq_0", data: ""},
		{id: "zq_1", data: csNotif(1001)},
		{id: "zq_2", data: csNotif(1002)},
		{id: "zq_3", data: fmt.Sprintf(`{"jsonrpc":"2.0","id":%s,"result":{"content":[{"type":"text","text":"RB"}]}}`, id)},
	}
}

// bgBody: the second call's stream from item `from`; the first body (from 0) ends, cleanly, after zq_1
func (sv *csServer) bgBody(req *http.Request, from int) *http.Response {
	log := sv.bgLog()
	to := len(log)
	if from == 0 {
		to = 2
	}
	var data []byte
	for _, it := range log[from:to] {
		data = append(data, csRender(it)...)
	}
	h := http.Header{}
	h.Set("Content-Type", "text/event-stream")
	h.Set(sessionIDHeader, "sess")
	return &http.Response{StatusCode: 200, Status: "OK", Header: h, Request: req, Proto: "HTTP/1.1", ProtoMajor: 1, ProtoMinor: 1,
		Body: &csBody{data: data, term: "eof", chunk: sv.s.chunk, ctx: req.Context()}}
}

func (sv *csServer) nextAttempt() (csAttempt, bool) {
	sv.mu.Lock()
	defer sv.mu.Unlock()
	if sv.next < len(sv.s.script) {
		sv.next++
		return sv.s.script[sv.next-1], true
	}
	return csAttempt{kind: "terr"}, false
}

func (sv *csServer) note(s string) {
	sv.mu.Lock()
	sv.bad = append(sv.bad, s)
	sv.mu.Unlock()
}

func (sv *csServer) RoundTrip(req *http.Request) (*http.Response, error) {
	switch req.Method {
	case http.MethodDelete:
		return sv.json(req, http.StatusNoContent, ""), nil
	case http.MethodGet:
		if sv.s.kind == "post" && sv.s.bg == "sahang" && len(req.Header.Values(lastEventIDHeader)) == 0 {
			// the background standalone stream: it never received an event id, so its GETs carry no
			// Last-Event-ID (a resumption GET of the call stream always does: a call stream without an id is
			// not resumed)
			sv.mu.Lock()
			n := sv.bgSeen
			sv.bgSeen++
			sv.saSeen = true
			sv.mu.Unlock()
			if n == 0 {
				h := http.Header{}
				h.Set("Content-Type", "text/event-stream")
				h.Set(sessionIDHeader, "sess")
				return &http.Response{StatusCode: 200, Status: "OK", Header: h, Request: req, Proto: "HTTP/1.1", ProtoMajor: 1, ProtoMinor: 1,
					Body: &csBody{term: "eof", ctx: req.Context(), gate: sv.connected}}, nil
			}
			sv.mu.Lock()
			sv.bgPending++
			sv.mu.Unlock()
			<-req.Context().Done() // accepted, never answered
			sv.mu.Lock()
			sv.bgPending--
			sv.mu.Unlock()
			return nil, req.Context().Err()
		}
		if vals := req.Header.Values(lastEventIDHeader); sv.s.bg == "call" && len(vals) > 0 && strings.HasPrefix(vals[0], "zq_") {
			// the second call's stream is resumed: a slow peer
			select {
			case <-time.After(30 * time.Second):
			case <-req.Context().Done():
				return nil, req.Context().Err()
			}
			sv.mu.Lock()
			sv.bgGets = append(sv.bgGets, vals[0])
			sv.mu.Unlock()
			from := 0
			for i, it := range sv.bgLog() {
				if it.id == vals[0] {
					from = i + 1
				}
			}
			return sv.bgBody(req, from), nil
		}
		if sv.s.kind == "post" {
			sv.mu.Lock()
			seen := sv.saSeen
			sv.saSeen = true
			sv.mu.Unlock()
			if !seen {
				return sv.json(req, http.StatusMethodNotAllowed, ""), nil // no standalone stream in this scenario
			}
			a, scripted := sv.nextAttempt()
			return sv.serve(req, a, scripted)
		}
		sv.mu.Lock()
		seen := sv.saSeen
		sv.saSeen = true
		sv.mu.Unlock()
		if !seen {
			return sv.serve(req, sv.s.first, true)
		}
		a, scripted := sv.nextAttempt()
		return sv.serve(req, a, scripted)
	case http.MethodPost:
		body, _ := io.ReadAll(req.Body)
		msg, err := jsonrpc.DecodeMessage(body)
		if err != nil {
			sv.note("undecodable-post")
			return sv.json(req, 400, ""), nil
		}
		r, ok := msg.(*jsonrpc.Request)
		if !ok {
			return sv.json(req, http.StatusAccepted, ""), nil
		}
		switch r.Method {
		case methodInitialize:
			res, _ := json.Marshal(&InitializeResult{Capabilities: &ServerCapabilities{Logging: &LoggingCapabilities{}, Tools: &ToolCapabilities{}},
				ProtocolVersion: protocolVersion20251125, ServerInfo: &Implementation{Name: "verif", Version: "0"}})
			idb, _ := json.Marshal(r.ID.Raw())
			return sv.json(req, 200, fmt.Sprintf(`{"jsonrpc":"2.0","id":%s,"result":%s}`, idb, res)), nil
		case methodCallTool:
			if sv.s.bg == "call" && strings.Contains(string(r.Params), `"name":"bg"`) {
				idb, _ := json.Marshal(r.ID.Raw())
				sv.mu.Lock()
				sv.bgID = string(idb)
				sv.mu.Unlock()
				return sv.bgBody(req, 0), nil
			}
			if got, _ := r.ID.Raw().(int64); got != csCallID {
				sv.note(fmt.Sprintf("call-id-%v", r.ID.Raw()))
			}
			if sv.s.kind != "post" {
				sv.note("unexpected-call")
				return sv.json(req, 400, ""), nil
			}
			return sv.serve(req, sv.s.first, true)
		case methodPing:
			idb, _ := json.Marshal(r.ID.Raw())
			return sv.json(req, 200, fmt.Sprintf(`{"jsonrpc":"2.0","id":%s,"result":{}}`, idb)), nil
		}
		if !r.IsCall() {
			return sv.json(req, http.StatusAccepted, ""), nil
		}
		sv.note("unexpected-" + r.Method)
		return sv.json(req, 400, ""), nil
	}
	return sv.json(req, 405, ""), nil
}

// ---------------------------------------------------------------- running one scenario

func csErrKind(err error) string {
	if err == nil {
		return "nil"
	}
	m := err.Error()
	switch {
	case strings.Contains(m, "request terminated without response"):
		return "synthetic"
	case strings.Contains(m, "retries without progress"):
		return "exceeded"
	case strings.Contains(m, "failed to decode event"):
		return "decode"
	case strings.Contains(m, "malformed line"):
		return "malformed"
	case strings.Contains(m, "failed to reconnect"):
		return "reconnect"
	case errors.Is(err, ErrSessionMissing) || strings.Contains(m, ErrSessionMissing.Error()):
		return "session-missing"
	}
	for _, c := range csStatuses {
		if strings.Contains(m, http.StatusText(c)) {
			return fmt.Sprintf("st%d", c)
		}
	}
	if errors.Is(err, context.Canceled) || strings.Contains(m, "context canceled") ||
		errors.Is(err, context.DeadlineExceeded) || strings.Contains(m, "context deadline exceeded") {
		return "ctx"
	}
	return "other:" + hxs(m)
}

// the statuses a scripted answer can carry (404 is reported as session-missing)
var csStatuses = []int{400, 503, 500, 502, 504, 429, 405, 403, 401, 406, 300, 301, 304}

type csResult struct {
	xs        []csExchange
	delivered []string
	atret     int
	end       string
	leak      string
	bgEnd     string
	bgGot     []string
	bad       []string
}

const csHorizon = 12 * time.Hour // virtual; far beyond any back-off schedule of a scenario
const csCallDeadline = 2 * time.Hour // virtual; the deadline of the caller's context in scenarios with a ctxd attempt

func csRun(t *testing.T, s *csScenario) (res csResult) {
	res.leak = "none"
	res.end = "harness-aborted"
	sv := &csServer{s: s, off: s.offsets(), full: s.full(), connected: make(chan struct{})}
	func() {
		defer func() {
			if r := recover(); r != nil {
				// synctest: the bubble could not exit (goroutines blocked for ever)
				res.leak = "leak"
				if !strings.Contains(fmt.Sprint(r), "deadlock") {
					res.leak = "panic:" + hxs(fmt.Sprint(r))
				}
			}
		}()
		synctest.Test(t, func(t *testing.T) {
			defer func() {
				if r := recover(); r != nil {
					res.end = "panic"
					sv.note("panic:" + hxs(fmt.Sprint(r)))
				}
			}()
			sv.start = time.Now()
			var mu sync.Mutex
			var delivered, bgDelivered []string
			known := map[string]string{}
			for _, it := range s.log {
				if strings.HasPrefix(it.label, "n") {
					known[it.label[1:]] = it.label
				}
			}
			client := NewClient(&Implementation{Name: "verif", Version: "0"}, &ClientOptions{
				LoggingMessageHandler: func(_ context.Context, r *LoggingMessageRequest) {
					lbl := "?"
					if f, ok := r.Params.Data.(float64); ok {
						if l, ok := known[strconv.Itoa(int(f))]; ok {
							lbl = l
						}
					}
					mu.Lock()
					if f, ok := r.Params.Data.(float64); ok && f >= 1000 {
						bgDelivered = append(bgDelivered, fmt.Sprintf("b%d", int(f)-1000))
					} else {
						delivered = append(delivered, lbl)
					}
					mu.Unlock()
				},
			})
			tr := &StreamableClientTransport{Endpoint: "http://verif.invalid/mcp", HTTPClient: &http.Client{Transport: sv}, MaxRetries: s.mr}
			ctx, cancel := context.WithCancel(context.Background())
			defer cancel()
			cs, err := client.Connect(ctx, tr, &ClientSessionOptions{ProtocolVersion: protocolVersion20251125})
			if err != nil {
				res.end = "connect-failed:" + csErrKind(err)
				return
			}
			close(sv.connected)
			// the caller's context of the call under test: the script may cancel it (ctxc, ctxw) or let its
			// deadline pass while a reconnect attempt is in flight (ctxd)
			callCtx, cancelCall := context.WithCancel(ctx)
			defer cancelCall()
			for _, a := range s.script {
				if a.kind == "ctx" && a.sub == "d" {
					var stop func()
					callCtx, stop = context.WithTimeout(callCtx, csCallDeadline)
					defer stop()
					break
				}
			}
			sv.mu.Lock()
			sv.cancelCall = cancelCall
			sv.mu.Unlock()
			if s.bg == "sahang" {
				// let the background stream end and start its reconnection; the call is made while that GET is pending
				time.Sleep(time.Minute)
				synctest.Wait()
				sv.mu.Lock()
				if sv.bgPending != 1 {
					sv.bad = append(sv.bad, fmt.Sprintf("bg-pending-%d-of-%d", sv.bgPending, sv.bgSeen))
				}
				sv.mu.Unlock()
			}
			type outcome struct {
				end   string
				atret int
			}
			done := make(chan outcome, 1)
			call := func() string {
				if s.kind == "post" {
					r, err := cs.CallTool(callCtx, &CallToolParams{Name: "t"})
					if err != nil {
						if errors.Is(err, context.DeadlineExceeded) && !sv.sawCtxd() {
							// the call stayed blocked until the caller's deadline (csCallDeadline of virtual time,
							// every goroutine blocked) although no attempt was in flight at that moment
							return "hang"
						}
						return "err:" + csErrKind(err)
					}
					if len(r.Content) == 1 {
						if tc, ok := r.Content[0].(*TextContent); ok {
							return "result:" + tc.Text
						}
					}
					return "result:?"
				}
				if err := cs.Ping(callCtx, nil); err != nil {
					return "err:" + csErrKind(err)
				}
				return "ok"
			}
			if s.kind == "sa" {
				// let the standalone stream run its whole script first; then probe the connection
				time.Sleep(csHorizon)
				synctest.Wait()
			}
			go func() {
				e := call()
				mu.Lock()
				n := len(delivered)
				mu.Unlock()
				done <- outcome{e, n}
			}()
			bgDone := make(chan string, 1)
			if s.bg == "call" {
				synctest.Wait() // the call under test has been POSTed (it is request 2); the second call follows at the same virtual time
				go func() {
					r, err := cs.CallTool(ctx, &CallToolParams{Name: "bg"})
					switch {
					case err != nil:
						bgDone <- "err:" + csErrKind(err)
					case len(r.Content) == 1:
						if tc, ok := r.Content[0].(*TextContent); ok {
							bgDone <- "result:" + tc.Text
							return
						}
						fallthrough
					default:
						bgDone <- "result:?"
					}
				}()
			}
			time.Sleep(csHorizon)
			synctest.Wait()
			if s.bg == "call" {
				select {
				case e := <-bgDone:
					res.bgEnd = e
				default:
					res.bgEnd = "hang"
				}
				mu.Lock()
				res.bgGot = append([]string(nil), bgDelivered...)
				mu.Unlock()
			}
			select {
			case o := <-done:
				res.end, res.atret = o.end, o.atret
			default:
				res.end = "hang"
				cancel()
				synctest.Wait()
				select {
				case o := <-done:
					res.atret = o.atret
				default:
					res.end = "hang-uncancellable"
				}
			}
			synctest.Wait()
			mu.Lock()
			res.delivered = append([]string(nil), delivered...)
			mu.Unlock()
			cancel()
			cs.Close()
		})
	}()
	sv.mu.Lock()
	res.xs = append([]csExchange(nil), sv.xs...)
	res.bad = append([]string(nil), sv.bad...)
	sv.mu.Unlock()
	return res
}

func csTags(s *csScenario, r csResult) []string {
	set := map[string]bool{"kind-" + s.kind: true, "first-" + s.first.term: true, "end-" + strings.SplitN(r.end, ":", 3)[0]: true}
	if strings.HasPrefix(r.end, "err:") {
		k := r.end[4:]
		if strings.HasPrefix(k, "other:") {
			k = "other"
		}
		set["err-"+k] = true
	}
	off := s.offsets()
	onBoundary := false
	for _, o := range off {
		if o == s.first.cut {
			onBoundary = true
		}
	}
	if s.first.cut >= off[len(off)-1] {
		set["cut-none"] = true
	} else if onBoundary {
		set["cut-boundary"] = true
	} else {
		set["cut-inside"] = true
	}
	for _, a := range s.script {
		set["script-"+a.kind] = true
		if a.kind == "st" {
			set[fmt.Sprintf("script-st%d", a.status)] = true
		}
		if a.kind != "st" && a.kind != "ok" && a.sub != "" {
			set["script-"+a.kind+"-"+a.sub] = true
		}
	}
	if s.bg != "" {
		set["bg-"+s.bg] = true
	}
	set[fmt.Sprintf("exchanges-%d", min(len(r.xs), 9))] = true
	set[fmt.Sprintf("mr%d", s.mr)] = true
	var tags []string
	for k := range set {
		tags = append(tags, k)
	}
	sort.Strings(tags)
	return tags
}

func csEmit(out *verifOut, cs string, s *csScenario, r csResult, extra ...string) {
	out.line(cs, "reset", "ok")
	obs := "ok"
	if len(r.bad) > 0 {
		obs = "bad:" + strings.Join(r.bad, ",")
	}
	tags := append(csTags(s, r), extra...)
	out.line(cs, s.op(), obs, tags...)
	for _, x := range r.xs {
		if x.rec == "c" {
			out.line(cs, fmt.Sprintf("c t=%d", x.us), "ok", "x-ctxw")
			continue
		}
		tag := "x-" + strings.SplitN(strings.TrimSuffix(x.attempt, "*"), ":", 2)[0]
		tags := []string{tag}
		if strings.HasPrefix(x.extra, " is=") {
			tags = append(tags, "terr-is"+x.extra[4:])
		}
		if strings.HasPrefix(x.extra, " code=") {
			tags = append(tags, "x-foreign")
		}
		out.line(cs, fmt.Sprintf("x %d %s from=%s t=%d e=%d%s", x.k, x.attempt, x.from, x.us, x.end, x.extra), "lei="+x.lei, tags...)
	}
	dl := strings.Join(r.delivered, " ")
	if dl == "" {
		dl = "-"
	}
	out.line(cs, fmt.Sprintf("delivered atret=%d", r.atret), dl, "delivered")
	out.line(cs, "end", r.end, "end")
	if s.bg == "call" {
		g := strings.Join(r.bgGot, ",")
		if g == "" {
			g = "-"
		}
		out.line(cs, "bg sent=b1,b2", fmt.Sprintf("got=%s end=%s", g, r.bgEnd), "bg-call", "bgend-"+strings.SplitN(r.bgEnd, ":", 2)[0])
	}
	out.line(cs, "leak", r.leak, "leak")
}

// ---------------------------------------------------------------- generators

// csBaseLog: a priming event, two notifications and the call's response, every event with an id.
func csBaseLog(kind string) []csItem {
	if kind == "sa" {
		return []csItem{
			{raw: true, data: ": ok\n\n", label: "-"},
			{id: "_1", data: csNotif(1), label: "n1"},
			{name: "message", id: "_2", data: csNotif(2), label: "n2"},
			{id: "_3", data: csNotif(3), label: "n3"},
		}
	}
	return []csItem{
		{id: "a_0", data: "", label: "-"},
		{id: "a_1", data: csNotif(1), label: "n1"},
		{name: "message", id: "a_2", data: csNotif(2), label: "n2"},
		{id: "a_3", data: csResp(), label: "r"},
	}
}

func TestVerifClientStream(t *testing.T) {
	out := verifOpen(t)
	defer out.close()
	csInitFaults(t)
	if p := os.Getenv("VERIF_REPLAY"); p != "" {
		csReplayFile(t, out, p, "replay")
		return
	}
	if p := os.Getenv("VERIF_CORPUS"); p != "" {
		ents, _ := os.ReadDir(p)
		for _, e := range ents {
			if strings.HasSuffix(e.Name(), ".ops") {
				csReplayFile(t, out, p+"/"+e.Name(), "corpus-"+strings.TrimSuffix(e.Name(), ".ops"))
			}
		}
	}
	n := 0
	emit := func(s *csScenario, fam string) {
		r := csRun(t, s)
		csEmit(out, fmt.Sprintf("%s%d", fam, n), s, r, "fam-"+fam)
		n++
	}
	csGenerate(emit)
}

func csReplayFile(t *testing.T, out *verifOut, path, cs string) {
	b, err := os.ReadFile(path)
	if err != nil {
		t.Fatal(err)
	}
	for _, ln := range strings.Split(string(b), "\n") {
		ln = strings.TrimSpace(ln)
		if !strings.HasPrefix(ln, "scn ") {
			continue
		}
		s, err := csParseScenario(ln)
		if err != nil {
			out.line(cs, "reset", "ok")
			out.line(cs, ln, "bad-op", "corpus")
			continue
		}
		r := csRun(t, s)
		csEmit(out, cs, s, r, "corpus")
	}
}


// csGenerate enumerates the scenarios of one run (see engines/clientstream.json "rule").
func csGenerate(emit func(*csScenario, string)) {
	thorough := verifThorough()
	limit := -1
	if v := os.Getenv("VERIF_CASES"); v != "" {
		if n, err := strconv.Atoi(v); err == nil {
			limit = n
		}
	}
	count := 0
	chunkRng := verifRng(77)
	put := func(s *csScenario, fam string) {
		if limit >= 0 && count >= limit {
			return
		}
		count++
		// chunking of the body does not belong to the scenario; vary it with the seed
		switch chunkRng.Intn(4) {
		case 0:
			s.chunk = 1
		case 1:
			s.chunk = 1 + chunkRng.Intn(40)
		default:
			s.chunk = 0
		}
		emit(s, fam)
	}
	if limit >= 0 {
		// $VERIF_CASES (the orchestrator's search for a failing input): that many random scenarios only
		for i := 0; i < limit; i++ {
			put(csRandom(verifRng(int64(900000+i))), "r")
		}
		return
	}
	finalOf := func(kind string) csAttempt {
		if kind == "sa" {
			return csAttempt{kind: "ok", cut: 1 << 20, term: "hang"}
		}
		return csAttempt{kind: "ok", cut: 1 << 20, term: "eof"}
	}
	terms := []string{"eof", "err"}
	// Under C01 this stream is asked one thing only - the pending call never stays blocked and gets no answer
	// but its own -: the same families on a sample.
	c01 := os.Getenv("VERIF_PROPERTY") == "C01"

	// ---- family x: EVERY byte offset of the base stream x {eof, err} x reconnect outcomes
	for _, kind := range []string{"post", "sa"} {
		base := &csScenario{kind: kind, log: csBaseLog(kind)}
		total := len(base.full())
		rest := finalOf(kind)
		scripts := [][]csAttempt{
			{rest},
			{{kind: "terr"}, rest},
			{{kind: "terr"}, {kind: "terr"}, rest},
			{{kind: "st", status: 503}, rest},
			{{kind: "st", status: 404}, rest},
			{{kind: "st", status: 400}, rest},
			{{kind: "ok", cut: 0, term: "eof"}, rest},
			{{kind: "ok", cut: 0, term: "err"}, {kind: "terr"}, rest},
		}
		for cut := 0; cut <= total; cut++ {
			if c01 && cut%3 != 0 {
				continue
			}
			for _, term := range terms {
				for _, sc := range scripts {
					put(&csScenario{kind: kind, mr: 2, log: base.log, first: csAttempt{kind: "ok", cut: cut, term: term}, script: sc}, "x"+kind)
				}
			}
		}
	}

	// ---- family g: a call stream is cut and resumed WHILE another stream of the connection is reconnecting (its
	// GET accepted, not answered): every event boundary and one offset inside every event x {eof, err} x the
	// reconnect scripts of family x, MaxRetries 0 (= default), 1, 2.
	{
		base := &csScenario{kind: "post", log: csBaseLog("post")}
		total := len(base.full())
		off := base.offsets()
		rest := finalOf("post")
		scripts := [][]csAttempt{
			{rest},
			{{kind: "terr"}, rest},
			{{kind: "st", status: 503}, rest},
			{{kind: "st", status: 404}, rest},
			{{kind: "ok", cut: 0, term: "eof"}, rest},
			{{kind: "ok", cut: off[2] - off[1], term: "err"}, {kind: "terr"}, rest},
		}
		var cuts []int
		for i := 0; i < len(off); i++ {
			cuts = append(cuts, off[i])
			if i+1 < len(off) {
				cuts = append(cuts, (off[i]+off[i+1])/2)
			}
		}
		_ = total
		gi := 0
		for _, cut := range cuts {
			for _, term := range terms {
				for si, sc := range scripts {
					gi++
					if c01 && si%2 == 1 {
						continue
					}
					put(&csScenario{kind: "post", mr: gi % 3, log: base.log, first: csAttempt{kind: "ok", cut: cut, term: term}, script: sc, bg: "sahang"}, "g")
				}
			}
		}
	}

	// ---- family g2: TWO call streams cut at once, each reconnecting, the second one's resumption slow (30 s): every
	// event boundary and one offset inside every event x {eof, err} x 4 reconnect scripts that do not fail the connection
	{
		base := &csScenario{kind: "post", log: csBaseLog("post")}
		off := base.offsets()
		rest := finalOf("post")
		scripts := [][]csAttempt{
			{rest},
			{{kind: "terr"}, rest},
			{{kind: "ok", cut: 0, term: "eof"}, rest},
			{{kind: "ok", cut: off[2] - off[1], term: "err"}, {kind: "terr"}, rest},
		}
		gi := 0
		for i := 0; i < len(off); i++ {
			cuts := []int{off[i]}
			if i+1 < len(off) {
				cuts = append(cuts, (off[i]+off[i+1])/2)
			}
			for _, cut := range cuts {
				for _, term := range terms {
					for si, sc := range scripts {
						gi++
						if c01 && si%2 == 1 {
							continue
						}
						put(&csScenario{kind: "post", mr: []int{0, 2, 3}[gi%3], log: base.log, first: csAttempt{kind: "ok", cut: cut, term: term}, script: sc, bg: "call"}, "g2")
					}
				}
			}
		}
	}

	// ---- family d: two cuts. quick: a seeded sample of first cuts x EVERY second offset; thorough: a two-event
	// stream with EVERY pair of offsets, plus a larger sample on the base stream.
	if !c01 {
		rng := verifRng(101)
		for _, kind := range []string{"post", "sa"} {
			log := csBaseLog(kind)
			if thorough {
				log = csSmallLog(kind)
			}
			base := &csScenario{kind: kind, log: log}
			total := len(base.full())
			off := base.offsets()
			var firsts []int
			if thorough {
				for c := 0; c <= total; c++ {
					firsts = append(firsts, c)
				}
			} else {
				firsts = append(firsts, off[1:len(off)-1]...)
				for i := 0; i < 3; i++ {
					firsts = append(firsts, rng.Intn(total))
				}
			}
			rest := finalOf(kind)
			for _, c1 := range firsts {
				// where a correct client resumes: after the last complete item with an id
				from := 0
				for i := range log {
					if off[i+1] <= c1 && !log[i].raw && log[i].id != "" {
						from = i + 1
					}
				}
				remain := total - off[from]
				for c2 := 0; c2 <= remain; c2++ {
					for _, t1 := range terms {
						for _, t2 := range terms {
							if !thorough && t1 != t2 && c2%2 == 0 {
								continue
							}
							put(&csScenario{kind: kind, mr: 2, log: log, first: csAttempt{kind: "ok", cut: c1, term: t1},
								script: []csAttempt{{kind: "ok", cut: c2, term: t2}, rest}}, "d"+kind)
						}
					}
				}
			}
		}
		if thorough {
			for _, kind := range []string{"post", "sa"} {
				log := csBaseLog(kind)
				base := &csScenario{kind: kind, log: log}
				total := len(base.full())
				rest := finalOf(kind)
				for i := 0; i < 20000; i++ {
					c1, c2, c3 := rng.Intn(total+1), rng.Intn(total+1), rng.Intn(total+1)
					put(&csScenario{kind: kind, mr: 1 + rng.Intn(3), log: log, first: csAttempt{kind: "ok", cut: c1, term: terms[rng.Intn(2)]},
						script: []csAttempt{{kind: "ok", cut: c2, term: terms[rng.Intn(2)]}, {kind: "ok", cut: c3, term: terms[rng.Intn(2)]}, rest}}, "d"+kind)
				}
			}
		}
	}

	// ---- family b: the retry budget. ALL sequences over {T transport error, E empty body, P one more event then a
	// cut} up to a length beyond the budget, optionally ended by a status; MaxRetries 1 and 2 (and 3 in thorough).
	{
		maxLen := 5
		mrs := []int{1, 2}
		if thorough {
			maxLen = 7
			mrs = []int{1, 2, 3}
		}
		if c01 {
			maxLen, mrs = maxLen-1, []int{2}
		}
		for _, kind := range []string{"post", "sa"} {
			log := csLongLog(kind)
			base := &csScenario{kind: kind, log: log}
			off := base.offsets()
			evLen := off[2] - off[1] // every notification of the long log has the same length
			rest := finalOf(kind)
			var seqs [][]byte
			var rec func(cur []byte)
			rec = func(cur []byte) {
				seqs = append(seqs, append([]byte(nil), cur...))
				if len(cur) == maxLen {
					return
				}
				for _, c := range []byte("TEP") {
					rec(append(cur, c))
				}
			}
			rec(nil)
			k := 0
			for _, mr := range mrs {
				for _, sq := range seqs {
					k++
					var sc []csAttempt
					for _, c := range sq {
						switch c {
						case 'T':
							// every third scenario uses the timeout-kind faults instead of plain errors
							sub := ""
							if k%3 == 0 {
								sub = csTerrSubs[(k/3+len(sc))%len(csTerrSubs)]
							}
							sc = append(sc, csAttempt{kind: "terr", sub: sub})
						case 'E':
							sc = append(sc, csAttempt{kind: "ok", cut: 0, term: terms[k%2]})
						case 'P':
							sc = append(sc, csAttempt{kind: "ok", cut: evLen, term: terms[(k/2)%2]})
						}
					}
					tail := []csAttempt{rest}
					switch k % 5 {
					case 1:
						tail = []csAttempt{{kind: "st", status: []int{503, 404, 400, 500, 429, 502, 504, 403}[(k/5)%8]}, rest}
					}
					// first body: the priming event and one notification, then a cut
					put(&csScenario{kind: kind, mr: mr, log: log, first: csAttempt{kind: "ok", cut: off[2], term: terms[(k/3)%2]}, script: append(sc, tail...)}, "b"+kind)
				}
			}
		}
	}

	// ---- family n: a server without event ids (nothing is resumable): every offset
	for _, kind := range []string{"post", "sa"} {
		log := []csItem{{data: csNotif(1), label: "n1"}, {name: "message", data: csNotif(2), label: "n2"}}
		if kind == "post" {
			log = append(log, csItem{data: csResp(), label: "r"})
		}
		base := &csScenario{kind: kind, log: log}
		total := len(base.full())
		for cut := 0; cut <= total; cut++ {
			for _, term := range terms {
				for _, mr := range []int{2, -1} {
					if mr == -1 && cut%4 != 0 {
						continue
					}
					put(&csScenario{kind: kind, mr: mr, log: log, first: csAttempt{kind: "ok", cut: cut, term: term},
						script: []csAttempt{{kind: "ok", cut: 1 << 20, term: "eof"}, finalOf(kind)}}, "n"+kind)
				}
			}
		}
	}

	// ---- family h: the server's retry hint (SSE `retry:`), every offset of a stream whose events carry hints
	for _, kind := range []string{"post", "sa"} {
		log := []csItem{
			{id: "h_0", retry: "2500", data: "", label: "-"},
			{id: "h_1", data: csNotif(1), label: "n1"},
			{name: "close", retry: "40", data: "", label: "-"},
		}
		if kind == "post" {
			log = append(log, csItem{id: "h_2", data: csResp(), label: "r"})
		} else {
			log = append(log, csItem{id: "h_2", data: csNotif(2), label: "n2"})
		}
		base := &csScenario{kind: kind, log: log}
		total := len(base.full())
		for cut := 0; cut <= total; cut++ {
			for _, term := range terms {
				put(&csScenario{kind: kind, mr: 2, log: log, first: csAttempt{kind: "ok", cut: cut, term: term}, script: []csAttempt{finalOf(kind)}}, "h"+kind)
			}
		}
	}

	// ---- family t: fault KINDS of the reconnect attempts. A sample of cuts of the base stream (every event
	// boundary and two offsets inside every event) x {eof, err} x scripts whose failed attempts are genuine
	// timeout-kind errors (they answer errors.Is(context.DeadlineExceeded) / Is(context.Canceled) although the
	// caller's context is live), within and beyond the budget; and the controls: the caller's own context is
	// cancelled / times out (call streams), after which no further attempt may be made.
	for _, kind := range []string{"post", "sa"} {
		base := &csScenario{kind: kind, log: csBaseLog(kind)}
		off := base.offsets()
		rest := finalOf(kind)
		var cuts []int
		for i := 1; i < len(off); i++ {
			cuts = append(cuts, off[i])
			if i < len(off)-1 {
				w := off[i+1] - off[i]
				cuts = append(cuts, off[i]+1+w/3, off[i]+w-1)
			}
		}
		te := func(sub string) csAttempt { return csAttempt{kind: "terr", sub: sub} }
		var scripts [][]csAttempt
		for _, sub := range csTerrSubs[1:] {
			scripts = append(scripts, []csAttempt{te(sub), rest})
		}
		scripts = append(scripts,
			[]csAttempt{te("hdrto"), te("dialto"), rest},
			[]csAttempt{te(""), te("clito"), rest},
			[]csAttempt{te("canc"), te("refused"), rest},
			[]csAttempt{te("dialto"), {kind: "ok", cut: 0, term: "eof"}, te("hdrto"), te("clito"), rest},
			[]csAttempt{te("dialto"), te("hdrto"), te("clito"), rest}, // mr = 3: one more than the budget
			[]csAttempt{te("canc"), te("canc"), te("canc"), rest},
		)
		if kind == "post" {
			cx := func(sub string) csAttempt { return csAttempt{kind: "ctx", sub: sub} }
			scripts = append(scripts,
				[]csAttempt{cx("c"), rest},
				[]csAttempt{cx("d"), rest},
				[]csAttempt{cx("w"), rest},
				[]csAttempt{te("dialto"), cx("c"), rest},
				[]csAttempt{te("hdrto"), cx("w"), rest},
				[]csAttempt{te(""), cx("d"), rest},
				[]csAttempt{{kind: "ok", cut: 0, term: "err"}, cx("w"), rest},
			)
		}
		for ci, cut := range cuts {
			for ti, term := range terms {
				for si, sc := range scripts {
					if !thorough && (ci+ti+si)%2 == 1 && len(sc) > 2 {
						continue
					}
					put(&csScenario{kind: kind, mr: 3, log: base.log, first: csAttempt{kind: "ok", cut: cut, term: term}, script: sc}, "t"+kind)
				}
			}
		}
	}

	// ---- family f: answers to the resumption GET that the SDK's own server never gives (a foreign server):
	// refusals 405 / 400 / 401 / 403 / 406, 3xx without a Location, 204, 200 with application/json, 200 with an
	// empty or event-less SSE body. Each must end in a failed call (never a hang) or, for the event-less 2xx
	// bodies within the budget, in a correct resume.
	for _, kind := range []string{"post", "sa"} {
		base := &csScenario{kind: kind, log: csBaseLog(kind)}
		off := base.offsets()
		rest := finalOf(kind)
		var answers []csAttempt
		for _, c := range []int{405, 400, 401, 403, 406, 300, 301, 304} {
			answers = append(answers, csAttempt{kind: "st", status: c})
		}
		for _, v := range []string{"204", "json", "jsonl", "ssejson"} {
			answers = append(answers, csAttempt{kind: "fj", sub: v, term: "eof"})
		}
		answers = append(answers, csAttempt{kind: "fj", sub: "json", term: "err"}, csAttempt{kind: "ok", cut: 0, term: "eof"})
		var cuts []int
		for i := 1; i < len(off); i++ {
			cuts = append(cuts, off[i])
			if i < len(off)-1 {
				cuts = append(cuts, off[i]+(off[i+1]-off[i])/2)
			}
		}
		for ci, cut := range cuts {
			for ti, term := range terms {
				for ai, a := range answers {
					if !thorough && (ci+ti+ai)%2 == 1 {
						continue
					}
					put(&csScenario{kind: kind, mr: 2, log: base.log, first: csAttempt{kind: "ok", cut: cut, term: term}, script: []csAttempt{a, rest}}, "f"+kind)
					if a.kind != "st" {
						// beyond the budget: three event-less answers in a row
						put(&csScenario{kind: kind, mr: 2, log: base.log, first: csAttempt{kind: "ok", cut: cut, term: term}, script: []csAttempt{a, a, a, rest}}, "f"+kind)
						put(&csScenario{kind: kind, mr: 2, log: base.log, first: csAttempt{kind: "ok", cut: cut, term: term}, script: []csAttempt{a, {kind: "terr", sub: "hdrto"}, a, rest}}, "f"+kind)
					}
				}
			}
		}
	}

	// ---- family r: random streams, cuts, scripts and budgets
	{
		n := 2500
		if thorough {
			n = 60000
		}
		if c01 {
			n = n / 3
		}
		for i := 0; i < n; i++ {
			rng := verifRng(int64(5000 + i))
			put(csRandom(rng), "r")
		}
	}
}

// csSmallLog: two items (thorough: every pair of offsets).
func csSmallLog(kind string) []csItem {
	if kind == "sa" {
		return []csItem{{id: "_1", data: csNotif(1), label: "n1"}, {id: "_2", data: csNotif(2), label: "n2"}}
	}
	return []csItem{{id: "a_1", data: csNotif(1), label: "n1"}, {id: "a_2", data: csResp(), label: "r"}}
}

// csLongLog: a priming event, eight notifications of equal length, then (post) the response.
func csLongLog(kind string) []csItem {
	log := []csItem{{id: "b_0", data: "", label: "-"}}
	for k := 1; k <= 8; k++ {
		log = append(log, csItem{id: fmt.Sprintf("b_%d", k), data: csNotif(k), label: fmt.Sprintf("n%d", k)})
	}
	if kind == "post" {
		log = append(log, csItem{id: "b_9", data: csResp(), label: "r"})
	}
	return log
}

func csRandom(rng *rand.Rand) *csScenario {
	kind := []string{"post", "sa"}[rng.Intn(2)]
	s := &csScenario{kind: kind, mr: []int{-1, 0, 1, 1, 2, 2, 3, 7}[rng.Intn(8)]}
	withIDs := rng.Intn(6) != 0
	nItems := rng.Intn(6)
	k := 0
	for i := 0; i < nItems; i++ {
		// a faithful server with an event store gives every message an id; only events that carry no
		// message (comments, close/ping events) may lack one
		id, optID := "", ""
		if withIDs {
			id = fmt.Sprintf("%c_%d", "rsq"[rng.Intn(3)], i)
			if rng.Intn(3) != 0 {
				optID = id
			}
		}
		switch r := rng.Intn(12); {
		case r == 0:
			s.log = append(s.log, csItem{raw: true, data: []string{": ok\n\n", ": ping\n\n", ":\n\n", ": a: b\n: c\n\n"}[rng.Intn(4)], label: "-"})
		case r == 1:
			s.log = append(s.log, csItem{id: id, data: "", label: "-"}) // priming
		case r == 2:
			s.log = append(s.log, csItem{name: []string{"close", "ping", "other"}[rng.Intn(3)], id: optID, retry: []string{"", "1500", "0", "-5", "abc", "12x", "+30", "99999999999999999999"}[rng.Intn(8)], data: []string{"", "x", csNotif(9)}[rng.Intn(3)], label: "-"})
		case r == 3:
			k++
			s.log = append(s.log, csItem{name: "message", id: id, retry: []string{"", "700", "junk"}[rng.Intn(3)], data: csNotif(k), label: fmt.Sprintf("n%d", k)})
		default:
			k++
			s.log = append(s.log, csItem{id: id, data: csNotif(k), label: fmt.Sprintf("n%d", k)})
		}
	}
	if kind == "post" && rng.Intn(8) != 0 {
		id := ""
		if withIDs {
			id = "z_9"
		}
		s.log = append(s.log, csItem{id: id, data: csResp(), label: "r"})
	}
	total := len(s.full())
	off := s.offsets()
	cutAt := func() int {
		switch rng.Intn(4) {
		case 0:
			return off[rng.Intn(len(off))]
		case 1:
			return 1 << 20
		}
		return rng.Intn(total + 2)
	}
	term := func() string { return []string{"eof", "err"}[rng.Intn(2)] }
	s.first = csAttempt{kind: "ok", cut: cutAt(), term: term()}
	for i, n := 0, rng.Intn(7); i < n; i++ {
		switch r := rng.Intn(12); {
		case r < 2:
			s.script = append(s.script, csAttempt{kind: "terr"})
		case r < 4:
			s.script = append(s.script, csAttempt{kind: "terr", sub: csTerrSubs[rng.Intn(len(csTerrSubs))]})
		case r < 5:
			s.script = append(s.script, csAttempt{kind: "st", status: []int{503, 404, 400, 500, 429, 502, 504, 403, 405, 401, 406, 300, 301, 304}[rng.Intn(14)]})
		case r < 6:
			s.script = append(s.script, csAttempt{kind: "fj", sub: []string{"204", "json", "jsonl", "ssejson"}[rng.Intn(4)], term: term()})
		case r < 7 && kind == "post" && rng.Intn(2) == 0:
			s.script = append(s.script, csAttempt{kind: "ctx", sub: []string{"c", "d", "w"}[rng.Intn(3)]})
		default:
			s.script = append(s.script, csAttempt{kind: "ok", cut: cutAt(), term: term()})
		}
	}
	if kind == "sa" {
		s.script = append(s.script, csAttempt{kind: "ok", cut: 1 << 20, term: "hang"})
	} else if rng.Intn(3) != 0 {
		s.script = append(s.script, csAttempt{kind: "ok", cut: 1 << 20, term: "eof"})
	}
	if kind == "post" && s.mr >= 0 && rng.Intn(4) == 0 {
		s.bg = "sahang" // another stream of the connection is reconnecting meanwhile (MaxRetries -1: its first fruitless body fails the connection)
	}
	return s
}
