// E2 (wire) correspondence harness, package mcp: the real content (un)marshalling, json.Marshal /
// Unmarshal of every params/result type reachable from the method tables, results as the SDK sends
// them (zero-valued handler results with nil lists, handlers returning (nil, nil) — in a child
// process —, raw Server.AddTool handlers returning every combination of nil/empty/non-empty Content x
// nil/non-nil StructuredContent x IsError on legacy and current sessions), ioConn read/write with
// batches (frames also in foreign string spellings) over an
// in-memory stream, writeEvent/scanEvents, and byte-level fuzz of the decoders.
// Streams: TestVerifWireMcp (C19), TestVerifWireBatch (C02: ioConn batch bookkeeping; C03: order in which
// Read hands the messages of a batch out). The frame ops (io.rb, h.post, live.io, live.cli), the decode
// fuzz of the protocol types (r.fuzz, r.case, r.irm) and the child-process runner are in zz_verif_wire2_test.go.
package mcp

import (
	"bufio"
	"bytes"
	"context"
	"encoding/base64"
	"encoding/json"
	"errors"
	"fmt"
	"io"
	"math/big"
	"math/rand"
	"net/http/httptest"
	"os"
	"os/exec"
	"path/filepath"
	"reflect"
	"sort"
	"strconv"
	"strings"
	"sync"
	"sync/atomic"
	"testing"
	"time"
	"unicode"
	"unicode/utf8"

	"github.com/modelcontextprotocol/go-sdk/internal/jsonrpc2"
	"github.com/modelcontextprotocol/go-sdk/jsonrpc"
)

// ------------------------------------------------------------------ jv <-> Go values

func (v jv) goAny() any {
	switch v.k {
	case 'z':
		return nil
	case 't':
		return true
	case 'f':
		return false
	case 'i':
		n, _ := new(big.Int).SetString(v.n, 10)
		f, _ := new(big.Float).SetInt(n).Float64()
		return f
	case 'd':
		f, _ := strconv.ParseFloat(v.n, 64)
		return f
	case 's':
		return v.s
	case 'a':
		out := make([]any, len(v.a))
		for i, x := range v.a {
			out[i] = x.goAny()
		}
		return out
	case 'o':
		out := map[string]any{}
		for _, m := range v.o {
			out[m.k] = m.v.goAny()
		}
		return out
	}
	return nil
}

func (v jv) goMap() map[string]any {
	if v.k != 'o' || len(v.o) == 0 {
		return nil
	}
	return v.goAny().(map[string]any)
}

func marshalTok(x any) string {
	b, err := json.Marshal(x)
	if err != nil {
		return "marshal-error"
	}
	return tokJSON(b)
}

func metaTok(m map[string]any) string {
	if len(m) == 0 {
		return "o{ }"
	}
	return marshalTok(m)
}

// ------------------------------------------------------------------ content tokens

func annTok(a *Annotations) string {
	if a == nil {
		return "-"
	}
	return marshalTok(a)
}

func b64(b []byte) string { return base64.StdEncoding.EncodeToString(b) }

func contentTok(c Content) string {
	switch c := c.(type) {
	case *TextContent:
		return fmt.Sprintf("T s%s %s %s", hxs(c.Text), metaTok(c.Meta), annTok(c.Annotations))
	case *ImageContent:
		return fmt.Sprintf("I s%s s%s %s %s", hxs(b64(c.Data)), hxs(c.MIMEType), metaTok(c.Meta), annTok(c.Annotations))
	case *AudioContent:
		return fmt.Sprintf("A s%s s%s %s %s", hxs(b64(c.Data)), hxs(c.MIMEType), metaTok(c.Meta), annTok(c.Annotations))
	case *ResourceLink:
		sz := "-"
		if c.Size != nil {
			sz = fmt.Sprintf("i%d", *c.Size)
		}
		ic := "a[ ]"
		if len(c.Icons) > 0 {
			ic = marshalTok(c.Icons)
		}
		return fmt.Sprintf("L s%s s%s s%s s%s s%s %s %s %s %s", hxs(c.URI), hxs(c.Name), hxs(c.Title), hxs(c.Description), hxs(c.MIMEType), sz, metaTok(c.Meta), annTok(c.Annotations), ic)
	case *EmbeddedResource:
		res := "-"
		if c.Resource != nil {
			res = marshalTok(c.Resource)
		}
		return fmt.Sprintf("R %s %s %s", res, metaTok(c.Meta), annTok(c.Annotations))
	case *ToolUseContent:
		return fmt.Sprintf("U s%s s%s %s %s", hxs(c.ID), hxs(c.Name), metaTok(c.Input), metaTok(c.Meta))
	case *ToolResultContent:
		st := "-"
		if c.StructuredContent != nil {
			st = marshalTok(c.StructuredContent)
		}
		ie := "0"
		if c.IsError {
			ie = "1"
		}
		return fmt.Sprintf("X s%s %s %s %s %s", hxs(c.ToolUseID), contentsTok(c.Content), st, ie, metaTok(c.Meta))
	}
	return "?"
}

func contentsTok(cs []Content) string {
	parts := []string{"("}
	for _, c := range cs {
		parts = append(parts, contentTok(c))
	}
	return strings.Join(append(parts, ")"), " ")
}

func (p *tokStream) meta() (map[string]any, bool) {
	v, ok := p.jv()
	if !ok || v.k != 'o' {
		return nil, false
	}
	return v.goMap(), true
}

func (p *tokStream) ann() (*Annotations, bool) {
	v, ok := p.ojv()
	if !ok {
		return nil, false
	}
	if v == nil {
		return nil, true
	}
	a := new(Annotations)
	if err := json.Unmarshal([]byte(v.text()), a); err != nil {
		return nil, false
	}
	return a, true
}

func (p *tokStream) b64() ([]byte, bool) {
	s, ok := p.str()
	if !ok {
		return nil, false
	}
	b, err := base64.StdEncoding.DecodeString(s)
	return b, err == nil
}

func (p *tokStream) content() (Content, bool) {
	switch p.next() {
	case "T":
		t, ok1 := p.str()
		m, ok2 := p.meta()
		a, ok3 := p.ann()
		return &TextContent{Text: t, Meta: m, Annotations: a}, ok1 && ok2 && ok3
	case "I":
		d, ok1 := p.b64()
		mt, ok2 := p.str()
		m, ok3 := p.meta()
		a, ok4 := p.ann()
		return &ImageContent{Data: d, MIMEType: mt, Meta: m, Annotations: a}, ok1 && ok2 && ok3 && ok4
	case "A":
		d, ok1 := p.b64()
		mt, ok2 := p.str()
		m, ok3 := p.meta()
		a, ok4 := p.ann()
		return &AudioContent{Data: d, MIMEType: mt, Meta: m, Annotations: a}, ok1 && ok2 && ok3 && ok4
	case "L":
		var s [5]string
		ok := true
		for i := range s {
			var o bool
			s[i], o = p.str()
			ok = ok && o
		}
		var size *int64
		if t := p.next(); t != "-" {
			n, err := strconv.ParseInt(strings.TrimPrefix(t, "i"), 10, 64)
			if err != nil {
				return nil, false
			}
			size = &n
		}
		m, ok2 := p.meta()
		a, ok3 := p.ann()
		icv, ok4 := p.jv()
		var icons []Icon
		if ok4 && len(icv.a) > 0 {
			if err := json.Unmarshal([]byte(icv.text()), &icons); err != nil {
				return nil, false
			}
		}
		return &ResourceLink{URI: s[0], Name: s[1], Title: s[2], Description: s[3], MIMEType: s[4], Size: size, Meta: m, Annotations: a, Icons: icons}, ok && ok2 && ok3 && ok4
	case "R":
		rv, ok1 := p.ojv()
		var res *ResourceContents
		if rv != nil {
			res = new(ResourceContents)
			if err := json.Unmarshal([]byte(rv.text()), res); err != nil {
				return nil, false
			}
		}
		m, ok2 := p.meta()
		a, ok3 := p.ann()
		return &EmbeddedResource{Resource: res, Meta: m, Annotations: a}, ok1 && ok2 && ok3
	case "U":
		id, ok1 := p.str()
		n, ok2 := p.str()
		in, ok3 := p.meta()
		m, ok4 := p.meta()
		return &ToolUseContent{ID: id, Name: n, Input: in, Meta: m}, ok1 && ok2 && ok3 && ok4
	case "X":
		tid, ok1 := p.str()
		cs, ok2 := p.contents()
		st, ok3 := p.ojv()
		var stv any
		if st != nil {
			stv = st.goAny()
		}
		ie := p.next() == "1"
		m, ok4 := p.meta()
		return &ToolResultContent{ToolUseID: tid, Content: cs, StructuredContent: stv, IsError: ie, Meta: m}, ok1 && ok2 && ok3 && ok4
	}
	return nil, false
}

// contents parses "( c c … )"; the result is a non-nil slice.
func (p *tokStream) contents() ([]Content, bool) {
	if p.next() != "(" {
		return nil, false
	}
	out := []Content{}
	for p.peek() != ")" {
		if p.done() {
			return nil, false
		}
		c, ok := p.content()
		if !ok {
			return nil, false
		}
		out = append(out, c)
	}
	p.next()
	return out, true
}

func contentErrTok(err error) string {
	s := err.Error()
	switch {
	case strings.Contains(s, "nil content"):
		return "err nil"
	case strings.Contains(s, "invalid content type"):
		return "err notallowed"
	case strings.Contains(s, "unrecognized content type"):
		return "err unrecognized"
	}
	return "err unmarshal"
}

// wrapper types in which content is decoded
func wrapEncode(ctx string, cs []Content) (any, bool) {
	one := func() Content {
		if len(cs) == 1 {
			return cs[0]
		}
		return nil
	}
	switch ctx {
	case "tool":
		return &CallToolResult{Content: cs}, true
	case "prompt":
		return &PromptMessage{Content: one(), Role: "user"}, len(cs) == 1
	case "samp":
		return &SamplingMessage{Content: one(), Role: "user"}, len(cs) == 1
	case "sampv2":
		return &SamplingMessageV2{Content: cs, Role: "user"}, true
	case "cmr":
		return &CreateMessageResult{Content: one(), Model: "m", Role: "assistant"}, len(cs) == 1
	case "cmwt":
		return &CreateMessageWithToolsResult{Content: cs, Model: "m", Role: "assistant"}, true
	}
	return nil, false
}

func wrapDecode(ctx string, data []byte) ([]Content, error) {
	switch ctx {
	case "tool":
		var w CallToolResult
		err := json.Unmarshal(data, &w)
		return w.Content, err
	case "prompt":
		var w PromptMessage
		err := json.Unmarshal(data, &w)
		return []Content{w.Content}, err
	case "samp":
		var w SamplingMessage
		err := json.Unmarshal(data, &w)
		return []Content{w.Content}, err
	case "sampv2":
		var w SamplingMessageV2
		err := json.Unmarshal(data, &w)
		return w.Content, err
	case "cmr":
		var w CreateMessageResult
		err := json.Unmarshal(data, &w)
		return []Content{w.Content}, err
	case "cmwt":
		var w CreateMessageWithToolsResult
		err := json.Unmarshal(data, &w)
		return w.Content, err
	}
	return nil, fmt.Errorf("bad ctx")
}

// ------------------------------------------------------------------ type registry (method tables)

var (
	wireTypesOnce sync.Once
	wireTypes     map[string]reflect.Type // name -> struct type (values are *T)
	wireTypeNames []string
)

func wireRegistry() (map[string]reflect.Type, []string) {
	wireTypesOnce.Do(func() {
		wireTypes = map[string]reflect.Type{}
		add := func(x any) {
			if x == nil {
				return
			}
			t := reflect.TypeOf(x)
			if t.Kind() == reflect.Pointer && t.Elem().Kind() == reflect.Struct {
				wireTypes[t.Elem().Name()] = t.Elem()
			}
		}
		for _, infos := range []map[string]methodInfo{serverMethodInfos, clientMethodInfos} {
			for _, info := range infos {
				func() {
					defer func() { recover() }()
					if p, err := info.unmarshalParams(json.RawMessage(`{}`)); err == nil {
						add(p)
					}
				}()
				func() {
					defer func() { recover() }()
					add(info.newResult())
				}()
			}
		}
		// types that occur behind interfaces / alternative shapes of the same methods
		for _, x := range []any{&CreateMessageParams{}, &CreateMessageResult{}, &CreateMessageWithToolsParams{}, &CreateMessageWithToolsResult{},
			&SamplingMessage{}, &SamplingMessageV2{}, &PromptMessage{}, &CallToolParamsRaw{}, &ElicitResult{}, &ListRootsResult{}} {
			add(x)
		}
		for n := range wireTypes {
			wireTypeNames = append(wireTypeNames, n)
		}
		sort.Strings(wireTypeNames)
	})
	return wireTypes, wireTypeNames
}

// ------------------------------------------------------------------ reflective value generator

type rgen struct{ r *rand.Rand }

var (
	contentIface  = reflect.TypeOf((*Content)(nil)).Elem()
	anyIface      = reflect.TypeOf((*any)(nil)).Elem()
	inputReqIface = reflect.TypeOf((*InputRequest)(nil)).Elem()
	inputResIface = reflect.TypeOf((*InputResponse)(nil)).Elem()
	rawMsgType    = reflect.TypeOf(json.RawMessage(nil))
)

var allKinds = []string{"text", "image", "audio", "resource_link", "resource", "tool_use", "tool_result"}

func allowFor(owner string) []string {
	switch owner {
	case "SamplingMessage", "SamplingMessageV2":
		return []string{"text", "image", "audio", "tool_use", "tool_result"}
	case "CreateMessageResult":
		return []string{"text", "image", "audio"}
	case "CreateMessageWithToolsResult":
		return []string{"text", "image", "audio", "tool_use"}
	case "ToolResultContent":
		return []string{"text", "image", "audio", "resource_link", "resource"}
	}
	return allKinds
}

func (g *rgen) optMeta() map[string]any {
	if g.r.Intn(3) > 0 {
		return nil
	}
	return genSafeObj(g.r, 1, 1+g.r.Intn(2)).goMap()
}

func (g *rgen) optAnn() *Annotations {
	switch g.r.Intn(5) {
	case 0:
		return &Annotations{}
	case 1:
		return &Annotations{Audience: []Role{"user", "assistant"}[:1+g.r.Intn(2)], LastModified: "2025-01-12T15:00:58Z", Priority: 0.5}
	case 2:
		return &Annotations{Priority: 1}
	}
	return nil
}

func (g *rgen) data() []byte {
	switch g.r.Intn(4) {
	case 0:
		return nil
	case 1:
		return []byte{}
	}
	b := make([]byte, 1+g.r.Intn(7))
	g.r.Read(b)
	return b
}

func (g *rgen) maybe(s string) string {
	if g.r.Intn(3) == 0 {
		return ""
	}
	return s
}

func (g *rgen) resourceContents() *ResourceContents {
	rc := &ResourceContents{URI: g.maybe("file:///a"), MIMEType: g.maybe("text/plain"), Meta: g.optMeta()}
	switch g.r.Intn(3) {
	case 0:
		rc.Text = genStr(g.r)
	case 1:
		rc.Blob = g.data()
	}
	return rc
}

func (g *rgen) content(allow []string, depth int) Content {
	kind := allow[g.r.Intn(len(allow))]
	switch kind {
	case "text":
		return &TextContent{Text: genStr(g.r), Meta: g.optMeta(), Annotations: g.optAnn()}
	case "image":
		return &ImageContent{Data: g.data(), MIMEType: g.maybe("image/png"), Meta: g.optMeta(), Annotations: g.optAnn()}
	case "audio":
		return &AudioContent{Data: g.data(), MIMEType: g.maybe("audio/wav"), Meta: g.optMeta(), Annotations: g.optAnn()}
	case "resource_link":
		c := &ResourceLink{URI: g.maybe("file:///x"), Name: g.maybe("n"), Title: g.maybe(genStr(g.r)), Description: g.maybe("d"), MIMEType: g.maybe("text/plain"), Meta: g.optMeta(), Annotations: g.optAnn()}
		if g.r.Intn(2) == 0 {
			n := []int64{0, 1, 1 << 40, -1, 1<<63 - 1}[g.r.Intn(5)]
			c.Size = &n
		}
		if g.r.Intn(3) == 0 {
			c.Icons = []Icon{{Source: g.maybe("https://x/i.png"), MIMEType: g.maybe("image/png"), Sizes: []string{"48x48", "any"}[:g.r.Intn(3)], Theme: IconTheme(g.maybe("dark"))}}
		}
		return c
	case "resource":
		c := &EmbeddedResource{Meta: g.optMeta(), Annotations: g.optAnn()}
		if g.r.Intn(6) > 0 {
			c.Resource = g.resourceContents()
		}
		return c
	case "tool_use":
		c := &ToolUseContent{ID: g.maybe("id1"), Name: g.maybe("tool"), Meta: g.optMeta()}
		if g.r.Intn(2) == 0 {
			c.Input = genSafeObj(g.r, 1, g.r.Intn(3)).goMap()
		}
		return c
	default: // tool_result
		c := &ToolResultContent{ToolUseID: g.maybe("id1"), IsError: g.r.Intn(3) == 0, Meta: g.optMeta()}
		n := g.r.Intn(4)
		if n == 3 {
			c.Content = nil
		} else {
			c.Content = []Content{}
			for i := 0; i < n; i++ {
				c.Content = append(c.Content, g.content(allowFor("ToolResultContent"), depth-1))
			}
		}
		if g.r.Intn(3) == 0 {
			v := genSafeJ(g.r, 1)
			if v.k != 'z' {
				c.StructuredContent = v.goAny()
			}
		}
		return c
	}
}

func hasOpt(tag, opt string) bool {
	parts := strings.Split(tag, ",")
	for _, p := range parts[1:] {
		if p == opt {
			return true
		}
	}
	return false
}

// fill sets v to a random value "as the SDK would send it": members without omitempty that are
// slices or maps are non-nil; content kinds respect the allow list of the owning type.
func (g *rgen) fill(v reflect.Value, depth int, owner string, mayZero bool) {
	t := v.Type()
	switch t {
	case contentIface:
		v.Set(reflect.ValueOf(g.content(allowFor(owner), 1)))
		return
	case anyIface:
		if mayZero && g.r.Intn(2) == 0 {
			return
		}
		x := genSafeJ(g.r, 1)
		if x.k == 'z' {
			x = jStr("v")
		}
		v.Set(reflect.ValueOf(x.goAny()))
		return
	case inputReqIface:
		switch g.r.Intn(3) {
		case 0:
			v.Set(reflect.ValueOf(&ElicitParams{Mode: "form", Message: "m"}))
		case 1:
			v.Set(reflect.ValueOf(&ListRootsParams{}))
		default:
			p := &CreateMessageWithToolsParams{}
			g.fill(reflect.ValueOf(p).Elem(), depth-1, "CreateMessageWithToolsParams", false)
			v.Set(reflect.ValueOf(p))
		}
		return
	case inputResIface:
		switch g.r.Intn(3) {
		case 0:
			v.Set(reflect.ValueOf(&ElicitResult{Action: "accept"}))
		case 1:
			v.Set(reflect.ValueOf(&ListRootsResult{Roots: []*Root{{URI: "file:///r"}}}))
		default:
			v.Set(reflect.ValueOf(&CreateMessageResult{Content: &TextContent{Text: "t"}, Model: "m", Role: "assistant"}))
		}
		return
	case rawMsgType:
		if mayZero && g.r.Intn(2) == 0 {
			return
		}
		v.SetBytes([]byte(genSafeJ(g.r, 1).text()))
		return
	}
	switch t.Kind() {
	case reflect.Pointer:
		if (mayZero && g.r.Intn(2) == 0) || depth <= 0 || (!mayZero && g.r.Intn(6) == 0) {
			return
		}
		nv := reflect.New(t.Elem())
		g.fill(nv.Elem(), depth-1, owner, false)
		v.Set(nv)
	case reflect.Struct:
		for i := 0; i < t.NumField(); i++ {
			f := t.Field(i)
			if !f.IsExported() {
				continue
			}
			tag := f.Tag.Get("json")
			if tag == "-" {
				continue
			}
			zeroOK := hasOpt(tag, "omitempty") || hasOpt(tag, "omitzero")
			own := t.Name()
			if own == "" || f.Anonymous {
				own = owner
			}
			g.fill(v.Field(i), depth, own, zeroOK)
		}
		g.fixup(v)
	case reflect.Slice:
		if t.Elem().Kind() == reflect.Uint8 {
			if !(mayZero && g.r.Intn(2) == 0) {
				v.SetBytes(g.data())
			}
			return
		}
		if mayZero && g.r.Intn(2) == 0 {
			return
		}
		n := g.r.Intn(3)
		if mayZero || (t.Elem() == contentIface && owner != "CallToolResult") {
			n = 1 + g.r.Intn(2)
		}
		s := reflect.MakeSlice(t, n, n)
		for i := 0; i < n; i++ {
			g.fillElem(s.Index(i), depth-1, owner)
		}
		v.Set(s)
	case reflect.Map:
		if mayZero && g.r.Intn(2) == 0 {
			return
		}
		n := g.r.Intn(3)
		if mayZero {
			n = 1 + g.r.Intn(2)
		}
		m := reflect.MakeMap(t)
		for i := 0; i < n; i++ {
			e := reflect.New(t.Elem()).Elem()
			g.fillElem(e, depth-1, owner)
			m.SetMapIndex(reflect.ValueOf(fmt.Sprintf("k%d", i)).Convert(t.Key()), e)
		}
		v.Set(m)
	case reflect.String:
		switch t.Name() {
		case "Role":
			v.SetString([]string{"user", "assistant"}[g.r.Intn(2)])
		case "LoggingLevel":
			v.SetString([]string{"debug", "info", "warning", "error"}[g.r.Intn(4)])
		default:
			if mayZero && g.r.Intn(2) == 0 {
				return
			}
			v.SetString(genStr(g.r))
		}
	case reflect.Bool:
		v.SetBool(g.r.Intn(2) == 0)
	case reflect.Int, reflect.Int64, reflect.Int32:
		v.SetInt(int64(g.r.Intn(100)))
	case reflect.Float64:
		v.SetFloat([]float64{0, 0.5, 1, 2.25, 100}[g.r.Intn(5)])
	case reflect.Interface:
		// other interfaces stay nil
	}
}

// fillElem: elements of slices/maps are never nil pointers (a nil element is not something the SDK sends).
func (g *rgen) fillElem(v reflect.Value, depth int, owner string) {
	if v.Kind() == reflect.Pointer {
		nv := reflect.New(v.Type().Elem())
		g.fill(nv.Elem(), depth, owner, false)
		v.Set(nv)
		return
	}
	g.fill(v, depth, owner, false)
}

// fixup enforces the few value constraints the marshalers validate.
func (g *rgen) fixup(v reflect.Value) {
	switch x := v.Addr().Interface().(type) {
	case *CompleteReference:
		if g.r.Intn(2) == 0 {
			*x = CompleteReference{Type: "ref/prompt", Name: x.Name}
		} else {
			*x = CompleteReference{Type: "ref/resource", URI: x.URI}
		}
	case *ElicitParams:
		if x.URL != "" || x.ElicitationID != "" {
			x.Mode = "url"
		} else {
			x.Mode = "form"
		}
	case *ClientCapabilities:
		// #607: Roots (value) mirrors RootsV2 (pointer)
		if x.RootsV2 != nil {
			x.Roots = *x.RootsV2
		} else {
			x.Roots = RootCapabilities{}
		}
	}
}

// ------------------------------------------------------------------ results as the SDK sends them

type recConn struct {
	Connection
	mu   *sync.Mutex
	sent *[][]byte
}

func (c *recConn) Write(ctx context.Context, msg jsonrpc.Message) error {
	if r, ok := msg.(*jsonrpc.Response); ok {
		if data, err := jsonrpc2.EncodeMessage(r); err == nil {
			c.mu.Lock()
			*c.sent = append(*c.sent, data)
			c.mu.Unlock()
		}
	}
	return c.Connection.Write(ctx, msg)
}

type recTransport struct {
	Transport
	mu   sync.Mutex
	sent [][]byte
}

func (t *recTransport) Connect(ctx context.Context) (Connection, error) {
	c, err := t.Transport.Connect(ctx)
	if err != nil {
		return nil, err
	}
	return &recConn{Connection: c, mu: &t.mu, sent: &t.sent}, nil
}

func (t *recTransport) last() []byte {
	t.mu.Lock()
	defer t.mu.Unlock()
	if len(t.sent) == 0 {
		return nil
	}
	return t.sent[len(t.sent)-1]
}

type zeroWorld struct {
	cs         *ClientSession
	ss         *ServerSession
	srvT, cliT *recTransport
	variant    string
}

// newZeroWorld: variant nil/empty/emptytext = what the handlers leave in the required list;
// nilres = the handlers return (nil, nil). ver old = a 2025-11-25 session, new = the latest protocol.
func newZeroWorld(variant, ver string) (*zeroWorld, error) {
	ctx := context.Background()
	w := &zeroWorld{variant: variant}
	empty := variant == "empty" || variant == "emptytext"
	nilres := variant == "nilres"
	s := NewServer(&Implementation{Name: "s", Version: "1"}, &ServerOptions{
		CompletionHandler: func(context.Context, *CompleteRequest) (*CompleteResult, error) {
			if nilres {
				return nil, nil
			}
			r := &CompleteResult{}
			if empty {
				r.Completion.Values = []string{}
			}
			return r, nil
		},
	})
	s.AddTool(&Tool{Name: "t", InputSchema: map[string]any{"type": "object"}}, func(context.Context, *CallToolRequest) (*CallToolResult, error) {
		if nilres {
			return nil, nil
		}
		r := &CallToolResult{}
		if empty {
			r.Content = []Content{}
		}
		return r, nil
	})
	s.AddPrompt(&Prompt{Name: "p"}, func(context.Context, *GetPromptRequest) (*GetPromptResult, error) {
		if nilres {
			return nil, nil
		}
		r := &GetPromptResult{}
		if empty {
			r.Messages = []*PromptMessage{}
		}
		return r, nil
	})
	s.AddResource(&Resource{Name: "r", URI: "file:///r"}, func(context.Context, *ReadResourceRequest) (*ReadResourceResult, error) {
		if nilres {
			return nil, nil
		}
		r := &ReadResourceResult{}
		if empty {
			r.Contents = []*ResourceContents{}
		}
		if variant == "emptytext" {
			r.Contents = []*ResourceContents{{}} // an empty text file: uri and mimeType are filled in by the SDK
		}
		return r, nil
	})
	t1, t2 := NewInMemoryTransports()
	w.srvT, w.cliT = &recTransport{Transport: t1}, &recTransport{Transport: t2}
	ss, err := s.Connect(ctx, w.srvT, nil)
	if err != nil {
		return nil, err
	}
	c := NewClient(&Implementation{Name: "c", Version: "1"}, nil)
	// a legacy protocol version: the server may still send roots/list to the client
	var opts *ClientSessionOptions
	if ver != "new" {
		opts = &ClientSessionOptions{ProtocolVersion: protocolVersion20251125}
	}
	cs, err := c.Connect(ctx, w.cliT, opts)
	if err != nil {
		return nil, err
	}
	w.cs, w.ss = cs, ss
	return w, nil
}

// a second server without any feature: the list methods with empty registries
func newEmptyWorld() (*zeroWorld, error) {
	ctx := context.Background()
	w := &zeroWorld{}
	s := NewServer(&Implementation{Name: "s", Version: "1"}, &ServerOptions{HasTools: true, HasPrompts: true, HasResources: true})
	t1, t2 := NewInMemoryTransports()
	w.srvT, w.cliT = &recTransport{Transport: t1}, &recTransport{Transport: t2}
	ss, err := s.Connect(ctx, w.srvT, nil)
	if err != nil {
		return nil, err
	}
	c := NewClient(&Implementation{Name: "c", Version: "1"}, nil)
	cs, err := c.Connect(ctx, w.cliT, nil)
	if err != nil {
		return nil, err
	}
	w.cs, w.ss = cs, ss
	return w, nil
}

func (w *zeroWorld) close() {
	w.cs.Close()
	w.ss.Wait()
}

// call performs the request through the real sessions and returns the "result" member of the
// response the answering side wrote (or "error").
func (w *zeroWorld) call(method string) string {
	ctx, cancel := context.WithTimeout(context.Background(), 10*time.Second)
	defer cancel()
	side := w.srvT
	switch method {
	case "tools/list":
		w.cs.ListTools(ctx, nil)
	case "prompts/list":
		w.cs.ListPrompts(ctx, nil)
	case "resources/list":
		w.cs.ListResources(ctx, nil)
	case "resources/templates/list":
		w.cs.ListResourceTemplates(ctx, nil)
	case "tools/call":
		w.cs.CallTool(ctx, &CallToolParams{Name: "t"})
	case "prompts/get":
		w.cs.GetPrompt(ctx, &GetPromptParams{Name: "p"})
	case "completion/complete":
		w.cs.Complete(ctx, &CompleteParams{Ref: &CompleteReference{Type: "ref/prompt", Name: "p"}, Argument: CompleteParamsArgument{Name: "a", Value: "v"}})
	case "resources/read":
		w.cs.ReadResource(ctx, &ReadResourceParams{URI: "file:///r"})
	case "roots/list":
		side = w.cliT
		w.ss.ListRoots(ctx, nil)
	default:
		return "bad-op"
	}
	data := side.last()
	if data == nil {
		return "no-response"
	}
	v, err := parseJSON(data)
	if err != nil {
		return "unparsable"
	}
	if _, isErr := v.get("error"); isErr {
		return "error"
	}
	res, ok := v.get("result")
	if !ok {
		return "no-result"
	}
	return res.tok()
}

// ------------------------------------------------------------------ tools/call through a raw ToolHandler

// callWorld: a server with one tool registered with the low-level Server.AddTool; the handler returns
// whatever the current op prescribes. The result is observed as the server wrote it.
type callWorld struct {
	cs   *ClientSession
	ss   *ServerSession
	srvT *recTransport
	next func() (*CallToolResult, error)
}

func newCallWorld(ver string) (*callWorld, error) {
	ctx := context.Background()
	w := &callWorld{}
	s := NewServer(&Implementation{Name: "s", Version: "1"}, nil)
	s.AddTool(&Tool{Name: "raw", InputSchema: map[string]any{"type": "object"}}, func(context.Context, *CallToolRequest) (*CallToolResult, error) {
		return w.next()
	})
	t1, t2 := NewInMemoryTransports()
	w.srvT = &recTransport{Transport: t1}
	ss, err := s.Connect(ctx, w.srvT, nil)
	if err != nil {
		return nil, err
	}
	c := NewClient(&Implementation{Name: "c", Version: "1"}, nil)
	var opts *ClientSessionOptions
	if ver != "new" {
		opts = &ClientSessionOptions{ProtocolVersion: protocolVersion20251125}
	}
	cs, err := c.Connect(ctx, t2, opts)
	if err != nil {
		return nil, err
	}
	w.cs, w.ss = cs, ss
	return w, nil
}

func (w *callWorld) close() {
	w.cs.Close()
	w.ss.Wait()
}

func resultTok(data []byte) string {
	if data == nil {
		return "no-response"
	}
	v, err := parseJSON(data)
	if err != nil {
		return "unparsable"
	}
	if _, isErr := v.get("error"); isErr {
		return "error"
	}
	res, ok := v.get("result")
	if !ok {
		return "no-result"
	}
	return res.tok()
}

func (w *callWorld) call(next func() (*CallToolResult, error)) string {
	ctx, cancel := context.WithTimeout(context.Background(), 10*time.Second)
	defer cancel()
	w.next = next
	w.srvT.mu.Lock()
	w.srvT.sent = nil
	w.srvT.mu.Unlock()
	w.cs.CallTool(ctx, &CallToolParams{Name: "raw"})
	return resultTok(w.srvT.last())
}

// parseCall reads "<res <contents|nil> <-|any jv|raw jv> <0|1>" | "err" | "nilres" into a handler.
func (p *tokStream) toolReturn() (func() (*CallToolResult, error), bool) {
	switch p.next() {
	case "err":
		return func() (*CallToolResult, error) { return nil, errors.New("tool failed") }, true
	case "nilres":
		return func() (*CallToolResult, error) { return nil, nil }, true
	case "res":
		var cs []Content
		if p.peek() == "nil" {
			p.next()
		} else {
			var ok bool
			if cs, ok = p.contents(); !ok {
				return nil, false
			}
		}
		var sc any
		switch p.next() {
		case "-":
		case "any":
			j, ok := p.jv()
			if !ok || j.k == 'z' {
				return nil, false
			}
			sc = j.goAny()
		case "raw":
			j, ok := p.jv()
			if !ok {
				return nil, false
			}
			sc = json.RawMessage(j.text())
		default:
			return nil, false
		}
		var isErr bool
		switch p.next() {
		case "0":
		case "1":
			isErr = true
		default:
			return nil, false
		}
		return func() (*CallToolResult, error) {
			return &CallToolResult{Content: cs, StructuredContent: sc, IsError: isErr}, nil
		}, true
	}
	return nil, false
}

// inChild runs one op in a fresh process (the same test binary): a panic in a goroutine of the SDK
// cannot be recovered and would take the harness, and every record after it, away.
func inChild(op string) string {
	cmd := exec.Command(os.Args[0], "-test.run", "^TestVerifWireChild$", "-test.count=1")
	cmd.Env = append(os.Environ(), "VERIF_CHILD_OP="+op, "VERIF_CHILD_OPS=")
	out, err := cmd.CombinedOutput()
	for _, l := range strings.Split(string(out), "\n") {
		if rest, ok := strings.CutPrefix(l, "CHILD-OBS "); ok {
			return strings.TrimSpace(rest)
		}
	}
	if err != nil && strings.Contains(string(out), "panic:") {
		return "panic"
	}
	return "child-failed"
}

func TestVerifWireChild(t *testing.T) {
	op := os.Getenv("VERIF_CHILD_OP")
	if ops := os.Getenv("VERIF_CHILD_OPS"); ops != "" {
		// several ops, one observation line each (see inChildren)
		w := &wireWorld{child: true}
		for _, o := range strings.Split(ops, "\n") {
			fmt.Printf("\nCHILD-OBS %s\n", w.apply(o))
			os.Stdout.Sync()
		}
		return
	}
	if op == "" {
		t.Skip("only run as a child of the wire harness")
	}
	w := &wireWorld{child: true}
	obs := w.apply(op)
	fmt.Printf("\nCHILD-OBS %s\n", obs)
	os.Stdout.Sync()
	// the sessions are left as they are: the process ends here
}

// ------------------------------------------------------------------ ioConn over an in-memory stream

type memRWC struct {
	mu     sync.Mutex
	cond   *sync.Cond
	in     bytes.Buffer
	eof    bool
	out    bytes.Buffer
	closed bool
	// split > 1: a Writer that forwards the bytes of one Write call in that many pieces and promises
	// nothing about concurrent calls (legal for an io.Writer: a chunking / framing / compressing
	// adapter, a bufio.Writer); between two pieces it lets another Write call get into the stream
	split  int
	active atomic.Int32 // Write calls under way
	pieces atomic.Int32 // pieces put down so far
}

func newMemRWC() *memRWC {
	m := &memRWC{}
	m.cond = sync.NewCond(&m.mu)
	return m
}

func (m *memRWC) Read(p []byte) (int, error) {
	m.mu.Lock()
	defer m.mu.Unlock()
	for m.in.Len() == 0 && !m.eof && !m.closed {
		m.cond.Wait()
	}
	if m.in.Len() == 0 {
		return 0, io.EOF
	}
	return m.in.Read(p)
}

func (m *memRWC) Write(p []byte) (int, error) {
	m.mu.Lock()
	k := m.split
	if k <= 1 {
		defer m.mu.Unlock()
		return m.out.Write(p)
	}
	m.mu.Unlock()
	m.active.Add(1)
	defer m.active.Add(-1)
	n := len(p)
	for i := 0; i < k; i++ {
		m.mu.Lock()
		m.out.Write(p[n*i/k : n*(i+1)/k])
		m.mu.Unlock()
		seen := m.pieces.Add(1)
		if i+1 < k {
			// park until another Write call has put a piece down, at most 2 ms (a caller that
			// serialises its writers never lets a second call in: the time just passes)
			for dl := time.Now().Add(2 * time.Millisecond); time.Now().Before(dl); {
				if m.pieces.Load() != seen {
					break
				}
				time.Sleep(20 * time.Microsecond)
			}
		}
	}
	return n, nil
}

// concurrentWrites: every message is written by a goroutine of its own, all released together, to a
// connection whose stream forwards each Write in k pieces. Observed: the LINES of the stream afterwards,
// sorted (which writer comes first is the scheduler's choice): each as the JSON value it is, or `!<hex>`.
func (w *ioWorld) concurrentWrites(k int, msgs []jsonrpc.Message) string {
	w.rwc.takeOut()
	w.rwc.mu.Lock()
	w.rwc.split = k
	w.rwc.mu.Unlock()
	var wg sync.WaitGroup
	start := make(chan struct{})
	res := make([]string, len(msgs))
	for i, m := range msgs {
		wg.Add(1)
		go func() {
			defer wg.Done()
			defer func() {
				if r := recover(); r != nil {
					res[i] = "panic"
				}
			}()
			<-start
			if err := w.front.Write(context.Background(), m); err != nil {
				res[i] = "write-error"
			}
		}()
	}
	close(start)
	wg.Wait()
	w.rwc.mu.Lock()
	w.rwc.split = 0
	w.rwc.mu.Unlock()
	for _, r := range res {
		if r != "" {
			return r
		}
	}
	b := w.rwc.takeOut()
	var lines []string
	for len(b) > 0 {
		var l []byte
		if i := bytes.IndexByte(b, '\n'); i >= 0 {
			l, b = b[:i], b[i+1:]
		} else {
			l, b = b, nil
		}
		if v, err := parseJSON(l); err == nil && len(bytes.TrimSpace(l)) == len(l) && !bytes.ContainsAny(l, "\r") {
			lines = append(lines, v.tok())
		} else {
			lines = append(lines, "!"+hx(l))
		}
	}
	sort.Strings(lines)
	return strings.TrimSpace(fmt.Sprintf("cw %d %s", len(lines), strings.Join(lines, " ")))
}

func (m *memRWC) Close() error {
	m.mu.Lock()
	m.closed = true
	m.mu.Unlock()
	m.cond.Broadcast()
	return nil
}

func (m *memRWC) feed(b []byte, eof bool) {
	m.mu.Lock()
	m.in.Write(b)
	if eof {
		m.eof = true
	}
	m.mu.Unlock()
	m.cond.Broadcast()
}

func (m *memRWC) takeOut() []byte {
	m.mu.Lock()
	defer m.mu.Unlock()
	b := append([]byte(nil), m.out.Bytes()...)
	m.out.Reset()
	return b
}

// lockedBuf: the destination of a LoggingTransport's log
type lockedBuf struct {
	mu sync.Mutex
	b  bytes.Buffer
}

func (l *lockedBuf) Write(p []byte) (int, error) {
	l.mu.Lock()
	defer l.mu.Unlock()
	return l.b.Write(p)
}

func (l *lockedBuf) take() []byte {
	l.mu.Lock()
	defer l.mu.Unlock()
	b := append([]byte(nil), l.b.Bytes()...)
	l.b.Reset()
	return b
}

// fixedTransport hands out one prepared connection (what LoggingTransport.Connect delegates to)
type fixedTransport struct{ c Connection }

func (t fixedTransport) Connect(context.Context) (Connection, error) { return t.c, nil }

type ioWorld struct {
	rwc     *memRWC
	conn    *ioConn
	front   Connection // what the ops call: conn itself, or the LoggingTransport's connection around it
	log     *lockedBuf // non-nil: front is a logging connection writing here
	pending int  // frames fed and not yet taken by Read
	eofFed  bool // the input side has been closed after the fed frames
	eofSeen bool // Read has returned the stream's end: the reader goroutine is gone
}

func (w *ioWorld) reset(outCap int, logging bool) {
	if w.conn != nil {
		w.conn.Close()
	}
	w.rwc = newMemRWC()
	w.conn = newIOConn(w.rwc)
	w.front, w.log = w.conn, nil
	if logging {
		w.log = &lockedBuf{}
		c, err := (&LoggingTransport{Transport: fixedTransport{w.conn}, Writer: w.log}).Connect(context.Background())
		if err != nil {
			panic(err)
		}
		w.front = c
	}
	if outCap > 0 {
		w.conn.outgoingBatch = make([]jsonrpc.Message, 0, outCap)
	}
	w.pending, w.eofFed, w.eofSeen = 0, false, false
}

// message tokens (same forms as the jsonrpc2 harness)
func idTok(id jsonrpc2.ID) string {
	switch x := id.Raw().(type) {
	case nil:
		return "-"
	case int64:
		return fmt.Sprintf("i%d", x)
	case string:
		return "s" + hxs(x)
	}
	return "?"
}

func rawTok(r json.RawMessage) string {
	if len(r) == 0 {
		return "-"
	}
	return tokJSON(r)
}

func msgTok(msg jsonrpc.Message) string {
	switch m := msg.(type) {
	case *jsonrpc.Request:
		return fmt.Sprintf("req %s s%s %s", idTok(m.ID), hxs(m.Method), rawTok(m.Params))
	case *jsonrpc.Response:
		et := "-"
		if m.Error != nil {
			var we *jsonrpc2.WireError
			if errors.As(m.Error, &we) {
				et = fmt.Sprintf("e%d s%s %s", we.Code, hxs(we.Message), rawTok(we.Data))
			} else {
				et = "e0 s" + hxs(m.Error.Error()) + " -"
			}
		}
		return fmt.Sprintf("resp %s %s %s", idTok(m.ID), rawTok(m.Result), et)
	}
	return "?"
}

func rawOf(v *jv) json.RawMessage {
	if v == nil {
		return nil
	}
	return json.RawMessage(v.text())
}

func (p *tokStream) goID() (jsonrpc2.ID, bool) {
	t := p.next()
	switch {
	case t == "-":
		return jsonrpc2.ID{}, true
	case strings.HasPrefix(t, "i"):
		n, err := strconv.ParseInt(t[1:], 10, 64)
		return jsonrpc2.Int64ID(n), err == nil
	case strings.HasPrefix(t, "s"):
		s, ok := unhex(t[1:])
		return jsonrpc2.StringID(s), ok
	}
	return jsonrpc2.ID{}, false
}

func (p *tokStream) message() (jsonrpc.Message, bool) {
	switch p.next() {
	case "req":
		id, ok1 := p.goID()
		m, ok2 := p.str()
		ps, ok3 := p.ojv()
		return &jsonrpc.Request{ID: id, Method: m, Params: rawOf(ps)}, ok1 && ok2 && ok3
	case "resp":
		id, ok1 := p.goID()
		res, ok2 := p.ojv()
		resp := &jsonrpc.Response{ID: id, Result: rawOf(res)}
		if p.peek() == "-" {
			p.next()
			return resp, ok1 && ok2
		}
		t := p.next()
		code, err := strconv.ParseInt(strings.TrimPrefix(t, "e"), 10, 64)
		msg, ok3 := p.str()
		d, ok4 := p.ojv()
		resp.Error = &jsonrpc2.WireError{Code: code, Message: msg, Data: rawOf(d)}
		return resp, ok1 && ok2 && ok3 && ok4 && err == nil
	}
	return nil, false
}

func readErrTok(err error) string {
	s := err.Error()
	switch {
	case errors.Is(err, io.EOF):
		return "eof"
	case strings.Contains(s, "empty batch"):
		return "emptybatch"
	case strings.Contains(s, "batching is not supported"):
		return "nobatching"
	case strings.Contains(s, "duplicate message ID"):
		return "dup"
	case strings.Contains(s, "previously seen"):
		return "seen"
	}
	// DecodeMessage failure: same classification as the jsonrpc2 harness
	var we *jsonrpc2.WireError
	code := int64(0)
	if errors.As(err, &we) {
		code = we.Code
	}
	cls := "unmarshal"
	switch {
	case errors.Is(err, jsonrpc2.ErrInvalidRequest):
		cls = "noid"
	case errors.Is(err, jsonrpc2.ErrParse):
		cls = "idtype"
	case strings.HasPrefix(s, "invalid message version tag"):
		cls = "version"
	}
	return fmt.Sprintf("decode err %d %s", code, cls)
}

// writtenTok classifies the bytes one ioConn.Write produced.
func writtenTok(b []byte) string {
	if len(b) == 0 {
		return "nothing"
	}
	// one compact payload + LF: no raw line break inside, no blank at either end (what the framing
	// theorems assume of a payload is checked here on every frame the implementation writes)
	if b[len(b)-1] != '\n' || bytes.ContainsAny(b[:len(b)-1], "\r\n") || len(bytes.TrimSpace(b[:len(b)-1])) != len(b)-1 {
		return "badframe x" + hx(b)
	}
	v, err := parseJSON(b[:len(b)-1])
	if err != nil {
		return "badframe x" + hx(b)
	}
	if v.k == 'a' {
		parts := []string{"array"}
		for _, e := range v.a {
			parts = append(parts, e.tok())
		}
		return strings.Join(parts, " ")
	}
	return "single " + v.tok()
}

// ------------------------------------------------------------------ SSE

type sseEvt = Event

func evtTok(e Event) string {
	return fmt.Sprintf("s%s s%s s%s s%s", hxs(e.Name), hxs(e.ID), hxs(e.Retry), hx(e.Data))
}

func (p *tokStream) event() (Event, bool) {
	n, ok1 := p.str()
	i, ok2 := p.str()
	r, ok3 := p.str()
	d, ok4 := p.str()
	return Event{Name: n, ID: i, Retry: r, Data: []byte(d)}, ok1 && ok2 && ok3 && ok4
}

func scanTok(b []byte) string {
	var evs []string
	end := "ok"
	for e, err := range scanEvents(bytes.NewReader(b)) {
		if err != nil {
			if errors.Is(err, errMalformedEvent) {
				end = "malformed"
			} else {
				end = "readerr"
			}
			break
		}
		evs = append(evs, evtTok(e))
	}
	return strings.Join(append(append([]string{fmt.Sprintf("ev%d", len(evs))}, evs...), end), " ")
}

func writeEventBytes(e Event) []byte {
	rec := httptest.NewRecorder()
	writeEvent(rec, e)
	return rec.Body.Bytes()
}

// ------------------------------------------------------------------ applying one op

type wireWorld struct {
	io    ioWorld
	zero  map[string]*zeroWorld
	empty *zeroWorld
	calls map[string]*callWorld
	child bool // running inside inChild
	posts postWorld
	pg    *pgWorld // paged lists: the current server + session (r.pg.*)
	// observations of ops that run in a child process, made ahead of time (prefetch)
	childCache map[string]string
}

// wirePrefetch: set by runWire; a generator hands it the child-process ops it is about to step through.
var wirePrefetch = func([]string) {}

func (w *wireWorld) close() {
	if w.io.conn != nil {
		w.io.conn.Close()
		w.io.conn = nil
	}
	for _, z := range w.zero {
		z.close()
	}
	if w.empty != nil {
		w.empty.close()
	}
	for _, c := range w.calls {
		c.close()
	}
	if w.pg != nil {
		w.pg.close()
		w.pg = nil
	}
	w.zero, w.empty, w.calls = nil, nil, nil
}

func (w *wireWorld) apply(op string) (obs string) {
	defer func() {
		if r := recover(); r != nil {
			obs = "panic"
		}
	}()
	p := newToks(op)
	switch kind := p.next(); kind {
	case "c.enc":
		c, ok := p.content()
		if !ok {
			return "bad-op"
		}
		data, err := c.MarshalJSON()
		if err != nil {
			return "marshal-error"
		}
		return tokJSON(data)
	case "c.res":
		uri, ok1 := p.str()
		mime, ok2 := p.str()
		text, ok3 := p.str()
		rc := &ResourceContents{URI: uri, MIMEType: mime, Text: text}
		if p.peek() == "-" {
			p.next()
		} else {
			b, ok := p.b64()
			if !ok {
				return "bad-op"
			}
			if b == nil {
				b = []byte{}
			}
			rc.Blob = b
		}
		m, ok4 := p.meta()
		if !(ok1 && ok2 && ok3 && ok4) {
			return "bad-op"
		}
		rc.Meta = m
		return marshalTok(rc)
	case "c.rt":
		ctx := p.next()
		cs, ok := p.contents()
		if !ok {
			return "bad-op"
		}
		wv, ok := wrapEncode(ctx, cs)
		if !ok {
			return "bad-op"
		}
		data, err := json.Marshal(wv)
		if err != nil {
			return "marshal-error"
		}
		v, err := parseJSON(data)
		if err != nil {
			return "unparsable"
		}
		member, _ := v.get("content")
		back, err := wrapDecode(ctx, data)
		if err != nil {
			return member.tok() + " | " + contentErrTok(err)
		}
		return member.tok() + " | ok " + contentsTok(back)
	case "c.dec":
		ctx := p.next()
		j, ok := p.ojv()
		if !ok {
			return "bad-op"
		}
		mem := []jmem{{"role", jStr("user")}, {"model", jStr("m")}}
		if j != nil {
			mem = append(mem, jmem{"content", *j})
		}
		back, err := wrapDecode(ctx, []byte(jObj(mem...).text()))
		if err != nil {
			return contentErrTok(err)
		}
		return "ok " + contentsTok(back)
	case "c.fuzz":
		what := p.next()
		b, ok := unhex(strings.TrimPrefix(p.next(), "x"))
		if !ok {
			return "bad-op"
		}
		fuzzDecode(what, []byte(b))
		return "nopanic"
	case "r.rt":
		name := p.next()
		j1, ok := p.jv()
		types, _ := wireRegistry()
		t, ok2 := types[name]
		if !ok || !ok2 {
			return "bad-op"
		}
		x := reflect.New(t).Interface()
		if err := json.Unmarshal([]byte(j1.text()), x); err != nil {
			return "unmarshal-error " + hxs(err.Error())
		}
		return marshalTok(x)
	case "r.call":
		// tools/call on a tool registered with the low-level Server.AddTool
		ver := p.next()
		if ver != "old" && ver != "new" {
			return "bad-op"
		}
		next, ok := p.toolReturn()
		if !ok || !p.done() {
			return "bad-op"
		}
		if strings.HasSuffix(op, " nilres") && !w.child {
			return inChild(op)
		}
		if w.calls == nil {
			w.calls = map[string]*callWorld{}
		}
		if w.calls[ver] == nil {
			c, err := newCallWorld(ver)
			if err != nil {
				return "setup-error"
			}
			w.calls[ver] = c
		}
		return w.calls[ver].call(next)
	case "r.zero":
		method, variant := p.next(), p.next()
		ver := "old"
		if !p.done() {
			ver = p.next()
		}
		if variant == "nilres" && !w.child {
			return inChild(op)
		}
		if w.zero == nil {
			w.zero = map[string]*zeroWorld{}
		}
		var z *zeroWorld
		if strings.HasSuffix(method, "/list") && method != "roots/list" {
			if w.empty == nil {
				e, err := newEmptyWorld()
				if err != nil {
					return "setup-error"
				}
				w.empty = e
			}
			z = w.empty
		} else {
			if w.zero[variant+"/"+ver] == nil {
				n, err := newZeroWorld(variant, ver)
				if err != nil {
					return "setup-error"
				}
				w.zero[variant+"/"+ver] = n
			}
			z = w.zero[variant+"/"+ver]
		}
		return z.call(method)
	case "sse.write":
		e, ok := p.event()
		if !ok {
			return "bad-op"
		}
		return "x" + hx(writeEventBytes(e))
	case "sse.scan":
		b, ok := unhex(strings.TrimPrefix(p.next(), "x"))
		if !ok {
			return "bad-op"
		}
		return scanTok([]byte(b))
	case "sse.rt":
		var buf []byte
		for !p.done() {
			e, ok := p.event()
			if !ok {
				return "bad-op"
			}
			buf = append(buf, writeEventBytes(e)...)
		}
		return "x" + hx(buf) + " " + scanTok(buf)
	case "sse.spaces":
		var b []byte
		for r := rune(0); r <= unicode.MaxRune; r++ {
			if unicode.IsSpace(r) {
				b = utf8.AppendRune(b, r)
			}
		}
		return "x" + hx(b)
	case "io.new":
		n, _ := strconv.Atoi(p.next())
		w.io.reset(n, p.next() == "log")
		return "ok"
	case "io.log":
		// what the LoggingTransport wrote since the last io.log: one entry per line
		if w.io.log == nil {
			return "bad-op"
		}
		b := w.io.log.take()
		var out []string
		for len(b) > 0 {
			var l []byte
			if i := bytes.IndexByte(b, '\n'); i >= 0 {
				l, b = b[:i], b[i+1:]
			} else {
				l, b = b, nil
				out = append(out, "!"+hx(l)) // an unterminated line
				break
			}
			entry := func(kind string, payload []byte) string {
				if v, err := parseJSON(payload); err == nil {
					return kind + " " + v.tok()
				}
				return "!" + hx(l)
			}
			switch {
			case bytes.HasPrefix(l, []byte("read: ")):
				out = append(out, entry("r", l[len("read: "):]))
			case bytes.HasPrefix(l, []byte("write: ")):
				out = append(out, entry("w", l[len("write: "):]))
			case bytes.HasPrefix(l, []byte("read error: ")):
				out = append(out, "re")
			case bytes.HasPrefix(l, []byte("write error: ")):
				out = append(out, "we")
			default:
				out = append(out, "!"+hx(l))
			}
		}
		return strings.TrimSpace(fmt.Sprintf("log %d %s", len(out), strings.Join(out, " ")))
	case "io.feed":
		v, layout, ok := p.frameArg()
		if !ok || w.io.conn == nil || w.io.eofFed || layout == 3 {
			return "bad-op"
		}
		w.io.rwc.feed([]byte(layoutText(v, layout)+lineEnd(layout)), false)
		w.io.pending++
		return "ok"
	case "io.eof":
		if w.io.conn == nil {
			return "bad-op"
		}
		w.io.rwc.feed(nil, true)
		w.io.eofFed = true
		return "ok"
	case "io.ver":
		if w.io.conn == nil {
			return "bad-op"
		}
		v := protocolVersion20250326
		if p.next() == "1" {
			v = protocolVersion20250618
		}
		w.io.conn.sessionUpdated(ServerSessionState{InitializeParams: &InitializeParams{ProtocolVersion: v}})
		return "ok"
	case "io.read":
		c := w.io.conn
		if c == nil {
			return "bad-op"
		}
		if len(c.queue) == 0 {
			if w.io.eofSeen || (w.io.pending == 0 && !w.io.eofFed) {
				return "would-block"
			}
		}
		// the bookkeeping comes first: Read may panic (recovered in apply) or not return
		if len(c.queue) == 0 {
			if w.io.pending > 0 {
				w.io.pending--
			} else {
				w.io.eofSeen = true
			}
		}
		rctx, rcancel := context.WithTimeout(context.Background(), 10*time.Second)
		defer rcancel()
		msg, err := w.io.front.Read(rctx)
		if err != nil && rctx.Err() != nil {
			return "hang"
		}
		if err != nil {
			return fmt.Sprintf("err %s q%d", readErrTok(err), len(c.queue))
		}
		return fmt.Sprintf("msg %s q%d", msgTok(msg), len(c.queue))
	case "io.cw":
		k, _ := strconv.Atoi(p.next())
		var msgs []jsonrpc.Message
		for !p.done() {
			m, ok := p.message()
			if !ok {
				return "bad-op"
			}
			msgs = append(msgs, m)
		}
		if w.io.conn == nil || k < 1 || len(msgs) == 0 {
			return "bad-op"
		}
		return guarded(20*time.Second, func() string { return w.io.concurrentWrites(k, msgs) })
	case "io.write":
		m, ok := p.message()
		if !ok || w.io.conn == nil {
			return "bad-op"
		}
		w.io.rwc.takeOut()
		if err := w.io.front.Write(context.Background(), m); err != nil {
			return "write-error"
		}
		return writtenTok(w.io.rwc.takeOut())
	}
	return w.apply2(p.t[0], p, op)
}

// fuzzDecode feeds arbitrary bytes to the decoders of package mcp; only "does not panic" is observed.
func fuzzDecode(what string, b []byte) {
	switch what {
	case "content":
		for _, ctx := range []string{"tool", "prompt", "samp", "sampv2", "cmr", "cmwt"} {
			wrapDecode(ctx, b)
		}
		unmarshalContent(b, nil)
		var wc wireContent
		json.Unmarshal(b, &wc)
	case "readbatch":
		readBatch(b)
	case "sse":
		for range scanEvents(bytes.NewReader(b)) {
		}
	default:
		// a method name: its params decoder and its result type
		for _, infos := range []map[string]methodInfo{serverMethodInfos, clientMethodInfos} {
			if info, ok := infos[what]; ok {
				info.unmarshalParams(b)
				var res Result
				func() {
					defer func() { recover() }() // notification infos have no result type
					res = info.newResult()
				}()
				if res != nil && !reflect.ValueOf(res).IsNil() {
					json.Unmarshal(b, res)
				}
			}
		}
	}
}

// ------------------------------------------------------------------ case runner

type stepper func(op string, tags ...string) string

func runWire(t *testing.T, out *verifOut, stream string, gen func(newCase func(name string) stepper)) {
	w := &wireWorld{}
	defer w.close()
	wirePrefetch = w.prefetch
	newCase := func(name string) stepper {
		out.line(name, "reset", "ok", "reset")
		if w.io.conn != nil {
			w.io.conn.Close()
			w.io.conn = nil
		}
		return func(op string, tags ...string) string {
			// watchdog: an op that does not come back (an SDK call that blocks for ever on the harness
			// goroutine) is recorded as the observation "hang" and the run ends there, instead of
			// sitting out the test timeout
			finished := make(chan struct{})
			go func() {
				select {
				case <-finished:
				case <-time.After(3 * time.Minute):
					out.line(name, op, "hang", strings.Fields(op)[0], "hang")
					out.close()
					fmt.Fprintf(os.Stderr, "verif: op did not return within 3 minutes: %.300s\n", op)
					os.Exit(3)
				}
			}()
			obs := w.apply(op)
			close(finished)
			kind := strings.Fields(op)[0]
			tags = append([]string{kind}, tags...)
			if obs == "panic" {
				tags = append(tags, "panic")
			}
			if strings.HasPrefix(obs, "err ") {
				f := strings.Fields(obs)
				tags = append(tags, kind+":"+strings.Join(f[:2], "-"))
			}
			out.line(name, op, obs, tags...)
			return obs
		}
	}
	runOps := func(name, path string) {
		step := newCase(name)
		for _, op := range readOpsFile(t, path) {
			step(op)
		}
	}
	if rp := os.Getenv("VERIF_REPLAY"); rp != "" {
		// a replay file may belong to the jsonrpc2 streams of this engine: keep the ops this harness knows
		step := newCase("replay")
		for _, op := range readOpsFile(t, rp) {
			k := strings.Fields(op)[0]
			if strings.HasPrefix(k, "io.") || (stream == "mcp" && (strings.HasPrefix(k, "c.") || strings.HasPrefix(k, "r.") || strings.HasPrefix(k, "sse.") || strings.HasPrefix(k, "h.") || strings.HasPrefix(k, "live."))) {
				step(op)
			}
		}
		return
	}
	if dir := os.Getenv("VERIF_CORPUS"); dir != "" {
		// corpus files are named <stream>-<what>.ops
		files, _ := filepath.Glob(filepath.Join(dir, stream+"-*.ops"))
		sort.Strings(files)
		for _, f := range files {
			runOps("corpus-"+filepath.Base(f), f)
		}
	}
	gen(newCase)
}

func readOpsFile(t *testing.T, path string) []string {
	f, err := os.Open(path)
	if err != nil {
		t.Fatal(err)
	}
	defer f.Close()
	var ops []string
	sc := bufio.NewScanner(f)
	sc.Buffer(make([]byte, 1<<20), 1<<26)
	for sc.Scan() {
		l := strings.TrimSpace(sc.Text())
		if l == "" || strings.HasPrefix(l, "#") || l == "reset" {
			continue
		}
		ops = append(ops, l)
	}
	return ops
}

// ------------------------------------------------------------------ generators: content

func contentKindTag(c Content) string {
	switch c.(type) {
	case *TextContent:
		return "kind:text"
	case *ImageContent:
		return "kind:image"
	case *AudioContent:
		return "kind:audio"
	case *ResourceLink:
		return "kind:resource_link"
	case *EmbeddedResource:
		return "kind:resource"
	case *ToolUseContent:
		return "kind:tool_use"
	case *ToolResultContent:
		return "kind:tool_result"
	}
	return "kind:?"
}

var ctxNames = []string{"tool", "prompt", "samp", "sampv2", "cmr", "cmwt"}

func ctxOwner(ctx string) string {
	switch ctx {
	case "samp":
		return "SamplingMessage"
	case "sampv2":
		return "SamplingMessageV2"
	case "cmr":
		return "CreateMessageResult"
	case "cmwt":
		return "CreateMessageWithToolsResult"
	}
	return ""
}

// genContentJSON: a JSON value for a "content" member: mostly a valid block, sometimes mutated.
func genContentJSON(g *rgen) *jv {
	r := g.r
	if r.Intn(12) == 0 {
		return nil
	}
	c := g.content(allKinds, 1)
	data, _ := c.MarshalJSON()
	v, _ := parseJSON(data)
	// wrong-kinded values; members holding plain sub-structs or []byte only get values that are
	// rejected or canonical (their own JSON form is encoding/json's business, not the model's)
	bad := []jv{jNull(), jBool(true), jInt(3), jDec("15", -1), jStr("x"), jStr(""), jArr(), jArr(jNull()), jArr(jInt(1)), jObj(), jObj(jmem{"type", jStr("text")}), jArr(jObj(jmem{"type", jStr("tool_result")}, jmem{"content", jArr(jObj(jmem{"type", jStr("tool_use")}))})), jBig("9223372036854775808")}
	badFor := func(name string) jv {
		for {
			b := bad[r.Intn(len(bad))]
			switch name {
			case "annotations":
				if b.k == 'o' && len(b.o) > 0 {
					continue
				}
			case "resource":
				if b.k == 'o' {
					continue
				}
			case "icons":
				if b.k == 'a' && len(b.a) > 0 && b.a[0].k == 'o' {
					continue
				}
			case "data":
				if b.k == 's' && b.s != "" || b.k == 'a' && len(b.a) > 0 {
					continue
				}
			case "structuredContent", "_meta", "input":
				if b.k == 'i' && len(b.n) > 15 {
					continue
				}
			}
			return b
		}
	}
	names := []string{"type", "text", "mimeType", "data", "resource", "uri", "name", "title", "description", "size", "_meta", "annotations", "icons", "id", "input", "toolUseId", "content", "structuredContent", "isError", "Type", "TEXT", "unknown"}
	for k := 0; k < r.Intn(3); k++ {
		switch r.Intn(5) {
		case 0: // change the type
			ty := append(append([]string{}, allKinds...), "", "foo", "Text")[r.Intn(10)]
			v = setMember(v, "type", jStr(ty))
		case 1: // wrong-kinded member
			nm := names[r.Intn(len(names))]
			v = setMember(v, nm, badFor(nm))
		case 2: // drop a member
			if len(v.o) > 0 {
				i := r.Intn(len(v.o))
				v.o = append(append([]jmem{}, v.o[:i]...), v.o[i+1:]...)
			}
		case 3: // nest into an array / wrap
			if r.Intn(2) == 0 {
				v = jArr(v)
			} else {
				v = jArr(v, v)
			}
		default: // not an object
			v = bad[r.Intn(len(bad))]
		}
		if v.k != 'o' {
			break
		}
	}
	return &v
}

func setMember(v jv, k string, x jv) jv {
	if v.k != 'o' {
		return v
	}
	out := jv{k: 'o'}
	done := false
	for _, m := range v.o {
		if m.k == k {
			out.o = append(out.o, jmem{k, x})
			done = true
		} else {
			out.o = append(out.o, m)
		}
	}
	if !done {
		out.o = append(out.o, jmem{k, x})
	}
	return out
}

// ------------------------------------------------------------------ generators: ioConn

type ioGen struct {
	r       *rand.Rand
	nextID  int64
	pending []string // id tokens of calls read and not yet answered
	batchy  bool     // emphasise batches (C02 stream)
}

func (g *ioGen) idJ() jv {
	g.nextID++
	switch g.r.Intn(7) {
	case 0:
		return jStr(fmt.Sprintf("id-%d", g.nextID))
	case 6: // mixed case / non-ASCII / long string ids: an id is echoed and matched byte for byte
		return jStr(fmt.Sprintf("%s#%d", genStr(g.r), g.nextID))
	case 1:
		return jInt(1<<52 + g.nextID) // ids beyond 2^53 are the msg/ids streams' business (F1)
	case 2:
		return jInt(-g.nextID)
	default:
		return jInt(g.nextID)
	}
}

func wireReq(id *jv, method string, params *jv) jv {
	mem := []jmem{{"jsonrpc", jStr("2.0")}}
	if id != nil {
		mem = append(mem, jmem{"id", *id})
	}
	mem = append(mem, jmem{"method", jStr(method)})
	if params != nil {
		mem = append(mem, jmem{"params", *params})
	}
	return jObj(mem...)
}

func (g *ioGen) element(used *[]jv) jv {
	r := g.r
	var params *jv
	if r.Intn(2) == 0 {
		v := genJ(r, 1)
		params = &v
	}
	switch x := r.Intn(20); {
	case x < 9: // call
		id := g.idJ()
		if len(*used) > 0 && r.Intn(12) == 0 {
			id = (*used)[r.Intn(len(*used))] // duplicate id (malformed batch / id in flight)
		}
		*used = append(*used, id)
		return wireReq(&id, []string{"ping", "tools/call", "x", "Tools/Call", "X-Ünï/Σς", "notifications/Progress"}[r.Intn(6)], params)
	case x < 15: // notification; half of them numbered, so that a reordering inside a batch shows
		if r.Intn(2) == 0 {
			g.nextID++
			seq := jObj(jmem{"seq", jInt(g.nextID)})
			params = &seq
		}
		return wireReq(nil, []string{"notifications/progress", "notifications/initialized", "n", "Notifications/Progress", "N", "ñ/İ"}[r.Intn(6)], params)
	case x < 18: // response
		id := g.idJ()
		res := genJ(r, 1)
		return jObj(jmem{"jsonrpc", jStr("2.0")}, jmem{"id", id}, jmem{"result", res})
	case x < 19: // invalid element
		return []jv{jNull(), jInt(1), jObj(jmem{"jsonrpc", jStr("1.0")}, jmem{"id", jInt(1)}, jmem{"method", jStr("m")}), jObj(jmem{"jsonrpc", jStr("2.0")}), jObj(jmem{"jsonrpc", jStr("2.0")}, jmem{"id", jBool(true)}, jmem{"method", jStr("m")})}[r.Intn(5)]
	default: // notification with a null id / empty method
		n := jNull()
		return wireReq(&n, "n", params)
	}
}

func (g *ioGen) frame(used *[]jv) jv {
	r := g.r
	pBatch := 35
	if g.batchy {
		pBatch = 75
	}
	if r.Intn(14) == 0 {
		// a frame without a message: [], null, [[]], [null], … (every reader must reject it with an error)
		d := degenerateFrames()
		return d[r.Intn(len(d))]
	}
	if r.Intn(100) >= pBatch {
		return g.element(used)
	}
	if r.Intn(40) == 0 {
		return jArr() // empty batch
	}
	n := 1 + r.Intn(4)
	if r.Intn(6) == 0 {
		n = 3 + r.Intn(4)
	}
	out := jv{k: 'a'}
	for i := 0; i < n; i++ {
		out.a = append(out.a, g.element(used))
	}
	return out
}

// otok2: the value as params (objects and arrays only: what a peer may send), else none
func otok2(v jv, r *rand.Rand) string {
	if v.k == 'o' || v.k == 'a' {
		return v.tok()
	}
	return "-"
}

// runIO drives one ioConn case: feed frames, then read / answer in random order.
func (g *ioGen) run(step stepper) {
	r := g.r
	g.pending = nil
	outCap := 0
	if r.Intn(12) == 0 {
		outCap = 1 + r.Intn(3)
	}
	// 1 case in 4: the connection behind a LoggingTransport (every message passes through it unchanged,
	// and the log shows each as its encoding)
	logging := r.Intn(4) == 0
	if logging {
		step(fmt.Sprintf("io.new %d log", outCap), "io:logging")
	} else {
		step(fmt.Sprintf("io.new %d", outCap))
	}
	if logging {
		defer func() { step("io.log", "io:logging") }()
	}
	var used []jv
	nFrames := 1 + r.Intn(4)
	fed := 0
	feed := func() {
		f := g.frame(&used)
		tag := "frame:single"
		if f.k == 'a' {
			tag = fmt.Sprintf("frame:batch%d", len(f.a))
			nn, nc := 0, 0
			for _, e := range f.a {
				if _, ok := e.get("method"); ok {
					if id, ok := e.get("id"); ok && id.k != 'z' {
						nc++
					} else {
						nn++
					}
				}
			}
			if nn > 0 && nc > 0 {
				tag += ",batch:calls+notifications"
			} else if nn > 0 {
				tag += ",batch:notifications-only"
			} else if nc > 0 {
				tag += ",batch:calls-only"
			}
		}
		if r.Intn(4) == 0 {
			// a peer that escapes: string ids, methods and member names in a foreign spelling
			f = spellJ(r, f, []int{20, 100}[r.Intn(2)])
			tag += ",spelled"
		}
		lay := ""
		if k := r.Intn(8); k == 1 || k == 2 {
			lay = fmt.Sprintf(" L%d", k)
			tag += fmt.Sprintf(",layout:%d", k)
		}
		if f.k != 'o' && (f.k != 'a' || len(f.a) == 0 || f.a[0].k != 'o') {
			tag += ",frame:no-message"
		}
		step("io.feed "+f.tok()+lay, strings.Split(tag, ",")...)
		fed++
	}
	for i := 0; i < 1+r.Intn(nFrames); i++ {
		feed()
	}
	if r.Intn(10) == 0 {
		step(fmt.Sprintf("io.ver %d", r.Intn(2)))
	}
	eof := false
	canRead := true
	for steps := 0; steps < 60; steps++ {
		choices := []string{}
		if canRead {
			choices = append(choices, "read", "read", "read")
		}
		if len(g.pending) > 0 {
			choices = append(choices, "answer", "answer")
		}
		if fed < nFrames && !eof {
			choices = append(choices, "feed")
		}
		if !eof && fed >= nFrames && r.Intn(3) == 0 {
			choices = append(choices, "eof")
		}
		if r.Intn(8) == 0 {
			choices = append(choices, "other")
		}
		if logging && r.Intn(10) == 0 {
			choices = append(choices, "log")
		}
		if outCap == 0 && !logging && r.Intn(6) == 0 {
			choices = append(choices, "concurrent")
		}
		if len(choices) == 0 {
			if !eof {
				choices = append(choices, "eof")
			} else {
				break
			}
		}
		switch choices[r.Intn(len(choices))] {
		case "read":
			obs := step("io.read")
			f := strings.Fields(obs)
			switch {
			case obs == "panic" || obs == "hang":
				return // the connection's reader is gone: nothing after this is meaningful
			case obs == "would-block":
				canRead = false
			case len(f) > 1 && f[0] == "err" && f[1] == "eof":
				canRead = false
			case len(f) > 3 && f[0] == "msg" && f[1] == "req" && f[2] != "-":
				g.pending = append(g.pending, f[2])
			}
		case "answer":
			i := r.Intn(len(g.pending))
			id := g.pending[i]
			if r.Intn(15) > 0 {
				g.pending = append(g.pending[:i], g.pending[i+1:]...)
			} // else: answered twice later (over-answer is E1's business; the framing must cope)
			body := "o{ } -"
			if r.Intn(4) == 0 {
				body = "- e-32601 s6e6f -"
			}
			step("io.write resp "+id+" "+body, "write:response")
		case "feed":
			feed()
			canRead = true
		case "eof":
			step("io.eof")
			eof = true
			canRead = true
		case "log":
			step("io.log", "io:logging")
		case "concurrent":
			// 2-4 goroutines write at the same time (the responses of concurrently handled calls, a
			// notification, a call of our own) to a stream that takes each Write in 2-3 pieces
			var ms []string
			tags := []string{"write:concurrent"}
			answered := map[string]bool{} // one answer per id in one op: which of two would fill the slot is the scheduler's choice
			for i, n := 0, 2+r.Intn(3); i < n; i++ {
				c := r.Intn(6)
				var open []int // pending calls not answered in this op
				for j, id := range g.pending {
					if !answered[id] {
						open = append(open, j)
					}
				}
				switch {
				case c < 2 && len(open) > 0:
					j := open[r.Intn(len(open))]
					id := g.pending[j]
					answered[id] = true
					g.pending = append(g.pending[:j], g.pending[j+1:]...)
					ms = append(ms, "resp "+id+" o{ 74657874 s"+hxs(strings.Repeat([]string{"payload-", "PayLoad-Éß", "日本 Text/"}[r.Intn(3)], 1+r.Intn(40)))+" } -")
					tags = append(tags, "cw:answer")
				case c < 4:
					g.nextID++
					ms = append(ms, fmt.Sprintf("req - s6e6f74696679 o{ 736571 i%d }", g.nextID))
					tags = append(tags, "cw:notification")
				case c < 5:
					g.nextID++
					ms = append(ms, fmt.Sprintf("req i%d s70696e67 o{ }", 2000+g.nextID))
					tags = append(tags, "cw:call")
				default:
					g.nextID++
					ms = append(ms, fmt.Sprintf("resp i%d z -", 8000+g.nextID))
					tags = append(tags, "cw:unrelated-response")
				}
			}
			step(fmt.Sprintf("io.cw %d %s", 2+r.Intn(2), strings.Join(ms, " ")), tags...)
		case "other":
			switch r.Intn(3) {
			case 0:
				step("io.write req - s"+hxs([]string{"notify", "Notify/Éß", "N"}[r.Intn(3)])+" "+otok2(genJ(r, 1), r), "write:notification")
			case 1:
				step(fmt.Sprintf("io.write req i%d s70696e67 o{ }", 1000+r.Intn(5)), "write:call")
			default:
				step(fmt.Sprintf("io.write resp i%d z -", 7000+r.Intn(5)), "write:unrelated-response")
			}
		}
	}
}

// ------------------------------------------------------------------ generators: SSE

func genField(r *rand.Rand, clean bool) string {
	if clean {
		return []string{"", "message", "42", "a:b", "x y", "é", "{\"a\":1}", "evt_1"}[r.Intn(8)]
	}
	return []string{"", " pad", "pad ", " nbsp", "a\nb", "a\rb", "\t", ":", "x ", "　w　", "\x85", "\xc2"}[r.Intn(12)]
}

func genEvent(r *rand.Rand, clean bool) Event {
	e := Event{}
	if r.Intn(2) == 0 {
		e.Name = genField(r, clean)
	}
	if r.Intn(2) == 0 {
		e.ID = genField(r, clean)
	}
	if r.Intn(6) == 0 {
		e.Retry = genField(r, clean)
	}
	switch {
	case clean && r.Intn(5) > 0:
		e.Data = []byte(genJ(r, 2).text())
	case clean:
		e.Data = []byte(genField(r, true))
	default:
		e.Data = []byte(genField(r, r.Intn(2) == 0))
	}
	return e
}

func genSSEBytes(r *rand.Rand) []byte {
	lines := []string{"data: {}", "data:x", "data:  two", "data: a", "data: b", "event: e", "id: 7", "id:", "retry: 10", "", "", ":comment", "nocolon", "data", " data: x", "Data: x", "data : x", "event: n", "data: x\r", "\r", "data: \xff\xfe", "unknown: v", "id: a:b:c"}
	var b []byte
	for i, n := 0, r.Intn(10); i < n; i++ {
		b = append(b, lines[r.Intn(len(lines))]...)
		switch r.Intn(8) {
		case 0:
			b = append(b, "\r\n"...)
		case 1:
			// no terminator: joins with the next line
		default:
			b = append(b, '\n')
		}
	}
	if r.Intn(3) == 0 {
		b = mutateBytes(r, b)
	}
	return b
}

// ------------------------------------------------------------------ the streams

func TestVerifWireMcp(t *testing.T) {
	out := verifOpen(t)
	defer out.close()
	r := verifRng(1919)
	g := &rgen{r: r}
	types, names := wireRegistry()
	runWire(t, out, "mcp", func(newCase func(string) stepper) {
		// fixed cases first: the unicode blank table, and every result with a required list
		step := newCase("fixed")
		step("sse.spaces")
		for _, variant := range []string{"nil", "empty"} {
			for _, m := range []string{"tools/list", "prompts/list", "resources/list", "resources/templates/list", "roots/list", "tools/call", "prompts/get", "completion/complete", "resources/read"} {
				step("r.zero "+m+" "+variant, "zero:"+m, "variant:"+variant)
			}
		}
		step("r.zero resources/read emptytext", "zero:resources/read", "variant:emptytext")
		// user handlers that return (nil, nil), on a legacy and on a current session (run in a child process)
		for _, ver := range []string{"old", "new"} {
			for _, m := range []string{"tools/call", "prompts/get", "completion/complete", "resources/read"} {
				step("r.zero "+m+" nilres "+ver, "zero:"+m, "variant:nilres", "ver:"+ver)
			}
		}
		// tools/call on a tool registered with the low-level Server.AddTool: every combination of
		// nil / empty / non-empty Content x nil / non-nil StructuredContent (value or raw) x IsError
		step = newCase("rawtool")
		for _, ver := range []string{"old", "new"} {
			for _, cs := range [][2]string{{"nil", "content:nil"}, {"( )", "content:empty"},
				{"( " + contentTok(&TextContent{Text: "hi"}) + " )", "content:one"},
				{"( " + contentTok(&TextContent{}) + " " + contentTok(&ImageContent{MIMEType: "image/png"}) + " )", "content:two"}} {
				for _, sc := range [][2]string{{"-", "structured:nil"}, {"any o{ 616e73776572 i42 }", "structured:object"}, {"any i42", "structured:primitive"},
					{"raw o{ 616e73776572 i42 }", "structured:raw"}, {"raw z", "structured:raw-null"}} {
					for _, ie := range []string{"0", "1"} {
						step("r.call "+ver+" res "+cs[0]+" "+sc[0]+" "+ie, "ver:"+ver, cs[1], sc[1], "iserror:"+ie)
					}
				}
			}
			step("r.call "+ver+" err", "ver:"+ver, "handler:error")
			step("r.call "+ver+" nilres", "ver:"+ver, "handler:nil-result")
		}
		// every type of the method tables at least once per run
		step = newCase("types")
		for _, name := range names {
			for k := 0; k < 3; k++ {
				x := reflect.New(types[name])
				g.fill(x.Elem(), 3, name, false)
				data, err := json.Marshal(x.Interface())
				if err != nil {
					continue
				}
				j1, err := parseJSON(data)
				if err != nil {
					continue
				}
				step("r.rt "+name+" "+j1.tok(), "type:"+name)
			}
		}
		// event streams as a foreign peer frames them: one message event in every combination of
		// line end (LF, CRLF, alternating) x framing feature; then arbitrary lines in both line ends
		step = newCase("sse-foreign")
		for _, es := range fixedFStreams() {
			step("sse.frn "+fstreamTok(es), fstreamTags(es, true)...)
		}
		for _, ls := range []string{"x" + hxs("data: 1") + " c x c", "x" + hxs("data: 1") + " c x l", "x c", "x c x c x" + hxs("data: 1") + " l x c",
			"x" + hxs("data: 1") + " c e x" + hxs("data: 2"), "x" + hxs("nocolon") + " c", "x" + hxs("data: 1\r\r") + " c x" + hxs("\r") + " l"} {
			step("sse.lines "+ls, "sse:lines", "eol:fixed")
		}
		// list results page by page: registries below, at and above the page size; a cursor at, between
		// and beyond every key; issued cursors followed to the end; stale cursors after removals
		for _, m := range pgMethods {
			for _, ps := range []int{1, 2, 3} {
				for _, n := range uniqInts([]int{0, 1, ps, ps + 1, 2 * ps, 2*ps + 1, 3*ps + 2}) {
					step = newCase(fmt.Sprintf("pages-%s-%d-%d", strings.ReplaceAll(m, "/", "."), ps, n))
					(&pgGen{r: r, step: step}).sweep(m, ps, n)
				}
			}
		}
		// capabilities: clone shares nothing mutable (every cell set; then random subsets per case)
		step = newCase("capabilities-clone")
		for _, kind := range []string{"client", "server"} {
			op, tags := genCapsOp(r, kind, true)
			step(op, tags...)
			step("caps.clone "+kind, "caps:clone", "caps:"+kind, "caps-cells:0")
		}
		// ToolAnnotations: every combination of the four hints x title, under both encodings
		step = newCase("tool-annotations")
		for _, compat := range []string{"0", "1"} {
			for _, dh := range []string{"-", "t", "f"} {
				for _, ih := range []string{"t", "f"} {
					for _, oh := range []string{"-", "t", "f"} {
						for _, rh := range []string{"t", "f"} {
							for _, title := range []string{"", "Tïtle/İ"} {
								step(fmt.Sprintf("ann.rt %s %s %s %s %s s%s", compat, dh, ih, oh, rh, hxs(title)), "ann:rt", "ann-compat:"+compat)
							}
						}
					}
				}
			}
		}
		// the CompleteReference codec: every combination of type x name x uri
		step = newCase("complete-reference")
		for _, t := range refTypes {
			for _, n := range []string{"", "p"} {
				for _, u := range []string{"", "file:///x"} {
					step(fmt.Sprintf("ref.rt s%s s%s s%s", hxs(t), hxs(n), hxs(u)), "ref:rt", "ref-type:x"+hxs(t))
					mem := []jmem{{"type", jStr(t)}}
					if n != "" {
						mem = append(mem, jmem{"name", jStr(n)})
					}
					if u != "" {
						mem = append(mem, jmem{"uri", jStr(u)})
					}
					step("ref.dec "+jObj(mem...).tok(), "ref:dec")
				}
			}
		}
		// a registry listed whole (the client's roots) after every kind of add / remove history
		for _, n := range []int{0, 1, 2, 3} {
			for _, first := range []bool{true, false} {
				step = newCase(fmt.Sprintf("histories-roots-%d-%v", n, first))
				(&pgGen{r: r, step: step}).histories("roots/list", n, first)
			}
		}
		// frames that carry no message, through every reader of peer data, in every layout
		var liveOps []string
		var liveOpTags [][]string
		{
			frames := degenerateFrames()
			valid := []jv{okNotif, okPing, jArr(okNotif, okPing), jArr(okPing)}
			for vi, ver := range []string{"", "io.ver 0", "io.ver 1"} {
				for fi, f := range append(append([]jv{}, frames...), valid...) {
					for _, lay := range []int{0, 1, 2} {
						if lay != 0 && (vi != 0 && fi%4 != 0) {
							continue
						}
						step = newCase(fmt.Sprintf("frame-io-%d-%d-%d", vi, fi, lay))
						step("io.new 0")
						if ver != "" {
							step(ver)
						}
						step(fmt.Sprintf("io.feed %s L%d", f.tok(), lay), "frame:fixed", fmt.Sprintf("layout:%d", lay))
						step("io.feed "+okNotif.tok(), "frame:single")
						step("io.eof")
						for k := 0; k < 4; k++ {
							if obs := step("io.read"); obs == "panic" || obs == "hang" || strings.HasPrefix(obs, "err eof") {
								break
							}
						}
					}
				}
			}
			step = newCase("frame-readbatch")
			for _, f := range append(append([]jv{}, frames...), valid...) {
				for lay := 0; lay <= 3; lay++ {
					step(fmt.Sprintf("io.rb %s L%d", f.tok(), lay), "frame:fixed", fmt.Sprintf("layout:%d", lay))
				}
			}
			step = newCase("frame-post")
			for _, path := range []string{"stateless", "stateful", "sse"} {
				for _, f := range append(append([]jv{}, frames...), okNotif, jArr(okNotif)) {
					for _, lay := range []int{0, 1, 3} {
						step(fmt.Sprintf("h.post %s %s L%d", path, f.tok(), lay), "post:"+path, "frame:fixed", fmt.Sprintf("layout:%d", lay))
					}
				}
			}
			// live sessions (child process): a server on an io transport, a streamable client
			var live []string
			var liveTags [][]string
			for _, ver := range []string{"old", "new"} {
				for fi, f := range append(append([]jv{}, frames...), valid...) {
					lays := []int{0}
					if fi < 2 {
						lays = []int{0, 1, 2}
					}
					for _, lay := range lays {
						live = append(live, fmt.Sprintf("live.io %s %s L%d", ver, f.tok(), lay))
						liveTags = append(liveTags, []string{"live:io", "ver:" + ver, fmt.Sprintf("layout:%d", lay)})
					}
				}
			}
			okResp := jObj(jmem{"jsonrpc", jStr("2.0")}, jmem{"id", jStr("@")}, jmem{"result", jObj()})
			for _, kind := range []string{"json", "sse"} {
				for fi, f := range append(append([]jv{}, frames...), okResp) {
					lays := []int{0}
					if fi < 2 {
						lays = []int{0, 1}
					}
					for _, lay := range lays {
						live = append(live, fmt.Sprintf("live.cli %s %s L%d", kind, f.tok(), lay))
						liveTags = append(liveTags, []string{"live:cli", "kind:" + kind, fmt.Sprintf("layout:%d", lay)})
					}
				}
			}
			// the streamable client again, its ping answered in an event stream framed as a foreign server
			// or a proxy may frame it (CRLF, comments, id/retry, no pad, field order, data over several lines)
			for _, how := range sseFramings {
				for _, f := range []jv{okResp, jArr(), jNull(), jObj()} {
					live = append(live, fmt.Sprintf("live.cli sse.%s %s L0", how, f.tok()))
					liveTags = append(liveTags, []string{"live:cli", "kind:sse-foreign", "framing:" + how})
				}
			}
			// some generated frames as well
			{
				lg := &ioGen{r: verifRng(7711)}
				for i, n := 0, verifN(24, 150); i < n; i++ {
					var used []jv
					f := lg.frame(&used)
					live = append(live, fmt.Sprintf("live.io %s %s L%d", []string{"old", "new"}[r.Intn(2)], f.tok(), r.Intn(3)))
					liveTags = append(liveTags, []string{"live:io", "frame:generated"})
				}
			}
			// run now (one child process), recorded at the end of the stream: what a live session shows of
			// a broken reader is the least specific observation, the in-process ops name the clause first
			wirePrefetch(live)
			liveOps, liveOpTags = live, liveTags
		}
		// decode fuzz of every protocol type: null at every position of a generated value, every
		// member name in another case
		{
			ftypes, fnames := fuzzTypes()
			step = newCase("fuzz-types")
			for _, name := range fnames {
				for rep := 0; rep < verifN(2, 6); rep++ {
					x := reflect.New(ftypes[name])
					g.fill(x.Elem(), 3, name, false)
					data, err := json.Marshal(x.Interface())
					if err != nil {
						continue
					}
					j0, err := parseJSON(data)
					if err != nil {
						continue
					}
					if hasEmptyKey(j0) {
						continue
					}
					j0 = canonJ(j0)
					var ps []jpath
					jvPaths(j0, nil, &ps)
					for _, p := range ps {
						m := jvEdit(j0, p, func(jv) (jv, bool) { return jNull(), true })
						step("r.fuzz "+name+" "+m.tok(), "type:"+name, "mut:null")
						if key, ok := memberAt(j0, p); ok {
							if fl, ok := flipCase(key); ok {
								if a, ap, ok := renamedAt(j0, p, fl); ok {
									step("r.case "+name+" "+pathTok(ap)+" s"+hxs(fl)+" "+a.tok(), "type:"+name, "mut:case")
								}
							}
						}
					}
				}
			}
		}
		n := verifN(2200, 12000)
		iog := &ioGen{r: r}
		ftypes, fnames := fuzzTypes()
		for c := 0; c < n; c++ {
			step := newCase(fmt.Sprintf("w%d", c))
			// content: encode, round trip per context, decode of (mutated) JSON
			for i := 0; i < 3; i++ {
				cv := g.content(allKinds, 2)
				step("c.enc "+contentTok(cv), contentKindTag(cv))
			}
			{
				rc := g.resourceContents()
				blob := "-"
				if rc.Blob != nil {
					blob = "s" + hxs(b64(rc.Blob))
				}
				tag := "res:text"
				if rc.Blob != nil {
					tag = "res:blob"
				} else if rc.Text == "" {
					tag = "res:empty-text"
				}
				step(fmt.Sprintf("c.res s%s s%s s%s %s %s", hxs(rc.URI), hxs(rc.MIMEType), hxs(rc.Text), blob, metaTok(rc.Meta)), tag)
			}
			for i := 0; i < 3; i++ {
				ctx := ctxNames[r.Intn(len(ctxNames))]
				allow := allowFor(ctxOwner(ctx))
				if r.Intn(8) == 0 {
					allow = allKinds // sometimes outside the allow list: must be rejected on both sides
				}
				var cs []Content
				switch ctx {
				case "tool":
					cs = []Content{}
					for k := r.Intn(3); k > 0; k-- {
						cs = append(cs, g.content(allow, 2))
					}
				case "sampv2", "cmwt":
					cs = []Content{}
					for k := r.Intn(4); k > 0; k-- {
						cs = append(cs, g.content(allow, 2))
					}
				default:
					cs = []Content{g.content(allow, 2)}
				}
				tags := []string{"ctx:" + ctx, fmt.Sprintf("n:%d", len(cs))}
				for _, cv := range cs {
					tags = append(tags, contentKindTag(cv))
				}
				step("c.rt "+ctx+" "+contentsTok(cs), tags...)
			}
			for i := 0; i < 3; i++ {
				ctx := ctxNames[r.Intn(len(ctxNames))]
				cj := genContentJSON(g)
				if cj != nil && r.Intn(4) == 0 {
					sp := spellJ(r, *cj, []int{20, 100}[r.Intn(2)])
					cj = &sp
				}
				step("c.dec "+ctx+" "+otok(cj), append([]string{"ctx:" + ctx}, spellTags(otok(cj))...)...)
			}
			// a raw tool handler's result as it goes out
			{
				ver := []string{"old", "new"}[r.Intn(2)]
				cs, ctag := "nil", "content:nil"
				if r.Intn(3) > 0 {
					var l []Content
					for k := r.Intn(3); k > 0; k-- {
						l = append(l, g.content(allKinds, 2))
					}
					cs, ctag = contentsTok(l), fmt.Sprintf("content:%d", len(l))
				}
				sc, stag := "-", "structured:nil"
				switch r.Intn(4) {
				case 0:
					if j := genSafeJ(r, 2); j.k != 'z' {
						sc, stag = "any "+j.tok(), "structured:any"
					}
				case 1:
					sc, stag = "raw "+genJ(r, 2).tok(), "structured:raw"
				}
				ie := []string{"0", "1"}[r.Intn(2)]
				step("r.call "+ver+" res "+cs+" "+sc+" "+ie, "ver:"+ver, ctag, stag, "iserror:"+ie)
			}
			// protocol values
			for i := 0; i < 2; i++ {
				name := names[r.Intn(len(names))]
				x := reflect.New(types[name])
				g.fill(x.Elem(), 3, name, false)
				data, err := json.Marshal(x.Interface())
				if err != nil {
					continue
				}
				if j1, err := parseJSON(data); err == nil {
					step("r.rt "+name+" "+j1.tok(), "type:"+name)
				}
			}
			// SSE
			{
				e := genEvent(r, r.Intn(4) > 0)
				step("sse.write " + evtTok(e))
				var evs []string
				clean := r.Intn(5) > 0
				for k := 1 + r.Intn(4); k > 0; k-- {
					evs = append(evs, evtTok(genEvent(r, clean)))
				}
				tag := "sse:clean"
				if !clean {
					tag = "sse:unclean"
				}
				step("sse.rt "+strings.Join(evs, " "), tag)
				step("sse.scan x"+hx(genSSEBytes(r)), "sse:bytes")
				clean = r.Intn(5) > 0
				fs, ftags := genFStream(r, clean)
				step("sse.frn "+fstreamTok(fs), ftags...)
				ls, ltags := genSSELines(r)
				step("sse.lines "+ls, ltags...)
				nd, ndtags := genNdStream(r, iog)
				step("nd.split "+nd, ndtags...)
			}
			if c%4 == 0 {
				op, tags := genCapsOp(r, []string{"client", "server"}[r.Intn(2)], false)
				step(op, tags...)
			}
			// multi round trip: what the retried request carries
			{
				op, tags := genRetry(r)
				step(op, tags...)
			}
			// the CompleteReference codec: a reference through marshal → unmarshal, a JSON value through
			// unmarshal → marshal
			{
				t, n, u := refTypes[r.Intn(len(refTypes))], refNames[r.Intn(len(refNames))], refURIs[r.Intn(len(refURIs))]
				step(fmt.Sprintf("ref.rt s%s s%s s%s", hxs(t), hxs(n), hxs(u)), "ref:rt", "ref-type:x"+hxs(t))
				v, tags := genRefJSON(r)
				step("ref.dec "+v.tok(), append([]string{"ref:dec"}, tags...)...)
			}
			// list results page by page on a real session
			if c%verifN(4, 10) == 0 {
				(&pgGen{r: r, step: step}).random()
			}
			// ioConn
			iog.run(step)
			// the same kinds of frames through readBatch and as POST bodies
			{
				var used []jv
				f := iog.frame(&used)
				step(fmt.Sprintf("io.rb %s L%d", f.tok(), r.Intn(4)), "frame:generated")
				f = iog.frame(&used)
				path := []string{"stateless", "stateful", "sse"}[r.Intn(3)]
				step(fmt.Sprintf("h.post %s %s L%d", path, f.tok(), []int{0, 1, 3}[r.Intn(3)]), "post:"+path, "frame:generated")
			}
			// structured decode fuzz of the protocol types, inputRequests against the model
			for i := 0; i < 3; i++ {
				name := fnames[r.Intn(len(fnames))]
				x := reflect.New(ftypes[name])
				g.fill(x.Elem(), 3, name, false)
				data, err := json.Marshal(x.Interface())
				if err != nil {
					continue
				}
				j0, err := parseJSON(data)
				if err != nil {
					continue
				}
				if hasEmptyKey(j0) {
					continue
				}
				m, tag := mutateJ(r, canonJ(j0))
				for k := r.Intn(3); k > 0; k-- {
					m, _ = mutateJ(r, m)
				}
				step("r.fuzz "+name+" "+m.tok(), "type:"+name, tag)
			}
			for i := 0; i < 2; i++ {
				ir := genInputRequests(r)
				tag := "irm:plain"
				if ir.k == 'o' {
					for _, e := range ir.o {
						if e.v.k == 'z' {
							tag = "irm:null-entry"
						}
					}
				}
				step("r.irm "+ir.tok(), tag)
			}
			// byte-level fuzz of the decoders ("never panics")
			for i := 0; i < 4; i++ {
				var b []byte
				what := "content"
				switch r.Intn(4) {
				case 0:
					what = "readbatch"
					var used []jv
					b = []byte(iog.frame(&used).text())
				case 1:
					ms := []string{"tools/call", "initialize", "completion/complete", "sampling/createMessage", "elicitation/create", "notifications/progress", "prompts/get", "resources/read", "roots/list", "logging/setLevel", "notifications/cancelled"}
					what = ms[r.Intn(len(ms))]
					name := names[r.Intn(len(names))]
					x := reflect.New(types[name])
					g.fill(x.Elem(), 2, name, false)
					b, _ = json.Marshal(x.Interface())
				default:
					cv := g.content(allKinds, 2)
					b, _ = json.Marshal(map[string]any{"content": []Content{cv}, "role": "user"})
				}
				if r.Intn(5) == 0 {
					b = randomBytes(r)
				} else {
					b = mutateBytes(r, b)
				}
				step("c.fuzz "+what+" x"+hx(b), "fuzz:"+strings.Split(what, "/")[0])
			}
		}
		step = newCase("frame-live")
		for i, op := range liveOps {
			step(op, liveOpTags[i]...)
		}
	})
}

func uniqInts(l []int) []int {
	seen := map[int]bool{}
	var out []int
	for _, x := range l {
		if !seen[x] {
			seen[x] = true
			out = append(out, x)
		}
	}
	return out
}

func TestVerifWireBatch(t *testing.T) {
	out := verifOpen(t)
	defer out.close()
	r := verifRng(202)
	runWire(t, out, "batch", func(newCase func(string) stepper) {
		// every batch composition of calls (c) and notifications (n) up to 4, answered in every... random order
		comp := 0
		for size := 1; size <= 4; size++ {
			for mask := 0; mask < 1<<size; mask++ {
				step := newCase(fmt.Sprintf("comp%d", comp))
				comp++
				step("io.new 0")
				out := jv{k: 'a'}
				var ids []string
				for i := 0; i < size; i++ {
					if mask&(1<<i) != 0 {
						id := jInt(int64(100*comp + i))
						ids = append(ids, id.tok())
						out.a = append(out.a, wireReq(&id, "ping", nil))
					} else {
						seq := jObj(jmem{"seq", jInt(int64(i))})
						out.a = append(out.a, wireReq(nil, "notifications/progress", &seq))
					}
				}
				step("io.feed "+out.tok(), fmt.Sprintf("frame:batch%d", size), fmt.Sprintf("batch:calls%d-notifs%d", len(ids), size-len(ids)))
				step("io.eof")
				for i := 0; i < size; i++ {
					if obs := step("io.read"); !strings.HasPrefix(obs, "msg ") {
						break
					}
				}
				r.Shuffle(len(ids), func(i, j int) { ids[i], ids[j] = ids[j], ids[i] })
				for _, id := range ids {
					step("io.write resp "+id+" o{ } -", "write:response")
				}
				step("io.read")
			}
		}
		// order of delivery (C03): batches of 3..8 numbered notifications / calls, alone and between
		// single frames, read to the end
		for size := 3; size <= 8; size++ {
			for variant := 0; variant < 3; variant++ {
				step := newCase(fmt.Sprintf("order%d-%d", size, variant))
				step("io.new 0")
				out := jv{k: 'a'}
				for i := 0; i < size; i++ {
					seq := jObj(jmem{"seq", jInt(int64(i))})
					if variant == 1 || (variant == 2 && i%2 == 0) {
						id := jInt(int64(9000 + 10*size + i))
						out.a = append(out.a, wireReq(&id, "ping", &seq))
					} else {
						out.a = append(out.a, wireReq(nil, "notifications/progress", &seq))
					}
				}
				first := jObj(jmem{"seq", jStr("before")})
				last := jObj(jmem{"seq", jStr("after")})
				step("io.feed "+wireReq(nil, "n", &first).tok(), "frame:single")
				step("io.feed "+out.tok(), fmt.Sprintf("frame:batch%d", size), "order")
				step("io.feed "+wireReq(nil, "n", &last).tok(), "frame:single")
				step("io.eof")
				for i := 0; i < size+3; i++ {
					if obs := step("io.read"); !strings.HasPrefix(obs, "msg ") {
						break
					}
				}
			}
		}
		g := &ioGen{r: r, batchy: true}
		n := verifN(5000, 30000)
		for c := 0; c < n; c++ {
			g.run(newCase(fmt.Sprintf("b%d", c)))
		}
	})
}
