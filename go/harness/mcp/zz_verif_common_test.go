// Shared helpers for the /verif correspondence harnesses grafted into package mcp by -overlay.
// Not part of the repository; lives in /verif/go/harness/mcp.
package mcp

import (
	"bufio"
	"encoding/hex"
	"fmt"
	"math/rand"
	"os"
	"runtime"
	"sort"
	"strconv"
	"strings"
	"sync"
	"sync/atomic"
	"testing"
	"time"
)

type verifOut struct {
	mu sync.Mutex
	w  *bufio.Writer
	f  *os.File

	// hang watchdog (see verifWatch)
	nlines         atomic.Int64
	lastCs, lastOp string        // of the last record written (under mu)
	curCs          string        // set by begin: the case being run and how to print its operations so far
	curOp          func() string //   (for harnesses that write one record per case, at its end)
	closed         atomic.Bool
	noWatch        atomic.Bool // a harness with a watchdog of its own switches the generic one off
}

// begin tells the watchdog which case is running (harnesses that write a case's record only at its end).
func (o *verifOut) begin(cs string, op func() string) {
	o.mu.Lock()
	o.curCs, o.curOp = cs, op
	o.mu.Unlock()
}

// verifHangAfter: how long (REAL time) no record may be written while a goroutine of a synctest bubble is
// blocked, not durably, in SDK code, before the run is declared hung.
const verifHangAfter = 90 * time.Second

// verifWatch is the generic hang watchdog of the synctest harnesses.  A goroutine of a bubble that blocks on
// something synctest does not consider durable (a sync.Mutex, a package-level channel) keeps the bubble from
// ever becoming idle: virtual time stops, synctest.Wait never returns, no deadlock is reported and the test
// would only end at its timeout, without a record of what happened.  This goroutine (outside every bubble)
// therefore watches, in real time, the number of records written; when none was written for verifHangAfter
// AND two goroutine dumps taken 5 s apart show the same bubble goroutine blocked (not durably, not running)
// with the same innermost non-runtime frame in SDK code (not in a zz_verif file), it writes a final record
//   <case> \t verif-hang <ops of the case so far> \t hang blocked=<state>:<func>@<file:line>;… \t hang
// flushes and ends the process; the records written so far are evaluated as usual and every driver answers a
// verif-hang record with the clause "the implementation hung" (Base/Proto.lean).
func verifWatch(o *verifOut) {
	last, since := int64(-1), time.Now()
	for !o.closed.Load() {
		time.Sleep(2 * time.Second)
		if o.noWatch.Load() {
			return
		}
		n := o.nlines.Load()
		if n != last {
			last, since = n, time.Now()
			continue
		}
		if time.Since(since) < verifHangAfter {
			continue
		}
		a := verifBlocked()
		if len(a) == 0 {
			continue
		}
		time.Sleep(5 * time.Second)
		if o.nlines.Load() != last || o.closed.Load() {
			continue
		}
		b := verifBlocked()
		var same []string
		for g, w := range a {
			if b[g] == w {
				same = append(same, w)
			}
		}
		if len(same) == 0 {
			continue
		}
		sort.Strings(same)
		if len(same) > 6 {
			same = same[:6]
		}
		o.mu.Lock()
		cs, op := o.lastCs, "after "+o.lastOp
		if o.curOp != nil {
			cs, op = o.curCs, o.curOp()
		}
		fmt.Fprintf(o.w, "%s\tverif-hang %s\thang blocked=%s\thang\n", cs, op, strings.Join(same, ";"))
		o.w.Flush()
		o.mu.Unlock()
		os.Exit(0)
	}
}

// verifBlocked maps the id of every goroutine of a synctest bubble that is blocked but not durably (which is
// what keeps the bubble from becoming idle) and whose innermost non-runtime frame is SDK code to
// "<state>:<func>@<file:line>".
func verifBlocked() map[string]string {
	buf := make([]byte, 8<<20)
	buf = buf[:runtime.Stack(buf, true)]
	res := map[string]string{}
	for _, g := range strings.Split(string(buf), "\n\n") {
		lines := strings.Split(g, "\n")
		if len(lines) < 3 || !strings.Contains(lines[0], "synctest bubble") || strings.Contains(lines[0], "durable") ||
			strings.Contains(lines[0], "[running") || strings.Contains(lines[0], "[runnable") || strings.Contains(lines[0], "[syscall") {
			continue
		}
		hdr := strings.Fields(lines[0])
		if len(hdr) < 2 {
			continue
		}
		state := lines[0]
		if i, j := strings.Index(state, "["), strings.Index(state, "]"); i >= 0 && j > i {
			state = strings.Split(state[i+1:j], ",")[0]
		}
		for k := 1; k+1 < len(lines); k += 2 {
			fn, loc := lines[k], strings.TrimSpace(lines[k+1])
			if strings.HasPrefix(fn, "created by") {
				break
			}
			if strings.HasPrefix(fn, "runtime.") || strings.HasPrefix(fn, "sync.") || strings.HasPrefix(fn, "sync/") || strings.HasPrefix(fn, "internal/") ||
				strings.HasPrefix(fn, "testing/synctest.") || strings.HasPrefix(fn, "context.") || strings.HasPrefix(fn, "time.") {
				continue
			}
			if strings.Contains(loc, "zz_verif") || !strings.Contains(fn, "modelcontextprotocol/go-sdk") {
				break // blocked in harness code or in a library called from the harness: not a verdict
			}
			if i := strings.LastIndex(loc, "/"); i >= 0 {
				loc = loc[i+1:]
			}
			if i := strings.Index(loc, " "); i >= 0 {
				loc = loc[:i]
			}
			if i := strings.LastIndex(fn, "("); i > 0 {
				fn = fn[:i]
			}
			if i := strings.LastIndex(fn, "/"); i >= 0 {
				fn = fn[i+1:]
			}
			res[hdr[1]] = strings.ReplaceAll(state, " ", "-") + ":" + fn + "@" + loc
			break
		}
	}
	return res
}

// verifOpen opens $VERIF_OUT (or skips the test when the harness is not driven by ./check).
func verifOpen(t *testing.T) *verifOut {
	p := os.Getenv("VERIF_OUT")
	if p == "" {
		t.Skip("VERIF_OUT not set: harness is driven by /verif/check")
	}
	f, err := os.Create(p)
	if err != nil {
		t.Fatal(err)
	}
	o := &verifOut{w: bufio.NewWriterSize(f, 1<<20), f: f}
	go verifWatch(o)
	return o
}

// line writes one protocol record: case, ops, implementation observation, tags.
func (o *verifOut) line(cs string, op string, obs string, tags ...string) {
	o.mu.Lock()
	defer o.mu.Unlock()
	fmt.Fprintf(o.w, "%s\t%s\t%s\t%s\n", cs, op, obs, strings.Join(tags, ","))
	o.lastCs, o.lastOp = cs, op
	o.nlines.Add(1)
}

func (o *verifOut) flush() {
	o.mu.Lock()
	defer o.mu.Unlock()
	o.w.Flush()
}

func (o *verifOut) close() {
	o.closed.Store(true)
	o.mu.Lock()
	defer o.mu.Unlock()
	o.w.Flush()
	o.f.Close()
}

func verifSeed() int64 {
	n, err := strconv.ParseInt(os.Getenv("VERIF_SEED"), 10, 64)
	if err != nil {
		return 1
	}
	return n
}

func verifThorough() bool { return os.Getenv("VERIF_TIER") == "thorough" }

// verifN scales a case count: quick, thorough, or $VERIF_CASES when set.
func verifN(quick, thorough int) int {
	if s := os.Getenv("VERIF_CASES"); s != "" {
		if n, err := strconv.Atoi(s); err == nil {
			return n
		}
	}
	if verifThorough() {
		return thorough
	}
	return quick
}

func verifRng(salt int64) *rand.Rand { return rand.New(rand.NewSource(verifSeed()*1000003 + salt)) }

func hx(b []byte) string  { return hex.EncodeToString(b) }
func hxs(s string) string { return hex.EncodeToString([]byte(s)) }
