// E9 (C13), stream `sessions`: keep-alive through REAL ClientSession/ServerSession pairs under
// testing/synctest.  Per case a real Server and a real Client are connected over the in-memory
// transports, each wrapped in a faulting connection (ksConn) that
//   - treats the k-th ping written by its side on script (forwarded at once / after d / dropped /
//     answered with method-not-found or another error after d),
//   - can make Close return an error (after closing the inner connection, the way CommandTransport
//     reports a child's exit status), make Read fail at an instant, make Write fail from an instant on.
//
// Below the connections, the byte stream of either side can STOP READING for a while (ksStall): nothing
// is lost, but the other side's writes block until the reading resumes — ioConn.Write does not look at
// its context while the stream write is blocked, so a ping written then OVERRUNS its deadline, ticks
// fire meanwhile (one stays pending), and the loop serves the pending tick the moment the ping is over.
//
// Keep-alive is enabled on the client, the server or both.  One end event happens at a PRNG-chosen
// instant (before the first tick, while a ping is in flight, between two ticks): Close of either
// session, a read failure or a write failure on either side, or nothing; at the horizon both
// sessions are closed.  Observed per keep-alive side, in that side's own time (0 = its Connect):
//   - every ping ATTEMPT of the session (sending middleware: instant, deadline, result, duration);
//     these results, in order, are the ping outcomes the property quantifies over — they go into the
//     op (`script=`), padded with `x` for pings that were due before the cancellation and not tried; a
//     ping that lasted longer than half an interval is written in capitals when it returned the moment
//     its transport write returned (the write was blocked), else it is a ping that ignored its deadline;
//   - every keep-alive log record (tolerated miss = WARN, closing = ERROR) with its instant;
//   - the instant the transport connection was closed (`shut`);
//   - whether that side's startKeepalive goroutine exists (runtime.Stack of the bubble, attributed by
//     its creator goroutine) right after the end event has completed, just before the horizon, and
//     after the final Close; ping attempts / log records after the final Close (`late`).
//
// The Lean side runs KeepAlive.runCancel on (interval, threshold, observed outcomes, instant of the
// first Close call) and the property monitor checks the loop's decisions and its silence after Close.
package mcp

import (
	"context"
	"errors"
	"fmt"
	"io"
	"log/slog"
	"math/rand"
	"net"
	"os"
	"runtime"
	"strconv"
	"strings"
	"sync"
	"sync/atomic"
	"testing"
	"testing/synctest"
	"time"

	"github.com/modelcontextprotocol/go-sdk/internal/jsonrpc2"
	"github.com/modelcontextprotocol/go-sdk/jsonrpc"
)

const (
	ksClient = 0
	ksServer = 1
	ksPhase  = 100 // the client connects 100 units after the server: the two tick grids never meet
)

var ksLegacy = []string{protocolVersion20251125, protocolVersion20250618, protocolVersion20250326, protocolVersion20241105}

type ksScn struct {
	ka   string      // "c", "s", "b": side(s) with keep-alive
	u    int64       // ns per unit; every instant below is in units
	I    [2]int64    // interval
	T    [2]int      // configured failure threshold
	wire [2][]kaStep // what the wire does with the k-th ping written by that side
	cerr [2]bool     // the transport connection's Close returns an error
	end  string      // none | cc sc: Close | cr sr: Read fails | cw sw: Write fails from then on
	te   int64       // instant of the end event, from the server's Connect
	tH   int64       // horizon: both sessions are closed
	pv   int         // index into ksLegacy
	st   [2]ksStall  // st[side]: that side's byte stream does not read during [from, from+d)
}

type ksStall struct{ from, d int64 } // units, from the server's Connect; d == 0: none

func ksSteps(l []kaStep) string {
	if len(l) == 0 {
		return "-"
	}
	s := make([]string, len(l))
	for i, st := range l {
		if st.kind == 'n' || st.kind == 'x' {
			s[i] = string(st.kind)
		} else {
			s[i] = fmt.Sprintf("%c%d", st.kind, st.d)
		}
	}
	return strings.Join(s, ".")
}

func ksParseSteps(s string) ([]kaStep, bool) {
	if s == "-" || s == "" {
		return nil, true
	}
	var out []kaStep
	for _, p := range strings.Split(s, ".") {
		if p == "n" {
			out = append(out, kaStep{'n', 0})
			continue
		}
		if len(p) < 2 || !strings.ContainsRune("ame", rune(p[0])) {
			return nil, false
		}
		d, err := strconv.ParseInt(p[1:], 10, 64)
		if err != nil || d < 0 {
			return nil, false
		}
		out = append(out, kaStep{p[0], d})
	}
	return out, true
}

func b2i(b bool) int {
	if b {
		return 1
	}
	return 0
}

func (sc *ksScn) String() string {
	s := fmt.Sprintf("ka:%s/u:%d/Ic:%d/Tc:%d/Is:%d/Ts:%d/wc:%s/ws:%s/ce:%d/se:%d/end:%s@%d/H:%d/pv:%d",
		sc.ka, sc.u, sc.I[0], sc.T[0], sc.I[1], sc.T[1], ksSteps(sc.wire[0]), ksSteps(sc.wire[1]),
		b2i(sc.cerr[0]), b2i(sc.cerr[1]), sc.end, sc.te, sc.tH, sc.pv)
	for side, n := range []string{"stc", "sts"} {
		if sc.st[side].d > 0 {
			s += fmt.Sprintf("/%s:%d+%d", n, sc.st[side].from, sc.st[side].d)
		}
	}
	return s
}

func ksParseScn(s string) (*ksScn, bool) {
	kv := map[string]string{}
	for _, f := range strings.Split(s, "/") {
		if i := strings.IndexByte(f, ':'); i > 0 {
			kv[f[:i]] = f[i+1:]
		}
	}
	sc := &ksScn{ka: kv["ka"]}
	num := func(k string) int64 {
		n, err := strconv.ParseInt(kv[k], 10, 64)
		if err != nil {
			return -1 << 40
		}
		return n
	}
	sc.u, sc.I[0], sc.I[1], sc.tH = num("u"), num("Ic"), num("Is"), num("H")
	sc.T[0], sc.T[1], sc.pv = int(num("Tc")), int(num("Ts")), int(num("pv"))
	sc.cerr[0], sc.cerr[1] = kv["ce"] == "1", kv["se"] == "1"
	var ok1, ok2 bool
	sc.wire[0], ok1 = ksParseSteps(kv["wc"])
	sc.wire[1], ok2 = ksParseSteps(kv["ws"])
	e := strings.SplitN(kv["end"], "@", 2)
	if len(e) != 2 {
		return nil, false
	}
	sc.end = e[0]
	te, err := strconv.ParseInt(e[1], 10, 64)
	sc.te = te
	for side, n := range []string{"stc", "sts"} {
		if v, ok := kv[n]; ok {
			var f, d int64
			if _, err := fmt.Sscanf(v, "%d+%d", &f, &d); err != nil || f <= ksPhase || d <= 0 {
				return nil, false
			}
			sc.st[side] = ksStall{f, d}
		}
	}
	okEnd := map[string]bool{"none": true, "cc": true, "sc": true, "cr": true, "sr": true, "cw": true, "sw": true}[sc.end]
	if err != nil || !ok1 || !ok2 || !okEnd || (sc.ka != "c" && sc.ka != "s" && sc.ka != "b") ||
		sc.u < 1 || sc.I[0] < 2 || sc.I[1] < 2 || sc.tH <= ksPhase || sc.pv < 0 || sc.pv >= len(ksLegacy) ||
		sc.T[0] < -1000 || sc.T[1] < -1000 || (sc.end != "none" && (sc.te <= ksPhase || sc.te >= sc.tH)) {
		return nil, false
	}
	return sc, true
}

func (sc *ksScn) has(side int) bool {
	return sc.ka == "b" || (sc.ka == "c" && side == ksClient) || (sc.ka == "s" && side == ksServer)
}

// ---------------------------------------------------------------------------------------------
// observation

type ksPing struct {
	at, dur, to int64 // absolute ns, ns, ns (what was left until the deadline; -1<<62: no deadline)
	kind        byte  // 'a' nil, 'm' errors.Is(err, jsonrpc2.ErrMethodNotFound), 'e' any other error
	blocked     bool  // it returned at the very instant its (blocked) transport write returned
}

type ksSide struct {
	mu        sync.Mutex
	phi       int64 // absolute ns at which Connect returned (keep-alive started)
	pings     []ksPing
	warns     []int64
	errs      []int64
	shut      int64
	latePings int
	lateLogs  int
	otherLogs int
	creator   int64
	conn      *ksConn
}

type ksRun struct {
	t0   time.Time
	sc   *ksScn
	over atomic.Bool
	side [2]*ksSide
}

func (r *ksRun) now() int64 { return time.Since(r.t0).Nanoseconds() }

// mw is the sending middleware of one side: it sees every ping the session tries to send.
func (r *ksRun) mw(side int) Middleware {
	return func(next MethodHandler) MethodHandler {
		return func(ctx context.Context, method string, req Request) (Result, error) {
			if method != methodPing {
				return next(ctx, method, req)
			}
			s := r.side[side]
			if r.over.Load() {
				s.mu.Lock()
				s.latePings++
				s.mu.Unlock()
				return next(ctx, method, req)
			}
			at := r.now()
			to := int64(-1 << 62)
			if dl, ok := ctx.Deadline(); ok {
				to = dl.Sub(r.t0).Nanoseconds() - at
			}
			res, err := next(ctx, method, req)
			k := byte('a')
			if err != nil {
				k = 'e'
				if errors.Is(err, jsonrpc2.ErrMethodNotFound) {
					k = 'm'
				}
			}
			s.mu.Lock()
			end := r.now()
			blocked := false
			if c := s.conn; c != nil {
				c.mu.Lock()
				blocked = c.pingWrBlocked && c.pingWrEnd == end && c.pingWrStart >= at
				c.mu.Unlock()
			}
			s.pings = append(s.pings, ksPing{at: at, dur: end - at, to: to, kind: k, blocked: blocked})
			s.mu.Unlock()
			return res, err
		}
	}
}

// ksLog is the slog.Handler of one side; it keeps the keep-alive records.
type ksLog struct {
	r    *ksRun
	side int
}

func (h ksLog) Enabled(context.Context, slog.Level) bool { return true }
func (h ksLog) WithAttrs([]slog.Attr) slog.Handler       { return h }
func (h ksLog) WithGroup(string) slog.Handler            { return h }
func (h ksLog) Handle(_ context.Context, rec slog.Record) error {
	s := h.r.side[h.side]
	s.mu.Lock()
	defer s.mu.Unlock()
	if !strings.HasPrefix(rec.Message, "keepalive") {
		s.otherLogs++
		return nil
	}
	switch {
	case h.r.over.Load():
		s.lateLogs++
	case rec.Level >= slog.LevelError:
		s.errs = append(s.errs, h.r.now())
	default:
		s.warns = append(s.warns, h.r.now())
	}
	return nil
}

func ksGoid() int64 {
	var buf [64]byte
	f := strings.Fields(string(buf[:runtime.Stack(buf[:], false)]))
	if len(f) < 2 {
		return -1
	}
	n, _ := strconv.ParseInt(f[1], 10, 64)
	return n
}

// ksLoops returns, per creator goroutine id, the number of goroutines that are inside the
// keep-alive loop of startKeepalive.
func ksLoops() map[int64]int {
	buf := make([]byte, 1<<16)
	for {
		n := runtime.Stack(buf, true)
		if n < len(buf) {
			buf = buf[:n]
			break
		}
		buf = make([]byte, 2*len(buf))
	}
	out := map[int64]int{}
	for _, g := range strings.Split(string(buf), "\n\n") {
		if !strings.Contains(g, "mcp.startKeepalive.func1(") {
			continue
		}
		id := int64(-1)
		if i := strings.LastIndex(g, "mcp.startKeepalive in goroutine "); i >= 0 {
			rest := g[i+len("mcp.startKeepalive in goroutine "):]
			if j := strings.IndexAny(rest, "\n "); j >= 0 {
				rest = rest[:j]
			}
			id, _ = strconv.ParseInt(rest, 10, 64)
		}
		out[id]++
	}
	return out
}

// ---------------------------------------------------------------------------------------------
// the faulting connection

var (
	errKsClose = errors.New("verif: exit status 1")
	errKsRead  = errors.New("verif: read failure")
	errKsWrite = errors.New("verif: write failure")
)

type ksItem struct {
	msg jsonrpc.Message
	err error
}

type ksConn struct {
	Connection
	r         *ksRun
	side      int
	in        chan ksItem
	inj       chan jsonrpc.Message
	done      chan struct{}
	readFail  chan struct{}
	closeOnce sync.Once
	writeFail atomic.Bool
	mu        sync.Mutex
	idx       int
	// the last ping this side wrote: when its Write was entered and left, and whether that took time
	pingWrStart, pingWrEnd int64
	pingWrBlocked          bool
	// wlock serialises the writes to the inner connection the way ioConn's own mutex does (not looking at
	// any context) — but as a channel: a goroutine that waits for a sync.Mutex is not durably blocked, and
	// the bubble's clock would stand still while a write is blocked behind a stalled one
	wlock chan struct{}
	slow  [][2]int64 // Write calls of this side that took time: entered, left (absolute ns)
}

func (c *ksConn) innerWrite(ctx context.Context, msg jsonrpc.Message) error {
	c.wlock <- struct{}{}
	defer func() { <-c.wlock }()
	return c.Connection.Write(ctx, msg)
}

// ksStallRWC is one end of the in-memory byte stream; during [from, to) (absolute ns) it does not read,
// so the other end's writes block (net.Pipe is unbuffered).  Nothing is lost.
type ksStallRWC struct {
	net.Conn
	r        *ksRun
	from, to int64
}

func (c *ksStallRWC) Read(b []byte) (int, error) {
	for {
		now := c.r.now()
		if now >= c.from && now < c.to {
			time.Sleep(time.Duration(c.to - now))
			continue
		}
		if now < c.from {
			c.Conn.SetReadDeadline(c.r.t0.Add(time.Duration(c.from)))
		} else {
			c.Conn.SetReadDeadline(time.Time{})
		}
		n, err := c.Conn.Read(b)
		if n == 0 && errors.Is(err, os.ErrDeadlineExceeded) {
			continue // the stall begins
		}
		return n, err
	}
}

type ksTransport struct {
	Transport
	r    *ksRun
	side int
}

func (t *ksTransport) Connect(ctx context.Context) (Connection, error) {
	inner, err := t.Transport.Connect(ctx)
	if err != nil {
		return nil, err
	}
	c := &ksConn{Connection: inner, r: t.r, side: t.side, in: make(chan ksItem), inj: make(chan jsonrpc.Message, 256),
		done: make(chan struct{}), readFail: make(chan struct{}), wlock: make(chan struct{}, 1)}
	t.r.side[t.side].conn = c
	go func() { // pump: the only reader of the inner connection
		for {
			msg, err := inner.Read(context.Background())
			select {
			case c.in <- ksItem{msg, err}:
			case <-c.done:
				return
			}
			if err != nil {
				return
			}
		}
	}()
	return c, nil
}

func (c *ksConn) Read(ctx context.Context) (jsonrpc.Message, error) {
	select {
	case <-c.readFail:
		return nil, errKsRead
	default:
	}
	select {
	case it := <-c.in:
		return it.msg, it.err
	case m := <-c.inj:
		return m, nil
	case <-c.readFail:
		return nil, errKsRead
	case <-c.done:
		return nil, io.EOF
	case <-ctx.Done():
		return nil, ctx.Err()
	}
}

func (c *ksConn) Write(ctx context.Context, msg jsonrpc.Message) error {
	if c.writeFail.Load() {
		return errKsWrite
	}
	entered := c.r.now()
	defer func() {
		if left := c.r.now(); left > entered {
			c.mu.Lock()
			c.slow = append(c.slow, [2]int64{entered, left})
			c.mu.Unlock()
		}
	}()
	req, ok := msg.(*jsonrpc.Request)
	if !ok || !req.IsCall() || req.Method != methodPing {
		return c.innerWrite(ctx, msg)
	}
	c.mu.Lock()
	st := kaStep{'a', 0} // past the script: a healthy wire
	if w := c.r.sc.wire[c.side]; c.idx < len(w) {
		st = w[c.idx]
	}
	c.idx++
	c.pingWrStart, c.pingWrEnd, c.pingWrBlocked = c.r.now(), -1, false
	c.mu.Unlock()
	defer func() {
		c.mu.Lock()
		c.pingWrEnd = c.r.now()
		c.pingWrBlocked = c.pingWrEnd > c.pingWrStart
		c.mu.Unlock()
	}()
	d := time.Duration(st.d * c.r.sc.u)
	switch st.kind {
	case 'n':
		return nil // lost on the wire
	case 'a':
		if d == 0 {
			return c.innerWrite(ctx, msg)
		}
		go func() {
			time.Sleep(d)
			c.innerWrite(context.Background(), msg) // fails harmlessly once the pipe is closed
		}()
		return nil
	}
	resp := &jsonrpc.Response{ID: req.ID, Error: &jsonrpc.Error{Code: jsonrpc.CodeInternalError, Message: "peer failure"}}
	if st.kind == 'm' {
		resp.Error = &jsonrpc.Error{Code: jsonrpc.CodeMethodNotFound, Message: "method not found: ping"}
	}
	go func() {
		time.Sleep(d)
		select {
		case c.inj <- resp:
		default:
		}
	}()
	return nil
}

func (c *ksConn) Close() error {
	var err error
	c.closeOnce.Do(func() {
		s := c.r.side[c.side]
		s.mu.Lock()
		s.shut = c.r.now()
		s.mu.Unlock()
		close(c.done)
		err = c.Connection.Close()
	})
	if c.r.sc.cerr[c.side] {
		return errKsClose
	}
	return err
}

// ---------------------------------------------------------------------------------------------
// one scenario

type ksRec struct {
	side    int
	op, obs string
	tags    []string
	leaked  bool
}

func ksLocal(l []int64, phi int64) string {
	q := make([]int64, len(l))
	for i, v := range l {
		q[i] = v - phi
	}
	return kaInts(q)
}

func ksRunScn(t *testing.T, sc *ksScn, flushLeak func([]ksRec)) (recs []ksRec) {
	fail := func(what string) []ksRec {
		var out []ksRec
		for side := 0; side < 2; side++ {
			if sc.has(side) {
				out = append(out, ksRec{side: side, op: fmt.Sprintf("kss side=%s I=%d T=%d script=- cancel=1 at=-,1 scn=%s", "cs"[side:side+1], sc.I[side]*sc.u, sc.T[side], sc), obs: what, tags: []string{"harness-failure"}})
			}
		}
		return out
	}
	recs = fail("panic")
	synctest.Test(t, func(t *testing.T) {
		defer func() {
			if x := recover(); x != nil {
				recs = fail("panic")
			}
		}()
		r := &ksRun{t0: time.Now(), sc: sc}
		r.side[0], r.side[1] = &ksSide{shut: -1}, &ksSide{shut: -1}
		u := time.Duration(sc.u)
		until := func(units int64) {
			if d := time.Duration(units)*u - time.Since(r.t0); d > 0 {
				time.Sleep(d)
			}
			synctest.Wait()
		}
		ctx := context.Background()
		ct, st := NewInMemoryTransports()
		for side, tr := range []*InMemoryTransport{ct, st} {
			if w := sc.st[side]; w.d > 0 {
				tr.rwc = &ksStallRWC{Conn: tr.rwc.(net.Conn), r: r, from: w.from * sc.u, to: (w.from + w.d) * sc.u}
			}
		}

		so := &ServerOptions{Logger: slog.New(ksLog{r, ksServer})}
		if sc.has(ksServer) {
			so.KeepAlive, so.KeepAliveFailureThreshold = time.Duration(sc.I[ksServer])*u, sc.T[ksServer]
		}
		srv := NewServer(&Implementation{Name: "s", Version: "1"}, so)
		srv.AddSendingMiddleware(r.mw(ksServer))
		var ss *ServerSession
		var cs *ClientSession
		var err error
		ready := make(chan struct{})
		go func() {
			defer close(ready)
			r.side[ksServer].creator = ksGoid()
			ss, err = srv.Connect(ctx, &ksTransport{st, r, ksServer}, nil)
			r.side[ksServer].phi = r.now()
		}()
		<-ready
		if err != nil {
			recs = fail("connect-failed")
			return
		}
		until(ksPhase)
		co := &ClientOptions{Logger: slog.New(ksLog{r, ksClient})}
		if sc.has(ksClient) {
			co.KeepAlive, co.KeepAliveFailureThreshold = time.Duration(sc.I[ksClient])*u, sc.T[ksClient]
		}
		cl := NewClient(&Implementation{Name: "c", Version: "1"}, co)
		cl.AddSendingMiddleware(r.mw(ksClient))
		ready = make(chan struct{})
		go func() {
			defer close(ready)
			r.side[ksClient].creator = ksGoid()
			cs, err = cl.Connect(ctx, &ksTransport{ct, r, ksClient}, &ClientSessionOptions{ProtocolVersion: ksLegacy[sc.pv]})
			r.side[ksClient].phi = r.now()
		}()
		<-ready
		if err != nil {
			ss.Close()
			recs = fail("connect-failed")
			return
		}
		live := func() [2]int {
			m := ksLoops()
			return [2]int{m[r.side[0].creator], m[r.side[1].creator]}
		}

		// the end event
		s1 := int64(-1)
		var live1 [2]int
		callAt := [2]int64{-1, -1} // absolute instant of the first Close call from outside, per side
		if sc.end != "none" {
			until(sc.te)
			switch sc.end {
			case "cc":
				callAt[ksClient] = r.now()
				cs.Close()
			case "sc":
				callAt[ksServer] = r.now()
				ss.Close()
			case "cr":
				close(r.side[ksClient].conn.readFail)
			case "sr":
				close(r.side[ksServer].conn.readFail)
			case "cw":
				r.side[ksClient].conn.writeFail.Store(true)
			case "sw":
				r.side[ksServer].conn.writeFail.Store(true)
			}
			synctest.Wait()
			s1 = r.now()
			live1 = live()
		}
		until(sc.tH - 50)
		s2 := r.now()
		live2 := live()
		until(sc.tH)
		for side := 0; side < 2; side++ {
			if callAt[side] < 0 {
				callAt[side] = r.now()
			}
		}
		cs.Close()
		ss.Close()
		synctest.Wait()
		r.over.Store(true)
		maxI, maxT := sc.I[0], sc.T[0]
		if sc.I[1] > maxI {
			maxI = sc.I[1]
		}
		if sc.T[1] > maxT {
			maxT = sc.T[1]
		}
		if maxT < 1 {
			maxT = 1
		}
		time.Sleep(time.Duration(int64(maxT+3)*maxI) * u)
		synctest.Wait()
		live3 := live()

		recs = nil
		leaked := false
		for side := 0; side < 2; side++ {
			if !sc.has(side) {
				continue
			}
			s := r.side[side]
			s.mu.Lock()
			I := sc.I[side] * sc.u
			cancel := callAt[side] - s.phi
			var script []kaStep
			var at, tos []int64
			inflight, before, overrun, blockedAtClose := false, 0, false, false
			for _, p := range s.pings {
				if p.at < callAt[side] {
					before++
				}
				k := p.kind
				if p.dur > I/2 && p.blocked {
					k, overrun = k-'a'+'A', true // it overran its deadline while its write was blocked
				}
				script = append(script, kaStep{k, p.dur})
				at = append(at, p.at)
				tos = append(tos, p.to)
				if p.at < callAt[side] && callAt[side] < p.at+p.dur {
					inflight = true
					blockedAtClose = p.blocked && p.dur > I/2
				}
			}
			to := kaTos(tos)
			for n := 0; n < 1000; n++ { // pings that were due before the Close call and were not tried
				starts, _ := kaSchedule(I, append(script[:len(script):len(script)], kaStep{'x', 0}))
				if starts[len(script)] >= cancel {
					break
				}
				script = append(script, kaStep{'x', 0})
			}
			a1 := "-"
			sAt := "-"
			if s1 >= 0 {
				a1 = strconv.Itoa(live1[side])
				sAt = strconv.FormatInt(s1-s.phi, 10)
			}
			shut := "-"
			if s.shut >= 0 {
				shut = strconv.FormatInt(s.shut-s.phi, 10)
			}
			// the session's Close waits for transport writes that are under way: when keep-alive reported
			// closing at c, until when was a write of this side blocked
			wblk := "-"
			if len(s.errs) > 0 && s.conn != nil {
				s.conn.mu.Lock()
				w := int64(-1)
				for _, iv := range s.conn.slow {
					if iv[1] > s.errs[0] && iv[1] > w && (s.shut < 0 || iv[0] < s.shut) {
						w = iv[1]
					}
				}
				s.conn.mu.Unlock()
				if w >= 0 {
					wblk = strconv.FormatInt(w-s.phi, 10)
				}
			}
			exit := 1
			if live3[side] > 0 {
				exit = 0
				leaked = true
			}
			op := fmt.Sprintf("kss side=%s I=%d T=%d script=%s cancel=%d at=%s,%d scn=%s", "cs"[side:side+1], I, sc.T[side],
				strings.ReplaceAll(ksSteps(script), ".", ","), cancel, sAt, s2-s.phi, sc)
			obs := fmt.Sprintf("pings=%s to=%s close=%s exit=%d late=%d warn=%s shut=%s live=%s%d wblk=%s", ksLocal(at, s.phi), to, ksLocal(s.errs, s.phi),
				exit, s.latePings+s.lateLogs, ksLocal(s.warns, s.phi), shut, a1, live2[side], wblk)
			tags := []string{"ka=" + sc.ka, "side=" + "cs"[side:side+1], "end=" + sc.end, fmt.Sprintf("T=%d", sc.T[side]), fmt.Sprintf("len=%d", len(s.pings))}
			if sc.cerr[side] {
				tags = append(tags, "close-returns-error")
			}
			own := (sc.end == "cc" && side == ksClient) || (sc.end == "sc" && side == ksServer)
			switch {
			case own && inflight:
				tags = append(tags, "closed-while-ping-in-flight")
			case own && before == 0:
				tags = append(tags, "closed-before-first-tick")
			case own:
				tags = append(tags, "closed-between-ticks")
			case sc.end == "cc" || sc.end == "sc":
				tags = append(tags, "peer-closed")
			}
			if len(s.errs) > 0 {
				tags = append(tags, "closed-by-keepalive")
			}
			if sc.st[1-side].d > 0 {
				tags = append(tags, "peer-stops-reading")
			}
			if sc.st[side].d > 0 {
				tags = append(tags, "stops-reading")
			}
			if overrun {
				tags = append(tags, "has-overrun")
			}
			if own && blockedAtClose {
				tags = append(tags, "closed-while-write-blocked")
			}
			seen := map[byte]bool{}
			for _, p := range s.pings {
				if !seen[p.kind] {
					seen[p.kind] = true
					tags = append(tags, map[byte]string{'a': "has-answer", 'm': "has-method-not-found", 'e': "has-failure"}[p.kind])
				}
				if p.kind == 'e' && p.dur == I/2 && !seen['t'] {
					seen['t'] = true
					tags = append(tags, "has-timeout")
				}
			}
			if sc.u > 1 {
				tags = append(tags, "seconds")
			}
			s.mu.Unlock()
			recs = append(recs, ksRec{side: side, op: op, obs: obs, tags: tags})
		}
		if leaked && flushLeak != nil {
			// a loop goroutine that never ends keeps the bubble from exiting: put the records on disk first
			for i := range recs {
				recs[i].leaked = true
			}
			flushLeak(recs)
		}
	})
	return recs
}

// ---------------------------------------------------------------------------------------------
// generator

// ksDelay: a delay in units for a ping of `side`; in time (< I/2) or late.  The residues mod 100
// differ per side (server 20/40/60, client 30/50/70) and from the end instants (…7) so that events of
// the two sessions and the end event never share an instant.
func ksDelay(rng *rand.Rand, side int, I int64, late bool) int64 {
	r := int64(0)
	if side == ksClient {
		r = 10
	}
	if late {
		return []int64{I/2 + 60 + r, I - 140 + r, I + 160 + r, 3*I + 60 + r}[rng.Intn(4)]
	}
	return []int64{0, 0, 20 + r, 120 + r, 240 + r, 440 + r}[rng.Intn(6)]
}

func ksWire(rng *rand.Rand, side int, I int64, n int) []kaStep {
	pAns := []int{15, 45, 70, 90}[rng.Intn(4)]
	var out []kaStep
	for i := 0; i < n; i++ {
		x := rng.Intn(100)
		switch {
		case x < pAns:
			out = append(out, kaStep{'a', ksDelay(rng, side, I, false)})
		case x < pAns+(100-pAns)/10:
			out = append(out, kaStep{'m', ksDelay(rng, side, I, rng.Intn(4) == 0)})
		case x < pAns+(100-pAns)*4/10:
			out = append(out, kaStep{'e', ksDelay(rng, side, I, rng.Intn(4) == 0)})
		case x < pAns+(100-pAns)*5/10:
			out = append(out, kaStep{'a', ksDelay(rng, side, I, true)})
		default:
			out = append(out, kaStep{'n', 0})
		}
	}
	return out
}

// ksServed: the number of ticks the loop of `side` serves if nothing but the wire script happens
// (the tick on which it closes the session or learns that ping is unsupported; past the script the
// wire is healthy, so a loop that survives the script goes on).
func ksServed(sc *ksScn, side int) int {
	T := sc.T[side]
	if T < 1 {
		T = 1
	}
	fails := 0
	for i, st := range sc.wire[side] {
		inTime := st.kind != 'n' && st.d < sc.I[side]/2
		switch {
		case inTime && st.kind == 'a':
			fails = 0
		case inTime && st.kind == 'm':
			return i + 1
		default:
			fails++
			if fails >= T {
				return i + 1
			}
		}
	}
	return len(sc.wire[side]) + 3
}

func ksHorizon(sc *ksScn, from int64) int64 {
	maxI, maxT := sc.I[0], sc.T[0]
	if sc.I[1] > maxI {
		maxI = sc.I[1]
	}
	if sc.T[1] > maxT {
		maxT = sc.T[1]
	}
	if maxT < 1 {
		maxT = 1
	}
	need := from + int64(maxT+2)*maxI
	return (need/15000+1)*15000 - 193
}

func ksRandom(rng *rand.Rand, maxLen, maxT int) *ksScn {
	sc := &ksScn{ka: []string{"c", "s", "b"}[rng.Intn(3)], u: 1, pv: rng.Intn(len(ksLegacy))}
	if rng.Intn(4) == 0 {
		sc.u = int64(time.Millisecond) // intervals of 1 s, 3 s, 5 s
	}
	maxN := 0
	for side := 0; side < 2; side++ {
		sc.I[side] = []int64{1000, 1000, 3000, 5000}[rng.Intn(4)]
		sc.T[side] = rng.Intn(maxT+2) - 1
		sc.cerr[side] = rng.Intn(2) == 0
		if sc.has(side) {
			n := rng.Intn(maxLen + 1)
			sc.wire[side] = ksWire(rng, side, sc.I[side], n)
			if n > maxN {
				maxN = n
			}
		}
	}
	x := rng.Intn(100)
	switch {
	case x < 26:
		sc.end = "cc"
	case x < 52:
		sc.end = "sc"
	case x < 60:
		sc.end = "cr"
	case x < 68:
		sc.end = "sr"
	case x < 76:
		sc.end = "cw"
	case x < 84:
		sc.end = "sw"
	default:
		sc.end = "none"
	}
	// the instant: relative to a tick of a side that has keep-alive
	ref := ksClient
	if sc.ka == "s" || (sc.ka == "b" && rng.Intn(2) == 0) {
		ref = ksServer
	}
	phi := int64(0)
	if ref == ksClient {
		phi = ksPhase
	}
	I := sc.I[ref]
	k := int64(rng.Intn(len(sc.wire[ref]) + 2))
	if served := ksServed(sc, ref); k > int64(served) && rng.Intn(5) > 0 {
		k = int64(rng.Intn(served + 1)) // mostly while that loop is still at work
	}
	// how long ping k of the reference side is in flight if only the wire script matters
	w := int64(0)
	if k >= 1 && int(k) <= len(sc.wire[ref]) {
		if st := sc.wire[ref][k-1]; st.kind == 'n' || st.d >= I/2 {
			w = I / 2
		} else {
			w = st.d
		}
	}
	switch m := rng.Intn(10); {
	case k == 0 || m == 0: // before the first tick (of the reference side)
		sc.te = phi + 107 + 10*rng.Int63n((I-110)/10)
	case m < 5 && w >= 20: // while ping k is in flight
		sc.te = phi + k*I + 7 + 10*rng.Int63n((w-8)/10+1)
	case m < 3: // shortly after tick k
		sc.te = phi + k*I + 7 + 10*rng.Int63n(I/20)
	default: // between the end of ping k and tick k+1
		sc.te = phi + k*I + I/2 + 7 + 10*rng.Int63n(I/20-1)
	}
	from := sc.te
	if sc.end == "none" {
		sc.te = 0
		from = int64(maxN+1) * 5000
	}
	if rng.Intn(4) == 0 {
		// the peer of the reference side stops reading: from shortly before tick j of the reference side
		// (or while its ping j-1 may still be in flight) until x intervals after that tick
		j := int64(1 + rng.Intn(len(sc.wire[ref])+2))
		lead := []int64{47, 147, 447, I/2 + 147}[rng.Intn(4)]
		x := []int64{I / 4, 8 * I / 10, 13 * I / 10, 16 * I / 10, 26 * I / 10, 31 * I / 10}[rng.Intn(6)]
		sc.st[1-ref] = ksStall{phi + j*I - lead, lead + x + 6}
		if int(j) <= len(sc.wire[ref]) && rng.Intn(4) > 0 {
			sc.wire[ref][j-1] = kaStep{'a', 0} // that ping is written to the stalled stream
		}
		if sc.end != "none" && rng.Intn(2) == 0 {
			// the end event while that write is (or may be) blocked
			sc.te = phi + j*I + 7 + 10*rng.Int63n((x+9)/10)
			from = sc.te
		}
		if e := sc.st[1-ref].from + sc.st[1-ref].d; e > from {
			from = e
		}
	}
	sc.tH = ksHorizon(sc, from)
	return sc
}

// ksMatrix: the systematic part — every (keep-alive side(s)) x (who closes) x (Close returns an
// error or not) x (close before the first tick / while a ping is in flight / between ticks) x
// (wire healthy / peer silent) x thresholds 1, 3.
func ksMatrix() []*ksScn {
	var out []*ksScn
	for _, ka := range []string{"c", "s", "b"} {
		for _, end := range []string{"cc", "sc"} {
			for ce := 0; ce < 2; ce++ {
				for when := 0; when < 3; when++ {
					for wire := 0; wire < 2; wire++ {
						for _, T := range []int{1, 3} {
							sc := &ksScn{ka: ka, u: 1, end: end, I: [2]int64{1000, 1000}, T: [2]int{T, T}, pv: (ce + when + wire) % len(ksLegacy)}
							sc.cerr = [2]bool{ce == 1, ce == 1}
							for side := 0; side < 2; side++ {
								if !sc.has(side) {
									continue
								}
								r := int64(10 * (1 - side))
								if wire == 0 {
									sc.wire[side] = []kaStep{{'a', 0}, {'a', 240 + r}, {'a', 440 + r}}
								} else {
									sc.wire[side] = []kaStep{{'a', 20 + r}, {'n', 0}, {'n', 0}, {'n', 0}}
								}
							}
							phi := int64(0)
							if end == "cc" {
								phi = ksPhase
							}
							switch when {
							case 0:
								sc.te = phi + 407
							case 1:
								sc.te = phi + 2000 + 137
							default:
								sc.te = phi + 2000 + 777
							}
							sc.tH = ksHorizon(sc, sc.te)
							out = append(out, sc)
						}
					}
				}
			}
		}
	}
	return out
}

// ksStallMatrix: the systematic part for the fault "the peer stops reading": keep-alive side(s) x
// thresholds 2, 3 x the peer resumes 0.25 / 0.8 / 1.3 / 1.6 / 2.6 intervals after the tick whose ping it
// blocked (no overrun / overrun without a missed tick / a pending tick served 0.3 resp. 0.6 intervals
// late / a pending and a dropped tick) x (nothing else happens / the keep-alive side's session is closed
// while the write is blocked / after the peer has resumed); the wire is healthy.
func ksStallMatrix() []*ksScn {
	var out []*ksScn
	const I = 1000
	for ki, ka := range []string{"c", "s", "b"} {
		for _, T := range []int{2, 3} {
			for xi, x := range []int64{250, 800, 1300, 1600, 2600} {
				for ev := 0; ev < 3; ev++ {
					sc := &ksScn{ka: ka, u: 1, end: "none", I: [2]int64{I, I}, T: [2]int{T, T}, pv: (ki + xi + ev) % len(ksLegacy)}
					side := ksClient // the side whose pings are blocked
					if ka == "s" || (ka == "b" && (xi+ev)%2 == 1) {
						side = ksServer
					}
					phi := int64(0)
					if side == ksClient {
						phi = ksPhase
					}
					sc.st[1-side] = ksStall{phi + 2*I - 147, 147 + x + 6} // from just before tick 2
					last := phi + 2*I + x + 6
					switch ev {
					case 1:
						sc.end, sc.te = []string{"cc", "sc"}[side], phi+2*I+x/2+7
					case 2:
						sc.end, sc.te = []string{"cc", "sc"}[side], last+I/2+201
						last = sc.te
					}
					sc.cerr = [2]bool{ev == 1 && xi%2 == 0, ev == 1 && xi%2 == 0}
					sc.tH = ksHorizon(sc, last+I)
					out = append(out, sc)
				}
			}
		}
	}
	return out
}

func TestVerifKeepAliveSess(t *testing.T) {
	out := verifOpen(t)
	defer out.close()
	n := 0
	emit := func(prefix string, sc *ksScn) {
		id := fmt.Sprintf("%s%d", prefix, n)
		n++
		write := func(recs []ksRec) {
			for _, rc := range recs {
				out.line(id, rc.op, rc.obs, rc.tags...)
			}
		}
		recs := ksRunScn(t, sc, func(recs []ksRec) {
			write(recs)
			out.flush()
		})
		if len(recs) == 0 || !recs[0].leaked {
			write(recs)
		}
	}
	replay := func(path, cs string) {
		b, err := os.ReadFile(path)
		if err != nil {
			t.Fatal(err)
		}
		seen := map[string]bool{}
		for _, ln := range strings.Split(string(b), "\n") {
			ln = strings.TrimSpace(ln)
			if !strings.HasPrefix(ln, "kss ") || strings.Contains(ln, " scn=shttp|") {
				continue // `ka`/`kas` lines belong to the stream `loop`, `kss … scn=shttp|…` to the stream `http`
			}
			scn := ""
			for _, tok := range strings.Fields(ln) {
				if strings.HasPrefix(tok, "scn=") {
					scn = tok[4:]
				}
			}
			if seen[scn] {
				continue // the two records of one scenario
			}
			seen[scn] = true
			sc, ok := ksParseScn(scn)
			if !ok {
				out.line(cs, ln, "bad-op", "corpus")
				continue
			}
			emit(cs+"-", sc)
		}
	}
	if p := os.Getenv("VERIF_REPLAY"); p != "" {
		replay(p, "replay")
		if n == 0 {
			out.line("replay", "reset", "ok", "reset") // a replay of the other stream of this engine
		}
		return
	}
	if p := os.Getenv("VERIF_CORPUS"); p != "" {
		ents, _ := os.ReadDir(p)
		for _, e := range ents {
			if strings.HasSuffix(e.Name(), ".ops") {
				replay(p+"/"+e.Name(), "corpus-"+strings.TrimSuffix(e.Name(), ".ops"))
			}
		}
	}
	if os.Getenv("VERIF_CASES") == "" {
		for _, sc := range ksMatrix() {
			emit("m", sc)
		}
		for _, sc := range ksStallMatrix() {
			emit("t", sc)
		}
	}
	rng := verifRng(1313)
	nr := verifN(1500, 12000)
	for i := 0; i < nr; i++ {
		if verifThorough() {
			emit("q", ksRandom(rng, 14, 6))
		} else {
			emit("q", ksRandom(rng, 8, 4))
		}
	}
}
