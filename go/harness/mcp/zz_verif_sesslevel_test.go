// E1 stream "sess": two REAL sessions (Server + Client) over the in-memory / io-pipe transports, each
// side behind a fault-injecting Transport wrapper with a wire tap, driven by a PRNG-chosen sequence of
// user-level actions under testing/synctest.  The session layer that the controlled-schedule harness
// (zz_verif_conn_test.go) does not reach is exercised here: ClientSession.Close / ServerSession.Close
// (keep-alive cancel, listen-stream cancel via callSubscriptionsListen -> cancelCall, listenIDs,
// onClose), Client.disconnect / Server.disconnect, Wait on both sides, the real handlers with Async,
// ioConn's ndjson layer.
//
// One record per case:  op = "sess seed=<n> idx=<k> <description>",  obs = "clean" | violated clauses.
// The session-level monitors of C01..C05 are evaluated HERE (judge); the Lean driver compares the
// observation with the constant "clean" and turns any other text into the violated clause.
// The case is a pure function of (seed, idx): VERIF_REPLAY files carrying the op line re-run it.
package mcp

import (
	"context"
	"encoding/json"
	"errors"
	"fmt"
	"io"
	"math/rand"
	"net"
	"os"
	"runtime"
	"slices"
	"sort"
	"strconv"
	"strings"
	"sync"
	"testing"
	"testing/synctest"
	"time"

	"github.com/modelcontextprotocol/go-sdk/internal/jsonrpc2"
	"github.com/modelcontextprotocol/go-sdk/jsonrpc"
)

var (
	errVsBroken = errors.New("write |1: broken pipe (verif fault)")
	errVsReset  = errors.New("read |0: connection reset by peer (verif fault)")
)

const (
	vsClient = 0
	vsServer = 1
)

var vsSideName = [2]string{"client", "server"}
var vsSessName = [2]string{"ClientSession", "ServerSession"}

// ---------------------------------------------------------------------------------------------
// fault-injecting transport wrapper with a wire tap

type vsWire struct {
	seq    int
	dir    byte // 'r' read by this side, 'w' written by this side
	kind   byte // 'c' call, 'n' notification, 'r' response
	id     string
	method string
	ok     bool // for writes: the message reached the inner transport without error
}

type vsSide struct {
	c    *vsCase
	who  int
	conn *vsConn

	// faults (guarded by c.mu)
	wfailArmed  bool
	wfailAt     int // writes (count) from which on every Write fails
	rejectArmed bool
	rfailArmed  bool
	rfailAt     int // reads (count) after which Read fails
	rfailErr    error
	rfailCh     chan struct{} // closed when the read fault is due
	rfailDue    bool
	writes      int
	reads       int

	writersBlocked int // goroutines inside (or queued for) the inner transport's Write
	failed       bool // the transport returned a read or write error to this side
	closeCalls   int
	closeRunning []int  // handlers of this side running at each Close of the transport
	closeFailed  []bool // the transport had already failed at that Close
	running      int    // user handlers of this side currently running
	tap          []vsWire
	onClose      int
	closeBegun   bool // the harness called Close on this side's session
	rcClose      int  // IOTransport: Close calls on the Reader half handed to the transport
	wcClose      int  // IOTransport: Close calls on the Writer half
	closeBegunSeq int
}

// vsPipeReader / vsPipeWriter: the two halves a user hands to IOTransport, each counting its Close
// calls. The Writer's Close can be made to FAIL (after closing the pipe: a writer that flushes on Close
// when the peer has stopped reading, a writer that was already closed): "writes start failing midway"
// includes the last one.
type vsPipeReader struct {
	io.ReadCloser
	s *vsSide
}

func (p *vsPipeReader) Close() error {
	p.s.c.mu.Lock()
	p.s.rcClose++
	p.s.c.trLocked("%s READER HALF CLOSE", vsSideName[p.s.who])
	p.s.c.mu.Unlock()
	return p.ReadCloser.Close()
}

type vsPipeWriter struct {
	io.WriteCloser
	s    *vsSide
	fail bool
}

var errVsCloseFail = errors.New("close |1: flush failed: broken pipe (verif fault)")

func (p *vsPipeWriter) Close() error {
	p.s.c.mu.Lock()
	p.s.wcClose++
	p.s.c.trLocked("%s WRITER HALF CLOSE (fails: %v)", vsSideName[p.s.who], p.fail)
	p.s.c.mu.Unlock()
	err := p.WriteCloser.Close()
	if p.fail {
		return errVsCloseFail
	}
	return err
}

type vsTransport struct {
	inner Transport
	side  *vsSide
}

func (t *vsTransport) Connect(ctx context.Context) (Connection, error) {
	in, err := t.inner.Connect(ctx)
	if err != nil {
		return nil, err
	}
	v := &vsConn{inner: in, s: t.side, pump: make(chan vsMsgOrErr), closed: make(chan struct{}), wsem: make(chan struct{}, 1)}
	t.side.conn = v
	go v.runPump()
	return v, nil
}

type vsMsgOrErr struct {
	m   jsonrpc.Message
	err error
}

type vsConn struct {
	inner     Connection
	s         *vsSide
	pump      chan vsMsgOrErr
	closed    chan struct{}
	closeOnce sync.Once
	// wsem serialises Write. ioConn does that itself with a sync.Mutex, but a goroutine waiting for a
	// mutex is not "durably blocked" for synctest: when the peer stops draining the pipe, one writer
	// sits in the pipe and the others would keep synctest.Wait from ever returning. A channel is
	// durable; ioConn's own mutex is then never contended. Like the mutex, it ignores ctx.
	wsem chan struct{}
}

// runPump is the only reader of the inner connection; Read selects between it and the read fault.
func (v *vsConn) runPump() {
	for {
		m, err := v.inner.Read(context.Background())
		select {
		case v.pump <- vsMsgOrErr{m, err}:
		case <-v.closed:
			return
		}
		if err != nil {
			return
		}
	}
}

func vsClassifyMsg(m jsonrpc.Message) (kind byte, id, method string) {
	switch m := m.(type) {
	case *jsonrpc.Request:
		if m.IsCall() {
			return 'c', fmt.Sprint(m.ID.Raw()), m.Method
		}
		return 'n', "", m.Method
	case *jsonrpc.Response:
		if m.ID.IsValid() {
			return 'r', fmt.Sprint(m.ID.Raw()), ""
		}
		return 'r', "", ""
	}
	return '?', "", ""
}

func (v *vsConn) SessionID() string { return v.inner.SessionID() }

// sessionUpdated forwards the server session state to ioConn (it selects the batching rules).
func (v *vsConn) sessionUpdated(st ServerSessionState) {
	if sc, ok := v.inner.(serverConnection); ok {
		sc.sessionUpdated(st)
	}
}

func (v *vsConn) readFault() error {
	s := v.s
	s.c.mu.Lock()
	defer s.c.mu.Unlock()
	if s.rfailArmed && s.rfailDue {
		s.failed = true
		return s.rfailErr
	}
	return nil
}

func (v *vsConn) Read(ctx context.Context) (jsonrpc.Message, error) {
	s := v.s
	if err := v.readFault(); err != nil {
		return nil, err
	}
	s.c.mu.Lock()
	fch := s.rfailCh
	s.c.mu.Unlock()
	select {
	case x := <-v.pump:
		if x.err != nil {
			s.c.mu.Lock()
			s.failed = true
			s.c.evLocked()
			s.c.mu.Unlock()
			return nil, x.err
		}
		if err := v.readFault(); err != nil {
			return nil, err // the fault became due while this Read was blocked: the message is lost
		}
		kind, id, method := vsClassifyMsg(x.m)
		s.c.mu.Lock()
		s.reads++
		s.tap = append(s.tap, vsWire{seq: s.c.evLocked(), dir: 'r', kind: kind, id: id, method: method, ok: true})
		s.c.trLocked("%s READ %c id=%s %s", vsSideName[s.who], kind, id, method)
		if s.rfailArmed && !s.rfailDue && s.reads >= s.rfailAt {
			s.rfailDue = true
			close(s.rfailCh)
		}
		s.c.mu.Unlock()
		return x.m, nil
	case <-fch:
		if err := v.readFault(); err != nil {
			return nil, err
		}
		return nil, io.EOF
	case <-v.closed:
		return nil, io.EOF
	case <-ctx.Done():
		return nil, ctx.Err()
	}
}

func (v *vsConn) Write(ctx context.Context, msg jsonrpc.Message) error {
	s := v.s
	kind, id, method := vsClassifyMsg(msg)
	var inj error
	s.c.mu.Lock()
	switch {
	case s.wfailArmed && s.writes >= s.wfailAt:
		inj = errVsBroken
		s.failed = true
	case s.rejectArmed && kind != 'r':
		// only requests and notifications are refused: a refused response would leave the peer's call
		// unanswered through no fault of the SDK
		s.rejectArmed = false
		inj = fmt.Errorf("%w: verif fault", jsonrpc2.ErrRejected)
		if method == notificationCancelled {
			s.c.cancelNoticeLost = true
		}
	default:
		s.writes++
	}
	s.c.mu.Unlock()
	if inj != nil {
		s.c.mu.Lock()
		s.tap = append(s.tap, vsWire{seq: s.c.evLocked(), dir: 'w', kind: kind, id: id, method: method, ok: false})
		s.c.trLocked("%s WRITE %c id=%s %s => injected %v", vsSideName[s.who], kind, id, method, inj)
		s.c.mu.Unlock()
		return inj
	}
	s.c.mu.Lock()
	s.writersBlocked++
	s.c.mu.Unlock()
	v.wsem <- struct{}{}
	err := v.inner.Write(ctx, msg)
	<-v.wsem
	s.c.mu.Lock()
	s.writersBlocked--
	s.tap = append(s.tap, vsWire{seq: s.c.evLocked(), dir: 'w', kind: kind, id: id, method: method, ok: err == nil})
	s.c.trLocked("%s WRITE %c id=%s %s => %v", vsSideName[s.who], kind, id, method, err)
	selfInflicted := ""
	if err != nil && ctx.Err() == nil {
		c := s.c
		// The inner transport is the SDK's own (in-memory pipe / io pipe): nothing but an armed fault, a Close
		// or the peer's end going away makes its Write fail. A failure without any of these is the SDK
		// breaking its own transport (e.g. a stale write deadline) — it must not excuse what follows.
		if !c.faultEver && !c.side[0].closeBegun && !c.side[1].closeBegun && !c.side[0].failed && !c.side[1].failed && !c.stopped && c.side[0].closeCalls == 0 && c.side[1].closeCalls == 0 {
			selfInflicted = fmt.Sprintf("C04+C05: the %s's transport Write of %s failed with %q although no fault was injected, nobody closed the session and the peer is alive: the session is no longer usable",
				vsSideName[s.who], method, err.Error())
		}
		s.failed = true
	}
	s.c.mu.Unlock()
	if selfInflicted != "" {
		s.c.viol("%s", selfInflicted)
	}
	return err
}

func (v *vsConn) Close() error {
	s := v.s
	s.c.mu.Lock()
	s.closeCalls++
	s.closeRunning = append(s.closeRunning, s.running)
	s.closeFailed = append(s.closeFailed, s.failed)
	s.c.evLocked()
	s.c.trLocked("%s TRANSPORT CLOSE (running handlers %d, failed %v)", vsSideName[s.who], s.running, s.failed)
	s.c.mu.Unlock()
	v.closeOnce.Do(func() { close(v.closed) })
	return v.inner.Close()
}

// ---------------------------------------------------------------------------------------------
// the case

type vsBeh struct {
	park   bool
	sleep  time.Duration
	fail   int64  // tool: answer with this JSON-RPC error code
	cb     string // tool: call back into the client: roots | sample | elicit | ping
	cbPark bool   // the client handler of that callback parks
	prog   int    // tool: send this many progress notifications first
}

// vsHRec: one run of a user handler, identified by the token of the message it handles.
type vsHRec struct {
	tok       string
	side      int
	kind      string
	runs      int
	startSeq  int
	endSeq    int
	startT    int64
	endT      int64
	finished  bool
	ctx       context.Context
	ctxErr    string
	cause     string
	gate      chan struct{}
	parked    bool
	released  bool
	wasParked bool
	bothOpen  bool // at exit with a cancelled context: neither transport had been closed or had failed
}

type vsCall struct {
	n          int
	tok        string
	side       int
	kind       string // tool list ping sub unsub notify | sping roots sample elicit snotify
	gor        string
	isNotify   bool
	ctx        context.Context
	cancel     context.CancelFunc
	startSeq   int
	startT     int64
	done       bool
	endSeq     int
	endT       int64
	err        error
	payload    string
	cancelled  bool
	cancelT    int64
	timing     string
	inFlightAtCancel bool
	disturbed  bool // the session was not healthy when the call returned
	afterDone  bool // started when the session's connection had already terminated
	followUpOf string
	cx         *vsCancelRec
	panicked   string
	toolName   string
}

// vsCancelRec: what was observed around the cancellation of a call's context (recorded for the typed Lean
// monitor SessMon.callMon, clause P_cancel; nothing is judged here).
type vsCancelRec struct {
	timing   string
	healthy  bool
	stalled  bool
	returned bool
	delay    int64
	hParked  bool
	hSaw     bool
	touched  []vsTouched
}

type vsTouched struct {
	when string
	toks []string // handlers running with a live context before the cancellation whose context is cancelled now
}

type vsWaiter struct {
	side     int
	what     string // Close | Wait
	done     bool
	startSeq int
	startT   int64
	endT     int64
	err      error
}

type vsIssued struct {
	tok     string
	isNotif bool
	from    int // issuing side
}

type vsCfg struct {
	pipe      bool
	version   string
	listen    bool // client has a ToolListChangedHandler
	kaClient  time.Duration
	kaServer  time.Duration
	hsFault   string // fault armed before Connect ("" = none)
	nact      int
	faultBudget int
	// axes added later draw from their own generator (vsRng2), so that the cases of a given (seed, idx)
	// keep their earlier shape
	wcloseFail [2]bool // pipe transport: Close of this side's Writer half returns an error
	subPark    bool    // the server's SubscribeHandler parks (released like a parked tool handler)
	viaRun     bool    // the server side is started with Server.Run(ctx, transport) instead of Server.Connect
	runCtxClose bool   // viaRun: the harness's server-side Close cancels Run's context (Run then closes the session) instead of calling ServerSession.Close
}

type vsCase struct {
	// counters recorded for the typed Lean monitor (rec)
	runCancel                    context.CancelFunc
	runDone                      chan struct{}
	runReturned                  bool // guarded by mu
	probeRecs                    []string
	recHang, recJudged           bool // recJudged: judge() ran (the counters are final)
	recSsess, recCsess, recSubs int
	nsubh int // SubscribeHandler invocations (guarded by mu)
	nCancelChecks int // cancellations judged so far in this case
	seed int64
	idx  int
	rng  *rand.Rand
	cfg  vsCfg

	mu   sync.Mutex
	t0   time.Time
	seq  int
	tags map[string]bool
	desc []string

	server *Server
	client *Client
	ss     *ServerSession
	cs     *ClientSession
	connectErr error
	side   [2]*vsSide
	raw    []io.Closer

	beh       map[string]vsBeh
	hrec      map[string]*vsHRec
	hlist     []*vsHRec
	produced  map[string]string
	issued    map[string][]vsIssued
	calls     []*vsCall
	waiters   []*vsWaiter
	ntok      int
	ngor      int
	releaseAllFlag bool
	faultEver bool
	cancelNoticeLost bool
	toolsEver map[string]bool
	dyn       []string
	ndyn      int
	subs      []string
	listChanged int
	viols     []string
	panics    []string
	qSeq      int
	qUsable   [2]bool
	qTaken    bool
	baseGor   int
	trace     []string
	wfailOn   map[string]bool
	rfailOn   map[string]bool // sides with an armed read fault (reof/rerr)
	cbWaiting int  // tool handlers currently inside a (bounded) callback into the client
	stopped   bool // forceCleanup has begun: programs stop issuing further steps
	listenIDsAtClose map[string]bool // ids registered in ss.listenIDs when the harness called ServerSession.Close
}

func vsRng2(seed int64, idx int) *rand.Rand {
	return rand.New(rand.NewSource(seed*1000033 + 9100000 + int64(idx)))
}

func vsRng(seed int64, idx int) *rand.Rand {
	return rand.New(rand.NewSource(seed*1000003 + 7700000 + int64(idx)))
}

var vsDebug = os.Getenv("VERIF_SESS_DEBUG") != ""
var vsUnboundedCB = os.Getenv("VERIF_SESS_UNBOUNDED_CB") != ""

const vsCallbackTimeout = 10 * time.Second

// trLocked records a line of the case's event trace (VERIF_SESS_DEBUG=1 prints it to stderr).
func (c *vsCase) trLocked(format string, a ...any) {
	if vsDebug {
		c.trace = append(c.trace, fmt.Sprintf("  #%d t=%dms ", c.seq, time.Since(c.t0).Milliseconds())+fmt.Sprintf(format, a...))
	}
}
func (c *vsCase) tr(format string, a ...any) {
	if vsDebug {
		c.mu.Lock()
		c.trLocked(format, a...)
		c.mu.Unlock()
	}
}

func (c *vsCase) evLocked() int { c.seq++; return c.seq }
func (c *vsCase) ev() int {
	c.mu.Lock()
	defer c.mu.Unlock()
	return c.evLocked()
}
func (c *vsCase) now() int64 { return time.Since(c.t0).Milliseconds() }
func (c *vsCase) tag(t string) { c.tags[t] = true }
func (c *vsCase) viol(format string, a ...any) {
	c.mu.Lock()
	defer c.mu.Unlock()
	v := fmt.Sprintf(format, a...)
	for _, x := range c.viols {
		if x == v {
			return
		}
	}
	c.viols = append(c.viols, v)
}
func (c *vsCase) newTok(p string) string { c.ntok++; return fmt.Sprintf("%s%d", p, c.ntok) }

func (c *vsCase) setBeh(tok string, b vsBeh) {
	c.mu.Lock()
	c.beh[tok] = b
	c.mu.Unlock()
}

func (c *vsCase) behOf(tok string) vsBeh {
	c.mu.Lock()
	defer c.mu.Unlock()
	return c.beh[tok]
}

// --- user handlers -----------------------------------------------------------------------------

func (c *vsCase) enter(side int, kind, tok string, ctx context.Context) *vsHRec {
	c.mu.Lock()
	defer c.mu.Unlock()
	h := c.hrec[tok]
	if h == nil {
		h = &vsHRec{tok: tok, side: side, kind: kind}
		c.hrec[tok] = h
		c.hlist = append(c.hlist, h)
	}
	h.runs++
	h.ctx = ctx
	h.startSeq = c.evLocked()
	h.startT = c.now()
	c.side[side].running++
	c.trLocked("%s handler %s %s START", vsSideName[side], kind, tok)
	return h
}

func (c *vsCase) exit(h *vsHRec) {
	c.mu.Lock()
	defer c.mu.Unlock()
	h.finished = true
	h.endSeq = c.evLocked()
	h.endT = c.now()
	if err := h.ctx.Err(); err != nil {
		h.ctxErr = vsErrClass(err)
		h.cause = vsErrClass(context.Cause(h.ctx))
		h.bothOpen = c.side[0].closeCalls == 0 && c.side[1].closeCalls == 0 && !c.side[0].failed && !c.side[1].failed
	}
	c.side[h.side].running--
	c.trLocked("%s handler %s %s END ctx=%s cause=%s", vsSideName[h.side], h.kind, h.tok, h.ctxErr, h.cause)
}

// hold parks or sleeps according to the behaviour; both end early when ctx is cancelled.
func (c *vsCase) hold(h *vsHRec, b vsBeh, park bool) {
	if b.sleep > 0 {
		tm := time.NewTimer(b.sleep)
		select {
		case <-tm.C:
		case <-h.ctx.Done():
			tm.Stop()
		}
	}
	if !park {
		return
	}
	c.mu.Lock()
	if c.releaseAllFlag {
		c.mu.Unlock()
		return
	}
	h.gate = make(chan struct{})
	h.parked = true
	h.wasParked = true
	c.mu.Unlock()
	select {
	case <-h.gate:
	case <-h.ctx.Done():
	}
	c.mu.Lock()
	h.parked = false
	c.mu.Unlock()
}

func (c *vsCase) release(h *vsHRec) {
	c.mu.Lock()
	defer c.mu.Unlock()
	if h.parked && !h.released {
		h.released = true
		close(h.gate)
	}
}

func (c *vsCase) releaseAll() {
	c.mu.Lock()
	c.releaseAllFlag = true
	hs := append([]*vsHRec(nil), c.hlist...)
	c.mu.Unlock()
	for _, h := range hs {
		c.release(h)
	}
}

func (c *vsCase) parkedGates() []*vsHRec {
	c.mu.Lock()
	defer c.mu.Unlock()
	var out []*vsHRec
	for _, h := range c.hlist {
		if h.parked && !h.released {
			out = append(out, h)
		}
	}
	return out
}

func (c *vsCase) nonce() string { return strconv.Itoa(c.ev()) }

func (c *vsCase) toolHandler(ctx context.Context, req *CallToolRequest) (*CallToolResult, error) {
	var a struct {
		Tok string `json:"tok"`
	}
	json.Unmarshal(req.Params.Arguments, &a)
	h := c.enter(vsServer, "tool", a.Tok, ctx)
	defer c.exit(h)
	b := c.behOf(a.Tok)
	gor := "h:" + a.Tok
	for i := 0; i < b.prog; i++ {
		ptok := fmt.Sprintf("%s/p%d", a.Tok, i)
		cl := c.newCall(vsServer, "snotify", ptok, gor, ctx)
		cl.isNotify = true
		c.runCall(cl, func(ctx context.Context) (string, error) {
			return "", req.Session.NotifyProgress(ctx, &ProgressNotificationParams{ProgressToken: ptok, Message: ptok, Progress: float64(i + 1)})
		})
	}
	if b.cb != "" {
		// "Provided handlers return": a handler must not wait for its peer for ever. A callback into a client
		// whose write half is broken (read half open) can never be answered, and the client keeps its own
		// call to this handler registered meanwhile (DESIGN C05 proviso (d)); before the F26 repair the same
		// held for a client that was merely closing. So the callback is bounded like careful user code would
		// bound it; VERIF_SESS_UNBOUNDED_CB=1 removes the bound (on a tree without the F26 fix it shows that
		// deadlock with one closing side; with it, only the broken-writer cycle remains).
		cctx, ccancel := ctx, context.CancelFunc(func() {})
		if !vsUnboundedCB {
			cctx, ccancel = context.WithTimeout(ctx, vsCallbackTimeout)
		}
		cl := c.newCall(vsServer, b.cb, a.Tok+"/cb", gor, cctx)
		c.mu.Lock()
		c.cbWaiting++
		c.mu.Unlock()
		c.runCall(cl, func(ctx context.Context) (string, error) { return c.serverCall(ctx, req.Session, b.cb, a.Tok+"/cb") })
		c.mu.Lock()
		c.cbWaiting--
		c.mu.Unlock()
		ccancel()
	}
	c.hold(h, b, b.park)
	if ctx.Err() != nil {
		return nil, ctx.Err()
	}
	if b.fail != 0 {
		return nil, &jsonrpc.Error{Code: b.fail, Message: "verif tool failure " + a.Tok}
	}
	text := "echo:" + a.Tok + ":" + c.nonce()
	c.mu.Lock()
	c.produced[a.Tok] = text
	c.mu.Unlock()
	return &CallToolResult{Content: []Content{&TextContent{Text: text}}}, nil
}

// serverCall performs one server->client request and returns its payload.
func (c *vsCase) serverCall(ctx context.Context, ss *ServerSession, kind, tok string) (string, error) {
	switch kind {
	case "sping", "ping":
		return "", ss.Ping(ctx, nil)
	case "roots":
		res, err := ss.ListRoots(ctx, &ListRootsParams{Meta: Meta{"tok": tok}})
		if err != nil {
			return "", err
		}
		var us []string
		for _, r := range res.Roots {
			us = append(us, r.URI)
		}
		return "roots:" + strings.Join(us, ","), nil
	case "sample":
		res, err := ss.CreateMessage(ctx, &CreateMessageParams{MaxTokens: 8, SystemPrompt: tok,
			Messages: []*SamplingMessage{{Role: "user", Content: &TextContent{Text: tok}}}})
		if err != nil {
			return "", err
		}
		return res.Model, nil
	case "elicit":
		res, err := ss.Elicit(ctx, &ElicitParams{Message: tok})
		if err != nil {
			return "", err
		}
		s, _ := res.Content["tok"].(string)
		return s, nil
	}
	return "", fmt.Errorf("verif: unknown server call %q", kind)
}

// serverSubscribe is the server's SubscribeHandler (resources/subscribe, and every URI of a
// subscriptions/listen): user code that runs INSIDE the listen handler before it parks. With cfg.subPark
// it parks on a gate like a tool handler (released by a release action, by its context or at the end).
func (c *vsCase) serverSubscribe(ctx context.Context, req *SubscribeRequest) error {
	if !c.cfg.subPark {
		return nil
	}
	c.mu.Lock()
	c.nsubh++
	tok := fmt.Sprintf("subh%d", c.nsubh)
	c.mu.Unlock()
	h := c.enter(vsServer, "subscribe", tok, ctx)
	defer c.exit(h)
	c.hold(h, vsBeh{}, true)
	return nil
}

func (c *vsCase) serverProgress(ctx context.Context, req *ProgressNotificationServerRequest) {
	tok, _ := req.Params.ProgressToken.(string)
	h := c.enter(vsServer, "prog", tok, ctx)
	defer c.exit(h)
	b := c.behOf(tok)
	c.hold(h, b, b.park)
}

func (c *vsCase) clientProgress(ctx context.Context, req *ProgressNotificationClientRequest) {
	tok, _ := req.Params.ProgressToken.(string)
	h := c.enter(vsClient, "prog", tok, ctx)
	defer c.exit(h)
	b := c.behOf(tok)
	c.hold(h, b, b.park)
}

func (c *vsCase) clientSample(ctx context.Context, req *CreateMessageRequest) (*CreateMessageResult, error) {
	tok := req.Params.SystemPrompt
	h := c.enter(vsClient, "sample", tok, ctx)
	defer c.exit(h)
	b := c.behOf(tok)
	c.hold(h, b, b.park)
	if ctx.Err() != nil {
		return nil, ctx.Err()
	}
	text := "model:" + tok + ":" + c.nonce()
	c.mu.Lock()
	c.produced[tok] = text
	c.mu.Unlock()
	return &CreateMessageResult{Model: text, Role: "assistant", Content: &TextContent{Text: text}}, nil
}

func (c *vsCase) clientElicit(ctx context.Context, req *ElicitRequest) (*ElicitResult, error) {
	tok := req.Params.Message
	h := c.enter(vsClient, "elicit", tok, ctx)
	defer c.exit(h)
	b := c.behOf(tok)
	c.hold(h, b, b.park)
	if ctx.Err() != nil {
		return nil, ctx.Err()
	}
	text := "elicit:" + tok + ":" + c.nonce()
	c.mu.Lock()
	c.produced[tok] = text
	c.mu.Unlock()
	return &ElicitResult{Action: "accept", Content: map[string]any{"tok": text}}, nil
}

func (c *vsCase) clientToolsChanged(ctx context.Context, _ *ToolListChangedRequest) {
	c.mu.Lock()
	c.side[vsClient].running++
	c.listChanged++
	c.evLocked()
	c.side[vsClient].running--
	c.mu.Unlock()
}

// --- calls -------------------------------------------------------------------------------------

func (c *vsCase) newCall(side int, kind, tok, gor string, parent context.Context) *vsCall {
	ctx, cancel := context.WithCancel(parent)
	cl := &vsCall{tok: tok, side: side, kind: kind, gor: gor, ctx: ctx, cancel: cancel}
	c.mu.Lock()
	cl.n = len(c.calls)
	c.calls = append(c.calls, cl)
	c.issued[gor] = append(c.issued[gor], vsIssued{tok: tok, isNotif: kind == "notify" || kind == "snotify", from: side})
	c.mu.Unlock()
	return cl
}

func (c *vsCase) connDone(side int) bool {
	defer func() { recover() }()
	if side == vsClient {
		if c.cs == nil {
			return true
		}
		return c.cs.conn.VerifSnapshot().Done
	}
	return c.ss.conn.VerifSnapshot().Done
}

// usable reports whether the side's jsonrpc2 connection has not begun to shut down.
func (c *vsCase) usable(side int) bool {
	var v jsonrpc2.VerifState
	if side == vsClient {
		if c.cs == nil {
			return false
		}
		v = c.cs.conn.VerifSnapshot()
	} else {
		if c.ss == nil {
			return false
		}
		v = c.ss.conn.VerifSnapshot()
	}
	return !v.Closing && !v.ReadErr && !v.WriteErr && !v.Done
}

// healthy: nothing has disturbed the pair of sessions so far.
func (c *vsCase) healthy() bool {
	c.mu.Lock()
	bad := c.faultEver || c.side[0].closeBegun || c.side[1].closeBegun || c.side[0].failed || c.side[1].failed
	c.mu.Unlock()
	return !bad && c.usable(vsClient) && c.usable(vsServer)
}

func (c *vsCase) runCall(cl *vsCall, f func(ctx context.Context) (string, error)) {
	cl.afterDone = c.connDone(cl.side)
	c.mu.Lock()
	cl.startSeq = c.evLocked()
	cl.startT = c.now()
	c.trLocked("%s call %s %s [%s] START", vsSessName[cl.side], cl.kind, cl.tok, cl.gor)
	c.mu.Unlock()
	var payload string
	var err error
	func() {
		defer func() {
			if r := recover(); r != nil {
				cl.panicked = fmt.Sprint(r)
			}
		}()
		payload, err = f(cl.ctx)
	}()
	h := c.healthy()
	c.mu.Lock()
	cl.payload, cl.err = payload, err
	cl.disturbed = !h
	cl.endSeq = c.evLocked()
	cl.endT = c.now()
	cl.done = true
	c.trLocked("%s call %s %s RETURN %s %q", vsSessName[cl.side], cl.kind, cl.tok, vsErrClass(err), payload)
	c.mu.Unlock()
}

func (c *vsCase) runningHandlers() int {
	c.mu.Lock()
	defer c.mu.Unlock()
	return c.side[0].running + c.side[1].running
}

func (c *vsCase) isStopped() bool {
	c.mu.Lock()
	defer c.mu.Unlock()
	return c.stopped
}

type vsStep struct {
	kind string
	tok  string
	tool string
	uri  string
}

// clientProgram runs the steps in sequence on the calling goroutine.
func (c *vsCase) clientProgram(gor string, steps []vsStep) {
	cs := c.cs
	for _, st := range steps {
		st := st
		if c.isStopped() {
			return
		}
		cl := c.newCall(vsClient, st.kind, st.tok, gor, context.Background())
		cl.toolName = st.tool
		switch st.kind {
		case "tool":
			c.runCall(cl, func(ctx context.Context) (string, error) {
				res, err := cs.CallTool(ctx, &CallToolParams{Name: st.tool, Arguments: map[string]any{"tok": st.tok}})
				if err != nil {
					return "", err
				}
				if len(res.Content) != 1 {
					return fmt.Sprintf("content#%d", len(res.Content)), nil
				}
				tc, _ := res.Content[0].(*TextContent)
				if tc == nil {
					return "content?", nil
				}
				return tc.Text, nil
			})
		case "list":
			c.runCall(cl, func(ctx context.Context) (string, error) {
				res, err := cs.ListTools(ctx, nil)
				if err != nil {
					return "", err
				}
				var ns []string
				for _, t := range res.Tools {
					ns = append(ns, t.Name)
				}
				sort.Strings(ns)
				return strings.Join(ns, ","), nil
			})
		case "ping":
			c.runCall(cl, func(ctx context.Context) (string, error) { return "", cs.Ping(ctx, nil) })
		case "sub":
			c.runCall(cl, func(ctx context.Context) (string, error) { return "", cs.Subscribe(ctx, &SubscribeParams{URI: st.uri}) })
		case "unsub":
			c.runCall(cl, func(ctx context.Context) (string, error) { return "", cs.Unsubscribe(ctx, &UnsubscribeParams{URI: st.uri}) })
		case "notify":
			cl.isNotify = true
			c.runCall(cl, func(ctx context.Context) (string, error) {
				return "", cs.NotifyProgress(ctx, &ProgressNotificationParams{ProgressToken: st.tok, Message: st.tok, Progress: 1})
			})
		}
	}
}

func (c *vsCase) serverProgram(gor string, steps []vsStep) {
	ss := c.ss
	for _, st := range steps {
		st := st
		if c.isStopped() {
			return
		}
		cl := c.newCall(vsServer, st.kind, st.tok, gor, context.Background())
		if st.kind == "snotify" {
			cl.isNotify = true
			c.runCall(cl, func(ctx context.Context) (string, error) {
				return "", ss.NotifyProgress(ctx, &ProgressNotificationParams{ProgressToken: st.tok, Message: st.tok, Progress: 1})
			})
			continue
		}
		c.runCall(cl, func(ctx context.Context) (string, error) { return c.serverCall(ctx, ss, st.kind, st.tok) })
	}
}

// --- generation --------------------------------------------------------------------------------

var vsVersions = []string{protocolVersion20241105, protocolVersion20250326, protocolVersion20250618, protocolVersion20251125, protocolVersion20260728}

func (c *vsCase) genCfg() {
	r := c.rng
	c.cfg.pipe = r.Intn(4) == 0
	if r.Intn(100) < 45 {
		c.cfg.version = protocolVersion20260728
	} else {
		c.cfg.version = vsVersions[r.Intn(4)]
	}
	c.cfg.listen = r.Intn(10) < 8
	switch r.Intn(10) {
	case 0:
		c.cfg.kaClient = 400 * time.Millisecond
	case 1:
		c.cfg.kaServer = 400 * time.Millisecond
	case 2:
		c.cfg.kaClient = 300 * time.Millisecond
		c.cfg.kaServer = 500 * time.Millisecond
	}
	if r.Intn(100) < 6 {
		c.cfg.hsFault = c.pickFault()
	}
	c.cfg.nact = 5 + r.Intn(9)
	switch x := r.Intn(100); {
	case x < 45:
		c.cfg.faultBudget = 0
	case x < 92:
		c.cfg.faultBudget = 1
	default:
		c.cfg.faultBudget = 2
	}
	tr := "mem"
	if c.cfg.pipe {
		tr = "pipe"
	}
	ka := "-"
	switch {
	case c.cfg.kaClient > 0 && c.cfg.kaServer > 0:
		ka = "both"
	case c.cfg.kaClient > 0:
		ka = "c"
	case c.cfg.kaServer > 0:
		ka = "s"
	}
	lst := "0"
	if c.cfg.listen {
		lst = "1"
	}
	c.desc = append(c.desc, "tr="+tr, "v="+c.cfg.version, "lc="+lst, "ka="+ka)
	r2 := vsRng2(c.seed, c.idx)
	if c.cfg.pipe {
		for i := range c.cfg.wcloseFail {
			if c.cfg.wcloseFail[i] = r2.Intn(3) == 0; c.cfg.wcloseFail[i] {
				c.desc = append(c.desc, "wcf="+vsSideName[i][:1])
				c.tag("writer-close-fails")
			}
		}
	} else {
		r2.Intn(3)
		r2.Intn(3)
	}
	if c.cfg.subPark = r2.Intn(5) == 0; c.cfg.subPark {
		c.desc = append(c.desc, "subpark")
		c.tag("subscribe-handler-parks")
	}
	if c.cfg.viaRun = r2.Intn(4) == 0 && c.cfg.hsFault == ""; c.cfg.viaRun { // (a session that dies during the handshake has left Server.Sessions() before the harness can pick it up)
		c.cfg.runCtxClose = r2.Intn(2) == 0
		c.desc = append(c.desc, "run")
		c.tag("server-run")
		if c.cfg.runCtxClose {
			c.desc = append(c.desc, "runctx")
			c.tag("server-run-ctx-cancel")
		}
	}
	c.tag("tr=" + tr)
	c.tag("v=" + c.cfg.version)
	c.tag("ka=" + ka)
	if c.cfg.listen {
		c.tag("listchanged-handler")
	}
	if c.cfg.hsFault != "" {
		c.desc = append(c.desc, "hs="+c.cfg.hsFault)
		c.tag("fault-at-handshake")
	}
}

// pickFault returns "<side>.<kind><k>": side c|s, kind wfail|reject|reof|rerr.
func (c *vsCase) pickFault() string {
	r := c.rng
	side := "c"
	if r.Intn(5) < 2 {
		side = "s"
	}
	kinds := []string{"wfail", "wfail", "wfail", "reject", "reof", "rerr"}
	k := kinds[r.Intn(len(kinds))]
	// never both write halves broken while both read halves stay open: no transport is ever in that
	// state (a failing write means the peer's read end is gone), and two sides that can neither write
	// nor learn that the peer is gone wait for each other's answers for ever by design (DESIGN C05 (d))
	other := "s"
	if side == "s" {
		other = "c"
	}
	if k == "wfail" && c.wfailOn[other] {
		k = "reof"
	}
	if k == "wfail" {
		c.wfailOn[side] = true
	}
	// likewise never both READ halves failed while both pipes stay open: a side whose reader has failed
	// stops draining its pipe, so each side's pending writes (the responses and notifications it must
	// flush before it may close its transport) block for ever in the other's undrained pipe — the
	// transport's Write never returns, which the proviso of C05 excludes; with real transports a reader
	// that is gone closes its end and the writer fails instead
	if (k == "reof" || k == "rerr") && c.rfailOn[other] {
		k = "reject"
	}
	if k == "reof" || k == "rerr" {
		c.rfailOn[side] = true
	}
	n := r.Intn(4)
	if k == "reject" {
		n = 0
	}
	return fmt.Sprintf("%s.%s%d", side, k, n)
}

func (c *vsCase) armFault(f string) {
	sideS, rest, _ := strings.Cut(f, ".")
	who := vsClient
	if sideS == "s" {
		who = vsServer
	}
	s := c.side[who]
	kind := strings.TrimRight(rest, "0123456789")
	n, _ := strconv.Atoi(rest[len(kind):])
	c.mu.Lock()
	defer c.mu.Unlock()
	c.faultEver = true
	c.evLocked()
	switch kind {
	case "wfail":
		if !s.wfailArmed {
			s.wfailArmed = true
			s.wfailAt = s.writes + n
		}
	case "reject":
		s.rejectArmed = true
	case "reof", "rerr":
		if !s.rfailArmed {
			s.rfailArmed = true
			s.rfailAt = s.reads + n
			s.rfailErr = io.EOF
			if kind == "rerr" {
				s.rfailErr = errVsReset
			}
			if n == 0 {
				s.rfailDue = true
				close(s.rfailCh)
			}
		}
	}
	c.tags["fault="+sideS+"."+kind] = true
}

func (c *vsCase) genClientSteps() []vsStep {
	r := c.rng
	n := 1 + r.Intn(3)
	var steps []vsStep
	for i := 0; i < n; i++ {
		x := r.Intn(100)
		switch {
		case x < 48:
			tok := c.newTok("t")
			b := vsBeh{}
			tool := "t"
			y := r.Intn(100)
			switch {
			case y < 28:
				c.tag("tool=echo")
			case y < 52:
				b.park = true
				c.tag("tool=park")
			case y < 60:
				b.sleep = time.Duration(1+r.Intn(300)) * time.Millisecond
				c.tag("tool=sleep")
			case y < 66:
				b.fail = int64(4000 + r.Intn(50))
				c.tag("tool=fail")
			case y < 84:
				b.cb = []string{"roots", "sample", "elicit", "ping"}[r.Intn(4)]
				b.cbPark = b.cb != "roots" && b.cb != "ping" && r.Intn(5) < 2
				b.park = r.Intn(4) == 0
				c.tag("callback=" + b.cb)
			case y < 94:
				b.prog = 1 + r.Intn(2)
				if r.Intn(2) == 0 {
					b.cb = "sample"
				}
				b.park = r.Intn(3) == 0
				c.tag("tool=progress")
			default:
				if len(c.dyn) > 0 {
					tool = c.dyn[r.Intn(len(c.dyn))]
					c.tag("tool=dynamic")
				}
			}
			c.setBeh(tok, b)
			if b.cb != "" {
				c.setBeh(tok+"/cb", vsBeh{park: b.cbPark})
			}
			for p := 0; p < b.prog; p++ {
				pb := vsBeh{}
				if r.Intn(3) == 0 {
					pb.sleep = time.Duration(1+r.Intn(50)) * time.Millisecond
				}
				c.setBeh(fmt.Sprintf("%s/p%d", tok, p), pb)
			}
			steps = append(steps, vsStep{kind: "tool", tok: tok, tool: tool})
		case x < 68:
			tok := c.newTok("n")
			b := vsBeh{}
			switch y := r.Intn(10); {
			case y < 4:
				b.sleep = time.Duration(1+r.Intn(200)) * time.Millisecond
			case y < 5:
				b.park = true
			}
			c.setBeh(tok, b)
			c.tag("notify")
			steps = append(steps, vsStep{kind: "notify", tok: tok})
		case x < 78:
			steps = append(steps, vsStep{kind: "list", tok: c.newTok("l")})
			c.tag("listtools")
		case x < 88:
			steps = append(steps, vsStep{kind: "ping", tok: c.newTok("g")})
			c.tag("ping")
		case x < 95:
			uri := []string{"file:///r1", "file:///r2"}[r.Intn(2)]
			steps = append(steps, vsStep{kind: "sub", tok: c.newTok("u"), uri: uri})
			c.tag("subscribe")
		default:
			uri := []string{"file:///r1", "file:///r2"}[r.Intn(2)]
			steps = append(steps, vsStep{kind: "unsub", tok: c.newTok("u"), uri: uri})
			c.tag("unsubscribe")
		}
	}
	return steps
}

func (c *vsCase) genServerSteps() []vsStep {
	r := c.rng
	n := 1 + r.Intn(2)
	var steps []vsStep
	for i := 0; i < n; i++ {
		x := r.Intn(100)
		switch {
		case x < 30:
			steps = append(steps, vsStep{kind: "sping", tok: c.newTok("sg")})
		case x < 42:
			steps = append(steps, vsStep{kind: "roots", tok: c.newTok("sr")})
		case x < 62:
			tok := c.newTok("sm")
			c.setBeh(tok, vsBeh{park: r.Intn(5) < 2})
			steps = append(steps, vsStep{kind: "sample", tok: tok})
		case x < 76:
			tok := c.newTok("se")
			c.setBeh(tok, vsBeh{park: r.Intn(5) < 2})
			steps = append(steps, vsStep{kind: "elicit", tok: tok})
		default:
			tok := c.newTok("sn")
			b := vsBeh{}
			switch y := r.Intn(10); {
			case y < 4:
				b.sleep = time.Duration(1+r.Intn(200)) * time.Millisecond
			case y < 5:
				b.park = true
			}
			c.setBeh(tok, b)
			steps = append(steps, vsStep{kind: "snotify", tok: tok})
		}
		c.tag("server-initiated")
	}
	return steps
}

// --- setup -------------------------------------------------------------------------------------

func (c *vsCase) setup() {
	for i := range c.side {
		c.side[i] = &vsSide{c: c, who: i, rfailCh: make(chan struct{})}
	}
	sopts := &ServerOptions{
		ProgressNotificationHandler: c.serverProgress,
		SubscribeHandler:            c.serverSubscribe,
		UnsubscribeHandler:          func(context.Context, *UnsubscribeRequest) error { return nil },
		KeepAlive:                   c.cfg.kaServer,
	}
	c.server = NewServer(&Implementation{Name: "verif-server", Version: "v1"}, sopts)
	c.server.AddTool(&Tool{Name: "t", InputSchema: map[string]any{"type": "object"}}, c.toolHandler)
	c.toolsEver["t"] = true
	rh := func(context.Context, *ReadResourceRequest) (*ReadResourceResult, error) {
		return &ReadResourceResult{Contents: []*ResourceContents{}}, nil
	}
	c.server.AddResource(&Resource{URI: "file:///r1", Name: "r1"}, rh)
	c.server.AddResource(&Resource{URI: "file:///r2", Name: "r2"}, rh)

	copts := &ClientOptions{
		CreateMessageHandler:        c.clientSample,
		ElicitationHandler:          c.clientElicit,
		ProgressNotificationHandler: c.clientProgress,
		KeepAlive:                   c.cfg.kaClient,
	}
	if c.cfg.listen {
		copts.ToolListChangedHandler = c.clientToolsChanged
	}
	c.client = NewClient(&Implementation{Name: "verif-client", Version: "v1"}, copts)
	c.client.AddRoots(&Root{URI: "file:///root1", Name: "root1"})

	var ct, st Transport
	if c.cfg.pipe {
		c2sR, c2sW := io.Pipe()
		s2cR, s2cW := io.Pipe()
		ct = &IOTransport{Reader: &vsPipeReader{s2cR, c.side[vsClient]}, Writer: &vsPipeWriter{c2sW, c.side[vsClient], c.cfg.wcloseFail[vsClient]}}
		st = &IOTransport{Reader: &vsPipeReader{c2sR, c.side[vsServer]}, Writer: &vsPipeWriter{s2cW, c.side[vsServer], c.cfg.wcloseFail[vsServer]}}
		c.raw = []io.Closer{c2sR, c2sW, s2cR, s2cW}
	} else {
		a, b := net.Pipe()
		ct, st = &InMemoryTransport{a}, &InMemoryTransport{b}
		c.raw = []io.Closer{a, b}
	}
	if c.cfg.hsFault != "" {
		c.armFault(c.cfg.hsFault)
	}
	srvOnClose := func() { c.mu.Lock(); c.side[vsServer].onClose++; c.mu.Unlock() }
	var ss *ServerSession
	if c.cfg.viaRun {
		// Server.Run: connects, then returns when the session has ended or (after closing it) when ctx ends
		runCtx, cancel := context.WithCancel(context.Background())
		c.runCancel = cancel
		c.runDone = make(chan struct{})
		go func() {
			err := c.server.Run(runCtx, &vsTransport{inner: st, side: c.side[vsServer]})
			c.mu.Lock()
			c.runReturned = true
			c.trLocked("Server.Run RETURN %v", err)
			c.mu.Unlock()
			close(c.runDone)
		}()
		synctest.Wait()
		for s := range c.server.Sessions() {
			ss = s
		}
		if ss == nil {
			c.viol("C05: Server.Run did not connect its session")
			return
		}
		// Run passes no onClose; as on the client side the once-only logic of Close is observed with an
		// injected counter (the peer is not connected yet: no other goroutine uses the session)
		ss.onClose = srvOnClose
	} else {
		var err error
		ss, err = c.server.Connect(context.Background(), &vsTransport{inner: st, side: c.side[vsServer]},
			&ServerSessionOptions{onClose: srvOnClose})
		if err != nil {
			c.viol("C05: Server.Connect failed: %v", err)
			return
		}
	}
	c.ss = ss
	type cres struct {
		cs  *ClientSession
		err error
	}
	done := make(chan cres, 1)
	go func() {
		cs, err := c.client.Connect(context.Background(), &vsTransport{inner: ct, side: c.side[vsClient]},
			&ClientSessionOptions{ProtocolVersion: c.cfg.version})
		done <- cres{cs, err}
	}()
	synctest.Wait()
	select {
	case r := <-done:
		c.cs, c.connectErr = r.cs, r.err
	default:
		time.Sleep(30 * time.Second)
		synctest.Wait()
		select {
		case r := <-done:
			c.cs, c.connectErr = r.cs, r.err
			if c.cfg.hsFault == "" {
				c.viol("C01: Client.Connect returned only after %dms of virtual time", c.now())
			}
		default:
			c.viol("C01: Client.Connect did not return (hang) %s", c.stateStr())
			c.connectErr = errors.New("verif: connect hung")
			go func() { <-done }()
		}
	}
	if c.cs != nil {
		// Client.Connect passes no onClose; the once-only logic of ClientSession.Close is observed with an
		// injected counter (no other goroutine uses the session yet).
		c.cs.onClose = func() { c.mu.Lock(); c.side[vsClient].onClose++; c.mu.Unlock() }
		c.tag("connected")
	} else {
		c.tag("connect-failed")
		if c.cfg.hsFault == "" && c.connectErr != nil {
			c.viol("C01: Client.Connect failed on a healthy transport: %v", c.connectErr)
		}
	}
}

func (c *vsCase) snapStr(side int) string {
	var v jsonrpc2.VerifState
	defer func() { recover() }()
	if side == vsClient {
		if c.cs == nil {
			return "client{-}"
		}
		v = c.cs.conn.VerifSnapshot()
	} else {
		if c.ss == nil {
			return "server{-}"
		}
		v = c.ss.conn.VerifSnapshot()
	}
	b := func(x bool, s string) string {
		if x {
			return s
		}
		return ""
	}
	ids := func(l []jsonrpc2.ID) string {
		var ss []string
		for _, id := range l {
			ss = append(ss, fmt.Sprint(id.Raw()))
		}
		return strings.Join(ss, ",")
	}
	return fmt.Sprintf("%s{%s%s%s%s%s%souts=[%s] notifs=%d in=%d}", vsSideName[side],
		b(v.Closing, "closing "), b(v.Reading, "reading "), b(v.ReadErr, "readErr "), b(v.WriteErr, "writeErr "),
		b(v.CloserUsed, "transport-closed "), b(v.Done, "done "), ids(v.OutgoingCalls), v.OutgoingNotifications, v.Incoming)
}

func (c *vsCase) stateStr() string { return c.snapStr(vsClient) + " " + c.snapStr(vsServer) }

// --- actions -----------------------------------------------------------------------------------

func (c *vsCase) startWaiter(side int, what string) *vsWaiter {
	w := &vsWaiter{side: side, what: what}
	c.mu.Lock()
	w.startSeq = c.evLocked()
	w.startT = c.now()
	c.waiters = append(c.waiters, w)
	c.trLocked("%s.%s START", vsSessName[side], what)
	if what == "Close" && !c.side[side].closeBegun {
		c.side[side].closeBegun = true
		c.side[side].closeBegunSeq = w.startSeq
	}
	c.mu.Unlock()
	go func() {
		var err error
		func() {
			defer func() {
				if r := recover(); r != nil {
					c.mu.Lock()
					c.panics = append(c.panics, fmt.Sprintf("%s.%s: %v", vsSessName[side], what, r))
					c.mu.Unlock()
				}
			}()
			switch {
			case side == vsClient && what == "Close":
				err = c.cs.Close()
			case side == vsClient:
				err = c.cs.Wait()
			case what == "Close":
				c.ss.mu.Lock()
				ids := append([]jsonrpc.ID(nil), c.ss.listenIDs...)
				c.ss.mu.Unlock()
				c.mu.Lock()
				for _, id := range ids {
					c.listenIDsAtClose[fmt.Sprint(id.Raw())] = true
				}
				c.mu.Unlock()
				if c.cfg.viaRun && c.cfg.runCtxClose {
					// the owner of a Server.Run ends it through its context: Run closes the session and returns
					// (and, Close being idempotent, closes the session it owns as well: Run does not close a session
					// that the PEER ended)
					c.runCancel()
					<-c.runDone
					err = c.ss.Close()
				} else {
					err = c.ss.Close()
				}
			default:
				err = c.ss.Wait()
			}
		}()
		c.mu.Lock()
		w.err = err
		w.endT = c.now()
		w.done = true
		c.evLocked()
		c.trLocked("%s.%s RETURN %v", vsSessName[side], what, err)
		c.mu.Unlock()
	}()
	return w
}

func (c *vsCase) inFlight() []*vsCall {
	c.mu.Lock()
	defer c.mu.Unlock()
	var out []*vsCall
	for _, cl := range c.calls {
		if !cl.done && !cl.cancelled && cl.startSeq > 0 && !cl.isNotify && (cl.kind != "sub" && cl.kind != "unsub") {
			out = append(out, cl)
		}
	}
	return out
}

func (c *vsCase) hrecFor(tok string) *vsHRec {
	c.mu.Lock()
	defer c.mu.Unlock()
	return c.hrec[tok]
}

// actCancel cancels the context of an in-flight call at a chosen moment and checks C04 at once.
func (c *vsCase) actCancel() bool {
	r := c.rng
	fl := c.inFlight()
	timing := []string{"during", "during", "race", "after"}[r.Intn(4)]
	if timing == "after" {
		c.mu.Lock()
		var dn []*vsCall
		for _, cl := range c.calls {
			if cl.done && !cl.cancelled && !cl.isNotify {
				dn = append(dn, cl)
			}
		}
		c.mu.Unlock()
		if len(dn) == 0 {
			return false
		}
		cl := dn[r.Intn(len(dn))]
		before := c.ctxSnapshot()
		cl.cancelled, cl.timing = true, "after"
		cl.cx = &vsCancelRec{timing: "after", healthy: true, returned: true}
		cl.cancel()
		synctest.Wait()
		c.checkOthersUntouched(cl, before, "after it had returned")
		c.tag("cancel=after")
		c.desc = append(c.desc, "x:after")
		return true
	}
	if len(fl) == 0 {
		return false
	}
	cl := fl[r.Intn(len(fl))]
	healthy := c.healthy() && !c.cancelNoticeLost
	before := c.ctxSnapshot()
	// the peer handler serving this call (or, for a tool that is itself waiting in a callback, the
	// client handler of that callback)
	h := c.hrecFor(cl.tok)
	hParked := h != nil && h.parked && !h.released
	cl.cancelled, cl.timing, cl.inFlightAtCancel = true, timing, true
	cx := &vsCancelRec{timing: timing, healthy: healthy, hParked: hParked}
	cl.cx = cx
	cl.cancelT = c.now()
	if timing == "race" {
		var target *vsHRec
		for _, g := range c.parkedGates() {
			if g.tok == cl.tok || strings.HasPrefix(g.tok, cl.tok+"/") {
				target = g
			}
		}
		if target != nil && r.Intn(2) == 0 {
			c.release(target)
			cl.cancel()
		} else {
			cl.cancel()
			if target != nil {
				c.release(target)
			}
		}
	} else {
		cl.cancel()
	}
	synctest.Wait()
	c.tag("cancel=" + timing)
	c.desc = append(c.desc, "x:"+timing)
	c.mu.Lock()
	done, endT := cl.done, cl.endT
	c.mu.Unlock()
	if !done {
		c.mu.Lock()
		stalled := c.side[cl.side].writersBlocked > 0
		c.mu.Unlock()
		if stalled {
			// the call may still be inside the transport's Write of its own request (the peer has stopped
			// draining the pipe and ioConn.Write cannot be interrupted): C04 speaks of requests already sent
			c.tag("cancel-with-stalled-writer")
			cx.stalled = true
			return true
		}
		// a small bound of virtual time, then give up
		time.Sleep(100 * time.Millisecond)
		synctest.Wait()
		c.mu.Lock()
		done, endT = cl.done, cl.endT
		c.mu.Unlock()
		if !done {
			c.tr("cancelled call %s did not return: %s", cl.tok, c.stateStr())
			return true // recorded: cx.returned stays false
		}
	}
	cx.returned = true
	cx.delay = endT - cl.cancelT
	if hParked {
		c.mu.Lock()
		ce := h.ctxErr
		if !h.finished && h.ctx.Err() != nil {
			ce = vsErrClass(h.ctx.Err())
		}
		c.mu.Unlock()
		cx.hSaw = ce != ""
	}
	if healthy {
		c.checkOthersUntouched(cl, before, "while the connection was healthy")
		// every third time: let the bound of the detached cancellation notice (notifyCancellationTimeout) pass
		// first — "the session stays usable" also long after the cancellation, and nothing else is cancelled
		// when that notice is given up (no PRNG draw: pinned (seed, idx) cases keep their meaning)
		c.nCancelChecks++
		if c.nCancelChecks%3 == 0 {
			time.Sleep(notifyCancellationTimeout + time.Second)
			synctest.Wait()
			c.tag("follow-up-late")
			if c.healthy() {
				c.checkOthersUntouched(cl, before, "after the cancellation notice's time bound had passed")
			}
		}
		// a later call on the same session still works
		if c.cs != nil && c.healthy() {
			tok := c.newTok("f")
			c.ngor++
			gor := fmt.Sprintf("fu%d", c.ngor)
			go func() {
				ncl := c.newCall(vsClient, "tool", tok, gor, context.Background())
				ncl.followUpOf = cl.tok
				ncl.toolName = "t"
				c.runCall(ncl, func(ctx context.Context) (string, error) {
					res, err := c.cs.CallTool(ctx, &CallToolParams{Name: "t", Arguments: map[string]any{"tok": tok}})
					if err != nil {
						return "", err
					}
					if len(res.Content) == 1 {
						if tc, ok := res.Content[0].(*TextContent); ok {
							return tc.Text, nil
						}
					}
					return "content?", nil
				})
			}()
			synctest.Wait()
			c.tag("follow-up-call")
		}
	}
	return true
}

// ctxSnapshot: token -> context error of every running handler.
func (c *vsCase) ctxSnapshot() map[string]bool {
	c.mu.Lock()
	defer c.mu.Unlock()
	m := map[string]bool{}
	for _, h := range c.hlist {
		if !h.finished && h.ctx != nil {
			m[h.tok] = h.ctx.Err() != nil
		}
	}
	return m
}

// checkOthersUntouched RECORDS (for SessMon.callMon, P_touched) the handlers that were running with a live
// context before the cancellation and whose context is cancelled now - all of them, the cancelled call's
// own handlers included (the monitor tells them apart by the token).
func (c *vsCase) checkOthersUntouched(cl *vsCall, before map[string]bool, when string) {
	c.mu.Lock()
	defer c.mu.Unlock()
	t := vsTouched{when: when}
	for _, h := range c.hlist {
		was, running := before[h.tok]
		if !running || was {
			continue
		}
		if h.ctxErr != "" || (!h.finished && h.ctx.Err() != nil) {
			t.toks = append(t.toks, h.tok)
		}
	}
	if cl.cx != nil {
		cl.cx.touched = append(cl.cx.touched, t)
	}
}

func (c *vsCase) actBurst() {
	r := c.rng
	nc := []int{1, 1, 2, 3}[r.Intn(4)]
	ns := 0
	if r.Intn(3) == 0 {
		ns = 1
	}
	if c.cs == nil {
		nc = 0
		ns = 1
	}
	type prog struct {
		gor   string
		steps []vsStep
		side  int
	}
	var ps []prog
	for i := 0; i < nc; i++ {
		c.ngor++
		ps = append(ps, prog{fmt.Sprintf("g%d", c.ngor), c.genClientSteps(), vsClient})
	}
	for i := 0; i < ns; i++ {
		c.ngor++
		ps = append(ps, prog{fmt.Sprintf("g%d", c.ngor), c.genServerSteps(), vsServer})
	}
	for _, p := range ps {
		p := p
		if p.side == vsClient {
			go c.clientProgram(p.gor, p.steps)
		} else {
			go c.serverProgram(p.gor, p.steps)
		}
	}
	c.tag(fmt.Sprintf("burst=%dc%ds", nc, ns))
	c.desc = append(c.desc, fmt.Sprintf("b%d.%d", nc, ns))
}

func (c *vsCase) actClose() {
	r := c.rng
	who := []string{"client", "client", "server", "both"}[r.Intn(4)]
	if c.cs == nil {
		who = "server"
	}
	mult := 1
	if r.Intn(4) == 0 {
		mult = 2
		c.tag("several-closes")
	}
	for i := 0; i < mult; i++ {
		if who == "client" || who == "both" {
			c.startWaiter(vsClient, "Close")
		}
		if who == "server" || who == "both" {
			c.startWaiter(vsServer, "Close")
		}
	}
	c.tag("close=" + who)
	c.desc = append(c.desc, fmt.Sprintf("cl:%s%d", who, mult))
}

func (c *vsCase) run() {
	c.t0 = time.Now()
	c.baseGor = vsBubbleGoroutines()
	c.genCfg()
	c.setup()
	r := c.rng
	if c.ss == nil {
		return
	}
	faults := 0
	for i := 0; i < c.cfg.nact; i++ {
		x := r.Intn(100)
		switch {
		case x < 30:
			c.actBurst()
		case x < 45:
			if !c.actCancel() {
				c.actBurst()
			}
		case x < 57:
			gs := c.parkedGates()
			if len(gs) == 0 {
				c.actBurst()
				break
			}
			if r.Intn(5) == 0 {
				for _, g := range gs {
					c.release(g)
				}
				c.desc = append(c.desc, "rel*")
			} else {
				c.release(gs[r.Intn(len(gs))])
				c.desc = append(c.desc, "rel")
			}
			c.tag("release")
		case x < 64:
			if r.Intn(2) == 0 || len(c.dyn) == 0 {
				c.ndyn++
				name := fmt.Sprintf("dyn%d", c.ndyn)
				c.server.AddTool(&Tool{Name: name, InputSchema: map[string]any{"type": "object"}}, c.toolHandler)
				c.dyn = append(c.dyn, name)
				c.toolsEver[name] = true
				c.tag("addtool")
				c.desc = append(c.desc, "add")
			} else {
				k := r.Intn(len(c.dyn))
				c.server.RemoveTools(c.dyn[k])
				c.dyn = append(c.dyn[:k], c.dyn[k+1:]...)
				c.tag("removetool")
				c.desc = append(c.desc, "rm")
			}
		case x < 74:
			if faults < c.cfg.faultBudget {
				faults++
				f := c.pickFault()
				c.armFault(f)
				c.desc = append(c.desc, "f:"+f)
			} else {
				c.actBurst()
			}
		case x < 84:
			c.actClose()
		case x < 90:
			side := r.Intn(2)
			if c.cs == nil {
				side = vsServer
			}
			c.startWaiter(side, "Wait")
			c.tag("wait=" + vsSideName[side])
			c.desc = append(c.desc, "w:"+vsSideName[side][:1])
		default:
			d := []time.Duration{time.Millisecond, 20 * time.Millisecond, 300 * time.Millisecond, 2 * time.Second, 6 * time.Second}[r.Intn(5)]
			time.Sleep(d)
			c.tag("sleep")
			c.desc = append(c.desc, "z"+d.String())
		}
		synctest.Wait()
		if vsDebug && len(c.desc) > 0 {
			c.tr("ACTION %s done; %s", c.desc[len(c.desc)-1], c.stateStr())
		}
	}
	c.finish()
}

// finish: "provided handlers return": release everything, let sleeping handlers end, take the
// quiescent point Q, make sure somebody closes, then judge.
func (c *vsCase) finish() {
	r := c.rng
	c.tr("FINISH: release everything")
	c.releaseAll()
	synctest.Wait()
	// let sleeping handlers (and the program steps that follow them) come to rest
	for i := 0; i < 12; i++ {
		time.Sleep(time.Second)
		synctest.Wait()
		if c.runningHandlers() == 0 {
			break
		}
	}
	c.tr("Q: %s", c.stateStr())
	c.mu.Lock()
	c.qSeq = c.evLocked()
	c.qTaken = true
	c.mu.Unlock()
	c.qUsable[vsClient] = c.usable(vsClient)
	c.qUsable[vsServer] = c.usable(vsServer)
	c.mu.Lock()
	anyClose := c.side[0].closeBegun || c.side[1].closeBegun
	c.mu.Unlock()
	if !anyClose {
		who := []string{"client", "client", "server", "both"}[r.Intn(4)]
		if c.cs == nil {
			who = "server"
		}
		if who == "client" || who == "both" {
			c.startWaiter(vsClient, "Close")
		}
		if who == "server" || who == "both" {
			c.startWaiter(vsServer, "Close")
		}
		c.tag("close=final-" + who)
		c.desc = append(c.desc, "fin:"+who)
	}
	if c.cs != nil {
		c.startWaiter(vsClient, "Wait")
	}
	c.startWaiter(vsServer, "Wait")
	synctest.Wait()
	c.judge()
}

// classifyHang recognises the hang shapes of the defects found on the unchanged tree (each gets its own
// clause text; anything else is reported generically).
func (c *vsCase) classifyHang() string {
	var snap [2]jsonrpc2.VerifState
	if c.cs == nil || c.ss == nil {
		return ""
	}
	snap[vsClient] = c.cs.conn.VerifSnapshot()
	snap[vsServer] = c.ss.conn.VerifSnapshot()
	has := func(l []jsonrpc2.ID, id string) bool {
		for _, x := range l {
			if fmt.Sprint(x.Raw()) == id {
				return true
			}
		}
		return false
	}
	c.mu.Lock()
	defer c.mu.Unlock()
	// F25: a subscriptions/listen whose handler registered itself after ServerSession.Close had taken its
	// listenIDs snapshot is parked for ever
	if snap[vsServer].Closing && c.side[vsServer].closeBegun {
		for _, w := range c.side[vsServer].tap {
			if w.dir == 'r' && w.kind == 'c' && w.method == methodSubscriptionsListen && has(snap[vsServer].IncomingByID, w.id) && !c.listenIDsAtClose[w.id] {
				return fmt.Sprintf("C05: F25 ServerSession.Close cancelled only the subscriptions/listen handlers registered when it began; listen id %s (read before Close, dispatched after it) parks for ever and Close never returns", w.id)
			}
		}
	}
	// F24(b): a listen opened by Subscribe after Close had cancelled the subscriptions
	if snap[vsClient].Closing && c.side[vsClient].closeBegun {
		for _, w := range c.side[vsClient].tap {
			if w.dir == 'w' && w.kind == 'c' && w.method == methodSubscriptionsListen && w.seq > c.side[vsClient].closeBegunSeq && has(snap[vsClient].OutgoingCalls, w.id) {
				return fmt.Sprintf("C05: F24 ClientSession.Subscribe (2026-07-28) racing ClientSession.Close registered listen call id %s after Close had cancelled the subscriptions; nothing retires it and Close never returns", w.id)
			}
		}
	}
	// F26 (fixed by fixes/F26-responses-pass-shutdown-gate.patch; the classifier stays as a regression guard):
	// the closing side served the peer's call but the shutdown write gate refused the response; the peer's
	// call is never answered, and when the peer is closing too (or its handler made the call while serving a
	// call of the closing side) the closing side's own outgoing call never ends either
	for x := 0; x < 2; x++ {
		y := 1 - x
		if !snap[x].Closing || snap[x].ReadErr || snap[x].WriteErr {
			continue
		}
		answered := map[string]bool{}
		for _, w := range c.side[x].tap {
			if w.dir == 'w' && w.kind == 'r' && w.ok {
				answered[w.id] = true
			}
		}
		for _, w := range c.side[x].tap {
			if w.dir == 'r' && w.kind == 'c' && !answered[w.id] && !has(snap[x].IncomingByID, w.id) && has(snap[y].OutgoingCalls, w.id) && len(snap[x].OutgoingCalls) > 0 {
				return fmt.Sprintf("C05: F26 the closing %s finished serving call id %s (%s) but the shutdown write gate refused its response; the %s (whose handler made that call while serving a call of the %s) waits for ever, so the %s's own outgoing call is never answered and Close never returns", vsSideName[x], w.id, w.method, vsSideName[y], vsSideName[x], vsSideName[x])
			}
		}
	}
	return ""
}

// lateSubscribe: under the new protocol, a Subscribe started after the client's Close had begun.
func (c *vsCase) lateSubscribe() bool {
	if c.cs == nil || !c.cs.usesNewProtocol() {
		return false
	}
	c.mu.Lock()
	defer c.mu.Unlock()
	s := c.side[vsClient]
	for _, cl := range c.calls {
		if cl.kind == "sub" && s.closeBegun && cl.startSeq > s.closeBegunSeq {
			return true
		}
	}
	return false
}

// blocked lists what has not returned.
func (c *vsCase) blocked() []string {
	c.mu.Lock()
	defer c.mu.Unlock()
	var out []string
	seen := map[string]int{}
	for _, w := range c.waiters {
		if !w.done {
			k := vsSessName[w.side] + "." + w.what
			seen[k]++
			if seen[k] == 1 {
				out = append(out, k)
			}
		}
	}
	// Close before Wait before calls
	sort.SliceStable(out, func(i, j int) bool {
		return strings.HasSuffix(out[i], ".Close") && !strings.HasSuffix(out[j], ".Close")
	})
	for _, cl := range c.calls {
		if cl.startSeq > 0 && !cl.done {
			out = append(out, fmt.Sprintf("%s %s", vsSessName[cl.side], cl.kind))
		}
	}
	return out
}

// vsBubbleGoroutines counts the goroutines of the current synctest bubble other than the caller.
func vsBubbleGoroutines() int {
	n, _ := vsBubbleStacks()
	return n
}

func vsBubbleStacks() (int, []string) {
	buf := make([]byte, 1<<20)
	buf = buf[:runtime.Stack(buf, true)]
	n := 0
	var tops []string
	for i, blk := range strings.Split(string(buf), "\n\n") {
		lines := strings.Split(blk, "\n")
		if i == 0 || !strings.Contains(lines[0], "synctest bubble") {
			continue // block 0 is the caller
		}
		n++
		top := "?"
		for _, l := range lines[1:] {
			if strings.HasPrefix(l, "\t") || strings.HasPrefix(l, "created by") {
				continue
			}
			if k := strings.Index(l, "go-sdk/"); k >= 0 {
				f := l[k+len("go-sdk/"):]
				if p := strings.LastIndex(f, "("); p > 0 {
					f = f[:p]
				}
				if strings.Contains(f, "vsC") || strings.Contains(f, "vsConn") || strings.Contains(f, ".(*vs") {
					continue // harness frames
				}
				top = f
				break
			}
		}
		tops = append(tops, top)
	}
	sort.Strings(tops)
	return n, tops
}

func vsErrClass(err error) string {
	var we *jsonrpc.Error
	switch {
	case err == nil:
		return "nil"
	case errors.Is(err, ErrConnectionClosed):
		return "connection-closed"
	case errors.Is(err, context.Canceled):
		return "context-canceled"
	case errors.Is(err, context.DeadlineExceeded):
		return "deadline-exceeded"
	case errors.Is(err, jsonrpc2.ErrClientClosing):
		return "client-closing"
	case errors.Is(err, jsonrpc2.ErrServerClosing):
		return "server-closing"
	case errors.Is(err, errVsBroken):
		return "broken-pipe"
	case errors.Is(err, errVsReset):
		return "conn-reset"
	case errors.Is(err, jsonrpc2.ErrRejected):
		return "rejected"
	case errors.Is(err, io.EOF):
		return "eof"
	case errors.Is(err, io.ErrClosedPipe):
		return "closed-pipe"
	case errors.As(err, &we):
		return fmt.Sprintf("rpc-error(%d)", we.Code)
	}
	s := err.Error()
	if len(s) > 90 {
		s = s[:90]
	}
	return "other(" + strings.ReplaceAll(strings.ReplaceAll(s, "\t", " "), "\n", " ") + ")"
}

// --- the monitors ------------------------------------------------------------------------------

func (c *vsCase) judge() {
	// ---- hang detection (C05 / C01): first without letting virtual time pass, then with
	blockedA := c.blocked()
	c.mu.Lock()
	cbw := c.cbWaiting + c.side[0].running + c.side[1].running
	c.mu.Unlock()
	if len(blockedA) > 0 {
		time.Sleep(30 * time.Second)
		synctest.Wait()
	}
	blockedB := c.blocked()
	hang := len(blockedB) > 0
	if hang {
		// one clause for the hang and its consequences (sessions not removed, transport never closed)
		c.client.mu.Lock()
		nc := len(c.client.sessions)
		c.client.mu.Unlock()
		ns := 0
		for range c.server.Sessions() {
			ns++
		}
		cons := fmt.Sprintf("blocked: %s; %s; transport Close calls client=%d server=%d; the Client still holds %d session(s), Server.Sessions() yields %d",
			strings.Join(blockedB, ", "), c.stateStr(), c.side[0].closeCalls, c.side[1].closeCalls, nc, ns)
		if k := c.classifyHang(); k != "" {
			c.viol("%s; %s", k, cons)
		} else {
			p := "C01"
			for _, b := range blockedB {
				if strings.HasSuffix(b, ".Close") || strings.HasSuffix(b, ".Wait") {
					p = "C05"
				}
			}
			c.viol("%s: %s did not return (hang): still blocked after every parked handler was released and 30s of virtual time; %s", p, blockedB[0], cons)
		}
		c.tag("hang")
	} else if len(blockedA) > 0 {
		if cbw > 0 {
			// shutdown waited for a handler that was still running (sleeping, or waiting - bounded - for a
			// callback into the closing client)
			c.tag("close-waited-for-running-handler")
		} else {
			c.viol("C05: %s returned only after virtual time passed (still blocked when everything else had come to rest and no handler was running)", strings.Join(blockedA, ", "))
		}
	}
	if !hang {
		// both Waits have returned although (possibly) only one side called Close. A user still closes the
		// session it owns: that is what releases the listen streams and the keep-alive of that side.
		for side := 0; side < 2; side++ {
			c.mu.Lock()
			begun := c.side[side].closeBegun
			c.mu.Unlock()
			if !begun && (side == vsServer || c.cs != nil) {
				c.startWaiter(side, "Close")
				c.tag("cleanup-close=" + vsSideName[side])
			}
		}
		synctest.Wait()
		if bl := c.blocked(); len(bl) > 0 {
			hang = true
			c.viol("C05: %s did not return although the session had already terminated; %s", strings.Join(bl, ", "), c.stateStr())
		} else {
			gorA, topsA := vsBubbleStacks()
			if leakA := gorA - c.baseGor; leakA > 0 {
				var left []string
				onlyListen := true
				for _, f := range topsA {
					if f == "?" || strings.HasPrefix(f, "mcp.TestVerifSessLevel") {
						continue // the bubble's own two goroutines
					}
					left = append(left, f)
					if f != "mcp.callSubscriptionsListen.func1" {
						onlyListen = false
					}
				}
				if onlyListen && c.lateSubscribe() {
					// F24: exactly this shape and nothing else
					c.viol("C05: F24 ClientSession.Subscribe (2026-07-28) issued after ClientSession.Close had begun opened a subscriptions/listen stream that nothing will ever cancel: %d goroutine(s) of callSubscriptionsListen left behind for ever", leakA)
				} else {
					c.viol("C05: %d goroutine(s) left behind after both sessions ended and every Close and Wait returned: %s", leakA, strings.Join(left, " "))
				}
			}
		}
	}

	// ---- C05: session bookkeeping, transport Close, onClose, panics
	if !hang {
		// recorded only; decided by the typed Lean monitor (SessMon.sessMon: serverSessionsLeft / clientSessionsLeft / subsLeft)
		for range c.server.Sessions() {
			c.recSsess++
		}
		c.client.mu.Lock()
		c.recCsess = len(c.client.sessions)
		c.client.mu.Unlock()
		c.server.mu.Lock()
		left := len(c.server.toolChangeSubscriptions) + len(c.server.promptChangeSubscriptions) + len(c.server.resourceChangeSubscriptions)
		for _, m := range c.server.resourceSubscriptions {
			left += len(m)
		}
		c.server.mu.Unlock()
		c.recSubs = left
	}
	c.recHang = hang
	c.recJudged = true
	c.mu.Lock()
	// transport Close count, handlers running at Close, IOTransport halves, onClose: recorded only (rec());
	// decided by the typed Lean monitor (SessMon.sessMon: tcNotOnce / closedRunning / halfOpen / onCloseTwice / onCloseMissed)
	for _, p := range c.panics {
		c.viols = append(c.viols, "C05: panic in "+p)
	}
	for _, cl := range c.calls {
		if cl.panicked != "" {
			c.viols = append(c.viols, fmt.Sprintf("C01: %s %s panicked: %s", vsSessName[cl.side], cl.kind, cl.panicked))
		}
	}
	c.mu.Unlock()

	// ---- C01: calls started after termination fail at once with ErrConnectionClosed
	if !hang {
		c.postMortem()
	}
	c.judgeCalls()
	c.judgeWire()
	c.judgeOrder()
	// C05 "a graceful Close lets running handlers finish" and C02 "the handler of one message runs once":
	// recorded per handler (extraRec) and decided by the typed Lean monitor SessMon.extraMon
}

func (c *vsCase) postMortem() {
	type probe struct {
		name string
		err  error
		done bool
	}
	var ps []*probe
	run := func(name string, f func() error) {
		p := &probe{name: name}
		ps = append(ps, p)
		go func() {
			defer func() {
				if r := recover(); r != nil {
					p.err = fmt.Errorf("panic: %v", r)
					p.done = true
				}
			}()
			err := f()
			c.mu.Lock()
			p.err, p.done = err, true
			c.mu.Unlock()
		}()
	}
	if c.cs != nil {
		run("ClientSession.CallTool", func() error {
			_, err := c.cs.CallTool(context.Background(), &CallToolParams{Name: "t", Arguments: map[string]any{"tok": "late"}})
			return err
		})
		run("ClientSession.Ping", func() error { return c.cs.Ping(context.Background(), nil) })
	}
	run("ServerSession.Ping", func() error { return c.ss.Ping(context.Background(), nil) })
	synctest.Wait()
	c.mu.Lock()
	defer c.mu.Unlock()
	// recorded (extraRec: p:…) and decided by the typed Lean monitor SessMon.extraMon (P_probe)
	for _, p := range ps {
		cls := ""
		if p.done {
			cls = vsErrClass(p.err)
		}
		c.probeRecs = append(c.probeRecs, fmt.Sprintf("p:%s:%s:%s:%s", hxs(p.name), vsB(p.done), vsB(p.done && errors.Is(p.err, ErrConnectionClosed)), hxs(cls)))
	}
}

func vsB(x bool) string {
	if x {
		return "1"
	}
	return "0"
}

// extraRec prints the handler runs and the probes started after termination (SessClose/Calls.lean: ExtraObs).
func (c *vsCase) extraRec() string {
	c.mu.Lock()
	defer c.mu.Unlock()
	if !c.recJudged {
		return "-"
	}
	out := []string{"fe=" + vsB(c.faultEver)}
	for _, h := range c.hlist {
		out = append(out, fmt.Sprintf("h:%s:%s:%d:%s:%s:%s", hxs(vsSideName[h.side]), hxs(h.kind), h.runs, vsB(h.ctxErr != ""), hxs(h.cause), vsB(h.bothOpen)))
	}
	out = append(out, c.probeRecs...)
	return strings.Join(out, " ")
}

// judgeCalls: the per-call clauses of C01 / C04 are decided by the typed Lean monitor SessMon.callMon
// (SessClose/Calls.lean) on the records printed by callsRec.
func (c *vsCase) judgeCalls() {}

// callsRec prints one record per finished call (SessClose/Calls.lean: CallObs / parseCall).
func (c *vsCase) callsRec() string {
	c.mu.Lock()
	defer c.mu.Unlock()
	if !c.recJudged || c.cs == nil && len(c.calls) == 0 {
		return "-"
	}
	b := func(x bool) string {
		if x {
			return "1"
		}
		return "0"
	}
	newProto := c.cfg.version >= protocolVersion20260728 && c.cs != nil && c.cs.usesNewProtocol()
	ssNew := c.ss != nil && c.ssNew()
	var tools []string
	for n := range c.toolsEver {
		tools = append(tools, n)
	}
	sort.Strings(tools)
	var out []string
	for _, cl := range c.calls {
		if !cl.done || cl.panicked != "" {
			continue
		}
		want := "-"
		if cl.err == nil {
			switch cl.kind {
			case "tool", "sample", "elicit":
				if w, ok := c.produced[cl.tok]; ok {
					want = "e:" + hxs(w)
				} else {
					want = "m"
				}
			case "list":
				want = "n:" + hxs(strings.Join(tools, ","))
			case "roots":
				want = "e:" + hxs("roots:file:///root1")
			}
		}
		// methods that are refused before they reach the connection (version / capability checks)
		lateExempt := cl.kind == "unsub" || (cl.err != nil && strings.Contains(cl.err.Error(), "client does not support")) || (newProto && (cl.kind == "list" || cl.kind == "sub")) ||
			(ssNew && (cl.kind == "roots" || cl.kind == "sample" || cl.kind == "elicit"))
		// the error is the one the scenario asked for
		reason := false
		var we *jsonrpc.Error
		switch {
		case cl.err == nil:
		case cl.kind == "tool" && errors.As(cl.err, &we) && c.beh[cl.tok].fail != 0 && we.Code == c.beh[cl.tok].fail:
			reason = true
		case cl.kind == "tool" && errors.As(cl.err, &we) && we.Code == jsonrpc.CodeInvalidParams && strings.HasPrefix(cl.toolName, "dyn") && strings.Contains(we.Message, "unknown tool"):
			reason = true
		case cl.side == vsServer && ssNew && (cl.kind == "roots" || cl.kind == "sample" || cl.kind == "elicit") && strings.Contains(cl.err.Error(), "cannot be sent while serving"):
			reason = true // server-initiated requests are forbidden under 2026-07-28
		case cl.side == vsServer && strings.HasPrefix(cl.gor, "h:"):
			// a callback made by a tool handler whose own context was cancelled
			if h := c.hrec[strings.TrimPrefix(cl.gor, "h:")]; h != nil && (h.ctxErr != "" || (h.ctx != nil && h.ctx.Err() != nil)) {
				reason = true
			}
		}
		ec := ""
		if cl.err != nil {
			ec = vsErrClass(cl.err)
		}
		cx := "-"
		if x := cl.cx; x != nil {
			var ts []string
			for _, t := range x.touched {
				var hs []string
				for _, k := range t.toks {
					hs = append(hs, hxs(k))
				}
				ts = append(ts, hxs(t.when)+"="+strings.Join(hs, "+"))
			}
			cx = fmt.Sprintf("%s:%s%s%s%s%s:%d:%s:%s", x.timing, b(x.healthy), b(x.stalled), b(x.returned), b(x.hParked), b(x.hSaw), x.delay, hxs(cl.tok), strings.Join(ts, "/"))
		}
		bits := b(cl.followUpOf != "") + b(cl.err == nil) + b(errors.Is(cl.err, ErrConnectionClosed)) + b(errors.Is(cl.err, context.Canceled)) +
			b(cl.afterDone) + b(cl.isNotify) + b(lateExempt) + b(cl.cancelled) + b(cl.disturbed) + b(reason)
		out = append(out, strings.Join([]string{hxs(vsSessName[cl.side] + " " + cl.kind), bits, hxs(ec), hxs(cl.payload), want, strconv.FormatInt(cl.endT-cl.startT, 10), cx}, ","))
	}
	if len(out) == 0 {
		return "-"
	}
	return strings.Join(out, " ")
}

func (c *vsCase) ssNew() bool {
	ip := c.ss.InitializeParams()
	return ip != nil && ip.ProtocolVersion >= protocolVersion20260728
}

// judgeWire: C02 on the wire tap of both sides.
func (c *vsCase) judgeWire() {
	// C02 on the wire taps (a response answers a call read before it, no call answered twice, every call
	// read before the quiescent point answered): recorded only (rec(): wire) and decided by the typed Lean
	// monitor SessMon.wireMon (SessClose/Wire.lean; wireMon_complete, sound_w…)
}

// judgeOrder: C03 for the messages one goroutine issued in sequence is decided by the typed Lean monitor
// SessMon.orderMon (SessClose/Calls.lean) on the records printed by orderRec.
func (c *vsCase) judgeOrder() {}

// orderRec prints, per sender goroutine, the messages it issued in sequence with the handler run of each
// (SessClose/Calls.lean: GorObs / parseGor).
func (c *vsCase) orderRec() string {
	c.mu.Lock()
	defer c.mu.Unlock()
	if !c.recJudged {
		return "-"
	}
	var gors []string
	for g := range c.issued {
		gors = append(gors, g)
	}
	sort.Strings(gors)
	var out []string
	for _, g := range gors {
		items := []string{hxs(g)}
		for _, it := range c.issued[g] {
			n := "c"
			if it.isNotif {
				n = "n"
			}
			h := c.hrec[it.tok]
			if h == nil || h.startSeq == 0 {
				items = append(items, n+"::-")
				continue
			}
			fin := "0"
			if h.finished {
				fin = "1"
			}
			items = append(items, fmt.Sprintf("%s:%s:%d.%d.%s.%d", n, hxs(h.kind), h.side, h.startSeq, fin, h.endSeq))
		}
		out = append(out, strings.Join(items, ";"))
	}
	if len(out) == 0 {
		return "-"
	}
	return strings.Join(out, " ")
}

// --- output ------------------------------------------------------------------------------------

func (c *vsCase) op() string {
	return fmt.Sprintf("sess seed=%d idx=%d %s", c.seed, c.idx, strings.Join(c.desc, " "))
}

func (c *vsCase) obs() string {
	c.mu.Lock()
	defer c.mu.Unlock()
	if len(c.viols) == 0 {
		return "clean"
	}
	// The stream serves C01..C05 with one record per case whose model observation is the constant
	// "clean": a clause of another property would make this record differ for the property under check
	// (a D without a V of its own). So only the clauses of $VERIF_PROPERTY are reported (all of them when
	// it is unset); the others are found when their own property is checked.
	pid := os.Getenv("VERIF_PROPERTY")
	var vs []string
	for _, v := range c.viols {
		// a clause may name several properties: "C04+C05: …"
		head, _, _ := strings.Cut(v, ":")
		if pid == "" || slices.Contains(strings.Split(head, "+"), pid) {
			vs = append(vs, v)
		}
	}
	if len(vs) == 0 {
		return "clean"
	}
	// the unclassified clauses before the classified shapes (Fnn) of defects already reported, so that a
	// known finding never hides a new one
	rank := func(v string) int {
		if len(v) > 6 && v[3] == ':' && v[5] == 'F' && v[6] >= '0' && v[6] <= '9' {
			return 1
		}
		return 0
	}
	sort.SliceStable(vs, func(i, j int) bool { return rank(vs[i]) < rank(vs[j]) })
	if len(vs) > 4 {
		vs = append(vs[:4], fmt.Sprintf("(+%d more)", len(vs)-4))
	}
	s := strings.Join(vs, " | ")
	s = strings.ReplaceAll(strings.ReplaceAll(s, "\t", " "), "\n", " ")
	return s
}

// rec prints the counters of the case for the typed Lean monitor (SessClose/Monitor.lean: SessObs).
func (c *vsCase) rec() string {
	c.mu.Lock()
	defer c.mu.Unlock()
	b := func(x bool) string {
		if x {
			return "1"
		}
		return "0"
	}
	side := func(p string, i int) string {
		s := c.side[i]
		if s == nil {
			s = &vsSide{}
		}
		run := 0
		for k, n := range s.closeRunning {
			if n > run && !s.closeFailed[k] {
				run = n
			}
		}
		cr := false
		for _, w := range c.waiters {
			if w.side == i && w.what == "Close" && w.done {
				cr = true
			}
		}
		return fmt.Sprintf("%sconn=%s %stc=%d %srun=%d %src=%d %swc=%d %soc=%d %scr=%s", p, b(s.conn != nil && c.recJudged), p, s.closeCalls, p, run, p, s.rcClose, p, s.wcClose, p, s.onClose, p, b(cr))
	}
	// the wire taps for the typed monitor of C02 (SessClose/Wire.lean: WireObs): "<judge answered>,<qSeq>,<tokens>"
	wire := func(i int) string {
		s := c.side[i]
		toks := []string{b(c.recJudged && c.qTaken && c.qUsable[i]), strconv.Itoa(c.qSeq)}
		if s != nil && c.recJudged {
			for _, w := range s.tap {
				switch {
				case w.dir == 'r' && w.kind == 'c':
					toks = append(toks, fmt.Sprintf("r:%s:%d:%s", w.id, w.seq, b(w.method == methodSubscriptionsListen)))
				case w.dir == 'w' && w.kind == 'r' && w.ok:
					toks = append(toks, "w:"+w.id)
				}
			}
		}
		return strings.Join(toks, ",")
	}
	return fmt.Sprintf("hang=%s pipe=%s %s %s ssess=%d csess=%d subs=%d viarun=%s runret=%s pid=%s ## %s ## %s", b(c.recHang), b(c.cfg.pipe), side("c.", vsClient), side("s.", vsServer), c.recSsess, c.recCsess, c.recSubs, b(c.cfg.viaRun && c.recJudged), b(c.runReturned), os.Getenv("VERIF_PROPERTY"), wire(vsClient), wire(vsServer))
}

func (c *vsCase) tagList() []string {
	var ts []string
	for t := range c.tags {
		ts = append(ts, t)
	}
	sort.Strings(ts)
	return ts
}

// forceCleanup breaks whatever is still blocked so that the bubble can exit.
func (c *vsCase) forceCleanup() {
	c.mu.Lock()
	c.stopped = true
	c.mu.Unlock()
	c.releaseAll()
	defer c.cancelListens()
	c.cancelListens()
	if c.runCancel != nil {
		c.runCancel()
	}
	for _, r := range c.raw {
		r.Close()
	}
	c.mu.Lock()
	calls := append([]*vsCall(nil), c.calls...)
	c.mu.Unlock()
	for _, cl := range calls {
		cl.cancel()
	}
	synctest.Wait()
}

// cancelListens cancels what only a Close of the client session would cancel.
func (c *vsCase) cancelListens() {
	func() {
		defer func() { recover() }()
		if c.cs != nil {
			c.cs.cancelAllResourceSubscriptions()
			if c.cs.listenCancel != nil {
				c.cs.listenCancel()
			}
			if c.cs.keepaliveCancel != nil {
				c.cs.keepaliveCancel()
			}
		}
		if c.ss != nil && c.ss.keepaliveCancel != nil {
			c.ss.keepaliveCancel()
		}
	}()
}

func vsRunCase(t *testing.T, out *verifOut, id string, seed int64, idx int) {
	c := &vsCase{seed: seed, idx: idx, rng: vsRng(seed, idx), tags: map[string]bool{}, beh: map[string]vsBeh{},
		listenIDsAtClose: map[string]bool{}, wfailOn: map[string]bool{}, rfailOn: map[string]bool{}, hrec: map[string]*vsHRec{}, produced: map[string]string{}, issued: map[string][]vsIssued{}, toolsEver: map[string]bool{}}
	out.begin(id, c.op) // for the hang watchdog: this case's record is written only at its end
	func() {
		defer func() {
			if r := recover(); r != nil {
				c.viol("C05: panic in the harness goroutine: %v", r)
			}
		}()
		c.run()
	}()
	obs := c.obs()
	if obs == "clean" {
		c.tag("clean")
		if len(c.viols) > 0 {
			c.tag("clause-of-another-property")
		}
	} else {
		c.tag("violation")
	}
	out.line(id, c.op(), obs+" ## "+c.rec()+" ## "+c.callsRec()+" ## "+c.orderRec()+" ## "+c.extraRec(), c.tagList()...)
	out.flush()
	if vsDebug {
		fmt.Fprintf(os.Stderr, "== %s\n%s\n=> %s\n", c.op(), strings.Join(c.trace, "\n"), obs)
	}
	c.forceCleanup()
}

// vsParseOp extracts seed and idx from an op line "sess seed=<n> idx=<k> ...".
func vsParseOp(op string) (seed int64, idx int, ok bool) {
	toks := strings.Fields(op)
	if len(toks) > 0 && toks[0] == "verif-hang" { // the watchdog's record of a case that hung
		toks = toks[1:]
	}
	if len(toks) == 0 || toks[0] != "sess" {
		return 0, 0, false
	}
	var hs, hi bool
	for _, t := range toks[1:] {
		if v, f := strings.CutPrefix(t, "seed="); f {
			n, err := strconv.ParseInt(v, 10, 64)
			if err == nil {
				seed, hs = n, true
			}
		}
		if v, f := strings.CutPrefix(t, "idx="); f {
			n, err := strconv.Atoi(v)
			if err == nil {
				idx, hi = n, true
			}
		}
	}
	return seed, idx, hs && hi
}

func vsReadOps(path string) []string {
	b, err := os.ReadFile(path)
	if err != nil {
		return nil
	}
	var ops []string
	for _, ln := range strings.Split(string(b), "\n") {
		ln = strings.TrimSpace(ln)
		if ln != "" && !strings.HasPrefix(ln, "#") {
			ops = append(ops, ln)
		}
	}
	return ops
}

func TestVerifSessLevel(t *testing.T) {
	out := verifOpen(t)
	defer out.close()
	if p := os.Getenv("VERIF_REPLAY"); p != "" {
		n := 0
		for _, op := range vsReadOps(p) {
			if seed, idx, ok := vsParseOp(op); ok {
				n++
				synctest.Test(t, func(t *testing.T) { vsRunCase(t, out, "replay", seed, idx) })
			}
		}
		if n == 0 {
			out.line("replay", "sess skip", "clean", "skip") // a replay file of another stream
		}
		return
	}
	if dir := os.Getenv("VERIF_CORPUS"); dir != "" {
		ents, _ := os.ReadDir(dir)
		for _, e := range ents {
			if !strings.HasSuffix(e.Name(), ".ops") {
				continue
			}
			for k, op := range vsReadOps(dir + "/" + e.Name()) {
				if seed, idx, ok := vsParseOp(op); ok {
					id := fmt.Sprintf("corpus-%s-%d", strings.TrimSuffix(e.Name(), ".ops"), k)
					synctest.Test(t, func(t *testing.T) { vsRunCase(t, out, id, seed, idx) })
				}
			}
		}
	}
	n := verifN(500, 6000)
	seed := verifSeed()
	for i := 0; i < n; i++ {
		synctest.Test(t, func(t *testing.T) { vsRunCase(t, out, fmt.Sprintf("s%d", i), seed, i) })
	}
}
