// E1 correspondence harness: drives the REAL jsonrpc2.Connection (with the real mcp.call caller and
// the real canceller preempter) one atomic section at a time under testing/synctest.
// Every goroutine parks at verifYield before each critical section (build tag verif) and inside the
// scripted Reader/Writer/Handler; the controller (root goroutine of the bubble) releases exactly one
// parked goroutine or performs one environment action per step, waits for quiescence, and prints
// "<label> => <complete observable state>".  The Lean driver replays the labels on the model.
package mcp

import (
	"context"
	"encoding/json"
	"errors"
	"fmt"
	"io"
	"math"
	"math/rand"
	"os"
	"runtime"
	"sort"
	"strconv"
	"strings"
	"sync"
	"sync/atomic"
	"testing"
	"testing/synctest"
	"time"

	"github.com/modelcontextprotocol/go-sdk/internal/jsonrpc2"
	"github.com/modelcontextprotocol/go-sdk/jsonrpc"
)

type vcParked struct {
	name string
	ch   chan int
}

type vcResult struct {
	Meta `json:"_meta,omitempty"`
	P    int
}

func (*vcResult) isResult() {}

type vcUserParams struct{ K int }

// vcBadParams cannot be encoded by encoding/json (a channel): Connection.Call fails in NewCall, before
// the call is registered and before the C1 yield site (op "ecallbad").
type vcBadParams struct{ C chan int }

func (*vcBadParams) GetMeta() map[string]any { return nil }
func (*vcBadParams) SetMeta(map[string]any)  {}
func (*vcBadParams) isParams()               {}
func (x *vcBadParams) isNil() bool           { return x == nil }

var errVcBroken = errors.New("verif: broken pipe")

// vcDeadlineCtx is a caller context that ends the way a deadline does: once done, Err reports
// context.DeadlineExceeded (every second generated call uses it; the others end with Canceled).
type vcDeadlineCtx struct{ context.Context }

func (d vcDeadlineCtx) Err() error {
	if d.Context.Err() != nil {
		return context.DeadlineExceeded
	}
	return nil
}

// --- hang watchdog.  Every step ends with synctest.Wait(); if SDK code blocks a bubble goroutine
// on something that is not durable (a package-level channel or lock), Wait never returns and no
// record could be written.  A goroutine outside the bubble therefore watches a heartbeat in REAL
// time; when a step has been waiting for vcHangAfter it writes a final record
//   <case> \t hang <the step> \t hang <goroutines of the bubble that are blocked but not durably> \t hang
// and ends the process (the records written so far are evaluated as usual).
const vcHangAfter = 90 * time.Second

var (
	vcBeat    atomic.Int64 // odd while a step waits for quiescence
	vcPending atomic.Value // *vcPend: the step being waited for
)

type vcPend struct {
	cs, op string
	c      *vcCase
}

func vcWatchdog(out *verifOut) (stop func()) {
	quit := make(chan struct{})
	go func() {
		last, since := int64(-1), time.Now()
		for {
			select {
			case <-quit:
				return
			case <-time.After(2 * time.Second):
			}
			b := vcBeat.Load()
			if b != last || b%2 == 0 {
				last, since = b, time.Now()
				continue
			}
			if time.Since(since) < vcHangAfter {
				continue
			}
			pd, _ := vcPending.Load().(*vcPend)
			if pd == nil {
				pd = &vcPend{"?", "?", nil}
			}
			// callers whose context was cancelled and that have not returned (the bubble is hung: reading
			// the case's bookkeeping from here does not race with anything that still runs)
			var late []string
			if pd.c != nil {
				for _, cl := range pd.c.calls {
					if cl.ctxd && !cl.done {
						late = append(late, fmt.Sprintf("c%d", cl.n))
					}
				}
			}
			lt := ""
			if len(late) > 0 {
				lt = "cancelled-callers-still-blocked=" + strings.Join(late, ",") + " "
			}
			out.line(pd.cs, "hang "+pd.op, "hang "+lt+"blocked="+vcBlockedSummary(), "hang")
			out.flush()
			os.Exit(0)
		}
	}()
	return func() { close(quit) }
}

// vcBlockedSummary lists the goroutines of a synctest bubble that are blocked but not durably
// (which is what keeps synctest.Wait from returning): "<state> at <innermost non-runtime frame>".
func vcBlockedSummary() string {
	buf := make([]byte, 4<<20)
	buf = buf[:runtime.Stack(buf, true)]
	var outl []string
	for _, g := range strings.Split(string(buf), "\n\n") {
		lines := strings.Split(g, "\n")
		if len(lines) < 3 || !strings.Contains(lines[0], "synctest bubble") || strings.Contains(lines[0], "durable") || strings.Contains(lines[0], "running") || strings.Contains(lines[0], "runnable") {
			continue
		}
		hdr := lines[0]
		state := hdr
		if i, j := strings.Index(hdr, "["), strings.Index(hdr, "]"); i >= 0 && j > i {
			state = strings.Split(hdr[i+1:j], ",")[0]
		}
		where := "?"
		for k := 1; k+1 < len(lines); k += 2 {
			fn, loc := lines[k], strings.TrimSpace(lines[k+1])
			if strings.HasPrefix(fn, "runtime.") || strings.HasPrefix(fn, "sync.") || strings.HasPrefix(fn, "internal/") || strings.HasPrefix(fn, "testing/synctest.") {
				continue
			}
			if i := strings.LastIndex(loc, "/"); i >= 0 {
				loc = loc[i+1:]
			}
			if i := strings.Index(loc, " "); i >= 0 {
				loc = loc[:i]
			}
			if i := strings.Index(fn, "("); i > 0 && !strings.HasPrefix(fn, "created by") {
				fn = fn[:i]
			}
			if i := strings.LastIndex(fn, "/"); i >= 0 {
				fn = fn[i+1:]
			}
			where = fn + "@" + loc
			break
		}
		outl = append(outl, strings.ReplaceAll(state, " ", "-")+":"+where)
	}
	sort.Strings(outl)
	if len(outl) > 6 {
		outl = outl[:6]
	}
	if len(outl) == 0 {
		return "none-identified"
	}
	return strings.Join(outl, ";")
}

type vcCase struct {
	t      *testing.T
	idBase int64 // wire id of the peer's call k is idBase+k (the model and the records use k): ids beyond 2^53 exercise exact id handling
	rng    *rand.Rand
	mu     sync.Mutex
	parked []*vcParked
	gidReq map[string]int // goroutine id -> request whose processResult it is running
	gidCall map[string]int // goroutine id of a user call (envCallWith) -> the call's number: a caller goroutine is named by the CALL it runs, never by the wire id the connection drew for it
	conn   *jsonrpc2.Connection

	reqNo     map[*jsonrpc.Request]int
	reqCtx    map[int]context.Context
	nreq      int
	respFor   map[string]int // wire id (as string) -> request number whose response is being produced
	rdSlot    chan vcRead
	closed    bool
	closes    int
	onDone    int
	eofSent   bool
	internal  []string
	calls     []*vcCall
	unotifs   []*vcNotif
	xnotifs   map[int]*vcNotif
	closeFin  int
	waitFin   int
	closeN    int
	waitN     int
	nextPeer  int
	payload   int
	handlerAs map[int]bool
	log       []string // records of this case
	panics    []string
	steps     int
}

type vcRead struct {
	m   jsonrpc.Message
	err error
}

type vcCall struct {
	n      int
	ctx    context.Context
	cancel context.CancelFunc
	done   bool
	res    string
	ctxd   bool
}

type vcNotif struct {
	done bool
	res  string
}

func (c *vcCase) park(name string) int {
	p := &vcParked{name: name, ch: make(chan int)}
	c.mu.Lock() // several goroutines may wake in the same step (e.g. every waiter when done closes)
	c.parked = append(c.parked, p)
	c.mu.Unlock()
	return <-p.ch
}

// vcGid returns the current goroutine's id: processResult runs P1, the response write (W1, the
// transport Write, W2) and P2 on one goroutine, which is how a Response message is attributed to its
// request even when two in-flight requests carry the same wire id.
func vcGid() string {
	var buf [64]byte
	n := runtime.Stack(buf[:], false)
	f := strings.Fields(string(buf[:n]))
	if len(f) >= 2 {
		return f[1]
	}
	return "?"
}

func (c *vcCase) subjectName(site string, subj any) string {
	switch site {
	case "START", "CL1", "RR", "RX", "D1":
		return site
	case "WT":
		if subj.(bool) {
			return "WT:1"
		}
		return "WT:0"
	case "K1":
		if v, ok := subj.(jsonrpc2.ID).Raw().(int64); ok {
			return fmt.Sprintf("K1:%d", v-c.idBase) // logical id, as in the records
		}
		return fmt.Sprintf("K1:%v", subj.(jsonrpc2.ID).Raw())
	case "C1", "R":
		if n, ok := c.callOfGoroutine(); ok {
			return fmt.Sprintf("%s:c%d", site, n)
		}
		return fmt.Sprintf("%s:c%v", site, subj.(*jsonrpc2.AsyncCall).ID().Raw())
	case "N1", "N2":
		switch p := subj.(type) {
		case *CancelledParams:
			return fmt.Sprintf("%s:x%v", site, p.RequestID)
		case vcUserParams:
			return fmt.Sprintf("%s:u%d", site, p.K)
		}
		return site + ":?"
	case "A1", "A2", "P1", "P2":
		r := c.reqNo[subj.(*jsonrpc.Request)]
		if site == "P1" {
			c.mu.Lock()
			c.gidReq[vcGid()] = r
			c.mu.Unlock()
		}
		return fmt.Sprintf("%s:r%d", site, r)
	case "W1", "W2", "WR":
		return site + ":" + c.msgWho(subj.(jsonrpc.Message))
	}
	return site + ":?"
}

// callOfGoroutine: the number of the user call whose goroutine is running (Connection.Call registers,
// writes and retires on the caller's goroutine).
func (c *vcCase) callOfGoroutine() (int, bool) {
	c.mu.Lock()
	defer c.mu.Unlock()
	n, ok := c.gidCall[vcGid()]
	return n, ok
}

func (c *vcCase) msgWho(m jsonrpc.Message) string {
	switch m := m.(type) {
	case *jsonrpc.Request:
		if m.IsCall() {
			if n, ok := c.callOfGoroutine(); ok {
				return fmt.Sprintf("c%d", n)
			}
			return fmt.Sprintf("c%v", m.ID.Raw())
		}
		if m.Method == notificationCancelled {
			var p CancelledParams
			json.Unmarshal(m.Params, &p)
			return fmt.Sprintf("x%v", p.RequestID)
		}
		var p vcUserParams
		json.Unmarshal(m.Params, &p)
		return fmt.Sprintf("u%d", p.K)
	case *jsonrpc.Response:
		c.mu.Lock()
		defer c.mu.Unlock()
		return fmt.Sprintf("r%d", c.gidReq[vcGid()])
	}
	return "?"
}

// --- scripted transport
func (c *vcCase) Read(ctx context.Context) (jsonrpc.Message, error) {
	c.park("RD")
	v := <-c.rdSlot
	return v.m, v.err
}

func (c *vcCase) Write(ctx context.Context, m jsonrpc.Message) error {
	switch c.park(c.subjectName("WR", m)) {
	case 1:
		return errVcBroken
	case 2:
		return fmt.Errorf("%w: verif", jsonrpc2.ErrRejected)
	case 3:
		return ctx.Err()
	}
	return nil
}

func (c *vcCase) Close() error {
	c.closes++
	c.closed = true
	return nil
}

type vcPreempter struct {
	c     *vcCase
	inner *canceller
}

func (p *vcPreempter) Preempt(ctx context.Context, req *jsonrpc.Request) (any, error) {
	p.c.mu.Lock()
	p.c.reqCtx[p.c.reqNo[req]] = ctx
	p.c.mu.Unlock()
	return p.inner.Preempt(ctx, req)
}

func (c *vcCase) handle(ctx context.Context, req *jsonrpc.Request) (any, error) {
	r := c.reqNo[req]
	for {
		switch c.park(fmt.Sprintf("H:r%d", r)) {
		case 1:
			jsonrpc2.Async(ctx)
			continue
		case 3:
			return nil, fmt.Errorf("verif handler error")
		}
		if req.IsCall() {
			return map[string]int{"ok": r}, nil
		}
		return nil, nil
	}
}

// --- observation
func (c *vcCase) observe() string {
	defer func() { recover() }()
	s := c.conn.VerifSnapshot()
	b := func(x bool) string {
		if x {
			return "1"
		}
		return "0"
	}
	idsIn := func(l []jsonrpc2.ID) string {
		var ns []int
		for _, id := range l {
			if v, ok := id.Raw().(int64); ok {
				ns = append(ns, int(v-c.idBase))
			}
		}
		sort.Ints(ns)
		var ss []string
		for _, n := range ns {
			ss = append(ss, strconv.Itoa(n))
		}
		return strings.Join(ss, ",")
	}
	ids := func(l []jsonrpc2.ID) string {
		var ns []int
		for _, id := range l {
			if v, ok := id.Raw().(int64); ok {
				ns = append(ns, int(v))
			}
		}
		sort.Ints(ns)
		var ss []string
		for _, n := range ns {
			ss = append(ss, strconv.Itoa(n))
		}
		return strings.Join(ss, ",")
	}
	var q []string
	for _, r := range s.Queue {
		q = append(q, strconv.Itoa(c.reqNo[r]))
	}
	var pk []string
	for _, p := range c.parked {
		pk = append(pk, p.name)
	}
	sort.Strings(pk)
	var xs []string
	for r := 0; r < c.nreq; r++ {
		ctx, ok := c.reqCtx[r]
		if !ok || ctx.Err() == nil {
			continue
		}
		cause := context.Cause(ctx)
		k := "c"
		switch {
		case errors.Is(cause, io.EOF):
			k = "r"
		case errors.Is(cause, jsonrpc2.ErrServerClosing):
			k = "w"
		}
		xs = append(xs, fmt.Sprintf("r%d:%s", r, k))
	}
	var fs []string
	for _, cl := range c.calls {
		if cl.done {
			fs = append(fs, fmt.Sprintf("c%d:%s", cl.n, cl.res))
		}
	}
	for k, n := range c.unotifs {
		if n.done {
			fs = append(fs, fmt.Sprintf("u%d:%s", k, n.res))
		}
	}
	sort.Strings(fs)
	fs = append(fs, fmt.Sprintf("close:%d", c.closeFin), fmt.Sprintf("wait:%d", c.waitFin))
	return fmt.Sprintf("S=%s%s%s%s%s%s oc=%s on=%d in=%d by=%s q=%s hr=%s tc=%d od=%d P=%s X=%s F=%s",
		b(s.Closing), b(s.Reading), b(s.ReadErr), b(s.WriteErr), b(s.CloserUsed), b(s.Done),
		ids(s.OutgoingCalls), s.OutgoingNotifications, s.Incoming, idsIn(s.IncomingByID), strings.Join(q, ","), b(s.HandlerRunning),
		c.closes, c.onDone, strings.Join(pk, ","), strings.Join(xs, ","), strings.Join(fs, ","))
}

func vcClassify(err error, res *vcResult) string {
	var we *jsonrpc.Error
	switch {
	case err == nil:
		return fmt.Sprintf("ok%d", res.P)
	case errors.Is(err, ErrConnectionClosed):
		return "closed"
	case errors.Is(err, context.Canceled), errors.Is(err, context.DeadlineExceeded):
		return "ctx"
	case errors.Is(err, io.EOF):
		return "read"
	case errors.Is(err, errVcBroken):
		return "broken"
	case errors.Is(err, jsonrpc2.ErrRejected):
		return "rejected"
	case strings.Contains(err.Error(), "marshaling call parameters"):
		return "marshal"
	case errors.As(err, &we):
		return fmt.Sprintf("ok%d", we.Code)
	}
	return "other(" + err.Error() + ")"
}

func vcClassifyNotify(err error) string {
	switch {
	case err == nil:
		return "ok"
	case errors.Is(err, jsonrpc2.ErrClientClosing), errors.Is(err, jsonrpc2.ErrServerClosing):
		return "closed"
	case errors.Is(err, errVcBroken):
		return "broken"
	case errors.Is(err, jsonrpc2.ErrRejected):
		return "rejected"
	}
	return "other(" + err.Error() + ")"
}

// --- environment actions; each returns the op tokens
// envCallBad: a user call whose params cannot be marshalled.
func (c *vcCase) envCallBad() string { c.envCallWith(&vcBadParams{C: make(chan int)}); return "ecallbad" }

func (c *vcCase) envCall() string { return c.envCallWith(nil) }

func (c *vcCase) envCallWith(params Params) string {
	ctx, cancel := context.WithCancel(context.Background())
	if len(c.calls)%2 == 1 { // c2, c4, …: the caller's context ends like a deadline (Err = DeadlineExceeded)
		ctx = vcDeadlineCtx{ctx}
	}
	cl := &vcCall{n: len(c.calls) + 1, ctx: ctx, cancel: cancel}
	c.calls = append(c.calls, cl)
	go func() {
		defer func() {
			// a panic on the caller's goroutine (e.g. "retire called twice") is an observation, not a crash
			if r := recover(); r != nil {
				cl.res = "panic"
				cl.done = true
				c.panics = append(c.panics, fmt.Sprint(r))
			}
		}()
		c.mu.Lock()
		c.gidCall[vcGid()] = cl.n
		c.mu.Unlock()
		var res vcResult
		err := call(ctx, c.conn, "m", params, &res)
		cl.res = vcClassify(err, &res)
		cl.done = true
	}()
	return "ecall"
}

func (c *vcCase) envNotify() string {
	n := &vcNotif{}
	k := len(c.unotifs)
	c.unotifs = append(c.unotifs, n)
	go func() {
		err := c.conn.Notify(context.Background(), "nn", vcUserParams{K: k})
		n.res = vcClassifyNotify(err)
		n.done = true
	}()
	return "enotify"
}

func (c *vcCase) envClose() string {
	c.closeN++
	go func() { c.conn.Close(); c.closeFin++ }()
	return "eclose"
}

func (c *vcCase) envWait() string {
	c.waitN++
	go func() { c.conn.Wait(); c.waitFin++ }()
	return "ewait"
}

func (c *vcCase) isParked(name string) bool {
	for _, p := range c.parked {
		if p.name == name {
			return true
		}
	}
	return false
}

func (c *vcCase) hasParkedFor(who string) bool {
	for _, p := range c.parked {
		if strings.HasSuffix(p.name, ":"+who) {
			return true
		}
	}
	return false
}

// ctxCancellable: the call is inside the transport write or blocked in Await (see Model.lean: the
// schedule "ctx cancelled before the write gate" makes Go's select in Await pick at random).
func (c *vcCase) ctxCancellable() []*vcCall {
	var out []*vcCall
	for _, cl := range c.calls {
		if cl.done || cl.ctxd {
			continue
		}
		who := fmt.Sprintf("c%d", cl.n)
		if c.isParked("WR:"+who) || !c.hasParkedFor(who) {
			out = append(out, cl)
		}
	}
	return out
}

func (c *vcCase) feed(v vcRead) { go func() { c.rdSlot <- v }() }

func (c *vcCase) release(p *vcParked, v int) {
	for i, q := range c.parked {
		if q == p {
			c.parked = append(c.parked[:i], c.parked[i+1:]...)
			break
		}
	}
	p.ch <- v
}

func (c *vcCase) find(name string) *vcParked {
	for _, p := range c.parked {
		if p.name == name {
			return p
		}
	}
	return nil
}

// readAction picks a message for the parked reader.
func (c *vcCase) readAction(snap jsonrpc2.VerifState) string {
	p := c.find("RD")
	if c.closed || c.rng.Intn(14) == 0 {
		c.eofSent = true
		c.release(p, 0)
		c.feed(vcRead{nil, io.EOF})
		return "read eof"
	}
	mk := func(m *jsonrpc.Request) {
		c.reqNo[m] = c.nreq
		c.nreq++
	}
	switch r := c.rng.Intn(100); {
	case r < 40: // peer call
		id := c.nextPeer
		if len(snap.IncomingByID) > 0 && c.rng.Intn(5) == 0 {
			id = int(snap.IncomingByID[c.rng.Intn(len(snap.IncomingByID))].Raw().(int64) - c.idBase) // duplicate of an in-flight id
		} else if c.nextPeer > 1 && c.rng.Intn(6) == 0 {
			// reuse of an already answered id (allowed once its response has left the write path)
			cand := 1 + c.rng.Intn(c.nextPeer-1)
			if _, busy := c.respFor[fmt.Sprint(c.idBase+int64(cand))]; !busy {
				id = cand
			}
		}
		if id == c.nextPeer {
			c.nextPeer++
		}
		m := &jsonrpc.Request{ID: jsonrpc2.Int64ID(c.idBase + int64(id)), Method: "m"}
		mk(m)
		c.release(p, 0)
		c.feed(vcRead{m, nil})
		return fmt.Sprintf("read call %d", id)
	case r < 55:
		m := &jsonrpc.Request{Method: "n"}
		mk(m)
		c.release(p, 0)
		c.feed(vcRead{m, nil})
		return "read notif"
	case r < 70 && c.nextPeer > 1:
		id := 1 + c.rng.Intn(c.nextPeer)
		params, _ := json.Marshal(&CancelledParams{RequestID: c.idBase + int64(id)})
		m := &jsonrpc.Request{Method: notificationCancelled, Params: params}
		mk(m)
		c.release(p, 0)
		c.feed(vcRead{m, nil})
		return fmt.Sprintf("read cancel %d", id)
	default:
		if len(c.calls) == 0 {
			m := &jsonrpc.Request{Method: "n"}
			mk(m)
			c.release(p, 0)
			c.feed(vcRead{m, nil})
			return "read notif"
		}
		id := 1 + c.rng.Intn(len(c.calls)+1)
		c.payload++
		pl := c.payload
		var m *jsonrpc.Response
		if pl%2 == 0 {
			m = &jsonrpc.Response{ID: jsonrpc2.Int64ID(int64(id)), Result: json.RawMessage(fmt.Sprintf(`{"P":%d}`, pl))}
		} else {
			m = &jsonrpc.Response{ID: jsonrpc2.Int64ID(int64(id)), Error: &jsonrpc.Error{Code: int64(pl), Message: "e"}}
		}
		c.release(p, 0)
		c.feed(vcRead{m, nil})
		return fmt.Sprintf("read resp %d %d", id, pl)
	}
}

func (c *vcCase) emit(out *verifOut, cs, op string, tags ...string) {
	vcPending.Store(&vcPend{cs, op, c})
	vcBeat.Add(1)
	synctest.Wait()
	vcBeat.Add(1)
	obs := c.observe()
	out.line(cs, op, obs, tags...)
	out.flush() // a panic on an SDK goroutine (e.g. "retire called twice" in the reader) kills the process: keep what was observed
	c.steps++
}

// releaseParked releases p with an outcome chosen for its kind; returns the op tokens.
func (c *vcCase) releaseParked(p *vcParked, force bool) (string, string) {
	site, subj, _ := strings.Cut(p.name, ":")
	switch site {
	case "RD":
		return "", ""
	case "WR":
		o, on := 0, "ok"
		ctxDone := false
		if strings.HasPrefix(subj, "c") {
			n, _ := strconv.Atoi(subj[1:])
			ctxDone = c.calls[n-1].ctx.Err() != nil
		}
		if ctxDone {
			switch c.rng.Intn(4) {
			case 0:
				o, on = 1, "broken"
			case 1:
				o, on = 2, "rejected"
			default:
				o, on = 3, "ctx"
			}
		} else if !force {
			switch c.rng.Intn(14) {
			case 0:
				o, on = 1, "broken"
			case 1:
				o, on = 2, "rejected"
			}
		}
		if strings.HasPrefix(subj, "r") {
			// the response has left the write path: its id may be reused by the peer
			for k, v := range c.respFor {
				if fmt.Sprintf("r%d", v) == subj {
					delete(c.respFor, k)
				}
			}
		}
		c.release(p, o)
		return fmt.Sprintf("wret %s %s", subj, on), "wret-" + on
	case "H":
		r, _ := strconv.Atoi(subj[1:])
		if !c.handlerAs[r] && c.rng.Intn(2) == 0 {
			c.handlerAs[r] = true
			c.release(p, 1)
			return "hasync " + subj, "hasync"
		}
		if c.rng.Intn(5) == 0 {
			c.release(p, 3)
			return "hret " + subj + " 1", "hret"
		}
		c.release(p, 2)
		return "hret " + subj + " 0", "hret"
	case "P1":
		// remember which request the upcoming response belongs to
		r, _ := strconv.Atoi(subj[1:])
		for m, k := range c.reqNo {
			if k == r && m.ID.IsValid() {
				c.respFor[fmt.Sprint(m.ID.Raw())] = r
			}
		}
	}
	c.release(p, 0)
	if subj == "" {
		return site, site
	}
	return site + " " + subj, site
}

func vcRunCase(t *testing.T, out *verifOut, cs string, rng *rand.Rand, script []string) {
	c := &vcCase{t: t, rng: rng, reqNo: map[*jsonrpc.Request]int{}, reqCtx: map[int]context.Context{},
		respFor: map[string]int{}, gidReq: map[string]int{}, gidCall: map[string]int{}, rdSlot: make(chan vcRead), xnotifs: map[int]*vcNotif{}, nextPeer: 1, handlerAs: map[int]bool{}}
	jsonrpc2.VerifHook = func(_ *jsonrpc2.Connection, site string, subj any) {
		name := c.subjectName(site, subj)
		if site == "N1" {
			if p, ok := subj.(*CancelledParams); ok {
				// the detached notifications/cancelled goroutine: track its completion
				id, _ := p.RequestID.(int64)
				if _, seen := c.xnotifs[int(id)]; !seen {
					c.xnotifs[int(id)] = &vcNotif{}
				}
			}
		}
		c.park(name)
	}
	defer func() { jsonrpc2.VerifHook = nil }()
	out.line(cs, "reset", "ok")
	if script == nil {
		switch rng.Intn(10) {
		case 8:
			c.idBase = 1 << 53 // idBase+1 is the first integer a float64 cannot represent
		case 9:
			c.idBase = math.MaxInt64 - 4096
		}
		if c.idBase != 0 {
			out.line(cs, fmt.Sprintf("idbase %d", c.idBase), "ok", "idbase")
		}
	} else {
		for _, op := range script {
			if f := strings.Fields(op); len(f) == 2 && f[0] == "idbase" {
				c.idBase, _ = strconv.ParseInt(f[1], 10, 64)
				out.line(cs, op, "ok", "idbase")
			}
		}
	}
	pre := &vcPreempter{c: c, inner: &canceller{}}
	ready := make(chan struct{})
	go func() {
		c.conn = jsonrpc2.NewConnection(context.Background(), jsonrpc2.ConnectionConfig{
			Reader: c, Writer: c, Closer: c,
			Preempter:       pre,
			OnDone:          func() { c.onDone++ },
			OnInternalError: func(err error) { c.internal = append(c.internal, err.Error()) },
			Bind: func(conn *jsonrpc2.Connection) jsonrpc2.Handler {
				pre.inner.conn = conn
				c.conn = conn
				return jsonrpc2.HandlerFunc(c.handle)
			},
		})
		close(ready)
	}()
	synctest.Wait()
	// START
	c.release(c.find("START"), 0)
	c.emit(out, cs, "START", "START")
	<-ready

	envBudget := 10 + rng.Intn(14)
	maxSteps := 40 + rng.Intn(100)
	// "cancel storm" cases: many calls are cancelled while the writer is stalled for the detached
	// cancellation notices (their transport Write is not released before the drain phase)
	storm := 0
	if script == nil && rng.Intn(12) == 0 {
		storm = 9 + rng.Intn(5)
		envBudget, maxSteps = 3*storm, 60+12*storm
	}
	// "backlog" cases: while a handler that has not declared itself asynchronous is running (the
	// dispatcher waits for it), it is not released and the reader is preferred, so that the handler queue
	// grows to several messages (calls, notifications, cancellations of calls that are still queued)
	// before anything is dispatched; the backlog is then worked off in PRNG order as usual.
	backlog := 0
	if script == nil && storm == 0 && rng.Intn(6) == 0 {
		backlog = 4 + rng.Intn(5)
		envBudget += backlog
	}
	step := func(force bool) bool {
		synctest.Wait()
		type opt struct {
			f func() (string, string)
		}
		var opts []opt
		snap := c.conn.VerifSnapshot()
		for _, p := range c.parked {
			p := p
			if p.name == "RD" {
				if force {
					if !c.eofSent {
						opts = append(opts, opt{func() (string, string) {
							c.eofSent = true
							c.release(p, 0)
							c.feed(vcRead{nil, io.EOF})
							return "read eof", "read-eof"
						}})
					}
					continue
				}
				if envBudget > 0 {
					opts = append(opts, opt{func() (string, string) {
						envBudget--
						op := c.readAction(snap)
						return op, strings.Join(strings.Fields(op)[:2], "-")
					}})
				}
				continue
			}
			if storm > 0 && !force && strings.HasPrefix(p.name, "WR:x") {
				continue // the writer is stalled for cancellation notices
			}
			if backlog > 0 && !force && snap.HandlerRunning && len(snap.Queue) < backlog && strings.HasPrefix(p.name, "H:") {
				if r, _ := strconv.Atoi(strings.TrimPrefix(p.name, "H:r")); !c.handlerAs[r] {
					continue // the synchronous handler is held while the backlog builds up
				}
			}
			opts = append(opts, opt{func() (string, string) { return c.releaseParked(p, force) }})
		}
		if backlog > 0 && !force && envBudget > 0 && snap.HandlerRunning && len(snap.Queue) < backlog && rng.Intn(2) == 0 {
			if p := c.find("RD"); p != nil {
				envBudget--
				op := c.readAction(snap)
				c.emit(out, cs, op, strings.Join(strings.Fields(op)[:2], "-"), "backlog")
				return true
			}
		}
		if storm > 0 && !force && envBudget > 0 && len(c.calls) < storm && rng.Intn(2) == 0 {
			envBudget--
			c.emit(out, cs, c.envCall(), "ecall")
			return true
		}
		if !force && envBudget > 0 {
			opts = append(opts,
				opt{func() (string, string) {
					envBudget--
					if rng.Intn(20) == 0 { // a call whose params cannot be encoded
						return c.envCallBad(), "ecallbad"
					}
					return c.envCall(), "ecall"
				}},
				opt{func() (string, string) { envBudget--; return c.envNotify(), "enotify" }})
			if c.closeN < 2 && rng.Intn(3) == 0 {
				opts = append(opts, opt{func() (string, string) { envBudget--; return c.envClose(), "eclose" }})
			}
			if c.waitN < 2 && rng.Intn(3) == 0 {
				opts = append(opts, opt{func() (string, string) { envBudget--; return c.envWait(), "ewait" }})
			}
		}
		if cc := c.ctxCancellable(); len(cc) > 0 && (force || storm > 0 || rng.Intn(3) == 0) {
			opts = append(opts, opt{func() (string, string) {
				cl := cc[rng.Intn(len(cc))]
				cl.ctxd = true
				cl.cancel()
				return fmt.Sprintf("ectx c%d", cl.n), "ectx"
			}})
		}
		if len(opts) == 0 {
			return false
		}
		op, tag := opts[rng.Intn(len(opts))].f()
		if op == "" {
			return true
		}
		c.emit(out, cs, op, tag)
		return true
	}
	if script != nil {
		vcRunScript(c, out, cs, script)
	} else {
		for i := 0; i < maxSteps; i++ {
			if !step(false) {
				break
			}
		}
	}
	// drain: EOF, cancel pending calls, release everything with benign outcomes; a Close makes sure
	// the connection shuts down even if nothing else did.
	if c.closeN == 0 {
		c.emit(out, cs, c.envClose(), "eclose")
	}
	if script == nil && rng.Intn(8) == 0 { // a bad call while the connection shuts down
		c.emit(out, cs, c.envCallBad(), "ecallbad")
	}
	for i := 0; i < 2000; i++ {
		if !step(true) {
			break
		}
	}
	if script == nil && rng.Intn(8) == 0 { // ... and after it has terminated
		c.emit(out, cs, c.envCallBad(), "ecallbad")
	}
	synctest.Wait()
	// end of case: everything must have finished
	var stuck []string
	for _, cl := range c.calls {
		if !cl.done {
			stuck = append(stuck, fmt.Sprintf("c%d", cl.n))
		}
	}
	for k, n := range c.unotifs {
		if !n.done {
			stuck = append(stuck, fmt.Sprintf("u%d", k))
		}
	}
	if c.closeFin != c.closeN {
		stuck = append(stuck, "close")
	}
	if c.waitFin != c.waitN {
		stuck = append(stuck, "wait")
	}
	for _, p := range c.parked {
		stuck = append(stuck, "parked:"+p.name)
	}
	snap := c.conn.VerifSnapshot()
	obs := "clean"
	if len(stuck) > 0 || !snap.Done || len(c.internal) > 0 {
		sort.Strings(stuck)
		obs = fmt.Sprintf("stuck done=%v %s internal=%d", snap.Done, strings.Join(stuck, ","), len(c.internal))
	}
	out.line(cs, "end", obs, "end")
	out.flush()
	if len(stuck) > 0 {
		// unblock what we can so that the bubble can exit
		for _, p := range append([]*vcParked(nil), c.parked...) {
			c.release(p, 0)
		}
	}
}

// vcRunScript replays an explicit label list (replay / corpus files).
func vcRunScript(c *vcCase, out *verifOut, cs string, script []string) {
	for _, op := range script {
		toks := strings.Fields(op)
		if len(toks) == 0 || toks[0] == "reset" || toks[0] == "idbase" || toks[0] == "START" || toks[0] == "end" || toks[0] == "sess" { // "sess": a case of stream sess (zz_verif_sesslevel_test.go)
			continue
		}
		synctest.Wait()
		switch toks[0] {
		case "ecall":
			c.envCall()
		case "ecallbad":
			c.envCallBad()
		case "enotify":
			c.envNotify()
		case "eclose":
			c.envClose()
		case "ewait":
			c.envWait()
		case "ectx":
			n, _ := strconv.Atoi(toks[1][1:])
			if n >= 1 && n <= len(c.calls) {
				c.calls[n-1].ctxd = true
				c.calls[n-1].cancel()
			}
		case "read":
			p := c.find("RD")
			if p == nil {
				out.line(cs, op, "not-enabled", "replay")
				return
			}
			mk := func(m *jsonrpc.Request) { c.reqNo[m] = c.nreq; c.nreq++ }
			c.release(p, 0)
			switch toks[1] {
			case "eof":
				c.eofSent = true
				c.feed(vcRead{nil, io.EOF})
			case "call":
				id, _ := strconv.Atoi(toks[2])
				if id >= c.nextPeer {
					c.nextPeer = id + 1
				}
				m := &jsonrpc.Request{ID: jsonrpc2.Int64ID(c.idBase + int64(id)), Method: "m"}
				mk(m)
				c.feed(vcRead{m, nil})
			case "notif":
				m := &jsonrpc.Request{Method: "n"}
				mk(m)
				c.feed(vcRead{m, nil})
			case "cancel":
				id, _ := strconv.Atoi(toks[2])
				params, _ := json.Marshal(&CancelledParams{RequestID: c.idBase + int64(id)})
				m := &jsonrpc.Request{Method: notificationCancelled, Params: params}
				mk(m)
				c.feed(vcRead{m, nil})
			case "resp":
				id, _ := strconv.Atoi(toks[2])
				pl, _ := strconv.Atoi(toks[3])
				if pl%2 == 0 {
					c.feed(vcRead{&jsonrpc.Response{ID: jsonrpc2.Int64ID(int64(id)), Result: json.RawMessage(fmt.Sprintf(`{"P":%d}`, pl))}, nil})
				} else {
					c.feed(vcRead{&jsonrpc.Response{ID: jsonrpc2.Int64ID(int64(id)), Error: &jsonrpc.Error{Code: int64(pl), Message: "e"}}, nil})
				}
			}
		case "wret":
			p := c.find("WR:" + toks[1])
			if p == nil {
				out.line(cs, op, "not-enabled", "replay")
				return
			}
			if strings.HasPrefix(toks[1], "r") {
				for k, v := range c.respFor {
					if fmt.Sprintf("r%d", v) == toks[1] {
						delete(c.respFor, k)
					}
				}
			}
			c.release(p, map[string]int{"ok": 0, "broken": 1, "rejected": 2, "ctx": 3}[toks[2]])
		case "hasync", "hret":
			p := c.find("H:" + toks[1])
			if p == nil {
				out.line(cs, op, "not-enabled", "replay")
				return
			}
			v := 2
			if toks[0] == "hasync" {
				r, _ := strconv.Atoi(toks[1][1:])
				c.handlerAs[r] = true
				v = 1
			} else if len(toks) > 2 && toks[2] == "1" {
				v = 3
			}
			c.release(p, v)
		default:
			name := toks[0]
			if len(toks) > 1 {
				name += ":" + toks[1]
			}
			p := c.find(name)
			if p == nil {
				out.line(cs, op, "not-enabled", "replay")
				return
			}
			if toks[0] == "P1" {
				r, _ := strconv.Atoi(toks[1][1:])
				for m, k := range c.reqNo {
					if k == r && m.ID.IsValid() {
						c.respFor[fmt.Sprint(m.ID.Raw())] = r
					}
				}
			}
			c.release(p, 0)
		}
		c.emit(out, cs, op, "replay")
	}
}

func vcReadOps(path string) []string {
	b, err := os.ReadFile(path)
	if err != nil {
		return nil
	}
	var ops []string
	for _, ln := range strings.Split(string(b), "\n") {
		ln = strings.TrimSpace(ln)
		if ln != "" && !strings.HasPrefix(ln, "#") {
			ops = append(ops, ln)
		}
	}
	return ops
}

func TestVerifConn(t *testing.T) {
	out := verifOpen(t)
	defer out.close()
	out.noWatch.Store(true) // this harness has its own watchdog (it knows which callers were cancelled)
	defer vcWatchdog(out)()
	if p := os.Getenv("VERIF_REPLAY"); p != "" {
		synctest.Test(t, func(t *testing.T) { vcRunCase(t, out, "replay", verifRng(0), vcReadOps(p)) })
		return
	}
	if dir := os.Getenv("VERIF_CORPUS"); dir != "" {
		ents, _ := os.ReadDir(dir)
		for _, e := range ents {
			if strings.HasSuffix(e.Name(), ".ops") {
				name := strings.TrimSuffix(e.Name(), ".ops")
				synctest.Test(t, func(t *testing.T) {
					vcRunCase(t, out, "corpus-"+name, verifRng(0), vcReadOps(dir+"/"+e.Name()))
				})
			}
		}
	}
	n := verifN(400, 20000)
	for i := 0; i < n; i++ {
		rng := verifRng(int64(i))
		synctest.Test(t, func(t *testing.T) { vcRunCase(t, out, fmt.Sprintf("g%d", i), rng, nil) })
	}
}
