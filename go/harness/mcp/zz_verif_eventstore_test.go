// E15 correspondence harness: random operation sequences on the real MemoryEventStore.
package mcp

import (
	"context"
	"errors"
	"fmt"
	"math/rand"
	"os"
	"strings"
	"sync"
	"testing"
)

func esRetained(s *MemoryEventStore) (nBytes, maxBytes, retained int) {
	s.mu.Lock()
	defer s.mu.Unlock()
	for _, sm := range s.store {
		for _, dl := range sm {
			for _, d := range dl.data {
				retained += len(d)
			}
		}
	}
	return s.nBytes, s.maxBytes, retained
}

// esApply runs one op line against the store and returns the canonical observation.
func esApply(s *MemoryEventStore, toks []string) (obs string) {
	defer func() {
		if r := recover(); r != nil {
			obs = "panic"
		}
	}()
	ctx := context.Background()
	switch toks[0] {
	case "open":
		if err := s.Open(ctx, toks[1], toks[2]); err != nil {
			return "err"
		}
		return "ok"
	case "append":
		var d []byte
		fmt.Sscanf(toks[3], "x%x", &d)
		if err := s.Append(ctx, toks[1], toks[2], d); err != nil {
			return "err"
		}
		return "ok"
	case "after":
		var idx int
		fmt.Sscanf(toks[3], "%d", &idx)
		out := []string{"items"}
		for d, err := range s.After(ctx, toks[1], toks[2], idx) {
			if err != nil {
				if errors.Is(err, ErrEventsPurged) {
					if len(out) > 1 {
						return "partial-then-purged"
					}
					return "purged"
				}
				if len(out) > 1 {
					return "partial-then-error"
				}
				return "unknown"
			}
			out = append(out, "x"+hx(d))
		}
		return strings.Join(out, " ")
	case "afteri":
		// afteri <sess> <stream> <idx> <k> <sess2> <stream2> <payload>: iterate After and, after k items have been
		// yielded, append to (sess2, stream2) from inside the loop body (may purge), then go on iterating.
		// The iterator must deliver what was retained when it started: After copies under the lock.
		var idx, k int
		fmt.Sscanf(toks[3], "%d", &idx)
		fmt.Sscanf(toks[4], "%d", &k)
		var d []byte
		fmt.Sscanf(toks[7], "x%x", &d)
		out := []string{"items"}
		n, done := 0, false
		inject := func() {
			if !done {
				done = true
				s.Append(ctx, toks[5], toks[6], d)
			}
		}
		for it, err := range s.After(ctx, toks[1], toks[2], idx) {
			if err != nil {
				inject()
				if errors.Is(err, ErrEventsPurged) {
					if len(out) > 1 {
						return "partial-then-purged"
					}
					return "purged"
				}
				return "unknown"
			}
			out = append(out, "x"+hx(it))
			n++
			if n == k {
				inject()
			}
		}
		inject()
		return strings.Join(out, " ")
	case "setmax":
		var n int
		fmt.Sscanf(toks[1], "%d", &n)
		s.SetMaxBytes(n)
		return "ok"
	case "closed":
		if err := s.SessionClosed(ctx, toks[1]); err != nil {
			return "err"
		}
		return "ok"
	case "maxbytes":
		return fmt.Sprintf("num %d", s.MaxBytes())
	case "stat":
		n, m, r := esRetained(s)
		return fmt.Sprintf("stat %d %d %d", n, m, r)
	}
	return "bad-op"
}

type esGen struct {
	rng   *rand.Rand
	limit int
	ctr   byte
	count map[string]int // appended per key (to aim After indices at interesting places)
}

func (g *esGen) payload() string {
	var n int
	switch g.rng.Intn(8) {
	case 0:
		n = 0
	case 1:
		n = 1
	case 2:
		n = g.limit - 1
	case 3:
		n = g.limit
	case 4:
		n = g.limit + 1
	default:
		n = g.rng.Intn(g.limit + 2)
	}
	if n < 0 {
		n = 0
	}
	if n > 200 {
		n = 200
	}
	b := make([]byte, n)
	for i := range b {
		g.ctr++
		b[i] = g.ctr
	}
	return "x" + hx(b)
}

func (g *esGen) next() string {
	sess := []string{"s1", "s2", "s3"}[g.rng.Intn(3)]
	stream := []string{"a", "b", "c"}[g.rng.Intn(3)]
	key := sess + "/" + stream
	switch r := g.rng.Intn(100); {
	case r < 8:
		return "open " + sess + " " + stream
	case r < 50:
		g.count[key]++
		return "append " + sess + " " + stream + " " + g.payload()
	case r < 56:
		n := g.count[key]
		idx := g.rng.Intn(n+2) - 1
		s2 := []string{"s1", "s2", "s3"}[g.rng.Intn(3)]
		t2 := []string{"a", "b", "c"}[g.rng.Intn(3)]
		g.count[s2+"/"+t2]++
		return fmt.Sprintf("afteri %s %s %d %d %s %s %s", sess, stream, idx, g.rng.Intn(3), s2, t2, g.payload())
	case r < 80:
		n := g.count[key]
		idx := g.rng.Intn(n+3) - 1 // -1 .. n+1
		if g.rng.Intn(20) == 0 {
			idx = -2 - g.rng.Intn(3) // out-of-domain index: model must agree too
		}
		return fmt.Sprintf("after %s %s %d", sess, stream, idx)
	case r < 86:
		lim := []int{1, 2, 7, 64, 0}[g.rng.Intn(5)]
		if lim != 0 {
			g.limit = lim
		}
		return fmt.Sprintf("setmax %d", lim)
	case r < 91:
		for k := range g.count {
			if strings.HasPrefix(k, sess+"/") {
				delete(g.count, k)
			}
		}
		return "closed " + sess
	case r < 94:
		return "maxbytes"
	default:
		return "stat"
	}
}

func TestVerifEventStore(t *testing.T) {
	out := verifOpen(t)
	defer out.close()
	// corpus first
	if p := os.Getenv("VERIF_CORPUS"); p != "" {
		esReplayFiles(t, out, p)
	}
	if p := os.Getenv("VERIF_REPLAY"); p != "" {
		esReplayFile(t, out, p, "replay")
		return
	}
	n := verifN(1500, 60000)
	for c := 0; c < n; c++ {
		rng := verifRng(int64(c))
		g := &esGen{rng: rng, limit: []int{1, 2, 7, 64}[rng.Intn(4)], count: map[string]int{}}
		s := NewMemoryEventStore(nil)
		cs := fmt.Sprintf("g%d", c)
		out.line(cs, "reset", "ok")
		first := fmt.Sprintf("setmax %d", g.limit)
		out.line(cs, first, esApply(s, strings.Fields(first)), "setmax")
		nops := 20 + rng.Intn(60)
		for i := 0; i < nops; i++ {
			op := g.next()
			toks := strings.Fields(op)
			obs := esApply(s, toks)
			tag := toks[0]
			if toks[0] == "after" {
				tag = "after-" + strings.Fields(obs)[0]
				if obs == "items" {
					tag = "after-empty"
				}
			}
			out.line(cs, op, obs, tag)
		}
		out.line(cs, "stat", esApply(s, []string{"stat"}), "stat")
	}
	if verifThorough() {
		esConcurrent(t, out)
	}
}

// esConcurrent: 8 goroutines hammer one store (run under -race in the thorough tier); afterwards the
// store must still satisfy the sequential contract for a final sequence of reads: every stream's
// After(-1) is either purged or a suffix-consistent list, and the accounting matches the data.
func esConcurrent(t *testing.T, out *verifOut) {
	for round := 0; round < 20; round++ {
		s := NewMemoryEventStore(nil)
		s.SetMaxBytes(64)
		var wg sync.WaitGroup
		for gi := 0; gi < 8; gi++ {
			wg.Add(1)
			go func(gi int) {
				defer wg.Done()
				rng := verifRng(int64(1_000_000 + round*100 + gi))
				g := &esGen{rng: rng, limit: 64, count: map[string]int{}}
				for i := 0; i < 300; i++ {
					esApply(s, strings.Fields(g.next()))
				}
			}(gi)
		}
		wg.Wait()
		n, _, r := esRetained(s)
		obs := "consistent"
		if n != r {
			obs = fmt.Sprintf("inconsistent nBytes=%d retained=%d", n, r)
		}
		out.line(fmt.Sprintf("conc%d", round), "concurrent-accounting", obs, "concurrent")
	}
}

func esReplayFiles(t *testing.T, out *verifOut, dir string) {
	ents, _ := os.ReadDir(dir)
	for _, e := range ents {
		if strings.HasSuffix(e.Name(), ".ops") {
			esReplayFile(t, out, dir+"/"+e.Name(), "corpus-"+strings.TrimSuffix(e.Name(), ".ops"))
		}
	}
}

func esReplayFile(t *testing.T, out *verifOut, path, cs string) {
	b, err := os.ReadFile(path)
	if err != nil {
		t.Fatal(err)
	}
	var s *MemoryEventStore
	for _, ln := range strings.Split(string(b), "\n") {
		ln = strings.TrimSpace(ln)
		if ln == "" || strings.HasPrefix(ln, "#") {
			continue
		}
		toks := strings.Fields(ln)
		if toks[0] == "reset" || s == nil {
			s = NewMemoryEventStore(nil)
			out.line(cs, "reset", "ok")
			if toks[0] == "reset" {
				continue
			}
		}
		out.line(cs, ln, esApply(s, toks), "corpus")
	}
}
