// E15 correspondence harness: random operation sequences on the real MemoryEventStore.
package mcp

import (
	"context"
	"errors"
	"fmt"
	"math/rand"
	"os"
	"strconv"
	"strings"
	"sync"
	"testing"
	"testing/synctest"
	"time"
)

// esT is the running test (synctest.Test needs it for the `deadline@` iterations).
var esT *testing.T

func esRetained(s *MemoryEventStore) (nBytes, maxBytes, retained int) {
	s.mu.Lock()
	defer s.mu.Unlock()
	for _, sm := range s.store {
		for _, dl := range sm {
			for _, d := range dl.data {
				retained += len(d)
			}
		}
	}
	return s.nBytes, s.maxBytes, retained
}

// esApply runs one op line against the store and returns the canonical observation.
func esApply(s *MemoryEventStore, toks []string) (obs string) {
	defer func() {
		if r := recover(); r != nil {
			obs = "panic"
		}
	}()
	ctx := context.Background()
	switch toks[0] {
	case "open":
		if err := s.Open(ctx, toks[1], toks[2]); err != nil {
			return "err"
		}
		return "ok"
	case "append":
		var d []byte
		fmt.Sscanf(toks[3], "x%x", &d)
		if err := s.Append(ctx, toks[1], toks[2], d); err != nil {
			return "err"
		}
		return "ok"
	case "after":
		var idx int
		fmt.Sscanf(toks[3], "%d", &idx)
		out := []string{"items"}
		for d, err := range s.After(ctx, toks[1], toks[2], idx) {
			if err != nil {
				if errors.Is(err, ErrEventsPurged) {
					if len(out) > 1 {
						return "partial-then-purged"
					}
					return "purged"
				}
				if len(out) > 1 {
					return "partial-then-error"
				}
				return "unknown"
			}
			out = append(out, "x"+hx(d))
		}
		return strings.Join(out, " ")
	case "afteri":
		// afteri <sess> <stream> <idx> <k> <sess2> <stream2> <payload>: iterate After and, after k items have been
		// yielded, append to (sess2, stream2) from inside the loop body (may purge), then go on iterating.
		// The iterator must deliver what was retained when it started: After copies under the lock.
		var idx, k int
		fmt.Sscanf(toks[3], "%d", &idx)
		fmt.Sscanf(toks[4], "%d", &k)
		var d []byte
		fmt.Sscanf(toks[7], "x%x", &d)
		out := []string{"items"}
		n, done, locked := 0, false, false
		inject := func() {
			if !done {
				done = true
				// an iterator that delivers while holding the store's lock would deadlock the append
				if !s.mu.TryLock() {
					locked = true
					return
				}
				s.mu.Unlock()
				s.Append(ctx, toks[5], toks[6], d)
			}
		}
		for it, err := range s.After(ctx, toks[1], toks[2], idx) {
			if locked {
				return "delivery-holds-lock"
			}
			if err != nil {
				inject()
				if errors.Is(err, ErrEventsPurged) {
					if len(out) > 1 {
						return "partial-then-purged"
					}
					return "purged"
				}
				return "unknown"
			}
			out = append(out, "x"+hx(it))
			n++
			if n == k {
				inject()
			}
		}
		if locked {
			return "delivery-holds-lock"
		}
		inject()
		return strings.Join(out, " ")
	case "iter":
		return esIter(s, toks)
	case "setmax":
		var n int
		fmt.Sscanf(toks[1], "%d", &n)
		s.SetMaxBytes(n)
		return "ok"
	case "closed":
		if err := s.SessionClosed(ctx, toks[1]); err != nil {
			return "err"
		}
		return "ok"
	case "maxbytes":
		return fmt.Sprintf("num %d", s.MaxBytes())
	case "stat":
		n, m, r := esRetained(s)
		return fmt.Sprintf("stat %d %d %d", n, m, r)
	}
	return "bad-op"
}

// esIter runs one record of the ITERATION PROTOCOL of After:
//
//	iter <sess> <stream> <idx> <ctx> <stop> [<pt>:<op>:<args>...]...
//
// ctx  = live | cancel@<c> | deadline@<c>: the context handed to After is cancelled (its deadline passes, in a
// synctest bubble on the virtual clock) before the call (c = 0) or in the loop body of the c-th yielded item
// (c >= 1; c = the number of items: after the last; never, if fewer than c items arrive).
// stop = drain | stop@<k>: the consumer breaks out of the loop in the body of the k-th item (k >= 1).
// Script entries (sorted by <pt>) with <pt> >= 1 are API calls issued from INSIDE the iteration, in the body of the
// <pt>-th item (after the loop, in order, if the iteration never gets that far, so that every entry runs exactly
// once): append:<sess>:<stream>:<payload>, closed:<sess>, setmax:<n>, open:<sess>:<stream>,
// after:<sess>:<stream>:<idx> (a second, complete iteration with a live context, interleaved with this one).
// Entries with <pt> = 0 (append / closed / setmax / open only) are THE WINDOW: calls issued after After has
// RETURNED the iterator and before the consumer takes its first step (the streamable server obtains the
// iterator and ranges over it later; any other goroutine's calls may fall in between).  They are whole API
// calls of their own: the iteration must answer for the stream as it is when it starts.
// Before the first entry that runs inside the loop the store's lock is probed (TryLock): an iterator that
// delivers while holding it would deadlock every call from the loop body.
//
// Observation: it <term> <items...> [/ <observation of a nested after>]...   with <term> one of
// end (the iterator returned, no error yielded), broke (the consumer broke out), purged / unknown / ctx / error
// (the error it yielded: ErrEventsPurged, unknown session or stream, the context's error, any other), goes-on
// (it yielded again after an error), locked (the lock probe failed; the iteration is abandoned).
func esIter(s *MemoryEventStore, toks []string) (obs string) {
	if len(toks) < 6 {
		return "bad-op"
	}
	mode, cpt := toks[4], -1
	if i := strings.IndexByte(mode, '@'); i >= 0 {
		cpt, _ = strconv.Atoi(mode[i+1:])
		mode = mode[:i]
	}
	if mode == "deadline" {
		if esT == nil {
			mode = "cancel"
		} else {
			synctest.Test(esT, func(*testing.T) {
				defer func() {
					if r := recover(); r != nil {
						obs = "panic"
					}
				}()
				ctx, cancel := context.WithTimeout(context.Background(), time.Second)
				defer cancel()
				obs = esIterRun(s, toks, ctx, cpt, func() { time.Sleep(2 * time.Second); synctest.Wait() })
			})
			return obs
		}
	}
	ctx, cancel := context.WithCancel(context.Background())
	defer cancel()
	return esIterRun(s, toks, ctx, cpt, cancel)
}

func esIterRun(s *MemoryEventStore, toks []string, ctx context.Context, cpt int, fire func()) string {
	bg := context.Background()
	var idx int
	fmt.Sscanf(toks[3], "%d", &idx)
	stop := -1
	if strings.HasPrefix(toks[5], "stop@") {
		stop, _ = strconv.Atoi(toks[5][5:])
	}
	type entry struct {
		pt int
		f  []string
	}
	var script []entry
	for _, e := range toks[6:] {
		f := strings.Split(e, ":")
		pt, err := strconv.Atoi(f[0])
		if err != nil || len(f) < 2 {
			return "bad-op"
		}
		script = append(script, entry{pt, f[1:]})
	}
	var nested []string
	probed, locked := false, false
	// runUpTo issues the pending script entries whose point is <= n (all of them for n < 0).
	runUpTo := func(n int, inside bool) {
		for len(script) > 0 && (n < 0 || script[0].pt <= n) && !locked {
			if inside && !probed {
				probed = true
				if !s.mu.TryLock() {
					locked = true
					return
				}
				s.mu.Unlock()
			}
			f := script[0].f
			script = script[1:]
			switch f[0] {
			case "append":
				var d []byte
				fmt.Sscanf(f[3], "x%x", &d)
				s.Append(bg, f[1], f[2], d)
			case "closed":
				s.SessionClosed(bg, f[1])
			case "setmax":
				n, _ := strconv.Atoi(f[1])
				s.SetMaxBytes(n)
			case "open":
				s.Open(bg, f[1], f[2])
			case "after":
				nested = append(nested, esApply(s, []string{"after", f[1], f[2], f[3]}))
			}
		}
	}
	if cpt == 0 {
		fire()
	}
	items := []string{}
	term := "end"
	n := 0
	seq := s.After(ctx, toks[1], toks[2], idx)
	runUpTo(0, false) // the window between After's return and the first step of the iteration
	for d, err := range seq {
		if term != "end" {
			term = "goes-on"
			break
		}
		if err != nil {
			switch {
			case errors.Is(err, ErrEventsPurged):
				term = "purged"
			case errors.Is(err, context.Canceled) || errors.Is(err, context.DeadlineExceeded):
				term = "ctx"
			case len(items) == 0:
				term = "unknown" // any other error before the first item: the stream is not known (as op `after`)
			default:
				term = "error"
			}
			continue // "once the iterator yields a non-nil error, it will stop": see whether it does
		}
		items = append(items, "x"+hx(d))
		n++
		runUpTo(n, true)
		if locked {
			term = "locked"
			break
		}
		if n == cpt {
			fire()
		}
		if n == stop {
			term = "broke"
			break
		}
	}
	if locked {
		return "it locked"
	}
	runUpTo(-1, false)
	out := "it " + term
	if len(items) > 0 {
		out += " " + strings.Join(items, " ")
	}
	for _, nobs := range nested {
		out += " / " + nobs
	}
	return out
}

type esGen struct {
	rng        *rand.Rand
	limit      int
	ctr        byte
	count      map[string]int // appended per key (to aim After indices at interesting places)
	noDeadline bool           // concurrent runs: no synctest bubbles
	focus      bool           // iteration-protocol cases: few streams, small payloads, roomy limit, mostly `iter`
}

func (g *esGen) pick() (sess, stream string) {
	if g.focus {
		return []string{"s1", "s1", "s1", "s2"}[g.rng.Intn(4)], []string{"a", "a", "b"}[g.rng.Intn(3)]
	}
	return []string{"s1", "s2", "s3"}[g.rng.Intn(3)], []string{"a", "b", "c"}[g.rng.Intn(3)]
}

func (g *esGen) closed(sess string) {
	for k := range g.count {
		if strings.HasPrefix(k, sess+"/") {
			delete(g.count, k)
		}
	}
}

// iter generates one record of the iteration protocol (see esIter).
func (g *esGen) iter(sess, stream string) string {
	n := g.count[sess+"/"+stream]
	idx := g.rng.Intn(n+2) - 1
	if g.focus && g.rng.Intn(3) > 0 {
		idx = g.rng.Intn(min(n, 2)+1) - 1 // near the start: several items to deliver
	}
	avail := n - (idx + 1)
	if avail < 0 {
		avail = 0
	}
	ctx := "live"
	if g.rng.Intn(2) == 0 {
		ctx = "cancel"
		if !g.noDeadline && g.rng.Intn(3) == 0 {
			ctx = "deadline"
		}
		ctx += "@" + strconv.Itoa(g.rng.Intn(avail+2))
	}
	stop := "drain"
	if g.rng.Intn(5) < 2 {
		stop = "stop@" + strconv.Itoa(1+g.rng.Intn(avail+1))
	}
	op := fmt.Sprintf("iter %s %s %d %s %s", sess, stream, idx, ctx, stop)
	// the window: 1-3 calls between After's return and the first step (a third of the iterations)
	if g.rng.Intn(3) == 0 {
		for e := 1 + g.rng.Intn(3); e > 0; e-- {
			s2, t2 := g.pick()
			if g.rng.Intn(2) == 0 {
				s2 = sess
			}
			switch r := g.rng.Intn(10); {
			case r < 5:
				g.count[s2+"/"+t2]++
				op += fmt.Sprintf(" 0:append:%s:%s:%s", s2, t2, g.payload())
			case r < 6:
				g.closed(s2)
				op += fmt.Sprintf(" 0:closed:%s", s2)
			case r < 9:
				lim := []int{1, 2, 7, 64, 0}[g.rng.Intn(5)]
				if lim != 0 {
					g.limit = lim
				}
				op += fmt.Sprintf(" 0:setmax:%d", lim)
			default:
				op += fmt.Sprintf(" 0:open:%s:%s", s2, t2)
			}
		}
	}
	pt := 1
	for e := g.rng.Intn(4); e > 0; e-- {
		pt += g.rng.Intn(avail + 1)
		if pt > avail+1 {
			pt = avail + 1
		}
		s2, t2 := g.pick()
		if g.rng.Intn(2) == 0 {
			s2 = sess
		}
		r := g.rng.Intn(10)
		if g.focus && (r == 4 || r == 5) && g.rng.Intn(3) > 0 {
			r = 0
		}
		switch {
		case r < 4:
			g.count[s2+"/"+t2]++
			op += fmt.Sprintf(" %d:append:%s:%s:%s", pt, s2, t2, g.payload())
		case r < 6:
			g.closed(s2)
			op += fmt.Sprintf(" %d:closed:%s", pt, s2)
		case r < 7:
			lim := []int{1, 2, 7, 64, 0}[g.rng.Intn(5)]
			if lim != 0 {
				g.limit = lim
			}
			op += fmt.Sprintf(" %d:setmax:%d", pt, lim)
		case r < 8:
			op += fmt.Sprintf(" %d:open:%s:%s", pt, s2, t2)
		default:
			if g.rng.Intn(2) == 0 {
				s2, t2 = sess, stream // a second iteration of the SAME stream, interleaved with this one
			}
			op += fmt.Sprintf(" %d:after:%s:%s:%d", pt, s2, t2, g.rng.Intn(g.count[s2+"/"+t2]+2)-1)
		}
	}
	return op
}

func (g *esGen) payload() string {
	var n int
	if g.focus && g.rng.Intn(8) != 0 {
		n = g.rng.Intn(4)
		b := make([]byte, n)
		for i := range b {
			g.ctr++
			b[i] = g.ctr
		}
		return "x" + hx(b)
	}
	switch g.rng.Intn(8) {
	case 0:
		n = 0
	case 1:
		n = 1
	case 2:
		n = g.limit - 1
	case 3:
		n = g.limit
	case 4:
		n = g.limit + 1
	default:
		n = g.rng.Intn(g.limit + 2)
	}
	if n < 0 {
		n = 0
	}
	if n > 200 {
		n = 200
	}
	b := make([]byte, n)
	for i := range b {
		g.ctr++
		b[i] = g.ctr
	}
	return "x" + hx(b)
}

func (g *esGen) next() string {
	sess, stream := g.pick()
	key := sess + "/" + stream
	if g.focus {
		switch r := g.rng.Intn(100); {
		case r < 30:
			g.count[key]++
			return "append " + sess + " " + stream + " " + g.payload()
		case r < 78:
			return g.iter(sess, stream)
		case r < 86:
			return fmt.Sprintf("after %s %s %d", sess, stream, g.rng.Intn(g.count[key]+3)-1)
		case r < 90:
			lim := []int{64, 0, 7, 64}[g.rng.Intn(4)]
			if lim != 0 {
				g.limit = lim
			}
			return fmt.Sprintf("setmax %d", lim)
		case r < 94:
			g.closed(sess)
			return "closed " + sess
		default:
			return "stat"
		}
	}
	switch r := g.rng.Intn(100); {
	case r < 8:
		return "open " + sess + " " + stream
	case r < 46:
		g.count[key]++
		return "append " + sess + " " + stream + " " + g.payload()
	case r < 56:
		return g.iter(sess, stream)
	case r < 60:
		n := g.count[key]
		idx := g.rng.Intn(n+2) - 1
		s2 := []string{"s1", "s2", "s3"}[g.rng.Intn(3)]
		t2 := []string{"a", "b", "c"}[g.rng.Intn(3)]
		g.count[s2+"/"+t2]++
		return fmt.Sprintf("afteri %s %s %d %d %s %s %s", sess, stream, idx, g.rng.Intn(3), s2, t2, g.payload())
	case r < 80:
		n := g.count[key]
		idx := g.rng.Intn(n+3) - 1 // -1 .. n+1
		if g.rng.Intn(20) == 0 {
			idx = -2 - g.rng.Intn(3) // out-of-domain index: model must agree too
		}
		return fmt.Sprintf("after %s %s %d", sess, stream, idx)
	case r < 86:
		lim := []int{1, 2, 7, 64, 0}[g.rng.Intn(5)]
		if lim != 0 {
			g.limit = lim
		}
		return fmt.Sprintf("setmax %d", lim)
	case r < 91:
		g.closed(sess)
		return "closed " + sess
	case r < 94:
		return "maxbytes"
	default:
		return "stat"
	}
}

func TestVerifEventStore(t *testing.T) {
	esT = t
	out := verifOpen(t)
	defer out.close()
	// corpus first
	if p := os.Getenv("VERIF_CORPUS"); p != "" {
		esReplayFiles(t, out, p)
	}
	if p := os.Getenv("VERIF_REPLAY"); p != "" {
		esReplayFile(t, out, p, "replay")
		return
	}
	n := verifN(1500, 60000)
	for c := 0; c < n; c++ {
		rng := verifRng(int64(c))
		g := &esGen{rng: rng, limit: []int{1, 2, 7, 64}[rng.Intn(4)], count: map[string]int{}}
		if c%3 == 2 {
			// the iteration protocol: a roomy limit, a few streams filled with small payloads, mostly `iter`
			g.focus, g.limit = true, []int{64, 64, 7, 10 << 20}[rng.Intn(4)]
		}
		s := NewMemoryEventStore(nil)
		cs := fmt.Sprintf("g%d", c)
		out.line(cs, "reset", "ok")
		first := fmt.Sprintf("setmax %d", g.limit)
		out.line(cs, first, esApply(s, strings.Fields(first)), "setmax")
		nops := 20 + rng.Intn(60)
		if g.focus {
			nops = 12 + rng.Intn(24)
			for i := 2 + rng.Intn(7); i > 0; i-- {
				sess, stream := g.pick()
				g.count[sess+"/"+stream]++
				op := "append " + sess + " " + stream + " " + g.payload()
				out.line(cs, op, esApply(s, strings.Fields(op)), "append")
			}
		}
		for i := 0; i < nops; i++ {
			op := g.next()
			toks := strings.Fields(op)
			obs := esApply(s, toks)
			tag := toks[0]
			tags := []string{tag}
			if toks[0] == "after" {
				tags[0] = "after-" + strings.Fields(obs)[0]
				if obs == "items" {
					tags[0] = "after-empty"
				}
			}
			if toks[0] == "iter" {
				tags = esIterTags(toks, obs)
			}
			out.line(cs, op, obs, tags...)
		}
		out.line(cs, "stat", esApply(s, []string{"stat"}), "stat")
	}
	if verifThorough() {
		esConcurrent(t, out)
	}
}

// esIterTags: what an `iter` record exercised (evidence histograms).
func esIterTags(toks []string, obs string) []string {
	f := strings.Fields(obs)
	term := "?"
	if len(f) > 1 {
		term = f[1]
	}
	nitems := 0
	for _, x := range f[min(2, len(f)):] {
		if x == "/" {
			break
		}
		nitems++
	}
	tags := []string{"iter-" + term}
	mode, cpt := toks[4], -1
	if i := strings.IndexByte(mode, '@'); i >= 0 {
		cpt, _ = strconv.Atoi(mode[i+1:])
		mode = mode[:i]
	}
	switch {
	case mode == "live":
	case cpt == 0:
		tags = append(tags, "iter-"+mode+"-before-call")
	case cpt < nitems:
		tags = append(tags, "iter-"+mode+"-midway")
	case cpt == nitems:
		tags = append(tags, "iter-"+mode+"-after-last")
	default:
		tags = append(tags, "iter-"+mode+"-never")
	}
	for _, e := range toks[6:] {
		if p := strings.Split(e, ":"); len(p) > 1 {
			pt, _ := strconv.Atoi(p[0])
			where := "inside"
			if pt > nitems {
				where = "after-loop"
			}
			if pt == 0 {
				where = "window"
			}
			tags = append(tags, "iter-"+p[1]+"-"+where)
		}
	}
	return tags
}

// esConcurrent: 8 goroutines hammer one store (run under -race in the thorough tier) with random operations
// (including `iter` records: calls from inside iterations, cancelled contexts); every goroutine also owns a
// PRIVATE session nobody else touches: whatever the others do (their appends purge its items too), every After
// on it must be the purge error (only if something lies after the index) or exactly what the goroutine itself
// appended after the index as of the start of the iteration (concurrent_after_exact,
// iterator_snapshot_independent_of_later_ops), also when the goroutine appends from inside the iteration.
// Afterwards the accounting must match the data.
func esConcurrent(t *testing.T, out *verifOut) {
	for round := 0; round < 20; round++ {
		s := NewMemoryEventStore(nil)
		s.SetMaxBytes(64)
		var wg sync.WaitGroup
		var mu sync.Mutex
		bad := ""
		for gi := 0; gi < 8; gi++ {
			wg.Add(1)
			go func(gi int) {
				defer wg.Done()
				rng := verifRng(int64(1_000_000 + round*100 + gi))
				g := &esGen{rng: rng, limit: 64, count: map[string]int{}, noDeadline: true}
				sess := fmt.Sprintf("p%d", gi)
				var log [][]byte
				ctx := context.Background()
				priv := func() string {
					if rng.Intn(5) < 3 {
						d := []byte{byte(gi), byte(len(log)), byte(len(log) >> 8)}[:1+rng.Intn(3)]
						s.Append(ctx, sess, "a", d)
						log = append(log, d)
						return ""
					}
					idx := rng.Intn(len(log)+2) - 1
					want := [][]byte{}
					if idx+1 < len(log) {
						want = append(want, log[idx+1:]...)
					}
					known := len(log) > 0
					var got [][]byte
					seq := s.After(ctx, sess, "a", idx)
					if rng.Intn(2) == 0 { // the window: a call of the goroutine's own between After's return and the first step
						s.Append(ctx, sess, "b", []byte{byte(gi), 0xee, 0xee}[:1+rng.Intn(3)])
					}
					for d, err := range seq {
						if err != nil {
							if errors.Is(err, ErrEventsPurged) && len(got) == 0 && len(want) > 0 {
								return ""
							}
							if !errors.Is(err, ErrEventsPurged) && !known && len(got) == 0 {
								return ""
							}
							return fmt.Sprintf("After(%s,a,%d) yielded %v after %d items; %d payloads lie after the index", sess, idx, err, len(got), len(want))
						}
						got = append(got, d)
						if len(got) == 1 && rng.Intn(2) == 0 { // from inside the iteration
							d2 := []byte{byte(gi), byte(len(log)), 0xff}
							s.Append(ctx, sess, "a", d2)
							log = append(log, d2)
						}
					}
					if !known {
						return fmt.Sprintf("After(%s,a,%d) on a stream that was never created ended without an error", sess, idx)
					}
					if len(got) != len(want) {
						return fmt.Sprintf("After(%s,a,%d) delivered %d payloads and ended without an error; %d lie after the index", sess, idx, len(got), len(want))
					}
					for i := range got {
						if string(got[i]) != string(want[i]) {
							return fmt.Sprintf("After(%s,a,%d) item %d = x%x, appended x%x", sess, idx, i, got[i], want[i])
						}
					}
					return ""
				}
				for i := 0; i < 300; i++ {
					if i%3 == 2 {
						if msg := priv(); msg != "" {
							mu.Lock()
							if bad == "" {
								bad = msg
							}
							mu.Unlock()
						}
						continue
					}
					esApply(s, strings.Fields(g.next()))
				}
			}(gi)
		}
		wg.Wait()
		n, _, r := esRetained(s)
		obs := "consistent"
		if n != r {
			obs = fmt.Sprintf("inconsistent nBytes=%d retained=%d", n, r)
		} else if bad != "" {
			obs = "inconsistent private-stream: " + bad
		}
		out.line(fmt.Sprintf("conc%d", round), "concurrent-accounting", obs, "concurrent")
	}
}

func esReplayFiles(t *testing.T, out *verifOut, dir string) {
	ents, _ := os.ReadDir(dir)
	for _, e := range ents {
		if strings.HasSuffix(e.Name(), ".ops") {
			esReplayFile(t, out, dir+"/"+e.Name(), "corpus-"+strings.TrimSuffix(e.Name(), ".ops"))
		}
	}
}

func esReplayFile(t *testing.T, out *verifOut, path, cs string) {
	b, err := os.ReadFile(path)
	if err != nil {
		t.Fatal(err)
	}
	var s *MemoryEventStore
	for _, ln := range strings.Split(string(b), "\n") {
		ln = strings.TrimSpace(ln)
		if ln == "" || strings.HasPrefix(ln, "#") {
			continue
		}
		toks := strings.Fields(ln)
		if toks[0] == "reset" || s == nil {
			s = NewMemoryEventStore(nil)
			out.line(cs, "reset", "ok")
			if toks[0] == "reset" {
				continue
			}
		}
		out.line(cs, ln, esApply(s, toks), "corpus")
	}
}
