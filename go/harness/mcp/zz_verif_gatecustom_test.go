// E3, stream `custom`: custom (non-standard) methods registered with AddReceivingCustomMethod, called over raw
// JSON-RPC on sessions of ONE real mcp.Server — raw in-memory pipes (Server.Connect) and sessions of a stateful
// StreamableHTTPHandler (driven through ServeHTTP, no network) — with registrations, session set-ups, handshakes
// and calls interleaved in any order. They are calls like any other (C02: answered exactly once, with the standard
// error codes; an HTTP 4xx without a message only where the HTTP transport pre-validates an UNKNOWN method or a
// missing id) and they sit behind the initialization gate (C06).
//
//	<case>\tcreg <hex name>\tok|shadows\t<tags>                 AddReceivingCustomMethod(server, name, echo)
//	<case>\tcopen <mem|http|cli>\tok|fail<status>\t<tags>       a new session (http: created by its initialize POST + initialized;
//	                                                            cli: a real mcp.Client, Client.Connect does the handshake, calls go
//	                                                            through AddSendingCustomMethod + CallCustomMethod)
//	<case>\tchs <k>\tok|fail|na\t<tags>                         initialize + notifications/initialized on pipe session k
//	<case>\tccall <k> <hex name> <id|noid> <shape>\tw=<none|ok|e<code>|multiN|strayN|malformed> http=<-|status> h=<n>\t<tags>
//
// h: how often the method's handler ran for this envelope. Everything runs in a testing/synctest bubble
// (quiescence decides "no answer").
package mcp

import (
	"bufio"
	"bytes"
	"context"
	"encoding/json"
	"errors"
	"fmt"
	"io"
	"log/slog"
	"math/rand"
	"net"
	"net/http"
	"net/http/httptest"
	"os"
	"strings"
	"sync"
	"sync/atomic"

	"github.com/modelcontextprotocol/go-sdk/jsonrpc"
	"testing"
	"testing/synctest"
)

type gcOp struct {
	kind  string // creg copen chs ccall
	name  string
	tr    string // mem|http
	k     int
	hasID bool
	shape string
}

func (o gcOp) text() string {
	switch o.kind {
	case "creg":
		return "creg " + hxs(o.name)
	case "copen":
		return "copen " + o.tr
	case "chs":
		return fmt.Sprintf("chs %d", o.k)
	case "choldq":
		return fmt.Sprintf("choldq %d", o.k)
	case "crelease":
		return fmt.Sprintf("crelease %d", o.k)
	}
	id := "noid"
	if o.hasID {
		id = "id"
	}
	return fmt.Sprintf("%s %d %s %s %s", o.kind, o.k, hxs(o.name), id, o.shape)
}

func gcParse(ln string) (gcOp, bool) {
	f := strings.Fields(ln)
	if len(f) == 0 {
		return gcOp{}, false
	}
	switch {
	case f[0] == "creg" && len(f) == 2:
		return gcOp{kind: "creg", name: gateUnhex(f[1])}, true
	case f[0] == "copen" && len(f) == 2:
		return gcOp{kind: "copen", tr: f[1]}, true
	case (f[0] == "choldq" || f[0] == "crelease") && len(f) == 2:
		k := 0
		fmt.Sscanf(f[1], "%d", &k)
		return gcOp{kind: f[0], k: k}, true
	case f[0] == "ccallq" && len(f) == 5:
		k := 0
		fmt.Sscanf(f[1], "%d", &k)
		return gcOp{kind: "ccallq", k: k, name: gateUnhex(f[2]), hasID: f[3] == "id", shape: f[4]}, true
	case f[0] == "chs" && len(f) == 2:
		k := 0
		fmt.Sscanf(f[1], "%d", &k)
		return gcOp{kind: "chs", k: k}, true
	case f[0] == "ccall" && len(f) == 5:
		k := 0
		fmt.Sscanf(f[1], "%d", &k)
		return gcOp{kind: "ccall", k: k, name: gateUnhex(f[2]), hasID: f[3] == "id", shape: f[4]}, true
	}
	return gcOp{}, false
}

type gcCase struct {
	id  string
	ops []gcOp
	tag string
}

type gcEchoParams struct {
	ParamsBase
	Text string `json:"text"`
}

type gcEchoResult struct {
	ResultBase
	Text string `json:"text"`
}

type gcSess struct {
	tr   string
	peer *gatePeer // mem
	c2   net.Conn
	ss   *ServerSession
	sid  string // http
	cs   *ClientSession // cli
	// a notification handler of the session is parked on gate: the session's queue is stopped; queued: the
	// calls written meanwhile (id as it will come back, "" for none)
	gate   chan struct{}
	queued []string
}

var gcShapes = []string{"absent", "null", "ok", "undecodable", "wrongtype"}

const gcMeta = `"_meta":{"io.modelcontextprotocol/protocolVersion":"2026-07-28","io.modelcontextprotocol/clientInfo":{"name":"verif","version":"1"},"io.modelcontextprotocol/clientCapabilities":{}}`

// gcParamsModern: object params carry complete per-request metadata naming 2026-07-28; the other shapes cannot.
func gcParamsModern(shape string) string {
	switch shape {
	case "ok":
		return `,"params":{"text":"hi",` + gcMeta + `}`
	case "undecodable":
		return `,"params":{"text":5,` + gcMeta + `}`
	}
	return gcParams(shape)
}

func gcParams(shape string) string {
	switch shape {
	case "null":
		return `,"params":null`
	case "ok":
		return `,"params":{"text":"hi"}`
	case "undecodable":
		return `,"params":{"text":5}`
	case "wrongtype":
		return `,"params":[1]`
	}
	return ""
}

// gcPost drives one POST through the handler; returns the status, the session id header and the JSON-RPC
// messages of the body (application/json or text/event-stream). hung: the handler did not return at quiescence.
func gcPost(h http.Handler, sid, body string) (status int, outSid string, msgs []map[string]json.RawMessage, hung bool) {
	return gcPostH(h, sid, body, "")
}

// gcPostH: modernMethod != "": a sessionless POST under the 2026-07-28 protocol (Mcp-Protocol-Version and Mcp-Method
// headers), as sent to a stateless handler.
func gcPostH(h http.Handler, sid, body, modernMethod string) (status int, outSid string, msgs []map[string]json.RawMessage, hung bool) {
	req := httptest.NewRequest(http.MethodPost, "http://verif.invalid/", strings.NewReader(body))
	req.Header.Set("Content-Type", "application/json")
	req.Header.Set("Accept", "application/json, text/event-stream")
	if sid != "" {
		req.Header.Set(sessionIDHeader, sid)
		req.Header.Set(protocolVersionHeader, protocolVersion20250618)
	}
	if modernMethod != "" {
		req.Header.Set(protocolVersionHeader, protocolVersion20260728)
		req.Header.Set(methodHeader, modernMethod)
	}
	ctx, cancel := context.WithCancel(context.Background())
	defer cancel()
	req = req.WithContext(ctx)
	rr := httptest.NewRecorder()
	done := make(chan struct{})
	go func() { defer close(done); h.ServeHTTP(rr, req) }()
	synctest.Wait()
	select {
	case <-done:
	default:
		hung = true
		cancel()
		synctest.Wait()
		<-done
	}
	res := rr.Result()
	data, _ := io.ReadAll(res.Body)
	var payloads [][]byte
	switch baseMediaType(res.Header.Get("Content-Type")) {
	case "application/json":
		payloads = append(payloads, data)
	case "text/event-stream":
		sc := bufio.NewScanner(bytes.NewReader(data))
		sc.Buffer(nil, 1<<20)
		for sc.Scan() {
			if rest, ok := strings.CutPrefix(sc.Text(), "data:"); ok {
				if rest = strings.TrimSpace(rest); rest != "" {
					payloads = append(payloads, []byte(rest))
				}
			}
		}
	}
	for _, p := range payloads {
		var m map[string]json.RawMessage
		if json.Unmarshal(p, &m) == nil {
			if _, isReq := m["method"]; !isReq {
				msgs = append(msgs, m)
			}
		}
	}
	return res.StatusCode, res.Header.Get(sessionIDHeader), msgs, hung
}

const gcInit = `{"jsonrpc":"2.0","id":"init","method":"initialize","params":{"protocolVersion":"2025-06-18","capabilities":{},"clientInfo":{"name":"verif","version":"1"}}}`
const gcInitialized = `{"jsonrpc":"2.0","method":"notifications/initialized","params":{}}`

func gcRunCase(t *testing.T, c gcCase, emit func(i int, obs string)) {
	synctest.Test(t, func(t *testing.T) {
		ctx, cancel := context.WithCancel(context.Background())
		defer cancel()
		var ran atomic.Int64
		var gates sync.Map // *ServerSession -> chan struct{}: the session's progress handler parks on it
		var parked atomic.Int64
		server := NewServer(&Implementation{Name: "verif-server", Version: "1"}, &ServerOptions{
			Logger: slog.New(slog.NewTextHandler(io.Discard, nil)),
			ProgressNotificationHandler: func(_ context.Context, req *ProgressNotificationServerRequest) {
				if g, ok := gates.Load(req.Session); ok {
					parked.Add(1)
					<-g.(chan struct{})
					parked.Add(-1)
				}
			},
		})
		handler := NewStreamableHTTPHandler(func(*http.Request) *Server { return server }, nil)
		stateless := NewStreamableHTTPHandler(func(*http.Request) *Server { return server }, &StreamableHTTPOptions{Stateless: true})
		var sess []*gcSess
		nextID := 100
		for i, op := range c.ops {
			switch op.kind {
			case "creg":
				name := op.name
				err := AddReceivingCustomMethod(server, name, func(_ context.Context, _ *ServerSession, p *gcEchoParams) (*gcEchoResult, error) {
					ran.Add(1)
					txt := ""
					if p != nil {
						txt = p.Text
					}
					return &gcEchoResult{Text: name + ":" + txt}, nil
				})
				if err != nil {
					emit(i, "shadows")
				} else {
					emit(i, "ok")
				}
			case "copen":
				if op.tr == "hnew" {
					// the stateless handler: nothing to set up, every call is its own POST under the new protocol
					sess = append(sess, &gcSess{tr: "hnew"})
					emit(i, "ok")
				} else if op.tr == "cli" {
					ct, st := NewInMemoryTransports()
					ss, err := server.Connect(ctx, st, nil)
					if err != nil {
						t.Fatal(err)
					}
					client := NewClient(&Implementation{Name: "verif-client", Version: "1"}, nil)
					for _, n := range append(append([]string{}, gcNames...), "acme/never") {
						if err := AddSendingCustomMethod[*gcEchoParams, *gcEchoResult](client, n); err != nil {
							t.Fatal(err)
						}
					}
					var cs *ClientSession
					var cerr error
					done := make(chan struct{})
					go func() {
						defer close(done)
						cs, cerr = client.Connect(ctx, ct, &ClientSessionOptions{ProtocolVersion: protocolVersion20251125})
					}()
					synctest.Wait()
					select {
					case <-done:
					default:
						t.Fatal("client Connect did not finish")
					}
					sess = append(sess, &gcSess{tr: "cli", ss: ss, cs: cs})
					if cerr != nil {
						emit(i, "fail0")
					} else {
						emit(i, "ok")
					}
				} else if op.tr == "mem" {
					c1, c2 := net.Pipe()
					peer := gateNewPeer(c2)
					ss, err := server.Connect(ctx, &InMemoryTransport{rwc: c1}, nil)
					if err != nil {
						t.Fatal(err)
					}
					sess = append(sess, &gcSess{tr: "mem", peer: peer, c2: c2, ss: ss})
					emit(i, "ok")
				} else {
					st, sid, msgs, hung := gcPost(handler, "", gcInit)
					if st != http.StatusOK || sid == "" || len(msgs) != 1 || hung {
						sess = append(sess, &gcSess{tr: "http", sid: sid})
						emit(i, fmt.Sprintf("fail%d", st))
						continue
					}
					st2, _, _, _ := gcPost(handler, sid, gcInitialized)
					sess = append(sess, &gcSess{tr: "http", sid: sid})
					if st2 != http.StatusAccepted {
						emit(i, fmt.Sprintf("fail%d", st2))
					} else {
						emit(i, "ok")
					}
				}
			case "choldq":
				// a notification whose handler parks: the session's queue stops (label 0 of the race)
				if op.k >= len(sess) || sess[op.k].tr != "mem" || sess[op.k].gate != nil {
					emit(i, "na")
					continue
				}
				s := sess[op.k]
				g := make(chan struct{})
				gates.Store(s.ss, g)
				before := parked.Load()
				go s.peer.write(`{"jsonrpc":"2.0","method":"notifications/progress","params":{"progressToken":"t","progress":1}}`)
				synctest.Wait()
				s.peer.takeResps()
				if parked.Load() > before {
					s.gate = g
					emit(i, "ok")
				} else {
					gates.Delete(s.ss) // refused by the gate (no initialize yet): nothing is parked
					emit(i, "na")
				}
			case "ccallq":
				// label 1: the call is written while the queue is stopped
				if op.k >= len(sess) || sess[op.k].gate == nil {
					emit(i, "na")
					continue
				}
				s := sess[op.k]
				nextID++
				idTok, want := "", ""
				if op.hasID {
					idTok, want = fmt.Sprintf(`"id":%d,`, nextID), fmt.Sprint(nextID)
				}
				mname, _ := json.Marshal(op.name)
				go s.peer.write(fmt.Sprintf(`{"jsonrpc":"2.0",%s"method":%s%s}`, idTok, mname, gcParams(op.shape)))
				synctest.Wait()
				if early := s.peer.takeResps(); len(early) > 0 {
					emit(i, "early:"+gateWire1(early, want, op.hasID))
				} else {
					emit(i, "queued")
				}
				s.queued = append(s.queued, want)
			case "crelease":
				// label 2: the parked handler returns, the queue runs
				if op.k >= len(sess) || sess[op.k].gate == nil {
					emit(i, "na")
					continue
				}
				s := sess[op.k]
				before := ran.Load()
				gates.Delete(s.ss)
				close(s.gate)
				s.gate = nil
				synctest.Wait()
				resps := s.peer.takeResps()
				var ws []string
				used := 0
				for _, want := range s.queued {
					var mine []map[string]json.RawMessage
					if want != "" {
						for _, r := range resps {
							if string(r["id"]) == want {
								mine = append(mine, r)
							}
						}
					}
					used += len(mine)
					ws = append(ws, gateWire1(mine, want, want != ""))
				}
				if used < len(resps) {
					ws = append(ws, fmt.Sprintf("stray%d", len(resps)-used))
				}
				s.queued = nil
				r := "-"
				if len(ws) > 0 {
					r = strings.Join(ws, ";")
				}
				emit(i, fmt.Sprintf("r=%s h=%d", r, ran.Load()-before))
			case "chs":
				if op.k < len(sess) && sess[op.k].gate != nil {
					emit(i, "na") // would only be queued
					continue
				}
				if op.k >= len(sess) || sess[op.k].tr != "mem" {
					emit(i, "na")
					continue
				}
				s := sess[op.k]
				go s.peer.write(gcInit)
				synctest.Wait()
				w := gateWire1(s.peer.takeResps(), `"init"`, true)
				go s.peer.write(gcInitialized)
				synctest.Wait()
				s.peer.takeResps()
				if w == "ok" {
					emit(i, "ok")
				} else {
					emit(i, "fail")
				}
			case "ccall":
				if op.k >= len(sess) {
					emit(i, "na")
					continue
				}
				s := sess[op.k]
				if s.gate != nil {
					emit(i, "na") // would only be queued
					continue
				}
				nextID++
				idTok, want := "", ""
				if op.hasID {
					idTok, want = fmt.Sprintf(`"id":%d,`, nextID), fmt.Sprint(nextID)
				}
				mname, _ := json.Marshal(op.name)
				env := fmt.Sprintf(`{"jsonrpc":"2.0",%s"method":%s%s}`, idTok, mname, gcParams(op.shape))
				before := ran.Load()
				var w, hs string
				if s.tr == "cli" {
					// a real client: only calls (with an id) with well-formed or nil params can be made
					if !op.hasID || (op.shape != "ok" && op.shape != "absent") || s.cs == nil || strings.HasPrefix(op.name, "notifications/") {
						emit(i, "na")
						continue
					}
					var params *gcEchoParams
					if op.shape == "ok" {
						params = &gcEchoParams{Text: "hi"}
					}
					var cerr error
					done := make(chan struct{})
					go func() {
						defer close(done)
						_, cerr = CallCustomMethod[*gcEchoParams, *gcEchoResult](ctx, s.cs, op.name, params)
					}()
					synctest.Wait()
					w, hs = "ok", "-"
					select {
					case <-done:
						if cerr != nil {
							var we *jsonrpc.Error
							if errors.As(cerr, &we) {
								w = fmt.Sprintf("e%d", we.Code)
							} else {
								w = "malformed"
							}
						}
					default:
						w = "none" // the call is still waiting for its response
					}
				} else if s.tr == "hnew" {
					env = fmt.Sprintf(`{"jsonrpc":"2.0",%s"method":%s%s}`, idTok, mname, gcParamsModern(op.shape))
					st, _, msgs, hung := gcPostH(stateless, "", env, op.name)
					w, hs = gateWire1(msgs, want, op.hasID), fmt.Sprint(st)
					if hung {
						hs = "hung"
					}
				} else if s.tr == "mem" {
					go s.peer.write(env)
					synctest.Wait()
					w, hs = gateWire1(s.peer.takeResps(), want, op.hasID), "-"
				} else {
					st, _, msgs, hung := gcPost(handler, s.sid, env)
					w, hs = gateWire1(msgs, want, op.hasID), fmt.Sprint(st)
					if hung {
						hs = "hung"
					}
				}
				emit(i, fmt.Sprintf("w=%s http=%s h=%d", w, hs, ran.Load()-before))
			}
		}
		// tear down: everything in the bubble must exit
		for _, s := range sess {
			if s.gate != nil {
				gates.Delete(s.ss)
				close(s.gate)
				s.gate = nil
			}
		}
		synctest.Wait()
		for _, s := range sess {
			if s.tr == "mem" {
				go s.ss.Close()
			}
			if s.tr == "cli" && s.cs != nil {
				go s.cs.Close()
			}
		}
		synctest.Wait()
		for _, s := range sess {
			if s.tr == "mem" {
				s.c2.Close()
			} else if s.sid != "" {
				req := httptest.NewRequest(http.MethodDelete, "http://verif.invalid/", nil)
				req.Header.Set(sessionIDHeader, s.sid)
				req.Header.Set(protocolVersionHeader, protocolVersion20250618)
				rr := httptest.NewRecorder()
				done := make(chan struct{})
				go func() { defer close(done); handler.ServeHTTP(rr, req) }()
				synctest.Wait()
				<-done
			}
		}
		for ss := range server.Sessions() {
			go ss.Close()
		}
		cancel()
		synctest.Wait()
	})
}

var gcNames = []string{"acme/a", "acme/b", "acme/c", "x", "notifications/acme"}

func gcRandom(id string, rng *rand.Rand) gcCase {
	c := gcCase{id: id}
	n := 3 + rng.Intn(9)
	nsess := 0
	var trs []string
	for len(c.ops) < n {
		switch r := rng.Intn(100); {
		case r < 18:
			name := gcNames[rng.Intn(len(gcNames))]
			if rng.Intn(12) == 0 {
				name = []string{"tools/list", "ping", "initialize", "notifications/initialized"}[rng.Intn(4)] // shadows a standard method: refused
			}
			c.ops = append(c.ops, gcOp{kind: "creg", name: name})
		case r < 34 || nsess == 0:
			tr := []string{"mem", "mem", "http", "http", "cli", "hnew", "hnew"}[rng.Intn(7)]
			c.ops = append(c.ops, gcOp{kind: "copen", tr: tr})
			trs = append(trs, tr)
			nsess++
		case r < 44:
			c.ops = append(c.ops, gcOp{kind: "chs", k: rng.Intn(nsess)})
		case r < 50:
			c.ops = append(c.ops, gcOp{kind: "choldq", k: rng.Intn(nsess)})
		case r < 60:
			name := gcNames[rng.Intn(3)]
			shape := "ok"
			if rng.Intn(3) == 0 {
				shape = gcShapes[rng.Intn(len(gcShapes))]
			}
			c.ops = append(c.ops, gcOp{kind: "ccallq", k: rng.Intn(nsess), name: name, hasID: rng.Intn(5) != 0, shape: shape})
		case r < 66:
			c.ops = append(c.ops, gcOp{kind: "crelease", k: rng.Intn(nsess)})
		default:
			name := gcNames[rng.Intn(len(gcNames))]
			if rng.Intn(10) == 0 {
				name = "acme/never"
			}
			shape := "ok"
			if rng.Intn(2) == 0 {
				shape = gcShapes[rng.Intn(len(gcShapes))]
			}
			k := rng.Intn(nsess)
			hasID := rng.Intn(5) != 0
			if trs[k] == "cli" { // what a real client can send
				// (not a name starting with "notifications/": the client's sending side treats it as a notification
				// and CallCustomMethod then panics on the nil result — reported separately, not C02/C06's subject)
				if strings.HasPrefix(name, "notifications/") {
					name = "acme/a"
				}
				hasID = true
				if shape != "ok" {
					shape = "absent"
				}
			}
			c.ops = append(c.ops, gcOp{kind: "ccall", k: k, name: name, hasID: hasID, shape: shape})
		}
	}
	return c
}

// gcOrders: every order of {register, set the session up, handshake} before one call, per transport, id, shape.
func gcOrders() []gcCase {
	var out []gcCase
	for _, tr := range []string{"mem", "http", "cli", "hnew"} {
		for _, order := range [][]string{{"reg", "open", "hs"}, {"open", "reg", "hs"}, {"open", "hs", "reg"}, {"open", "hs"}, {"reg", "open"}, {"open", "reg"}} {
			for _, hasID := range []bool{true, false} {
				for _, shape := range gcShapes {
					if tr == "cli" && (!hasID || (shape != "ok" && shape != "absent")) {
						continue
					}
					c := gcCase{id: fmt.Sprintf("o%d", len(out)), tag: "orders"}
					for _, o := range order {
						switch o {
						case "reg":
							c.ops = append(c.ops, gcOp{kind: "creg", name: "acme/a"})
						case "open":
							c.ops = append(c.ops, gcOp{kind: "copen", tr: tr})
						case "hs":
							c.ops = append(c.ops, gcOp{kind: "chs", k: 0})
						}
					}
					c.ops = append(c.ops, gcOp{kind: "ccall", k: 0, name: "acme/a", hasID: hasID, shape: shape})
					c.ops = append(c.ops, gcOp{kind: "ccall", k: 0, name: "acme/a", hasID: true, shape: "ok"})
					out = append(out, c)
				}
			}
		}
	}
	return out
}

// gcRaces: a call queued on a held pipe session, with the registration of its method before the call is written,
// while it is queued, or after the queue ran; per id and params shape; two queued calls.
func gcRaces() []gcCase {
	var out []gcCase
	pre := []gcOp{{kind: "copen", tr: "mem"}, {kind: "chs", k: 0}}
	reg := gcOp{kind: "creg", name: "acme/a"}
	for _, hasID := range []bool{true, false} {
		for _, shape := range gcShapes {
			call := gcOp{kind: "ccallq", k: 0, name: "acme/a", hasID: hasID, shape: shape}
			hold, rel := gcOp{kind: "choldq", k: 0}, gcOp{kind: "crelease", k: 0}
			probe := gcOp{kind: "ccall", k: 0, name: "acme/a", hasID: true, shape: "ok"}
			for _, body := range [][]gcOp{
				{reg, hold, call, rel, probe},
				{hold, reg, call, rel, probe},
				{hold, call, reg, rel, probe},
				{hold, call, rel, reg, probe},
				{hold, call, call, reg, call, rel, probe},
			} {
				c := gcCase{id: fmt.Sprintf("q%d", len(out)), tag: "race"}
				c.ops = append(append(c.ops, pre...), body...)
				out = append(out, c)
			}
		}
	}
	return out
}

func gcReplay(path string) []gcCase {
	b, err := os.ReadFile(path)
	if err != nil {
		return nil
	}
	var out []gcCase
	for _, ln := range strings.Split(string(b), "\n") {
		ln = strings.TrimSpace(ln)
		if ln == "reset" {
			out = append(out, gcCase{id: fmt.Sprintf("replay-%d", len(out)), tag: "replay"})
			continue
		}
		if op, ok := gcParse(ln); ok {
			if len(out) == 0 {
				out = append(out, gcCase{id: "replay-0", tag: "replay"})
			}
			out[len(out)-1].ops = append(out[len(out)-1].ops, op)
		}
	}
	return out
}

// TestVerifGateCustom is the `custom` stream of the gate engine.
func TestVerifGateCustom(t *testing.T) {
	out := verifOpen(t)
	defer out.close()
	if pid := os.Getenv("VERIF_PROPERTY"); pid != "" {
		out.line("cfg", "property "+pid, "ok", "cfg")
	}
	var cases []gcCase
	if p := os.Getenv("VERIF_REPLAY"); p != "" {
		cases = gcReplay(p)
	} else {
		if os.Getenv("VERIF_CASES") == "" {
			cases = append(cases, gcOrders()...)
			cases = append(cases, gcRaces()...)
		}
		n := verifN(400, 4000)
		for i := 0; i < n; i++ {
			cases = append(cases, gcRandom(fmt.Sprintf("c%d", i), verifRng(int64(i)+70_000_000)))
		}
	}
	for _, c := range cases {
		if len(c.ops) == 0 {
			continue
		}
		out.line(c.id, "reset", "ok", "reset")
		nsessTr := []string{}
		gcRunCase(t, c, func(i int, obs string) {
			op := c.ops[i]
			tags := []string{op.kind}
			switch op.kind {
			case "copen":
				nsessTr = append(nsessTr, op.tr)
				tags = append(tags, "tr-"+op.tr)
			case "ccall":
				if op.k < len(nsessTr) {
					tags = append(tags, "tr-"+nsessTr[op.k])
				}
				tags = append(tags, "shape-"+op.shape)
				for _, f := range strings.Fields(obs) {
					if strings.HasPrefix(f, "w=") || strings.HasPrefix(f, "http=") {
						tags = append(tags, strings.Replace(f, "=", "-", 1))
					}
				}
			case "creg":
				tags = append(tags, "reg-"+obs)
			}
			if c.tag != "" {
				tags = append(tags, c.tag)
			}
			out.line(c.id, op.text(), obs, tags...)
		})
	}
}
