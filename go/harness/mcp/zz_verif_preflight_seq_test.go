// E8 Preflight correspondence harness (C12), record kind `seq`: ONE SESSION OVER TIME.
//
// The real streamable client (2026-07-28, or a legacy version) against the real stateless / stateful streamable
// handler, in process (an http.RoundTripper that runs ServeHTTP) under testing/synctest virtual time.  A receiving
// middleware of the server counts the tools/list requests that reach it and sets `ttlMs` on their results.  A case is a
// sequence of operations; every record carries the virtual clock (ms since the case began):
//
//	seq cfg K<sl|sf> pv<new|old> ps<pagesize> sub<0|1>   server + handler (sub: the client will register a ToolListChangedHandler) -> ok
//	seq t<ms> connect                              client, Connect                               -> new<0|1> (cs.usesNewProtocol)
//	seq t<ms> set t<name> p{ schema }              Server.AddTool (add, or re-register)          -> ok
//	seq t<ms> del t<name>                          Server.RemoveTools                            -> ok
//	seq t<ms> ttl <v>                              ttlMs of later tools/list results (0: untouched) -> ok
//	seq t<ms> adv <d>                              time.Sleep(d ms)                              -> ok
//	seq t<ms> notified                             (event) the client's ToolListChangedHandler ran since the last record
//	seq t<ms> list c-|c<name>                      ClientSession.ListTools (cursor: behind tool <name>) -> hit<0|1> T{ … } c-|c<next>
//	seq t<ms> lsend c-|c<name>                     ListTools begins in a goroutine of its own; the RoundTripper holds the
//	                                               server's (complete) answer back                -> sent | hit1 T{ … } c… (served from the cache) | ok (one is in flight already)
//	seq t<ms> lrecv                                the answer held back is delivered, ListTools returns -> hit0 T{ … } c-|c<next>
//	seq t<ms> setb t<name> p{ schema } | delb t<name>  AddTool / RemoveTools on a SECOND Server behind the same handler (getServer
//	                                               returns it for the path /mcp/b)                 -> ok
//	seq t<ms> callb t<name> P o{ … }               a second client connects to /mcp/b, lists all tools, CallTool, closes -> as `call`
//	seq t<ms> bad t<name> | unbad t<name>          a FOREIGN server: from now on tools/list results carry the tool with INVALID
//	                                               x-mcp-header annotations (written by the middleware; the SDK's AddTool would
//	                                               refuse them) / as registered again             -> ok
//	seq t<ms> look t<name>                         64 x ClientSession.lookupTool                 -> L{ the distinct answers }
//	seq t<ms> call t<name> P o{ … }                ClientSession.CallTool                        -> H{ Mcp-Param-* sent } ok same | rej <code> handler=<n> | …
//
// Generated cases: ttlMs in {untouched(0), 0, -1, 40, 60000}, time advances before / at / after expiry, tools re-registered
// with changed annotations, added and removed (pages shift), a client with or without a list_changed subscription,
// paginated listings (page sizes 1-3, several cached pages; cursors followed, re-used after a change, or naming any
// tool), calls of tools that were never listed / are gone / were listed long ago.  Replay is literal: the `.ops` file is
// interpreted line by line (hand-minimised sequences live in corpus/preflight/seq-*.ops).
package mcp

import (
	"bytes"
	"context"
	"encoding/json"
	"errors"
	"fmt"
	"io"
	"net/http"
	"sort"
	"strconv"
	"strings"
	"sync"
	"testing"
	"testing/synctest"
	"time"

	"github.com/modelcontextprotocol/go-sdk/jsonrpc"
)

// ---------------------------------------------------------------------------------------------
// In-process HTTP (no sockets: the bubble's virtual clock only advances when every goroutine is durably blocked).

type pfqBuf struct {
	mu     sync.Mutex
	cond   *sync.Cond
	data   []byte
	wclose bool
	rclose bool
}

func newPfqBuf() *pfqBuf { b := &pfqBuf{}; b.cond = sync.NewCond(&b.mu); return b }

func (b *pfqBuf) Read(p []byte) (int, error) {
	b.mu.Lock()
	defer b.mu.Unlock()
	for len(b.data) == 0 && !b.wclose && !b.rclose {
		b.cond.Wait()
	}
	if b.rclose {
		return 0, io.ErrClosedPipe
	}
	if len(b.data) == 0 {
		return 0, io.EOF
	}
	n := copy(p, b.data)
	b.data = b.data[n:]
	return n, nil
}

func (b *pfqBuf) write(p []byte) {
	b.mu.Lock()
	defer b.mu.Unlock()
	if !b.rclose {
		b.data = append(b.data, p...)
		b.cond.Broadcast()
	}
}
func (b *pfqBuf) closeW() { b.mu.Lock(); b.wclose = true; b.cond.Broadcast(); b.mu.Unlock() }
func (b *pfqBuf) closeR() { b.mu.Lock(); b.rclose = true; b.cond.Broadcast(); b.mu.Unlock() }

type pfqBody struct {
	b      *pfqBuf
	cancel context.CancelFunc
}

func (r *pfqBody) Read(p []byte) (int, error) { return r.b.Read(p) }
func (r *pfqBody) Close() error               { r.b.closeR(); r.cancel(); return nil }

type pfqRW struct {
	mu      sync.Mutex
	hdr     http.Header
	sent    http.Header
	status  int
	pending []byte
	body    *pfqBuf
	ready   chan struct{}
	isReady bool
}

func (w *pfqRW) Header() http.Header { return w.hdr }
func (w *pfqRW) WriteHeader(code int) {
	w.mu.Lock()
	defer w.mu.Unlock()
	if w.status == 0 {
		w.status = code
		w.sent = w.hdr.Clone()
	}
}
func (w *pfqRW) Write(p []byte) (int, error) {
	w.WriteHeader(http.StatusOK)
	w.mu.Lock()
	defer w.mu.Unlock()
	w.pending = append(w.pending, p...)
	return len(p), nil
}
func (w *pfqRW) Flush() {
	w.WriteHeader(http.StatusOK)
	w.mu.Lock()
	defer w.mu.Unlock()
	if !w.isReady {
		w.isReady = true
		close(w.ready)
	}
	if len(w.pending) > 0 {
		w.body.write(w.pending)
		w.pending = nil
	}
}

// pfqRT runs the handler for every request and keeps the headers of the last tools/call POST the client sent.
type pfqRT struct {
	h       http.Handler
	mu      sync.Mutex
	callHdr http.Header
	calls   int
	// armed: the answer of the next tools/list POST is held back (the handler runs to completion, the *http.Response is
	// handed to the client only when `release` is closed): a response in flight.
	armed   bool
	release chan struct{}
}

func (rt *pfqRT) RoundTrip(req *http.Request) (*http.Response, error) {
	var body []byte
	if req.Body != nil {
		body, _ = io.ReadAll(req.Body)
		req.Body.Close()
	}
	if req.Method == http.MethodPost && bytes.Contains(body, []byte(`"method":"tools/call"`)) {
		rt.mu.Lock()
		rt.callHdr = req.Header.Clone()
		rt.calls++
		rt.mu.Unlock()
	}
	var hold chan struct{}
	if req.Method == http.MethodPost && bytes.Contains(body, []byte(`"method":"tools/list"`)) {
		rt.mu.Lock()
		if rt.armed {
			rt.armed, hold = false, rt.release
		}
		rt.mu.Unlock()
	}
	ctx, cancel := context.WithCancel(context.WithoutCancel(req.Context()))
	stop := context.AfterFunc(req.Context(), cancel)
	sreq := req.Clone(ctx)
	sreq.Body = io.NopCloser(bytes.NewReader(body))
	sreq.ContentLength = int64(len(body))
	sreq.RequestURI = req.URL.RequestURI()
	sreq.RemoteAddr = "192.0.2.1:1234"
	if sreq.Host == "" {
		sreq.Host = req.URL.Host
	}
	w := &pfqRW{hdr: http.Header{}, body: newPfqBuf(), ready: make(chan struct{})}
	go func() {
		defer func() {
			recover()
			w.Flush()
			w.body.closeW()
			stop()
			cancel()
		}()
		rt.h.ServeHTTP(w, sreq)
	}()
	select {
	case <-w.ready:
	case <-req.Context().Done():
		cancel()
		return nil, req.Context().Err()
	}
	if hold != nil {
		select {
		case <-hold:
		case <-req.Context().Done():
			cancel()
			return nil, req.Context().Err()
		}
	}
	w.mu.Lock()
	st, hd := w.status, w.sent
	w.mu.Unlock()
	return &http.Response{
		Status: strconv.Itoa(st) + " " + http.StatusText(st), StatusCode: st, Proto: "HTTP/1.1", ProtoMajor: 1, ProtoMinor: 1,
		Header: hd, Body: &pfqBody{w.body, cancel}, ContentLength: -1, Request: req,
	}, nil
}

// ---------------------------------------------------------------------------------------------
// The session.

type pfqWorld struct {
	start    time.Time
	srv      *Server
	srvB     *Server // a second server behind the same handler (path /mcp/b)
	handler  *StreamableHTTPHandler
	rt       *pfqRT
	cs       *ClientSession
	mu       sync.Mutex
	ttl      int      // what the middleware writes into tools/list results (0: untouched)
	lists    int      // tools/list requests that reached the server
	notified int      // runs of the client's ToolListChangedHandler
	seen     []string // arguments the tool handlers received
	lastNote int
	pv       string
	sub      bool
	flight   *pfqFlight // the ListTools in flight (lsend … lrecv), if any
	bad      map[string]int // tools listed with invalid annotations (value: which kind of invalid)
	badN     int
}

type pfqFlight struct {
	release chan struct{}
	done    chan struct{}
	res     *ListToolsResult
	err     error
	panicked bool
}

func (w *pfqWorld) now() int64 { return time.Since(w.start).Milliseconds() }

// pfqCanonProps: the property tree of a schema as the CLIENT will render it (a decoded schema is a map: members sorted).
func pfqCanonProps(schemaJSON string) string {
	var v any
	if json.Unmarshal([]byte(schemaJSON), &v) != nil {
		return "p{ }"
	}
	return pfToolPropsTok(&Tool{InputSchema: v})
}

func pfqCursorTok(cursor string) string {
	if cursor == "" {
		return "c-"
	}
	tok, err := decodeCursor(cursor)
	if err != nil {
		return "c?"
	}
	return "c" + hxs(tok.LastUID)
}

func pfqToolsTok(ts []*Tool) string {
	parts := []string{"T{"}
	for _, t := range ts {
		parts = append(parts, "t"+hxs(t.Name), pfToolPropsTok(t))
	}
	return strings.Join(append(parts, "}"), " ")
}

func unhex(s string) string {
	b := make([]byte, 0, len(s)/2)
	for i := 0; i+1 < len(s); i += 2 {
		v, _ := strconv.ParseUint(s[i:i+2], 16, 8)
		b = append(b, byte(v))
	}
	return string(b)
}

// pfqPropsFromTok parses `p{ k.. y.. x.. p{ } … }` tokens back into a property tree (literal replay).
func pfqPropsFromTok(toks []string) ([]*pfProp, []string) {
	if len(toks) == 0 || toks[0] != "p{" {
		return nil, toks
	}
	toks = toks[1:]
	var out []*pfProp
	for len(toks) > 0 && toks[0] != "}" {
		if len(toks) < 3 {
			return out, nil
		}
		p := &pfProp{name: unhex(toks[0][1:]), ty: unhex(toks[1][1:]), xh: '-'}
		p.hasTy = p.ty != ""
		switch x := toks[2]; {
		case x == "x-":
		case x == "xz":
			p.xh = 'z'
		case x == "xo":
			p.xh, p.xhOther = 'o', "5"
		default:
			p.xh, p.xhStr = 's', unhex(x[2:])
		}
		p.children, toks = pfqPropsFromTok(toks[3:])
		out = append(out, p)
	}
	if len(toks) > 0 {
		toks = toks[1:]
	}
	return out, toks
}

// pfqJFromTok parses the value tokens of pfJ.tok() back into a value (literal replay).
func pfqJFromTok(toks []string) (*pfJ, []string) {
	if len(toks) == 0 {
		return &pfJ{kind: 'z'}, nil
	}
	t := toks[0]
	switch {
	case t == "z":
		return &pfJ{kind: 'z'}, toks[1:]
	case t == "t":
		return &pfJ{kind: 'b', b: true}, toks[1:]
	case t == "f":
		return &pfJ{kind: 'b', b: false}, toks[1:]
	case t == "a":
		return &pfJ{kind: 'a', raw: `["x"]`}, toks[1:]
	case t == "o{":
		o := &pfJ{kind: 'o'}
		toks = toks[1:]
		for len(toks) > 0 && toks[0] != "}" {
			k := unhex(toks[0][1:])
			var v *pfJ
			v, toks = pfqJFromTok(toks[1:])
			o.fields = append(o.fields, pfField{k, v})
		}
		if len(toks) > 0 {
			toks = toks[1:]
		}
		return o, toks
	case strings.HasPrefix(t, "n"):
		return pfNum(t[1:]), toks[1:]
	case strings.HasPrefix(t, "s"):
		return pfStr(unhex(t[1:])), toks[1:]
	}
	return &pfJ{kind: 'z'}, toks[1:]
}

func (w *pfqWorld) toolHandler(ctx context.Context, req *CallToolRequest) (*CallToolResult, error) {
	w.mu.Lock()
	w.seen = append(w.seen, string(req.Params.Arguments))
	w.mu.Unlock()
	return &CallToolResult{}, nil
}

// open: `cfg` - the server and its handler.  connect: the client (tools registered before it connects are part of the
// capabilities it discovers; a stateless server grants a list_changed subscription only if it has tools by then).
func (w *pfqWorld) open(kind, pv string, pageSize int, sub bool) {
	w.start = time.Now()
	w.pv, w.sub = pv, sub
	w.srv = NewServer(&Implementation{Name: "verif", Version: "1"}, &ServerOptions{PageSize: pageSize})
	w.srv.AddReceivingMiddleware(func(next MethodHandler) MethodHandler {
		return func(ctx context.Context, method string, req Request) (Result, error) {
			res, err := next(ctx, method, req)
			if method == methodListTools {
				w.mu.Lock()
				w.lists++
				ttl := w.ttl
				w.mu.Unlock()
				if r, ok := res.(*ListToolsResult); ok && err == nil && ttl != 0 {
					r.TTLMs = ttl
				}
				if r, ok := res.(*ListToolsResult); ok && err == nil {
					w.mu.Lock()
					for i, t := range r.Tools {
						if k, isBad := w.bad[t.Name]; isBad {
							cp := *t
							cp.InputSchema = json.RawMessage(pfqInvalidSchema(k))
							r.Tools[i] = &cp
						}
					}
					w.mu.Unlock()
				}
			}
			return res, err
		}
	})
	w.srvB = NewServer(&Implementation{Name: "verif-b", Version: "1"}, nil)
	w.handler = NewStreamableHTTPHandler(func(r *http.Request) *Server {
		if strings.HasSuffix(r.URL.Path, "/b") {
			return w.srvB
		}
		return w.srv
	}, &StreamableHTTPOptions{Stateless: kind == "Ksl"})
	w.rt = &pfqRT{h: w.handler}
}

func (w *pfqWorld) connect() (obs string, err error) {
	copts := &ClientOptions{}
	if w.sub {
		copts.ToolListChangedHandler = func(context.Context, *ToolListChangedRequest) {
			w.mu.Lock()
			w.notified++
			w.mu.Unlock()
		}
	}
	version := protocolVersion20260728
	if w.pv == "pvold" {
		version = protocolVersion20251125
	}
	c := NewClient(&Implementation{Name: "c", Version: "1"}, copts)
	cs, err := c.Connect(context.Background(), &StreamableClientTransport{Endpoint: "http://127.0.0.1:8080/mcp", HTTPClient: &http.Client{Transport: w.rt}},
		&ClientSessionOptions{ProtocolVersion: version})
	if err != nil {
		return "", err
	}
	w.cs = cs
	synctest.Wait()
	return "new" + pfB01(cs.usesNewProtocol()), nil
}

func (w *pfqWorld) close() {
	if fl := w.flight; fl != nil {
		w.flight = nil
		close(fl.release)
		<-fl.done
	}
	if w.cs != nil {
		w.cs.Close()
	}
	if w.handler != nil {
		w.handler.closeAll()
	}
	synctest.Wait()
}

// exec runs one operation (tokens after `seq t<ms>`), returns the op as recorded (cursors resolved), the observation, tags.
func (w *pfqWorld) exec(f []string, lastNext *string) (op, obs string, tags []string) {
	ctx := context.Background()
	op = strings.Join(f, " ")
	switch f[0] {
	case "set":
		ps, _ := pfqPropsFromTok(f[2:])
		w.srv.AddTool(&Tool{Name: unhex(f[1][1:]), InputSchema: json.RawMessage(pfSchemaJSON(ps))}, w.toolHandler)
		synctest.Wait()
		return op, "ok", []string{"seq-set"}
	case "del":
		w.srv.RemoveTools(unhex(f[1][1:]))
		synctest.Wait()
		return op, "ok", []string{"seq-del"}
	case "ttl":
		v, _ := strconv.Atoi(f[1])
		w.mu.Lock()
		w.ttl = v
		w.mu.Unlock()
		return op, "ok", []string{"seq-ttl", "ttl" + f[1]}
	case "adv":
		d, _ := strconv.Atoi(f[1])
		time.Sleep(time.Duration(d) * time.Millisecond)
		synctest.Wait()
		return op, "ok", []string{"seq-adv"}
	case "list":
		cursor := ""
		switch {
		case f[1] == "next":
			if *lastNext == "" {
				return "", "", nil // the listing is complete: nothing to follow
			}
			cursor = *lastNext
		case f[1] != "c-":
			cursor, _ = encodeCursor(unhex(f[1][1:]))
		}
		op = "list " + pfqCursorTok(cursor)
		w.mu.Lock()
		before := w.lists
		w.mu.Unlock()
		var params *ListToolsParams
		if cursor != "" {
			params = &ListToolsParams{Cursor: cursor}
		}
		res, err := w.cs.ListTools(ctx, params)
		synctest.Wait()
		w.mu.Lock()
		fetched := w.lists - before
		w.mu.Unlock()
		if err != nil {
			return op, "err:" + hxs(firstN(err.Error(), 60)), []string{"seq-list", "seq-list-err"}
		}
		*lastNext = res.NextCursor
		tags = []string{"seq-list", "seq-list-hit" + pfB01(fetched == 0), fmt.Sprintf("seq-page%d", min(len(res.Tools), 4))}
		if res.NextCursor != "" {
			tags = append(tags, "seq-more-pages")
		}
		return op, "hit" + pfB01(fetched == 0) + " " + pfqToolsTok(res.Tools) + " " + pfqCursorTok(res.NextCursor), tags
	case "lsend":
		cursor := ""
		if f[1] != "c-" {
			cursor, _ = encodeCursor(unhex(f[1][1:]))
		}
		op = "lsend " + pfqCursorTok(cursor)
		if w.flight != nil {
			return op, "ok", []string{"seq-lsend", "seq-lsend-busy"}
		}
		var params *ListToolsParams
		if cursor != "" {
			params = &ListToolsParams{Cursor: cursor}
		}
		w.mu.Lock()
		before := w.lists
		w.mu.Unlock()
		fl := &pfqFlight{release: make(chan struct{}), done: make(chan struct{})}
		w.rt.mu.Lock()
		w.rt.armed, w.rt.release = true, fl.release
		w.rt.mu.Unlock()
		go func() {
			defer close(fl.done)
			defer func() {
				if r := recover(); r != nil {
					fl.panicked = true
				}
			}()
			fl.res, fl.err = w.cs.ListTools(ctx, params)
		}()
		synctest.Wait()
		select {
		case <-fl.done:
			// no request was held back: served from the cache (or failed)
			w.rt.mu.Lock()
			w.rt.armed = false
			w.rt.mu.Unlock()
			w.mu.Lock()
			fetched := w.lists - before
			w.mu.Unlock()
			switch {
			case fl.panicked:
				return op, "panic", []string{"seq-lsend", "seq-panic"}
			case fl.err != nil:
				return op, "err:" + hxs(firstN(fl.err.Error(), 60)), []string{"seq-lsend", "seq-list-err"}
			}
			return op, "hit" + pfB01(fetched == 0) + " " + pfqToolsTok(fl.res.Tools) + " " + pfqCursorTok(fl.res.NextCursor),
				[]string{"seq-lsend", "seq-lsend-hit" + pfB01(fetched == 0)}
		default:
		}
		w.flight = fl
		w.mu.Lock()
		fetched := w.lists - before
		w.mu.Unlock()
		if fetched != 1 {
			return op, fmt.Sprintf("sent-but-%d-reached-the-server", fetched), []string{"seq-lsend"}
		}
		return op, "sent", []string{"seq-lsend", "seq-lsend-sent"}
	case "lrecv":
		fl := w.flight
		if fl == nil {
			return "", "", nil // nothing in flight
		}
		w.flight = nil
		close(fl.release)
		<-fl.done
		synctest.Wait()
		switch {
		case fl.panicked:
			return op, "panic", []string{"seq-lrecv", "seq-panic"}
		case fl.err != nil:
			return op, "err:" + hxs(firstN(fl.err.Error(), 60)), []string{"seq-lrecv", "seq-list-err"}
		}
		return op, "hit0 " + pfqToolsTok(fl.res.Tools) + " " + pfqCursorTok(fl.res.NextCursor), []string{"seq-lrecv", fmt.Sprintf("seq-page%d", min(len(fl.res.Tools), 4))}
	case "bad", "unbad":
		w.mu.Lock()
		if w.bad == nil {
			w.bad = map[string]int{}
		}
		if f[0] == "bad" {
			w.bad[unhex(f[1][1:])] = w.badN
			w.badN++
		} else {
			delete(w.bad, unhex(f[1][1:]))
		}
		w.mu.Unlock()
		return op, "ok", []string{"seq-" + f[0]}
	case "setb":
		ps, _ := pfqPropsFromTok(f[2:])
		w.srvB.AddTool(&Tool{Name: unhex(f[1][1:]), InputSchema: json.RawMessage(pfSchemaJSON(ps))}, w.toolHandler)
		synctest.Wait()
		return op, "ok", []string{"seq-setb"}
	case "delb":
		w.srvB.RemoveTools(unhex(f[1][1:]))
		synctest.Wait()
		return op, "ok", []string{"seq-delb"}
	case "callb":
		name := unhex(f[1][1:])
		var args *pfJ
		if rest := f[2:]; len(rest) > 1 && rest[0] == "P" {
			pj, _ := pfqJFromTok(rest[1:])
			for _, fl := range pj.fields {
				if fl.k == "arguments" {
					args = fl.v
				}
			}
		}
		if args == nil {
			args = &pfJ{kind: 'o'}
		}
		argsJSON := args.json()
		version := protocolVersion20260728
		if w.pv == "pvold" {
			version = protocolVersion20251125
		}
		c2 := NewClient(&Implementation{Name: "c2", Version: "1"}, nil)
		cs2, err := c2.Connect(ctx, &StreamableClientTransport{Endpoint: "http://127.0.0.1:8080/mcp/b", HTTPClient: &http.Client{Transport: w.rt}},
			&ClientSessionOptions{ProtocolVersion: version})
		if err != nil {
			return op, "err:" + hxs(firstN(err.Error(), 60)) + " handler=0", []string{"seq-callb", "seq-callb-connect-err"}
		}
		defer func() { cs2.Close(); synctest.Wait() }()
		cursor := ""
		for i := 0; i < 64; i++ {
			var lp *ListToolsParams
			if cursor != "" {
				lp = &ListToolsParams{Cursor: cursor}
			}
			res, err := cs2.ListTools(ctx, lp)
			if err != nil || res.NextCursor == "" {
				break
			}
			cursor = res.NextCursor
		}
		w.mu.Lock()
		w.seen = nil
		w.mu.Unlock()
		w.rt.mu.Lock()
		w.rt.callHdr = nil
		w.rt.mu.Unlock()
		_, err = cs2.CallTool(ctx, &CallToolParams{Name: name, Arguments: json.RawMessage(argsJSON)})
		synctest.Wait()
		w.mu.Lock()
		seen := w.seen
		w.mu.Unlock()
		w.rt.mu.Lock()
		hdr := w.rt.callHdr
		w.rt.mu.Unlock()
		if hdr == nil {
			hdr = http.Header{}
		}
		out := pfqCallOut(err, seen, argsJSON)
		tags = []string{"seq-callb", "seq-callb-" + strings.SplitN(strings.Fields(out)[0], ":", 2)[0]}
		if pfParamHdrTok(hdr) != "H{ }" {
			tags = append(tags, "seq-callb-mirrored")
		}
		return op, pfParamHdrTok(hdr) + " " + out, tags
	case "look":
		name := unhex(f[1][1:])
		set := map[string]bool{}
		for i := 0; i < 64; i++ {
			if t := w.cs.lookupTool(name); t != nil {
				set[pfToolPropsTok(t)] = true
			} else {
				set["-"] = true
			}
		}
		var items []string
		for k := range set {
			items = append(items, k)
		}
		sort.Strings(items)
		tags = []string{"seq-look", fmt.Sprintf("seq-look%d", len(items))}
		if set["-"] {
			tags = append(tags, "seq-look-nil")
		}
		return op, "L{ " + strings.Join(items, " ") + " }", tags
	case "call":
		name := unhex(f[1][1:])
		var args *pfJ
		// P o{ k6e616d65 s.. k617267756d656e7473 <value> }
		rest := f[2:]
		if len(rest) > 1 && rest[0] == "P" {
			pj, _ := pfqJFromTok(rest[1:])
			for _, fl := range pj.fields {
				if fl.k == "arguments" {
					args = fl.v
				}
			}
		}
		if args == nil {
			args = &pfJ{kind: 'o'}
		}
		argsJSON := args.json()
		w.mu.Lock()
		w.seen = nil
		w.mu.Unlock()
		w.rt.mu.Lock()
		w.rt.callHdr = nil
		w.rt.mu.Unlock()
		_, err := w.cs.CallTool(ctx, &CallToolParams{Name: name, Arguments: json.RawMessage(argsJSON)})
		synctest.Wait()
		w.mu.Lock()
		seen := w.seen
		w.mu.Unlock()
		w.rt.mu.Lock()
		hdr := w.rt.callHdr
		w.rt.mu.Unlock()
		if hdr == nil {
			hdr = http.Header{}
		}
		out := pfqCallOut(err, seen, argsJSON)
		tags = []string{"seq-call", "seq-call-" + strings.SplitN(strings.Fields(out)[0], ":", 2)[0]}
		if len(hdr) > 0 && pfParamHdrTok(hdr) != "H{ }" {
			tags = append(tags, "seq-call-mirrored")
		}
		return op, pfParamHdrTok(hdr) + " " + out, tags
	}
	return op, "bad-op", nil
}

// pfqInvalidSchemas: input schemas whose x-mcp-header annotations validateParamHeaderAnnotations refuses.
var pfqInvalidSchemas = []string{
	`{"type":"object","properties":{"region":{"type":"string","x-mcp-header":"Bad Name"}}}`,
	`{"type":"object","properties":{"region":{"type":"string","x-mcp-header":"Region"},"zone":{"type":"string","x-mcp-header":"region"}}}`,
	`{"type":"object","properties":{"region":{"type":"object","x-mcp-header":"Region"}}}`,
	`{"type":"object","properties":{"region":{"type":"string","x-mcp-header":5}}}`,
	`{"type":"object","properties":{"region":{"type":"string","x-mcp-header":""}}}`,
	`{"type":"object","properties":{"region":{"type":"array","x-mcp-header":"Region"}}}`,
}

func pfqInvalidSchema(k int) string {
	for i := 0; i < len(pfqInvalidSchemas); i++ {
		sc := pfqInvalidSchemas[(k+i)%len(pfqInvalidSchemas)]
		if validateParamHeaderAnnotations(&Tool{Name: "t", InputSchema: json.RawMessage(sc)}) != nil {
			return sc
		}
	}
	return pfqInvalidSchemas[0]
}

// pfqCallOut: how a CallTool ended (the handler ran once with the arguments sent / otherwise / refused with a code).
func pfqCallOut(err error, seen []string, argsJSON string) string {
	switch {
	case err == nil && len(seen) == 1:
		a, _ := pfParseJ([]byte(seen[0]))
		b, _ := pfParseJ([]byte(argsJSON))
		if a != nil && b != nil && pfCanon(a) == pfCanon(b) {
			return "ok same"
		}
		return "ok differs"
	case err == nil:
		return fmt.Sprintf("ok handler=%d", len(seen))
	}
	var werr *jsonrpc.Error
	if errors.As(err, &werr) {
		return fmt.Sprintf("rej %d handler=%d", werr.Code, len(seen))
	}
	return fmt.Sprintf("err:%s handler=%d", hxs(firstN(err.Error(), 60)), len(seen))
}

// pfqRun interprets the operation lines of one case (first line: `seq cfg …`; the others `seq [t<ms>] <op> …`) inside a
// synctest bubble and writes its records.  `sub`: the client registers a ToolListChangedHandler (not part of the model:
// what it causes is the `notified` events).
func pfqRun(t *testing.T, out *verifOut, cs string, at string, lines []string, extraTag string) {
	emit := func(op, obs string, tags ...string) {
		if extraTag != "" {
			tags = append(tags, extraTag)
		}
		if at != "" {
			op = at + " " + op
		}
		out.line(cs, op, obs, append([]string{"seq"}, tags...)...)
	}
	synctest.Test(t, func(t *testing.T) {
		w := &pfqWorld{}
		defer w.close()
		lastNext := ""
		for i, ln := range lines {
			f := strings.Fields(ln)
			if len(f) > 0 && strings.HasPrefix(f[0], "@") {
				f = f[1:]
			}
			if len(f) < 2 || f[0] != "seq" {
				continue
			}
			f = f[1:]
			if f[0] == "cfg" {
				if i != 0 || len(f) < 4 {
					continue
				}
				ps, _ := strconv.Atoi(strings.TrimPrefix(f[3], "ps"))
				sub := len(f) > 4 && f[4] == "sub1"
				w.open(f[1], f[2], ps, sub)
				f[3] = fmt.Sprintf("ps%d", w.srv.opts.PageSize) // the effective page size (0 = the SDK's default)
				emit("seq "+strings.Join(f[:4], " ")+" sub"+pfB01(sub), "ok", "seq-cfg", "seq-"+f[1], "seq-"+f[2], "seq-"+f[3], "seq-sub"+pfB01(sub))
				continue
			}
			if w.srv == nil {
				return
			}
			if strings.HasPrefix(f[0], "t") && len(f[0]) > 1 && f[0][1] >= '0' && f[0][1] <= '9' {
				f = f[1:] // the recorded clock of a replayed line: the clock is re-measured
			}
			if len(f) == 0 || f[0] == "notified" {
				continue // an event, not an operation: re-observed
			}
			if w.cs == nil && (f[0] == "connect" || f[0] == "list" || f[0] == "lsend" || f[0] == "look" || f[0] == "call") {
				obs, err := w.connect()
				if err != nil {
					emit(fmt.Sprintf("seq t%d connect", w.now()), "err:"+hxs(firstN(err.Error(), 60)), "seq-connect")
					return
				}
				emit(fmt.Sprintf("seq t%d connect", w.now()), obs, "seq-connect", "seq-"+obs)
			}
			if f[0] == "connect" {
				continue
			}
			var op, obs string
			var tags []string
			func() {
				defer func() {
					if r := recover(); r != nil {
						op, obs, tags = strings.Join(f, " "), "panic", []string{"seq-panic"}
					}
				}()
				op, obs, tags = w.exec(f, &lastNext)
			}()
			if op == "" {
				continue
			}
			emit(fmt.Sprintf("seq t%d %s", w.now(), op), obs, tags...)
			w.mu.Lock()
			n := w.notified
			w.mu.Unlock()
			if n != w.lastNote {
				w.lastNote = n
				emit(fmt.Sprintf("seq t%d notified", w.now()), "ok", "seq-notified")
			}
		}
	})
}

// ---------------------------------------------------------------------------------------------
// Generator.

var pfqNames = []string{"a", "b", "c", "d", "e", "tool", "Tool"}

// pfqCaseNames: tool names that differ only in case (the client's lookup and the server's table are case-sensitive).
var pfqCaseNames = []string{"tool", "Tool", "TOOL", "tooL", "a", "A", "b"}

type pfqGenTool struct {
	schema []*pfProp
}

// pfqMutate: the same properties with changed annotations (one to three leaves: annotation added, dropped or renamed).
func (g *pfGen) pfqMutate(ps []*pfProp) []*pfProp {
	var clone func(ps []*pfProp) []*pfProp
	clone = func(ps []*pfProp) []*pfProp {
		var out []*pfProp
		for _, p := range ps {
			q := *p
			q.children = clone(p.children)
			out = append(out, &q)
		}
		return out
	}
	for try := 0; try < 20; try++ {
		out := clone(ps)
		var leaves []*pfProp
		used := map[string]bool{}
		var walk func(ps []*pfProp)
		walk = func(ps []*pfProp) {
			for _, p := range ps {
				if p.xh == 's' {
					used[strings.ToLower(p.xhStr)] = true
				}
				if p.ty != "object" {
					leaves = append(leaves, p)
				}
				walk(p.children)
			}
		}
		walk(out)
		if len(leaves) == 0 {
			break
		}
		for k := 0; k < 1+g.rng.Intn(3); k++ {
			p := leaves[g.rng.Intn(len(leaves))]
			fresh := ""
			for _, h := range g.rng.Perm(len(pfHeaderNames)) {
				if !used[strings.ToLower(pfHeaderNames[h])] {
					fresh = pfHeaderNames[h]
					break
				}
			}
			switch {
			case p.xh == 's' && (fresh == "" || g.chance(50)):
				p.xh, p.xhStr = '-', ""
			case fresh != "":
				p.xh, p.xhStr = 's', fresh
				used[strings.ToLower(fresh)] = true
			}
		}
		if pfPropsTok(out) != pfPropsTok(ps) &&
			validateParamHeaderAnnotations(&Tool{Name: "t", InputSchema: json.RawMessage(pfSchemaJSON(out))}) == nil {
			return out
		}
	}
	return g.validSchema()
}

// pfqArgsAll: an arguments object valid for the schema with a (non-null) value for EVERY leaf property, so that a
// formerly annotated argument is always supplied.
func (g *pfGen) pfqArgsAll(ps []*pfProp) *pfJ {
	o := &pfJ{kind: 'o'}
	for _, p := range ps {
		if p.ty == "object" && len(p.children) > 0 {
			o.fields = append(o.fields, pfField{p.name, g.pfqArgsAll(p.children)})
			continue
		}
		if p.ty == "object" {
			continue
		}
		o.fields = append(o.fields, pfField{p.name, g.value(p.ty, true)})
	}
	return o
}

func pfqClone(ps []*pfProp) []*pfProp {
	var out []*pfProp
	for _, p := range ps {
		q := *p
		q.children = pfqClone(p.children)
		out = append(out, &q)
	}
	return out
}

func pfqLeaves(ps []*pfProp) []*pfProp {
	var out []*pfProp
	for _, p := range ps {
		if p.ty != "object" {
			out = append(out, p)
		}
		out = append(out, pfqLeaves(p.children)...)
	}
	return out
}

// pfqRevise: a new revision of a tool's schema - same properties, the annotations changed in one named way:
// "strip" no x-mcp-header annotation at all, "rename" every annotated leaf gets another header name, "move" the
// annotation of one leaf moves to a leaf that had none.  nil when the schema does not allow it.
func (g *pfGen) pfqRevise(ps []*pfProp, how string) []*pfProp {
	out := pfqClone(ps)
	leaves := pfqLeaves(out)
	var ann, plain []*pfProp
	used := map[string]bool{}
	for _, p := range leaves {
		if p.xh == 's' {
			ann = append(ann, p)
			used[strings.ToLower(p.xhStr)] = true
		} else {
			plain = append(plain, p)
		}
	}
	if len(ann) == 0 {
		return nil
	}
	fresh := func() string {
		for _, h := range g.rng.Perm(len(pfHeaderNames)) {
			if !used[strings.ToLower(pfHeaderNames[h])] {
				used[strings.ToLower(pfHeaderNames[h])] = true
				return pfHeaderNames[h]
			}
		}
		return ""
	}
	switch how {
	case "strip":
		for _, p := range ann {
			p.xh, p.xhStr = '-', ""
		}
	case "rename":
		for _, p := range ann {
			if h := fresh(); h != "" {
				p.xhStr = h
			}
		}
	case "move":
		if len(plain) == 0 {
			return nil
		}
		from, to := ann[g.rng.Intn(len(ann))], plain[g.rng.Intn(len(plain))]
		to.xh, to.xhStr = 's', from.xhStr
		from.xh, from.xhStr = '-', ""
	}
	if pfPropsTok(out) == pfPropsTok(ps) ||
		validateParamHeaderAnnotations(&Tool{Name: "t", InputSchema: json.RawMessage(pfSchemaJSON(out))}) != nil {
		return nil
	}
	return out
}

// pfqGenerate: the operation lines of case (seed, idx).
func (g *pfGen) pfqGenerate() []string {
	pfqNames := pfqNames
	if g.chance(15) {
		pfqNames = pfqCaseNames
	}
	kind, pv := "Ksl", "pvnew"
	if g.chance(12) {
		kind = "Ksf"
	}
	if g.chance(8) {
		pv = "pvold"
	}
	ps := []int{1, 2, 2, 3, 3, 0}[g.rng.Intn(6)]
	sub := g.chance(35)
	lines := []string{fmt.Sprintf("seq cfg %s %s ps%d sub%s", kind, pv, ps, pfB01(sub))}
	add := func(s string) { lines = append(lines, "seq "+s) }
	tools := map[string]*pfqGenTool{}
	var everListed []string
	setTool := func(name string, schema []*pfProp) {
		tools[name] = &pfqGenTool{schema: schema}
		// the properties in the order the client will render them (a decoded schema is a map)
		add("set t" + hxs(name) + " " + pfqCanonProps(pfSchemaJSON(schema)))
	}
	names := func() []string {
		var out []string
		for n := range tools {
			out = append(out, n)
		}
		sort.Strings(out)
		return out
	}
	shallow := &pfGen{rng: g.rng, epoch: 1}
	schema := func() []*pfProp {
		if g.chance(70) {
			return shallow.validSchema()
		}
		return g.validSchema()
	}
	ttls := []string{"0", "0", "-1", "40", "40", "60000"}
	if g.chance(60) {
		add("ttl " + g.pick(ttls))
	}
	early := g.chance(20) // the client connects to a server that has no tools yet
	if early {
		add("connect")
	}
	for i, n := 0, 1+g.rng.Intn(4); i < n; i++ {
		setTool(pfqNames[g.rng.Intn(5)], schema())
	}
	if !early {
		add("connect")
	}
	listAll := func() {
		add("list c-")
		for i := 0; i < 5; i++ {
			add("list next")
		}
	}
	if g.chance(70) {
		listAll()
	}
	advs := []int{1, 5, 9, 10, 11, 39, 40, 41, 100, 1000, 59999, 60000, 60001}
	// concurrency (generator epoch 5): a ListTools runs in a goroutine of its own and its response is in flight (`lsend`)
	// while the session goes on - the server's tools change, list_changed is handled, other listings and calls run - and
	// arrives later (`lrecv`).  At most one listing is in flight.
	conc := g.epoch >= 5
	inflight := false
	// two servers behind the handler (generator epoch 6): the second one registers tools under the SAME names with other
	// annotations (none / other header names / moved / the same / a schema of its own); after a call of the first server's
	// tool the same-named tool of the second is called through /mcp/b, and the other way round
	toolsB := map[string][]*pfProp{}
	two := g.epoch >= 6 && g.chance(30)
	setB := func(name string, sc []*pfProp) {
		toolsB[name] = sc
		add("setb t" + hxs(name) + " " + pfqCanonProps(pfSchemaJSON(sc)))
	}
	callB := func(n string) {
		sc := toolsB[n]
		nm, _ := json.Marshal(n)
		var a *pfJ
		if g.chance(60) {
			a = g.pfqArgsAll(sc)
		} else {
			a = g.args(sc, true)
		}
		params := json.RawMessage(`{"name":` + string(nm) + `,"arguments":` + a.json() + `}`)
		if _, ok := extractName("tools/call", params); !ok {
			return
		}
		add("callb t" + hxs(n) + " " + pfParamsTok(params))
	}
	if two {
		for _, n := range names() {
			if !g.chance(75) {
				continue
			}
			var rev []*pfProp
			switch how := g.pick([]string{"strip", "rename", "move", "same", "own"}); how {
			case "same":
				rev = tools[n].schema
			case "own":
				rev = schema()
			default:
				rev = g.pfqRevise(tools[n].schema, how)
				if rev == nil {
					rev = g.pfqMutate(tools[n].schema)
				}
			}
			setB(n, rev)
		}
		if g.chance(30) {
			setB(pfqNames[g.rng.Intn(len(pfqNames))], schema())
		}
	}
	callAll := func(n string, sc []*pfProp) {
		nm, _ := json.Marshal(n)
		params := json.RawMessage(`{"name":` + string(nm) + `,"arguments":` + g.pfqArgsAll(sc).json() + `}`)
		if _, ok := extractName("tools/call", params); !ok {
			return
		}
		add("look t" + hxs(n))
		add("call t" + hxs(n) + " " + pfParamsTok(params))
	}
	for i, n := 0, 6+g.rng.Intn(14); i < n; i++ {
		if inflight && g.chance(30) {
			add("lrecv")
			inflight = false
		}
		if conc && !inflight && g.chance(12) {
			// a listing overtaken by a change: in flight while a tool is re-registered (changed annotations) or added, the
			// notification goes out (or not yet), the response arrives, the client lists again and calls
			if g.chance(35) {
				add("ttl " + g.pick([]string{"40", "60000", "60000"}))
			}
			if g.chance(25) {
				add("list c-") // something is cached when the listing starts (a lapsed or a fresh page)
				if g.chance(60) {
					add(fmt.Sprintf("adv %d", []int{39, 41, 100, 60001}[g.rng.Intn(4)]))
				}
			}
			add("lsend c-")
			ns := names()
			var n string
			if len(ns) > 0 && g.chance(85) {
				n = ns[g.rng.Intn(len(ns))]
				rev := g.pfqRevise(tools[n].schema, g.pick([]string{"strip", "rename", "move"}))
				if rev == nil {
					rev = g.pfqMutate(tools[n].schema)
				}
				setTool(n, rev)
			} else {
				n = pfqNames[g.rng.Intn(len(pfqNames))]
				setTool(n, schema())
			}
			if g.chance(70) {
				add(fmt.Sprintf("adv %d", []int{5, 10, 11, 50}[g.rng.Intn(4)]))
			}
			if g.chance(25) {
				add("list c-") // a second listing overtakes the first
			}
			add("lrecv")
			if g.chance(40) {
				add(fmt.Sprintf("adv %d", []int{1, 10, 11, 50}[g.rng.Intn(4)]))
			}
			listAll()
			callAll(n, tools[n].schema)
			callAll(n, tools[n].schema)
			continue
		}
		if g.epoch >= 6 && g.chance(7) {
			// a foreign server: a registered tool is LISTED with invalid annotations from now on; the change is announced (the
			// tool is re-registered as it is) or not; the client lists again and calls; sometimes the listing is repaired
			if ns := names(); len(ns) > 0 {
				n := ns[g.rng.Intn(len(ns))]
				add("bad t" + hxs(n))
				if g.chance(75) {
					setTool(n, tools[n].schema)
					add(fmt.Sprintf("adv %d", []int{5, 10, 11, 50}[g.rng.Intn(4)]))
				}
				listAll()
				callAll(n, tools[n].schema)
				if g.chance(50) {
					nm, _ := json.Marshal(n)
					params := json.RawMessage(`{"name":` + string(nm) + `,"arguments":{}}`)
					add("look t" + hxs(n))
					add("call t" + hxs(n) + " " + pfParamsTok(params))
				}
				if g.chance(50) {
					add("unbad t" + hxs(n))
					if g.chance(70) {
						setTool(n, tools[n].schema)
						add("adv 11")
					}
					listAll()
					callAll(n, tools[n].schema)
				}
				continue
			}
		}
		r := g.rng.Intn(100)
		switch {
		case r < 14:
			if conc && !inflight && g.chance(35) {
				add("lsend c-")
				inflight = true
				break
			}
			add("list c-")
		case r < 24:
			add("list next")
		case r < 30:
			if conc && !inflight && g.chance(35) {
				add("lsend c" + hxs(pfqNames[g.rng.Intn(len(pfqNames))]))
				inflight = true
				break
			}
			add("list c" + hxs(pfqNames[g.rng.Intn(len(pfqNames))]))
		case r < 38:
			listAll()
		case r < 68:
			// a call (preceded by the lookups the call will make): mostly of a registered tool
			name := pfqNames[g.rng.Intn(len(pfqNames))]
			if ns := names(); len(ns) > 0 && g.chance(85) {
				name = ns[g.rng.Intn(len(ns))]
			}
			var sc []*pfProp
			if t := tools[name]; t != nil {
				sc = t.schema
			} else {
				sc = shallow.validSchema()
			}
			var params json.RawMessage
			for {
				args := g.args(sc, g.chance(88))
				nm, _ := json.Marshal(name)
				params = json.RawMessage(`{"name":` + string(nm) + `,"arguments":` + args.json() + `}`)
				if _, ok := extractName("tools/call", params); ok {
					break // params the SDK cannot decode at all are the e2e stream's business
				}
			}
			add("look t" + hxs(name))
			if two && toolsB[name] != nil && g.chance(35) {
				callB(name) // the second server's tool of that name first
			}
			add("call t" + hxs(name) + " " + pfParamsTok(params))
			if two && toolsB[name] != nil && g.chance(70) {
				callB(name)
				if g.chance(30) {
					add("call t" + hxs(name) + " " + pfParamsTok(params))
				}
			}
			everListed = append(everListed, name)
		case r < 74:
			// a registered, annotated tool gets a new revision - no annotation at all / other header names / the annotation
			// moved to another argument / removed and added again (same or revised schema) -, the client lists everything
			// again and calls the tool with a value for every argument (so also for the formerly annotated ones)
			var cands []string
			for _, n := range names() {
				for _, p := range pfqLeaves(tools[n].schema) {
					if p.xh == 's' {
						cands = append(cands, n)
						break
					}
				}
			}
			if len(cands) == 0 {
				add(fmt.Sprintf("adv %d", advs[g.rng.Intn(len(advs))]))
				break
			}
			n := cands[g.rng.Intn(len(cands))]
			old := tools[n].schema
			how := g.pick([]string{"strip", "strip", "rename", "move", "readd", "readd-strip"})
			rev := old
			switch how {
			case "readd":
				delete(tools, n)
				add("del t" + hxs(n))
			case "readd-strip":
				delete(tools, n)
				add("del t" + hxs(n))
				rev = g.pfqRevise(old, "strip")
			default:
				rev = g.pfqRevise(old, how)
			}
			if rev == nil {
				rev = g.pfqMutate(old)
			}
			setTool(n, rev)
			if g.chance(50) {
				add(fmt.Sprintf("adv %d", []int{5, 10, 11, 50}[g.rng.Intn(4)]))
			}
			listAll()
			for k := 0; k < 2; k++ {
				nm, _ := json.Marshal(n)
				params := json.RawMessage(`{"name":` + string(nm) + `,"arguments":` + g.pfqArgsAll(rev).json() + `}`)
				if _, ok := extractName("tools/call", params); !ok {
					continue
				}
				add("look t" + hxs(n))
				add("call t" + hxs(n) + " " + pfParamsTok(params))
			}
		case r < 82:
			add(fmt.Sprintf("adv %d", advs[g.rng.Intn(len(advs))]))
		case r < 92:
			// the server's tools change: re-registration with changed annotations (mostly), a new tool, a removal
			ns := names()
			switch {
			case len(ns) > 0 && g.chance(55):
				n := ns[g.rng.Intn(len(ns))]
				setTool(n, g.pfqMutate(tools[n].schema))
			case len(ns) > 1 && g.chance(35):
				n := ns[g.rng.Intn(len(ns))]
				delete(tools, n)
				add("del t" + hxs(n))
			default:
				setTool(pfqNames[g.rng.Intn(len(pfqNames))], schema())
			}
			if g.chance(50) {
				// let the change notification (debounced 10 ms) out before the client goes on
				add(fmt.Sprintf("adv %d", []int{5, 10, 11, 50}[g.rng.Intn(4)]))
			}
		default:
			add("ttl " + g.pick(ttls))
		}
	}
	if inflight {
		add("lrecv")
		add("list c-")
	}
	_ = everListed
	return lines
}
