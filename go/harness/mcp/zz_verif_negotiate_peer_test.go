// E4 correspondence harness (C07), part 2.
//
//  1. FOREIGN PEERS: the real SDK client against a hand-written server that is NOT this SDK, over an
//     in-memory JSON-RPC pipe and over streamable HTTP. The peer's answer to server/discover and to
//     initialize is a parameter of the cell (see ngPeer): HTTP error statuses with text bodies (legacy
//     servers, method-routing gateways), JSON-RPC errors of several codes in several HTTP statuses,
//     -32022 with and without data, DiscoverResults listing arbitrary version strings, initialize
//     answers with known / unknown in-range / out-of-range / malformed version strings.
//     op: foreign <req> <mem|http> <disc> <init>
//  2. SEQUENCES: ONE Server value connected several times in a row through different transport
//     configurations (every ordered pair and triple of kinds), each connection followed by
//     ListTools + CallTool.
//     op: step <req> <kind> <subset> <json> <store> <hold>     (all steps of a case share the Server)
package mcp

import (
	"context"
	"encoding/json"
	"fmt"
	"io"
	"net/http"
	"net/http/httptest"
	"os"
	"sort"
	"strconv"
	"strings"
	"sync"
	"testing"
	"time"

	"github.com/modelcontextprotocol/go-sdk/jsonrpc"
)

// ---------------------------------------------------------------------------------- foreign peers

// ngPeer describes a server that is not this SDK.
//
// disc (answer to server/discover):
//
//	h<status>t           HTTP <status>, text/plain body                              (http only)
//	h<status>e<code>     HTTP <status>, JSON-RPC error body with code -<code>         (http only)
//	e<code>              JSON-RPC error -<code> (HTTP 200)
//	u<list> / U<list>    a version-checking modern server speaking <list>: DiscoverResult(<list>) when the
//	                     probe names a member of <list>, else -32022 with data.supported = <list>
//	                     (U: the error travels with HTTP 400, http only)
//	r<list>              a lax modern server: DiscoverResult(<list>) whatever the probe names
//	x<list1>:<list2>     a server whose version check and whose DiscoverResult disagree (e.g. an SDK-wide list
//	                     in the -32022 data, a transport-filtered one in the result): DiscoverResult(<list2>)
//	                     when the probe names a member of <list1>, else -32022 with data.supported = <list1>
//	n<list>              -32022 with data.supported = <list> whatever the probe names
//
// <list> = hex strings joined by '.', or '-' for the empty list.
//
// init (answer to initialize): a<hex> fixed version string | echo (the client's own) | err (-32601).
type ngPeer struct {
	disc, init string
}

type ngReply struct {
	status int    // HTTP status (http carrier)
	text   string // non-empty: a text/plain body instead of JSON-RPC
	result string // JSON result
	code   int    // JSON-RPC error code (when result == "")
	data   string // JSON-RPC error data
}

func ngList(s string) []string {
	if s == "-" || s == "" {
		return []string{}
	}
	var out []string
	for _, h := range strings.Split(s, ".") {
		out = append(out, ngUnhex(h))
	}
	return out
}

func ngJSON(v any) string {
	b, _ := json.Marshal(v)
	return string(b)
}

const ngMetaVersion = "io.modelcontextprotocol/protocolVersion"

// answer computes the peer's reply to one JSON-RPC call.
func (p ngPeer) answer(method string, params json.RawMessage) ngReply {
	switch method {
	case "server/discover":
		d := p.disc
		switch {
		case strings.HasPrefix(d, "h"):
			rest := d[1:]
			if strings.HasSuffix(rest, "t") {
				st, _ := strconv.Atoi(strings.TrimSuffix(rest, "t"))
				return ngReply{status: st, text: http.StatusText(st)}
			}
			i := strings.Index(rest, "e")
			st, _ := strconv.Atoi(rest[:i])
			code, _ := strconv.Atoi(rest[i+1:])
			return ngReply{status: st, code: -code}
		case strings.HasPrefix(d, "e"):
			code, _ := strconv.Atoi(d[1:])
			return ngReply{status: 200, code: -code}
		case strings.HasPrefix(d, "u"), strings.HasPrefix(d, "U"), strings.HasPrefix(d, "r"), strings.HasPrefix(d, "x"), strings.HasPrefix(d, "n"):
			l := ngList(d[1:])
			res := l
			if d[0] == 'x' {
				a, b, _ := strings.Cut(d[1:], ":")
				l, res = ngList(a), ngList(b)
			}
			var m struct {
				Meta map[string]any `json:"_meta"`
			}
			json.Unmarshal(params, &m)
			asked, _ := m.Meta[ngMetaVersion].(string)
			speaks := d[0] == 'r'
			for _, v := range l {
				if v == asked && d[0] != 'n' {
					speaks = true
				}
			}
			if speaks {
				return ngReply{status: 200, result: `{"resultType":"complete","supportedVersions":` + ngJSON(res) +
					`,"capabilities":{"tools":{}},"_meta":{"io.modelcontextprotocol/serverInfo":{"name":"foreign","version":"1"}}}`}
			}
			st := 200
			if d[0] == 'U' {
				st = 400
			}
			return ngReply{status: st, code: -32022, data: `{"supported":` + ngJSON(l) + `,"requested":` + ngJSON(asked) + `}`}
		}
		return ngReply{status: 200, code: -32601}
	case "initialize":
		var ip struct {
			ProtocolVersion string `json:"protocolVersion"`
		}
		json.Unmarshal(params, &ip)
		v := ip.ProtocolVersion
		switch {
		case p.init == "err":
			return ngReply{status: 200, code: -32601}
		case strings.HasPrefix(p.init, "a"):
			v = ngUnhex(p.init[1:])
		}
		return ngReply{status: 200, result: `{"protocolVersion":` + ngJSON(v) + `,"capabilities":{"tools":{}},"serverInfo":{"name":"foreign","version":"1"}}`}
	case "tools/list":
		return ngReply{status: 200, result: `{"resultType":"complete","tools":[{"name":"echo","inputSchema":{"type":"object"}}]}`}
	case "tools/call":
		return ngReply{status: 200, result: `{"resultType":"complete","content":[{"type":"text","text":"pong"}]}`}
	case "ping":
		return ngReply{status: 200, result: `{}`}
	}
	return ngReply{status: 200, code: -32601}
}

func (r ngReply) body(id json.RawMessage) string {
	if r.result != "" {
		return `{"jsonrpc":"2.0","id":` + string(id) + `,"result":` + r.result + `}`
	}
	e := `{"code":` + strconv.Itoa(r.code) + `,"message":"foreign peer error"`
	if r.data != "" {
		e += `,"data":` + r.data
	}
	return `{"jsonrpc":"2.0","id":` + string(id) + `,"error":` + e + `}}`
}

// ServeHTTP: a minimal streamable-HTTP server (JSON responses only, no standalone stream).
type ngPeerHTTP struct {
	p ngPeer
}

func (h *ngPeerHTTP) ServeHTTP(w http.ResponseWriter, req *http.Request) {
	switch req.Method {
	case http.MethodGet:
		w.Header().Set("Allow", "POST, DELETE")
		http.Error(w, "no standalone stream", http.StatusMethodNotAllowed)
		return
	case http.MethodDelete:
		w.WriteHeader(http.StatusNoContent)
		return
	}
	body, _ := io.ReadAll(req.Body)
	var msg struct {
		ID     json.RawMessage `json:"id"`
		Method string          `json:"method"`
		Params json.RawMessage `json:"params"`
	}
	if err := json.Unmarshal(body, &msg); err != nil {
		http.Error(w, "bad json", http.StatusBadRequest)
		return
	}
	if len(msg.ID) == 0 || msg.Method == "" {
		w.WriteHeader(http.StatusAccepted) // a notification or a response
		return
	}
	r := h.p.answer(msg.Method, msg.Params)
	if r.text != "" {
		http.Error(w, r.text, r.status)
		return
	}
	w.Header().Set("Content-Type", "application/json")
	if msg.Method == "initialize" && r.result != "" {
		w.Header().Set("Mcp-Session-Id", "foreign-session")
	}
	w.WriteHeader(r.status)
	io.WriteString(w, r.body(msg.ID))
}

// serveConn: the same peer on the server end of an in-memory transport.
func (p ngPeer) serveConn(ctx context.Context, conn Connection, done chan<- struct{}) {
	defer close(done)
	for {
		msg, err := conn.Read(ctx)
		if err != nil {
			return
		}
		req, ok := msg.(*jsonrpc.Request)
		if !ok || !req.ID.IsValid() {
			continue
		}
		r := p.answer(req.Method, req.Params)
		resp := &jsonrpc.Response{ID: req.ID}
		if r.result != "" {
			resp.Result = json.RawMessage(r.result)
		} else {
			e := &jsonrpc.Error{Code: int64(r.code), Message: "foreign peer error"}
			if r.data != "" {
				e.Data = json.RawMessage(r.data)
			}
			resp.Error = e
		}
		if err := conn.Write(ctx, resp); err != nil {
			return
		}
	}
}

// ngSession: connect the real client through ct, then list and call.
func ngSession(ctx context.Context, client *Client, copts *ClientSessionOptions, ct Transport) (obs string, tags []string, cs *ClientSession) {
	cs, err := client.Connect(ctx, ct, copts)
	if err != nil {
		return "error", []string{"connect-error", "err-" + ngErrClass(err)}, nil
	}
	ver := ""
	if r := cs.InitializeResult(); r != nil {
		ver = r.ProtocolVersion
	}
	list, call := "ok", "ok"
	lr, err := cs.ListTools(ctx, nil)
	if err != nil {
		list = "err"
	} else if len(lr.Tools) != 1 || lr.Tools[0].Name != "echo" {
		list = "wrong"
	}
	cr, err := cs.CallTool(ctx, &CallToolParams{Name: "echo"})
	if err != nil {
		call = "err"
	} else if len(cr.Content) != 1 {
		call = "wrong"
	} else if tc, ok := cr.Content[0].(*TextContent); !ok || tc.Text != "pong" {
		call = "wrong"
	}
	return fmt.Sprintf("ok %s %s %s", hxs(ver), list, call), []string{"connected", "ver-" + ver}, cs
}

type ngForeignCell struct {
	req, carrier string
	peer         ngPeer
}

func (c ngForeignCell) op() string {
	return fmt.Sprintf("foreign %s %s %s %s", c.req, c.carrier, c.peer.disc, c.peer.init)
}

func ngRunForeign(c ngForeignCell) (obs string, tags []string) {
	defer func() {
		if r := recover(); r != nil {
			obs = "panic"
			tags = append(tags, "panic")
		}
	}()
	ctx, cancel := context.WithTimeout(context.Background(), 20*time.Second)
	defer cancel()
	var ct Transport
	switch c.carrier {
	case "mem":
		a, b := NewInMemoryTransports()
		sconn, err := b.Connect(ctx)
		if err != nil {
			return "error server-connect", []string{"server-connect-failed"}
		}
		done := make(chan struct{})
		go c.peer.serveConn(ctx, sconn, done)
		defer func() { cancel(); sconn.Close(); <-done }()
		ct = a
	case "http":
		ts := httptest.NewServer(&ngPeerHTTP{p: c.peer})
		defer func() { ts.CloseClientConnections(); ts.Close() }()
		hc := &http.Client{Transport: &http.Transport{}}
		defer hc.CloseIdleConnections()
		ct = &StreamableClientTransport{Endpoint: ts.URL, HTTPClient: hc}
	default:
		return "bad-op", nil
	}
	obs, tags, cs := ngSession(ctx, NewClient(&Implementation{Name: "verif-client", Version: "1"}, nil), ngOpts(c.req), ct)
	if cs != nil {
		cs.Close()
	}
	tags = append(tags, "foreign", "carrier-"+c.carrier, "disc-"+ngDiscClass(c.peer.disc), "init-"+ngInitClass(c.peer.init), "req-"+ngReqClass(c.req))
	return obs, tags
}

func ngDiscClass(d string) string {
	switch d[0] {
	case 'h':
		if strings.HasSuffix(d, "t") {
			return "http-" + strings.TrimSuffix(d[1:], "t") + "-text"
		}
		return "http-status-jsonrpc-error"
	case 'e':
		return "jsonrpc-error-" + d[1:]
	case 'u', 'U':
		return "version-checking-modern"
	case 'x':
		return "check-and-result-disagree"
	case 'n':
		return "always-unsupported-with-data"
	}
	return "lax-modern"
}

func ngInitClass(i string) string {
	if !strings.HasPrefix(i, "a") {
		return i
	}
	v := ngUnhex(i[1:])
	for _, s := range supportedProtocolVersions {
		if s == v {
			return "supported"
		}
	}
	if v >= supportedProtocolVersions[len(supportedProtocolVersions)-1] && v <= latestProtocolVersion {
		return "unknown-in-range"
	}
	return "unknown-out-of-range"
}

func ngHexList(vs ...string) string {
	if len(vs) == 0 {
		return "-"
	}
	var hs []string
	for _, v := range vs {
		hs = append(hs, hxs(v))
	}
	return strings.Join(hs, ".")
}

func ngForeignCells() []ngForeignCell {
	reqs := []string{"default"}
	for _, v := range []string{protocolVersion20260728, protocolVersion20251125, protocolVersion20250618, protocolVersion20241105,
		"2024-01-01", "2025-08-01", "2027-01-01", "2099-12-31", "a\nb", "2026-07-28 "} {
		reqs = append(reqs, "s"+hxs(v))
	}
	lists := []string{
		ngHexList(protocolVersion20260728),
		ngHexList(protocolVersion20260728, protocolVersion20251125),
		ngHexList("2099-12-31", protocolVersion20260728),
		ngHexList("2099-12-31", "2027-01-01"),
		ngHexList(protocolVersion20251125, protocolVersion20250618),
		ngHexList(),
	}
	var both, httpOnly []string
	for _, code := range []string{"32601", "32600", "32602", "32603", "32022", "32000"} {
		both = append(both, "e"+code)
	}
	for _, l := range lists {
		both = append(both, "u"+l, "r"+l)
		httpOnly = append(httpOnly, "U"+l)
	}
	both = append(both,
		"x"+ngHexList(protocolVersion20260728, protocolVersion20251125, protocolVersion20250618)+":"+ngHexList(protocolVersion20251125, protocolVersion20250618),
		"x"+ngHexList(protocolVersion20260728)+":"+ngHexList("2099-12-31"),
		"x"+ngHexList(protocolVersion20260728)+":-",
		"x"+ngHexList(protocolVersion20251125)+":"+ngHexList(protocolVersion20260728),
		"n"+ngHexList(protocolVersion20260728),
		"n"+ngHexList("2099-12-31", protocolVersion20251125))
	for _, st := range []string{"400", "401", "403", "404", "405", "406", "415", "422", "429", "500", "501", "502", "503"} {
		httpOnly = append(httpOnly, "h"+st+"t")
	}
	httpOnly = append(httpOnly, "h404e32601", "h400e32601", "h400e32600", "h400e32022", "h405e32601", "h500e32603", "h501e32601")
	inits := []string{"echo", "err"}
	for _, v := range supportedProtocolVersions {
		inits = append(inits, "a"+hxs(v))
	}
	for _, v := range []string{"2025-01-15", "2025-06-18-draft", "2026-03-01", "2023-12-31", "2099-12-31", "", "zzz", "2025-11-25 ", "2025-11-2", "DRAFT-2025-v2"} {
		inits = append(inits, "a"+hxs(v))
	}
	var cells []ngForeignCell
	for _, r := range reqs {
		for _, in := range inits {
			for _, d := range both {
				cells = append(cells, ngForeignCell{r, "mem", ngPeer{d, in}}, ngForeignCell{r, "http", ngPeer{d, in}})
			}
			for _, d := range httpOnly {
				cells = append(cells, ngForeignCell{r, "http", ngPeer{d, in}})
			}
		}
	}
	return cells
}

// ---------------------------------------------------------------------------------- sequences

type ngStep struct {
	cell ngCell
	hold bool
}

func (s ngStep) op() string {
	h := "0"
	if s.hold {
		h = "1"
	}
	return "step" + strings.TrimPrefix(s.cell.op(), "connect") + " " + h
}

// ngShared is ONE Server value and what a case keeps alive around it.
type ngShared struct {
	srv      *Server
	ctx      context.Context
	http     map[string]*httptest.Server // one endpoint per streamable configuration / SSE stack
	handlers []http.Handler
	cleanup  []func()
	// the client side of the case: ONE Client value, and ONE options value per requested-version token
	// (a caller that keeps its ClientSessionOptions and reconnects with it)
	client *Client
	opts   map[string]*ClientSessionOptions
}

func (sh *ngShared) optsFor(req string) *ClientSessionOptions {
	if o, ok := sh.opts[req]; ok {
		return o
	}
	o := ngOpts(req)
	sh.opts[req] = o
	return o
}

func ngNewServer() *Server {
	srv := NewServer(&Implementation{Name: "verif", Version: "1"}, nil)
	srv.AddTool(&Tool{Name: "echo", InputSchema: map[string]any{"type": "object"}},
		func(context.Context, *CallToolRequest) (*CallToolResult, error) {
			return &CallToolResult{Content: []Content{&TextContent{Text: "pong"}}}, nil
		})
	return srv
}

func ngNewShared(ctx context.Context) *ngShared {
	return &ngShared{srv: ngNewServer(), ctx: ctx, http: map[string]*httptest.Server{},
		client: NewClient(&Implementation{Name: "verif-client", Version: "1"}, nil), opts: map[string]*ClientSessionOptions{}}
}

func (sh *ngShared) close() {
	for i := len(sh.cleanup) - 1; i >= 0; i-- {
		sh.cleanup[i]()
	}
	for _, h := range sh.handlers {
		if st, ok := h.(*ngStateful); ok {
			st.closeAll()
		}
	}
	for _, ts := range sh.http {
		ts.CloseClientConnections()
		ts.Close()
	}
}

func (sh *ngShared) endpoint(key string, mk func() http.Handler) *httptest.Server {
	if ts, ok := sh.http[key]; ok {
		return ts
	}
	h := mk()
	sh.handlers = append(sh.handlers, h)
	ts := httptest.NewServer(h)
	sh.http[key] = ts
	return ts
}

// step connects a new client to the shared Server through the step's transport configuration.
func (sh *ngShared) step(s ngStep) (obs string, tags []string) {
	defer func() {
		if r := recover(); r != nil {
			obs = "panic"
			tags = append(tags, "panic")
		}
	}()
	c := s.cell
	ct, after, _, errObs := ngServerSide(sh.ctx, sh.srv, c, sh.endpoint)
	if errObs == "bad-op" {
		return errObs, nil
	}
	if errObs != "" {
		for _, f := range after {
			f()
		}
		return errObs, []string{"server-connect-failed"}
	}
	// the server-side closers run last
	for i, j := 0, len(after)-1; i < j; i, j = i+1, j-1 {
		after[i], after[j] = after[j], after[i]
	}
	obs, tags, cs := ngSession(sh.ctx, sh.client, sh.optsFor(c.req), ct)
	if cs != nil {
		after = append([]func(){func() { cs.Close() }}, after...)
	}
	fin := func() {
		for _, f := range after {
			f()
		}
	}
	if s.hold {
		sh.cleanup = append(sh.cleanup, fin)
	} else {
		fin()
	}
	tags = append(tags, "seq", "kind-"+c.kind, "req-"+ngReqClass(c.req))
	tags = append(tags, ngSubsetTags(c.subset)...)
	return obs, tags
}

var ngKinds = []string{"mem", "pipe", "sse", "stateful", "stateless"}

// ngSeqCases: every ordered pair of kinds x a 3x3 grid of requested versions, and every ordered
// triple of kinds `rounds` times with seeded requested versions / advertised subsets / HTTP options /
// hold flags.
func ngSeqCases(rounds int) [][]ngStep {
	var cases [][]ngStep
	grid := []string{"default", "empty", "s" + hxs(protocolVersion20251125), "s" + hxs("2027-01-01")}
	for _, k1 := range ngKinds {
		for _, k2 := range ngKinds {
			for _, r1 := range grid {
				for _, r2 := range grid {
					cases = append(cases, []ngStep{
						{ngCell{req: r1, kind: k1, subset: "none"}, true},
						{ngCell{req: r2, kind: k2, subset: "none"}, true},
					})
				}
			}
		}
	}
	rng := verifRng(71)
	reqs := []string{"default", "empty", "empty", "s" + hxs(protocolVersion20260728), "s" + hxs(protocolVersion20251125), "s" + hxs(protocolVersion20250618),
		"s" + hxs(protocolVersion20241105), "s" + hxs("2027-01-01"), "s" + hxs("2024-01-01"), "s" + hxs("2026-07-28x")}
	subs := ngSubsets()
	mk := func(kind string) ngStep {
		c := ngCell{req: reqs[rng.Intn(len(reqs))], kind: kind, subset: "none"}
		wraps := ngWrapSubsets()
		switch kind {
		case "mem", "pipe", "sse":
			switch rng.Intn(4) {
			case 0, 1:
				c.subset = subs[rng.Intn(len(subs))]
			case 2:
				c.subset = wraps[rng.Intn(len(wraps))]
			}
		default:
			c.json = rng.Intn(2) == 0
			c.store = rng.Intn(3) == 0
			if kind == "stateful" && rng.Intn(3) == 0 { // the hand-written handler with a wrapped per-session transport
				c.subset = append(wraps, "m11111", "m01111", "m00100")[rng.Intn(len(wraps)+3)]
			}
		}
		return ngStep{c, rng.Intn(3) != 0}
	}
	for r := 0; r < rounds; r++ {
		for _, k1 := range ngKinds {
			for _, k2 := range ngKinds {
				for _, k3 := range ngKinds {
					cs := []ngStep{mk(k1), mk(k2), mk(k3)}
					if rng.Intn(4) == 0 { // a longer history now and then
						cs = append(cs, mk(ngKinds[rng.Intn(len(ngKinds))]), mk(ngKinds[rng.Intn(len(ngKinds))]))
					}
					cases = append(cases, cs)
				}
			}
		}
	}
	return cases
}

// ---------------------------------------------------------------------------------- running ops

type ngRec struct {
	op, obs string
	tags    []string
}

// ngRunOps runs the ops of ONE case (after its reset): connect / foreign are self-contained,
// step ops share the case's Server.
func ngRunOps(ops []string) []ngRec {
	ctx, cancel := context.WithTimeout(context.Background(), 60*time.Second)
	defer cancel()
	var sh *ngShared
	defer func() {
		if sh != nil {
			sh.close()
		}
	}()
	var out []ngRec
	for _, ln := range ops {
		toks := strings.Fields(ln)
		switch {
		case (len(toks) == 6 || len(toks) == 7) && toks[0] == "connect":
			c, _ := ngParse(toks)
			obs, tags := ngRun(c)
			out = append(out, ngRec{c.op(), obs, tags})
		case len(toks) == 5 && toks[0] == "foreign":
			c := ngForeignCell{toks[1], toks[2], ngPeer{toks[3], toks[4]}}
			obs, tags := ngRunForeign(c)
			out = append(out, ngRec{c.op(), obs, tags})
		case len(toks) == 7 && toks[0] == "step":
			if sh == nil {
				sh = ngNewShared(ctx)
			}
			s := ngStep{ngCell{req: toks[1], kind: toks[2], subset: toks[3], json: toks[4] == "1", store: toks[5] == "1"}, toks[6] == "1"}
			obs, tags := sh.step(s)
			out = append(out, ngRec{s.op(), obs, tags})
		default:
			out = append(out, ngRec{ln, "bad-op", nil})
		}
	}
	return out
}

// ngRunOpsFile: an .ops file is a list of cases separated by `reset` lines (a replay is one case).
func ngRunOpsFile(t *testing.T, out *verifOut, path, cs string) {
	b, err := os.ReadFile(path)
	if err != nil {
		t.Fatal(err)
	}
	// a case = a maximal run of `step` lines (they share one Server); `reset` ends it; every other op is
	// self-contained and forms a case of its own
	var cases [][]string
	var cur []string
	flush := func() {
		if len(cur) > 0 {
			cases = append(cases, cur)
		}
		cur = nil
	}
	for _, ln := range strings.Split(string(b), "\n") {
		ln = strings.TrimSpace(ln)
		if ln == "" || strings.HasPrefix(ln, "#") {
			continue
		}
		if ln == "reset" {
			flush()
			continue
		}
		if !strings.HasPrefix(ln, "step ") {
			flush()
			cases = append(cases, []string{ln})
			continue
		}
		cur = append(cur, ln)
	}
	flush()
	for i, ops := range cases {
		id := cs
		if len(cases) > 1 {
			id = fmt.Sprintf("%s-%d", cs, i)
		}
		out.line(id, "reset", "ok", "reset")
		for _, r := range ngRunOps(ops) {
			out.line(id, r.op, r.obs, append(r.tags, "corpus")...)
		}
	}
}

// ngReplayOrCorpus handles VERIF_REPLAY (returns true: nothing else to run) and VERIF_CORPUS.
func ngReplayOrCorpus(t *testing.T, out *verifOut) bool {
	if p := os.Getenv("VERIF_REPLAY"); p != "" {
		ngRunOpsFile(t, out, p, "replay")
		return true
	}
	if p := os.Getenv("VERIF_CORPUS"); p != "" {
		ents, _ := os.ReadDir(p)
		var names []string
		for _, e := range ents {
			if strings.HasSuffix(e.Name(), ".ops") {
				names = append(names, e.Name())
			}
		}
		sort.Strings(names)
		for _, n := range names {
			ngRunOpsFile(t, out, p+"/"+n, "corpus-"+strings.TrimSuffix(n, ".ops"))
		}
	}
	return false
}

// ngParallel runs n independent jobs, 8 at a time.
func ngParallel(n int, job func(i int)) {
	var wg sync.WaitGroup
	sem := make(chan struct{}, 8)
	for i := 0; i < n; i++ {
		wg.Add(1)
		sem <- struct{}{}
		go func(i int) {
			defer wg.Done()
			defer func() { <-sem }()
			job(i)
		}(i)
	}
	wg.Wait()
}

// TestVerifNegotiateSeq: the sequence stream.
func TestVerifNegotiateSeq(t *testing.T) {
	out := verifOpen(t)
	defer out.close()
	if ngReplayOrCorpus(t, out) {
		return
	}
	cases := ngSeqCases(verifN(1, 8))
	rng := verifRng(73)
	rng.Shuffle(len(cases), func(i, j int) { cases[i], cases[j] = cases[j], cases[i] })
	results := make([][]ngRec, len(cases))
	ngParallel(len(cases), func(i int) {
		ops := make([]string, len(cases[i]))
		for j, s := range cases[i] {
			ops[j] = s.op()
		}
		results[i] = ngRunOps(ops)
	})
	for i := range cases {
		cs := fmt.Sprintf("q%d", i)
		out.line(cs, "reset", "ok", "reset")
		for j, r := range results[i] {
			out.line(cs, r.op, r.obs, append(r.tags, fmt.Sprintf("pos-%d", j))...)
		}
	}
}
