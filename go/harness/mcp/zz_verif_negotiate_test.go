// E4 correspondence harness (C07): the whole configuration matrix of version negotiation on the real
// code. One case per cell: requested version x transport kind x advertised subset x HTTP options;
// every connected session must ListTools and CallTool.
package mcp

import (
	"context"
	"encoding/hex"
	"errors"
	"fmt"
	"io"
	"net/http"
	"net/http/httptest"
	"strings"
	"sync"
	"testing"
	"time"

	"github.com/modelcontextprotocol/go-sdk/jsonrpc"
)

// ngWrap is a server transport that advertises only a subset of protocol versions
// (it implements ProtocolVersionSupporter on top of whatever the inner transport says).
type ngWrap struct {
	inner Transport
	mask  map[string]bool
}

func (w *ngWrap) Connect(ctx context.Context) (Connection, error) { return w.inner.Connect(ctx) }
func (w *ngWrap) SupportsProtocolVersion(v string) bool {
	if pvs, ok := w.inner.(ProtocolVersionSupporter); ok && !pvs.SupportsProtocolVersion(v) {
		return false
	}
	return w.mask[v]
}

// ngSSE is SSEHandler's session handling with the per-session transport wrapped by ngWrap.
type ngSSE struct {
	srv  *Server
	mask map[string]bool
	mu   sync.Mutex
	sess map[string]*SSEServerTransport
	n    int
}

func (h *ngSSE) ServeHTTP(w http.ResponseWriter, req *http.Request) {
	sessionID := req.URL.Query().Get("sessionid")
	if req.Method == http.MethodPost {
		h.mu.Lock()
		s := h.sess[sessionID]
		h.mu.Unlock()
		if s == nil {
			http.Error(w, "session not found", http.StatusNotFound)
			return
		}
		s.ServeHTTP(w, req)
		return
	}
	w.Header().Set("Content-Type", "text/event-stream")
	w.Header().Set("Cache-Control", "no-cache")
	h.mu.Lock()
	h.n++
	sessionID = fmt.Sprintf("s%d", h.n)
	h.mu.Unlock()
	endpoint, _ := req.URL.Parse("?sessionid=" + sessionID)
	tr := &SSEServerTransport{Endpoint: endpoint.RequestURI(), Response: w}
	h.mu.Lock()
	h.sess[sessionID] = tr
	h.mu.Unlock()
	ss, err := h.srv.Connect(req.Context(), &ngWrap{inner: tr, mask: h.mask}, nil)
	if err != nil {
		http.Error(w, "connection failed", http.StatusInternalServerError)
		return
	}
	defer ss.Close()
	select {
	case <-req.Context().Done():
	case <-tr.done:
	}
}

type ngCell struct {
	req    string // "default" or s<hex>
	kind   string // mem pipe sse stateful stateless statefulnoid (stateful, the server assigns no session IDs)
	subset string // "none" or m<5 bits over supportedProtocolVersions>
	json   bool
	store  bool
}

func (c ngCell) op() string {
	b := func(x bool) string {
		if x {
			return "1"
		}
		return "0"
	}
	return fmt.Sprintf("connect %s %s %s %s %s", c.req, c.kind, c.subset, b(c.json), b(c.store))
}

func ngMask(subset string) map[string]bool {
	if subset == "none" {
		return nil
	}
	m := map[string]bool{}
	for i, v := range supportedProtocolVersions {
		if i+1 < len(subset) && subset[i+1] == '1' {
			m[v] = true
		}
	}
	return m
}

func ngErrClass(err error) string {
	var je *jsonrpc.Error
	if errors.As(err, &je) {
		return fmt.Sprintf("rpc%d", je.Code)
	}
	var ue unsupportedProtocolVersionError
	if errors.As(err, &ue) {
		return "unsupported-version"
	}
	if errors.Is(err, context.DeadlineExceeded) {
		return "timeout"
	}
	return "other"
}

// ngRun executes one cell on the real code and returns the observation and tags.
func ngRun(c ngCell) (obs string, tags []string) {
	defer func() {
		if r := recover(); r != nil {
			obs = "panic"
			tags = append(tags, "panic")
		}
	}()
	var sopts *ServerOptions
	if c.kind == "statefulnoid" {
		// a stateful endpoint whose server hands out no session IDs (the handler's "ephemeral session" branch)
		sopts = &ServerOptions{GetSessionID: func() string { return "" }}
	}
	srv := NewServer(&Implementation{Name: "verif", Version: "1"}, sopts)
	srv.AddTool(&Tool{Name: "echo", InputSchema: map[string]any{"type": "object"}},
		func(context.Context, *CallToolRequest) (*CallToolResult, error) {
			return &CallToolResult{Content: []Content{&TextContent{Text: "pong"}}}, nil
		})
	ctx, cancel := context.WithTimeout(context.Background(), 20*time.Second)
	defer cancel()
	mask := ngMask(c.subset)
	var ct Transport
	var cleanup []func()
	defer func() {
		for i := len(cleanup) - 1; i >= 0; i-- {
			cleanup[i]()
		}
	}()
	wrap := func(t Transport) Transport {
		if mask == nil {
			return t
		}
		return &ngWrap{inner: t, mask: mask}
	}
	switch c.kind {
	case "mem":
		a, b := NewInMemoryTransports()
		ss, err := srv.Connect(ctx, wrap(b), nil)
		if err != nil {
			return "error server-connect", []string{"server-connect-failed"}
		}
		cleanup = append(cleanup, func() { ss.Close() })
		ct = a
	case "pipe":
		r1, w1 := io.Pipe()
		r2, w2 := io.Pipe()
		ss, err := srv.Connect(ctx, wrap(&IOTransport{Reader: r1, Writer: w2}), nil)
		if err != nil {
			return "error server-connect", []string{"server-connect-failed"}
		}
		cleanup = append(cleanup, func() { ss.Close(); r1.Close(); r2.Close(); w1.Close(); w2.Close() })
		ct = &IOTransport{Reader: r2, Writer: w1}
	case "sse":
		var h http.Handler
		if mask == nil {
			h = NewSSEHandler(func(*http.Request) *Server { return srv }, nil)
		} else {
			h = &ngSSE{srv: srv, mask: mask, sess: map[string]*SSEServerTransport{}}
		}
		ts := httptest.NewServer(h)
		cleanup = append(cleanup, func() { ts.CloseClientConnections(); ts.Close() })
		hc := &http.Client{Transport: &http.Transport{}}
		cleanup = append(cleanup, hc.CloseIdleConnections)
		ct = &SSEClientTransport{Endpoint: ts.URL, HTTPClient: hc}
	case "stateful", "stateless", "statefulnoid":
		opts := &StreamableHTTPOptions{Stateless: c.kind == "stateless", JSONResponse: c.json}
		if c.store {
			opts.EventStore = NewMemoryEventStore(nil)
		}
		ts := httptest.NewServer(NewStreamableHTTPHandler(func(*http.Request) *Server { return srv }, opts))
		cleanup = append(cleanup, func() { ts.CloseClientConnections(); ts.Close() })
		// a private connection pool: the shared default one may hand out a stale connection to a
		// port that an earlier cell's test server used
		hc := &http.Client{Transport: &http.Transport{}}
		cleanup = append(cleanup, hc.CloseIdleConnections)
		ct = &StreamableClientTransport{Endpoint: ts.URL, HTTPClient: hc}
	default:
		return "bad-op", nil
	}
	client := NewClient(&Implementation{Name: "verif-client", Version: "1"}, nil)
	var copts *ClientSessionOptions
	if c.req != "default" {
		copts = &ClientSessionOptions{ProtocolVersion: ngUnhex(c.req[1:])}
	}
	cs, err := client.Connect(ctx, ct, copts)
	if err != nil {
		return "error", []string{"connect-error", "err-" + ngErrClass(err)}
	}
	defer cs.Close()
	ver := ""
	if r := cs.InitializeResult(); r != nil {
		ver = r.ProtocolVersion
	}
	list, call := "ok", "ok"
	lr, err := cs.ListTools(ctx, nil)
	if err != nil {
		list = "err"
	} else if len(lr.Tools) != 1 || lr.Tools[0].Name != "echo" {
		list = "wrong"
	}
	cr, err := cs.CallTool(ctx, &CallToolParams{Name: "echo"})
	if err != nil {
		call = "err"
	} else if len(cr.Content) != 1 {
		call = "wrong"
	} else if tc, ok := cr.Content[0].(*TextContent); !ok || tc.Text != "pong" {
		call = "wrong"
	}
	return fmt.Sprintf("ok %s %s %s", hxs(ver), list, call), []string{"connected", "ver-" + ver}
}

func ngRequested() []string {
	out := []string{"default"}
	for _, v := range supportedProtocolVersions {
		out = append(out, "s"+hxs(v))
	}
	// unknown older / in between / newer, the neighbours of the 2026-07-28 threshold, and odd strings
	for _, v := range []string{"2024-01-01", "2025-08-01", "2027-01-01", "2026-07-27", "2026-07-29", "2026-07-28x", "1", "zzz", " ", "2025-11-25 ", "2026-07-28 ", "\t2027", "a\nb", "a\x7fb", "é"} {
		out = append(out, "s"+hxs(v))
	}
	return out
}

func ngSubsets() []string {
	n := len(supportedProtocolVersions)
	var out []string
	for m := 0; m < 1<<uint(n); m++ {
		s := "m"
		for i := 0; i < n; i++ {
			if m&(1<<uint(n-1-i)) != 0 {
				s += "1"
			} else {
				s += "0"
			}
		}
		out = append(out, s)
	}
	return out
}

func ngCells() []ngCell {
	var cells []ngCell
	for _, req := range ngRequested() {
		for _, kind := range []string{"mem", "pipe"} {
			cells = append(cells, ngCell{req: req, kind: kind, subset: "none"})
			for _, s := range ngSubsets() {
				cells = append(cells, ngCell{req: req, kind: kind, subset: s})
			}
		}
		cells = append(cells, ngCell{req: req, kind: "sse", subset: "none"})
		for _, s := range ngSubsets() {
			cells = append(cells, ngCell{req: req, kind: "sse", subset: s})
		}
		for _, kind := range []string{"stateful", "stateless", "statefulnoid"} {
			for _, j := range []bool{false, true} {
				for _, st := range []bool{false, true} {
					cells = append(cells, ngCell{req: req, kind: kind, subset: "none", json: j, store: st})
				}
			}
		}
	}
	return cells
}

func ngParse(toks []string) (ngCell, bool) {
	if len(toks) != 6 || toks[0] != "connect" {
		return ngCell{}, false
	}
	return ngCell{req: toks[1], kind: toks[2], subset: toks[3], json: toks[4] == "1", store: toks[5] == "1"}, true
}

func TestVerifNegotiate(t *testing.T) {
	out := verifOpen(t)
	defer out.close()
	if ngReplayOrCorpus(t, out) {
		return
	}
	// the matrix (SDK server cells and foreign-peer cells) is finite and enumerated completely; the
	// seed only permutes the order
	var ops []string
	for _, c := range ngCells() {
		ops = append(ops, c.op())
	}
	for _, c := range ngForeignCells() {
		ops = append(ops, c.op())
	}
	rng := verifRng(7)
	rng.Shuffle(len(ops), func(i, j int) { ops[i], ops[j] = ops[j], ops[i] })
	results := make([]ngRec, len(ops))
	ngParallel(len(ops), func(i int) { results[i] = ngRunOps([]string{ops[i]})[0] })
	for i, r := range results {
		cs := fmt.Sprintf("c%d", i)
		out.line(cs, "reset", "ok", "reset")
		tags := r.tags
		if c, ok := ngParse(strings.Fields(r.op)); ok {
			tags = append(tags, "kind-"+c.kind, "req-"+ngReqClass(c.req))
			if c.subset != "none" {
				tags = append(tags, "subset")
			}
		}
		out.line(cs, r.op, r.obs, tags...)
	}
}

func ngUnhex(s string) string {
	b, _ := hex.DecodeString(s)
	return string(b)
}

func ngReqClass(req string) string {
	if req == "default" {
		return "default"
	}
	v := ngUnhex(req[1:])
	for _, s := range supportedProtocolVersions {
		if s == v {
			return "supported"
		}
	}
	if v >= protocolVersion20260728 {
		return "unknown-high"
	}
	return "unknown-low"
}
