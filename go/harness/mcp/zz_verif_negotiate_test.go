// E4 correspondence harness (C07): the whole configuration matrix of version negotiation on the real
// code. One case per cell: requested version x transport kind x advertised subset x HTTP options;
// every connected session must ListTools and CallTool.
package mcp

import (
	"context"
	"encoding/hex"
	"errors"
	"fmt"
	"io"
	"log/slog"
	"net/http"
	"net/http/httptest"
	"strings"
	"sync"
	"testing"
	"time"

	"github.com/modelcontextprotocol/go-sdk/jsonrpc"
)

// ngWrap is a server transport that advertises only a subset of protocol versions
// (it implements ProtocolVersionSupporter on top of whatever the inner transport says): a user-defined
// wrapper that DOES forward the inner transport's answer. delay > 0: answering takes that long (a
// wrapper that consults something slow).
type ngWrap struct {
	inner Transport
	mask  map[string]bool
	delay time.Duration
}

func (w *ngWrap) Connect(ctx context.Context) (Connection, error) { return w.inner.Connect(ctx) }
func (w *ngWrap) SupportsProtocolVersion(v string) bool {
	if w.delay > 0 {
		time.Sleep(w.delay)
	}
	if pvs, ok := w.inner.(ProtocolVersionSupporter); ok && !pvs.SupportsProtocolVersion(v) {
		return false
	}
	return w.mask[v]
}

// ngSlow is how long the slow user code of the `w` / `g` modes takes per call (real time: the HTTP
// kinds run on real sockets).
const ngSlow = 15 * time.Millisecond

// ngStack builds the server's transport stack around t from the subset token:
//
//	none        t
//	m<bits>     ngWrap{t}                          a forwarding user wrapper advertising a subset
//	L           LoggingTransport{t}                the SDK's own wrapper
//	Lm<bits>    LoggingTransport{ngWrap{t}}
//	m<bits>L    ngWrap{LoggingTransport{t}}
func ngStack(t Transport, subset string, delay time.Duration) Transport {
	if subset == "none" {
		return t
	}
	outerLog := strings.HasPrefix(subset, "L")
	innerLog := !outerLog && strings.HasSuffix(subset, "L")
	m := strings.TrimSuffix(strings.TrimPrefix(subset, "L"), "L")
	if innerLog {
		t = &LoggingTransport{Transport: t, Writer: io.Discard}
	}
	if m != "" {
		t = &ngWrap{inner: t, mask: ngMask(m), delay: delay}
	}
	if outerLog {
		t = &LoggingTransport{Transport: t, Writer: io.Discard}
	}
	return t
}

// ngSlowSink is a slog.Handler standing for a slow log sink: every record takes ngSlow.
type ngSlowSink struct{}

func (ngSlowSink) Enabled(context.Context, slog.Level) bool { return true }
func (h ngSlowSink) WithAttrs([]slog.Attr) slog.Handler      { return h }
func (h ngSlowSink) WithGroup(string) slog.Handler           { return h }
func (ngSlowSink) Handle(context.Context, slog.Record) error { time.Sleep(ngSlow); return nil }

// ngSSE is SSEHandler's session handling with the per-session transport wrapped by the stack.
type ngSSE struct {
	srv  *Server
	wrap func(Transport) Transport
	mu   sync.Mutex
	sess map[string]*SSEServerTransport
	n    int
}

func (h *ngSSE) ServeHTTP(w http.ResponseWriter, req *http.Request) {
	sessionID := req.URL.Query().Get("sessionid")
	if req.Method == http.MethodPost {
		h.mu.Lock()
		s := h.sess[sessionID]
		h.mu.Unlock()
		if s == nil {
			http.Error(w, "session not found", http.StatusNotFound)
			return
		}
		s.ServeHTTP(w, req)
		return
	}
	w.Header().Set("Content-Type", "text/event-stream")
	w.Header().Set("Cache-Control", "no-cache")
	h.mu.Lock()
	h.n++
	sessionID = fmt.Sprintf("s%d", h.n)
	h.mu.Unlock()
	endpoint, _ := req.URL.Parse("?sessionid=" + sessionID)
	tr := &SSEServerTransport{Endpoint: endpoint.RequestURI(), Response: w}
	h.mu.Lock()
	h.sess[sessionID] = tr
	h.mu.Unlock()
	ss, err := h.srv.Connect(req.Context(), h.wrap(tr), nil)
	if err != nil {
		http.Error(w, "connection failed", http.StatusInternalServerError)
		return
	}
	defer ss.Close()
	select {
	case <-req.Context().Done():
	case <-tr.done:
	}
}

// ngStateful is a hand-written stateful streamable HTTP handler (what a user writes who wants the
// per-session StreamableServerTransport wrapped): one transport and one Server.Connect per session,
// requests routed by Mcp-Session-Id.
type ngStateful struct {
	srv   *Server
	wrap  func(Transport) Transport
	json  bool
	store EventStore
	mu    sync.Mutex
	sess  map[string]*ngStatefulSession
	n     int
}

type ngStatefulSession struct {
	t  *StreamableServerTransport
	ss *ServerSession
}

func (h *ngStateful) ServeHTTP(w http.ResponseWriter, req *http.Request) {
	if sid := req.Header.Get(sessionIDHeader); sid != "" {
		h.mu.Lock()
		s := h.sess[sid]
		h.mu.Unlock()
		if s == nil {
			http.Error(w, "session not found", http.StatusNotFound)
			return
		}
		if req.Method == http.MethodDelete {
			s.ss.Close()
			h.mu.Lock()
			delete(h.sess, sid)
			h.mu.Unlock()
			w.WriteHeader(http.StatusNoContent)
			return
		}
		s.t.ServeHTTP(w, req)
		return
	}
	if req.Method != http.MethodPost {
		http.Error(w, "Bad Request: session ID required", http.StatusBadRequest)
		return
	}
	h.mu.Lock()
	h.n++
	sid := fmt.Sprintf("ng%d", h.n)
	h.mu.Unlock()
	t := &StreamableServerTransport{SessionID: sid, EventStore: h.store, jsonResponse: h.json}
	ss, err := h.srv.Connect(context.WithoutCancel(req.Context()), h.wrap(t), nil)
	if err != nil {
		http.Error(w, "failed connection", http.StatusInternalServerError)
		return
	}
	h.mu.Lock()
	h.sess[sid] = &ngStatefulSession{t, ss}
	h.mu.Unlock()
	defer func() {
		// as StreamableHTTPHandler: a session that the first request did not initialize is dropped
		if ss.InitializeParams() == nil {
			ss.Close()
			h.mu.Lock()
			delete(h.sess, sid)
			h.mu.Unlock()
		}
	}()
	t.ServeHTTP(w, req)
}

func (h *ngStateful) closeAll() {
	h.mu.Lock()
	defer h.mu.Unlock()
	for _, s := range h.sess {
		s.ss.Close()
	}
	h.sess = map[string]*ngStatefulSession{}
}

type ngCell struct {
	req    string // "default" or s<hex>
	kind   string // mem pipe sse stateful stateless statefulnoid (stateful, the server assigns no session IDs)
	subset string // "none" or m<5 bits over supportedProtocolVersions>
	json   bool
	store  bool
	// mode: "" | "w" the wrapper's SupportsProtocolVersion is slow | "g" the server logs to a slow sink;
	// with either, Server.Connect runs while the client is already connecting (mem / pipe: in its own
	// goroutine; SSE always does)
	mode string
}

func (c ngCell) op() string {
	b := func(x bool) string {
		if x {
			return "1"
		}
		return "0"
	}
	s := fmt.Sprintf("connect %s %s %s %s %s", c.req, c.kind, c.subset, b(c.json), b(c.store))
	if c.mode != "" {
		s += " " + c.mode
	}
	return s
}

func ngMask(subset string) map[string]bool {
	if subset == "none" || subset == "" {
		return nil
	}
	m := map[string]bool{}
	for i, v := range supportedProtocolVersions {
		if i+1 < len(subset) && subset[i+1] == '1' {
			m[v] = true
		}
	}
	return m
}

func ngErrClass(err error) string {
	var je *jsonrpc.Error
	if errors.As(err, &je) {
		return fmt.Sprintf("rpc%d", je.Code)
	}
	var ue unsupportedProtocolVersionError
	if errors.As(err, &ue) {
		return "unsupported-version"
	}
	if errors.Is(err, context.DeadlineExceeded) {
		return "timeout"
	}
	return "other"
}

// ngServerSide puts srv behind the cell's transport configuration and returns the client's transport.
// endpoint(key, mk) yields the HTTP endpoint of one configuration (a case of the seq stream shares them
// between its steps). after: what to run when the connection is over. wait: blocks until a concurrent
// Server.Connect (modes w / g over mem / pipe) has returned.
func ngServerSide(ctx context.Context, srv *Server, c ngCell, endpoint func(key string, mk func() http.Handler) *httptest.Server) (ct Transport, after []func(), wait func(), errObs string) {
	var delay time.Duration
	if c.mode == "w" {
		delay = ngSlow
	}
	wrap := func(t Transport) Transport { return ngStack(t, c.subset, delay) }
	wait = func() {}
	// connect the server end: synchronously, or (slow modes) while the client is already talking
	serve := func(t Transport, closers ...io.Closer) bool {
		fin := func(ss *ServerSession) func() {
			return func() {
				if ss != nil {
					ss.Close()
				}
				for _, cl := range closers {
					cl.Close()
				}
			}
		}
		if c.mode == "" {
			ss, err := srv.Connect(ctx, wrap(t), nil)
			if err != nil {
				return false
			}
			after = append(after, fin(ss))
			return true
		}
		done := make(chan *ServerSession, 1)
		go func() {
			ss, _ := srv.Connect(ctx, wrap(t), nil)
			done <- ss
		}()
		var once sync.Once
		var ss *ServerSession
		wait = func() { once.Do(func() { ss = <-done }) }
		after = append(after, func() { wait(); fin(ss)() })
		return true
	}
	switch c.kind {
	case "mem":
		a, b := NewInMemoryTransports()
		if !serve(b) {
			return nil, after, wait, "error server-connect"
		}
		ct = a
	case "pipe":
		r1, w1 := io.Pipe()
		r2, w2 := io.Pipe()
		if !serve(&IOTransport{Reader: r1, Writer: w2}, r1, r2, w1, w2) {
			return nil, after, wait, "error server-connect"
		}
		ct = &IOTransport{Reader: r2, Writer: w1}
	case "sse":
		ts := endpoint("sse/"+c.subset+"/"+c.mode, func() http.Handler {
			if c.subset == "none" {
				return NewSSEHandler(func(*http.Request) *Server { return srv }, nil)
			}
			return &ngSSE{srv: srv, wrap: wrap, sess: map[string]*SSEServerTransport{}}
		})
		hc := &http.Client{Transport: &http.Transport{}}
		after = append(after, hc.CloseIdleConnections)
		ct = &SSEClientTransport{Endpoint: ts.URL, HTTPClient: hc}
	case "stateful", "stateless", "statefulnoid":
		ts := endpoint(fmt.Sprintf("%s/%s/%s/%v/%v", c.kind, c.subset, c.mode, c.json, c.store), func() http.Handler {
			var store EventStore
			if c.store {
				store = NewMemoryEventStore(nil)
			}
			if c.subset != "none" && c.kind == "stateful" {
				// a wrapped per-session transport needs a hand-written handler
				return &ngStateful{srv: srv, wrap: wrap, json: c.json, store: store, sess: map[string]*ngStatefulSession{}}
			}
			opts := &StreamableHTTPOptions{Stateless: c.kind == "stateless", JSONResponse: c.json}
			if c.store {
				opts.EventStore = store
			}
			return NewStreamableHTTPHandler(func(*http.Request) *Server { return srv }, opts)
		})
		// a private connection pool: the shared default one may hand out a stale connection to a
		// port that an earlier cell's test server used
		hc := &http.Client{Transport: &http.Transport{}}
		after = append(after, hc.CloseIdleConnections)
		ct = &StreamableClientTransport{Endpoint: ts.URL, HTTPClient: hc}
	default:
		return nil, after, wait, "bad-op"
	}
	return ct, after, wait, ""
}

// ngRun executes one cell on the real code and returns the observation and tags.
func ngRun(c ngCell) (obs string, tags []string) {
	defer func() {
		if r := recover(); r != nil {
			obs = "panic"
			tags = append(tags, "panic")
		}
	}()
	sopts := &ServerOptions{}
	if c.kind == "statefulnoid" {
		// a stateful endpoint whose server hands out no session IDs (the handler's "ephemeral session" branch)
		sopts.GetSessionID = func() string { return "" }
	}
	if c.mode == "g" {
		sopts.Logger = slog.New(ngSlowSink{})
	}
	srv := NewServer(&Implementation{Name: "verif", Version: "1"}, sopts)
	srv.AddTool(&Tool{Name: "echo", InputSchema: map[string]any{"type": "object"}},
		func(context.Context, *CallToolRequest) (*CallToolResult, error) {
			return &CallToolResult{Content: []Content{&TextContent{Text: "pong"}}}, nil
		})
	ctx, cancel := context.WithTimeout(context.Background(), 20*time.Second)
	defer cancel()
	var cleanup []func()
	defer func() {
		for i := len(cleanup) - 1; i >= 0; i-- {
			cleanup[i]()
		}
	}()
	endpoint := func(_ string, mk func() http.Handler) *httptest.Server {
		h := mk()
		ts := httptest.NewServer(h)
		cleanup = append(cleanup, func() {
			if st, ok := h.(*ngStateful); ok {
				st.closeAll()
			}
			ts.CloseClientConnections()
			ts.Close()
		})
		return ts
	}
	ct, after, _, errObs := ngServerSide(ctx, srv, c, endpoint)
	for _, f := range after {
		cleanup = append(cleanup, f)
	}
	if errObs == "bad-op" {
		return errObs, nil
	}
	if errObs != "" {
		return errObs, []string{"server-connect-failed"}
	}
	obs, tags, cs := ngSession(ctx, NewClient(&Implementation{Name: "verif-client", Version: "1"}, nil), ngOpts(c.req), ct)
	if cs != nil {
		cs.Close()
	}
	if c.mode != "" {
		tags = append(tags, "mode-"+c.mode)
	}
	return obs, tags
}

// ngOpts: the caller's options value for a requested-version token: `default` = nil options, `empty` =
// an options value that leaves ProtocolVersion unset, s<hex> = an explicit version.
func ngOpts(req string) *ClientSessionOptions {
	switch {
	case req == "default":
		return nil
	case req == "empty":
		return &ClientSessionOptions{}
	}
	return &ClientSessionOptions{ProtocolVersion: ngUnhex(req[1:])}
}

func ngRequested() []string {
	out := []string{"default", "empty"}
	for _, v := range supportedProtocolVersions {
		out = append(out, "s"+hxs(v))
	}
	// unknown older / in between / newer, the neighbours of the 2026-07-28 threshold, and odd strings
	for _, v := range []string{"2024-01-01", "2025-08-01", "2027-01-01", "2026-07-27", "2026-07-29", "2026-07-28x", "1", "zzz", " ", "2025-11-25 ", "2026-07-28 ", "\t2027", "a\nb", "a\x7fb", "é"} {
		out = append(out, "s"+hxs(v))
	}
	return out
}

func ngSubsets() []string {
	n := len(supportedProtocolVersions)
	var out []string
	for m := 0; m < 1<<uint(n); m++ {
		s := "m"
		for i := 0; i < n; i++ {
			if m&(1<<uint(n-1-i)) != 0 {
				s += "1"
			} else {
				s += "0"
			}
		}
		out = append(out, s)
	}
	return out
}

// ngWrapSubsets: the transport stacks with a LoggingTransport in them (see ngStack), over a handful of masks.
func ngWrapSubsets() []string {
	out := []string{"L"}
	for _, m := range []string{"m11111", "m01111", "m10000", "m00100", "m11000", "m00000"} {
		out = append(out, "L"+m, m+"L")
	}
	return out
}

func ngCells() []ngCell {
	var cells []ngCell
	for _, req := range ngRequested() {
		for _, kind := range []string{"mem", "pipe"} {
			cells = append(cells, ngCell{req: req, kind: kind, subset: "none"})
			for _, s := range ngSubsets() {
				cells = append(cells, ngCell{req: req, kind: kind, subset: s})
			}
		}
		cells = append(cells, ngCell{req: req, kind: "sse", subset: "none"})
		for _, s := range ngSubsets() {
			cells = append(cells, ngCell{req: req, kind: "sse", subset: s})
		}
		for _, kind := range []string{"stateful", "stateless", "statefulnoid"} {
			for _, j := range []bool{false, true} {
				for _, st := range []bool{false, true} {
					cells = append(cells, ngCell{req: req, kind: kind, subset: "none", json: j, store: st})
				}
			}
		}
		// the server's transport wrapped in the SDK's LoggingTransport, alone and combined with a
		// forwarding user wrapper (either one outermost); stateful: through a hand-written handler, also
		// with a plain forwarding wrapper
		for _, s := range ngWrapSubsets() {
			for _, kind := range []string{"mem", "pipe", "sse", "stateful"} {
				cells = append(cells, ngCell{req: req, kind: kind, subset: s})
			}
		}
		for _, s := range []string{"m11111", "m01111", "m10000", "m00100", "L"} {
			cells = append(cells, ngCell{req: req, kind: "stateful", subset: s, json: true, store: true})
		}
		// Server.Connect still running while the client is already connecting: a user wrapper whose
		// SupportsProtocolVersion is slow (w), a slow log sink (g)
		for _, kind := range []string{"mem", "pipe", "sse"} {
			for _, s := range []string{"m11111", "m01111", "m00100"} {
				cells = append(cells, ngCell{req: req, kind: kind, subset: s, mode: "w"}, ngCell{req: req, kind: kind, subset: s, mode: "g"})
			}
			cells = append(cells, ngCell{req: req, kind: kind, subset: "none", mode: "g"})
		}
	}
	return cells
}

func ngParse(toks []string) (ngCell, bool) {
	if (len(toks) != 6 && len(toks) != 7) || toks[0] != "connect" {
		return ngCell{}, false
	}
	c := ngCell{req: toks[1], kind: toks[2], subset: toks[3], json: toks[4] == "1", store: toks[5] == "1"}
	if len(toks) == 7 {
		c.mode = toks[6]
	}
	return c, true
}

func TestVerifNegotiate(t *testing.T) {
	out := verifOpen(t)
	defer out.close()
	if ngReplayOrCorpus(t, out) {
		return
	}
	// the matrix (SDK server cells and foreign-peer cells) is finite and enumerated completely; the
	// seed only permutes the order
	var ops []string
	for _, c := range ngCells() {
		ops = append(ops, c.op())
	}
	for _, c := range ngForeignCells() {
		ops = append(ops, c.op())
	}
	rng := verifRng(7)
	rng.Shuffle(len(ops), func(i, j int) { ops[i], ops[j] = ops[j], ops[i] })
	results := make([]ngRec, len(ops))
	ngParallel(len(ops), func(i int) { results[i] = ngRunOps([]string{ops[i]})[0] })
	for i, r := range results {
		cs := fmt.Sprintf("c%d", i)
		out.line(cs, "reset", "ok", "reset")
		tags := r.tags
		if c, ok := ngParse(strings.Fields(r.op)); ok {
			tags = append(tags, "kind-"+c.kind, "req-"+ngReqClass(c.req))
			tags = append(tags, ngSubsetTags(c.subset)...)
		}
		out.line(cs, r.op, r.obs, tags...)
	}
}

func ngUnhex(s string) string {
	b, _ := hex.DecodeString(s)
	return string(b)
}

// ngSubsetTags: which wrappers the server's transport stack has.
func ngSubsetTags(subset string) []string {
	var tags []string
	if strings.Contains(subset, "m") {
		tags = append(tags, "subset")
	}
	switch {
	case strings.HasPrefix(subset, "L"):
		tags = append(tags, "logging-outermost")
	case strings.HasSuffix(subset, "L"):
		tags = append(tags, "logging-inside-wrapper")
	}
	return tags
}

func ngReqClass(req string) string {
	if req == "default" || req == "empty" {
		return req
	}
	v := ngUnhex(req[1:])
	for _, s := range supportedProtocolVersions {
		if s == v {
			return "supported"
		}
	}
	if v >= protocolVersion20260728 {
		return "unknown-high"
	}
	return "unknown-low"
}
