// Engine `sseclient` (C01, C02): the real Client / ClientSession connected through the 2024-11-05
// SSEClientTransport to a scripted FOREIGN HTTP+SSE server (an in-process http.RoundTripper, inside
// testing/synctest).  The hanging GET's body is a byte script built from framed events in every legal
// spelling (`event: message` present / absent / after the data line, `id:` / `retry:` fields, comment
// lines, unknown fields, multi-line data, LF / CRLF line ends, other event types, events without data),
// fed to the client in chosen portions (several events in one network read, events split across reads).
//
// One case:
//
//	reset
//	scn base=<hex> get=<ok|terr|st<code>> term=<eof|err> ok2xx=<code> pst=<ident:code,...|-> stream=<item;item;...|->   obs ok | bad:<why>
//	connect | feed <n> <c1+c2+...> | call <k> <ping|list> | end | close | fin                                          obs <tokens>
//
// item  = <label>~<endEol>~<line>|<line>|...      line = <hexkey>.<hexpad>.<hexval>.<l|c>     eol l = LF, c = CRLF
// label = ep (the endpoint event) | c (no payload) | r<k>.ok / r<k>.er (response to the client's call k, call 0 =
//
//	initialize) | f<idtok> (response with an id the client never used) | q<idtok>.<ping|roots|sample|unk>
//	(server->client request) | n<n> (notification n) | j (payload that is not JSON-RPC)
//
// idtok = i<decimal> | s<hex>
//
// The label names the payload in the event's data; whether the event IS a message is decided by its type
// (no `event:` field or `event: message`) and by its data being non-empty — that is the driver's business.
// The client's call k carries the jsonrpc id k+1 (initialize = 1): ids are handed out by an atomic counter in
// the order of the calls, and the harness makes one call per step.
//
// Observation tokens of a step (everything that happened until the bubble was quiescent; sorted):
//
//	get                      the GET arrived (Accept: text/event-stream)
//	conn:ok | conn:err       Client.Connect returned
//	url:<hex>                the URL POSTs of this step went to
//	post:c<k>                the request of call k was POSTed (method and id as expected)
//	post:ni | post:nc<k>     notifications/initialized | notifications/cancelled for call k
//	post:r<idtok>.ok|.e<code>  a response to a server request (result | error code)
//	post:x<hex>              anything else
//	done:<k>:res:<marker> | done:<k>:rpc:<code> | done:<k>:err | done:<k>:closed   call k returned
//	nt:<n>,<n>,...           notifications handled in this step, in handling order
//	term                     ClientSession.Wait returned
//	closed                   ClientSession.Close returned
//	pend:<k>                 (fin only) call k was still blocked when the case ended
//	unread:<n>               (fin only) bytes fed but never read by the client although the body is open
//	leak | panic:<hex>       the bubble could not exit | a panic
package mcp

import (
	"bytes"
	"context"
	"encoding/hex"
	"encoding/json"
	"errors"
	"fmt"
	"io"
	"math/rand"
	"net/http"
	"net/url"
	"os"
	"sort"
	"strconv"
	"strings"
	"sync"
	"testing"
	"testing/synctest"
	"time"

	"github.com/modelcontextprotocol/go-sdk/jsonrpc"
)

// ---------------------------------------------------------------- scenario

type scLine struct {
	key, pad, val string
	crlf          bool
}

type scItem struct {
	label   string
	endCRLF bool
	lines   []scLine
}

type scScenario struct {
	base   string
	get    string // ok | terr | st<code>
	term   string // eof | err
	ok2xx  int
	pst    map[string]int
	pstOrd []string
	stream []scItem
}

type scOp struct {
	kind   string // connect feed call end close fin
	n      int
	chunks []int
	k      int
	method string
}

func (l scLine) bytes() []byte {
	var b []byte
	b = append(b, l.key...)
	b = append(b, ':')
	b = append(b, l.pad...)
	b = append(b, l.val...)
	if l.crlf {
		b = append(b, '\r')
	}
	return append(b, '\n')
}

func (it scItem) bytes() []byte {
	var b []byte
	for _, l := range it.lines {
		b = append(b, l.bytes()...)
	}
	if it.endCRLF {
		b = append(b, '\r')
	}
	return append(b, '\n')
}

func (s *scScenario) full() []byte {
	var b []byte
	for _, it := range s.stream {
		b = append(b, it.bytes()...)
	}
	return b
}

func scEol(b bool) string {
	if b {
		return "c"
	}
	return "l"
}

func (it scItem) String() string {
	ls := make([]string, len(it.lines))
	for i, l := range it.lines {
		ls[i] = hxs(l.key) + "." + hxs(l.pad) + "." + hxs(l.val) + "." + scEol(l.crlf)
	}
	return it.label + "~" + scEol(it.endCRLF) + "~" + strings.Join(ls, "|")
}

func scParseItem(s string) (scItem, error) {
	p := strings.Split(s, "~")
	if len(p) != 3 {
		return scItem{}, fmt.Errorf("bad item %q", s)
	}
	it := scItem{label: p[0], endCRLF: p[1] == "c"}
	if p[2] != "" {
		for _, ls := range strings.Split(p[2], "|") {
			f := strings.Split(ls, ".")
			if len(f) != 4 {
				return scItem{}, fmt.Errorf("bad line %q", ls)
			}
			var d [3]string
			for i := 0; i < 3; i++ {
				b, err := hex.DecodeString(f[i])
				if err != nil {
					return scItem{}, err
				}
				d[i] = string(b)
			}
			it.lines = append(it.lines, scLine{key: d[0], pad: d[1], val: d[2], crlf: f[3] == "c"})
		}
	}
	return it, nil
}

func (s *scScenario) op() string {
	items := make([]string, len(s.stream))
	for i, it := range s.stream {
		items[i] = it.String()
	}
	st := "-"
	if len(items) > 0 {
		st = strings.Join(items, ";")
	}
	pst := "-"
	if len(s.pstOrd) > 0 {
		var l []string
		for _, k := range s.pstOrd {
			l = append(l, fmt.Sprintf("%s:%d", k, s.pst[k]))
		}
		pst = strings.Join(l, ",")
	}
	return fmt.Sprintf("scn base=%s get=%s term=%s ok2xx=%d pst=%s stream=%s full=x%s", hxs(s.base), s.get, s.term, s.ok2xx, pst, st, hx(s.full()))
}

func scParseScenario(line string) (*scScenario, error) {
	toks := strings.Fields(line)
	if len(toks) < 2 || toks[0] != "scn" {
		return nil, fmt.Errorf("not a scn op")
	}
	s := &scScenario{get: "ok", term: "eof", ok2xx: 202, pst: map[string]int{}}
	for _, t := range toks[1:] {
		k, v, _ := strings.Cut(t, "=")
		switch k {
		case "base":
			b, err := hex.DecodeString(v)
			if err != nil {
				return nil, err
			}
			s.base = string(b)
		case "get":
			s.get = v
		case "term":
			s.term = v
		case "ok2xx":
			n, err := strconv.Atoi(v)
			if err != nil {
				return nil, err
			}
			s.ok2xx = n
		case "pst":
			if v != "-" {
				for _, e := range strings.Split(v, ",") {
					id, c, ok := strings.Cut(e, ":")
					n, err := strconv.Atoi(c)
					if !ok || err != nil {
						return nil, fmt.Errorf("bad pst %q", e)
					}
					s.pst[id] = n
					s.pstOrd = append(s.pstOrd, id)
				}
			}
		case "stream":
			if v != "-" {
				for _, x := range strings.Split(v, ";") {
					it, err := scParseItem(x)
					if err != nil {
						return nil, err
					}
					s.stream = append(s.stream, it)
				}
			}
		}
	}
	return s, nil
}

func (o scOp) String() string {
	switch o.kind {
	case "feed":
		cs := make([]string, len(o.chunks))
		for i, c := range o.chunks {
			cs[i] = strconv.Itoa(c)
		}
		return fmt.Sprintf("feed %d %s", o.n, strings.Join(cs, "+"))
	case "call":
		return fmt.Sprintf("call %d %s", o.k, o.method)
	}
	return o.kind
}

func scParseOp(line string) (scOp, error) {
	f := strings.Fields(line)
	if len(f) == 0 {
		return scOp{}, fmt.Errorf("empty op")
	}
	switch f[0] {
	case "connect", "end", "close", "fin":
		return scOp{kind: f[0]}, nil
	case "feed":
		if len(f) != 3 {
			return scOp{}, fmt.Errorf("bad feed")
		}
		n, err := strconv.Atoi(f[1])
		if err != nil {
			return scOp{}, err
		}
		o := scOp{kind: "feed", n: n}
		sum := 0
		for _, c := range strings.Split(f[2], "+") {
			x, err := strconv.Atoi(c)
			if err != nil || x <= 0 {
				return scOp{}, fmt.Errorf("bad chunk")
			}
			o.chunks = append(o.chunks, x)
			sum += x
		}
		if sum != n {
			return scOp{}, fmt.Errorf("chunks do not add up")
		}
		return o, nil
	case "call":
		if len(f) != 3 {
			return scOp{}, fmt.Errorf("bad call")
		}
		k, err := strconv.Atoi(f[1])
		if err != nil {
			return scOp{}, err
		}
		return scOp{kind: "call", k: k, method: f[2]}, nil
	}
	return scOp{}, fmt.Errorf("unknown op %q", f[0])
}

// ---------------------------------------------------------------- payloads

func scIDJSON(tok string) string {
	if strings.HasPrefix(tok, "i") {
		return tok[1:]
	}
	b, _ := hex.DecodeString(tok[1:])
	j, _ := json.Marshal(string(b))
	return string(j)
}

// scIDTok renders a decoded JSON id (json.Number or string) as an id token.
func scIDTok(v any) string {
	switch x := v.(type) {
	case json.Number:
		return "i" + x.String()
	case string:
		return "s" + hxs(x)
	}
	return "?"
}

// scPayload is the JSON text the label stands for.
func scPayload(label string) string {
	switch {
	case label == "j":
		return "keep-alive 17"
	case strings.HasPrefix(label, "r"):
		ks, kind, _ := strings.Cut(label[1:], ".")
		k, _ := strconv.Atoi(ks)
		id := k + 1
		if kind == "er" {
			return fmt.Sprintf(`{"jsonrpc":"2.0","id":%d,"error":{"code":%d,"message":"e%d"}}`, id, -31000-k, k)
		}
		if k == 0 {
			return fmt.Sprintf(`{"jsonrpc":"2.0","id":%d,"result":{"protocolVersion":"2024-11-05","capabilities":{"tools":{},"logging":{}},"serverInfo":{"name":"foreign","version":"0.1"}}}`, id)
		}
		// valid for ping (ignored members) and for tools/list
		return fmt.Sprintf(`{"jsonrpc":"2.0","id":%d,"result":{"tools":[{"name":"t%d","inputSchema":{"type":"object"}}]}}`, id, k)
	case strings.HasPrefix(label, "f"):
		return fmt.Sprintf(`{"jsonrpc":"2.0","id":%s,"result":{"tools":[{"name":"foreign","inputSchema":{"type":"object"}}]}}`, scIDJSON(label[1:]))
	case strings.HasPrefix(label, "q"):
		idt, m, _ := strings.Cut(label[1:], ".")
		id := scIDJSON(idt)
		switch m {
		case "ping":
			return fmt.Sprintf(`{"jsonrpc":"2.0","id":%s,"method":"ping"}`, id)
		case "roots":
			return fmt.Sprintf(`{"jsonrpc":"2.0","id":%s,"method":"roots/list"}`, id)
		case "sample":
			return fmt.Sprintf(`{"jsonrpc":"2.0","id":%s,"method":"sampling/createMessage","params":{"messages":[{"role":"user","content":{"type":"text","text":"hi"}}],"maxTokens":5}}`, id)
		}
		return fmt.Sprintf(`{"jsonrpc":"2.0","id":%s,"method":"foreign/unknown","params":{}}`, id)
	case strings.HasPrefix(label, "n"):
		return fmt.Sprintf(`{"jsonrpc":"2.0","method":"notifications/message","params":{"level":"info","data":%s}}`, label[1:])
	}
	return ""
}

// ---------------------------------------------------------------- the foreign server

type scBody struct {
	mu     sync.Mutex
	queue  [][]byte
	wake   chan struct{}
	cur    []byte
	endErr error
	closed chan struct{}
	once   sync.Once
	ctx    context.Context
	read   int
	fed    int
}

var errScCut = errors.New("verif: connection reset by peer")

func newScBody(ctx context.Context) *scBody {
	return &scBody{wake: make(chan struct{}, 1), closed: make(chan struct{}), ctx: ctx}
}

func (b *scBody) poke() {
	select {
	case b.wake <- struct{}{}:
	default:
	}
}

func (b *scBody) feed(chunk []byte) {
	b.mu.Lock()
	b.queue = append(b.queue, chunk)
	b.fed += len(chunk)
	b.mu.Unlock()
	b.poke()
}

func (b *scBody) end(err error) {
	b.mu.Lock()
	b.endErr = err
	b.mu.Unlock()
	b.poke()
}

func (b *scBody) Read(p []byte) (int, error) {
	for {
		b.mu.Lock()
		if len(b.cur) == 0 && len(b.queue) > 0 {
			b.cur, b.queue = b.queue[0], b.queue[1:]
		}
		if len(b.cur) > 0 {
			n := copy(p, b.cur)
			b.cur = b.cur[n:]
			b.read += n
			b.mu.Unlock()
			return n, nil
		}
		err := b.endErr
		b.mu.Unlock()
		if err != nil {
			return 0, err
		}
		select {
		case <-b.wake:
		case <-b.closed:
			return 0, errors.New("verif: read on closed body")
		case <-b.ctx.Done():
			return 0, b.ctx.Err()
		}
	}
}

func (b *scBody) Close() error {
	b.once.Do(func() { close(b.closed) })
	return nil
}

func (b *scBody) isClosed() bool {
	select {
	case <-b.closed:
		return true
	default:
		return false
	}
}

type scServer struct {
	s    *scScenario
	mu   sync.Mutex
	toks []string
	nts  []string
	urls map[string]bool
	body *scBody
}

func (sv *scServer) add(tok string) {
	sv.mu.Lock()
	sv.toks = append(sv.toks, tok)
	sv.mu.Unlock()
}

func (sv *scServer) resp(req *http.Request, status int, ct string, body string) *http.Response {
	h := http.Header{}
	if ct != "" {
		h.Set("Content-Type", ct)
	}
	return &http.Response{StatusCode: status, Status: fmt.Sprintf("%d %s", status, http.StatusText(status)), Header: h,
		Body: io.NopCloser(strings.NewReader(body)), Request: req, Proto: "HTTP/1.1", ProtoMajor: 1, ProtoMinor: 1}
}

// classify names a POSTed message.
func scClassify(body []byte) string {
	dec := json.NewDecoder(bytes.NewReader(body))
	dec.UseNumber()
	var m map[string]any
	if err := dec.Decode(&m); err != nil {
		return "x" + hx(body)
	}
	if m["jsonrpc"] != "2.0" {
		return "x" + hx(body)
	}
	method, hasMethod := m["method"].(string)
	id, hasID := m["id"]
	switch {
	case hasMethod && hasID:
		n, ok := id.(json.Number)
		if !ok {
			return "x" + hx(body)
		}
		v, err := strconv.Atoi(n.String())
		if err != nil || v < 1 {
			return "x" + hx(body)
		}
		k := v - 1
		want := map[string]bool{"ping": true, "tools/list": true}
		if k == 0 {
			want = map[string]bool{"initialize": true}
		}
		if !want[method] {
			return "x" + hx(body)
		}
		return fmt.Sprintf("c%d", k)
	case hasMethod:
		switch method {
		case "notifications/initialized":
			return "ni"
		case "notifications/cancelled":
			if p, ok := m["params"].(map[string]any); ok {
				if n, ok := p["requestId"].(json.Number); ok {
					if v, err := strconv.Atoi(n.String()); err == nil {
						return fmt.Sprintf("nc%d", v-1)
					}
				}
			}
		}
		return "x" + hx(body)
	case hasID:
		if e, ok := m["error"].(map[string]any); ok {
			code, _ := e["code"].(json.Number)
			return "r" + scIDTok(id) + ".e" + code.String()
		}
		if _, ok := m["result"]; ok {
			return "r" + scIDTok(id) + ".ok"
		}
	}
	return "x" + hx(body)
}

func (sv *scServer) RoundTrip(req *http.Request) (*http.Response, error) {
	switch req.Method {
	case http.MethodGet:
		tok := "get"
		status := 200
		if req.Header.Get("Accept") != "text/event-stream" {
			tok = "get:accept=" + hxs(req.Header.Get("Accept"))
		}
		if req.URL.String() != sv.s.base {
			tok += ":url=" + hxs(req.URL.String())
		}
		sv.add(tok)
		switch {
		case sv.s.get == "terr":
			return nil, errors.New("verif: dial failed")
		case strings.HasPrefix(sv.s.get, "st"):
			n, _ := strconv.Atoi(sv.s.get[2:])
			if n < 200 || n >= 300 {
				return sv.resp(req, n, "text/plain", "no"), nil
			}
			status = n // a 2xx greeting carries the stream
		}
		sv.mu.Lock()
		if sv.body != nil {
			sv.mu.Unlock()
			sv.add("get:second")
			return sv.resp(req, 409, "", ""), nil
		}
		sv.body = newScBody(req.Context())
		b := sv.body
		sv.mu.Unlock()
		r := sv.resp(req, status, "text/event-stream", "")
		r.Body = b
		return r, nil
	case http.MethodPost:
		body, _ := io.ReadAll(req.Body)
		id := scClassify(body)
		if ct := req.Header.Get("Content-Type"); ct != "application/json" {
			id = "x" + hxs("content-type="+ct)
		}
		sv.mu.Lock()
		sv.toks = append(sv.toks, "post:"+id)
		if sv.urls == nil {
			sv.urls = map[string]bool{}
		}
		sv.urls[req.URL.String()] = true
		sv.mu.Unlock()
		st, ok := sv.s.pst[id]
		if !ok {
			st = sv.s.ok2xx
		}
		if w := sv.wantURL(); w != "" && req.URL.String() != w {
			st = 404 // not the endpoint this server announced
		}
		text := ""
		if st == 200 {
			text = "Accepted"
		}
		return sv.resp(req, st, "text/plain", text), nil
	}
	sv.add("http:" + req.Method)
	return sv.resp(req, 405, "", ""), nil
}

// wantURL: the endpoint the server announced, resolved by net/url itself ("" if it announced none).
func (sv *scServer) wantURL() string {
	for _, it := range sv.s.stream {
		if it.label != "ep" {
			continue
		}
		data := ""
		for _, l := range it.lines {
			if l.key == "data" {
				data = l.val
			}
		}
		b, err1 := url.Parse(sv.s.base)
		r, err2 := url.Parse(data)
		if err1 != nil || err2 != nil {
			return ""
		}
		return b.ResolveReference(r).String()
	}
	return ""
}

// drain returns the step's observation.
func (sv *scServer) drain(extra ...string) string {
	sv.mu.Lock()
	toks := append([]string(nil), sv.toks...)
	sv.toks = nil
	if len(sv.nts) > 0 {
		toks = append(toks, "nt:"+strings.Join(sv.nts, ","))
		sv.nts = nil
	}
	for u := range sv.urls {
		toks = append(toks, "url:"+hxs(u))
	}
	sv.urls = nil
	sv.mu.Unlock()
	toks = append(toks, extra...)
	if len(toks) == 0 {
		return "-"
	}
	sort.Strings(toks)
	return strings.Join(toks, " ")
}

// ---------------------------------------------------------------- running one case

type scRec struct {
	op, obs string
	tags    []string
}

func scErrTok(err error) string {
	if errors.Is(err, ErrConnectionClosed) {
		return "closed"
	}
	return "err"
}

func scRun(t *testing.T, s *scScenario, ops []scOp) (recs []scRec) {
	sv := &scServer{s: s}
	full := s.full()
	aborted := true
	func() {
		defer func() {
			if r := recover(); r != nil {
				tok := "leak"
				if !strings.Contains(fmt.Sprint(r), "deadlock") {
					tok = "panic:" + hxs(fmt.Sprint(r))
				}
				recs = append(recs, scRec{op: "bubble", obs: tok, tags: []string{"leak"}})
			}
		}()
		synctest.Test(t, func(t *testing.T) {
			ctx, cancel := context.WithCancel(context.Background())
			defer cancel()
			client := NewClient(&Implementation{Name: "verif", Version: "0"}, &ClientOptions{
				LoggingMessageHandler: func(_ context.Context, r *LoggingMessageRequest) {
					lbl := "?"
					if f, ok := r.Params.Data.(float64); ok {
						lbl = strconv.Itoa(int(f))
					}
					sv.mu.Lock()
					sv.nts = append(sv.nts, lbl)
					sv.mu.Unlock()
				},
				CreateMessageHandler: func(context.Context, *CreateMessageRequest) (*CreateMessageResult, error) {
					return &CreateMessageResult{Model: "m", Role: "assistant", Content: &TextContent{Text: "ok"}}, nil
				},
			})
			client.AddRoots(&Root{URI: "file:///verif", Name: "verif"})
			tr := &SSEClientTransport{Endpoint: s.base, HTTPClient: &http.Client{Transport: sv}}
			var cs *ClientSession
			var csMu sync.Mutex
			pending := map[int]bool{}
			var pmu sync.Mutex
			fed := 0
			step := func(o scOp) (obs string) {
				defer func() {
					if r := recover(); r != nil {
						obs = "panic:" + hxs(fmt.Sprint(r))
					}
				}()
				var extra []string
				switch o.kind {
				case "connect":
					pmu.Lock()
					pending[0] = true
					pmu.Unlock()
					go func() {
						defer func() {
							if r := recover(); r != nil {
								sv.add("panic:" + hxs(fmt.Sprint(r)))
							}
						}()
						c, err := client.Connect(ctx, tr, &ClientSessionOptions{ProtocolVersion: protocolVersion20241105})
						pmu.Lock()
						delete(pending, 0)
						pmu.Unlock()
						if err != nil {
							sv.add("conn:err")
							return
						}
						csMu.Lock()
						cs = c
						csMu.Unlock()
						sv.add("conn:ok")
						go func() {
							c.Wait()
							sv.add("term")
						}()
					}()
				case "feed":
					sv.mu.Lock()
					b := sv.body
					sv.mu.Unlock()
					if b == nil {
						extra = append(extra, "nobody")
						break
					}
					for _, c := range o.chunks {
						if fed+c > len(full) {
							c = len(full) - fed
						}
						if c <= 0 {
							break
						}
						b.feed(full[fed : fed+c])
						fed += c
						synctest.Wait() // one network read per chunk
					}
				case "call":
					csMu.Lock()
					c := cs
					csMu.Unlock()
					if c == nil {
						extra = append(extra, "nosession")
						break
					}
					k := o.k
					pmu.Lock()
					pending[k] = true
					pmu.Unlock()
					go func() {
						tok := ""
						defer func() {
							if r := recover(); r != nil {
								tok = fmt.Sprintf("done:%d:panic:%s", k, hxs(fmt.Sprint(r)))
							}
							pmu.Lock()
							delete(pending, k)
							pmu.Unlock()
							sv.add(tok)
						}()
						var err error
						marker := "-"
						if o.method == "list" {
							var r *ListToolsResult
							r, err = c.ListTools(ctx, nil)
							if err == nil {
								var names []string
								for _, tl := range r.Tools {
									names = append(names, tl.Name)
								}
								marker = strings.Join(names, "+")
								if marker == "" {
									marker = "none"
								}
							}
						} else {
							err = c.Ping(ctx, nil)
						}
						var we *jsonrpc.Error
						switch {
						case err == nil:
							tok = fmt.Sprintf("done:%d:res:%s", k, marker)
						case errors.As(err, &we):
							tok = fmt.Sprintf("done:%d:rpc:%d", k, we.Code)
						default:
							tok = fmt.Sprintf("done:%d:%s", k, scErrTok(err))
						}
					}()
				case "end":
					sv.mu.Lock()
					b := sv.body
					sv.mu.Unlock()
					if b == nil {
						extra = append(extra, "nobody")
						break
					}
					if s.term == "eof" {
						b.end(io.EOF)
					} else {
						b.end(errScCut)
					}
				case "close":
					csMu.Lock()
					c := cs
					csMu.Unlock()
					if c == nil {
						extra = append(extra, "nosession")
						break
					}
					go func() {
						c.Close()
						sv.add("closed")
					}()
				case "fin":
					pmu.Lock()
					for k := range pending {
						extra = append(extra, fmt.Sprintf("pend:%d", k))
					}
					pmu.Unlock()
					sv.mu.Lock()
					b := sv.body
					sv.mu.Unlock()
					if b != nil && !b.isClosed() {
						b.mu.Lock()
						un := b.fed - b.read
						b.mu.Unlock()
						if un > 0 {
							extra = append(extra, fmt.Sprintf("unread:%d", un))
						}
					}
				}
				synctest.Wait()
				return sv.drain(extra...)
			}
			for _, o := range ops {
				obs := step(o)
				recs = append(recs, scRec{op: o.String(), obs: obs, tags: []string{"op-" + o.kind}})
			}
			// clean up: nothing of the case may stay behind
			cancel()
			synctest.Wait()
			csMu.Lock()
			c := cs
			csMu.Unlock()
			if c != nil {
				c.Close()
			}
			sv.mu.Lock()
			b := sv.body
			sv.mu.Unlock()
			if b != nil {
				b.Close()
			}
			synctest.Wait()
			aborted = false
		})
	}()
	if aborted && (len(recs) == 0 || recs[len(recs)-1].op != "bubble") {
		recs = append(recs, scRec{op: "bubble", obs: "aborted", tags: []string{"leak"}})
	}
	return recs
}

// ---------------------------------------------------------------- emitting

func scTags(s *scScenario, recs []scRec) []string {
	set := map[string]bool{"get-" + s.get: true, "term-" + s.term: true}
	for _, it := range s.stream {
		lb := it.label
		switch {
		case lb == "ep", lb == "c", lb == "j":
			set["item-"+lb] = true
		default:
			set["item-"+lb[:1]] = true
		}
		name, hasName, nData, crlf := "", false, 0, it.endCRLF
		for _, l := range it.lines {
			switch l.key {
			case "event":
				name, hasName = l.val, true
			case "data":
				nData++
			case "":
				set["line-comment"] = true
			case "id", "retry":
				set["line-"+l.key] = true
			default:
				set["line-unknown"] = true
			}
			crlf = crlf || l.crlf
		}
		if crlf {
			set["eol-crlf"] = true
		}
		switch {
		case !hasName:
			set["type-default"] = true
		case name == "message":
			set["type-message"] = true
		case name == "endpoint":
			set["type-endpoint"] = true
		default:
			set["type-other"] = true
		}
		if nData > 1 {
			set["data-multiline"] = true
		}
		if nData == 0 {
			set["data-none"] = true
		}
	}
	if len(s.pst) > 0 {
		set["post-failing"] = true
	}
	for _, r := range recs {
		for _, tok := range strings.Fields(r.obs) {
			p := strings.SplitN(tok, ":", 3)
			switch p[0] {
			case "done":
				if len(p) == 3 {
					set["done-"+strings.SplitN(p[2], ":", 2)[0]] = true
				}
			case "conn":
				set["conn-"+p[1]] = true
			case "term", "closed", "nt", "leak":
				set[p[0]] = true
			case "post":
				if len(p) > 1 && len(p[1]) > 0 {
					set["post-"+p[1][:1]] = true
				}
			case "pend":
				set["pend"] = true
			}
		}
	}
	var tags []string
	for k := range set {
		tags = append(tags, k)
	}
	sort.Strings(tags)
	return tags
}

func scEmit(out *verifOut, cs string, s *scScenario, recs []scRec, extra ...string) {
	out.line(cs, "reset", "ok")
	out.line(cs, s.op(), "ok", append(scTags(s, recs), extra...)...)
	for _, r := range recs {
		out.line(cs, r.op, r.obs, r.tags...)
	}
}

// ---------------------------------------------------------------- generators

const scBase = "http://verif.invalid/sse"

var scBases = []string{scBase, "http://verif.invalid:8080/a/b/sse?x=1", "https://verif.invalid/deep/er/sse"}

// endpoint references: absolute path, relative path, absolute URL (same origin), query only, dot segments,
// network-path reference, another origin (the transport follows it: see SseClient.endpoint_absolute_is_followed)
var scEndpoints = []string{"/messages?sessionid=1", "messages/7", "http://verif.invalid/rpc?sid=a%20b&x=1", "?sessionid=9",
	"/a/../m", "//verif.invalid/m2", "../up/m?x=1", "./here", "http://other.invalid:9/m?x=1", "/m/./n/../o/"}

type scGen struct {
	rng *rand.Rand
}

// spell frames a payload as one event.  typ: "" = no event field (the default type), else the event name.
func (g *scGen) spell(label, typ, data string, fancy bool) scItem {
	r := g.rng
	it := scItem{label: label}
	eol := func() bool { return fancy && r.Intn(3) == 0 }
	pad := func() string {
		if !fancy {
			return " "
		}
		return []string{" ", "", "  ", "\t", " \t "}[r.Intn(5)]
	}
	var dataLines []scLine
	if data != "" {
		parts := []string{data}
		if fancy && r.Intn(3) == 0 {
			// split a JSON text after commas that stand between members: the pieces joined with LF are the same JSON value
			if i := strings.Index(data, `"2.0",`); i >= 0 {
				cut := i + len(`"2.0",`)
				parts = []string{data[:cut], data[cut:]}
				if j := strings.Index(parts[1], `,"`); j > 0 && r.Intn(2) == 0 {
					parts = []string{parts[0], parts[1][:j+1], parts[1][j+1:]}
				}
			}
		}
		for _, p := range parts {
			dataLines = append(dataLines, scLine{key: "data", pad: pad(), val: p, crlf: eol()})
		}
	}
	var typeLine []scLine
	if typ != "" {
		typeLine = []scLine{{key: "event", pad: pad(), val: typ, crlf: eol()}}
	}
	var extras []scLine
	if fancy {
		if r.Intn(3) == 0 {
			extras = append(extras, scLine{key: "id", pad: pad(), val: strconv.Itoa(r.Intn(1000)), crlf: eol()})
		}
		if r.Intn(4) == 0 {
			extras = append(extras, scLine{key: "retry", pad: pad(), val: strconv.Itoa(1000 + r.Intn(5000)), crlf: eol()})
		}
		if r.Intn(4) == 0 {
			extras = append(extras, scLine{key: "", pad: "", val: " keep-alive", crlf: eol()})
		}
		if r.Intn(6) == 0 {
			extras = append(extras, scLine{key: "x-trace", pad: " ", val: "abc:def", crlf: eol()})
		}
	}
	// order: the type line before or after the data lines; the extras anywhere
	var lines []scLine
	if fancy && r.Intn(2) == 0 {
		lines = append(append(lines, dataLines...), typeLine...)
	} else {
		lines = append(append(lines, typeLine...), dataLines...)
	}
	for _, e := range extras {
		i := r.Intn(len(lines) + 1)
		lines = append(lines[:i], append([]scLine{e}, lines[i:]...)...)
	}
	it.lines = lines
	it.endCRLF = eol()
	return it
}

func scComment(text string) scItem {
	return scItem{label: "c", lines: []scLine{{key: "", val: text}}}
}

// scChunks splits n bytes into network reads.
func scChunks(r *rand.Rand, n int, mode int) []int {
	if n <= 0 {
		return nil
	}
	switch mode {
	case 0:
		return []int{n}
	case 1:
		cs := make([]int, n)
		for i := range cs {
			cs[i] = 1
		}
		return cs
	}
	var cs []int
	for n > 0 {
		c := 1 + r.Intn(min(n, 60))
		cs = append(cs, c)
		n -= c
	}
	return cs
}

type scCase struct {
	s   *scScenario
	ops []scOp
}

func (s *scScenario) offsets() []int {
	off := []int{0}
	for _, it := range s.stream {
		off = append(off, off[len(off)-1]+len(it.bytes()))
	}
	return off
}

// scBuild assembles a case: a stream and the operations, keeping the fed position and the call index.
type scBuild struct {
	g      *scGen
	c      *scCase
	pos    int
	nextK  int
	style  int // message events: 0 named, 1 unnamed, 2 mixed
	fancy  bool
	noise  bool
	nn, nq int
	open   map[int]bool // calls made and not yet answered by the script
}

func (g *scGen) build(style int, fancy, noise bool) *scBuild {
	r := g.rng
	s := &scScenario{base: scBase, get: "ok", term: []string{"eof", "err"}[r.Intn(2)], ok2xx: []int{200, 202, 204}[r.Intn(3)], pst: map[string]int{}}
	return &scBuild{g: g, c: &scCase{s: s}, nextK: 1, style: style, fancy: fancy, noise: noise, open: map[int]bool{}}
}

func (b *scBuild) op(kind string) { b.c.ops = append(b.c.ops, scOp{kind: kind}) }
func (b *scBuild) add(it scItem)  { b.c.s.stream = append(b.c.s.stream, it) }
func (b *scBuild) total() int     { return len(b.c.s.full()) }
func (b *scBuild) fail(id string, status int) {
	b.c.s.pst[id] = status
	b.c.s.pstOrd = append(b.c.s.pstOrd, id)
}

// feedTo feeds up to offset `to` (mode: 0 one read, 1 byte by byte, 2 random reads).
func (b *scBuild) feedTo(to, mode int) {
	if to <= b.pos {
		return
	}
	n := to - b.pos
	b.c.ops = append(b.c.ops, scOp{kind: "feed", n: n, chunks: scChunks(b.g.rng, n, mode)})
	b.pos = to
}

func (b *scBuild) flush() { b.feedTo(b.total(), b.g.rng.Intn(3)) }

func (b *scBuild) msgType() string {
	switch b.style {
	case 0:
		return "message"
	case 1:
		return ""
	}
	if b.g.rng.Intn(2) == 0 {
		return "message"
	}
	return ""
}

// msg adds a message event carrying the label's payload.
func (b *scBuild) msg(label string) { b.add(b.g.spell(label, b.msgType(), scPayload(label), b.fancy)) }

func (b *scBuild) call(method string) int {
	k := b.nextK
	b.nextK++
	b.c.ops = append(b.c.ops, scOp{kind: "call", k: k, method: method})
	b.open[k] = true
	return k
}

func (b *scBuild) anyMethod() string { return []string{"ping", "list"}[b.g.rng.Intn(2)] }

func (b *scBuild) request() string {
	r := b.g.rng
	b.nq++
	idt := fmt.Sprintf("i%d", 100+b.nq)
	switch r.Intn(4) {
	case 0:
		idt = "s" + hxs(fmt.Sprintf("srv-%d", b.nq))
	case 1:
		idt = fmt.Sprintf("i%d", 9007199254740993+int64(b.nq))
	}
	return "q" + idt + "." + []string{"ping", "roots", "sample", "unk"}[r.Intn(4)]
}

func (b *scBuild) notif() string {
	b.nn++
	return fmt.Sprintf("n%d", b.nn)
}

// noiseItem adds something a legal stream may carry that is not a message.
func (b *scBuild) noiseItem() {
	r := b.g.rng
	switch r.Intn(7) {
	case 0:
		b.add(scComment(" keep-alive"))
	case 1:
		b.add(b.g.spell("j", "ping", "keep-alive 17", b.fancy))
	case 2:
		b.add(b.g.spell("c", "ping", "", b.fancy)) // a typed event without data
	case 3:
		b.add(scItem{label: "c", lines: []scLine{{key: "id", pad: " ", val: "p" + strconv.Itoa(r.Intn(99))}}}) // id only: no data, not dispatched
	case 4:
		b.add(scItem{label: "c", lines: []scLine{{key: "retry", pad: " ", val: "3000"}}})
	case 5:
		lb := "n" + strconv.Itoa(900+r.Intn(99))
		b.add(b.g.spell(lb, "log", scPayload(lb), b.fancy)) // JSON-RPC inside an event of another type: not a message
	case 6:
		b.add(b.g.spell("c", "endpoint", "/elsewhere", b.fancy)) // a repeated endpoint event
	}
}

// greet: connect, the endpoint event (in a read of its own), the initialize exchange.
func (b *scBuild) greet(endpoint string) {
	b.op("connect")
	if b.noise && b.g.rng.Intn(2) == 0 {
		b.add(scComment(" hello"))
		if b.g.rng.Intn(2) == 0 {
			b.flush()
		}
	}
	b.add(b.g.spell("ep", "endpoint", endpoint, b.fancy))
	b.flush()
	if b.noise {
		b.noiseItem()
	}
	b.msg("r0.ok")
	b.flush()
}

// traffic: n calls; the server answers outstanding calls in any order and interleaves its own requests and notifications.
func (b *scBuild) traffic(n int) {
	r := b.g.rng
	for i := 0; i < n; i++ {
		b.call(b.anyMethod())
		if r.Intn(3) == 0 && i+1 < n {
			continue // answer later: several calls outstanding
		}
		var batch []string
		for k := 1; k < b.nextK; k++ {
			if b.open[k] && (r.Intn(4) != 0 || i+1 == n) {
				kind := ".ok"
				if r.Intn(5) == 0 {
					kind = ".er"
				}
				batch = append(batch, fmt.Sprintf("r%d%s", k, kind))
				delete(b.open, k)
			}
		}
		for r.Intn(3) == 0 {
			batch = append(batch, b.notif())
		}
		for r.Intn(3) == 0 {
			batch = append(batch, b.request())
		}
		// notifications keep their order (C03); everything else is shuffled around them
		r.Shuffle(len(batch), func(i, j int) {
			if strings.HasPrefix(batch[i], "n") || strings.HasPrefix(batch[j], "n") {
				return
			}
			batch[i], batch[j] = batch[j], batch[i]
		})
		for _, lb := range batch {
			b.msg(lb)
			if b.noise && r.Intn(3) == 0 {
				b.noiseItem()
			}
			if r.Intn(2) == 0 {
				b.flush()
			}
		}
		b.flush()
	}
}

func (b *scBuild) finish() *scCase {
	switch b.g.rng.Intn(4) {
	case 0:
		b.op("end")
		b.call("ping")
	case 1:
		b.op("close")
		b.call("ping")
	case 2:
		b.call("list")
		b.op("end")
	}
	b.op("fin")
	return b.c
}

func scGenerate(emit func(*scCase, string)) {
	limit := -1
	if v := os.Getenv("VERIF_CASES"); v != "" {
		if n, err := strconv.Atoi(v); err == nil {
			limit = n
		}
	}
	count := 0
	put := func(c *scCase, fam string) {
		if limit >= 0 && count >= limit {
			return
		}
		count++
		emit(c, fam)
	}
	thorough := verifThorough()
	newGen := func(salt int) *scGen { return &scGen{rng: verifRng(int64(salt))} }
	random := func(i int) {
		g := newGen(5000 + i)
		r := g.rng
		b := g.build(r.Intn(3), r.Intn(2) == 0, r.Intn(2) == 0)
		b.c.s.base = scBases[r.Intn(len(scBases))]
		b.greet(scEndpoints[r.Intn(len(scEndpoints))])
		b.traffic(1 + r.Intn(4))
		put(b.finish(), fmt.Sprintf("s%d", b.style))
	}
	if limit >= 0 {
		// $VERIF_CASES (the orchestrator's search for a failing input): that many random sessions only
		for i := 0; i < limit; i++ {
			random(700000 + i)
		}
		return
	}

	// ---- family s: every spelling style x plain/fancy x with/without noise, a few calls
	n := verifN(12, 300)
	for i := 0; i < n; i++ {
		for style := 0; style < 3; style++ {
			for _, fancy := range []bool{false, true} {
				for _, noise := range []bool{false, true} {
					g := newGen(5000 + i*97 + style*7 + btoi(fancy)*3 + btoi(noise))
					b := g.build(style, fancy, noise)
					b.c.s.base = scBases[g.rng.Intn(len(scBases))]
					b.greet(scEndpoints[g.rng.Intn(len(scEndpoints))])
					b.traffic(1 + g.rng.Intn(4))
					put(b.finish(), fmt.Sprintf("s%d", style))
				}
			}
		}
	}

	// ---- family u: every endpoint reference x every base
	for bi, base := range scBases {
		for ei, ep := range scEndpoints {
			g := newGen(6000 + bi*31 + ei)
			b := g.build(2, false, false)
			b.c.s.base = base
			b.greet(ep)
			b.call("ping")
			b.msg("r1.ok")
			b.flush()
			b.op("fin")
			put(b.c, "u")
		}
	}

	// ---- family x: the traffic after the handshake split into two reads at EVERY byte offset
	for _, style := range []int{0, 1} {
		g := newGen(6100 + style)
		probe := func(cut int) (*scCase, int) {
			g.rng = verifRng(int64(6100 + style)) // the same spelling for every cut
			b := g.build(style, true, true)
			b.c.s.term = "err"
			b.greet("/m?x=1")
			b.call("list")
			b.call("ping")
			start := b.total()
			b.msg(b.notif())
			b.add(b.g.spell("j", "ping", "keep-alive 17", true))
			b.msg("qi7.ping")
			b.add(scItem{label: "c", lines: []scLine{{key: "retry", pad: " ", val: "3000", crlf: true}}, endCRLF: true})
			b.msg("r2.ok")
			b.msg("qs" + hxs("srv-2") + ".roots")
			b.msg("r1.ok")
			b.msg(b.notif())
			total := b.total()
			if cut > 0 && start+cut < total {
				b.feedTo(start+cut, 0)
			}
			b.feedTo(total, 0)
			b.op("fin")
			return b.c, total - start
		}
		_, span := probe(0)
		stepBy := 1
		if !thorough {
			stepBy = 3
		}
		for cut := 0; cut < span; cut += stepBy {
			c, _ := probe(cut)
			put(c, "x")
		}
	}

	// ---- family b: what arrives in the SAME read as the endpoint event (F42): the greeting, a server request and a
	// notification, split into two reads at every offset
	{
		probe := func(cut int, style int) (*scCase, int) {
			g := newGen(6200 + style)
			b := g.build(style, false, false)
			b.op("connect")
			b.add(scComment(" hello"))
			b.add(b.g.spell("ep", "endpoint", "/m", false))
			b.msg("qi7.ping")
			b.msg("n1")
			total := b.total()
			if cut > 0 && cut < total {
				b.feedTo(cut, 0)
			}
			b.feedTo(total, 0)
			b.msg("r0.ok")
			b.flush()
			b.call("ping")
			b.msg("r1.ok")
			b.flush()
			b.op("fin")
			return b.c, total
		}
		for style := 0; style < 2; style++ {
			_, total := probe(0, style)
			stepBy := 1
			if !thorough {
				stepBy = 2
			}
			for cut := 0; cut < total; cut += stepBy {
				c, _ := probe(cut, style)
				put(c, "b")
			}
		}
	}

	// ---- family g: greetings that fail
	{
		mk := func(i int, get string, items []scItem, end bool) {
			g := newGen(6300 + i)
			b := g.build(2, false, false)
			b.c.s.get = get
			b.op("connect")
			for _, it := range items {
				b.add(it)
			}
			b.flush()
			if end {
				b.op("end")
			}
			b.call("ping")
			b.op("fin")
			put(b.c, "g")
		}
		g0 := newGen(6299)
		ep := g0.spell("ep", "endpoint", "/m", false)
		mk(0, "terr", nil, false)
		mk(1, "st404", nil, false)
		mk(2, "st500", nil, true)
		mk(3, "st401", []scItem{ep}, false)
		mk(4, "st204", []scItem{ep}, true)                                                 // a 2xx greeting is a greeting
		mk(5, "ok", []scItem{g0.spell("c", "message", scPayload("n1"), false), ep}, false) // the first event is not the endpoint event
		mk(6, "ok", []scItem{g0.spell("c", "", "/m", false)}, false)                       // an unnamed first event
		mk(7, "ok", []scItem{scComment(" only a comment")}, true)                          // the stream ends before any event
		mk(8, "ok", []scItem{{label: "c", lines: []scLine{{key: "event", pad: " ", val: "endpoint"}}}}, true)
		mk(9, "ok", nil, true)
		mk(10, "ok", []scItem{scComment(" hello"), scComment(" again"), ep}, true) // greeted, then the stream ends during initialize
	}

	// ---- family p: POSTs answered with a failing status
	{
		idents := []string{"c0", "ni", "c1", "c2", "ri101.ok", "ri102.e-32601", "c3"}
		statuses := []int{400, 404, 500, 503, 302, 199}
		np := verifN(3, 40)
		for i, id := range idents {
			for j := 0; j < np; j++ {
				g := newGen(6400 + i*53 + j)
				r := g.rng
				b := g.build(r.Intn(3), r.Intn(2) == 0, false)
				b.fail(id, statuses[r.Intn(len(statuses))])
				b.greet("/m")
				b.call(b.anyMethod()) // 1
				b.msg("qi101." + []string{"ping", "roots", "sample"}[r.Intn(3)])
				b.flush()
				b.call(b.anyMethod()) // 2
				// a request is the last message of its read: its handler runs beside the reader, so whether a POST
				// that fails breaks the connection before or after the NEXT message of the same read is a coin flip
				b.msg("r1.ok")
				b.msg(b.notif())
				b.msg("qi102.unk")
				b.flush()
				b.msg(b.notif())
				b.flush()
				b.call(b.anyMethod()) // 3
				b.msg("r2.ok")
				b.msg(b.notif())
				b.msg("qi103.ping")
				b.flush()
				b.msg("r3.ok")
				b.flush()
				put(b.finish(), "p")
			}
		}
	}

	// ---- family e: the stream ends anywhere (read error: any offset; clean end: event boundaries and inside the
	// first line of an event, where the unterminated rest cannot be taken for a message)
	{
		ne := verifN(40, 1500)
		for i := 0; i < ne; i++ {
			g := newGen(6600 + i)
			r := g.rng
			b := g.build(r.Intn(3), r.Intn(2) == 0, r.Intn(2) == 0)
			b.greet(scEndpoints[r.Intn(4)])
			b.traffic(1 + r.Intn(3))
			// cut the script somewhere and end the stream there
			s := b.c.s
			off := s.offsets()
			total := off[len(off)-1]
			cut := r.Intn(total + 1)
			if s.term == "eof" {
				j := r.Intn(len(s.stream) + 1)
				cut = off[j]
				if j < len(s.stream) && r.Intn(2) == 0 {
					l0 := len(s.stream[j].lines[0].bytes())
					if l0 > 8 {
						cut += 7 + r.Intn(l0-8)
					}
				}
			}
			var ops []scOp
			pos := 0
			for _, o := range b.c.ops {
				if o.kind == "feed" {
					if pos >= cut {
						continue
					}
					if pos+o.n > cut {
						o.n = cut - pos
						o.chunks = scChunks(r, o.n, r.Intn(3))
					}
					pos += o.n
				}
				ops = append(ops, o)
			}
			b.c.ops = ops
			b.op("end")
			b.call("ping")
			b.op("fin")
			put(b.c, "e")
		}
	}

	// ---- family c: Close with calls outstanding; what the peer sends while the client is closing
	{
		nc := verifN(20, 400)
		for i := 0; i < nc; i++ {
			g := newGen(6800 + i)
			r := g.rng
			b := g.build(r.Intn(3), r.Intn(2) == 0, r.Intn(2) == 0)
			b.greet("/m")
			k1 := b.call(b.anyMethod())
			k2 := -1
			if r.Intn(2) == 0 {
				k2 = b.call(b.anyMethod())
			}
			b.op("close")
			if r.Intn(2) == 0 {
				b.msg(b.request())
				b.msg(b.notif())
				b.flush()
			}
			if r.Intn(3) == 0 {
				b.call("ping")
			}
			b.msg(fmt.Sprintf("r%d.ok", k1))
			b.flush()
			if k2 > 0 {
				switch r.Intn(3) {
				case 0:
					b.msg(fmt.Sprintf("r%d.er", k2))
					b.flush()
				case 1:
					b.op("end")
				}
			}
			b.msg(b.notif())
			b.flush()
			b.call("ping")
			b.op("fin")
			put(b.c, "c")
		}
	}

	// ---- family d: duplicates, foreign ids, responses before the request, text that is not JSON-RPC
	{
		nd := verifN(30, 600)
		for i := 0; i < nd; i++ {
			g := newGen(7000 + i)
			r := g.rng
			b := g.build(r.Intn(3), r.Intn(2) == 0, r.Intn(2) == 0)
			b.greet("/m")
			if r.Intn(3) == 0 {
				b.msg("r1.ok") // the response arrives before the request was made: an id nobody waits for
				b.flush()
			}
			k := b.call(b.anyMethod())
			b.msg("fi777")
			b.msg("fs" + hxs("1"))
			b.msg(fmt.Sprintf("r%d.ok", k))
			b.msg(fmt.Sprintf("r%d.er", k)) // a second answer to the same call
			b.msg("r0.ok")                  // a second answer to initialize
			b.flush()
			k2 := b.call(b.anyMethod())
			if r.Intn(2) == 0 {
				b.msg("j") // text that is not JSON-RPC in a message event, in a read of its own
				b.flush()
			}
			b.msg(fmt.Sprintf("r%d.ok", k2))
			b.flush()
			put(b.finish(), "d")
		}
	}

	// ---- family r: random sessions
	nr := verifN(60, 6000)
	for i := 0; i < nr; i++ {
		random(i)
	}
}

func btoi(b bool) int {
	if b {
		return 1
	}
	return 0
}

func TestVerifSseClient(t *testing.T) {
	out := verifOpen(t)
	defer out.close()
	if p := os.Getenv("VERIF_REPLAY"); p != "" {
		scReplayFile(t, out, p, "replay")
		return
	}
	if p := os.Getenv("VERIF_CORPUS"); p != "" {
		ents, _ := os.ReadDir(p)
		for _, e := range ents {
			if strings.HasSuffix(e.Name(), ".ops") {
				scReplayFile(t, out, p+"/"+e.Name(), "corpus-"+strings.TrimSuffix(e.Name(), ".ops"))
			}
		}
	}
	n := 0
	scGenerate(func(c *scCase, fam string) {
		cs := fmt.Sprintf("%s-%d", fam, n)
		n++
		out.begin(cs, func() string { return c.s.op() })
		recs := scRun(t, c.s, c.ops)
		scEmit(out, cs, c.s, recs, "fam-"+fam[:1])
	})
}

func scReplayFile(t *testing.T, out *verifOut, path, cs string) {
	b, err := os.ReadFile(path)
	if err != nil {
		t.Fatal(err)
	}
	var s *scScenario
	var ops []scOp
	bad := ""
	for _, ln := range strings.Split(string(b), "\n") {
		ln = strings.TrimSpace(ln)
		if ln == "" || strings.HasPrefix(ln, "#") || ln == "reset" {
			continue
		}
		if strings.HasPrefix(ln, "scn ") {
			s, err = scParseScenario(ln)
			if err != nil {
				bad = ln
			}
			continue
		}
		if strings.HasPrefix(ln, "bubble") {
			continue
		}
		o, err := scParseOp(ln)
		if err != nil {
			bad = ln
			continue
		}
		ops = append(ops, o)
	}
	if s == nil || bad != "" {
		out.line(cs, "reset", "ok")
		out.line(cs, "scn "+bad, "bad-op", "corpus")
		return
	}
	recs := scRun(t, s, ops)
	scEmit(out, cs, s, recs, "corpus")
}

var _ = time.Second
