package main

import (
	"fmt"
	"go/ast"
	"go/token"
	"strings"
)

// E4 (C07): version constants and list, and the small pure functions of version negotiation,
// translated to Lean by a tiny expression translator (DESIGN.md Appendix B):
//   statements : if c { return e } ; for _, v := range L { if c { return v } } ; return e
//   expressions: identifiers, string literals, < <= > >= == !=, && || !, slices.Contains(l, x), recv.Field
// A function that leaves this subset is reported as an extraction error (the engine's obligation fails).

type tr struct {
	c      *Ctx
	recv   string            // receiver identifier (fields become parameters)
	fields map[string]string // receiver field -> lean parameter
	err    error
}

func (t *tr) fail(format string, a ...any) string {
	if t.err == nil {
		t.err = fmt.Errorf(format, a...)
	}
	return "untranslatableExpr"
}

func (t *tr) expr(e ast.Expr) string {
	switch x := e.(type) {
	case *ast.ParenExpr:
		return "(" + t.expr(x.X) + ")"
	case *ast.Ident:
		if x.Name == "true" || x.Name == "false" {
			return x.Name
		}
		return x.Name
	case *ast.BasicLit:
		if x.Kind == token.STRING {
			s := x.Value
			if strings.HasPrefix(s, "\"") {
				return LeanStr(strings.Trim(s, "\""))
			}
		}
		return t.fail("literal %s", x.Value)
	case *ast.UnaryExpr:
		if x.Op == token.NOT {
			return "(!" + t.expr(x.X) + ")"
		}
	case *ast.BinaryExpr:
		a, b := t.expr(x.X), t.expr(x.Y)
		switch x.Op {
		case token.LAND:
			return "(" + a + " && " + b + ")"
		case token.LOR:
			return "(" + a + " || " + b + ")"
		case token.LSS:
			return "decide (" + a + " < " + b + ")"
		case token.GTR:
			return "decide (" + b + " < " + a + ")"
		case token.GEQ:
			return "(!decide (" + a + " < " + b + "))"
		case token.LEQ:
			return "(!decide (" + b + " < " + a + "))"
		case token.EQL:
			return "(" + a + " == " + b + ")"
		case token.NEQ:
			return "(" + a + " != " + b + ")"
		}
	case *ast.CallExpr:
		if t.c.Src(x.Fun) == "slices.Contains" && len(x.Args) == 2 {
			return "(" + t.expr(x.Args[0]) + ").contains " + t.atom(x.Args[1])
		}
	case *ast.SelectorExpr:
		if id, ok := x.X.(*ast.Ident); ok && id.Name == t.recv && t.recv != "" {
			p := strings.ToLower(x.Sel.Name[:1]) + x.Sel.Name[1:]
			t.fields[x.Sel.Name] = p
			return p
		}
	}
	return t.fail("expression %s", t.c.Src(e))
}

func (t *tr) atom(e ast.Expr) string {
	s := t.expr(e)
	if strings.ContainsAny(s, " ") {
		return "(" + s + ")"
	}
	return s
}

// stmts translates a statement list that always returns.
func (t *tr) stmts(l []ast.Stmt) string {
	if len(l) == 0 {
		return t.fail("falls off the end")
	}
	switch s := l[0].(type) {
	case *ast.ReturnStmt:
		if len(s.Results) == 1 {
			return t.expr(s.Results[0])
		}
	case *ast.IfStmt:
		if s.Init == nil && s.Else == nil {
			return "(if " + t.expr(s.Cond) + " then " + t.stmts(s.Body.List) + " else " + t.stmts(l[1:]) + ")"
		}
	case *ast.RangeStmt:
		// for _, v := range L { if c { return v } }
		v, ok := s.Value.(*ast.Ident)
		if ok && len(s.Body.List) == 1 {
			if is, ok := s.Body.List[0].(*ast.IfStmt); ok && is.Init == nil && is.Else == nil && len(is.Body.List) == 1 {
				if rs, ok := is.Body.List[0].(*ast.ReturnStmt); ok && len(rs.Results) == 1 && t.c.Src(rs.Results[0]) == v.Name {
					return "(match (" + t.expr(s.X) + ").find? (fun " + v.Name + " => " + t.expr(is.Cond) + ") with | some " + v.Name + " => " + v.Name + " | none => " + t.stmts(l[1:]) + ")"
				}
			}
		}
	}
	return t.fail("statement %s", t.c.Src(l[0]))
}

func leanType(c *Ctx, e ast.Expr) string {
	switch c.Src(e) {
	case "string":
		return "String"
	case "[]string":
		return "List String"
	case "bool":
		return "Bool"
	}
	return "?" + c.Src(e)
}

// translateFunc renders fd as `def <name> (fields…) (params…) : T := …`.
// Receiver fields in forceFields are parameters even when the body does not (any longer) use them,
// so that the hand-written model keeps type-checking against a changed function.
func translateFunc(c *Ctx, fd *ast.FuncDecl, name string, forceFields ...string) (string, error) {
	t := &tr{c: c, fields: map[string]string{}}
	for _, f := range forceFields {
		t.fields[f] = strings.ToLower(f[:1]) + f[1:]
	}
	if fd.Recv != nil && len(fd.Recv.List) == 1 && len(fd.Recv.List[0].Names) == 1 {
		t.recv = fd.Recv.List[0].Names[0].Name
	}
	body := t.stmts(fd.Body.List)
	var params []string
	for _, f := range []string{"Stateless"} {
		if p, ok := t.fields[f]; ok {
			params = append(params, "("+p+" : Bool)")
		}
	}
	for f := range t.fields {
		if f != "Stateless" {
			t.fail("receiver field %s", f)
		}
	}
	for _, p := range fd.Type.Params.List {
		for _, n := range p.Names {
			params = append(params, "("+n.Name+" : "+leanType(c, p.Type)+")")
		}
	}
	if fd.Type.Results == nil || len(fd.Type.Results.List) != 1 {
		t.fail("result list")
		return "", t.err
	}
	res := leanType(c, fd.Type.Results.List[0].Type)
	if t.err != nil {
		return "", t.err
	}
	return fmt.Sprintf("/-- translated from `%s` -/\ndef %s %s : %s :=\n  %s\n", c.Src(fd.Type), name, strings.Join(params, " "), res, body), nil
}

// findStmt returns the source of the first statement in fd (any depth) whose text contains every needle.
func findStmt(c *Ctx, fd *ast.FuncDecl, kinds string, needles ...string) string {
	if fd == nil {
		return "<no func>"
	}
	out := "<missing>"
	ast.Inspect(fd.Body, func(n ast.Node) bool {
		if out != "<missing>" {
			return false
		}
		var txt string
		switch s := n.(type) {
		case *ast.IfStmt:
			if strings.Contains(kinds, "if") {
				txt = c.Src(s.Cond)
				if s.Init != nil {
					txt = c.Src(s.Init) + "; " + txt
				}
			}
		case *ast.AssignStmt:
			if strings.Contains(kinds, "assign") {
				txt = c.Src(s)
			}
		case *ast.RangeStmt:
			if strings.Contains(kinds, "range") {
				txt = "for range " + c.Src(s.X)
			}
		case *ast.ReturnStmt:
			if strings.Contains(kinds, "return") {
				txt = c.Src(s)
			}
		case *ast.KeyValueExpr:
			if strings.Contains(kinds, "kv") {
				txt = c.Src(s)
			}
		}
		if txt == "" {
			return true
		}
		for _, nd := range needles {
			if !strings.Contains(txt, nd) {
				return true
			}
		}
		out = txt
		return false
	})
	return out
}

// negotiateReference: the translations of the negotiation helpers on the tree the proofs were made on.
var negotiateReference = map[string]string{
	"negotiatedVersion": "def negotiatedVersion (clientVersion : String) : String :=\n  (if ((supportedProtocolVersions).contains clientVersion && decide (clientVersion < protocolVersion20260728)) then clientVersion else protocolVersion20251125)\n",
	"negotiateMutuallySupportedVersion": "def negotiateMutuallySupportedVersion (supported : List String) : String :=\n  (match (supportedProtocolVersions).find? (fun ver => (supported).contains ver) with | some ver => ver | none => \"\")\n",
	"sseSupportsProtocolVersion": "def sseSupportsProtocolVersion (version : String) : Bool :=\n  decide (version < protocolVersion20260728)\n",
	"streamableSupportsProtocolVersion": "def streamableSupportsProtocolVersion (stateless : Bool) (version : String) : Bool :=\n  (if (!decide (version < protocolVersion20260728)) then (stateless && (supportedProtocolVersions).contains version) else (supportedProtocolVersions).contains version)\n",
	"legacyVersionFor": "def legacyVersionFor (version : String) (transportVersions : List String) : String :=\n  (if (transportVersions).contains version then version else (match (supportedProtocolVersions).find? (fun v => (decide (v < protocolVersion20260728) && (transportVersions).contains v)) with | some v => v | none => \"\"))\n",
}

func init() {
	reg(func(c *Ctx) {
		var b strings.Builder
		b.WriteString("namespace Generated.Negotiate\n")
		// version constants, in declaration order of the const block that holds latestProtocolVersion
		var names []string
		for _, f := range c.load("mcp") {
			for _, d := range f.Decls {
				gd, ok := d.(*ast.GenDecl)
				if !ok || gd.Tok != token.CONST {
					continue
				}
				has := false
				for _, s := range gd.Specs {
					for _, n := range s.(*ast.ValueSpec).Names {
						if n.Name == "latestProtocolVersion" {
							has = true
						}
					}
				}
				if !has {
					continue
				}
				for _, s := range gd.Specs {
					for _, n := range s.(*ast.ValueSpec).Names {
						names = append(names, n.Name)
					}
				}
			}
		}
		if len(names) == 0 {
			c.Errf("negotiate: version constant block not found")
		}
		// literals first so that aliases can refer to them
		for pass := 0; pass < 2; pass++ {
			for _, n := range names {
				e := c.ValueExpr("mcp", n)
				_, isLit := e.(*ast.BasicLit)
				if (pass == 0) != isLit {
					continue
				}
				if isLit {
					v, _ := c.ConstString("mcp", n)
					fmt.Fprintf(&b, "def %s : String := %s\n", n, LeanStr(v))
				} else if id, ok := e.(*ast.Ident); ok {
					fmt.Fprintf(&b, "def %s : String := %s\n", n, id.Name)
				} else {
					c.Errf("negotiate: constant %s has an unexpected form", n)
				}
			}
		}
		// supportedProtocolVersions
		if cl, ok := c.ValueExpr("mcp", "supportedProtocolVersions").(*ast.CompositeLit); ok {
			var els []string
			for _, e := range cl.Elts {
				if id, ok := e.(*ast.Ident); ok {
					els = append(els, id.Name)
				} else {
					c.Errf("negotiate: supportedProtocolVersions element %s", c.Src(e))
				}
			}
			fmt.Fprintf(&b, "/-- mcp/shared.go `supportedProtocolVersions` (newest first) -/\ndef supportedProtocolVersions : List String := [%s]\n", strings.Join(els, ", "))
		} else {
			c.Errf("negotiate: supportedProtocolVersions is not a composite literal")
		}
		emit := func(recv, fn, lean string, force ...string) bool {
			fd := c.Func("mcp", recv, fn)
			if fd == nil {
				return false
			}
			s, err := translateFunc(c, fd, lean, force...)
			if err != nil {
				// The function left the translatable subset (or changed shape). The obligation fails through
				// the extraction error; the REFERENCE translation (of the function as it stands in the tree the
				// proofs were made on) is emitted in its place so that the model and the driver still build and
				// the harness can exhibit a concrete failing input for the changed function.
				c.Errf("negotiate: cannot translate %s.%s: %v (the reference translation stands in; the proofs do not cover the function as it now is)", recv, fn, err)
				if ref, ok := negotiateReference[lean]; ok {
					b.WriteString("/-- STAND-IN: `" + fn + "` as it now stands cannot be translated; this is the reference translation -/\n" + ref)
					return true
				}
				return false
			}
			b.WriteString(s)
			return true
		}
		if !emit("", "negotiatedVersion", "negotiatedVersion") {
			c.Errf("negotiate: negotiatedVersion missing")
		}
		if !emit("", "negotiateMutuallySupportedVersion", "negotiateMutuallySupportedVersion") {
			c.Errf("negotiate: negotiateMutuallySupportedVersion missing")
		}
		if !emit("SSEServerTransport", "SupportsProtocolVersion", "sseSupportsProtocolVersion") {
			c.Errf("negotiate: SSEServerTransport.SupportsProtocolVersion missing")
		}
		if !emit("StreamableServerTransport", "SupportsProtocolVersion", "streamableSupportsProtocolVersion", "Stateless") {
			c.Errf("negotiate: StreamableServerTransport.SupportsProtocolVersion missing")
		}
		// F10 repair: initialize adjusts the version to the transport's filter through this helper.
		// On a tree without it, initialize ignores the transport. The Lean model then still describes
		// the REPAIRED behaviour (stand-in below = the translation of the helper in
		// fixes/F10-initialize-respects-transport-versions.patch), the flag and an extraction error say
		// so, the engine's obligation fails and the harness exhibits the defect cell by cell.
		hasFix := c.Func("mcp", "", "legacyVersionFor") != nil
		if hasFix {
			emit("", "legacyVersionFor", "legacyVersionFor")
		} else {
			b.WriteString("/-- STAND-IN (function absent in this tree, F10 unrepaired): the repaired `legacyVersionFor` -/\ndef legacyVersionFor (version : String) (transportVersions : List String) : String :=\n  (if (transportVersions).contains version then version else (match (supportedProtocolVersions).find? (fun v => (decide (v < protocolVersion20260728) && (transportVersions).contains v)) with | some v => v | none => \"\"))\n")
			c.Errf("negotiate: mcp.legacyVersionFor is missing: ServerSession.initialize ignores the transport's version filter (F10); the Lean model describes the repaired behaviour")
		}
		fmt.Fprintf(&b, "def initializeRespectsTransport : Bool := %v\n", hasFix)
		// F46 repair: the SDK's own wrapper forwards the question to the transport it wraps. On a tree
		// without the method a LoggingTransport in the server's stack hides the inner transport's filter;
		// the flag is then false, `Stack.stack_eq_transport` no longer holds and the harness exhibits the
		// cells (C07: F46 …).
		logFwd := c.Func("mcp", "LoggingTransport", "SupportsProtocolVersion")
		fmt.Fprintf(&b, "/-- `*LoggingTransport` has a `SupportsProtocolVersion` method delegating to the wrapped transport (F46 repair) -/\ndef loggingTransportForwards : Bool := %v\n", logFwd != nil)
		if logFwd == nil {
			c.Errf("negotiate: LoggingTransport does not implement ProtocolVersionSupporter: wrapping a server transport in it makes filterSupportedVersions treat the stack as serving every version (F46); the Lean model describes the repaired behaviour")
			c.Fact("negotiate.logging_forward", "")
		} else {
			var parts []string
			for _, st := range logFwd.Body.List {
				parts = append(parts, strings.Join(strings.Fields(c.Src(st)), " "))
			}
			c.Fact("negotiate.logging_forward", strings.Join(parts, " ; "))
		}
		// which transports implement ProtocolVersionSupporter
		var impls []string
		for _, f := range c.load("mcp") {
			for _, d := range f.Decls {
				if fd, ok := d.(*ast.FuncDecl); ok && fd.Recv != nil && fd.Name.Name == "SupportsProtocolVersion" {
					impls = append(impls, recvName(fd))
				}
			}
		}
		c.Fact("negotiate.supporters", impls)
		b.WriteString("end Generated.Negotiate\n")
		c.Lean["NegotiateGen"] = b.String()

		// structural facts: the hand-modelled control flow of Client.Connect / discover / handle / initialize
		conn := c.Func("mcp", "Client", "Connect")
		disc := c.Func("mcp", "Client", "discover")
		sdisc := c.Func("mcp", "Server", "discover")
		hand := c.Func("mcp", "ServerSession", "handle")
		ini := c.Func("mcp", "ServerSession", "initialize")
		fsv := c.Func("mcp", "", "filterSupportedVersions")
		sconn := c.Func("mcp", "Server", "Connect")
		hwrite := c.Func("mcp", "streamableClientConn", "Write")
		hcheck := c.Func("mcp", "streamableClientConn", "checkResponse")
		facts := map[string]string{
			"client.default_version":     findStmt(c, conn, "assign", "protocolVersion :=", "latestProtocolVersion"),
			"client.explicit_version":    findStmt(c, conn, "if", "opts.ProtocolVersion"),
			"client.discover_threshold":  findStmt(c, conn, "if", "protocolVersion >="),
			"client.discover_rounds":     findStmt(c, conn, "range", ""),
			"client.renegotiate_on":      findStmt(c, conn, "if", "CodeUnsupportedProtocolVersion"),
			"client.renegotiate_version": findStmt(c, conn, "if", "negotiateMutuallySupportedVersion(data.Supported)"),
			"client.fallback_version":    findStmt(c, conn, "assign", "protocolVersion =", "protocolVersion2"),
			"client.verify_result":       findStmt(c, conn, "if", "res.ProtocolVersion"),
			"client.discover_pick":       findStmt(c, disc, "if", "res.SupportedVersions, protocolVersion"),
			"client.discover_else":       findStmt(c, disc, "assign", "negotiated =", "negotiateMutuallySupportedVersion"),
			"client.discover_reject":     findStmt(c, disc, "if", "negotiated <"),
			"server.handle_unsupported":  findStmt(c, hand, "if", "usesNewProtocol", "slices.Contains"),
			"server.handle_accepted":     findStmt(c, hand, "assign", "acceptedVersions :=") + " | " + findStmt(c, hand, "if", "req.Method == methodDiscover") + " | " + findStmt(c, hand, "assign", "acceptedVersions ="),
			"server.handle_data":         findStmt(c, hand, "kv", "Supported:"),
			"server.discover_versions":   findStmt(c, sdisc, "assign", "versions :=", "supportedVersions"),
			"server.discover_nil":        findStmt(c, sdisc, "if", "versions == nil"),
			"server.discover_result":     findStmt(c, sdisc, "kv", "SupportedVersions:"),
			"server.session_filter":      findStmt(c, sconn, "assign", "ss.supportedVersions ="),
			"server.filter_iface":        findStmt(c, fsv, "assign", "ProtocolVersionSupporter"),
			"server.filter_loop":         findStmt(c, fsv, "if", "SupportsProtocolVersion(v)"),
			"server.initialize_version":  findStmt(c, ini, "assign", "negotiatedVersion(params.ProtocolVersion)") + " | " + findStmt(c, ini, "kv", "ProtocolVersion:"),
			"server.initialize_filter":   findStmt(c, ini, "assign", "legacyVersionFor(") + " | " + findStmt(c, ini, "if", "version == \"\""),
		}
		c.Fact("negotiate.flow", facts)
		// Client.Connect reads the caller's options value and never writes through the pointer, hands it
		// on, or replaces it (`Stack.reconnect_same_options`): every statement of Client.Connect that
		// assigns to opts / a field of it, calls a method on it, or passes it to a call
		optsUses := []string{}
		if conn != nil {
			ast.Inspect(conn.Body, func(n ast.Node) bool {
				isOpts := func(e ast.Expr) bool {
					for {
						switch x := e.(type) {
						case *ast.SelectorExpr:
							e = x.X
							continue
						case *ast.StarExpr:
							e = x.X
							continue
						case *ast.UnaryExpr:
							e = x.X
							continue
						case *ast.Ident:
							return x.Name == "opts"
						}
						return false
					}
				}
				switch x := n.(type) {
				case *ast.AssignStmt:
					for _, l := range x.Lhs {
						if isOpts(l) {
							optsUses = append(optsUses, strings.Join(strings.Fields(c.Src(x)), " "))
						}
					}
				case *ast.IncDecStmt:
					if isOpts(x.X) {
						optsUses = append(optsUses, c.Src(x))
					}
				case *ast.CallExpr:
					if se, ok := x.Fun.(*ast.SelectorExpr); ok && isOpts(se.X) {
						optsUses = append(optsUses, strings.Join(strings.Fields(c.Src(x)), " "))
					}
					for _, a := range x.Args {
						if id, ok := a.(*ast.Ident); ok && id.Name == "opts" {
							optsUses = append(optsUses, strings.Join(strings.Fields(c.Src(x)), " "))
						}
					}
				}
				return true
			})
		}
		c.Fact("negotiate.client_opts", optsUses)
		// Server.Connect: what lies between connect() returning (the session's read loop is running) and
		// the critical section that publishes ss.supportedVersions; and that the transport is interrogated
		// inside that critical section (Stack.lean, Race)
		window := []string{}
		if sconn != nil {
			in := false
			for _, st := range sconn.Body.List {
				src := strings.Join(strings.Fields(c.Src(st)), " ")
				if strings.Contains(src, ":= connect(") {
					in = true
					continue
				}
				if in && src == "ss.mu.Lock()" {
					break
				}
				if in {
					window = append(window, src)
				}
			}
		}
		c.Fact("negotiate.connect_window", window)
		// the streamable CLIENT transport against a peer that answers server/discover with an HTTP error:
		// every such answer reaches Client.Connect as a per-call rejection (the connection survives and the
		// initialize fallback runs on it) — the model's `DiscResp.unavailable` class rests on these statements
		c.Fact("negotiate.httpclient", map[string]string{
			"write.discover_rejected":  findStmt(c, hwrite, "if", "requestMethod == methodDiscover"),
			"check.transient":          findStmt(c, hcheck, "if", "isTransientHTTPStatus"),
			"check.decode_error_body":  findStmt(c, hcheck, "if", "noprotocolerrorbody"),
			"check.error_body_is_call": findStmt(c, hcheck, "if", "response.Error != nil"),
			"check.not_found":          findStmt(c, hcheck, "if", "StatusNotFound"),
		})
	})
}
