package main

import (
	"go/ast"
	"go/constant"
	"go/token"
	"sort"
	"strings"
)

// E12 (C16): structural facts about the typed tool wrapper (mcp/server.go toolForErr) and
// applySchema (mcp/tool.go): the order of the steps the Lean model `TypedTool.call` transliterates.
func init() {
	reg(func(c *Ctx) {
		tf := c.Func("mcp", "", "toolForErr")
		if tf == nil {
			c.Errf("typedtool: toolForErr not found")
			return
		}
		// the handler closure: `th := func(ctx, req) (*CallToolResult, error) {...}`
		var th *ast.FuncLit
		ast.Inspect(tf.Body, func(n ast.Node) bool {
			if as, ok := n.(*ast.AssignStmt); ok && len(as.Lhs) == 1 && len(as.Rhs) == 1 {
				if id, ok := as.Lhs[0].(*ast.Ident); ok && id.Name == "th" {
					if fl, ok := as.Rhs[0].(*ast.FuncLit); ok {
						th = fl
					}
				}
			}
			return true
		})
		if th == nil {
			c.Errf("typedtool: handler closure th not found in toolForErr")
			return
		}
		type ev struct {
			pos   token.Pos
			label string
		}
		var evs []ev
		add := func(p token.Pos, l string) { evs = append(evs, ev{p, l}) }
		ast.Inspect(th.Body, func(n ast.Node) bool {
			switch x := n.(type) {
			case *ast.CallExpr:
				src := c.Src(x.Fun)
				switch {
				case src == "applySchema" && len(x.Args) == 3:
					add(x.Pos(), "applySchema("+c.Src(x.Args[0])+","+c.Src(x.Args[2])+")")
				case src == "internaljson.Unmarshal":
					add(x.Pos(), "unmarshal("+c.Src(x.Args[0])+")")
				case src == "h":
					add(x.Pos(), "call-handler")
				case src == "json.Marshal":
					add(x.Pos(), "marshal("+c.Src(x.Args[0])+")")
				}
			case *ast.AssignStmt:
				if len(x.Lhs) == 1 && c.Src(x.Lhs[0]) == "res.StructuredContent" {
					add(x.Pos(), "set-structured("+c.Src(x.Rhs[0])+")")
				}
				if len(x.Lhs) == 1 && c.Src(x.Lhs[0]) == "res.Content" {
					add(x.Pos(), "set-content")
				}
			case *ast.IfStmt:
				cond := c.Src(x.Cond)
				if cond == "res.Content == nil" || cond == "!isObjectJSON(outJSON)" || cond == "outval != nil" || cond == "input != nil" {
					add(x.Pos(), "if("+cond+")")
				}
			case *ast.ReturnStmt:
				if len(x.Results) == 2 && c.Src(x.Results[0]) == "res" && c.Src(x.Results[1]) == "nil" {
					add(x.Pos(), "return-res")
				}
			}
			return true
		})
		sort.Slice(evs, func(i, j int) bool { return evs[i].pos < evs[j].pos })
		var order []string
		for _, e := range evs {
			order = append(order, e.label)
		}
		c.Fact("typedtool.wrapper_order", order)

		// after each applySchema call: `if err != nil { ... return <what> }`
		after := map[string]string{}
		var walk func(list []ast.Stmt)
		walk = func(list []ast.Stmt) {
			for i, st := range list {
				if as, ok := st.(*ast.AssignStmt); ok && len(as.Rhs) == 1 {
					if ce, ok := as.Rhs[0].(*ast.CallExpr); ok && c.Src(ce.Fun) == "applySchema" && i+1 < len(list) {
						key := "applySchema(" + c.Src(ce.Args[0]) + ")"
						if ifs, ok := list[i+1].(*ast.IfStmt); ok && c.Src(ifs.Cond) == "err != nil" && len(ifs.Body.List) > 0 {
							if rs, ok := ifs.Body.List[len(ifs.Body.List)-1].(*ast.ReturnStmt); ok {
								var parts []string
								for _, r := range rs.Results {
									s := c.Src(r)
									if strings.HasPrefix(s, "fmt.Errorf(") {
										s = "fmt.Errorf"
									}
									parts = append(parts, s)
								}
								setErr := false
								for _, b := range ifs.Body.List {
									if strings.Contains(c.Src(b), "errRes.SetError(") {
										setErr = true
									}
								}
								v := "return " + strings.Join(parts, ", ")
								if setErr {
									v = "SetError; " + v
								}
								after[key] = v
							}
						} else {
							after[key] = "not-followed-by-error-check"
						}
					}
				}
				switch x := st.(type) {
				case *ast.IfStmt:
					walk(x.Body.List)
					if eb, ok := x.Else.(*ast.BlockStmt); ok {
						walk(eb.List)
					}
				case *ast.BlockStmt:
					walk(x.List)
				}
			}
		}
		walk(th.Body.List)
		c.Fact("typedtool.after_applySchema", after)

		// applySchema itself: defaults before validation; re-marshal only when defaults were applied
		as := c.Func("mcp", "", "applySchema")
		if as == nil {
			c.Errf("typedtool: applySchema not found")
			return
		}
		var steps []ev
		ast.Inspect(as.Body, func(n ast.Node) bool {
			switch x := n.(type) {
			case *ast.CallExpr:
				src := c.Src(x.Fun)
				switch src {
				case "resolved.ApplyDefaults", "resolved.Validate", "json.Marshal", "internaljson.Unmarshal", "internaljson.UnmarshalExactInts":
					steps = append(steps, ev{x.Pos(), src})
				}
			case *ast.IfStmt:
				cond := c.Src(x.Cond)
				if cond == "!appliedDefaults" || cond == "v == nil" || cond == "resolved == nil" {
					steps = append(steps, ev{x.Pos(), "if(" + cond + ")"})
				}
			}
			return true
		})
		sort.Slice(steps, func(i, j int) bool { return steps[i].pos < steps[j].pos })
		var so []string
		for _, e := range steps {
			so = append(so, e.label)
		}
		c.Fact("typedtool.applySchema_order", so)

		// which integers applySchema's decode keeps exact (`TypedTool.i64Dec`: int64, else uint64, else
		// float64 — [-2^63, 2^64)): the flags UnmarshalExactInts hands to the segmentio parser
		var flags []string
		if ue := c.Func("internal/json", "", "UnmarshalExactInts"); ue != nil {
			ast.Inspect(ue.Body, func(n ast.Node) bool {
				if call, ok := n.(*ast.CallExpr); ok && c.Src(call.Fun) == "json.Parse" && len(call.Args) == 3 {
					for _, f := range strings.Split(c.Src(call.Args[2]), "|") {
						flags = append(flags, strings.TrimSpace(f))
					}
				}
				return true
			})
		} else {
			c.Errf("typedtool: internal/json UnmarshalExactInts not found")
		}
		sort.Strings(flags)
		c.Fact("typedtool.exact_ints_decode_flags", flags)

		// the coercion rule for a null output
		coerce := ""
		ast.Inspect(as.Body, func(n ast.Node) bool {
			if ifs, ok := n.(*ast.IfStmt); ok {
				if cond := c.Src(ifs.Cond); strings.Contains(cond, "forOutput") && strings.Contains(cond, "unmarshaled == nil") {
					coerce = cond
				}
			}
			return true
		})
		c.Fact("typedtool.null_output_coercion", coerce)

		// setSchema: a pointer type yields the zero value of its element type
		ss := c.Func("mcp", "", "setSchema")
		zero := ""
		if ss != nil {
			ast.Inspect(ss.Body, func(n ast.Node) bool {
				if ifs, ok := n.(*ast.IfStmt); ok && c.Src(ifs.Cond) == "rt.Kind() == reflect.Pointer" {
					var b []string
					for _, s := range ifs.Body.List {
						b = append(b, c.Src(s))
					}
					zero = strings.Join(b, "; ")
				}
				return true
			})
		}
		c.Fact("typedtool.setSchema_pointer", zero)

		// setSchema and the SchemaCache: under which conditions each cache access happens, in source order
		// (the Lean model `TypedTool.setSchema` transliterates exactly this: the by-type entries are
		// consulted and stored only when the tool declares no schema, the by-pointer entries only when it
		// hands over a *jsonschema.Schema), and the statements that end each branch.
		var lookups []string
		if ss != nil {
			var walkSS func(list []ast.Stmt, conds []string)
			visitExpr := func(n ast.Node, conds []string) {
				ast.Inspect(n, func(m ast.Node) bool {
					if ce, ok := m.(*ast.CallExpr); ok {
						src := c.Src(ce.Fun)
						switch src {
						case "cache.getByType", "cache.setByType", "cache.getBySchema", "cache.setBySchema",
							"jsonschema.ForType", "internalSchema.Resolve", "remarshal":
							lookups = append(lookups, src+" @ "+strings.Join(conds, " && "))
						}
					}
					return true
				})
			}
			walkSS = func(list []ast.Stmt, conds []string) {
				for _, st := range list {
					switch x := st.(type) {
					case *ast.IfStmt:
						cond := c.Src(x.Cond)
						if x.Init != nil {
							visitExpr(x.Init, conds)
							cond = c.Src(x.Init) + "; " + cond
						}
						inner := append(append([]string{}, conds...), "("+cond+")")
						walkSS(x.Body.List, inner)
						switch e := x.Else.(type) {
						case *ast.BlockStmt:
							walkSS(e.List, append(append([]string{}, conds...), "!("+cond+")"))
						case *ast.IfStmt:
							walkSS([]ast.Stmt{e}, append(append([]string{}, conds...), "!("+cond+")"))
						}
					case *ast.BlockStmt:
						walkSS(x.List, conds)
					case *ast.ReturnStmt:
						lookups = append(lookups, "return @ "+strings.Join(conds, " && "))
					default:
						visitExpr(st, conds)
					}
				}
			}
			walkSS(ss.Body.List, nil)
		}
		c.Fact("typedtool.setSchema_cache_accesses", lookups)

		// toolForErr before the handler closure: the `any` input special case, the two setSchema calls and
		// the condition under which the output side is resolved at all
		var regSteps []string
		ast.Inspect(tf.Body, func(n ast.Node) bool {
			if n == ast.Node(th) {
				return false
			}
			switch x := n.(type) {
			case *ast.IfStmt:
				cond := c.Src(x.Cond)
				if strings.Contains(cond, "reflect.TypeFor") {
					regSteps = append(regSteps, "if("+cond+")")
				}
			case *ast.CallExpr:
				if src := c.Src(x.Fun); strings.HasPrefix(src, "setSchema[") {
					var args []string
					for _, a := range x.Args {
						args = append(args, c.Src(a))
					}
					regSteps = append(regSteps, src+"("+strings.Join(args, ",")+")")
				}
			case *ast.AssignStmt:
				if len(x.Lhs) == 1 && (c.Src(x.Lhs[0]) == "tt.InputSchema" || c.Src(x.Lhs[0]) == "tt.OutputSchema") {
					regSteps = append(regSteps, c.Src(x))
				}
			}
			return true
		})
		c.Fact("typedtool.toolForErr_schema_steps", regSteps)

		// the nil-output rule (server.go): which condition lets a nil `any` through
		var nilRule []string
		ast.Inspect(th.Body, func(n ast.Node) bool {
			if ifs, ok := n.(*ast.IfStmt); ok {
				cond := c.Src(ifs.Cond)
				if strings.HasPrefix(cond, "outval == nil") || cond == "res.InputRequests != nil" || cond == "any(out) == any(z)" || cond == "elemZero != nil" {
					nilRule = append(nilRule, cond)
				}
			}
			return true
		})
		c.Fact("typedtool.outval_rules", nilRule)
	})
}

// E12 (C16), protocol versions: the table `Generated.TypedTool` (the SDK's supported versions, the version
// from which (*Server).callTool marks results with a resultType — clientSupportsMultiRoundTrip —, and the
// members of the wrapper's result that callTool assigns after the handler returned) and the facts about
// what the dispatcher does with the wrapper's result on its way to the peer: the Lean model `deliver`
// (Model.lean) transliterates exactly this, and `structured content at every protocol version` is proved
// of it.
func init() {
	reg(func(c *Ctx) {
		var b strings.Builder
		b.WriteString("namespace Generated.TypedTool\n")
		str := func(e ast.Expr) (string, bool) {
			v, ok := c.Const("mcp", e)
			if !ok || v.Kind() != constant.String {
				return "", false
			}
			return constant.StringVal(v), true
		}
		// supportedProtocolVersions
		var versions []string
		if cl, ok := c.ValueExpr("mcp", "supportedProtocolVersions").(*ast.CompositeLit); ok {
			for _, el := range cl.Elts {
				if s, ok := str(el); ok {
					versions = append(versions, s)
				} else {
					c.Errf("typedtool: supportedProtocolVersions: element %s is not a string constant", c.Src(el))
				}
			}
		} else {
			c.Errf("typedtool: supportedProtocolVersions is not a composite literal")
		}
		b.WriteString("/-- mcp/shared.go `supportedProtocolVersions` (newest first) -/\n")
		b.WriteString("def supportedProtocolVersions : List String := " + LeanStrList(versions) + "\n")
		latest, ok := c.ConstString("mcp", "latestProtocolVersion")
		if !ok {
			c.Errf("typedtool: latestProtocolVersion not found")
		}
		b.WriteString("/-- mcp/shared.go `latestProtocolVersion`: what the SDK client asks for when left alone -/\n")
		b.WriteString("def latestProtocolVersion : String := " + LeanStr(latest) + "\n")

		// clientSupportsMultiRoundTrip: `protocolVersion := <default>`; `if iparams := ss.InitializeParams(); iparams != nil
		// { protocolVersion = iparams.ProtocolVersion }`; `return protocolVersion >= <since>`
		since, dflt := "", ""
		var shape []string
		if fd := c.Func("mcp", "", "clientSupportsMultiRoundTrip"); fd != nil {
			for _, st := range fd.Body.List {
				shape = append(shape, c.Src(st))
				switch x := st.(type) {
				case *ast.AssignStmt:
					if len(x.Lhs) == 1 && len(x.Rhs) == 1 && c.Src(x.Lhs[0]) == "protocolVersion" {
						dflt, _ = str(x.Rhs[0])
					}
				case *ast.ReturnStmt:
					if len(x.Results) == 1 {
						if be, ok := x.Results[0].(*ast.BinaryExpr); ok && be.Op == token.GEQ && c.Src(be.X) == "protocolVersion" {
							since, _ = str(be.Y)
						}
					}
				}
			}
		} else {
			c.Errf("typedtool: clientSupportsMultiRoundTrip not found")
		}
		if since == "" || dflt == "" {
			c.Errf("typedtool: clientSupportsMultiRoundTrip: cannot read the version test (%v)", shape)
		}
		c.Fact("typedtool.clientSupportsMultiRoundTrip", shape)
		b.WriteString("/-- mcp/mrtr.go `clientSupportsMultiRoundTrip`: `protocolVersion >= multiRoundTripSince` -/\n")
		b.WriteString("def multiRoundTripSince : String := " + LeanStr(since) + "\n")
		b.WriteString("/-- … of a session without InitializeParams -/\n")
		b.WriteString("def multiRoundTripDefault : String := " + LeanStr(dflt) + "\n")

		// (*Server).callTool after `st.handler(ctx, req)`: which members of a result are assigned, which
		// functions are called, which conditions are tested
		var assigns, calls, conds []string
		if fd := c.Func("mcp", "Server", "callTool"); fd != nil {
			var after token.Pos
			ast.Inspect(fd.Body, func(n ast.Node) bool {
				if ce, ok := n.(*ast.CallExpr); ok && c.Src(ce.Fun) == "st.handler" && after == 0 {
					after = ce.End()
				}
				return true
			})
			if after == 0 {
				c.Errf("typedtool: callTool: the call st.handler(ctx, req) not found")
			}
			ast.Inspect(fd.Body, func(n ast.Node) bool {
				if n == nil || after == 0 || n.Pos() < after {
					return true
				}
				switch x := n.(type) {
				case *ast.AssignStmt:
					for _, l := range x.Lhs {
						if se, ok := l.(*ast.SelectorExpr); ok {
							assigns = append(assigns, se.Sel.Name)
						}
					}
				case *ast.CallExpr:
					calls = append(calls, c.Src(x.Fun))
				case *ast.IfStmt:
					cond := c.Src(x.Cond)
					if x.Init != nil {
						cond = c.Src(x.Init) + "; " + cond
					}
					conds = append(conds, cond)
				}
				return true
			})
		} else {
			c.Errf("typedtool: (*Server).callTool not found")
		}
		c.Fact("typedtool.callTool_after_handler_assigns", assigns)
		c.Fact("typedtool.callTool_after_handler_calls", calls)
		c.Fact("typedtool.callTool_after_handler_conditions", conds)
		b.WriteString("/-- mcp/server.go `(*Server).callTool`: the members of a CallToolResult assigned after the tool's handler returned -/\n")
		b.WriteString("def callToolAssigns : List String := " + LeanStrList(assigns) + "\n")

		// handleMultiRoundTripResult: the only use of the session is the version test around setResultType
		var mrt []string
		if fd := c.Func("mcp", "", "handleMultiRoundTripResult"); fd != nil {
			ast.Inspect(fd.Body, func(n ast.Node) bool {
				switch x := n.(type) {
				case *ast.IfStmt:
					mrt = append(mrt, "if("+c.Src(x.Cond)+")")
				case *ast.CallExpr:
					if se, ok := x.Fun.(*ast.SelectorExpr); ok && c.Src(se.X) == "res" {
						mrt = append(mrt, c.Src(x))
					}
				case *ast.ReturnStmt:
					if len(x.Results) == 1 && c.Src(x.Results[0]) != "nil" {
						mrt = append(mrt, "return-error")
					}
				}
				return true
			})
		} else {
			c.Errf("typedtool: handleMultiRoundTripResult not found")
		}
		c.Fact("typedtool.handleMultiRoundTripResult_steps", mrt)

		// the typed wrapper itself does not look at the session, the peer or the protocol version: every use of
		// `req` inside the handler closure of toolForErr
		var reqUses []string
		if tf := c.Func("mcp", "", "toolForErr"); tf != nil {
			seen := map[string]bool{}
			ast.Inspect(tf.Body, func(n ast.Node) bool {
				switch x := n.(type) {
				case *ast.SelectorExpr:
					if id, ok := x.X.(*ast.Ident); ok && id.Name == "req" {
						if s := c.Src(x); !seen[s] {
							seen[s] = true
							reqUses = append(reqUses, s)
						}
					}
				case *ast.Ident:
					if strings.Contains(x.Name, "rotocolVersion") || x.Name == "InitializeParams" {
						if !seen[x.Name] {
							seen[x.Name] = true
							reqUses = append(reqUses, x.Name)
						}
					}
				}
				return true
			})
			sort.Strings(reqUses)
		}
		c.Fact("typedtool.wrapper_request_uses", reqUses)

		b.WriteString("end Generated.TypedTool\n")
		c.Lean["TypedToolGen"] = b.String()
	})
}
