package main

import (
	"fmt"
	"go/ast"
	"regexp"
	"strings"
)

// Engine `cancel` (C04 end to end).  Regenerated into Lean (Generated/CancelGen.lean): the flags the routing
// theorems are conditional on — the detached notifier of mcp.call keeps the VALUES of the call's context
// (context.WithoutCancel(ctx), no context.Background()), Retire precedes the notifier and nothing of the
// return path waits for it, the streamable server's Write routes by idContextKey (JSON responses divert
// non-responses to the standalone stream), ServerSession.handle puts the request id into the handler's
// context, the streamable client POSTs each message — and notifyCancellationTimeout in ms.  Structural facts
// pin the statements these flags were read from, the stateless propagation rule and the repaired payload of
// the cancel notice (cancel-F1).
func init() { reg(cancelExtract) }

func cancelExtract(c *Ctx) {
	bad := func(format string, a ...any) { c.Errf("cancel: "+format, a...) }
	norm := func(s string) string { return strings.Join(strings.Fields(s), " ") }

	// ---- mcp.call: the branch taken when the caller's context ended
	keeps, order := false, false
	parent, notifyArgs := "?", "?"
	var clause []string
	if fd := c.Func("mcp", "", "call"); fd != nil && fd.Body != nil {
		var cc *ast.CaseClause
		ast.Inspect(fd.Body, func(n ast.Node) bool {
			if x, ok := n.(*ast.CaseClause); ok && len(x.List) == 1 && norm(c.Src(x.List[0])) == "ctx.Err() != nil" {
				cc = x
			}
			return true
		})
		if cc == nil {
			bad("call: no `case ctx.Err() != nil`")
		} else {
			retireAt, goAt, retAt := -1, -1, -1
			for i, st := range cc.Body {
				src := norm(c.Src(st))
				switch x := st.(type) {
				case *ast.IfStmt:
					clause = append(clause, "if "+norm(c.Src(x.Cond)))
				case *ast.GoStmt:
					clause = append(clause, "go")
					goAt = i
					fl, _ := x.Call.Fun.(*ast.FuncLit)
					if fl == nil {
						bad("call: go statement without a function literal")
						break
					}
					body := norm(c.Src(fl.Body))
					ast.Inspect(fl.Body, func(n ast.Node) bool {
						as, ok := n.(*ast.AssignStmt)
						if !ok || len(as.Rhs) != 1 {
							return true
						}
						ce, ok := as.Rhs[0].(*ast.CallExpr)
						if !ok || norm(c.Src(ce.Fun)) != "context.WithTimeout" || len(ce.Args) != 2 {
							return true
						}
						if len(as.Lhs) > 0 && norm(c.Src(as.Lhs[0])) == "notifyCtx" {
							parent = norm(c.Src(ce.Args[0]))
						}
						return true
					})
					ast.Inspect(fl.Body, func(n ast.Node) bool {
						ce, ok := n.(*ast.CallExpr)
						if ok && norm(c.Src(ce.Fun)) == "conn.Notify" && len(ce.Args) >= 2 {
							notifyArgs = norm(c.Src(ce.Args[0])) + ", " + norm(c.Src(ce.Args[1]))
						}
						return true
					})
					keeps = parent == "context.WithoutCancel(ctx)" && !strings.Contains(body, "context.Background()") &&
						!strings.Contains(body, "context.TODO()") && notifyArgs == "notifyCtx, notificationCancelled"
				case *ast.ReturnStmt:
					clause = append(clause, src)
					retAt = i
				default:
					clause = append(clause, src)
					if src == "conn.Retire(call, ctx.Err())" {
						retireAt = i
					}
				}
			}
			order = retireAt >= 0 && retireAt < goAt && goAt < retAt && retAt == len(cc.Body)-1
		}
	} else {
		bad("mcp.call not found")
	}
	c.Fact("cancel.call_notifier", map[string]any{"notify_ctx_parent": parent, "notify_args": notifyArgs, "keeps_values": keeps,
		"clause": clause, "retire_then_go_then_return": order})

	// ---- streamableServerConn.Write: routing
	has := func(fd *ast.FuncDecl, want string) bool {
		return fd != nil && fd.Body != nil && strings.Contains(norm(c.Src(fd.Body)), want)
	}
	wr := c.Func("mcp", "streamableServerConn", "Write")
	if wr == nil {
		bad("streamableServerConn.Write not found")
	}
	byID := has(wr, "if v := ctx.Value(idContextKey{}); v != nil { relatedRequest = v.(jsonrpc.ID) }") &&
		has(wr, "if streamID, ok := c.requestStreams[relatedRequest]; ok { s = c.streams[streamID] }") &&
		has(wr, `s = c.streams[""]`)
	jsonDivert := has(wr, "if c.jsonResponse && !responseTo.IsValid() { relatedRequest = jsonrpc.ID{} }")
	statelessNoCalls := has(wr, "req.IsCall() && (c.stateless || c.sessionID == \"\")")
	c.Fact("cancel.server_write_routing", map[string]any{"by_idContextKey": byID, "json_diverts_non_responses": jsonDivert,
		"stateless_refuses_calls": statelessNoCalls})

	// ---- ServerSession.handle: the handler's context carries the request id, before user code
	hd := c.Func("mcp", "ServerSession", "handle")
	carries := false
	if hd != nil && hd.Body != nil {
		at, hr := -1, -1
		for i, st := range hd.Body.List {
			src := norm(c.Src(st))
			if src == "ctx = context.WithValue(ctx, idContextKey{}, req.ID)" {
				at = i
			}
			if hr < 0 && strings.Contains(src, "handleReceive(") {
				hr = i
			}
		}
		carries = at >= 0 && hr >= 0 && at < hr
	} else {
		bad("ServerSession.handle not found")
	}
	c.Fact("cancel.handler_ctx_carries_request_id", carries)

	// ---- streamableClientConn.Write: one POST per message, on the write's context
	cw := c.Func("mcp", "streamableClientConn", "Write")
	posts := has(cw, "http.NewRequestWithContext(ctx, http.MethodPost, c.url, bytes.NewReader(data))")
	c.Fact("cancel.client_posts_each_message", posts)

	// ---- stateless: when is a handler tied to its HTTP exchange
	prop := "?"
	for _, f := range c.load("mcp") {
		ast.Inspect(f, func(n ast.Node) bool {
			kv, ok := n.(*ast.KeyValueExpr)
			if ok && norm(c.Src(kv.Key)) == "shouldPropagateCancellation" {
				if v := norm(c.Src(kv.Value)); strings.Contains(v, "PropagateRequestCancellation") {
					prop = v
				}
			}
			return true
		})
	}
	c.Fact("cancel.stateless_propagation", prop)

	// ---- the compatibility branch MCPGODEBUG=blockingcancelnotify=1 and cancelCall: the statements, in order (the
	// notice is written on a context that keeps the values of the call's and has its own timeout, THEN the call is
	// retired; the caller returns the context's error joined with the notifier's)
	var blocking, ccBody []string
	if fd := c.Func("mcp", "", "call"); fd != nil && fd.Body != nil {
		ast.Inspect(fd.Body, func(n ast.Node) bool {
			if x, ok := n.(*ast.IfStmt); ok && norm(c.Src(x.Cond)) == `blockingcancelnotify == "1"` {
				for _, st := range x.Body.List {
					blocking = append(blocking, norm(c.Src(st)))
				}
			}
			return true
		})
	}
	if fd := c.Func("mcp", "", "cancelCall"); fd != nil && fd.Body != nil {
		for _, st := range fd.Body.List {
			ccBody = append(ccBody, norm(c.Src(st)))
		}
	} else {
		bad("mcp.cancelCall not found")
	}
	c.Fact("cancel.blocking_branch", map[string]any{"if_body": blocking, "cancelCall": ccBody})

	// ---- the payload of the notice (cancel-F1: it inherits the per-request _meta of the request it cancels)
	np := c.Func("mcp", "", "newCancelledParams")
	c.Fact("cancel.notice_inherits_request_meta", has(np, "[]string{MetaKeyProtocolVersion, MetaKeyClientInfo, MetaKeyClientCapabilities}") &&
		has(np, "cp.SetMeta(meta)"))

	// ---- the streamable client's JSON path (cancel-F2): a body read interrupted by the caller's own cancellation
	// does not fail the connection
	hj := c.Func("mcp", "streamableClientConn", "handleJSON")
	c.Fact("cancel.json_body_read_cancelled_is_not_fatal", has(cw, "go c.handleJSON(ctx, requestSummary, resp)") &&
		has(hj, "if err != nil { if ctx.Err() != nil { return } c.fail("))

	// ---- notifyCancellationTimeout
	ms := int64(-1)
	if e := c.ValueExpr("mcp", "notifyCancellationTimeout"); e != nil {
		m := regexp.MustCompile(`^(\d+) \* time\.(Second|Millisecond)$`).FindStringSubmatch(norm(c.Src(e)))
		if m != nil {
			fmt.Sscan(m[1], &ms)
			if m[2] == "Second" {
				ms *= 1000
			}
		}
	}
	if ms < 0 {
		bad("notifyCancellationTimeout: not `<n> * time.Second|Millisecond`")
		ms = 0
	}
	c.Fact("cancel.notify_timeout_ms", ms)

	b := func(v bool) string {
		if v {
			return "true"
		}
		return "false"
	}
	c.Lean["CancelGen"] = fmt.Sprintf(`namespace Generated.Cancel
/-- mcp/transport.go `+"`call`"+`, the detached notifier: `+"`context.WithTimeout(%s, notifyCancellationTimeout)`"+` — the notice is written with the VALUES of the call's context iff the parent is context.WithoutCancel(ctx) and the goroutine mentions no context.Background() -/
def noticeKeepsValues : Bool := %s
/-- mcp/transport.go `+"`call`"+`: `+"`conn.Retire(call, ctx.Err())`"+`, then `+"`go func() { … conn.Notify … }()`"+`, then `+"`return ctx.Err()`"+` — nothing of the caller's return path waits for the notice -/
def retireThenDetachedNotify : Bool := %s
/-- mcp/streamable.go streamableServerConn.Write: a non-response is related to `+"`ctx.Value(idContextKey{})`"+` and written to `+"`c.streams[c.requestStreams[relatedRequest]]`"+`, without a related request to the standalone stream `+"`c.streams[\"\"]`"+` -/
def serverRoutesByRequestId : Bool := %s
/-- mcp/streamable.go streamableServerConn.Write: `+"`if c.jsonResponse && !responseTo.IsValid() { relatedRequest = jsonrpc.ID{} }`"+` -/
def jsonNonResponsesToStandalone : Bool := %s
/-- mcp/server.go ServerSession.handle: `+"`ctx = context.WithValue(ctx, idContextKey{}, req.ID)`"+` before the request reaches user code -/
def handlerCtxCarriesRequestId : Bool := %s
/-- mcp/streamable.go streamableClientConn.Write: one `+"`http.NewRequestWithContext(ctx, http.MethodPost, …)`"+` per message -/
def clientPostsEachMessage : Bool := %s
/-- mcp/transport.go notifyCancellationTimeout, in ms -/
def notifyTimeoutMs : Nat := %d
end Generated.Cancel
`, parent, b(keeps), b(order), b(byID), b(jsonDivert), b(carries), b(posts), ms)
}
