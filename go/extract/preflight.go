package main

import (
	"fmt"
	"go/ast"
	"go/token"
	"sort"
	"strconv"
	"strings"
)

// E8 Preflight (C12): the Accept switch table, header-name constants, the base64 sentinel, the
// safe-integer bounds, DefaultMaxRequestBodyBytes, the supported versions, the version-gate
// expressions (tiny expression translator), JSON-RPC codes used by the gates, the tchar table, and
// structural facts about the order in which the gates answer.
func init() {
	reg(func(c *Ctx) {
		var b strings.Builder
		w := func(format string, a ...any) { fmt.Fprintf(&b, format, a...) }
		w("import McpModel.Preflight.Bytes\n")
		w("open _root_.Preflight (bLt bLe)\nnamespace Generated.Preflight\n")

		// ---- string constants of streamable_headers.go
		for _, n := range []string{"protocolVersionHeader", "sessionIDHeader", "lastEventIDHeader", "methodHeader", "nameHeader",
			"paramHeaderPrefix", "minVersionForStandardHeaders", "base64Prefix", "base64Suffix",
			"protocolVersion20260728", "protocolVersion20251125", "protocolVersion20250618", "protocolVersion20250326", "protocolVersion20241105",
			"methodDiscover", "methodCallTool", "methodInitialize"} {
			s, ok := c.ConstString("mcp", n)
			if !ok {
				c.Errf("preflight: %s is not a string constant", n)
			}
			w("/-- mcp `%s` = %s -/\ndef %s : List Nat := %s\n", n, strconv.Quote(s), n, leanBytes(s))
		}
		// ---- integer constants
		for _, n := range []string{"maxSafeInteger", "minSafeInteger", "CodeHeaderMismatch", "CodeUnsupportedProtocolVersion"} {
			v, ok := c.ConstInt("mcp", n)
			if !ok {
				c.Errf("preflight: %s is not an integer constant", n)
			}
			w("/-- mcp `%s` -/\ndef %s : Int := %s\n", n, lowerFirst(n), leanInt(v))
		}
		for _, n := range []string{"CodeInvalidParams", "CodeMethodNotFound"} {
			v, ok := c.ConstInt("jsonrpc", n)
			if !ok {
				v, ok = c.ConstInt("internal/jsonrpc2", n)
			}
			if !ok {
				// jsonrpc re-exports the codes of internal/jsonrpc2 wire.go (ErrX = NewError(code, ...)).
				v, ok = wireErrCode(c, n)
			}
			if !ok {
				c.Errf("preflight: jsonrpc.%s not found", n)
			}
			w("/-- jsonrpc `%s` -/\ndef %s : Int := %s\n", n, lowerFirst(n), leanInt(v))
		}
		if v, ok := c.ConstInt("mcp", "DefaultMaxRequestBodyBytes"); ok {
			w("/-- mcp `DefaultMaxRequestBodyBytes` -/\ndef defaultMaxRequestBodyBytes : Nat := %d\n", v)
		} else {
			c.Errf("preflight: DefaultMaxRequestBodyBytes is not a constant")
		}

		// ---- supportedProtocolVersions (order kept)
		var vers []string
		if cl, ok := c.ValueExpr("mcp", "supportedProtocolVersions").(*ast.CompositeLit); ok {
			for _, e := range cl.Elts {
				if v, ok := c.Const("mcp", e); ok {
					vers = append(vers, strings.Trim(v.ExactString(), `"`))
				} else {
					c.Errf("preflight: supportedProtocolVersions element %s not constant", c.Src(e))
				}
			}
		} else {
			c.Errf("preflight: supportedProtocolVersions is not a composite literal")
		}
		w("/-- mcp `supportedProtocolVersions` = %v -/\ndef supportedProtocolVersions : List (List Nat) := [%s]\n", vers, joinMap(vers, leanBytes))

		// ---- the Accept switch of streamableAccepts: case list -> (jsonOK, streamOK)
		type row struct {
			s    string
			j, e bool
		}
		var rows []row
		if fd := c.Func("mcp", "", "streamableAccepts"); fd != nil {
			ast.Inspect(fd.Body, func(n ast.Node) bool {
				sw, ok := n.(*ast.SwitchStmt)
				if !ok {
					return true
				}
				c.Fact("preflight.accept_switch_tag", c.Src(sw.Tag))
				for _, st := range sw.Body.List {
					cc := st.(*ast.CaseClause)
					j, e := false, false
					for _, s := range cc.Body {
						switch c.Src(s) {
						case "jsonOK = true":
							j = true
						case "streamOK = true":
							e = true
						default:
							c.Errf("preflight: unexpected statement in Accept switch: %s", c.Src(s))
						}
					}
					if cc.List == nil {
						c.Errf("preflight: Accept switch has a default clause")
					}
					for _, x := range cc.List {
						v, ok := c.Const("mcp", x)
						if !ok {
							c.Errf("preflight: non-constant Accept case %s", c.Src(x))
							continue
						}
						rows = append(rows, row{strings.Trim(v.ExactString(), `"`), j, e})
					}
				}
				return false
			})
			// the token normalisation around the switch (structural fact)
			var norm []string
			ast.Inspect(fd.Body, func(n ast.Node) bool {
				if as, ok := n.(*ast.AssignStmt); ok {
					norm = append(norm, c.Src(as))
				}
				if rs, ok := n.(*ast.RangeStmt); ok {
					norm = append(norm, "range "+c.Src(rs.X))
				}
				return true
			})
			c.Fact("preflight.accept_normalisation", norm)
		} else {
			c.Errf("preflight: streamableAccepts not found")
		}
		w("/-- the `switch` of mcp `streamableAccepts`: normalised token ↦ (jsonOK, streamOK) -/\ndef acceptTable : List (List Nat × Bool × Bool) := [")
		for i, r := range rows {
			if i > 0 {
				w(", ")
			}
			w("\n  (%s, %v, %v) /- %s -/", leanBytes(r.s), r.j, r.e, strconv.Quote(r.s))
		}
		w("]\n")

		// ---- methods that carry Mcp-Name, primitive types allowed for x-mcp-header, tchar specials
		if fd := c.Func("mcp", "", "validateMcpHeaders"); fd != nil {
			named := eqChainStrings(c, fd.Body, "msg.Method", token.EQL, token.LOR)
			w("/-- methods for which mcp `validateMcpHeaders` requires Mcp-Name -/\ndef namedMethods : List (List Nat) := [%s] /- %v -/\n", joinMap(named, leanBytes), named)
		} else {
			c.Errf("preflight: validateMcpHeaders not found")
		}
		if fd := c.Func("mcp", "", "extractName"); fd != nil {
			var cases []string
			ast.Inspect(fd.Body, func(n ast.Node) bool {
				if cc, ok := n.(*ast.CaseClause); ok {
					for _, x := range cc.List {
						if v, ok := c.Const("mcp", x); ok {
							cases = append(cases, strings.Trim(v.ExactString(), `"`))
						}
					}
				}
				return true
			})
			c.Fact("preflight.extractName_cases", cases)
		}
		if fd := c.Func("mcp", "", "validateParamHeadersIn"); fd != nil {
			tys := eqChainStrings(c, fd.Body, "prop.Type", token.NEQ, token.LAND)
			w("/-- schema types mcp `validateParamHeadersIn` allows under x-mcp-header -/\ndef primitiveTypes : List (List Nat) := [%s] /- %v -/\n", joinMap(tys, leanBytes), tys)
		} else {
			c.Errf("preflight: validateParamHeadersIn not found")
		}
		if fd := c.Func("mcp", "", "isTChar"); fd != nil {
			var specials []string
			var ranges []string
			ast.Inspect(fd.Body, func(n ast.Node) bool {
				cc, ok := n.(*ast.CaseClause)
				if !ok {
					return true
				}
				for _, x := range cc.List {
					if bl, ok := x.(*ast.BasicLit); ok && bl.Kind == token.CHAR {
						r, _, _, _ := strconv.UnquoteChar(bl.Value[1:len(bl.Value)-1], '\'')
						specials = append(specials, strconv.Itoa(int(r)))
					} else {
						ranges = append(ranges, c.Src(x))
					}
				}
				return true
			})
			w("/-- the special characters of mcp `isTChar` (besides DIGIT / ALPHA) -/\ndef tcharSpecials : List Nat := [%s]\n", strings.Join(specials, ", "))
			c.Fact("preflight.tchar_ranges", ranges)
		} else {
			c.Errf("preflight: isTChar not found")
		}

		// ---- expressions, through the tiny translator
		tr := &exprTr{c: c, vars: map[string]string{"protocolVersion": "pv", "metaVersion": "mv", "isBatch": "isBatch"},
			consts: map[string]bool{"supportedProtocolVersions": true, "protocolVersion20260728": true, "protocolVersion20250618": true,
				"minVersionForStandardHeaders": true, "protocolVersion20250326": true}}
		emit := func(name, doc, params string, e ast.Expr) {
			if e == nil {
				c.Errf("preflight: expression for %s not found", name)
				w("def %s %s : Bool := false\n", name, params)
				return
			}
			s, ok := tr.tr(e)
			if !ok {
				c.Errf("preflight: expression for %s left the translatable subset: %s", name, c.Src(e))
				s = "false"
			}
			w("/-- %s: `%s` -/\ndef %s %s : Bool := %s\n", doc, c.Src(e), name, params, s)
		}
		sh := c.Func("mcp", "StreamableHTTPHandler", "ServeHTTP")
		emit("versionGateRejects", "StreamableHTTPHandler.ServeHTTP, the version-header gate", "(pv : List Nat)",
			findIfCond(c, sh, func(s string) bool { return strings.Contains(s, "supportedProtocolVersions") }))
		sp := c.Func("mcp", "streamableServerConn", "servePOST")
		emit("batchGateRejects", "streamableServerConn.servePOST, the batch gate", "(isBatch : Bool) (pv : List Nat)",
			findIfCond(c, sp, func(s string) bool { return strings.HasPrefix(s, "isBatch") }))
		// every variable of servePOST that is in scope at that point and that the translator knows is a parameter (the
		// readBatch flag too): a condition that starts to consult one of them still translates, and the theorems about
		// the gate (meta_gate_ignores_batch …) are what re-opens
		w("set_option linter.unusedVariables false in\n")
		emit("perRequestMetaApplies", "streamableServerConn.servePOST, when the SEP-2575 mirror is checked", "(isBatch : Bool) (pv mv : List Nat)",
			findIfCond(c, sp, func(s string) bool { return strings.Contains(s, "metaVersion != \"\"") && strings.Contains(s, "||") }))
		// where servePOST consults the readBatch flag (structural fact): the batch gate and the single-message header mirror
		if sp != nil {
			var uses []string
			ast.Inspect(sp.Body, func(n ast.Node) bool {
				switch x := n.(type) {
				case *ast.IfStmt:
					if x.Cond != nil && preflightMentions(x.Cond, "isBatch") {
						uses = append(uses, "if "+c.Src(x.Cond))
					}
				case *ast.AssignStmt:
					for _, r := range x.Rhs {
						if preflightMentions(r, "isBatch") {
							uses = append(uses, c.Src(x))
						}
					}
				case *ast.CallExpr:
					for _, a := range x.Args {
						if id, ok := a.(*ast.Ident); ok && id.Name == "isBatch" {
							uses = append(uses, "arg of "+c.Src(x.Fun))
						}
					}
				}
				return true
			})
			c.Fact("preflight.servePOST_isBatch_uses", uses)
		}
		emit("methodNotFoundAs404", "streamableServerConn.servePOST, version part of the 404 arm", "(pv : List Nat)",
			firstConjunct(findIfCond(c, sp, func(s string) bool { return strings.Contains(s, "ErrNotHandled") })))
		tr.vars = map[string]string{"protocolVersion": "pv"}
		emit("standardHeadersSkipped", "validateMcpHeaders, the early return", "(pv : List Nat)",
			findIfCond(c, c.Func("mcp", "", "validateMcpHeaders"), func(s string) bool { return strings.Contains(s, "minVersionForStandardHeaders") }))
		// the client's guard is written with header.Get(...): compare texts after substitution
		if fd := c.Func("mcp", "", "setStandardHeaders"); fd != nil {
			e := findIfCond(c, fd, func(s string) bool { return strings.Contains(s, "minVersionForStandardHeaders") })
			got := ""
			if e != nil {
				got = strings.ReplaceAll(c.Src(e), "header.Get(protocolVersionHeader)", "protocolVersion")
			}
			c.Fact("preflight.client_guard", got)
		}
		// default protocol version when the header is absent (servePOST)
		if sp != nil {
			def := ""
			ast.Inspect(sp.Body, func(n ast.Node) bool {
				if is, ok := n.(*ast.IfStmt); ok && c.Src(is.Cond) == `protocolVersion == ""` && len(is.Body.List) == 1 {
					def = c.Src(is.Body.List[0])
				}
				return true
			})
			c.Fact("preflight.servePOST_default_version", def)
		}
		// ---- how `params` is decoded: the member each extractor reads (json tags) and the decoder it calls
		preflightParamsDecoding(c, w)
		w("end Generated.Preflight\n")
		c.Lean["PreflightGen"] = b.String()

		// ---- structural facts: the answers of each gate function in source order
		for _, f := range []struct{ recv, name string }{
			{"StreamableHTTPHandler", "ServeHTTP"}, {"StreamableHTTPHandler", "serveStateless"}, {"StreamableHTTPHandler", "serveStateful"},
			{"StreamableHTTPHandler", "serveStatefulPOST"}, {"StreamableHTTPHandler", "serveStatefulGET"}, {"StreamableHTTPHandler", "serveStatefulDELETE"},
			{"StreamableHTTPHandler", "lookupSession"}, {"", "serveEphemeral"},
			{"streamableServerConn", "servePOST"}, {"SSEHandler", "ServeHTTP"}, {"SSEServerTransport", "ServeHTTP"}} {
			fd := c.Func("mcp", f.recv, f.name)
			if fd == nil {
				c.Errf("preflight: %s.%s not found", f.recv, f.name)
				continue
			}
			c.Fact("preflight.order."+f.recv+"."+f.name, gateOrder(c, fd))
		}
		// validateMcpHeaders / validateParamHeaders: the error texts in source order
		for _, n := range []string{"validateMcpHeaders", "validateParamHeaders"} {
			fd := c.Func("mcp", "", n)
			if fd == nil {
				c.Errf("preflight: %s not found", n)
				continue
			}
			var errs []string
			ast.Inspect(fd.Body, func(x ast.Node) bool {
				if rs, ok := x.(*ast.ReturnStmt); ok && len(rs.Results) == 1 {
					if ce, ok := rs.Results[0].(*ast.CallExpr); ok && len(ce.Args) > 0 {
						if bl, ok := ce.Args[0].(*ast.BasicLit); ok {
							t, _ := strconv.Unquote(bl.Value)
							errs = append(errs, firstWords(t, 4))
						}
					}
				}
				return true
			})
			c.Fact("preflight.errors."+n, errs)
		}
		// requiresBase64Encoding: the comparisons it makes (bounds of the plain range, blanks)
		if fd := c.Func("mcp", "", "requiresBase64Encoding"); fd != nil {
			var conds []string
			ast.Inspect(fd.Body, func(x ast.Node) bool {
				if is, ok := x.(*ast.IfStmt); ok {
					conds = append(conds, c.Src(is.Cond))
				}
				return true
			})
			c.Fact("preflight.requiresBase64_conds", conds)
		}
		// body limit: MaxBytesReader argument and the defaulting
		if sh != nil {
			arg := ""
			ast.Inspect(sh.Body, func(x ast.Node) bool {
				if ce, ok := x.(*ast.CallExpr); ok && c.Src(ce.Fun) == "http.MaxBytesReader" && len(ce.Args) == 3 {
					arg = c.Src(ce.Args[2])
				}
				return true
			})
			c.Fact("preflight.maxbytes_arg", arg)
			c.Fact("preflight.maxbytes_guard", condOfIfContaining(c, sh, "http.MaxBytesReader"))
		}
		// the client's list cache (mcp/cache.go) as the session model (Preflight/Seq.lean) transliterates it: what an
		// invalidation does, when a result is stored, and the order of ListTools
		for _, n := range []string{"invalidate", "putIfCurrent", "gen"} {
			if fd := c.Func("mcp", "methodCache", n); fd != nil {
				var stmts []string
				for _, st := range fd.Body.List {
					src := strings.Join(strings.Fields(c.Src(st)), " ")
					if strings.Contains(src, "mu.Lock()") || strings.Contains(src, "mu.Unlock()") {
						continue
					}
					stmts = append(stmts, src)
				}
				c.Fact("preflight.cache."+n, stmts)
			} else {
				c.Errf("preflight: methodCache.%s not found", n)
			}
		}
		if fd := c.Func("mcp", "ClientSession", "ListTools"); fd != nil {
			var calls []string
			ast.Inspect(fd.Body, func(x ast.Node) bool {
				if ce, ok := x.(*ast.CallExpr); ok {
					f := c.Src(ce.Fun)
					for _, want := range []string{"cachedListResult", "toolsCache.gen", "handleSend", "filterValidTools", "toolsCache.putIfCurrent", "toolsCache.put"} {
						if strings.HasSuffix(f, want) || strings.HasPrefix(f, want+"[") {
							calls = append(calls, want)
						}
					}
				}
				return true
			})
			c.Fact("preflight.order.ClientSession.ListTools", calls)
		} else {
			c.Errf("preflight: ClientSession.ListTools not found")
		}
		_ = sort.Strings
	})
}

func lowerFirst(s string) string { return strings.ToLower(s[:1]) + s[1:] }

func leanInt(v int64) string {
	if v < 0 {
		return fmt.Sprintf("(%d)", v)
	}
	return fmt.Sprintf("%d", v)
}

func leanBytes(s string) string {
	parts := make([]string, len(s))
	for i := 0; i < len(s); i++ {
		parts[i] = strconv.Itoa(int(s[i]))
	}
	return "[" + strings.Join(parts, ", ") + "]"
}

func joinMap(ss []string, f func(string) string) string {
	out := make([]string, len(ss))
	for i, s := range ss {
		out[i] = f(s)
	}
	return strings.Join(out, ", ")
}

func firstWords(s string, n int) string {
	f := strings.Fields(s)
	if len(f) > n {
		f = f[:n]
	}
	return strings.Join(f, " ")
}

// wireErrCode finds `ErrX = NewError(<code>, ...)` style declarations for jsonrpc.CodeX constants.
func wireErrCode(c *Ctx, name string) (int64, bool) {
	for _, dir := range []string{"jsonrpc", "internal/jsonrpc2"} {
		if e := c.ValueExpr(dir, name); e != nil {
			if v, ok := c.Const(dir, e); ok {
				if n, ok := constInt64(v.ExactString()); ok {
					return n, true
				}
			}
			// jsonrpc.CodeX = jsonrpc2.CodeX
			if se, ok := e.(*ast.SelectorExpr); ok {
				if n, ok := c.ConstInt("internal/jsonrpc2", se.Sel.Name); ok {
					return n, true
				}
			}
		}
	}
	return 0, false
}

func constInt64(s string) (int64, bool) {
	n, err := strconv.ParseInt(s, 10, 64)
	return n, err == nil
}

// eqChainStrings finds the first binary chain  lhs OP "a" JOIN lhs OP "b" ...  and returns the literals.
func eqChainStrings(c *Ctx, body ast.Node, lhs string, op, join token.Token) []string {
	var best []string
	ast.Inspect(body, func(n ast.Node) bool {
		be, ok := n.(*ast.BinaryExpr)
		if !ok || be.Op != join || best != nil {
			return true
		}
		var lits []string
		okAll := true
		var walk func(e ast.Expr)
		walk = func(e ast.Expr) {
			if b, ok := e.(*ast.BinaryExpr); ok && b.Op == join {
				walk(b.X)
				walk(b.Y)
				return
			}
			if b, ok := e.(*ast.BinaryExpr); ok && b.Op == op && c.Src(b.X) == lhs {
				if v, ok := c.Const("mcp", b.Y); ok {
					lits = append(lits, strings.Trim(v.ExactString(), `"`))
					return
				}
			}
			okAll = false
		}
		walk(be)
		if okAll && len(lits) > 1 {
			best = lits
			return false
		}
		return true
	})
	return best
}

func findIfCond(c *Ctx, fd *ast.FuncDecl, pred func(string) bool) ast.Expr {
	if fd == nil {
		return nil
	}
	var out ast.Expr
	ast.Inspect(fd.Body, func(n ast.Node) bool {
		if is, ok := n.(*ast.IfStmt); ok && out == nil && pred(c.Src(is.Cond)) {
			out = is.Cond
		}
		return true
	})
	return out
}

func condOfIfContaining(c *Ctx, fd *ast.FuncDecl, text string) string {
	out := ""
	ast.Inspect(fd.Body, func(n ast.Node) bool {
		if is, ok := n.(*ast.IfStmt); ok && out == "" && strings.Contains(c.Src(is.Body), text) {
			out = c.Src(is.Cond)
		}
		return true
	})
	return out
}

// preflightMentions reports whether the expression contains the identifier name.
func preflightMentions(e ast.Node, name string) bool {
	found := false
	ast.Inspect(e, func(n ast.Node) bool {
		if id, ok := n.(*ast.Ident); ok && id.Name == name {
			found = true
		}
		return !found
	})
	return found
}

func firstConjunct(e ast.Expr) ast.Expr {
	for {
		b, ok := e.(*ast.BinaryExpr)
		if !ok || b.Op != token.LAND {
			return e
		}
		e = b.X
	}
}

// exprTr translates the tiny expression subset of Appendix B into Lean (over byte strings).
type exprTr struct {
	c      *Ctx
	vars   map[string]string
	consts map[string]bool
}

func (t *exprTr) tr(e ast.Expr) (string, bool) {
	switch x := e.(type) {
	case *ast.ParenExpr:
		s, ok := t.tr(x.X)
		return "(" + s + ")", ok
	case *ast.Ident:
		if v, ok := t.vars[x.Name]; ok {
			return v, true
		}
		if t.consts[x.Name] {
			return x.Name, true
		}
		return "", false
	case *ast.BasicLit:
		if x.Kind == token.STRING {
			s, err := strconv.Unquote(x.Value)
			return "(" + leanBytes(s) + " : List Nat)", err == nil
		}
		return "", false
	case *ast.UnaryExpr:
		if x.Op == token.NOT {
			s, ok := t.tr(x.X)
			return "!(" + s + ")", ok
		}
		return "", false
	case *ast.CallExpr:
		if t.c.Src(x.Fun) == "slices.Contains" && len(x.Args) == 2 {
			a, ok1 := t.tr(x.Args[0])
			b, ok2 := t.tr(x.Args[1])
			return "(" + a + ").contains " + b, ok1 && ok2
		}
		return "", false
	case *ast.BinaryExpr:
		a, ok1 := t.tr(x.X)
		b, ok2 := t.tr(x.Y)
		if !ok1 || !ok2 {
			return "", false
		}
		switch x.Op {
		case token.LAND:
			return "(" + a + " && " + b + ")", true
		case token.LOR:
			return "(" + a + " || " + b + ")", true
		case token.EQL:
			return "(" + a + " == " + b + ")", true
		case token.NEQ:
			return "(" + a + " != " + b + ")", true
		case token.LSS:
			return "(bLt " + a + " " + b + ")", true
		case token.GEQ:
			return "(bLe " + b + " " + a + ")", true
		case token.GTR:
			return "(bLt " + b + " " + a + ")", true
		case token.LEQ:
			return "(bLe " + a + " " + b + ")", true
		}
	}
	return "", false
}

// gateOrder lists, in source order, what a gate function answers: "<status>[/<jsonrpc code>][ Allow=<v>]" for
// every http.Error / writeJSONRPCError / WriteHeader, and "->callee" for the hand-offs that matter.
func gateOrder(c *Ctx, fd *ast.FuncDecl) []string {
	var out []string
	allow := ""
	handoff := map[string]bool{"h.serveStateless": true, "h.serveStateful": true, "h.serveStatefulGET": true, "h.serveStatefulPOST": true,
		"h.serveStatefulDELETE": true, "h.lookupSession": true, "transport.ServeHTTP": true, "sessInfo.transport.ServeHTTP": true,
		"h.ephemeralConnectOpts": true, "connectStreamable": true, "validateMcpHeaders": true, "readBatch": true, "checkRequest": true,
		"io.ReadAll": true, "session.ServeHTTP": true, "jsonrpc2.DecodeMessage": true, "h.getServer": true, "streamableAccepts": true,
		"baseMediaType": true, "mime.ParseMediaType": true, "util.IsLoopback": true, "h.opts.CrossOriginProtection.Check": true,
		"http.MaxBytesReader": true, "sessInfo.session.Close": true, "extractRequestMeta": true, "serveEphemeral": true}
	ast.Inspect(fd.Body, func(n ast.Node) bool {
		switch x := n.(type) {
		case *ast.FuncLit:
			return false // closures (CloseSSEStream, onClose) are not part of the gate order
		case *ast.SendStmt:
			out = append(out, "enqueue")
		case *ast.CallExpr:
			fn := c.Src(x.Fun)
			switch {
			case fn == "w.Header().Set" && len(x.Args) == 2 && c.Src(x.Args[0]) == `"Allow"`:
				allow = strings.Trim(c.Src(x.Args[1]), `"`)
			case fn == "w.Header().Set" && len(x.Args) == 2 && c.Src(x.Args[0]) == `"Cache-Control"`:
				out = append(out, "mark:Cache-Control="+strings.Trim(c.Src(x.Args[1]), `"`))
			case fn == "http.Error" && len(x.Args) == 3:
				s := statusName(c, x.Args[2])
				if allow != "" {
					s += " Allow=" + allow
					allow = ""
				}
				out = append(out, s)
			case fn == "writeJSONRPCError" && len(x.Args) == 4:
				code := "?"
				ast.Inspect(x.Args[3], func(m ast.Node) bool {
					if kv, ok := m.(*ast.KeyValueExpr); ok && c.Src(kv.Key) == "Code" {
						code = c.Src(kv.Value)
					}
					return true
				})
				out = append(out, statusName(c, x.Args[1])+"/"+code)
			case fn == "w.WriteHeader" && len(x.Args) == 1:
				out = append(out, statusName(c, x.Args[0]))
			case fn == "jsonrpc2.NewError" && len(x.Args) == 2:
				out = append(out, "rpc/"+c.Src(x.Args[0]))
			case handoff[fn]:
				out = append(out, "->"+fn)
			}
		}
		return true
	})
	return out
}

func statusName(c *Ctx, e ast.Expr) string {
	return strings.TrimPrefix(c.Src(e), "http.Status")
}

// preflightParamsDecoding regenerates what the model needs to decode `params` the way the SDK does: for every case of
// extractName's switch the json name of the field it returns (Mcp-Name is compared with that member), the json names
// of the `arguments` and `_meta` members read by validateParamHeaders / generateParamHeaders / extractRequestMeta, the
// protocol-version key of _meta; and, as structural facts, which decoder every one of these functions calls (the SDK's
// case-sensitive internal/json, not encoding/json, whose member matching is case-insensitive).
func preflightParamsDecoding(c *Ctx, w func(format string, a ...any)) {
	// group -> the distinct decoder entry points its functions call (sorted). The `arguments` group is the two functions
	// that read params.arguments plus the helper they may share (decodeArguments, fix preflight-F31).
	decoders := map[string][]string{}
	groups := []struct {
		name string
		fns  []string
	}{{"extractName", []string{"extractName"}}, {"extractRequestMeta", []string{"extractRequestMeta"}},
		{"arguments", []string{"validateParamHeaders", "generateParamHeaders", "decodeArguments"}}, {"lookupArgument", []string{"lookupArgument"}}}
	for _, grp := range groups {
		set := map[string]bool{}
		for i, fn := range grp.fns {
			fd := c.Func("mcp", "", fn)
			if fd == nil {
				if i == 0 {
					c.Errf("preflight: %s not found", fn)
				}
				continue
			}
			ast.Inspect(fd.Body, func(n ast.Node) bool {
				if ce, ok := n.(*ast.CallExpr); ok {
					if se, ok := ce.Fun.(*ast.SelectorExpr); ok && (se.Sel.Name == "Unmarshal" || se.Sel.Name == "NewDecoder") {
						set[c.Src(ce.Fun)] = true
					}
				}
				return true
			})
		}
		calls := []string{}
		for k := range set {
			calls = append(calls, k)
		}
		sort.Strings(calls)
		decoders[grp.name] = calls
	}
	c.Fact("preflight.params_decoders", decoders)

	// the struct type of a variable declared `var <name> T` in one of the given blocks (innermost first)
	varStruct := func(name string, blocks ...ast.Node) (*ast.StructType, string) {
		for _, blk := range blocks {
			var st *ast.StructType
			tn := ""
			ast.Inspect(blk, func(n ast.Node) bool {
				ds, ok := n.(*ast.DeclStmt)
				if !ok || st != nil {
					return st == nil
				}
				gd, ok := ds.Decl.(*ast.GenDecl)
				if !ok || gd.Tok != token.VAR {
					return true
				}
				for _, sp := range gd.Specs {
					vs := sp.(*ast.ValueSpec)
					for _, id := range vs.Names {
						if id.Name != name || vs.Type == nil {
							continue
						}
						switch t := vs.Type.(type) {
						case *ast.Ident:
							st, tn = c.namedStruct("mcp", t.Name), t.Name
						case *ast.StructType:
							st, tn = t, "struct"
						}
					}
				}
				return true
			})
			if st != nil {
				return st, tn
			}
		}
		return nil, ""
	}
	jsonNameOf := func(st *ast.StructType, goField string) (string, string, bool) {
		for _, f := range c.structFields(st) {
			if f.Go == goField {
				return f.JSON, f.Type, true
			}
		}
		return "", "", false
	}

	// extractName: case list -> returned field -> json name
	type nm struct{ method, key, from string }
	var rows []nm
	if fd := c.Func("mcp", "", "extractName"); fd != nil {
		ast.Inspect(fd.Body, func(n ast.Node) bool {
			cc, ok := n.(*ast.CaseClause)
			if !ok {
				return true
			}
			var methods []string
			for _, x := range cc.List {
				if v, ok := c.Const("mcp", x); ok {
					methods = append(methods, strings.Trim(v.ExactString(), `"`))
				}
			}
			for _, st := range cc.Body {
				ast.Inspect(st, func(m ast.Node) bool {
					rs, ok := m.(*ast.ReturnStmt)
					if !ok || len(rs.Results) != 2 || c.Src(rs.Results[1]) != "true" {
						return true
					}
					se, ok := rs.Results[0].(*ast.SelectorExpr)
					if !ok {
						c.Errf("preflight: extractName returns %s (not a field of the decoded params)", c.Src(rs.Results[0]))
						return true
					}
					v, ok := se.X.(*ast.Ident)
					if !ok {
						c.Errf("preflight: extractName returns %s", c.Src(se))
						return true
					}
					stt, tn := varStruct(v.Name, cc, fd.Body)
					if stt == nil {
						c.Errf("preflight: extractName: type of %s not found", v.Name)
						return true
					}
					key, _, ok := jsonNameOf(stt, se.Sel.Name)
					if !ok {
						c.Errf("preflight: extractName: %s has no field %s", tn, se.Sel.Name)
						return true
					}
					for _, me := range methods {
						rows = append(rows, nm{me, key, "field " + se.Sel.Name})
					}
					return true
				})
			}
			return true
		})
	}
	if len(rows) == 0 {
		c.Errf("preflight: extractName: no (method, member) rows found")
	}
	sort.SliceStable(rows, func(i, j int) bool { return rows[i].method < rows[j].method })
	w("/-- mcp `extractName`: method ↦ json name of the params member it returns (the value `Mcp-Name` must equal) -/\ndef nameMember : List (List Nat × List Nat) := [")
	var fieldFacts []string
	for i, r := range rows {
		if i > 0 {
			w(", ")
		}
		w("\n  (%s, %s) /- %s: %s = %q -/", leanBytes(r.method), leanBytes(r.key), r.method, r.from, r.key)
		fieldFacts = append(fieldFacts, r.method+":"+r.key)
	}
	w("]\n")
	c.Fact("preflight.extractName_members", fieldFacts)

	// `arguments`: the local struct `raw` of validateParamHeaders / generateParamHeaders, or of the helper they share
	argKey := ""
	for _, fn := range []string{"validateParamHeaders", "generateParamHeaders", "decodeArguments"} {
		fd := c.Func("mcp", "", fn)
		if fd == nil {
			continue
		}
		st, _ := varStruct("raw", fd.Body)
		if st == nil {
			continue
		}
		k, _, ok := jsonNameOf(st, "Arguments")
		if !ok {
			c.Errf("preflight: %s: raw has no field Arguments", fn)
			continue
		}
		if argKey != "" && k != argKey {
			c.Errf("preflight: %s reads member %q, others read %q", fn, k, argKey)
		}
		argKey = k
	}
	if argKey == "" {
		c.Errf("preflight: no `var raw struct{ Arguments ... }` in validateParamHeaders / generateParamHeaders / decodeArguments")
	}
	w("/-- json name of the member `validateParamHeaders` / `generateParamHeaders` decode the arguments from -/\ndef memberArguments : List Nat := %s /- %q -/\n", leanBytes(argKey), argKey)

	// `_meta`: the local struct of extractRequestMeta
	metaKey := ""
	if fd := c.Func("mcp", "", "extractRequestMeta"); fd != nil {
		if st, _ := varStruct("meta", fd.Body); st != nil {
			k, ty, ok := jsonNameOf(st, "Meta")
			if ok {
				metaKey = k
				c.Fact("preflight.meta_field_type", ty)
			}
		}
	}
	if metaKey == "" {
		c.Errf("preflight: extractRequestMeta: the Meta field of `var meta struct{...}` not found")
	}
	w("/-- json name of the member `extractRequestMeta` decodes -/\ndef memberMeta : List Nat := %s /- %q -/\n", leanBytes(metaKey), metaKey)
	if s, ok := c.ConstString("mcp", "MetaKeyProtocolVersion"); ok {
		w("/-- mcp `MetaKeyProtocolVersion` = %s -/\ndef metaKeyProtocolVersion : List Nat := %s\n", strconv.Quote(s), leanBytes(s))
	} else {
		c.Errf("preflight: MetaKeyProtocolVersion is not a string constant")
	}
}
