package main

import (
	"go/ast"
	"strings"
)

// E14 (C18), client side: the statements Notify/Roots.lean transliterates — the client's changeAndNotify
// (change, gate and session snapshot in ONE critical section, the writes outside), the roots branch of
// Client.shouldSendListChangedNotification (nil capabilities, RootsV2 before Roots) and what AddRoots /
// RemoveRoots hand to it.
func init() {
	reg(func(c *Ctx) {
		norm := func(n ast.Node) string { return strings.Join(strings.Fields(c.Src(n)), " ") }
		stmts := func(b *ast.BlockStmt) []string {
			out := []string{}
			if b != nil {
				for _, s := range b.List {
					out = append(out, norm(s))
				}
			}
			return out
		}
		if fd := c.Func("mcp", "", "changeAndNotify"); fd != nil {
			c.Fact("notify.client_changeAndNotify", stmts(fd.Body))
		} else {
			c.Errf("notify: client changeAndNotify not found")
		}
		gate := []string{}
		if fd := c.Func("mcp", "Client", "shouldSendListChangedNotification"); fd != nil {
			for _, s := range fd.Body.List {
				sw, ok := s.(*ast.SwitchStmt)
				if !ok {
					gate = append(gate, norm(s))
					continue
				}
				gate = append(gate, "switch "+norm(sw.Tag))
				for _, cc := range sw.Body.List {
					cl := cc.(*ast.CaseClause)
					head := "default"
					if len(cl.List) > 0 {
						hs := []string{}
						for _, e := range cl.List {
							hs = append(hs, norm(e))
						}
						head = "case " + strings.Join(hs, ",")
					}
					for _, b := range cl.Body {
						gate = append(gate, head+": "+norm(b))
					}
				}
			}
		} else {
			c.Errf("notify: Client.shouldSendListChangedNotification not found")
		}
		c.Fact("notify.client_roots_gate", gate)
		calls := map[string]any{}
		for _, n := range []string{"AddRoots", "RemoveRoots"} {
			if fd := c.Func("mcp", "Client", n); fd != nil {
				calls[n] = stmts(fd.Body)
			} else {
				c.Errf("notify: Client.%s not found", n)
			}
		}
		c.Fact("notify.client_roots_calls", calls)
	})
}
