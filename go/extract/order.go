package main

import (
	"fmt"
	"go/ast"
	"go/token"
	"regexp"
	"sort"
	"strings"
)

// Engine `order` (C03, end-to-end half).  Regenerated: which calls do NOT declare themselves
// asynchronous on either side (the `jsonrpc2.Async` guards of ServerSession.handle and
// ClientSession.handle) — the Lean model's classification of messages into synchronous and
// asynchronous ones is built on these lists.  Structural facts: Async runs before user code; the
// dispatcher waits for the releaser and a handler that never called Async releases only after
// processResult; Notify returns the result of write, which calls the transport's Write; the HTTP POST
// paths (streamable, SSE) put the message into the session's channel before they write 202; a
// temporary (stateless) streamable session is drained before it is closed.
func init() { reg(orderExtract) }

func orderExtract(c *Ctx) {
	bad := func(format string, a ...any) { c.Errf("order: "+format, a...) }

	// ---- the Async guards
	guard := func(recv string) (src string, syncCalls []string, ok bool) {
		fd := c.Func("mcp", recv, "handle")
		if fd == nil || fd.Body == nil {
			bad("%s.handle not found", recv)
			return "?", nil, false
		}
		var found *ast.IfStmt
		n := 0
		ast.Inspect(fd.Body, func(x ast.Node) bool {
			if is, isIf := x.(*ast.IfStmt); isIf && is.Else == nil && is.Init == nil && len(is.Body.List) == 1 && c.Src(is.Body.List[0]) == "jsonrpc2.Async(ctx)" {
				found = is
				n++
			}
			return true
		})
		if n != 1 || strings.Count(c.Src(fd.Body), "jsonrpc2.Async(") != 1 {
			bad("%s.handle: expected exactly one `if … { jsonrpc2.Async(ctx) }`", recv)
			return "?", nil, false
		}
		src = c.Src(found.Cond)
		// cond ::= req.IsCall() { && req.Method != <string constant> }
		var conj []ast.Expr
		var flat func(e ast.Expr)
		flat = func(e ast.Expr) {
			if b, isB := e.(*ast.BinaryExpr); isB && b.Op == token.LAND {
				flat(b.X)
				flat(b.Y)
				return
			}
			if p, isP := e.(*ast.ParenExpr); isP {
				flat(p.X)
				return
			}
			conj = append(conj, e)
		}
		flat(found.Cond)
		if len(conj) == 0 || c.Src(conj[0]) != "req.IsCall()" {
			bad("%s.handle: Async guard %q does not start with req.IsCall()", recv, src)
			return src, nil, false
		}
		syncCalls = []string{}
		for _, e := range conj[1:] {
			b, isB := e.(*ast.BinaryExpr)
			if !isB || b.Op != token.NEQ || c.Src(b.X) != "req.Method" {
				bad("%s.handle: unexpected conjunct %q in the Async guard", recv, c.Src(e))
				return src, nil, false
			}
			v, isC := c.Const("mcp", b.Y)
			if !isC {
				bad("%s.handle: %q is not a constant", recv, c.Src(b.Y))
				return src, nil, false
			}
			syncCalls = append(syncCalls, strings.Trim(v.ExactString(), `"`))
		}
		// Async must come before the request reaches user code (handleReceive), at the top level of the body
		ai, hi := -1, -1
		for i, st := range fd.Body.List {
			if st == ast.Stmt(found) {
				ai = i
			}
			if hi < 0 && strings.Contains(c.Src(st), "handleReceive(") {
				hi = i
			}
		}
		if ai < 0 || hi < 0 || ai > hi {
			bad("%s.handle: the Async guard is not a top-level statement before handleReceive", recv)
			return src, syncCalls, false
		}
		return src, syncCalls, true
	}
	sSrc, sSync, sOK := guard("ServerSession")
	cSrc, cSync, cOK := guard("ClientSession")
	c.Fact("order.async_guard", map[string]any{"server": sSrc, "client": cSrc, "server_sync_calls": sSync, "client_sync_calls": cSync,
		"before_handleReceive": sOK && cOK})
	if !sOK {
		sSync = []string{"<unparsed>"}
	}
	if !cOK {
		cSync = []string{"<unparsed>"}
	}
	methodInit, _ := c.ConstString("mcp", "methodInitialize")
	c.Lean["OrderGen"] = fmt.Sprintf(`namespace Generated.Order
/-- mcp/server.go ServerSession.handle: `+"`if %s { jsonrpc2.Async(ctx) }`"+` — calls that stay synchronous on the server -/
def serverSyncCalls : List String := %s
/-- mcp/client.go ClientSession.handle: `+"`if %s { jsonrpc2.Async(ctx) }`"+` — calls that stay synchronous on the client -/
def clientSyncCalls : List String := %s
/-- mcp/protocol.go methodInitialize -/
def methodInitialize : String := %s
end Generated.Order
`, sSrc, LeanStrList(sSync), cSrc, LeanStrList(cSync), LeanStr(methodInit))

	// ---- jsonrpc2: dispatcher waits for the releaser; sync handlers release after processResult
	disp := map[string]any{}
	if fd := c.Func("internal/jsonrpc2", "Connection", "handleAsync"); fd != nil && fd.Body != nil {
		var loop *ast.ForStmt
		if len(fd.Body.List) == 1 {
			loop, _ = fd.Body.List[0].(*ast.ForStmt)
		}
		if loop == nil {
			bad("handleAsync is not a single for loop")
		} else {
			var tail []string
			seenGo := false
			for _, st := range loop.Body.List {
				if gs, isGo := st.(*ast.GoStmt); isGo {
					seenGo = true
					if fl, isFl := gs.Call.Fun.(*ast.FuncLit); isFl {
						var body []string
						for _, s := range fl.Body.List {
							body = append(body, c.Src(s))
						}
						disp["handler_goroutine"] = body
					}
					continue
				}
				if seenGo {
					tail = append(tail, c.Src(st))
				}
			}
			disp["after_go"] = tail
			disp["go_statements"] = strings.Count(c.Src(loop), "go func()")
		}
	} else {
		bad("Connection.handleAsync not found")
	}
	if fd := c.Func("internal/jsonrpc2", "", "Async"); fd != nil && fd.Body != nil {
		disp["Async"] = c.Src(fd.Body)
	} else {
		bad("jsonrpc2.Async not found")
	}
	c.Fact("order.dispatcher", disp)

	// ---- Notify returns what write returns; write calls the transport's Write and returns after it
	nf := map[string]any{}
	if fd := c.Func("internal/jsonrpc2", "Connection", "Notify"); fd != nil && fd.Body != nil {
		nf["last"] = c.Src(fd.Body.List[len(fd.Body.List)-1])
		nf["write_calls"] = strings.Count(c.Src(fd.Body), "c.write(")
	} else {
		bad("Connection.Notify not found")
	}
	if fd := c.Func("internal/jsonrpc2", "Connection", "write"); fd != nil && fd.Body != nil {
		var seq []string
		for _, st := range fd.Body.List {
			s := c.Src(st)
			switch {
			case strings.HasPrefix(s, "err = c.writer.Write(ctx, msg)"):
				seq = append(seq, "err = c.writer.Write(ctx, msg)")
			case strings.HasPrefix(s, "return"):
				seq = append(seq, s)
			}
		}
		nf["write_body"] = seq
		nf["writer_calls"] = strings.Count(c.Src(fd.Body), "c.writer.Write(")
	} else {
		bad("Connection.write not found")
	}
	c.Fact("order.notify_returns_after_write", nf)

	// ---- streamable POST without calls: every message goes into c.incoming before 202
	post := map[string]any{}
	if fd := c.Func("mcp", "streamableServerConn", "servePOST"); fd != nil && fd.Body != nil {
		var blk *ast.IfStmt
		for _, st := range fd.Body.List {
			if is, isIf := st.(*ast.IfStmt); isIf && c.Src(is.Cond) == "len(calls) == 0" {
				blk = is
			}
		}
		if blk == nil {
			bad("servePOST: `if len(calls) == 0` not found")
		} else {
			var seq []string
			for _, st := range blk.Body.List {
				seq = append(seq, orderShape(c, st))
			}
			post["no_calls_path"] = seq
		}
		// with calls: the messages are published before the handler parks in hangResponse
		pub, hang := -1, -1
		for i, st := range fd.Body.List {
			s := orderShape(c, st)
			if strings.HasPrefix(s, "for-range incoming: send c.incoming") {
				pub = i
			}
			if strings.HasPrefix(c.Src(st), "c.hangResponse(") {
				hang = i
			}
		}
		post["calls_path_publish_before_hang"] = pub >= 0 && hang > pub
		post["status_accepted_writes"] = strings.Count(c.Src(fd.Body), "http.StatusAccepted")
	} else {
		bad("streamableServerConn.servePOST not found")
	}
	if st := c.namedStruct("mcp", "streamableServerConn"); st != nil {
		for _, f := range st.Fields.List {
			for _, n := range f.Names {
				if n.Name == "incoming" {
					post["incoming_type"] = c.Src(f.Type)
				}
			}
		}
	}
	if fd := c.Func("mcp", "streamableServerConn", "Read"); fd != nil && fd.Body != nil {
		post["read_receives_from_incoming"] = strings.Contains(c.Src(fd.Body), "<-c.incoming")
	}
	// the session's intake channel: its capacity is what the generator's "body larger than the intake" threshold (12 = 1 read + 10 buffered + 1) is derived from
	if fd := c.Func("mcp", "StreamableServerTransport", "Connect"); fd != nil && fd.Body != nil {
		src := c.Src(fd.Body)
		if m := regexp.MustCompile(`incoming:\s*make\(chan [^,()]+,\s*\d+\)`).FindString(src); m != "" {
			post["intake_make"] = strings.Join(strings.Fields(m), " ")
		}
	}
	c.Fact("order.streamable_post", post)

	// ---- SSE POST: message into t.incoming, then 202
	sse := map[string]any{}
	if fd := c.Func("mcp", "SSEServerTransport", "ServeHTTP"); fd != nil && fd.Body != nil {
		last := fd.Body.List[len(fd.Body.List)-1]
		sse["last"] = orderShape(c, last)
		sse["status_accepted_writes"] = strings.Count(c.Src(fd.Body), "http.StatusAccepted")
	} else {
		bad("SSEServerTransport.ServeHTTP not found")
	}
	if st := c.namedStruct("mcp", "SSEServerTransport"); st != nil {
		for _, f := range st.Fields.List {
			for _, n := range f.Names {
				if n.Name == "incoming" {
					sse["incoming_type"] = c.Src(f.Type)
				}
			}
		}
	}
	c.Fact("order.sse_post", sse)

	// ---- temporary sessions of the streamable handler: served, drained, then closed (F14)
	eph := map[string]any{}
	if fd := c.Func("mcp", "", "serveEphemeral"); fd != nil && fd.Body != nil {
		var seq []string
		for _, st := range fd.Body.List {
			if is, isIf := st.(*ast.IfStmt); isIf {
				var inner []string
				for _, s := range is.Body.List {
					inner = append(inner, c.Src(s))
				}
				seq = append(seq, "if "+c.Src(is.Cond)+" { "+strings.Join(inner, "; ")+" }")
			} else {
				seq = append(seq, c.Src(st))
			}
		}
		eph["serveEphemeral"] = seq
	} else {
		eph["serveEphemeral"] = "absent"
	}
	users := []string{}
	for _, name := range []string{"serveStateless", "serveStatefulPOST"} {
		if fd := c.Func("mcp", "StreamableHTTPHandler", name); fd != nil && fd.Body != nil {
			src := c.Src(fd.Body)
			users = append(users, fmt.Sprintf("%s: serveEphemeral=%d session.Close=%d", name, strings.Count(src, "serveEphemeral("), strings.Count(src, "defer session.Close()")))
		}
	}
	eph["users"] = users
	if fd := c.Func("mcp", "StreamableHTTPHandler", "ephemeralConnectOpts"); fd != nil && fd.Body != nil {
		eph["hasCall_set_for_calls"] = strings.Contains(c.Src(fd.Body), "if r.IsCall() { hasCall = true }")
	}
	c.Fact("order.ephemeral_session", eph)

	// ---- cancellation and the handler queue (Order/Cancel.lean: `kill` touches no queue, `drop` removes the head only)
	// Every statement of internal/jsonrpc2 that assigns to `handlerQueue` (whole or an element), per function; the body of
	// Connection.Cancel; and, in handleAsync, what stands between taking the head and starting the handler goroutine.
	cq := map[string]any{}
	writers := []string{}
	for _, f := range c.load("internal/jsonrpc2") {
		for _, d := range f.Decls {
			fd, ok := d.(*ast.FuncDecl)
			if !ok || fd.Body == nil {
				continue
			}
			name := fd.Name.Name
			if fd.Recv != nil {
				name = recvName(fd) + "." + name
			}
			ast.Inspect(fd.Body, func(n ast.Node) bool {
				as, ok := n.(*ast.AssignStmt)
				if !ok {
					return true
				}
				for _, l := range as.Lhs {
					if strings.Contains(c.Src(l), "handlerQueue") {
						writers = append(writers, name+": "+c.Src(as))
						break
					}
				}
				return true
			})
		}
	}
	sort.Strings(writers)
	cq["handlerQueue_writers"] = writers
	if fd := c.Func("internal/jsonrpc2", "Connection", "Cancel"); fd != nil && fd.Body != nil {
		var seq []string
		for _, st := range fd.Body.List {
			seq = append(seq, strings.Join(strings.Fields(c.Src(st)), " "))
		}
		cq["Cancel"] = seq
	} else {
		bad("Connection.Cancel not found")
	}
	if fd := c.Func("internal/jsonrpc2", "Connection", "handleAsync"); fd != nil && fd.Body != nil && len(fd.Body.List) == 1 {
		if loop, ok := fd.Body.List[0].(*ast.ForStmt); ok {
			var before []string
			for _, st := range loop.Body.List {
				if _, isGo := st.(*ast.GoStmt); isGo {
					break
				}
				if is, isIf := st.(*ast.IfStmt); isIf {
					hd := "if "
					if is.Init != nil {
						hd += c.Src(is.Init) + "; "
					}
					last := ""
					if n := len(is.Body.List); n > 0 {
						last = c.Src(is.Body.List[n-1])
					}
					before = append(before, hd+c.Src(is.Cond)+" { … "+last+" }")
					continue
				}
				if es, isExpr := st.(*ast.ExprStmt); isExpr {
					if call, isCall := es.X.(*ast.CallExpr); isCall {
						before = append(before, c.Src(call.Fun)+"(…)")
						continue
					}
				}
				before = append(before, strings.Join(strings.Fields(c.Src(st)), " "))
			}
			cq["handleAsync_before_go"] = before
		}
	}
	if fd := c.Func("mcp", "canceller", "Preempt"); fd != nil && fd.Body != nil {
		src := c.Src(fd.Body)
		cq["Preempt_go_Cancel"] = strings.Count(src, "go c.conn.Cancel(id)")
		cq["Preempt_Cancel_calls"] = strings.Count(src, ".Cancel(")
	}
	c.Fact("order.cancel_and_queue", cq)

	// ---- fan-out: notifySessions sends to one session after the other, synchronously, and returns after the loop.
	// The Lean model's `fstep` (Order/Fan.lean) — `fret g` enabled only when every copy has been dealt with — and
	// the theorems `fanout_returns_after_every_send` / `fanout_end_before_later_start` stand on this shape.
	fan := map[string]any{}
	if fd := c.Func("mcp", "", "notifySessions"); fd != nil && fd.Body != nil {
		var loops []*ast.RangeStmt
		goStmts, funcLits, calls := 0, 0, 0
		ast.Inspect(fd.Body, func(x ast.Node) bool {
			switch n := x.(type) {
			case *ast.GoStmt:
				goStmts++
			case *ast.FuncLit:
				funcLits++
			case *ast.CallExpr:
				if id, ok := n.Fun.(*ast.Ident); ok && id.Name == "handleNotify" {
					calls++
				}
			}
			return true
		})
		for _, st := range fd.Body.List {
			if rs, ok := st.(*ast.RangeStmt); ok {
				loops = append(loops, rs)
			}
		}
		fan["go_statements"] = goStmts
		fan["func_literals"] = funcLits
		fan["handleNotify_calls"] = calls
		fan["top_level_loops"] = len(loops)
		if len(loops) == 1 {
			rs := loops[0]
			fan["range_over"] = c.Src(rs.X)
			var body []string
			for _, st := range rs.Body.List {
				switch n := st.(type) {
				case *ast.IfStmt:
					hd := "if "
					if n.Init != nil {
						hd += c.Src(n.Init) + "; "
					}
					var inner []string
					for _, b := range n.Body.List {
						if es, ok := b.(*ast.ExprStmt); ok {
							if ce, ok := es.X.(*ast.CallExpr); ok {
								inner = append(inner, c.Src(ce.Fun)+"(…)")
								continue
							}
						}
						inner = append(inner, c.Src(b))
					}
					els := ""
					if n.Else != nil {
						els = " else …"
					}
					body = append(body, hd+c.Src(n.Cond)+" { "+strings.Join(inner, "; ")+" }"+els)
				default:
					body = append(body, c.Src(st))
				}
			}
			fan["loop_body"] = body
			// nothing in the loop leaves it or the function early, or defers work past the iteration
			var exits []string
			ast.Inspect(rs.Body, func(x ast.Node) bool {
				switch n := x.(type) {
				case *ast.ReturnStmt:
					exits = append(exits, "return")
				case *ast.BranchStmt:
					exits = append(exits, n.Tok.String())
				case *ast.DeferStmt:
					exits = append(exits, "defer")
				case *ast.SelectStmt:
					exits = append(exits, "select")
				}
				return true
			})
			if exits == nil {
				exits = []string{}
			}
			fan["loop_exits"] = exits
			// the loop is the last statement: the function returns when the loop is over
			fan["loop_is_last"] = fd.Body.List[len(fd.Body.List)-1] == ast.Stmt(rs)
		}
		// statements before the loop (an early return for "no sessions" is the only exit)
		var before []string
		for _, st := range fd.Body.List {
			if _, ok := st.(*ast.RangeStmt); ok {
				break
			}
			if is, ok := st.(*ast.IfStmt); ok {
				var inner []string
				for _, b := range is.Body.List {
					inner = append(inner, c.Src(b))
				}
				before = append(before, "if "+c.Src(is.Cond)+" { "+strings.Join(inner, "; ")+" }")
				continue
			}
			before = append(before, c.Src(st))
		}
		fan["before_loop"] = before
	} else {
		bad("notifySessions (mcp/shared.go) not found")
	}
	if fd := c.Func("mcp", "", "handleNotify"); fd != nil && fd.Body != nil {
		var seq []string
		for _, st := range fd.Body.List {
			seq = append(seq, c.Src(st))
		}
		fan["handleNotify"] = seq
	} else {
		bad("handleNotify not found")
	}
	// the notifying methods call the fan-out as a plain statement of their own goroutine
	callers := []string{}
	callShape := func(label string, fd *ast.FuncDecl) {
		if fd == nil || fd.Body == nil {
			bad("%s not found", label)
			return
		}
		plain, other := 0, 0
		ast.Inspect(fd.Body, func(x ast.Node) bool {
			switch n := x.(type) {
			case *ast.GoStmt:
				if strings.Contains(c.Src(n.Call), "notifySessions(") {
					other++
				}
			case *ast.DeferStmt:
				if strings.Contains(c.Src(n.Call), "notifySessions(") {
					other++
				}
			case *ast.FuncLit:
				if strings.Contains(c.Src(n), "notifySessions(") {
					other++
				}
			}
			return true
		})
		for _, st := range fd.Body.List {
			if es, ok := st.(*ast.ExprStmt); ok {
				if ce, ok := es.X.(*ast.CallExpr); ok {
					if id, ok := ce.Fun.(*ast.Ident); ok && id.Name == "notifySessions" {
						plain++
					}
				}
			}
		}
		callers = append(callers, fmt.Sprintf("%s: statement=%d go/defer/closure=%d", label, plain, other))
	}
	callShape("changeAndNotify", c.Func("mcp", "", "changeAndNotify"))
	callShape("Server.ResourceUpdated", c.Func("mcp", "Server", "ResourceUpdated"))
	callShape("Server.notifySessions", c.Func("mcp", "Server", "notifySessions"))
	fan["callers"] = callers
	for _, name := range []string{"AddRoots", "RemoveRoots"} {
		if fd := c.Func("mcp", "Client", name); fd != nil && fd.Body != nil {
			var seq []string
			for _, st := range fd.Body.List {
				switch n := st.(type) {
				case *ast.IfStmt:
					var inner []string
					for _, b := range n.Body.List {
						inner = append(inner, c.Src(b))
					}
					seq = append(seq, "if "+c.Src(n.Cond)+" { "+strings.Join(inner, "; ")+" }")
				case *ast.ExprStmt:
					if ce, ok := n.X.(*ast.CallExpr); ok {
						seq = append(seq, c.Src(ce.Fun)+"(…)")
					} else {
						seq = append(seq, c.Src(st))
					}
				default:
					seq = append(seq, c.Src(st))
				}
			}
			fan["Client."+name] = seq
		} else {
			bad("Client.%s not found", name)
		}
	}
	c.Fact("order.fanout_loop", fan)
}

// orderShape renders the statements the ordering argument depends on in a canonical short form.
func orderShape(c *Ctx, st ast.Stmt) string {
	switch s := st.(type) {
	case *ast.RangeStmt:
		if c.Src(s.X) == "incoming" && len(s.Body.List) == 1 {
			if sel, ok := s.Body.List[0].(*ast.SelectStmt); ok {
				return "for-range incoming: " + orderSelect(c, sel)
			}
		}
	case *ast.SelectStmt:
		return orderSelect(c, s)
	}
	return c.Src(st)
}

func orderSelect(c *Ctx, sel *ast.SelectStmt) string {
	var arms []string
	for _, cl := range sel.Body.List {
		cc := cl.(*ast.CommClause)
		var body []string
		for _, b := range cc.Body {
			body = append(body, c.Src(b))
		}
		head := "default"
		if cc.Comm != nil {
			head = c.Src(cc.Comm)
			if ss, ok := cc.Comm.(*ast.SendStmt); ok {
				head = "send " + c.Src(ss.Chan)
			}
		}
		arms = append(arms, head+" => "+strings.Join(body, "; "))
	}
	return strings.Join(arms, " | ")
}
