package main

import (
	"fmt"
	"go/ast"
	"sort"
	"strings"
)

// E5 (C10 / C02 / C08), lifetime facts — the places of package mcp that write the tables the lifecycle theorems are about:
//   - resume.requestStreams_writers: every function that assigns into, deletes from or (re)creates a `requestStreams` map.
//     The model has exactly: servePOST registers (label POST), Write deletes (labels WRITE / WROUTE of a response), Connect
//     makes the empty map (`init`) — `registration_removed_only_by_response`, `idMonitor_accepts_model`.
//   - resume.streams_deleters: every function that deletes from a `streams` map (Write: a completed stream; acquireStream:
//     its temporary replay-only entry).
//   - resume.store_evictors: the functions of mcp/event.go that call dataList.removeFirst — only purge (run by Append and
//     SetMaxBytes while nBytes > maxBytes: the model's label EVICT); After and Open never drop an entry
//     (`resume_of_known_stream_not_refused`, the retention clause of the C08 monitor).
func init() {
	reg(func(c *Ctx) {
		recvName := func(fd *ast.FuncDecl) string {
			if fd.Recv == nil || len(fd.Recv.List) == 0 {
				return ""
			}
			t := fd.Recv.List[0].Type
			if st, ok := t.(*ast.StarExpr); ok {
				t = st.X
			}
			if ix, ok := t.(*ast.IndexExpr); ok {
				t = ix.X
			}
			return c.Src(t)
		}
		fname := func(fd *ast.FuncDecl) string {
			if r := recvName(fd); r != "" {
				return r + "." + fd.Name.Name
			}
			return fd.Name.Name
		}
		isField := func(e ast.Expr, field string) bool {
			src := c.Src(e)
			return src == field || strings.HasSuffix(src, "."+field)
		}
		reqW, strD, evict := []string{}, []string{}, []string{}
		for _, f := range c.load("mcp") {
			for _, d := range f.Decls {
				fd, ok := d.(*ast.FuncDecl)
				if !ok || fd.Body == nil {
					continue
				}
				seen := map[string]bool{}
				add := func(l *[]string, kind string) {
					k := fname(fd) + ":" + kind
					if sk := fmt.Sprintf("%p/%s", l, k); !seen[sk] {
						seen[sk] = true
						*l = append(*l, k)
					}
				}
				ast.Inspect(fd.Body, func(n ast.Node) bool {
					switch x := n.(type) {
					case *ast.AssignStmt:
						for _, l := range x.Lhs {
							if ix, ok := l.(*ast.IndexExpr); ok && isField(ix.X, "requestStreams") {
								add(&reqW, "assign")
							}
							if isField(l, "requestStreams") {
								add(&reqW, "replace")
							}
						}
					case *ast.KeyValueExpr:
						if id, ok := x.Key.(*ast.Ident); ok && id.Name == "requestStreams" {
							add(&reqW, "make")
						}
					case *ast.CallExpr:
						fn := c.Src(x.Fun)
						if fn == "delete" && len(x.Args) == 2 {
							if isField(x.Args[0], "requestStreams") {
								add(&reqW, "delete")
							}
							if isField(x.Args[0], "streams") {
								add(&strD, "delete")
							}
						}
						if fn == "clear" && len(x.Args) == 1 && isField(x.Args[0], "requestStreams") {
							add(&reqW, "clear")
						}
						if strings.HasSuffix(fn, ".removeFirst") {
							add(&evict, "removeFirst")
						}
					}
					return true
				})
			}
		}
		sort.Strings(reqW)
		sort.Strings(strD)
		sort.Strings(evict)
		if len(reqW) == 0 {
			c.Errf("resume: no writer of requestStreams found")
		}
		c.Fact("resume.requestStreams_writers", reqW)
		c.Fact("resume.streams_deleters", strD)
		c.Fact("resume.store_evictors", evict)
	})
}
