package main

import (
	"fmt"
	"go/ast"
	"go/constant"
	"go/token"
	"sort"
	"strings"
)

// E3 (C06, code part of C02): the tables the admission model is parameterised by, REGENERATED from source:
//   - the method-name constants and the server/client method tables with their flags,
//   - the case lists of the gate `switch req.Method` in ServerSession.handle,
//   - supportedProtocolVersions and the 2026-07-28 threshold,
//   - the JSON-RPC / MCP error codes,
//   - which errors the checks wrap (checkRequest, unmarshalParams, initialize's own unmarshalParams, the preempter),
//
// plus structural facts pinning the shape of handle / checkRequest / validateRequestMeta.
func init() {
	reg(func(c *Ctx) {
		g := &gateX{c: c}
		g.run()
	})
}

type gateX struct {
	c *Ctx
	b strings.Builder
}

func (g *gateX) errf(format string, a ...any) { g.c.Errf("gate: "+format, a...) }

func leanIdent(method string) string {
	if method == "" {
		return "empty_"
	}
	r := strings.NewReplacer("/", "_", ".", "_", "-", "_")
	return r.Replace(method)
}

func gateConstInt64(v constant.Value) (int64, bool) { return constant.Int64Val(constant.ToInt(v)) }

func (g *gateX) methodOfExpr(e ast.Expr) (string, bool) {
	switch x := e.(type) {
	case *ast.Ident:
		return g.c.ConstString("mcp", x.Name)
	case *ast.BasicLit:
		v, ok := g.c.Const("mcp", x)
		if ok {
			return strings.Trim(v.ExactString(), `"`), true
		}
	}
	return "", false
}

type gateEntry struct {
	method                        string
	notification, missingParamsOK bool
	custom                        string // name of the constructor function when it is not newServer/ClientMethodInfo
}

// table reads `var <name> = map[string]methodInfo{ key: ctor(handler, flags), ... }`.
func (g *gateX) table(name, ctor string) []gateEntry {
	e := g.c.ValueExpr("mcp", name)
	cl, ok := e.(*ast.CompositeLit)
	if !ok {
		g.errf("%s is not a composite literal", name)
		return nil
	}
	var out []gateEntry
	for _, el := range cl.Elts {
		kv, ok := el.(*ast.KeyValueExpr)
		if !ok {
			g.errf("%s: unexpected element %s", name, g.c.Src(el))
			continue
		}
		m, ok := g.methodOfExpr(kv.Key)
		if !ok {
			g.errf("%s: key %s is not a string constant", name, g.c.Src(kv.Key))
			continue
		}
		ent := gateEntry{method: m}
		call, ok := kv.Value.(*ast.CallExpr)
		if !ok {
			g.errf("%s[%s]: value is not a call", name, m)
			continue
		}
		fn := g.c.Src(call.Fun)
		if fn != ctor {
			// e.g. initializeMethodInfo(): find the ctor call inside that function
			ent.custom = fn
			fd := g.c.Func("mcp", "", fn)
			call = nil
			if fd != nil {
				ast.Inspect(fd.Body, func(n ast.Node) bool {
					if ce, ok := n.(*ast.CallExpr); ok && g.c.Src(ce.Fun) == ctor && call == nil {
						call = ce
					}
					return true
				})
			}
			if call == nil {
				g.errf("%s[%s]: cannot find %s inside %s", name, m, ctor, fn)
				continue
			}
		}
		if len(call.Args) != 2 {
			g.errf("%s[%s]: expected 2 arguments", name, m)
			continue
		}
		ok = g.flags(call.Args[1], &ent)
		if !ok {
			g.errf("%s[%s]: flags %s not understood", name, m, g.c.Src(call.Args[1]))
		}
		out = append(out, ent)
	}
	sort.Slice(out, func(i, j int) bool { return out[i].method < out[j].method })
	return out
}

func (g *gateX) flags(e ast.Expr, ent *gateEntry) bool {
	switch x := e.(type) {
	case *ast.BasicLit:
		return x.Value == "0"
	case *ast.Ident:
		switch x.Name {
		case "notification":
			ent.notification = true
			return true
		case "missingParamsOK":
			ent.missingParamsOK = true
			return true
		}
		return false
	case *ast.BinaryExpr:
		if x.Op != token.OR {
			return false
		}
		return g.flags(x.X, ent) && g.flags(x.Y, ent)
	case *ast.ParenExpr:
		return g.flags(x.X, ent)
	}
	return false
}

// wrapped lists, for every `return ..., <error expr>` inside n (in source order), the names of the
// sentinel errors / codes mentioned in the error expression ("" when it is a plain error).
func (g *gateX) wrapped(n ast.Node) []string {
	var out []string
	ast.Inspect(n, func(x ast.Node) bool {
		if _, ok := x.(*ast.FuncLit); ok && x != n {
			return false
		}
		// the MCPGODEBUG=nowrapinvalidparams=1 compatibility branch is not the behaviour under test
		if is, ok := x.(*ast.IfStmt); ok && strings.Contains(g.c.Src(is.Cond), "nowrapinvalidparams") {
			return false
		}
		rs, ok := x.(*ast.ReturnStmt)
		if !ok || len(rs.Results) < 2 {
			return true
		}
		last := rs.Results[len(rs.Results)-1]
		if id, ok := last.(*ast.Ident); ok && (id.Name == "nil" || id.Name == "err") {
			if id.Name == "err" {
				out = append(out, "err")
			}
			return true
		}
		out = append(out, g.sentinel(last))
		return true
	})
	return out
}

func (g *gateX) sentinel(e ast.Expr) string {
	src := g.c.Src(e)
	var names []string
	for _, s := range []string{"ErrNotHandled", "ErrMethodNotFound", "ErrInvalidRequest", "ErrInvalidParams", "ErrInternal", "ErrParse",
		"CodeMethodNotFound", "CodeInvalidParams", "CodeInvalidRequest", "CodeInternalError", "CodeUnsupportedProtocolVersion"} {
		if strings.Contains(src, s) {
			names = append(names, s)
		}
	}
	if len(names) == 0 {
		return "plain"
	}
	return strings.Join(names, "+")
}

var gateCodeOf = map[string]string{
	"ErrNotHandled": "codeMethodNotFound", "ErrMethodNotFound": "codeMethodNotFound", "CodeMethodNotFound": "codeMethodNotFound",
	"ErrInvalidRequest": "codeInvalidRequest", "CodeInvalidRequest": "codeInvalidRequest",
	"ErrInvalidParams": "codeInvalidParams", "CodeInvalidParams": "codeInvalidParams",
	"ErrInternal": "codeInternalError", "CodeInternalError": "codeInternalError", "ErrParse": "codeParseError",
	"CodeUnsupportedProtocolVersion": "codeUnsupportedProtocolVersion", "plain": "codeNone",
}

func (g *gateX) leanCode(sentinel string) string {
	if v, ok := gateCodeOf[sentinel]; ok {
		return v
	}
	g.errf("no code for sentinel %q", sentinel)
	return "codeNone"
}

func (g *gateX) caseMethods(cc *ast.CaseClause) []string {
	var out []string
	for _, e := range cc.List {
		m, ok := g.methodOfExpr(e)
		if !ok {
			g.errf("gate switch: case %s is not a string constant", g.c.Src(e))
			continue
		}
		out = append(out, m)
	}
	return out
}

// ifConds lists the conditions of the if statements directly inside a block (not nested).
func (g *gateX) ifConds(list []ast.Stmt) []string {
	var out []string
	for _, s := range list {
		if is, ok := s.(*ast.IfStmt); ok {
			out = append(out, g.c.Src(is.Cond))
		}
	}
	return out
}

// stepOrder renders the top-level statements of a function: `if <cond> → return` for a guard whose body
// ends in a return, `if <cond> → <calls>` otherwise, `<lhs> := <rhs>` for assignments from calls, the
// callee for expression statements (with a marker when its function-literal argument writes the state).
func (g *gateX) stepOrder(fd *ast.FuncDecl) []string {
	if fd == nil {
		g.errf("stepOrder: function not found")
		return nil
	}
	c := g.c
	writes := func(n ast.Node) string {
		var w []string
		ast.Inspect(n, func(x ast.Node) bool {
			if as, ok := x.(*ast.AssignStmt); ok {
				for _, l := range as.Lhs {
					if src := c.Src(l); strings.HasPrefix(src, "state.") {
						w = append(w, src)
					}
				}
			}
			return true
		})
		if len(w) == 0 {
			return ""
		}
		return " writes " + strings.Join(w, ",")
	}
	var out []string
	for _, st := range fd.Body.List {
		switch x := st.(type) {
		case *ast.IfStmt:
			cond := c.Src(x.Cond)
			if x.Init != nil {
				cond = c.Src(x.Init) + "; " + cond
			}
			body := "…"
			if n := len(x.Body.List); n > 0 {
				if _, ok := x.Body.List[n-1].(*ast.ReturnStmt); ok {
					body = "return"
				}
			}
			out = append(out, "if "+cond+" → "+body+writes(x.Body))
		case *ast.AssignStmt:
			if len(x.Rhs) == 1 {
				if _, ok := x.Rhs[0].(*ast.CallExpr); ok {
					out = append(out, c.Src(x.Lhs[0])+" := "+c.Src(x.Rhs[0]))
				} else {
					out = append(out, "assign "+c.Src(x.Lhs[0]))
				}
			}
		case *ast.ExprStmt:
			if ce, ok := x.X.(*ast.CallExpr); ok {
				out = append(out, "call "+c.Src(ce.Fun)+writes(ce))
			}
		case *ast.ReturnStmt:
			out = append(out, "return")
		}
	}
	return out
}

// perRequestFromTransport recognises the repaired shape of the per-request version check in handle:
//
//	transportVersions := ss.supportedVersions            (inside the ss.mu section)
//	if transportVersions == nil { transportVersions = supportedProtocolVersions }
//	acceptedVersions := transportVersions
//	if req.Method == methodDiscover { acceptedVersions = supportedProtocolVersions }
//	if validatedMeta.usesNewProtocol && !slices.Contains(acceptedVersions, …ProtocolVersion) { … Supported: transportVersions … }
func (g *gateX) perRequestFromTransport(handle *ast.FuncDecl) bool {
	if handle == nil {
		return false
	}
	c := g.c
	var steps []string
	for _, st := range handle.Body.List {
		switch x := st.(type) {
		case *ast.AssignStmt:
			steps = append(steps, c.Src(x))
		case *ast.IfStmt:
			body := ""
			for _, b := range x.Body.List {
				body += c.Src(b) + ";"
			}
			if strings.Contains(c.Src(x.Cond), "slices.Contains") {
				// the unsupported-version answer: keep only the list that is sent
				body = ""
				ast.Inspect(x.Body, func(n ast.Node) bool {
					if kv, ok := n.(*ast.KeyValueExpr); ok && c.Src(kv.Key) == "Supported" {
						body = "Supported: " + c.Src(kv.Value)
					}
					return true
				})
			}
			steps = append(steps, "if "+c.Src(x.Cond)+" {"+body+"}")
		}
	}
	want := []string{
		"transportVersions := ss.supportedVersions",
		"if transportVersions == nil {transportVersions = supportedProtocolVersions;}",
		"acceptedVersions := transportVersions",
		"if req.Method == methodDiscover {acceptedVersions = supportedProtocolVersions;}",
		"if validatedMeta.usesNewProtocol && !slices.Contains(acceptedVersions, validatedMeta.initializeParams.ProtocolVersion) {Supported: transportVersions}",
	}
	i := 0
	for _, s := range steps {
		s = strings.Join(strings.Fields(s), " ")
		if i < len(want) && s == want[i] {
			i++
		}
	}
	return i == len(want)
}

func (g *gateX) run() {
	c := g.c
	server := g.table("serverMethodInfos", "newServerMethodInfo")
	client := g.table("clientMethodInfos", "newClientMethodInfo")

	// ---- all methods (union), as an inductive type
	seen := map[string]bool{}
	var all []string
	for _, e := range append(append([]gateEntry{}, server...), client...) {
		if !seen[e.method] {
			seen[e.method] = true
			all = append(all, e.method)
		}
	}
	sort.Strings(all)

	// ---- the gate switch
	var removed, exempt, newOnly []string
	shape := map[string]any{}
	handle := c.Func("mcp", "ServerSession", "handle")
	var order []string
	if handle == nil {
		g.errf("ServerSession.handle not found")
	} else {
		var sw *ast.SwitchStmt
		for _, st := range handle.Body.List {
			switch x := st.(type) {
			case *ast.SwitchStmt:
				if c.Src(x.Tag) == "req.Method" && sw == nil {
					sw = x
					order = append(order, "switch req.Method")
				}
			case *ast.IfStmt:
				order = append(order, "if "+c.Src(x.Cond))
			case *ast.AssignStmt:
				if len(x.Rhs) == 1 {
					if ce, ok := x.Rhs[0].(*ast.CallExpr); ok {
						order = append(order, "call "+c.Src(ce.Fun))
					} else {
						order = append(order, "assign "+c.Src(x.Lhs[0]))
					}
				}
			case *ast.ExprStmt:
				if ce, ok := x.X.(*ast.CallExpr); ok {
					order = append(order, "call "+c.Src(ce.Fun))
				}
			case *ast.ReturnStmt:
				order = append(order, "return")
			}
		}
		if sw == nil {
			g.errf("no `switch req.Method` in ServerSession.handle")
		} else {
			var arms []any
			for _, st := range sw.Body.List {
				cc := st.(*ast.CaseClause)
				ms := g.caseMethods(cc)
				arm := map[string]any{"cases": ms, "ifs": g.ifConds(cc.Body), "returns": g.wrapped(&ast.BlockStmt{List: cc.Body})}
				if cc.List == nil {
					arm["cases"] = "default"
				}
				// a nested `switch req.Method` (the repaired gate)
				for _, s2 := range cc.Body {
					if sw2, ok := s2.(*ast.SwitchStmt); ok && c.Src(sw2.Tag) == "req.Method" {
						var inner []any
						for _, st2 := range sw2.Body.List {
							cc2 := st2.(*ast.CaseClause)
							a2 := map[string]any{"cases": g.caseMethods(cc2), "ifs": g.ifConds(cc2.Body), "returns": g.wrapped(&ast.BlockStmt{List: cc2.Body})}
							if cc2.List == nil {
								a2["cases"] = "default"
							}
							inner = append(inner, a2)
						}
						arm["inner"] = inner
					}
				}
				arms = append(arms, arm)
				conds := g.ifConds(cc.Body)
				switch {
				case cc.List != nil && len(conds) >= 1 && conds[0] == "validatedMeta.usesNewProtocol":
					removed = ms
					exempt = ms
					for _, s2 := range cc.Body {
						sw2, ok := s2.(*ast.SwitchStmt)
						if !ok || c.Src(sw2.Tag) != "req.Method" {
							continue
						}
						// inner switch: the listed cases fall through, the default rejects when not initialized
						var innerCases []string
						okDefault := false
						for _, st2 := range sw2.Body.List {
							cc2 := st2.(*ast.CaseClause)
							if cc2.List != nil {
								if len(cc2.Body) != 0 {
									g.errf("gate inner switch: non-empty case body")
								}
								innerCases = append(innerCases, g.caseMethods(cc2)...)
							} else {
								ic := g.ifConds(cc2.Body)
								okDefault = len(ic) == 1 && ic[0] == "!initialized"
							}
						}
						if !okDefault {
							g.errf("gate inner switch: default arm is not `if !initialized { return error }`")
						}
						exempt = nil
						for _, m := range innerCases {
							for _, r := range ms {
								if r == m {
									exempt = append(exempt, m)
								}
							}
						}
					}
				case cc.List != nil && len(conds) >= 1 && conds[0] == "!validatedMeta.usesNewProtocol":
					newOnly = ms
				case cc.List == nil:
				default:
					g.errf("gate switch: arm %v has an unrecognised body", ms)
				}
			}
			shape["arms"] = arms
		}
	}
	c.Fact("gate.handle_order", order)
	c.Fact("gate.switch_shape", shape)

	// ---- checkRequest / unmarshalParams / validateRequestMeta: conditions and wrapped sentinels
	var checkConds, checkErrs []string
	if fd := c.Func("mcp", "", "checkRequest"); fd != nil {
		checkConds = g.ifConds(fd.Body.List)
		checkErrs = g.wrapped(fd.Body)
	} else {
		g.errf("checkRequest not found")
	}
	c.Fact("gate.checkRequest", map[string]any{"ifs": checkConds, "errors": checkErrs})
	var unmarshalErrs []string
	if fd := c.Func("mcp", "", "newMethodInfo"); fd != nil {
		ast.Inspect(fd.Body, func(n ast.Node) bool {
			kv, ok := n.(*ast.KeyValueExpr)
			if ok && c.Src(kv.Key) == "unmarshalParams" {
				unmarshalErrs = g.wrapped(kv.Value.(*ast.FuncLit).Body)
				return false
			}
			return true
		})
	}
	c.Fact("gate.unmarshalParams_errors", unmarshalErrs)
	var initErrs []string
	if fd := c.Func("mcp", "", "initializeMethodInfo"); fd != nil {
		ast.Inspect(fd.Body, func(n ast.Node) bool {
			as, ok := n.(*ast.AssignStmt)
			if ok && len(as.Lhs) == 1 && c.Src(as.Lhs[0]) == "info.unmarshalParams" {
				if fl, ok := as.Rhs[0].(*ast.FuncLit); ok {
					initErrs = g.wrapped(fl.Body)
				}
				return false
			}
			return true
		})
	}
	c.Fact("gate.initialize_unmarshal_errors", initErrs)
	var metaFacts map[string]any
	if fd := c.Func("mcp", "", "validateRequestMeta"); fd != nil {
		metaFacts = map[string]any{"ifs": g.ifConds(fd.Body.List), "errors": g.wrapped(fd.Body)}
	} else {
		g.errf("validateRequestMeta not found")
	}
	c.Fact("gate.validateRequestMeta", metaFacts)
	// lifecycle handlers: the guards around the state writes
	for _, fn := range []string{"initialize", "initialized"} {
		if fd := c.Func("mcp", "ServerSession", fn); fd != nil {
			var guards []string
			ast.Inspect(fd.Body, func(n ast.Node) bool {
				if is, ok := n.(*ast.IfStmt); ok {
					// the lifecycle guards: conditions on the params and on the state read under the lock
					if cond := c.Src(is.Cond); cond == "params == nil" || strings.Contains(cond, "wasInit") {
						guards = append(guards, cond)
					}
				}
				return true
			})
			c.Fact("gate."+fn+"_guards", guards)
		} else {
			g.errf("ServerSession.%s not found", fn)
		}
	}
	// initialize / discover: the order of the top-level steps. The session state may be written only after
	// the last way to fail that does not depend on the state (initialize: params, then the transport's
	// versions, THEN the locked duplicate-check-and-write); discover persists under the transport condition.
	c.Fact("gate.initialize_order", g.stepOrder(c.Func("mcp", "ServerSession", "initialize")))
	c.Fact("gate.discover_order", g.stepOrder(c.Func("mcp", "Server", "discover")))
	// preempter: when does it look at the request
	preemptCond := ""
	var preemptErrs []string
	if fd := c.Func("mcp", "canceller", "Preempt"); fd != nil {
		if len(fd.Body.List) > 0 {
			if is, ok := fd.Body.List[0].(*ast.IfStmt); ok {
				preemptCond = c.Src(is.Cond)
			}
		}
		preemptErrs = g.wrapped(fd.Body)
	} else {
		g.errf("canceller.Preempt not found")
	}
	c.Fact("gate.preempt", map[string]any{"cond": preemptCond, "errors": preemptErrs})
	// ServerSession.handle: Async only for calls other than initialize; client: every call
	asyncGuard := func(recv string) string {
		fd := c.Func("mcp", recv, "handle")
		res := "?"
		if fd != nil {
			ast.Inspect(fd.Body, func(n ast.Node) bool {
				if is, ok := n.(*ast.IfStmt); ok && strings.Contains(c.Src(is.Body), "jsonrpc2.Async(ctx)") {
					res = c.Src(is.Cond)
				}
				return true
			})
		}
		return res
	}
	c.Fact("gate.async_guard", map[string]string{"server": asyncGuard("ServerSession"), "client": asyncGuard("ClientSession")})

	// ---- custom methods (stream `custom`, Gate.Custom): the registration writes into Server.receiveMethods,
	// the server and every session hand out THAT table, and the HTTP pre-validation of servePOST fetches it
	// for every message (inside the loop over the POST's messages), not once per connection
	custom := map[string]any{}
	var regWrites []string
	if fd := c.Func("mcp", "", "AddReceivingCustomMethod"); fd != nil {
		ast.Inspect(fd.Body, func(n ast.Node) bool {
			if as, ok := n.(*ast.AssignStmt); ok && strings.Contains(c.Src(as), "receiveMethods") {
				regWrites = append(regWrites, c.Src(as))
			}
			return true
		})
	} else {
		g.errf("AddReceivingCustomMethod not found")
	}
	custom["register"] = regWrites
	returns := func(fd *ast.FuncDecl) []string {
		var out []string
		if fd != nil {
			ast.Inspect(fd.Body, func(n ast.Node) bool {
				if r, ok := n.(*ast.ReturnStmt); ok {
					out = append(out, c.Src(r))
				}
				return true
			})
		}
		return out
	}
	custom["server_read"] = returns(c.Func("mcp", "Server", "receivingMethodInfos"))
	custom["session_read"] = returns(c.Func("mcp", "ServerSession", "receivingMethodInfos"))
	var httpReads []map[string]any
	if fd := c.Func("mcp", "streamableServerConn", "servePOST"); fd != nil {
		var walk func(n ast.Node, inLoop bool)
		walk = func(n ast.Node, inLoop bool) {
			ast.Inspect(n, func(m ast.Node) bool {
				if m == nil || m == n {
					return true
				}
				switch x := m.(type) {
				case *ast.RangeStmt:
					walk(x.Body, true)
					return false
				case *ast.ForStmt:
					walk(x.Body, true)
					return false
				case *ast.CallExpr:
					if strings.HasSuffix(c.Src(x.Fun), "receivingMethodInfos") {
						httpReads = append(httpReads, map[string]any{"call": c.Src(x), "in_loop": inLoop})
					}
				}
				return true
			})
		}
		walk(fd.Body, false)
	} else {
		g.errf("streamableServerConn.servePOST not found")
	}
	custom["http_prevalidation_reads"] = httpReads
	c.Fact("gate.custom_table", custom)

	// ---- versions
	var versions []string
	if cl, ok := c.ValueExpr("mcp", "supportedProtocolVersions").(*ast.CompositeLit); ok {
		for _, el := range cl.Elts {
			if v, ok := g.methodOfExpr(el); ok {
				versions = append(versions, v)
			} else {
				g.errf("supportedProtocolVersions: %s is not a constant", c.Src(el))
			}
		}
	} else {
		g.errf("supportedProtocolVersions is not a composite literal")
	}
	threshold, ok := c.ConstString("mcp", "protocolVersion20260728")
	if !ok {
		g.errf("protocolVersion20260728 is not a constant")
	}
	latest, _ := c.ConstString("mcp", "latestProtocolVersion")
	latestLegacy, _ := c.ConstString("mcp", "protocolVersion20251125")

	// ---- codes
	codes := map[string]int64{}
	for _, f := range c.load("internal/jsonrpc2") {
		for _, d := range f.Decls {
			gd, ok := d.(*ast.GenDecl)
			if !ok {
				continue
			}
			for _, s := range gd.Specs {
				vs, ok := s.(*ast.ValueSpec)
				if !ok {
					continue
				}
				for i, n := range vs.Names {
					if i >= len(vs.Values) {
						continue
					}
					ce, ok := vs.Values[i].(*ast.CallExpr)
					if !ok || c.Src(ce.Fun) != "NewError" || len(ce.Args) < 1 {
						continue
					}
					if v, ok := c.Const("internal/jsonrpc2", ce.Args[0]); ok {
						if n64, ok := gateConstInt64(v); ok {
							codes[n.Name] = n64
						}
					}
				}
			}
		}
	}
	need := func(m map[string]int64, k string) int64 {
		v, ok := m[k]
		if !ok {
			g.errf("code %s not found", k)
		}
		return v
	}
	pub := map[string]int64{}
	for _, n := range []string{"CodeParseError", "CodeInvalidRequest", "CodeMethodNotFound", "CodeInvalidParams", "CodeInternalError"} {
		if v, ok := c.ConstInt("jsonrpc", n); ok {
			pub[n] = v
		} else {
			g.errf("jsonrpc.%s not a constant", n)
		}
	}
	for _, n := range []string{"CodeUnsupportedProtocolVersion", "CodeMissingRequiredClientCapabilities", "CodeHeaderMismatch"} {
		if v, ok := c.ConstInt("mcp", n); ok {
			pub[n] = v
		} else {
			g.errf("mcp.%s not a constant", n)
		}
	}
	// the sentinel errors and the public constants must agree
	for a, b := range map[string]string{"ErrParse": "CodeParseError", "ErrInvalidRequest": "CodeInvalidRequest", "ErrMethodNotFound": "CodeMethodNotFound",
		"ErrInvalidParams": "CodeInvalidParams", "ErrInternal": "CodeInternalError"} {
		if need(codes, a) != pub[b] {
			g.errf("jsonrpc2.%s (%d) differs from jsonrpc.%s (%d)", a, codes[a], b, pub[b])
		}
	}
	// processResult maps ErrNotHandled (and ErrMethodNotFound) to ErrMethodNotFound
	notHandledMapsTo := "?"
	if fd := c.Func("internal/jsonrpc2", "Connection", "processResult"); fd != nil && len(fd.Body.List) > 0 {
		if is, ok := fd.Body.List[0].(*ast.IfStmt); ok && strings.Contains(c.Src(is.Cond), "errors.Is(err, ErrNotHandled)") {
			notHandledMapsTo = g.sentinel(is.Body.List[0].(*ast.AssignStmt).Rhs[0])
		}
	}
	c.Fact("gate.notHandled_maps_to", notHandledMapsTo)

	// ---- emit Lean
	b := &g.b
	b.WriteString("/-! Tables of the request-admission model (engine E3 `gate`): see go/extract/gate.go. -/\n")
	b.WriteString("namespace Generated.Gate\n\n")
	b.WriteString("/-- Every method name that occurs as a key of `serverMethodInfos` or `clientMethodInfos`. -/\ninductive Method where\n")
	for _, m := range all {
		fmt.Fprintf(b, "  | %s\n", leanIdent(m))
	}
	b.WriteString("  deriving DecidableEq, Repr\n\n")
	b.WriteString("def Method.all : List Method := [")
	for i, m := range all {
		if i > 0 {
			b.WriteString(", ")
		}
		b.WriteString("." + leanIdent(m))
	}
	b.WriteString("]\n\n")
	b.WriteString("def Method.name : Method → String\n")
	for _, m := range all {
		fmt.Fprintf(b, "  | .%s => %s\n", leanIdent(m), LeanStr(m))
	}
	b.WriteString("\n/-- Flags of a method table entry. `customDecode`: the entry replaces `unmarshalParams` (initialize). -/\n")
	b.WriteString("structure Flags where\n  notification : Bool\n  missingParamsOK : Bool\n  customDecode : Bool := false\n  deriving DecidableEq, Repr\n\n")
	emitTable := func(name, doc string, t []gateEntry) {
		fmt.Fprintf(b, "/-- %s -/\ndef %s : List (Method × Flags) := [\n", doc, name)
		for i, e := range t {
			sep := ","
			if i == len(t)-1 {
				sep = ""
			}
			cd := ""
			if e.custom != "" {
				cd = ", customDecode := true"
			}
			fmt.Fprintf(b, "  (.%s, { notification := %v, missingParamsOK := %v%s })%s\n", leanIdent(e.method), e.notification, e.missingParamsOK, cd, sep)
		}
		b.WriteString("]\n\n")
	}
	emitTable("serverMethodInfos", "mcp/server.go `serverMethodInfos`", server)
	emitTable("clientMethodInfos", "mcp/client.go `clientMethodInfos`", client)
	emitList := func(name, doc string, l []string) {
		fmt.Fprintf(b, "/-- %s -/\ndef %s : List Method := [", doc, name)
		for i, m := range l {
			if i > 0 {
				b.WriteString(", ")
			}
			if !seen[m] {
				g.errf("%s: %q is not in a method table", name, m)
			}
			b.WriteString("." + leanIdent(m))
		}
		b.WriteString("]\n\n")
	}
	emitList("removedInNewProtocol", "ServerSession.handle, gate switch: the arm that answers method-not-found under the 2026-07-28 protocol", removed)
	emitList("exemptFromInitGate", "ServerSession.handle, gate switch: methods that pass on a legacy request before `initialize` was accepted", exempt)
	emitList("newProtocolOnly", "ServerSession.handle, gate switch: the arm that answers method-not-found unless the request uses the new protocol", newOnly)
	fmt.Fprintf(b, "/-- mcp/shared.go `supportedProtocolVersions` (newest first) -/\ndef supportedProtocolVersions : List String := %s\n\n", LeanStrList(versions))
	fmt.Fprintf(b, "/-- mcp/shared.go `protocolVersion20260728`: a per-request `_meta` version at or above it selects the new protocol -/\ndef newProtocolThreshold : String := %s\n", LeanStr(threshold))
	fmt.Fprintf(b, "def latestProtocolVersion : String := %s\n", LeanStr(latest))
	fmt.Fprintf(b, "def latestLegacyProtocolVersion : String := %s\n\n", LeanStr(latestLegacy))
	fmt.Fprintf(b, "/-- JSON-RPC and MCP error codes (jsonrpc/jsonrpc.go, internal/jsonrpc2/wire.go, mcp/shared.go); `codeNone`: an error that wraps no coded error is sent with the zero code -/\n")
	fmt.Fprintf(b, "def codeNone : Int := 0\ndef codeParseError : Int := %d\ndef codeInvalidRequest : Int := %d\ndef codeMethodNotFound : Int := %d\ndef codeInvalidParams : Int := %d\ndef codeInternalError : Int := %d\ndef codeUnsupportedProtocolVersion : Int := %d\n\n",
		pub["CodeParseError"], pub["CodeInvalidRequest"], pub["CodeMethodNotFound"], pub["CodeInvalidParams"], pub["CodeInternalError"], pub["CodeUnsupportedProtocolVersion"])
	// which code each check answers with
	pick := func(l []string, i int, what string) string {
		if i >= len(l) {
			g.errf("%s: expected at least %d error returns, got %v", what, i+1, l)
			return "codeNone"
		}
		s := l[i]
		if j := strings.Index(s, "+"); j >= 0 {
			s = s[:j]
		}
		return g.leanCode(s)
	}
	fmt.Fprintf(b, "/-- mcp/shared.go `checkRequest`, in order: unknown method; id on a notification; no id on a call; params missing -/\n")
	fmt.Fprintf(b, "def checkUnknownMethod : Int := %s\ndef checkUnexpectedId : Int := %s\ndef checkMissingId : Int := %s\ndef checkMissingParams : Int := %s\n",
		pick(checkErrs, 0, "checkRequest"), pick(checkErrs, 1, "checkRequest"), pick(checkErrs, 2, "checkRequest"), pick(checkErrs, 3, "checkRequest"))
	// newMethodInfo.unmarshalParams: [decode error, nil params] (the godebug branch is skipped)
	fmt.Fprintf(b, "/-- mcp/shared.go `newMethodInfo.unmarshalParams`: decode failure; nil params although required -/\n")
	fmt.Fprintf(b, "def decodeFailure : Int := %s\ndef decodeNilParams : Int := %s\n", pick(unmarshalErrs, 0, "unmarshalParams"), pick(unmarshalErrs, 1, "unmarshalParams"))
	fmt.Fprintf(b, "/-- mcp/server.go `initializeMethodInfo`: the replaced `unmarshalParams` of initialize -/\n")
	fmt.Fprintf(b, "def initializeDecodeFailure : Int := %s\ndef initializeNilParams : Int := %s\n", pick(initErrs, 0, "initializeMethodInfo"), pick(initErrs, 1, "initializeMethodInfo"))
	fmt.Fprintf(b, "/-- mcp/shared.go `validateRequestMeta`: invalid clientInfo; missing or invalid clientCapabilities -/\n")
	var me []string
	if metaFacts != nil {
		me = metaFacts["errors"].([]string)
	}
	fmt.Fprintf(b, "def metaInvalidClientInfo : Int := %s\ndef metaInvalidCapabilities : Int := %s\n", pick(me, 0, "validateRequestMeta"), pick(me, 1, "validateRequestMeta"))
	fmt.Fprintf(b, "/-- mcp/transport.go `canceller.Preempt`: true when only notifications (requests without id) are inspected -/\n")
	fmt.Fprintf(b, "def preemptNotificationsOnly : Bool := %v\n", strings.Contains(preemptCond, "!req.IsCall()"))
	// ServerSession.handle, the per-request version check (F34): which list is tested and which is sent.
	// true: the list tested is `acceptedVersions` = the transport's versions (ss.supportedVersions read under
	// ss.mu, SDK list when nil) except for server/discover (SDK list), and `Supported:` is the transport's list.
	fmt.Fprintf(b, "/-- mcp/server.go `ServerSession.handle`: the per-request `_meta` version is tested against the transport's versions (any SDK version for the server/discover probe) and -32022 carries the transport's versions -/\n")
	fmt.Fprintf(b, "def perRequestVersionsFromTransport : Bool := %v\n", g.perRequestFromTransport(handle))
	b.WriteString("\nend Generated.Gate\n")
	c.Lean["GateGen"] = b.String()
}
