package main

import (
	"go/ast"
	"go/token"
	"sort"
)

// E12/C16 — the typed wrapper keeps nothing between calls (TypedTool.calls_leave_no_trace,
// responses_are_own): typedtool.wrapper_state lists (captured) the variables of toolForErr that the handler
// closure `th` captures — the resolved schemas, the zero value of a pointer output's element type and the
// typed handler: all written once, at registration — and (package_vars) the package-level variables that the
// closure, applySchema or isObjectJSON refer to: none. A free list, pool or scratch value shared by the
// calls of a tool (seeded changes C16-m13, C16-m16) shows up in one of the two lists; (assigned) the
// captured variables the closure assigns to: none.
func init() {
	reg(func(c *Ctx) {
		tf := c.Func("mcp", "", "toolForErr")
		if tf == nil {
			return // reported by the first extractor part
		}
		var th *ast.FuncLit
		ast.Inspect(tf.Body, func(n ast.Node) bool {
			if as, ok := n.(*ast.AssignStmt); ok && len(as.Lhs) == 1 && len(as.Rhs) == 1 {
				if id, ok := as.Lhs[0].(*ast.Ident); ok && id.Name == "th" {
					if fl, ok := as.Rhs[0].(*ast.FuncLit); ok {
						th = fl
					}
				}
			}
			return true
		})
		if th == nil {
			return
		}
		pkgVars := map[string]bool{}
		for _, f := range c.load("mcp") {
			for _, d := range f.Decls {
				if gd, ok := d.(*ast.GenDecl); ok && gd.Tok == token.VAR {
					for _, sp := range gd.Specs {
						if vs, ok := sp.(*ast.ValueSpec); ok {
							for _, n := range vs.Names {
								if n.Name != "_" {
									pkgVars[n.Name] = true
								}
							}
						}
					}
				}
			}
		}
		captured, pvars, assigned := map[string]bool{}, map[string]bool{}, map[string]bool{}
		within := func(p token.Pos, n ast.Node) bool { return n != nil && n.Pos() <= p && p < n.End() }
		// scan the identifiers used in body: declared inside inner -> local; inside outer -> captured;
		// elsewhere -> a package-level variable
		var scan func(body ast.Node, inner, outer ast.Node)
		scan = func(body ast.Node, inner, outer ast.Node) {
			var visit func(n ast.Node) bool
			classify := func(x *ast.Ident) string {
				if x.Obj != nil {
					if x.Obj.Kind != ast.Var {
						return ""
					}
					p := x.Obj.Pos()
					switch {
					case within(p, inner):
						return ""
					case outer != nil && within(p, outer):
						captured[x.Name] = true
						return "captured"
					default:
						pvars[x.Name] = true
						return "pkg"
					}
				}
				if pkgVars[x.Name] {
					pvars[x.Name] = true
					return "pkg"
				}
				return ""
			}
			visit = func(n ast.Node) bool {
				switch x := n.(type) {
				case *ast.SelectorExpr:
					ast.Inspect(x.X, visit)
					return false
				case *ast.KeyValueExpr:
					ast.Inspect(x.Value, visit)
					return false
				case *ast.AssignStmt:
					for _, l := range x.Lhs {
						if id, ok := l.(*ast.Ident); ok && x.Tok != token.DEFINE {
							if k := classify(id); k != "" {
								assigned[id.Name] = true
							}
						}
					}
				case *ast.Ident:
					classify(x)
				}
				return true
			}
			ast.Inspect(body, visit)
		}
		scan(th.Body, th, tf)
		for _, fn := range []string{"applySchema", "isObjectJSON"} {
			if fd := c.Func("mcp", "", fn); fd != nil {
				scan(fd.Body, fd, nil)
			} else {
				c.Errf("typedtool: %s not found", fn)
			}
		}
		keys := func(m map[string]bool) []string {
			o := []string{}
			for k := range m {
				o = append(o, k)
			}
			sort.Strings(o)
			return o
		}
		c.Fact("typedtool.wrapper_state", map[string]any{"captured": keys(captured), "package_vars": keys(pvars), "assigned": keys(assigned)})
	})
}
