package main

import (
	"fmt"
	"go/ast"
)

// E15: constants of MemoryEventStore and the locking discipline of its exported methods.
func init() {
	reg(func(c *Ctx) {
		n, ok := c.ConstInt("mcp", "defaultMaxBytes")
		if !ok {
			c.Errf("eventstore: defaultMaxBytes not a constant")
		}
		c.Lean["EventStoreGen"] = fmt.Sprintf("namespace Generated.EventStore\n/-- mcp/event.go `defaultMaxBytes` -/\ndef defaultMaxBytes : Nat := %d\nend Generated.EventStore\n", n)

		// Structural fact: every exported method of MemoryEventStore starts with
		// `s.mu.Lock(); defer s.mu.Unlock()` — except After, whose copyData closure does so
		// and whose returned iterator only reads the copy.
		res := map[string]string{}
		for _, m := range c.Methods("mcp", "MemoryEventStore") {
			if !m.Name.IsExported() {
				continue
			}
			res[m.Name.Name] = lockShape(c, m.Body)
		}
		c.Fact("eventstore.lock_shape", res)
		// unexported helpers must not lock (they require s.mu): init, purge, validate
		helpers := map[string]bool{}
		for _, m := range c.Methods("mcp", "MemoryEventStore") {
			if m.Name.IsExported() || m.Name.Name == "debugString" {
				continue
			}
			helpers[m.Name.Name] = containsCall(m.Body, "Lock")
		}
		c.Fact("eventstore.helpers_lock", helpers)
	})
}

func lockShape(c *Ctx, body *ast.BlockStmt) string {
	if body == nil || len(body.List) == 0 {
		return "empty"
	}
	if isLockPair(c, body.List) {
		return "lock-defer-unlock"
	}
	// After: first statement defines a closure whose body starts with the lock pair
	if as, ok := body.List[0].(*ast.AssignStmt); ok && len(as.Rhs) == 1 {
		if fl, ok := as.Rhs[0].(*ast.FuncLit); ok && isLockPair(c, fl.Body.List) {
			return "closure-lock-defer-unlock"
		}
	}
	return "other:" + c.Src(body.List[0])
}

func isLockPair(c *Ctx, l []ast.Stmt) bool {
	return len(l) >= 2 && c.Src(l[0]) == "s.mu.Lock()" && c.Src(l[1]) == "defer s.mu.Unlock()"
}

func containsCall(n ast.Node, sel string) bool {
	found := false
	ast.Inspect(n, func(x ast.Node) bool {
		if ce, ok := x.(*ast.CallExpr); ok {
			if se, ok := ce.Fun.(*ast.SelectorExpr); ok && se.Sel.Name == sel {
				found = true
			}
		}
		return true
	})
	return found
}
