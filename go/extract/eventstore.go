package main

import (
	"fmt"
	"go/ast"
)

// E15: constants of MemoryEventStore and the locking discipline of its exported methods.
func init() {
	reg(func(c *Ctx) {
		n, ok := c.ConstInt("mcp", "defaultMaxBytes")
		if !ok {
			c.Errf("eventstore: defaultMaxBytes not a constant")
		}
		c.Lean["EventStoreGen"] = fmt.Sprintf("namespace Generated.EventStore\n/-- mcp/event.go `defaultMaxBytes` -/\ndef defaultMaxBytes : Nat := %d\nend Generated.EventStore\n", n)

		// Structural fact: every exported method of MemoryEventStore starts with
		// `s.mu.Lock(); defer s.mu.Unlock()` — except After, whose copyData closure does so
		// and whose returned iterator only reads the copy.
		res := map[string]string{}
		for _, m := range c.Methods("mcp", "MemoryEventStore") {
			if !m.Name.IsExported() {
				continue
			}
			res[m.Name.Name] = lockShape(c, m.Body)
		}
		c.Fact("eventstore.lock_shape", res)
		// unexported helpers must not lock (they require s.mu): init, purge, validate
		helpers := map[string]bool{}
		for _, m := range c.Methods("mcp", "MemoryEventStore") {
			if m.Name.IsExported() || m.Name.Name == "debugString" {
				continue
			}
			helpers[m.Name.Name] = containsCall(m.Body, "Lock")
		}
		c.Fact("eventstore.helpers_lock", helpers)

		// Structural facts about the After ITERATOR (the iterator-as-a-value model, EventStore/Model.lean `Iter`):
		// copyData (the one critical section) returns a CLONE of the retained tail, never a view of dl.data;
		// the returned iterator takes its snapshot by calling copyData once, delivers by ranging over that
		// private slice, touches neither the store nor the lock, and ends early only after yielding the error
		// or when the consumer says stop; After's context parameter is unused (`_`).
		if after := c.Func("mcp", "MemoryEventStore", "After"); after != nil && after.Body != nil {
			c.Fact("eventstore.after_snapshot", afterSnapshot(c, after))
			c.Fact("eventstore.after_delivery", afterDelivery(c, after))
			ctxName := "?"
			if ps := after.Type.Params.List; len(ps) > 0 && len(ps[0].Names) > 0 {
				ctxName = ps[0].Names[0].Name
			}
			c.Fact("eventstore.after_ctx_unused", map[string]any{"param": ctxName, "ident_ctx_in_body": usesIdent(after.Body, "ctx")})
		} else {
			c.Errf("eventstore: MemoryEventStore.After not found")
		}
	})
}

// afterSnapshot: the first results of the return statements of After's copyData closure, in order, and
// whether the closure holds the lock for its whole body.
func afterSnapshot(c *Ctx, after *ast.FuncDecl) map[string]any {
	res := map[string]any{"closure": "missing"}
	as, ok := after.Body.List[0].(*ast.AssignStmt)
	if !ok || len(as.Rhs) != 1 || len(as.Lhs) != 1 {
		return res
	}
	fl, ok := as.Rhs[0].(*ast.FuncLit)
	if !ok {
		return res
	}
	res["closure"] = c.Src(as.Lhs[0])
	res["locked"] = isLockPair(c, fl.Body.List)
	var rets []string
	ast.Inspect(fl.Body, func(n ast.Node) bool {
		if _, ok := n.(*ast.FuncLit); ok {
			return false
		}
		if r, ok := n.(*ast.ReturnStmt); ok && len(r.Results) > 0 {
			rets = append(rets, c.Src(r.Results[0]))
		}
		return true
	})
	res["returns"] = rets
	return res
}

// afterDelivery: the shape of the iterator After returns (its last statement `return func(yield ...) {...}`).
func afterDelivery(c *Ctx, after *ast.FuncDecl) map[string]any {
	res := map[string]any{"iterator": "missing"}
	rs, ok := after.Body.List[len(after.Body.List)-1].(*ast.ReturnStmt)
	if !ok || len(rs.Results) != 1 {
		return res
	}
	fl, ok := rs.Results[0].(*ast.FuncLit)
	if !ok {
		return res
	}
	res["iterator"] = "func-literal"
	res["statements_of_After"] = len(after.Body.List)
	var stmts []string
	for _, st := range fl.Body.List {
		switch x := st.(type) {
		case *ast.RangeStmt:
			stmts = append(stmts, "range "+c.Src(x.X)+" {"+joinStmts(c, x.Body.List)+"}")
		case *ast.IfStmt:
			stmts = append(stmts, "if "+c.Src(x.Cond)+" {"+joinStmts(c, x.Body.List)+"}")
		default:
			stmts = append(stmts, c.Src(st))
		}
	}
	res["body"] = stmts
	res["touches_store"] = usesIdent(fl.Body, "s") || usesIdent(fl.Body, "dl")
	return res
}

func joinStmts(c *Ctx, l []ast.Stmt) string {
	out := ""
	for i, st := range l {
		if i > 0 {
			out += "; "
		}
		if x, ok := st.(*ast.IfStmt); ok {
			out += "if " + c.Src(x.Cond) + " {" + joinStmts(c, x.Body.List) + "}"
		} else {
			out += c.Src(st)
		}
	}
	return out
}

func usesIdent(n ast.Node, name string) bool {
	found := false
	ast.Inspect(n, func(x ast.Node) bool {
		if id, ok := x.(*ast.Ident); ok && id.Name == name {
			found = true
		}
		return true
	})
	return found
}

func lockShape(c *Ctx, body *ast.BlockStmt) string {
	if body == nil || len(body.List) == 0 {
		return "empty"
	}
	if isLockPair(c, body.List) {
		return "lock-defer-unlock"
	}
	// After: first statement defines a closure whose body starts with the lock pair
	if as, ok := body.List[0].(*ast.AssignStmt); ok && len(as.Rhs) == 1 {
		if fl, ok := as.Rhs[0].(*ast.FuncLit); ok && isLockPair(c, fl.Body.List) {
			return "closure-lock-defer-unlock"
		}
	}
	return "other:" + c.Src(body.List[0])
}

func isLockPair(c *Ctx, l []ast.Stmt) bool {
	return len(l) >= 2 && c.Src(l[0]) == "s.mu.Lock()" && c.Src(l[1]) == "defer s.mu.Unlock()"
}

func containsCall(n ast.Node, sel string) bool {
	found := false
	ast.Inspect(n, func(x ast.Node) bool {
		if ce, ok := x.(*ast.CallExpr); ok {
			if se, ok := ce.Fun.(*ast.SelectorExpr); ok && se.Sel.Name == sel {
				found = true
			}
		}
		return true
	})
	return found
}
