package main

import (
	"fmt"
	"go/ast"
	"go/token"
	"sort"
	"strings"
)

// E5 (C08, C10): event-id format constants and the structural facts the atomic-step model relies on:
//   - in streamableServerConn.Write the store Append precedes deliverLocked, both after s.mu.Lock()
//     with a deferred Unlock; the routing part (requestStreams lookup/delete) sits between
//     c.mu.Lock() and c.mu.Unlock();
//   - acquireStream takes s.mu once (deferred Unlock) before After(), the replay loop and the attach;
//   - servePOST checks duplicates and registers streams/requestStreams in ONE c.mu section, before
//     the priming event and before publishing the incoming messages;
//   - deliverLocked removes the request before the connectivity check and increments lastIdx before
//     writing; stream.close / release take s.mu for their whole body.
func init() {
	reg(func(c *Ctx) {
		var b strings.Builder
		b.WriteString("namespace Generated.Resume\n")
		for _, name := range []string{"protocolVersion20250326", "protocolVersion20250618", "protocolVersion20251125", "protocolVersion20260728", "lastEventIDHeader", "sessionIDHeader", "protocolVersionHeader"} {
			v, ok := c.ConstString("mcp", name)
			if !ok {
				c.Errf("resume: %s is not a string constant", name)
			}
			fmt.Fprintf(&b, "def %s : String := %s\n", name, LeanStr(v))
		}
		// formatEventID: fmt.Sprintf("%s_%d", sid, idx)
		format := ""
		if fd := c.Func("mcp", "", "formatEventID"); fd != nil {
			ast.Inspect(fd.Body, func(n ast.Node) bool {
				if ce, ok := n.(*ast.CallExpr); ok && c.Src(ce.Fun) == "fmt.Sprintf" && len(ce.Args) > 0 {
					if bl, ok := ce.Args[0].(*ast.BasicLit); ok && bl.Kind == token.STRING {
						format = strings.Trim(bl.Value, "\"`")
					}
				}
				return true
			})
		}
		if format == "" {
			c.Errf("resume: formatEventID format not found")
		}
		fmt.Fprintf(&b, "/-- `formatEventID` -/\ndef eventIDFormat : String := %s\n", LeanStr(format))
		// parseEventID: strings.Split(eventID, "_"), len(parts) != 2, idx < 0 rejected
		sep := ""
		if fd := c.Func("mcp", "", "parseEventID"); fd != nil {
			ast.Inspect(fd.Body, func(n ast.Node) bool {
				if ce, ok := n.(*ast.CallExpr); ok && c.Src(ce.Fun) == "strings.Split" && len(ce.Args) == 2 {
					if bl, ok := ce.Args[1].(*ast.BasicLit); ok {
						sep = strings.Trim(bl.Value, "\"`")
					}
				}
				return true
			})
			c.Fact("resume.parse_event_id", resumeSeq(c, fd.Body, map[string]string{
				"len(parts) != 2": "two-parts", "strconv.Atoi(parts[1])": "atoi", "err != nil || idx < 0": "reject-negative"}, true))
		} else {
			c.Errf("resume: parseEventID not found")
		}
		fmt.Fprintf(&b, "/-- separator used by `parseEventID` -/\ndef eventIDSep : String := %s\n", LeanStr(sep))
		// initial lastIdx in newStream (composite literal field) and in serveGET
		initIdx := "?"
		if fd := c.Func("mcp", "streamableServerConn", "newStream"); fd != nil {
			ast.Inspect(fd.Body, func(n ast.Node) bool {
				if kv, ok := n.(*ast.KeyValueExpr); ok && c.Src(kv.Key) == "lastIdx" {
					initIdx = c.Src(kv.Value)
				}
				return true
			})
		}
		getIdx := "?"
		if fd := c.Func("mcp", "streamableServerConn", "serveGET"); fd != nil {
			ast.Inspect(fd.Body, func(n ast.Node) bool {
				if as, ok := n.(*ast.AssignStmt); ok && len(as.Lhs) == 1 && c.Src(as.Lhs[0]) == "lastIdx" && as.Tok == token.DEFINE {
					getIdx = c.Src(as.Rhs[0])
				}
				return true
			})
		}
		c.Fact("resume.initial_lastIdx", map[string]string{"newStream": initIdx, "serveGET": getIdx})
		// SSE event names used by the server side
		names := map[string]bool{}
		for _, fn := range [][2]string{{"stream", "close"}, {"stream", "deliverLocked"}, {"streamableServerConn", "acquireStream"}, {"streamableServerConn", "servePOST"}} {
			if fd := c.Func("mcp", fn[0], fn[1]); fd != nil {
				ast.Inspect(fd.Body, func(n ast.Node) bool {
					if kv, ok := n.(*ast.KeyValueExpr); ok && c.Src(kv.Key) == "Name" {
						if bl, ok := kv.Value.(*ast.BasicLit); ok {
							names[strings.Trim(bl.Value, "\"")] = true
						}
					}
					return true
				})
			}
		}
		var nl []string
		for n := range names {
			nl = append(nl, n)
		}
		sort.Strings(nl)
		fmt.Fprintf(&b, "/-- SSE event names written by the server -/\ndef eventNames : List String := %s\n", LeanStrList(nl))
		b.WriteString("end Generated.Resume\n")
		c.Lean["ResumeGen"] = b.String()

		// ---- structural facts: ordered occurrences of the statements that matter
		if fd := c.Func("mcp", "streamableServerConn", "Write"); fd != nil {
			c.Fact("resume.write_order", resumeSeq(c, fd.Body, map[string]string{
				"c.mu.Lock()":                   "c.lock",
				"c.mu.Unlock()":                 "c.unlock",
				"c.requestStreams[relatedRequest]": "lookup-requestStreams",
				"c.streams[streamID]":           "lookup-streams",
				"c.streams[\"\"]":               "lookup-standalone",
				"delete(c.requestStreams, responseTo)": "delete-requestStreams",
				"c.isDone":                      "read-isDone",
				"s.mu.Lock()":                   "s.lock",
				"defer s.mu.Unlock()":           "defer-s.unlock",
				"c.eventStore.Append(ctx, c.sessionID, s.id, data)": "append",
				"formatEventID(s.id, s.lastIdx+1)":                  "event-id=lastIdx+1",
				"s.deliverLocked(data, eventID, responseTo, overrideStatus)": "deliver",
				"delete(c.streams, s.id)":       "delete-streams",
			}, false))
		} else {
			c.Errf("resume: streamableServerConn.Write not found")
		}
		if fd := c.Func("mcp", "streamableServerConn", "acquireStream"); fd != nil {
			c.Fact("resume.acquire_order", resumeSeq(c, fd.Body, map[string]string{
				"c.mu.Lock()":         "c.lock",
				"c.mu.Unlock()":       "c.unlock",
				"c.streams[streamID]": "lookup-streams",
				"c.streams[streamID] = s": "register-temp",
				"s.mu.Lock()":         "s.lock",
				"defer s.mu.Unlock()": "defer-s.unlock",
				"s.mu.Unlock()":       "s.unlock-early",
				"!tempStream && s.w != nil": "conflict-check",
				"c.eventStore.After(ctx, c.SessionID(), s.id, lastIdx)": "after",
				"len(data) > 0":       "skip-empty",
				"lastIdx++":           "idx++",
				"formatEventID(s.id, lastIdx)": "event-id=idx",
				"writeEvent(w, e)":    "write-replayed",
				"tempStream || s.doneLocked()": "done-check",
				"s.w = w":             "attach-w",
				"s.done = make(chan struct{})": "attach-done",
				"s.lastIdx = lastIdx": "attach-lastIdx",
			}, false))
		} else {
			c.Errf("resume: acquireStream not found")
		}
		if fd := c.Func("mcp", "streamableServerConn", "servePOST"); fd != nil {
			c.Fact("resume.post_order", resumeSeq(c, fd.Body, map[string]string{
				"c.newStream(req.Context(), calls, crand.Text())": "new-stream",
				"stream.w = w":        "set-w",
				"c.mu.Lock()":         "c.lock",
				"c.mu.Unlock()":       "c.unlock",
				"c.requestStreams[reqID]": "dup-check",
				"c.streams[stream.id] = stream": "register-stream",
				"c.requestStreams[reqID] = stream.id": "register-request",
				"defer stream.release()": "defer-release",
				"c.eventStore.Append(req.Context(), c.sessionID, stream.id, nil)": "append-prime",
				"stream.lastIdx++":    "prime-idx++",
				"formatEventID(stream.id, stream.lastIdx)": "prime-id=lastIdx",
				"writeEvent(w, e)":    "write-prime",
				"c.incoming <- msg":   "publish",
				"c.hangResponse(req.Context(), done)": "hang",
				"w.WriteHeader(http.StatusAccepted)": "202",
			}, false))
		} else {
			c.Errf("resume: servePOST not found")
		}
		if fd := c.Func("mcp", "stream", "deliverLocked"); fd != nil {
			c.Fact("resume.deliver_order", resumeSeq(c, fd.Body, map[string]string{
				"delete(s.requests, responseTo)": "remove-request",
				"done = len(s.requests) == 0 && s.id != \"\"": "done:=requests-empty-and-not-standalone",
				"s.done == nil":      "connected-check",
				"close(s.done)":      "close-done",
				"s.pendingJSONMessages != nil": "json-branch",
				"s.pendingJSONMessages = append(s.pendingJSONMessages, data)": "json-buffer",
				"s.w.Write(toWrite)": "json-flush",
				"s.lastIdx++":        "lastIdx++",
				"writeEvent(s.w, Event{Name: \"message\", Data: data, ID: eventID})": "write-message",
				"s.mu.Lock()":        "s.lock",
			}, false))
		} else {
			c.Errf("resume: deliverLocked not found")
		}
		shapes := map[string]string{}
		for _, m := range []string{"close", "release"} {
			if fd := c.Func("mcp", "stream", m); fd != nil {
				shapes[m] = lockShape(c, fd.Body)
			} else {
				shapes[m] = "missing"
			}
		}
		c.Fact("resume.stream_lock_shape", shapes)
		// ---- fan-out: the context every copy of a server-level notification is sent with (world label FANOUT: each
		// session's copy is a DETACHED write). notifySessions / notifySubscribedSessions take no context parameter and hand
		// handleNotify a context derived from context.Background(); ResourceUpdated and Server.notifySessions pass them
		// nothing that mentions a ctx. A request-derived context here would route a copy by ANOTHER session's request id.
		fan := map[string]any{}
		for _, fn := range [][2]string{{"", "notifySessions"}, {"Server", "notifySubscribedSessions"}} {
			fd := c.Func("mcp", fn[0], fn[1])
			if fd == nil {
				c.Errf("resume: %s not found", fn[1])
				continue
			}
			ctxParams := []string{}
			for _, f := range fd.Type.Params.List {
				if strings.Contains(c.Src(f.Type), "context.Context") {
					for _, n := range f.Names {
						ctxParams = append(ctxParams, n.Name)
					}
					if len(f.Names) == 0 {
						ctxParams = append(ctxParams, "_")
					}
				}
			}
			// the first argument of handleNotify and every definition / assignment of that identifier in the body
			sent := "?"
			ast.Inspect(fd.Body, func(n ast.Node) bool {
				if ce, ok := n.(*ast.CallExpr); ok && c.Src(ce.Fun) == "handleNotify" && len(ce.Args) > 0 {
					sent = c.Src(ce.Args[0])
				}
				return true
			})
			defs := []string{}
			ast.Inspect(fd.Body, func(n ast.Node) bool {
				if as, ok := n.(*ast.AssignStmt); ok {
					for i, l := range as.Lhs {
						if c.Src(l) == sent {
							r := as.Rhs[0]
							if len(as.Rhs) == len(as.Lhs) {
								r = as.Rhs[i]
							}
							defs = append(defs, c.Src(r))
						}
					}
				}
				return true
			})
			fan[fn[1]] = map[string]any{"context_params": ctxParams, "handleNotify_ctx": sent, "ctx_defined_as": defs}
		}
		for _, fn := range [][2]string{{"Server", "ResourceUpdated"}, {"Server", "notifySessions"}} {
			fd := c.Func("mcp", fn[0], fn[1])
			if fd == nil {
				c.Errf("resume: Server.%s not found", fn[1])
				continue
			}
			calls := []string{}
			ast.Inspect(fd.Body, func(n ast.Node) bool {
				if ce, ok := n.(*ast.CallExpr); ok {
					f := c.Src(ce.Fun)
					if f == "notifySessions" || f == "s.notifySubscribedSessions" {
						withCtx := false
						for _, a := range ce.Args {
							src := c.Src(a)
							if src == "ctx" || strings.Contains(src, "ctx,") || strings.Contains(src, "ctx)") || strings.HasPrefix(src, "context.") {
								withCtx = true
							}
						}
						calls = append(calls, fmt.Sprintf("%s/%d args/ctx-arg=%v", f, len(ce.Args), withCtx))
					}
				}
				return true
			})
			fan["Server."+fn[1]+" calls"] = calls
		}
		c.Fact("resume.fanout_context", fan)
		if fd := c.Func("mcp", "streamableServerConn", "Close"); fd != nil {
			c.Fact("resume.close_order", resumeSeq(c, fd.Body, map[string]string{
				"c.mu.Lock()": "c.lock", "defer c.mu.Unlock()": "defer-c.unlock", "c.isDone = true": "isDone", "close(c.done)": "close-done",
				"c.eventStore.SessionClosed(context.TODO(), c.sessionID)": "session-closed"}, false))
		}
	})
}

// resumeSeq lists, in source order, the occurrences inside body of the expressions/statements whose
// printed form equals one of the keys of pats (reported under the mapped name).
func resumeSeq(c *Ctx, body *ast.BlockStmt, pats map[string]string, exprOnly bool) []string {
	type occ struct {
		pos  token.Pos
		name string
	}
	var occs []occ
	seen := map[token.Pos]map[string]bool{}
	ast.Inspect(body, func(n ast.Node) bool {
		if n == nil {
			return false
		}
		switch n.(type) {
		case ast.Expr, ast.Stmt:
		default:
			return true
		}
		// an ExprStmt and its expression print alike: count once
		if es, ok := n.(*ast.ExprStmt); ok {
			_ = es
			return true
		}
		src := c.Src(n)
		if name, ok := pats[src]; ok {
			if seen[n.Pos()] == nil {
				seen[n.Pos()] = map[string]bool{}
			}
			if !seen[n.Pos()][name] {
				seen[n.Pos()][name] = true
				occs = append(occs, occ{n.Pos(), name})
			}
			// a `defer x` statement contains the call `x`: do not report the inner call again
			if _, ok := n.(*ast.DeferStmt); ok {
				return false
			}
		}
		return true
	})
	sort.SliceStable(occs, func(i, j int) bool { return occs[i].pos < occs[j].pos })
	out := make([]string, len(occs))
	for i, o := range occs {
		out[i] = o.name
	}
	return out
}
