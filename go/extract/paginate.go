package main

import (
	"fmt"
	"go/ast"
	"go/constant"
	"sort"
	"strings"
)

// E13 (C17): constants of pagination, and the structural facts the model relies on:
// the transliterated functions are unchanged, every write to featureSet.features is paired with
// the invalidation of sortedKeys, list handlers and mutators run under Server.mu, page size >= 1.
func init() {
	reg(func(c *Ctx) {
		n, ok := c.ConstInt("mcp", "DefaultPageSize")
		if !ok {
			c.Errf("paginate: DefaultPageSize not a constant")
		}
		code := int64(0)
		if e, ok := c.ValueExpr("internal/jsonrpc2", "ErrInvalidParams").(*ast.CallExpr); ok && len(e.Args) >= 1 && c.Src(e.Fun) == "NewError" {
			if v, ok := c.Const("internal/jsonrpc2", e.Args[0]); ok {
				code, _ = constant.Int64Val(constant.ToInt(v))
			}
		}
		if code == 0 {
			c.Errf("paginate: ErrInvalidParams code not found")
		}
		c.Lean["PaginateGen"] = fmt.Sprintf("namespace Generated.Paginate\n/-- mcp/server.go `DefaultPageSize` -/\ndef defaultPageSize : Nat := %d\n/-- internal/jsonrpc2 `ErrInvalidParams` code -/\ndef codeInvalidParams : Int := %d\nend Generated.Paginate\n", n, code)

		// (1) the functions the Lean model transliterates, as source text
		src := map[string]string{}
		for _, m := range []string{"add", "remove", "all", "above", "sortKeys", "yieldFrom"} {
			if fd := c.Func("mcp", "featureSet", m); fd != nil {
				src["featureSet."+m] = c.Src(fd.Body)
			} else {
				c.Errf("paginate: featureSet.%s not found", m)
			}
		}
		for _, f := range []string{"paginateList", "paginate"} {
			if fd := c.Func("mcp", "", f); fd != nil {
				src[f] = c.Src(fd.Body)
			} else {
				c.Errf("paginate: %s not found", f)
			}
		}
		c.Fact("paginate.transliterated", src)

		// (2) every method of featureSet: what it writes
		writes := map[string][]string{}
		for _, m := range c.Methods("mcp", "featureSet") {
			var w []string
			ast.Inspect(m.Body, func(x ast.Node) bool {
				switch s := x.(type) {
				case *ast.AssignStmt:
					for _, l := range s.Lhs {
						t := c.Src(l)
						if strings.HasPrefix(t, "s.features") || strings.HasPrefix(t, "s.sortedKeys") {
							w = append(w, t+" = "+c.Src(s.Rhs[0]))
						}
					}
				case *ast.CallExpr:
					if id, ok := s.Fun.(*ast.Ident); ok && (id.Name == "delete" || id.Name == "clear") && len(s.Args) > 0 && strings.HasPrefix(c.Src(s.Args[0]), "s.") {
						w = append(w, c.Src(s))
					}
				}
				return true
			})
			if len(w) > 0 {
				writes[m.Name.Name] = w
			}
		}
		c.Fact("paginate.featureset_writes", writes)

		// (2b) every use of the sorted index, in EVERY function of the package: the index may be rebuilt
		// (assigned), nil-tested, measured, indexed, ranged over or searched — nothing else. In particular it
		// must not escape (be returned, stored, passed to anything but the read-only slices.BinarySearch):
		// an alias could be re-sorted in place behind the back of all()/above().
		uses := map[string][]string{}
		for _, f := range c.load("mcp") {
			for _, d := range f.Decls {
				fd, ok := d.(*ast.FuncDecl)
				if !ok || fd.Body == nil {
					continue
				}
				name := fd.Name.Name
				if r := recvName(fd); r != "" {
					name = r + "." + name
				}
				var u []string
				var stack []ast.Node
				ast.Inspect(fd.Body, func(x ast.Node) bool {
					if x == nil {
						stack = stack[:len(stack)-1]
						return true
					}
					if se, ok := x.(*ast.SelectorExpr); ok && se.Sel.Name == "sortedKeys" {
						kind := "escapes:" + c.Src(stack[len(stack)-1])
						switch p := stack[len(stack)-1].(type) {
						case *ast.AssignStmt:
							kind = "escapes:" + c.Src(p)
							for _, l := range p.Lhs {
								if l == ast.Expr(se) {
									kind = "assign:" + c.Src(p.Rhs[0])
								}
							}
						case *ast.BinaryExpr:
							if c.Src(p.Y) == "nil" || c.Src(p.X) == "nil" {
								kind = "niltest"
							}
						case *ast.IndexExpr:
							if p.X == ast.Expr(se) {
								kind = "index"
							}
						case *ast.RangeStmt:
							if p.X == ast.Expr(se) {
								kind = "range"
							}
						case *ast.CallExpr:
							switch fn := c.Src(p.Fun); fn {
							case "len":
								kind = "len"
							case "slices.BinarySearch":
								kind = "search"
							default:
								kind = "passed-to:" + fn
							}
						}
						u = append(u, kind)
					}
					stack = append(stack, x)
					return true
				})
				if len(u) > 0 {
					uses[name] = u
				}
			}
		}
		c.Fact("paginate.sortedKeys_uses", uses)

		// (3) list handlers: whole body under s.mu, paginateList on the right set with the configured page size
		lh := map[string]string{}
		for _, h := range []string{"listPrompts", "listTools", "listResources", "listResourceTemplates"} {
			fd := c.Func("mcp", "Server", h)
			if fd == nil {
				c.Errf("paginate: Server.%s not found", h)
				continue
			}
			shape := "nolock"
			if isLockPair(c, fd.Body.List) {
				shape = "lock-defer-unlock"
			}
			call := "?"
			ast.Inspect(fd.Body, func(x ast.Node) bool {
				if ce, ok := x.(*ast.CallExpr); ok && c.Src(ce.Fun) == "paginateList" && len(ce.Args) >= 3 {
					call = c.Src(ce.Args[0]) + "," + c.Src(ce.Args[1]) + "," + c.Src(ce.Args[2])
				}
				return true
			})
			lh[h] = shape + ";" + call
		}
		c.Fact("paginate.list_handlers", lh)

		// (4) mutators: the featureSet call sits inside the closure given to changeAndNotify, which locks s.mu
		mut := map[string]string{}
		for _, h := range []string{"AddPrompt", "RemovePrompts", "AddTool", "RemoveTools", "AddResource", "RemoveResources", "AddResourceTemplate", "RemoveResourceTemplates"} {
			fd := c.Func("mcp", "Server", h)
			if fd == nil {
				c.Errf("paginate: Server.%s not found", h)
				continue
			}
			var inside, outside []string
			var walk func(n ast.Node, in bool)
			walk = func(n ast.Node, in bool) {
				ast.Inspect(n, func(x ast.Node) bool {
					ce, ok := x.(*ast.CallExpr)
					if !ok {
						return true
					}
					if c.Src(ce.Fun) == "s.changeAndNotify" {
						for _, a := range ce.Args {
							if fl, ok := a.(*ast.FuncLit); ok {
								walk(fl.Body, true)
							}
						}
						return false
					}
					if se, ok := ce.Fun.(*ast.SelectorExpr); ok && (se.Sel.Name == "add" || se.Sel.Name == "remove") {
						if in {
							inside = append(inside, c.Src(ce.Fun))
						} else {
							outside = append(outside, c.Src(ce.Fun))
						}
					}
					return true
				})
			}
			walk(fd.Body, false)
			sort.Strings(inside)
			mut[h] = "locked:" + strings.Join(inside, ",") + ";unlocked:" + strings.Join(outside, ",")
		}
		c.Fact("paginate.mutators", mut)

		// (4b) the sections of the Add* functions (TwoPhase.lean: `validate` has no effect and reads no server
		// state, `commit` is featureSet.add): every use of the receiver `s` OUTSIDE the closure given to
		// changeAndNotify, in source order. AddTool validates before it locks (its schema marshalling runs
		// user code): there it may use the logger only; the others do everything inside the closure.
		secs := map[string][]string{}
		for _, h := range []string{"AddPrompt", "AddTool", "AddResource", "AddResourceTemplate"} {
			fd := c.Func("mcp", "Server", h)
			if fd == nil {
				continue
			}
			uses := []string{}
			var walk func(n ast.Node)
			walk = func(n ast.Node) {
				ast.Inspect(n, func(x ast.Node) bool {
					switch e := x.(type) {
					case *ast.CallExpr:
						if c.Src(e.Fun) == "s.changeAndNotify" {
							uses = append(uses, "s.changeAndNotify")
							return false
						}
					case *ast.SelectorExpr:
						root := ast.Expr(e)
						for {
							se, ok := root.(*ast.SelectorExpr)
							if !ok {
								break
							}
							root = se.X
						}
						if id, ok := root.(*ast.Ident); ok && id.Name == "s" && id.Obj != nil && id.Obj.Decl == fd.Recv.List[0] {
							uses = append(uses, c.Src(e))
							return false
						}
					}
					return true
				})
			}
			walk(fd.Body)
			secs[h] = uses
		}
		c.Fact("paginate.add_sections", secs)
		if fd := c.Func("mcp", "Server", "changeAndNotify"); fd != nil && isLockPair(c, fd.Body.List) {
			c.Fact("paginate.changeAndNotify_lock", "lock-defer-unlock")
		} else {
			c.Fact("paginate.changeAndNotify_lock", "other")
		}

		// (5) NewServer: page size < 0 panics, 0 becomes DefaultPageSize
		var guards []string
		if fd := c.Func("mcp", "", "NewServer"); fd != nil {
			for _, st := range fd.Body.List {
				if is, ok := st.(*ast.IfStmt); ok && strings.Contains(c.Src(is.Cond), "PageSize") {
					guards = append(guards, c.Src(is))
				}
			}
		}
		c.Fact("paginate.pagesize_guard", guards)

		// (6) the cursor codec (abstract in the model: dec (enc k) = k, enc k non-empty; both laws are
		// checked on every cursor the harness sees) — anchored as text: there is no length cap or
		// other precondition on what decodeCursor accepts
		codec := map[string]string{}
		for _, f := range []string{"encodeCursor", "decodeCursor"} {
			if fd := c.Func("mcp", "", f); fd != nil {
				codec[f] = c.Src(fd.Body)
			} else {
				c.Errf("paginate: %s not found", f)
			}
		}
		c.Fact("paginate.codec", codec)

		// (7) client side: what each ListX does to the page before handing it over (only ListTools
		// filters: Model.filterOracle), and which ListX / items each iterator is built on
		post := map[string][]string{}
		for _, m := range []string{"ListTools", "ListPrompts", "ListResources", "ListResourceTemplates"} {
			fd := c.Func("mcp", "ClientSession", m)
			if fd == nil {
				c.Errf("paginate: ClientSession.%s not found", m)
				continue
			}
			w := []string{}
			ast.Inspect(fd.Body, func(x ast.Node) bool {
				if as, ok := x.(*ast.AssignStmt); ok {
					for _, l := range as.Lhs {
						if strings.HasPrefix(c.Src(l), "result.") {
							w = append(w, c.Src(as))
						}
					}
				}
				return true
			})
			post[m] = w
		}
		c.Fact("paginate.client_list_postprocess", post)
		its := map[string]string{}
		for _, m := range []string{"Tools", "Prompts", "Resources", "ResourceTemplates"} {
			fd := c.Func("mcp", "ClientSession", m)
			if fd == nil {
				c.Errf("paginate: ClientSession.%s not found", m)
				continue
			}
			call := "?"
			ast.Inspect(fd.Body, func(x ast.Node) bool {
				if ce, ok := x.(*ast.CallExpr); ok && c.Src(ce.Fun) == "paginate" && len(ce.Args) == 4 {
					call = c.Src(ce.Args[1]) + "," + c.Src(ce.Args[2]) + ";"
					if fl, ok := ce.Args[3].(*ast.FuncLit); ok {
						call += c.Src(fl.Body)
					}
				}
				return true
			})
			its[m] = call
		}
		c.Fact("paginate.client_iterators", its)
	})
}
