package main

import (
	"fmt"
	"go/ast"
	"sort"
	"strings"
)

// E14 (C18): debounce constant, notification method names, capability-gate and table-selection
// switches, client invalidation table; structural facts about locking and clean-up.
func init() {
	reg(func(c *Ctx) {
		var b strings.Builder
		b.WriteString("import McpModel.Notify.Basic\nnamespace Generated.Notify\nopen _root_.Notify\n")

		// ---- notificationDelay
		ns, ok := c.ConstInt("mcp", "notificationDelay")
		if !ok || ns%1_000_000 != 0 {
			c.Errf("notify: notificationDelay is not a whole number of milliseconds")
		}
		fmt.Fprintf(&b, "/-- mcp/server.go `notificationDelay`, in milliseconds -/\ndef notificationDelayMs : Nat := %d\n", ns/1_000_000)

		// ---- method names
		kindConst := map[string]string{"tools": "notificationToolListChanged", "prompts": "notificationPromptListChanged", "resources": "notificationResourceListChanged"}
		constKind := map[string]string{}
		for k, v := range kindConst {
			constKind[v] = k
		}
		kinds := []string{"tools", "prompts", "resources"}
		b.WriteString("/-- mcp/protocol.go: the list-changed notification method of each kind -/\ndef listChangedMethod : Kind → String\n")
		for _, k := range kinds {
			v, ok := c.ConstString("mcp", kindConst[k])
			if !ok {
				c.Errf("notify: constant %s not found", kindConst[k])
			}
			fmt.Fprintf(&b, "  | .%s => %s\n", k, LeanStr(v))
		}
		ru, ok := c.ConstString("mcp", "notificationResourceUpdated")
		if !ok {
			c.Errf("notify: constant notificationResourceUpdated not found")
		}
		fmt.Fprintf(&b, "/-- mcp/protocol.go `notificationResourceUpdated` -/\ndef resourceUpdatedMethod : String := %s\n", LeanStr(ru))

		optKind := func(k string) string {
			if k == "" {
				return "none"
			}
			return "some ." + k
		}
		table := func(doc, name, dom string, keys []string, m map[string]string) {
			fmt.Fprintf(&b, "/-- %s -/\ndef %s : %s → Option Kind\n", doc, name, dom)
			for _, k := range keys {
				fmt.Fprintf(&b, "  | .%s => %s\n", k, optKind(m[k]))
			}
		}

		// ---- featureKind: which notification the Add*/Remove* methods hand to changeAndNotify
		fsets := []string{"tools", "prompts", "resources", "templates"}
		fsField := map[string]string{"tools": "tools", "prompts": "prompts", "resources": "resources", "templates": "resourceTemplates"}
		fsMethods := map[string][]string{
			"tools": {"AddTool", "RemoveTools"}, "prompts": {"AddPrompt", "RemovePrompts"},
			"resources": {"AddResource", "RemoveResources"}, "templates": {"AddResourceTemplate", "RemoveResourceTemplates"},
		}
		featureKind := map[string]string{}
		for _, fs := range fsets {
			got := []string{}
			for _, mn := range fsMethods[fs] {
				fd := c.Func("mcp", "Server", mn)
				k := ""
				if fd != nil {
					ast.Inspect(fd.Body, func(n ast.Node) bool {
						ce, ok := n.(*ast.CallExpr)
						if !ok || c.Src(ce.Fun) != "s.changeAndNotify" || len(ce.Args) != 2 {
							return true
						}
						id, _ := ce.Args[0].(*ast.Ident)
						want := "s." + fsField[fs] + "."
						if id != nil && strings.Contains(c.Src(ce.Args[1]), want) {
							k = constKind[id.Name]
						}
						return true
					})
				}
				got = append(got, k)
			}
			if len(got) == 2 && got[0] == got[1] {
				featureKind[fs] = got[0]
			}
		}
		table("mcp/server.go Add*/Remove*: the notification handed to changeAndNotify for each feature set (none: the two methods disagree or do not call it)",
			"featureKind", "FSet", fsets, featureKind)

		// ---- sendGate: shouldSendListChangedNotification
		capsKind := map[string]string{"Tools": "tools", "Prompts": "prompts", "Resources": "resources"}
		sendGate := map[string]string{}
		if fd := c.Func("mcp", "Server", "shouldSendListChangedNotification"); fd != nil {
			forCases(fd.Body, func(cc *ast.CaseClause) {
				for _, e := range cc.List {
					id, _ := e.(*ast.Ident)
					if id == nil || constKind[id.Name] == "" {
						continue
					}
					field := ""
					for _, st := range cc.Body {
						ast.Inspect(st, func(n ast.Node) bool {
							if r, ok := n.(*ast.ReturnStmt); ok && len(r.Results) == 1 {
								src := c.Src(r.Results[0])
								if strings.HasPrefix(src, "caps.") && strings.HasSuffix(src, ".ListChanged") {
									field = strings.TrimSuffix(strings.TrimPrefix(src, "caps."), ".ListChanged")
								}
							}
							return true
						})
					}
					sendGate[constKind[id.Name]] = capsKind[field]
				}
			})
		} else {
			c.Errf("notify: shouldSendListChangedNotification not found")
		}
		table("mcp/server.go shouldSendListChangedNotification: the capability whose ListChanged switch gates each kind (none: not gated)",
			"sendGate", "Kind", kinds, sendGate)

		// ---- listenGate / listenTable: allowedSubscriptions and subscriptionsListen
		wantKind := map[string]string{"ToolsListChanged": "tools", "PromptsListChanged": "prompts", "ResourcesListChanged": "resources"}
		tableKind := map[string]string{"toolChangeSubscriptions": "tools", "promptChangeSubscriptions": "prompts", "resourceChangeSubscriptions": "resources"}
		listenGate := map[string]string{}
		if fd := c.Func("mcp", "Server", "allowedSubscriptions"); fd != nil {
			for _, st := range fd.Body.List {
				is, ok := st.(*ast.IfStmt)
				if !ok {
					continue
				}
				cond := c.Src(is.Cond)
				for w, k := range wantKind {
					if !strings.Contains(cond, "want."+w) || !strings.Contains(c.Src(is.Body), "agreed."+w+" = true") {
						continue
					}
					for f, fk := range capsKind {
						if strings.Contains(cond, "caps."+f+" != nil") && strings.Contains(cond, "caps."+f+".ListChanged") {
							listenGate[k] = fk
						}
					}
				}
			}
		} else {
			c.Errf("notify: allowedSubscriptions not found")
		}
		table("mcp/server.go allowedSubscriptions: the (effective) capability that admits a list-changed subscription of each kind",
			"listenGate", "Kind", kinds, listenGate)

		listenTable := map[string]string{}
		listenCleanup := []string{}
		listenHandover := []string{}
		if fd := c.Func("mcp", "Server", "subscriptionsListen"); fd != nil {
			for _, st := range fd.Body.List {
				is, ok := st.(*ast.IfStmt)
				if !ok {
					continue
				}
				cond := c.Src(is.Cond)
				for w, k := range wantKind {
					if cond != "allowed."+w {
						continue
					}
					for tn, tk := range tableKind {
						if strings.Contains(c.Src(is.Body), "s."+tn+"[req.Session] = requestID") {
							listenTable[k] = tk
						}
					}
				}
			}
			// the deferred functions: the by-id clean-up (which tables, guarded by the request id), and
			// the hand-over that runs before it (which table is handed over under which grant)
			ast.Inspect(fd.Body, func(n ast.Node) bool {
				ds, ok := n.(*ast.DeferStmt)
				if !ok {
					return true
				}
				if fl, ok := ds.Call.Fun.(*ast.FuncLit); ok {
					src := c.Src(fl.Body)
					if strings.Contains(src, "s.handOver(") {
						ast.Inspect(fl.Body, func(m ast.Node) bool {
							ce, ok := m.(*ast.CallExpr)
							if !ok || c.Src(ce.Fun) != "s.handOver" || len(ce.Args) != 4 {
								return true
							}
							tn := strings.TrimPrefix(c.Src(ce.Args[0]), "s.")
							for w, k := range wantKind {
								if strings.Contains(c.Src(ce.Args[3]), "return l.allowed."+w+" }") && c.Src(ce.Args[1]) == "req.Session" && c.Src(ce.Args[2]) == "stream" {
									listenHandover = append(listenHandover, "handover:"+k+"->"+tableKind[tn])
								}
							}
							return true
						})
						if strings.Contains(src, "slices.DeleteFunc(s.listens[req.Session], func(l *listenStream) bool { return l == stream })") {
							listenHandover = append(listenHandover, "stream-removed-in-the-same-section")
						}
						first, last := c.Src(fl.Body.List[0]), c.Src(fl.Body.List[len(fl.Body.List)-1])
						if first == "s.mu.Lock()" && last == "s.mu.Unlock()" {
							listenHandover = append(listenHandover, "lock_pair")
						}
						return true
					}
					for tn := range tableKind {
						if strings.Contains(src, tn) {
							mode := "unconditional"
							if strings.Contains(src, "requestID") {
								mode = "if-id-matches"
							}
							listenCleanup = append(listenCleanup, tn+":"+mode)
						}
					}
				}
				return true
			})
			// statement order from `allowed :=` on: the registration section (lock … unlock), the
			// deferred clean-up, the per-URI subscribes, THEN the acknowledgement, then the handler
			// parks. This is the order of the model's labels `listen` and `listenAck`
			// (ack_after_registration).
			seq := []string{}
			started := false
			for _, st := range fd.Body.List {
				src := c.Src(st)
				if !started {
					if strings.HasPrefix(src, "allowed := s.allowedSubscriptions(") {
						started = true
						seq = append(seq, "allowed")
					}
					continue
				}
				switch x := st.(type) {
				case *ast.DeferStmt:
					if strings.Contains(src, "s.handOver(") {
						seq = append(seq, "defer-handover")
					} else {
						seq = append(seq, "defer-cleanup")
					}
					continue
				case *ast.RangeStmt:
					if c.Src(x.X) == "allowed.ResourceSubscriptions" {
						b := c.Src(x.Body)
						t := "subscribe-uris:"
						if strings.Contains(b, "s.subscribe(ctx,") {
							t += "subscribe"
						}
						if strings.Contains(b, "defer s.unsubscribe(ctx,") {
							t += ",defer-unsubscribe"
						}
						if strings.Contains(b, "defer s.unsubscribeListen(ctx,") && strings.Contains(b, "}, stream)") {
							t += ",defer-unsubscribe-by-id"
						}
						seq = append(seq, t)
						continue
					}
				case *ast.ReturnStmt:
					seq = append(seq, "return")
					continue
				case *ast.IfStmt:
					cond := c.Src(x.Cond)
					done := false
					for w, k := range wantKind {
						if cond != "allowed."+w {
							continue
						}
						for tn, tk := range tableKind {
							if strings.Contains(c.Src(x.Body), "s."+tn+"[req.Session] = requestID") {
								seq = append(seq, "register:"+k+"->"+tk)
								done = true
							}
						}
					}
					if done {
						continue
					}
					if x.Init != nil && strings.Contains(c.Src(x.Init), "req.Session.notifySubscriptionAcked(ctx, ackParams)") {
						seq = append(seq, "ack")
						continue
					}
					if strings.Contains(c.Src(x.Body), "<-ctx.Done()") {
						seq = append(seq, "park")
						continue
					}
				}
				switch {
				case strings.HasPrefix(src, "verifYield("):
				case strings.HasPrefix(src, "stream := &listenStream{id: requestID, allowed: allowed}"):
					seq = append(seq, "stream")
				case src == "s.listens[req.Session] = append(s.listens[req.Session], stream)":
					seq = append(seq, "record-stream")
				case src == "s.mu.Lock()":
					seq = append(seq, "lock")
				case src == "s.mu.Unlock()":
					seq = append(seq, "unlock")
				case strings.HasPrefix(src, "ackParams := &SubscriptionsAcknowledgedParams{"):
					seq = append(seq, "ack-params")
				default:
					if len(src) > 60 {
						src = src[:60]
					}
					seq = append(seq, "other:"+src)
				}
			}
			c.Fact("notify.subscriptionsListen", seq)
		} else {
			c.Errf("notify: subscriptionsListen not found")
		}
		sort.Strings(listenCleanup)
		table("mcp/server.go subscriptionsListen: the subscription table written for an admitted kind",
			"listenTable", "Kind", kinds, listenTable)
		c.Fact("notify.listen_cleanup", listenCleanup)
		// handOver: only an entry that carries the id of the stream that ends; the newest OTHER open
		// stream of the session that was granted the same thing gets it
		if fd := c.Func("mcp", "Server", "handOver"); fd != nil && len(fd.Body.List) == 3 {
			if is, ok := fd.Body.List[0].(*ast.IfStmt); ok && is.Init != nil && c.Src(is.Init) == "id, ok := subs[sess]" &&
				c.Src(is.Cond) == "!ok || id != stream.id" && len(is.Body.List) == 1 && c.Src(is.Body.List[0]) == "return" {
				listenHandover = append(listenHandover, "handOver:only-if-id-matches")
			}
			if c.Src(fd.Body.List[1]) == "open := s.listens[sess]" {
				if fs, ok := fd.Body.List[2].(*ast.ForStmt); ok && c.Src(fs.Init) == "i := len(open) - 1" && c.Src(fs.Cond) == "i >= 0" && c.Src(fs.Post) == "i--" {
					listenHandover = append(listenHandover, "handOver:newest-first")
					if len(fs.Body.List) == 1 {
						if is, ok := fs.Body.List[0].(*ast.IfStmt); ok && c.Src(is.Cond) == "open[i] != stream && granted(open[i])" &&
							len(is.Body.List) == 2 && c.Src(is.Body.List[0]) == "subs[sess] = open[i].id" && c.Src(is.Body.List[1]) == "return" {
							listenHandover = append(listenHandover, "handOver:other-stream-granted->takes-the-entry")
						}
					}
				}
			}
		} else {
			c.Errf("notify: handOver not found (or not of the expected shape)")
		}
		// unsubscribeListen: handler, then ONE critical section: hand-over under the URI grant, delete by id
		if fd := c.Func("mcp", "Server", "unsubscribeListen"); fd != nil {
			useq := []string{}
			for _, st := range fd.Body.List {
				src := c.Src(st)
				switch {
				case strings.HasPrefix(src, "if s.opts.UnsubscribeHandler != nil {"):
					useq = append(useq, "handler")
				case src == "uri := req.Params.URI":
				case src == "s.mu.Lock()":
					useq = append(useq, "lock")
				case src == "defer s.mu.Unlock()":
					useq = append(useq, "defer-unlock")
				case src == "subs := s.resourceSubscriptions[uri]":
					useq = append(useq, "lookup-uri")
				case strings.HasPrefix(src, "if subs == nil {"):
				case strings.HasPrefix(src, "s.handOver(subs, req.Session, stream, func(l *listenStream) bool {") && strings.Contains(src, "return slices.Contains(l.allowed.ResourceSubscriptions, uri)"):
					useq = append(useq, "handover:uri")
				case strings.HasPrefix(src, "if id, ok := subs[req.Session]; ok && id == stream.id {") && strings.Contains(src, "delete(subs, req.Session)"):
					useq = append(useq, "delete-if-id-matches")
				default:
					if len(src) > 60 {
						src = src[:60]
					}
					useq = append(useq, "other:"+src)
				}
			}
			listenHandover = append(listenHandover, "unsubscribeListen:"+strings.Join(useq, ","))
		} else {
			c.Errf("notify: unsubscribeListen not found")
		}
		sort.Strings(listenHandover)
		c.Fact("notify.listen_handover", listenHandover)

		// ---- subsTable: notifySessions
		subsTable := map[string]string{}
		nsFacts := map[string]any{}
		if fd := c.Func("mcp", "Server", "notifySessions"); fd != nil {
			forCases(fd.Body, func(cc *ast.CaseClause) {
				for _, e := range cc.List {
					id, _ := e.(*ast.Ident)
					if id == nil || constKind[id.Name] == "" {
						continue
					}
					for tn, tk := range tableKind {
						if strings.Contains(c.Src(&ast.BlockStmt{List: cc.Body}), "subscribers = maps.Clone(s."+tn+")") {
							subsTable[constKind[id.Name]] = tk
						}
					}
				}
			})
			// order of the top-level statements: lock, clear, snapshot, unlock, sends
			seq := []string{}
			for _, st := range fd.Body.List {
				if _, ok := st.(*ast.DeclStmt); ok {
					continue
				}
				src := c.Src(st)
				switch {
				case strings.HasPrefix(src, "verifYield("):
					// the add-only hook (fixes/hook-notify-yield.patch); not part of the shape
				case strings.HasPrefix(src, "stream := &listenStream{id: requestID, allowed: allowed}"):
					seq = append(seq, "stream")
				case src == "s.listens[req.Session] = append(s.listens[req.Session], stream)":
					seq = append(seq, "record-stream")
				case src == "s.mu.Lock()":
					seq = append(seq, "lock")
				case src == "s.mu.Unlock()":
					seq = append(seq, "unlock")
				case src == "s.pendingNotifications[n] = nil":
					seq = append(seq, "clear-pending")
				case strings.HasPrefix(src, "for _, sess := range s.sessions"):
					seq = append(seq, "snapshot-legacy")
				case strings.HasPrefix(src, "switch n {"):
					seq = append(seq, "snapshot-subscribers")
				case strings.HasPrefix(src, "notifySessions(legacySessions, n,"):
					seq = append(seq, "send-legacy")
				case strings.HasPrefix(src, "s.notifySubscribedSessions(subscribers, n,"):
					seq = append(seq, "send-subscribers")
				default:
					seq = append(seq, "other:"+src)
				}
			}
			nsFacts["sequence"] = seq
			legacy := ""
			ast.Inspect(fd.Body, func(n ast.Node) bool {
				if is, ok := n.(*ast.IfStmt); ok && strings.Contains(c.Src(is.Body), "legacySessions = append") {
					legacy = c.Src(is.Cond)
				}
				return true
			})
			nsFacts["legacy_test"] = legacy
		} else {
			c.Errf("notify: notifySessions not found")
		}
		table("mcp/server.go notifySessions: the subscription table cloned for each kind",
			"subsTable", "Kind", kinds, subsTable)
		c.Fact("notify.notifySessions", nsFacts)

		// ---- ResourceUpdated: legacy test and lock shape
		if fd := c.Func("mcp", "Server", "ResourceUpdated"); fd != nil {
			f := map[string]any{}
			ast.Inspect(fd.Body, func(n ast.Node) bool {
				if is, ok := n.(*ast.IfStmt); ok && strings.Contains(c.Src(is.Body), "legacySessions = append") {
					f["legacy_test"] = c.Src(is.Cond)
					f["else_new"] = is.Else != nil && strings.Contains(c.Src(is.Else), "newSessions[sess] = reqID")
				}
				return true
			})
			seq := []string{}
			for _, st := range fd.Body.List {
				src := c.Src(st)
				switch {
				case strings.HasPrefix(src, "stream := &listenStream{id: requestID, allowed: allowed}"):
					seq = append(seq, "stream")
				case src == "s.listens[req.Session] = append(s.listens[req.Session], stream)":
					seq = append(seq, "record-stream")
				case src == "s.mu.Lock()":
					seq = append(seq, "lock")
				case src == "s.mu.Unlock()":
					seq = append(seq, "unlock")
				case src == "subscribedSessions := s.resourceSubscriptions[params.URI]":
					seq = append(seq, "lookup-uri")
				case strings.HasPrefix(src, "for sess, reqID := range subscribedSessions"):
					seq = append(seq, "split")
				case strings.HasPrefix(src, "notifySessions(legacySessions, notificationResourceUpdated,"):
					seq = append(seq, "send-legacy")
				case strings.HasPrefix(src, "s.notifySubscribedSessions(newSessions, notificationResourceUpdated,"):
					seq = append(seq, "send-subscribers")
				}
			}
			f["sequence"] = seq
			c.Fact("notify.ResourceUpdated", f)
		} else {
			c.Errf("notify: ResourceUpdated not found")
		}

		// ---- changeAndNotify: lock pair, and which timer call sits in which branch
		if fd := c.Func("mcp", "Server", "changeAndNotify"); fd != nil {
			f := map[string]any{}
			f["lock_pair"] = len(fd.Body.List) >= 2 && c.Src(fd.Body.List[0]) == "s.mu.Lock()" && c.Src(fd.Body.List[1]) == "defer s.mu.Unlock()"
			f["statements_after_lock"] = len(fd.Body.List) - 2
			if len(fd.Body.List) == 3 {
				if outer, ok := fd.Body.List[2].(*ast.IfStmt); ok {
					f["guard"] = c.Src(outer.Cond)
					branches := []string{}
					for _, st := range outer.Body.List {
						is, ok := st.(*ast.IfStmt)
						if !ok {
							branches = append(branches, "other:"+c.Src(st))
							continue
						}
						head := c.Src(is.Cond)
						if is.Init != nil {
							head = c.Src(is.Init) + "; " + head
						}
						branches = append(branches, head+" => "+strings.Join(timerCalls(c, is.Body), ","))
						if is.Else != nil {
							branches = append(branches, "else => "+strings.Join(timerCalls(c, is.Else), ","))
						}
					}
					f["branches"] = branches
				}
			}
			c.Fact("notify.changeAndNotify", f)
		} else {
			c.Errf("notify: changeAndNotify not found")
		}

		// ---- disconnect: every table keyed by *ServerSession is cleaned
		{
			tables := []string{}
			for _, f := range c.load("mcp") {
				for _, d := range f.Decls {
					gd, ok := d.(*ast.GenDecl)
					if !ok {
						continue
					}
					for _, sp := range gd.Specs {
						ts, ok := sp.(*ast.TypeSpec)
						if !ok || ts.Name.Name != "Server" {
							continue
						}
						st, ok := ts.Type.(*ast.StructType)
						if !ok {
							continue
						}
						for _, fld := range st.Fields.List {
							if strings.Contains(c.Src(fld.Type), "map[*ServerSession]") {
								for _, n := range fld.Names {
									tables = append(tables, n.Name)
								}
							}
						}
					}
				}
			}
			sort.Strings(tables)
			cleaned := []string{}
			sessionsRemoved := false
			lockPair := false
			if fd := c.Func("mcp", "Server", "disconnect"); fd != nil {
				lockPair = len(fd.Body.List) >= 2 && c.Src(fd.Body.List[0]) == "s.mu.Lock()" && c.Src(fd.Body.List[1]) == "defer s.mu.Unlock()"
				for _, st := range fd.Body.List {
					src := c.Src(st)
					if strings.HasPrefix(src, "s.sessions = slices.DeleteFunc(s.sessions,") {
						sessionsRemoved = true
					}
					for _, tn := range tables {
						if src == "delete(s."+tn+", cc)" {
							cleaned = append(cleaned, tn)
						}
						if rs, ok := st.(*ast.RangeStmt); ok && c.Src(rs.X) == "s."+tn && rs.Value != nil &&
							strings.Contains(c.Src(rs.Body), "delete("+c.Src(rs.Value)+", cc)") {
							cleaned = append(cleaned, tn)
						}
					}
				}
			} else {
				c.Errf("notify: disconnect not found")
			}
			sort.Strings(cleaned)
			c.Fact("notify.disconnect", map[string]any{"session_tables": tables, "cleaned": cleaned, "sessions_removed": sessionsRemoved, "lock_pair": lockPair})
		}

		// ---- client side: handler per notification, caches invalidated, caches used by the list calls
		handlerOf := map[string]string{} // notification constant -> (*Client).callXHandler
		if e := c.ValueExpr("mcp", "clientMethodInfos"); e != nil {
			if cl, ok := e.(*ast.CompositeLit); ok {
				for _, el := range cl.Elts {
					kv, ok := el.(*ast.KeyValueExpr)
					if !ok {
						continue
					}
					key := c.Src(kv.Key)
					src := c.Src(kv.Value)
					if i := strings.Index(src, "(*Client)."); i >= 0 {
						rest := src[i+len("(*Client)."):]
						if j := strings.IndexAny(rest, ")"); j >= 0 {
							handlerOf[key] = rest[:j]
						}
					}
				}
			}
		} else {
			c.Errf("notify: clientMethodInfos not found")
		}
		cacheObj := map[string]string{"toolsCache": "tools", "promptsCache": "prompts", "resourcesCache": "resources",
			"resourceTemplatesCache": "templates", "readResourceCache": "read"}
		cacheNames := []string{"toolsCache", "promptsCache", "resourcesCache", "resourceTemplatesCache", "readResourceCache"}
		b.WriteString("/-- mcp/client.go call*ChangedHandler (found through clientMethodInfos): the caches a handled list-changed notification invalidates -/\ndef clientInvalidates : Kind → List CacheObj\n")
		for _, k := range kinds {
			objs := []string{}
			if fd := c.Func("mcp", "Client", handlerOf[kindConst[k]]); fd != nil {
				src := c.Src(fd.Body)
				for _, cn := range cacheNames {
					if strings.Contains(src, "cs."+cn+".invalidate()") {
						objs = append(objs, "."+cacheObj[cn])
					}
				}
			}
			fmt.Fprintf(&b, "  | .%s => [%s]\n", k, strings.Join(objs, ", "))
		}
		updKey := false
		if fd := c.Func("mcp", "Client", handlerOf["notificationResourceUpdated"]); fd != nil {
			updKey = strings.Contains(c.Src(fd.Body), "cs.readResourceCache.invalidateKey(req.Params.URI)")
		}
		fmt.Fprintf(&b, "/-- mcp/client.go callResourceUpdatedHandler invalidates the read cache entry of the notified URI -/\ndef updatedInvalidatesKey : Bool := %v\n", updKey)
		// under which condition each notification handler invalidates: the first statement of the handler
		// is `if cs, ok := req.GetSession().(*ClientSession); <cond> { <invalidations> }`; nothing but the
		// type of the session (and, for resources/updated, the presence of params) may gate it — in
		// particular not cs.resourceSubs (`handle_ignores_subscriptions`)
		guards := map[string]any{}
		for _, key := range []string{"notificationToolListChanged", "notificationPromptListChanged", "notificationResourceListChanged", "notificationResourceUpdated"} {
			g := map[string]any{"found": false}
			if fd := c.Func("mcp", "Client", handlerOf[key]); fd != nil && len(fd.Body.List) > 0 {
				if is, ok := fd.Body.List[0].(*ast.IfStmt); ok {
					body := []string{}
					for _, st := range is.Body.List {
						body = append(body, c.Src(st))
					}
					init := ""
					if is.Init != nil {
						init = c.Src(is.Init)
					}
					g = map[string]any{"found": true, "init": init, "cond": c.Src(is.Cond), "body": body, "else": is.Else != nil}
				}
			}
			guards[key] = g
		}
		defer func() { c.Fact("notify.client_invalidation_guards", guards) }()
		b.WriteString("end Generated.Notify\n")
		c.Lean["NotifyGen"] = b.String()

		listCaches := map[string]any{}
		for _, mn := range []string{"ListTools", "ListPrompts", "ListResources", "ListResourceTemplates", "ReadResource"} {
			fd := c.Func("mcp", "ClientSession", mn)
			if fd == nil {
				c.Errf("notify: ClientSession.%s not found", mn)
				continue
			}
			gets, puts := []string{}, []string{}
			guarded := true
			ast.Inspect(fd.Body, func(n ast.Node) bool {
				is, ok := n.(*ast.IfStmt)
				if ok && c.Src(is.Cond) == "cs.usesNewProtocol()" {
					src := c.Src(is.Body)
					for _, cn := range cacheNames {
						if strings.Contains(src, "cachedListResult(&cs."+cn+",") || strings.Contains(src, "cs."+cn+".get(") {
							gets = append(gets, cn)
						}
						if strings.Contains(src, "cs."+cn+".put") {
							puts = append(puts, cn)
						}
					}
				}
				return true
			})
			// any cache access outside a usesNewProtocol guard?
			whole := c.Src(fd.Body)
			for _, cn := range cacheNames {
				if strings.Count(whole, "cs."+cn) != countIn(gets, cn)+countIn(puts, cn)+strings.Count(whole, "cs."+cn+".gen()") {
					guarded = false
				}
			}
			listCaches[mn] = map[string]any{"get": gets, "put": puts, "only_under_new_protocol": guarded}
		}
		c.Fact("notify.client_list_caches", listCaches)
	})
}

func countIn(l []string, s string) int {
	n := 0
	for _, x := range l {
		if x == s {
			n++
		}
	}
	return n
}

func forCases(body *ast.BlockStmt, f func(*ast.CaseClause)) {
	ast.Inspect(body, func(n ast.Node) bool {
		if cc, ok := n.(*ast.CaseClause); ok {
			f(cc)
		}
		return true
	})
}

// timerCalls lists, in source order, the timer operations in a block: Stop, Reset, AfterFunc, and
// assignments to s.pendingNotifications[...].
func timerCalls(c *Ctx, n ast.Node) []string {
	out := []string{}
	ast.Inspect(n, func(x ast.Node) bool {
		switch v := x.(type) {
		case *ast.FuncLit:
			return false
		case *ast.CallExpr:
			src := c.Src(v.Fun)
			switch {
			case src == "time.AfterFunc":
				out = append(out, c.Src(v))
			case strings.HasSuffix(src, ".Stop"):
				out = append(out, "Stop")
			case strings.HasSuffix(src, ".Reset"):
				arg := ""
				if len(v.Args) == 1 {
					arg = c.Src(v.Args[0])
				}
				out = append(out, "Reset("+arg+")")
			}
		case *ast.AssignStmt:
			if len(v.Lhs) == 1 && strings.HasPrefix(c.Src(v.Lhs[0]), "s.pendingNotifications[") {
				rhs := c.Src(v.Rhs[0])
				if strings.HasPrefix(rhs, "time.AfterFunc(") {
					rhs = "timer"
				}
				out = append(out, "pending="+rhs)
			}
		}
		return true
	})
	return out
}
