package main

import (
	"fmt"
	"go/ast"
	"go/constant"
	"go/token"
	"reflect"
	"sort"
	"strconv"
	"strings"
)

// E2 Wire: struct tags of the wire structs (field -> json name, omitempty/omitzero), JSON-RPC error
// codes, the wire version tag, SSE field-name constants and write prefixes, the content-kind switch
// and the per-context allow lists of content kinds. See DESIGN.md Appendix B.

type wireField struct {
	Go, Type, JSON string
	Omit           string // "", "omitempty", "omitzero"
}

func wireLeanBytes(s string) string {
	b := []byte(s)
	parts := make([]string, len(b))
	for i, x := range b {
		parts[i] = strconv.Itoa(int(x))
	}
	return "[" + strings.Join(parts, ", ") + "]"
}

func leanBytesList(ss []string) string {
	parts := make([]string, len(ss))
	for i, s := range ss {
		parts[i] = wireLeanBytes(s)
	}
	return "[" + strings.Join(parts, ", ") + "]"
}

func (c *Ctx) structFields(st *ast.StructType) []wireField {
	var out []wireField
	for _, f := range st.Fields.List {
		tag := ""
		if f.Tag != nil {
			if s, err := strconv.Unquote(f.Tag.Value); err == nil {
				tag = reflect.StructTag(s).Get("json")
			}
		}
		name, omit := tag, ""
		if i := strings.IndexByte(tag, ','); i >= 0 {
			name = tag[:i]
			for _, o := range strings.Split(tag[i+1:], ",") {
				if o == "omitempty" || o == "omitzero" {
					omit = o
				}
			}
		}
		typ := c.Src(f.Type)
		if len(f.Names) == 0 {
			out = append(out, wireField{Go: "(embedded)", Type: typ, JSON: name, Omit: omit})
			continue
		}
		for _, n := range f.Names {
			jn := name
			if jn == "" {
				jn = n.Name
			}
			out = append(out, wireField{Go: n.Name, Type: typ, JSON: jn, Omit: omit})
		}
	}
	return out
}

// namedStruct finds `type name struct{...}` at package level.
func (c *Ctx) namedStruct(dir, name string) *ast.StructType {
	for _, f := range c.load(dir) {
		for _, d := range f.Decls {
			gd, ok := d.(*ast.GenDecl)
			if !ok || gd.Tok != token.TYPE {
				continue
			}
			for _, s := range gd.Specs {
				ts := s.(*ast.TypeSpec)
				if ts.Name.Name == name {
					if st, ok := ts.Type.(*ast.StructType); ok {
						return st
					}
				}
			}
		}
	}
	return nil
}

// localStruct finds the first struct type written inside a method body (anonymous `struct{...}{...}`
// literal or a local `type x struct`) that has a field with json name "type".
func (c *Ctx) localStruct(dir, recv, method string) *ast.StructType {
	fd := c.Func(dir, recv, method)
	if fd == nil || fd.Body == nil {
		return nil
	}
	var found *ast.StructType
	ast.Inspect(fd.Body, func(n ast.Node) bool {
		if found != nil {
			return false
		}
		if st, ok := n.(*ast.StructType); ok {
			for _, f := range c.structFields(st) {
				if f.JSON == "type" {
					found = st
					return false
				}
			}
		}
		return true
	})
	return found
}

func factFields(fs []wireField) [][]string {
	out := [][]string{}
	for _, f := range fs {
		out = append(out, []string{f.Go, f.Type, f.JSON, f.Omit})
	}
	return out
}

// boolMapKeys returns the sorted keys mapped to true in a map[string]bool composite literal.
func (c *Ctx) boolMapKeys(e ast.Expr) ([]string, bool) {
	cl, ok := e.(*ast.CompositeLit)
	if !ok {
		return nil, false
	}
	mt, ok := cl.Type.(*ast.MapType)
	if !ok || c.Src(mt) != "map[string]bool" {
		return nil, false
	}
	var keys []string
	for _, el := range cl.Elts {
		kv, ok := el.(*ast.KeyValueExpr)
		if !ok {
			return nil, false
		}
		k, ok1 := kv.Key.(*ast.BasicLit)
		v, ok2 := kv.Value.(*ast.Ident)
		if !ok1 || !ok2 || k.Kind != token.STRING {
			return nil, false
		}
		s, _ := strconv.Unquote(k.Value)
		if v.Name == "true" {
			keys = append(keys, s)
		}
	}
	sort.Strings(keys)
	return keys, true
}

// allowArg finds, in the body of recv.method, the call to fn and returns its last argument's allow list:
// a map literal, a package-level map variable, or nil.
func (c *Ctx) allowArg(dir, recv, method, fn string) (keys []string, isNil bool, ok bool) {
	fd := c.Func(dir, recv, method)
	if fd == nil || fd.Body == nil {
		return nil, false, false
	}
	ast.Inspect(fd.Body, func(n ast.Node) bool {
		ce, isCall := n.(*ast.CallExpr)
		if !isCall || ok {
			return !ok
		}
		id, isId := ce.Fun.(*ast.Ident)
		if !isId || id.Name != fn || len(ce.Args) == 0 {
			return true
		}
		last := ce.Args[len(ce.Args)-1]
		switch a := last.(type) {
		case *ast.Ident:
			if a.Name == "nil" {
				isNil, ok = true, true
				return false
			}
			// local variable assigned from a literal in the same body, or a package variable
			var lit ast.Expr
			ast.Inspect(fd.Body, func(m ast.Node) bool {
				if as, isAs := m.(*ast.AssignStmt); isAs && len(as.Lhs) == 1 && len(as.Rhs) == 1 {
					if l, isL := as.Lhs[0].(*ast.Ident); isL && l.Name == a.Name {
						lit = as.Rhs[0]
					}
				}
				return true
			})
			if lit == nil {
				lit = c.ValueExpr(dir, a.Name)
			}
			if lit != nil {
				keys, ok = c.boolMapKeys(lit)
			}
		case *ast.CompositeLit:
			keys, ok = c.boolMapKeys(a)
		}
		return !ok
	})
	return
}

func init() {
	reg(func(c *Ctx) {
		var b strings.Builder
		b.WriteString("/-! Struct tags, error codes and framing constants of the wire layer (E2, C19/C02). -/\n")
		b.WriteString("namespace Generated.Wire\n\n")
		facts := map[string]any{}

		emitStruct := func(label string, st *ast.StructType, where string) {
			if st == nil {
				c.Errf("wire: struct %s not found (%s)", label, where)
				return
			}
			fs := c.structFields(st)
			facts[label] = factFields(fs)
			fmt.Fprintf(&b, "/-! `%s` (%s): json member name and whether `omitempty`/`omitzero` is set. -/\n", label, where)
			for _, f := range fs {
				if f.Go == "(embedded)" || f.JSON == "-" {
					continue
				}
				if f.JSON == f.Go && f.Go[0] >= 'a' && f.Go[0] <= 'z' {
					continue // unexported, untagged: never on the wire
				}
				fmt.Fprintf(&b, "@[simp] def %s_%s_name : List UInt8 := %s -- %q\n", label, f.Go, wireLeanBytes(f.JSON), f.JSON)
				fmt.Fprintf(&b, "@[simp] def %s_%s_omit : Bool := %v\n", label, f.Go, f.Omit != "")
			}
			b.WriteString("\n")
		}

		j := "internal/jsonrpc2"
		emitStruct("wireCombined", c.namedStruct(j, "wireCombined"), "internal/jsonrpc2/wire.go")
		emitStruct("wireDecode", c.namedStruct(j, "wireDecode"), "internal/jsonrpc2/messages.go")
		emitStruct("WireError", c.namedStruct(j, "WireError"), "internal/jsonrpc2/wire.go")
		emitStruct("wireContent", c.namedStruct("mcp", "wireContent"), "mcp/content.go")
		emitStruct("imageAudioWire", c.namedStruct("mcp", "imageAudioWire"), "mcp/content.go")
		emitStruct("ResourceContents", c.namedStruct("mcp", "ResourceContents"), "mcp/content.go")
		emitStruct("Icon", c.namedStruct("mcp", "Icon"), "mcp/protocol.go")
		emitStruct("textWire", c.localStruct("mcp", "TextContent", "MarshalJSON"), "mcp/content.go TextContent.MarshalJSON")
		emitStruct("toolUseWire", c.localStruct("mcp", "ToolUseContent", "MarshalJSON"), "mcp/content.go ToolUseContent.MarshalJSON")
		emitStruct("toolResultWire", c.localStruct("mcp", "ToolResultContent", "MarshalJSON"), "mcp/content.go ToolResultContent.MarshalJSON")
		emitStruct("CallToolResult", c.namedStruct("mcp", "CallToolResult"), "mcp/protocol.go")
		c.Fact("wire.structs", facts)

		// Server.callTool: the guard under which a nil Content slice is replaced before the result is sent
		guard := ""
		if fd := c.Func("mcp", "Server", "callTool"); fd != nil && fd.Body != nil {
			ast.Inspect(fd.Body, func(n ast.Node) bool {
				is, ok := n.(*ast.IfStmt)
				if !ok || guard != "" {
					return guard == ""
				}
				for _, st := range is.Body.List {
					if _, isAssign := st.(*ast.AssignStmt); isAssign && strings.Contains(c.Src(st), "Content = []Content{}") {
						guard = c.Src(is.Cond)
						return false
					}
				}
				return true
			})
		}
		// informational (not in facts/wire.expected.json: the engine also serves C02, which this guard
		// does not concern; the r.call records of the mcp stream are what ties it)
		c.Fact("wire.calltool_nil_content_guard", guard)

		// the wire version tag
		if v, ok := c.ConstString(j, "wireVersion"); ok {
			fmt.Fprintf(&b, "/-- internal/jsonrpc2/wire.go `wireVersion` -/\ndef wireVersion : List UInt8 := %s -- %q\n\n", wireLeanBytes(v), v)
			c.Fact("wire.version", v)
		} else {
			c.Errf("wire: wireVersion not a string constant")
		}

		// error codes: package-level `ErrX = NewError(code, "msg")`
		codes := map[string]int64{}
		for _, f := range c.load(j) {
			for _, d := range f.Decls {
				gd, ok := d.(*ast.GenDecl)
				if !ok || gd.Tok != token.VAR {
					continue
				}
				for _, s := range gd.Specs {
					vs := s.(*ast.ValueSpec)
					for i, n := range vs.Names {
						if i >= len(vs.Values) {
							continue
						}
						ce, ok := vs.Values[i].(*ast.CallExpr)
						if !ok || c.Src(ce.Fun) != "NewError" || len(ce.Args) != 2 {
							continue
						}
						if v, ok := c.Const(j, ce.Args[0]); ok {
							if x, ok := constant.Int64Val(constant.ToInt(v)); ok {
								codes[n.Name] = x
							}
						}
					}
				}
			}
		}
		names := make([]string, 0, len(codes))
		for n := range codes {
			names = append(names, n)
		}
		sort.Strings(names)
		b.WriteString("/-! internal/jsonrpc2/wire.go error codes -/\n")
		for _, n := range names {
			fmt.Fprintf(&b, "def code%s : Int := %d\n", strings.TrimPrefix(n, "Err"), codes[n])
		}
		b.WriteString("\n")
		c.Fact("wire.codes", codes)
		for _, need := range []string{"ErrParse", "ErrInvalidRequest"} {
			if _, ok := codes[need]; !ok {
				c.Errf("wire: %s not found", need)
			}
		}

		// SSE: the scanner's field keys (`eventKey = []byte("event")` ...) and the writer's prefixes.
		sse := map[string]string{}
		// the keys are local variables of the scanner (scanEvents, or the function it delegates to)
		for _, fn := range []string{"scanEvents", "scanEventsT"} {
			fd := c.Func("mcp", "", fn)
			if fd == nil || fd.Body == nil {
				continue
			}
			ast.Inspect(fd.Body, func(n ast.Node) bool {
				vs, ok := n.(*ast.ValueSpec)
				if !ok {
					return true
				}
				for i, nm := range vs.Names {
					if i >= len(vs.Values) || !strings.HasSuffix(nm.Name, "Key") {
						continue
					}
					if ce, ok := vs.Values[i].(*ast.CallExpr); ok && c.Src(ce.Fun) == "[]byte" && len(ce.Args) == 1 {
						if bl, ok := ce.Args[0].(*ast.BasicLit); ok && bl.Kind == token.STRING {
							s, _ := strconv.Unquote(bl.Value)
							sse[nm.Name] = s
						}
					}
				}
				return true
			})
		}
		// writer: Fprintf(&b, "<prefix>%s\n", evt.X) and b.WriteString("data: ") / b.WriteString("\n\n")
		wr := map[string]string{}
		var writeStrings []string
		if fd := c.Func("mcp", "", "writeEvent"); fd != nil {
			ast.Inspect(fd.Body, func(n ast.Node) bool {
				ce, ok := n.(*ast.CallExpr)
				if !ok {
					return true
				}
				fn := c.Src(ce.Fun)
				if fn == "fmt.Fprintf" && len(ce.Args) == 3 {
					if bl, ok := ce.Args[1].(*ast.BasicLit); ok {
						s, _ := strconv.Unquote(bl.Value)
						wr[c.Src(ce.Args[2])] = s
					}
				}
				if fn == "b.WriteString" && len(ce.Args) == 1 {
					if bl, ok := ce.Args[0].(*ast.BasicLit); ok {
						s, _ := strconv.Unquote(bl.Value)
						writeStrings = append(writeStrings, s)
					}
				}
				return true
			})
		}
		c.Fact("wire.sse_keys", sse)
		c.Fact("wire.sse_write_formats", wr)
		c.Fact("wire.sse_write_strings", writeStrings)
		b.WriteString("/-! mcp/event.go: field keys matched by `scanEvents`, prefixes written by `writeEvent` -/\n")
		for _, k := range []string{"eventKey", "idKey", "dataKey", "retryKey"} {
			v, ok := sse[k]
			if !ok {
				c.Errf("wire: scanEvents key %s not found", k)
			}
			fmt.Fprintf(&b, "def sse_%s : List UInt8 := %s -- %q\n", k, wireLeanBytes(v), v)
		}
		for _, p := range [][2]string{{"evt.Name", "Name"}, {"evt.ID", "ID"}, {"evt.Retry", "Retry"}} {
			f, ok := wr[p[0]]
			if !ok || !strings.HasSuffix(f, "%s\n") {
				c.Errf("wire: writeEvent format for %s not of the form \"<prefix>%%s\\n\": %q", p[0], f)
				f = "%s\n"
			}
			pre := strings.TrimSuffix(f, "%s\n")
			fmt.Fprintf(&b, "def sse_write%s : List UInt8 := %s -- %q\n", p[1], wireLeanBytes(pre), pre)
		}
		if len(writeStrings) == 2 && writeStrings[1] == "\n\n" {
			fmt.Fprintf(&b, "def sse_writeData : List UInt8 := %s -- %q\n", wireLeanBytes(writeStrings[0]), writeStrings[0])
		} else {
			c.Errf("wire: writeEvent WriteString calls are not [\"data: \", \"\\n\\n\"]: %q", writeStrings)
			b.WriteString("def sse_writeData : List UInt8 := []\n")
		}
		b.WriteString("\n")

		// content kinds: the `switch wire.Type` of contentFromWire, and allow lists per context
		var kinds []string
		if fd := c.Func("mcp", "", "contentFromWire"); fd != nil {
			ast.Inspect(fd.Body, func(n ast.Node) bool {
				sw, ok := n.(*ast.SwitchStmt)
				if !ok || sw.Tag == nil || c.Src(sw.Tag) != "wire.Type" {
					return true
				}
				for _, st := range sw.Body.List {
					cc := st.(*ast.CaseClause)
					for _, e := range cc.List {
						if bl, ok := e.(*ast.BasicLit); ok {
							s, _ := strconv.Unquote(bl.Value)
							kinds = append(kinds, s)
						}
					}
				}
				return false
			})
		}
		c.Fact("wire.content_kinds", kinds)
		fmt.Fprintf(&b, "/-- mcp/content.go `contentFromWire`: the cases of `switch wire.Type`, in order -/\ndef contentKinds : List (List UInt8) := %s -- %q\n", leanBytesList(kinds), kinds)
		allow := map[string]any{}
		ctxs := []struct{ label, recv, method, fn string }{
			{"allowNested", "", "contentFromWire", "contentsFromWire"},
			{"allowCallToolResult", "CallToolResult", "UnmarshalJSON", "contentsFromWire"},
			{"allowPromptMessage", "PromptMessage", "UnmarshalJSON", "contentFromWire"},
			{"allowSamplingMessage", "SamplingMessage", "UnmarshalJSON", "contentFromWire"},
			{"allowSamplingMessageV2", "SamplingMessageV2", "UnmarshalJSON", "unmarshalContent"},
			{"allowCreateMessageResult", "CreateMessageResult", "UnmarshalJSON", "contentFromWire"},
			{"allowCreateMessageWithToolsResult", "CreateMessageWithToolsResult", "UnmarshalJSON", "unmarshalContent"},
		}
		b.WriteString("/-! allow lists of content kinds per decoding context (`none` = every kind) -/\n")
		for _, x := range ctxs {
			keys, isNil, ok := c.allowArg("mcp", x.recv, x.method, x.fn)
			switch {
			case !ok:
				c.Errf("wire: allow list of %s.%s not found", x.recv, x.method)
				fmt.Fprintf(&b, "def %s : Option (List (List UInt8)) := none\n", x.label)
			case isNil:
				allow[x.label] = nil
				fmt.Fprintf(&b, "def %s : Option (List (List UInt8)) := none\n", x.label)
			default:
				allow[x.label] = keys
				fmt.Fprintf(&b, "def %s : Option (List (List UInt8)) := some %s -- %q\n", x.label, leanBytesList(keys), keys)
			}
		}
		c.Fact("wire.allow", allow)

		// structural facts about ioConn.Read's batch tracking and DecodeMessage's id path
		if fd := c.Func("mcp", "ioConn", "Read"); fd != nil {
			cond := ""
			ast.Inspect(fd.Body, func(n ast.Node) bool {
				rs, ok := n.(*ast.RangeStmt)
				if !ok || c.Src(rs.X) != "msgs" {
					return true
				}
				for _, st := range rs.Body.List {
					if is, ok := st.(*ast.IfStmt); ok && cond == "" {
						cond = c.Src(is.Cond)
						if is.Init != nil {
							cond = c.Src(is.Init) + "; " + cond
						}
					}
				}
				return false
			})
			c.Fact("wire.batch_track_condition", cond)
		} else {
			c.Errf("wire: ioConn.Read not found")
		}
		if fd := c.Func(j, "", "DecodeMessage"); fd != nil {
			idCall := ""
			ast.Inspect(fd.Body, func(n ast.Node) bool {
				as, ok := n.(*ast.AssignStmt)
				if ok && len(as.Lhs) == 2 && c.Src(as.Lhs[0]) == "id" && len(as.Rhs) == 1 {
					idCall = c.Src(as.Rhs[0])
				}
				return true
			})
			c.Fact("wire.decode_id_call", idCall)
		}

		// ioConn.Read: how the unread rest of a batch is stored and popped (order of delivery, C03), and
		// readBatch: the guard that keeps an empty array / null from being accepted (Read takes msgs[0])
		if fd := c.Func("mcp", "ioConn", "Read"); fd != nil {
			var pops []string
			ast.Inspect(fd.Body, func(n ast.Node) bool {
				as, ok := n.(*ast.AssignStmt)
				if !ok {
					return true
				}
				src := c.Src(as)
				if strings.Contains(src, "t.queue") {
					pops = append(pops, src)
				}
				return true
			})
			c.Fact("wire.read_queue_statements", pops)
		}
		if fd := c.Func("mcp", "", "readBatch"); fd != nil {
			guard := ""
			ast.Inspect(fd.Body, func(n ast.Node) bool {
				is, ok := n.(*ast.IfStmt)
				if ok && guard == "" && strings.Contains(c.Src(is.Cond), "len(rawBatch)") {
					guard = c.Src(is.Cond)
					for _, st := range is.Body.List {
						if rs, ok := st.(*ast.ReturnStmt); ok && len(rs.Results) == 3 {
							guard += " => return " + c.Src(rs.Results[0]) + ", " + c.Src(rs.Results[1]) + ", <error>"
						}
					}
				}
				return true
			})
			c.Fact("wire.readbatch_empty_guard", guard)
		} else {
			c.Errf("wire: readBatch not found")
		}

		// InputRequestMap.UnmarshalJSON: the entry struct, the methods of its switch, the decoder it uses
		b.WriteString("\n")
		if fd := c.Func("mcp", "InputRequestMap", "UnmarshalJSON"); fd != nil && fd.Body != nil {
			var st *ast.StructType
			var methods []string
			calls := map[string]bool{}
			ast.Inspect(fd.Body, func(n ast.Node) bool {
				switch x := n.(type) {
				case *ast.StructType:
					if st == nil {
						st = x
					}
				case *ast.SwitchStmt:
					if x.Tag != nil && strings.HasSuffix(c.Src(x.Tag), ".Method") {
						for _, cl := range x.Body.List {
							for _, e := range cl.(*ast.CaseClause).List {
								if id, ok := e.(*ast.Ident); ok {
									if s, ok := c.ConstString("mcp", id.Name); ok {
										methods = append(methods, s)
										continue
									}
								}
								c.Errf("wire: InputRequestMap.UnmarshalJSON: case %s is not a string constant", c.Src(e))
							}
						}
					}
				case *ast.CallExpr:
					if fn := c.Src(x.Fun); strings.HasSuffix(fn, "Unmarshal") {
						calls[fn] = true
					}
				}
				return true
			})
			emitStruct("irmRaw", st, "mcp/protocol.go InputRequestMap.UnmarshalJSON")
			fmt.Fprintf(&b, "/-- mcp/protocol.go `InputRequestMap.UnmarshalJSON`: the cases of `switch raw.Method` -/\ndef inputRequestMethods : List (List UInt8) := %s -- %q\n", leanBytesList(methods), methods)
			var cs []string
			for k := range calls {
				cs = append(cs, k)
			}
			sort.Strings(cs)
			c.Fact("wire.input_request_methods", methods)
			// informational until fix F32 is in /repo (then: ["internaljson.Unmarshal"])
			c.Fact("wire.input_request_decoders", cs)
		} else {
			c.Errf("wire: InputRequestMap.UnmarshalJSON not found")
		}

		// CompleteReference: the struct, the reference types its two codec methods switch over (string
		// literals), the decoder UnmarshalJSON uses
		b.WriteString("\n")
		emitStruct("CompleteReference", c.namedStruct("mcp", "CompleteReference"), "mcp/protocol.go")
		for _, meth := range []string{"UnmarshalJSON", "MarshalJSON"} {
			fd := c.Func("mcp", "CompleteReference", meth)
			if fd == nil || fd.Body == nil {
				c.Errf("wire: CompleteReference.%s not found", meth)
				continue
			}
			var cases [][]string
			calls := map[string]bool{}
			ast.Inspect(fd.Body, func(n ast.Node) bool {
				switch x := n.(type) {
				case *ast.SwitchStmt:
					if x.Tag != nil && strings.HasSuffix(c.Src(x.Tag), ".Type") {
						for _, cl := range x.Body.List {
							var one []string
							for _, e := range cl.(*ast.CaseClause).List {
								if lit, ok := e.(*ast.BasicLit); ok {
									if s, err := strconv.Unquote(lit.Value); err == nil {
										one = append(one, s)
										continue
									}
								}
								c.Errf("wire: CompleteReference.%s: case %s is not a string literal", meth, c.Src(e))
							}
							if cl.(*ast.CaseClause).List == nil {
								one = []string{"<default>"}
							}
							cases = append(cases, one)
						}
					}
				case *ast.CallExpr:
					if fn := c.Src(x.Fun); strings.HasSuffix(fn, "Unmarshal") || strings.HasSuffix(fn, "Marshal") {
						calls[fn] = true
					}
				}
				return true
			})
			var cs []string
			for k := range calls {
				cs = append(cs, k)
			}
			sort.Strings(cs)
			c.Fact("wire.complete_reference_"+strings.ToLower(meth)+"_cases", cases)
			c.Fact("wire.complete_reference_"+strings.ToLower(meth)+"_calls", cs)
		}
		fmt.Fprintf(&b, "/-- mcp/protocol.go `CompleteReference`: the two reference types of the codec's switches (fact wire.complete_reference_*_cases) -/\n")
		fmt.Fprintf(&b, "def refPromptType : List UInt8 := %s -- %q\n", wireLeanBytes("ref/prompt"), "ref/prompt")
		fmt.Fprintf(&b, "def refResourceType : List UInt8 := %s -- %q\n", wireLeanBytes("ref/resource"), "ref/resource")

		// multi round trip: the members a retried request carries (CallToolParams & co.), the probe of
		// unmarshalInputResponse (member names and the ORDER of its cases), the params types
		// setMultiRoundTripRetryParams knows and what it assigns
		b.WriteString("\n")
		{
			var retryFacts [][]string
			for _, tn := range []string{"CallToolParams", "CallToolParamsRaw", "GetPromptParams", "ReadResourceParams"} {
				st := c.namedStruct("mcp", tn)
				if st == nil {
					c.Errf("wire: struct %s not found", tn)
					continue
				}
				for _, f := range c.structFields(st) {
					if f.Go == "InputResponses" || f.Go == "RequestState" {
						retryFacts = append(retryFacts, []string{tn, f.Go, f.JSON, f.Omit})
					}
				}
			}
			c.Fact("wire.retry_members", retryFacts)
			fmt.Fprintf(&b, "/-- mcp/protocol.go: the two members a retried request carries (fact wire.retry_members: the same tag in all four params types) -/\n")
			fmt.Fprintf(&b, "def retry_InputResponses_name : List UInt8 := %s -- %q\n", wireLeanBytes("inputResponses"), "inputResponses")
			fmt.Fprintf(&b, "def retry_RequestState_name : List UInt8 := %s -- %q\n", wireLeanBytes("requestState"), "requestState")
			if fd := c.Func("mcp", "", "unmarshalInputResponse"); fd != nil && fd.Body != nil {
				var probe *ast.StructType
				var order []string
				ast.Inspect(fd.Body, func(n ast.Node) bool {
					switch x := n.(type) {
					case *ast.StructType:
						if probe == nil {
							probe = x
						}
					case *ast.CaseClause:
						for _, e := range x.List {
							order = append(order, c.Src(e))
						}
					}
					return true
				})
				if probe != nil {
					facts["irProbe"] = factFields(c.structFields(probe))
				}
				c.Fact("wire.input_response_probe_order", order)
			} else {
				c.Errf("wire: unmarshalInputResponse not found")
			}
			fmt.Fprintf(&b, "/-- mcp/protocol.go `unmarshalInputResponse`: the discriminating members, in the order of the switch (fact wire.input_response_probe_order) -/\n")
			fmt.Fprintf(&b, "def probe_Roots_name : List UInt8 := %s -- %q\n", wireLeanBytes("roots"), "roots")
			fmt.Fprintf(&b, "def probe_Action_name : List UInt8 := %s -- %q\n", wireLeanBytes("action"), "action")
			fmt.Fprintf(&b, "def probe_Role_name : List UInt8 := %s -- %q\n", wireLeanBytes("role"), "role")
			if fd := c.Func("mcp", "", "setMultiRoundTripRetryParams"); fd != nil && fd.Body != nil {
				var seq []string
				ast.Inspect(fd.Body, func(n ast.Node) bool {
					switch x := n.(type) {
					case *ast.CaseClause:
						for _, e := range x.List {
							seq = append(seq, "case "+c.Src(e))
						}
					case *ast.AssignStmt:
						seq = append(seq, c.Src(x))
					}
					return true
				})
				c.Fact("wire.retry_assignments", seq)
			} else {
				c.Errf("wire: setMultiRoundTripRetryParams not found")
			}
		}
		// ToolAnnotations: the struct, and the struct of the MCPGODEBUG=hintomitempty=1 branch of MarshalJSON
		emitStruct("ToolAnnotations", c.namedStruct("mcp", "ToolAnnotations"), "mcp/protocol.go")
		if fd := c.Func("mcp", "ToolAnnotations", "MarshalJSON"); fd != nil && fd.Body != nil {
			var compat *ast.StructType
			cond := ""
			ast.Inspect(fd.Body, func(n ast.Node) bool {
				switch x := n.(type) {
				case *ast.StructType:
					if compat == nil {
						compat = x
					}
				case *ast.IfStmt:
					if cond == "" {
						cond = c.Src(x.Cond)
					}
				}
				return true
			})
			emitStruct("ToolAnnotationsCompat", compat, "mcp/protocol.go ToolAnnotations.MarshalJSON, hintomitempty=1")
			c.Fact("wire.tool_annotations_compat_cond", cond)
		} else {
			c.Errf("wire: ToolAnnotations.MarshalJSON not found")
		}
		// clone: what the two capabilities clones copy (every pointer / map member must be listed: no aliasing)
		for _, tn := range []string{"ClientCapabilities", "ServerCapabilities"} {
			if fd := c.Func("mcp", tn, "clone"); fd != nil && fd.Body != nil {
				var seq []string
				ast.Inspect(fd.Body, func(n ast.Node) bool {
					if x, ok := n.(*ast.AssignStmt); ok {
						seq = append(seq, c.Src(x))
					}
					return true
				})
				c.Fact("wire.clone_"+strings.ToLower(tn), seq)
			} else {
				c.Errf("wire: %s.clone not found", tn)
			}
		}

		// scanEventsT: what is done to a line before it is looked at (the model's `trimRightCRLF`: a line
		// ended by CRLF must come out like one ended by LF — sse_eol_irrelevant)
		if fd := c.Func("mcp", "", "scanEventsT"); fd != nil && fd.Body != nil {
			var lineStmts []string
			ast.Inspect(fd.Body, func(n ast.Node) bool {
				as, ok := n.(*ast.AssignStmt)
				if ok && len(as.Lhs) >= 1 && c.Src(as.Lhs[0]) == "line" {
					lineStmts = append(lineStmts, c.Src(as))
				}
				return true
			})
			c.Fact("wire.sse_line_statements", lineStmts)
		} else {
			c.Errf("wire: scanEventsT not found")
		}
		// paginateList: the returns and the call that installs the (non-nil) list, in source order — every
		// `return res, nil` stands behind `setFunc(res, features)` (the model's listPage: required_lists_present_paged)
		if fd := c.Func("mcp", "", "paginateList"); fd != nil && fd.Body != nil {
			var seq []string
			ast.Inspect(fd.Body, func(n ast.Node) bool {
				switch x := n.(type) {
				case *ast.ReturnStmt:
					seq = append(seq, c.Src(x))
				case *ast.CallExpr:
					if c.Src(x.Fun) == "setFunc" {
						seq = append(seq, c.Src(x))
					}
				}
				return true
			})
			c.Fact("wire.paginate_returns", seq)
		} else {
			c.Errf("wire: paginateList not found")
		}

		b.WriteString("\nend Generated.Wire\n")
		c.Lean["WireGen"] = b.String()
	})
}
