// Command extract reads /repo's working tree with go/ast (stdlib only) and regenerates
//   - lean/McpModel/Generated/*.lean : the tables and constants the Lean models are parameterised by
//   - .build/facts.json              : structural facts compared with facts/*.expected.json
// One file per engine registers an extractor with reg(). See DESIGN.md Appendix B.
package main

import (
	"encoding/json"
	"flag"
	"fmt"
	"go/ast"
	"go/constant"
	"go/parser"
	"go/printer"
	"go/token"
	"os"
	"path/filepath"
	"sort"
	"strings"
)

type Ctx struct {
	Repo  string
	Fset  *token.FileSet
	Pkgs  map[string][]*ast.File // dir (relative to repo) -> non-test files
	Facts map[string]any
	Lean  map[string]string // module base name -> file text
	Errs  []string
}

var extractors []func(*Ctx)

func reg(f func(*Ctx)) { extractors = append(extractors, f) }

func (c *Ctx) Fact(name string, v any) { c.Facts[name] = v }
func (c *Ctx) Errf(format string, a ...any) {
	c.Errs = append(c.Errs, fmt.Sprintf(format, a...))
}

func (c *Ctx) load(dir string) []*ast.File {
	if fs, ok := c.Pkgs[dir]; ok {
		return fs
	}
	ents, err := os.ReadDir(filepath.Join(c.Repo, dir))
	if err != nil {
		c.Errf("read %s: %v", dir, err)
		return nil
	}
	var out []*ast.File
	for _, e := range ents {
		n := e.Name()
		if !strings.HasSuffix(n, ".go") || strings.HasSuffix(n, "_test.go") || strings.HasPrefix(n, "zz_verif") || strings.HasPrefix(n, "verif_") {
			continue
		}
		f, err := parser.ParseFile(c.Fset, filepath.Join(c.Repo, dir, n), nil, parser.ParseComments)
		if err != nil {
			c.Errf("parse %s/%s: %v", dir, n, err)
			continue
		}
		out = append(out, f)
	}
	c.Pkgs[dir] = out
	return out
}

// Func finds a function or method declaration. recv is "" for functions, else the receiver's type name.
func (c *Ctx) Func(dir, recv, name string) *ast.FuncDecl {
	for _, f := range c.load(dir) {
		for _, d := range f.Decls {
			fd, ok := d.(*ast.FuncDecl)
			if !ok || fd.Name.Name != name {
				continue
			}
			if recvName(fd) == recv {
				return fd
			}
		}
	}
	return nil
}

func recvName(fd *ast.FuncDecl) string {
	if fd.Recv == nil || len(fd.Recv.List) == 0 {
		return ""
	}
	t := fd.Recv.List[0].Type
	if s, ok := t.(*ast.StarExpr); ok {
		t = s.X
	}
	if ix, ok := t.(*ast.IndexExpr); ok {
		t = ix.X
	}
	if id, ok := t.(*ast.Ident); ok {
		return id.Name
	}
	return "?"
}

// Methods lists the methods of a receiver type, sorted by name.
func (c *Ctx) Methods(dir, recv string) []*ast.FuncDecl {
	var out []*ast.FuncDecl
	for _, f := range c.load(dir) {
		for _, d := range f.Decls {
			if fd, ok := d.(*ast.FuncDecl); ok && fd.Recv != nil && recvName(fd) == recv {
				out = append(out, fd)
			}
		}
	}
	sort.Slice(out, func(i, j int) bool { return out[i].Name.Name < out[j].Name.Name })
	return out
}

// ValueSpec finds a package-level const/var by name and returns its value expression.
func (c *Ctx) ValueExpr(dir, name string) ast.Expr {
	for _, f := range c.load(dir) {
		for _, d := range f.Decls {
			gd, ok := d.(*ast.GenDecl)
			if !ok {
				continue
			}
			for _, s := range gd.Specs {
				vs, ok := s.(*ast.ValueSpec)
				if !ok {
					continue
				}
				for i, n := range vs.Names {
					if n.Name == name && i < len(vs.Values) {
						return vs.Values[i]
					}
				}
			}
		}
	}
	return nil
}

// Const evaluates a constant expression built from literals, named package constants and operators.
func (c *Ctx) Const(dir string, e ast.Expr) (constant.Value, bool) {
	switch x := e.(type) {
	case *ast.BasicLit:
		v := constant.MakeFromLiteral(x.Value, x.Kind, 0)
		return v, v.Kind() != constant.Unknown
	case *ast.ParenExpr:
		return c.Const(dir, x.X)
	case *ast.Ident:
		if ve := c.ValueExpr(dir, x.Name); ve != nil {
			return c.Const(dir, ve)
		}
		return nil, false
	case *ast.UnaryExpr:
		v, ok := c.Const(dir, x.X)
		if !ok {
			return nil, false
		}
		return constant.UnaryOp(x.Op, v, 0), true
	case *ast.BinaryExpr:
		a, ok1 := c.Const(dir, x.X)
		b, ok2 := c.Const(dir, x.Y)
		if !ok1 || !ok2 {
			return nil, false
		}
		if x.Op == token.SHL || x.Op == token.SHR {
			n, ok := constant.Uint64Val(b)
			if !ok {
				return nil, false
			}
			return constant.Shift(a, x.Op, uint(n)), true
		}
		if x.Op == token.QUO && a.Kind() == constant.Int && b.Kind() == constant.Int {
			return constant.BinaryOp(a, token.QUO_ASSIGN, b), true
		}
		return constant.BinaryOp(a, x.Op, b), true
	case *ast.SelectorExpr:
		// time.Second etc.
		if id, ok := x.X.(*ast.Ident); ok && id.Name == "time" {
			m := map[string]int64{"Nanosecond": 1, "Microsecond": 1e3, "Millisecond": 1e6, "Second": 1e9, "Minute": 60e9, "Hour": 3600e9}
			if v, ok := m[x.Sel.Name]; ok {
				return constant.MakeInt64(v), true
			}
		}
		return nil, false
	}
	return nil, false
}

func (c *Ctx) ConstInt(dir, name string) (int64, bool) {
	e := c.ValueExpr(dir, name)
	if e == nil {
		return 0, false
	}
	v, ok := c.Const(dir, e)
	if !ok {
		return 0, false
	}
	n, ok := constant.Int64Val(constant.ToInt(v))
	return n, ok
}

func (c *Ctx) ConstString(dir, name string) (string, bool) {
	e := c.ValueExpr(dir, name)
	if e == nil {
		return "", false
	}
	v, ok := c.Const(dir, e)
	if !ok || v.Kind() != constant.String {
		return "", false
	}
	return constant.StringVal(v), true
}

// Src prints a node back to source text (single line, blanks collapsed).
func (c *Ctx) Src(n ast.Node) string {
	var b strings.Builder
	printer.Fprint(&b, c.Fset, n)
	return strings.Join(strings.Fields(b.String()), " ")
}

// LeanStr renders a Go string as a Lean string literal.
func LeanStr(s string) string {
	var b strings.Builder
	b.WriteByte('"')
	for _, r := range s {
		switch {
		case r == '"':
			b.WriteString(`\"`)
		case r == '\\':
			b.WriteString(`\\`)
		case r == '\n':
			b.WriteString(`\n`)
		case r == '\t':
			b.WriteString(`\t`)
		case r == '\r':
			b.WriteString(`\r`)
		case r < 0x20:
			fmt.Fprintf(&b, `\x%02x`, r)
		default:
			b.WriteRune(r)
		}
	}
	b.WriteByte('"')
	return b.String()
}

func LeanStrList(ss []string) string {
	q := make([]string, len(ss))
	for i, s := range ss {
		q[i] = LeanStr(s)
	}
	return "[" + strings.Join(q, ", ") + "]"
}

func main() {
	repo := flag.String("repo", "/repo", "repository root")
	out := flag.String("out", "/verif", "verif root")
	flag.Parse()
	c := &Ctx{Repo: *repo, Fset: token.NewFileSet(), Pkgs: map[string][]*ast.File{}, Facts: map[string]any{}, Lean: map[string]string{}}
	for _, f := range extractors {
		f(c)
	}
	gen := filepath.Join(*out, "lean", "McpModel", "Generated")
	os.MkdirAll(gen, 0o755)
	// delete stale generated files
	ents, _ := os.ReadDir(gen)
	for _, e := range ents {
		base := strings.TrimSuffix(e.Name(), ".lean")
		if _, ok := c.Lean[base]; !ok {
			os.Remove(filepath.Join(gen, e.Name()))
		}
	}
	for base, text := range c.Lean {
		p := filepath.Join(gen, base+".lean")
		hdr := "-- REGENERATED by /verif/go/extract from /repo on every run. Do not edit.\n"
		text = hdr + text
		if old, err := os.ReadFile(p); err == nil && string(old) == text {
			continue // keep mtime: no Lean rebuild
		}
		if err := os.WriteFile(p, []byte(text), 0o644); err != nil {
			fmt.Fprintln(os.Stderr, err)
			os.Exit(2)
		}
	}
	c.Facts["_errors"] = c.Errs
	os.MkdirAll(filepath.Join(*out, ".build"), 0o755)
	b, _ := json.MarshalIndent(c.Facts, "", " ")
	if err := os.WriteFile(filepath.Join(*out, ".build", "facts.json"), append(b, '\n'), 0o644); err != nil {
		fmt.Fprintln(os.Stderr, err)
		os.Exit(2)
	}
}
