package main

import (
	"go/ast"
	"go/token"
	"strings"
)

// E1 (C01–C05): the Lean model of internal/jsonrpc2/conn.go is a hand transliteration — one label per
// critical section. This extractor pins what was transliterated: every `c.updateInFlight(func…)` call
// site with the verifYield site name that precedes it, the enclosing function and the source of the
// critical section's body (comments dropped, gofmt-normalised); the common tail (`updateInFlight`
// itself), `idle`, `shuttingDown`, `retire`, and the mcp-side caller/canceller that the model
// includes (`call`, `cancelCall`, `canceller.Preempt`). A change to any of them re-opens the
// correspondence obligation: the check then searches the schedules for a failing input.
func init() { reg(connExtract) }

func connExtract(c *Ctx) {
	const dir = "internal/jsonrpc2"
	bad := func(format string, a ...any) { c.Errf("conn: "+format, a...) }
	type section struct {
		Func string `json:"func"`
		Site string `json:"site"`
		Body string `json:"body"`
	}
	var sections []section
	unhooked := []string{}
	norm := func(s string) string {
		lines := strings.Split(s, "\n")
		for i, l := range lines {
			lines[i] = strings.TrimSpace(l)
		}
		return strings.Join(lines, " ")
	}
	isUIF := func(st ast.Stmt) (*ast.FuncLit, bool) {
		es, ok := st.(*ast.ExprStmt)
		if !ok {
			return nil, false
		}
		call, ok := es.X.(*ast.CallExpr)
		if !ok {
			return nil, false
		}
		sel, ok := call.Fun.(*ast.SelectorExpr)
		if !ok || sel.Sel.Name != "updateInFlight" || len(call.Args) != 1 {
			return nil, false
		}
		fl, ok := call.Args[0].(*ast.FuncLit)
		return fl, ok
	}
	yieldSite := func(st ast.Stmt) (string, bool) {
		es, ok := st.(*ast.ExprStmt)
		if !ok {
			return "", false
		}
		call, ok := es.X.(*ast.CallExpr)
		if !ok {
			return "", false
		}
		id, ok := call.Fun.(*ast.Ident)
		if !ok || id.Name != "verifYield" || len(call.Args) < 2 {
			return "", false
		}
		lit, ok := call.Args[1].(*ast.BasicLit)
		if !ok || lit.Kind != token.STRING {
			return "", false
		}
		return strings.Trim(lit.Value, `"`), true
	}
	for _, f := range c.load(dir) {
		if !strings.HasSuffix(c.Fset.Position(f.Pos()).Filename, "conn.go") {
			continue
		}
		for _, d := range f.Decls {
			fd, ok := d.(*ast.FuncDecl)
			if !ok || fd.Body == nil {
				continue
			}
			name := fd.Name.Name
			if r := recvName(fd); r != "" {
				name = r + "." + name
			}
			ast.Inspect(fd.Body, func(n ast.Node) bool {
				var list []ast.Stmt
				switch b := n.(type) {
				case *ast.BlockStmt:
					list = b.List
				case *ast.CaseClause:
					list = b.Body
				case *ast.CommClause:
					list = b.Body
				default:
					return true
				}
				for i, st := range list {
					fl, ok := isUIF(st)
					if !ok {
						continue
					}
					site := ""
					if i > 0 {
						site, _ = yieldSite(list[i-1])
					}
					if site == "" {
						unhooked = append(unhooked, name+": "+norm(c.Src(st)))
					}
					sections = append(sections, section{Func: name, Site: site, Body: norm(c.Src(fl.Body))})
				}
				return true
			})
		}
	}
	if len(sections) == 0 {
		bad("no updateInFlight call sites found")
	}
	c.Fact("conn.sections", sections)
	c.Fact("conn.sections_without_hook", unhooked)
	src := func(recv, name string) string {
		fd := c.Func(dir, recv, name)
		if fd == nil || fd.Body == nil {
			bad("%s.%s not found", recv, name)
			return "<missing>"
		}
		return norm(c.Src(fd.Body))
	}
	c.Fact("conn.tail", src("Connection", "updateInFlight"))
	c.Fact("conn.idle", src("inFlightState", "idle"))
	c.Fact("conn.shuttingDown", src("inFlightState", "shuttingDown"))
	c.Fact("conn.retire", src("AsyncCall", "retire"))
	c.Fact("conn.write", src("Connection", "write"))
	msrc := func(recv, name string) string {
		fd := c.Func("mcp", recv, name)
		if fd == nil || fd.Body == nil {
			bad("mcp %s.%s not found", recv, name)
			return "<missing>"
		}
		return norm(c.Src(fd.Body))
	}
	c.Fact("conn.mcp_call", msrc("", "call"))
	c.Fact("conn.mcp_cancelCall", msrc("", "cancelCall"))
	c.Fact("conn.mcp_preempt", msrc("canceller", "Preempt"))
}
