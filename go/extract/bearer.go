package main

import (
	"fmt"
	"go/ast"
	"go/token"
	"net/http"
	"sort"
	"strconv"
	"strings"
)

// E10 (C14): regenerate what the Lean model of auth.verify / auth.RequireBearerToken depends on:
// the (message, status) of every return of verify in source order, the field count and scheme of
// the credential test, the order of the errors.Is chain, the two expiry conditions (through the
// tiny expression translator trExpr), the statuses that get a challenge and the challenge parameter
// names; plus the structural facts the model relies on (order of the checks, the scope loop, who
// calls the verifier, the shape of the middleware closure).
func init() { reg(bearerExtract) }

var httpStatus = map[string]int{
	"StatusOK": http.StatusOK, "StatusNoContent": http.StatusNoContent, "StatusAccepted": http.StatusAccepted,
	"StatusFound": http.StatusFound, "StatusBadRequest": http.StatusBadRequest, "StatusUnauthorized": http.StatusUnauthorized,
	"StatusPaymentRequired": http.StatusPaymentRequired, "StatusForbidden": http.StatusForbidden,
	"StatusNotFound": http.StatusNotFound, "StatusMethodNotAllowed": http.StatusMethodNotAllowed,
	"StatusNotAcceptable": http.StatusNotAcceptable, "StatusRequestTimeout": http.StatusRequestTimeout,
	"StatusConflict": http.StatusConflict, "StatusGone": http.StatusGone, "StatusTeapot": http.StatusTeapot,
	"StatusUnprocessableEntity": http.StatusUnprocessableEntity, "StatusTooManyRequests": http.StatusTooManyRequests,
	"StatusInternalServerError": http.StatusInternalServerError, "StatusNotImplemented": http.StatusNotImplemented,
	"StatusBadGateway": http.StatusBadGateway, "StatusServiceUnavailable": http.StatusServiceUnavailable,
	"StatusGatewayTimeout": http.StatusGatewayTimeout,
}

// statusOf evaluates `http.StatusX` or an integer literal.
func statusOf(e ast.Expr) (int, bool) {
	switch x := e.(type) {
	case *ast.SelectorExpr:
		if id, ok := x.X.(*ast.Ident); ok && id.Name == "http" {
			n, ok := httpStatus[x.Sel.Name]
			return n, ok
		}
	case *ast.BasicLit:
		if x.Kind == token.INT {
			n, err := strconv.Atoi(x.Value)
			return n, err == nil
		}
	case *ast.ParenExpr:
		return statusOf(x.X)
	}
	return 0, false
}

// trExpr is the tiny expression translator (DESIGN.md Appendix B): Go boolean/time/duration
// expressions over a fixed set of named operands -> a Lean term over Int/Bool. ok=false when the
// expression leaves the subset.
func trExpr(c *Ctx, env map[string]string, e ast.Expr) (string, bool) {
	if v, ok := env[c.Src(e)]; ok {
		return v, true
	}
	switch x := e.(type) {
	case *ast.ParenExpr:
		return trExpr(c, env, x.X)
	case *ast.BasicLit:
		if x.Kind == token.INT {
			return x.Value, true
		}
	case *ast.SelectorExpr:
		if v, ok := c.Const("", x); ok {
			return v.ExactString(), true
		}
	case *ast.UnaryExpr:
		a, ok := trExpr(c, env, x.X)
		if !ok {
			return "", false
		}
		switch x.Op {
		case token.NOT:
			return "(!" + a + ")", true
		case token.SUB:
			return "(-" + a + ")", true
		}
	case *ast.BinaryExpr:
		a, ok1 := trExpr(c, env, x.X)
		b, ok2 := trExpr(c, env, x.Y)
		if !ok1 || !ok2 {
			return "", false
		}
		switch x.Op {
		case token.LAND:
			return "(" + a + " && " + b + ")", true
		case token.LOR:
			return "(" + a + " || " + b + ")", true
		case token.ADD:
			return "(" + a + " + " + b + ")", true
		case token.SUB:
			return "(" + a + " - " + b + ")", true
		case token.MUL:
			return "(" + a + " * " + b + ")", true
		case token.QUO:
			return "(" + a + " / " + b + ")", true
		case token.LSS:
			return "decide (" + a + " < " + b + ")", true
		case token.LEQ:
			return "decide (" + a + " ≤ " + b + ")", true
		case token.GTR:
			return "decide (" + a + " > " + b + ")", true
		case token.GEQ:
			return "decide (" + a + " ≥ " + b + ")", true
		case token.EQL:
			return "decide (" + a + " = " + b + ")", true
		case token.NEQ:
			return "decide (" + a + " ≠ " + b + ")", true
		}
	case *ast.CallExpr:
		se, ok := x.Fun.(*ast.SelectorExpr)
		if !ok {
			return "", false
		}
		if id, ok := se.X.(*ast.Ident); ok && id.Name == "time" && len(x.Args) == 1 {
			a, ok := trExpr(c, env, x.Args[0])
			now, has := env["time.Now()"]
			if !ok || !has {
				return "", false
			}
			switch se.Sel.Name {
			case "Since":
				return "(" + now + " - " + a + ")", true
			case "Until":
				return "(" + a + " - " + now + ")", true
			}
			return "", false
		}
		if len(x.Args) != 1 {
			return "", false
		}
		r, ok1 := trExpr(c, env, se.X)
		a, ok2 := trExpr(c, env, x.Args[0])
		if !ok1 || !ok2 {
			return "", false
		}
		switch se.Sel.Name {
		case "Add":
			return "(" + r + " + " + a + ")", true
		case "Sub":
			return "(" + r + " - " + a + ")", true
		case "Before":
			return "decide (" + r + " < " + a + ")", true
		case "After":
			return "decide (" + r + " > " + a + ")", true
		case "Equal":
			return "decide (" + r + " = " + a + ")", true
		}
	}
	return "", false
}

type bearerRet struct {
	msg    string // literal text; "" when the message is err.Error()
	errMsg bool   // message is err.Error()
	code   int
}

// bearerReturn parses `return nil, <msg>, <status>`.
func bearerReturn(c *Ctx, s ast.Stmt) (bearerRet, bool) {
	rs, ok := s.(*ast.ReturnStmt)
	if !ok || len(rs.Results) != 3 || c.Src(rs.Results[0]) != "nil" {
		return bearerRet{}, false
	}
	var r bearerRet
	if c.Src(rs.Results[1]) == "err.Error()" {
		r.errMsg = true
	} else if v, ok := c.Const("auth", rs.Results[1]); ok {
		s, err := strconv.Unquote(v.ExactString())
		if err != nil {
			return bearerRet{}, false
		}
		r.msg = s
	} else {
		return bearerRet{}, false
	}
	n, ok := statusOf(rs.Results[2])
	r.code = n
	return r, ok
}

// soleReturn: a block that consists of exactly one `return nil, msg, status`.
func soleReturn(c *Ctx, b *ast.BlockStmt) (bearerRet, bool) {
	if b == nil || len(b.List) != 1 {
		return bearerRet{}, false
	}
	return bearerReturn(c, b.List[0])
}

func bearerExtract(c *Ctx) {
	// defaults = what the committed model was written against; used only so that the Lean
	// project still builds when the source leaves the recognised shape (then an error is recorded
	// and ./check treats the tie as broken).
	nFields, scheme := 2, "bearer"
	noBearer := bearerRet{msg: "no bearer token", code: 401}
	chain := [][2]int{{0, 401}, {1, 400}}
	errOther := 500
	nilInfo := bearerRet{msg: "token validation failed", code: 500}
	scope := bearerRet{msg: "insufficient scope", code: 403}
	missing := bearerRet{msg: "token missing expiration", code: 401}
	expiredR := bearerRet{msg: "token expired", code: 401}
	missingCond, missingSrc := "(!allow)", "!opts.AllowMissingExpiration"
	expiredCond, expiredSrc := "decide ((exp + skew) < now)", "tokenInfo.Expiration.Add(opts.ClockSkew).Before(time.Now())"
	challengeCodes := []int{401, 403}
	paramRM, paramScope := "resource_metadata", "scope"

	bad := func(format string, a ...any) { c.Errf("bearer: "+format, a...) }
	steps := []string{}
	fd := c.Func("auth", "", "verify")
	if fd == nil || fd.Body == nil {
		bad("auth.verify not found")
	} else {
		nowCalls := 0
		ast.Inspect(fd.Body, func(n ast.Node) bool {
			if ce, ok := n.(*ast.CallExpr); ok && c.Src(ce.Fun) == "time.Now" {
				nowCalls++
			}
			return true
		})
		c.Fact("bearer.time_now_calls_in_verify", nowCalls)
		for _, st := range fd.Body.List {
			src := c.Src(st)
			switch s := st.(type) {
			case *ast.AssignStmt:
				switch {
				case src == `authHeader := req.Header.Get("Authorization")`:
					steps = append(steps, "header")
				case src == "fields := strings.Fields(authHeader)":
					steps = append(steps, "fields")
				case src == "tokenInfo, err := verifier(req.Context(), fields[1], req)":
					steps = append(steps, "verifier(fields[1])")
				default:
					steps = append(steps, "?"+src)
				}
			case *ast.IfStmt:
				cond := c.Src(s.Cond)
				switch {
				case strings.HasPrefix(cond, "len(fields)"):
					steps = append(steps, "credential")
					// len(fields) != N || strings.ToLower(fields[0]) != "scheme"
					ok := false
					if be, isb := s.Cond.(*ast.BinaryExpr); isb && be.Op == token.LOR && s.Else == nil && s.Init == nil {
						l, lok := be.X.(*ast.BinaryExpr)
						r, rok := be.Y.(*ast.BinaryExpr)
						if lok && rok && l.Op == token.NEQ && r.Op == token.NEQ && c.Src(l.X) == "len(fields)" && c.Src(r.X) == "strings.ToLower(fields[0])" {
							n, ok1 := statusOf(l.Y) // an int literal
							v, ok2 := c.Const("auth", r.Y)
							ret, ok3 := soleReturn(c, s.Body)
							if ok1 && ok2 && ok3 && !ret.errMsg {
								if sv, err := strconv.Unquote(v.ExactString()); err == nil {
									nFields, scheme, noBearer, ok = n, sv, ret, true
								}
							}
						}
					}
					if !ok {
						bad("credential test not of the form len(fields) != N || strings.ToLower(fields[0]) != S: %s", cond)
					}
				case cond == "err != nil":
					steps = append(steps, "err-chain")
					ok := s.Else == nil && len(s.Body.List) >= 1
					var ch [][2]int
					for i, b := range s.Body.List {
						if !ok {
							break
						}
						if i == len(s.Body.List)-1 {
							ret, rok := bearerReturn(c, b)
							if !rok || !ret.errMsg {
								ok = false
								break
							}
							errOther = ret.code
							continue
						}
						is, isif := b.(*ast.IfStmt)
						if !isif || is.Else != nil {
							ok = false
							break
						}
						var sent int
						switch c.Src(is.Cond) {
						case "errors.Is(err, ErrInvalidToken)":
							sent = 0
						case "errors.Is(err, ErrOAuth)":
							sent = 1
						default:
							ok = false
						}
						ret, rok := soleReturn(c, is.Body)
						if !rok || !ret.errMsg {
							ok = false
						}
						ch = append(ch, [2]int{sent, ret.code})
					}
					if ok {
						chain = ch
					} else {
						bad("verifier-error branch is not a chain of errors.Is(err, ErrInvalidToken|ErrOAuth) returns with err.Error()")
					}
				case cond == "tokenInfo == nil":
					steps = append(steps, "nil-info")
					if ret, ok := soleReturn(c, s.Body); ok && !ret.errMsg && s.Else == nil {
						nilInfo = ret
					} else {
						bad("nil-info branch not a single return")
					}
				case cond == "opts != nil":
					steps = append(steps, "scopes")
					ok := false
					if len(s.Body.List) == 1 && s.Else == nil {
						if rs, isr := s.Body.List[0].(*ast.RangeStmt); isr && c.Src(rs.X) == "opts.Scopes" && c.Src(rs.Key) == "_" && c.Src(rs.Value) == "s" && len(rs.Body.List) == 1 {
							if is, isif := rs.Body.List[0].(*ast.IfStmt); isif && is.Else == nil && c.Src(is.Cond) == "!slices.Contains(tokenInfo.Scopes, s)" {
								if ret, rok := soleReturn(c, is.Body); rok && !ret.errMsg {
									scope, ok = ret, true
								}
							}
						}
					}
					c.Fact("bearer.scope_loop", map[bool]string{true: "for every s in opts.Scopes: reject unless slices.Contains(tokenInfo.Scopes, s)", false: c.Src(s)}[ok])
					if !ok {
						bad("scope check is not `for _, s := range opts.Scopes { if !slices.Contains(tokenInfo.Scopes, s) { return } }`")
					}
				case cond == "opts == nil":
					steps = append(steps, "nil-opts-default")
					if c.Src(s.Body) != "{ opts = &RequireBearerTokenOptions{} }" || s.Else != nil {
						bad("nil options are not replaced by the zero RequireBearerTokenOptions: %s", c.Src(s.Body))
					}
				case cond == "tokenInfo.Expiration.IsZero()":
					steps = append(steps, "expiry")
					env := map[string]string{"tokenInfo.Expiration": "exp", "opts.ClockSkew": "skew", "time.Now()": "now", "opts.AllowMissingExpiration": "allow"}
					ok := false
					if len(s.Body.List) == 1 {
						in, isif := s.Body.List[0].(*ast.IfStmt)
						el, iselse := s.Else.(*ast.IfStmt)
						if isif && iselse && in.Else == nil && el.Else == nil && in.Init == nil && el.Init == nil {
							r1, ok1 := soleReturn(c, in.Body)
							r2, ok2 := soleReturn(c, el.Body)
							t1, ok3 := trExpr(c, env, in.Cond)
							t2, ok4 := trExpr(c, env, el.Cond)
							if ok1 && ok2 && ok3 && ok4 && !r1.errMsg && !r2.errMsg {
								missing, expiredR, ok = r1, r2, true
								missingCond, missingSrc = t1, c.Src(in.Cond)
								expiredCond, expiredSrc = t2, c.Src(el.Cond)
							}
						}
					}
					if !ok {
						bad("expiry check left the translatable shape: %s", src)
					}
				default:
					steps = append(steps, "?if "+cond)
				}
			case *ast.ReturnStmt:
				if src == `return tokenInfo, "", 0` {
					steps = append(steps, "admit")
				} else {
					steps = append(steps, "?"+src)
				}
			default:
				steps = append(steps, "?"+src)
			}
		}
	}
	c.Fact("bearer.verify_steps", steps)

	// Who calls a TokenVerifier-typed parameter named `verifier`? (DESIGN Appendix B: only verify.)
	callers := map[string]bool{}
	for _, f := range c.load("auth") {
		for _, d := range f.Decls {
			fn, ok := d.(*ast.FuncDecl)
			if !ok || fn.Body == nil {
				continue
			}
			ast.Inspect(fn.Body, func(n ast.Node) bool {
				if ce, ok := n.(*ast.CallExpr); ok {
					if id, ok := ce.Fun.(*ast.Ident); ok && id.Name == "verifier" {
						callers[fn.Name.Name] = true
					}
				}
				return true
			})
		}
	}
	cl := []string{}
	for k := range callers {
		cl = append(cl, k)
	}
	sort.Strings(cl)
	c.Fact("bearer.verifier_callers", cl)

	// The middleware closure: innermost func(w, r) literal of RequireBearerToken.
	mw := c.Func("auth", "", "RequireBearerToken")
	var inner *ast.FuncLit
	if mw != nil {
		ast.Inspect(mw.Body, func(n ast.Node) bool {
			if fl, ok := n.(*ast.FuncLit); ok {
				inner = fl
			}
			return true
		})
	}
	// The middleware VALUE (Session.lean): RequireBearerToken does nothing but return func(handler), which does
	// nothing but return a fresh closure; the closure assigns to no variable declared outside it; the file
	// holding it declares no package-level variable besides the two sentinel errors.
	valueShape := []string{}
	if mw != nil {
		for _, st := range mw.Body.List {
			if rs, ok := st.(*ast.ReturnStmt); ok && len(rs.Results) == 1 {
				if fl, ok := rs.Results[0].(*ast.FuncLit); ok {
					var pn []string
					for _, f := range fl.Type.Params.List {
						for _, id := range f.Names {
							pn = append(pn, id.Name+" "+c.Src(f.Type))
						}
					}
					valueShape = append(valueShape, "return func("+strings.Join(pn, ", ")+") {")
					for _, st2 := range fl.Body.List {
						if rs2, ok := st2.(*ast.ReturnStmt); ok && len(rs2.Results) == 1 {
							if ce, ok := rs2.Results[0].(*ast.CallExpr); ok && c.Src(ce.Fun) == "http.HandlerFunc" && len(ce.Args) == 1 {
								if _, ok := ce.Args[0].(*ast.FuncLit); ok {
									valueShape = append(valueShape, "return http.HandlerFunc(<closure>)")
									continue
								}
							}
						}
						valueShape = append(valueShape, c.Src(st2))
					}
					valueShape = append(valueShape, "}")
					continue
				}
			}
			valueShape = append(valueShape, c.Src(st))
		}
	}
	c.Fact("bearer.middleware_value_shape", valueShape)
	outerWrites := []string{}
	if inner != nil {
		declared := map[string]bool{}
		for _, f := range inner.Type.Params.List {
			for _, n := range f.Names {
				declared[n.Name] = true
			}
		}
		ast.Inspect(inner.Body, func(n ast.Node) bool {
			switch x := n.(type) {
			case *ast.AssignStmt:
				if x.Tok == token.DEFINE {
					for _, l := range x.Lhs {
						if id, ok := l.(*ast.Ident); ok {
							declared[id.Name] = true
						}
					}
				}
			case *ast.ValueSpec:
				for _, id := range x.Names {
					declared[id.Name] = true
				}
			}
			return true
		})
		root := func(e ast.Expr) string {
			for {
				switch x := e.(type) {
				case *ast.Ident:
					return x.Name
				case *ast.SelectorExpr:
					e = x.X
				case *ast.IndexExpr:
					e = x.X
				case *ast.StarExpr:
					e = x.X
				case *ast.ParenExpr:
					e = x.X
				default:
					return "?"
				}
			}
		}
		ast.Inspect(inner.Body, func(n ast.Node) bool {
			switch x := n.(type) {
			case *ast.AssignStmt:
				if x.Tok != token.DEFINE {
					for _, l := range x.Lhs {
						if r := root(l); !declared[r] && r != "_" {
							outerWrites = append(outerWrites, c.Src(x))
						}
					}
				}
			case *ast.IncDecStmt:
				if r := root(x.X); !declared[r] {
					outerWrites = append(outerWrites, c.Src(x))
				}
			case *ast.GoStmt:
				outerWrites = append(outerWrites, c.Src(x))
			}
			return true
		})
	}
	c.Fact("bearer.closure_outer_writes", outerWrites)
	pkgVars := []string{}
	for _, f := range c.load("auth") {
		has := false
		for _, d := range f.Decls {
			if fd, ok := d.(*ast.FuncDecl); ok && fd.Recv == nil && fd.Name.Name == "RequireBearerToken" {
				has = true
			}
		}
		if !has {
			continue
		}
		for _, d := range f.Decls {
			if gd, ok := d.(*ast.GenDecl); ok && gd.Tok == token.VAR {
				for _, sp := range gd.Specs {
					if vs, ok := sp.(*ast.ValueSpec); ok {
						for _, id := range vs.Names {
							pkgVars = append(pkgVars, id.Name)
						}
					}
				}
			}
		}
	}
	sort.Strings(pkgVars)
	c.Fact("bearer.package_vars_of_auth_go", pkgVars)

	if inner == nil {
		bad("RequireBearerToken: handler closure not found")
		c.Fact("bearer.middleware_shape", "<missing>")
	} else {
		shape := []string{}
		for _, st := range inner.Body.List {
			if is, ok := st.(*ast.IfStmt); ok && c.Src(is.Cond) == "code != 0" {
				shape = append(shape, "if code != 0 {")
				for _, b := range is.Body.List {
					if ch, ok := b.(*ast.IfStmt); ok && strings.HasPrefix(c.Src(ch.Cond), "code ==") {
						// code == A || code == B ...
						var codes []int
						good := true
						var walk func(e ast.Expr)
						walk = func(e ast.Expr) {
							be, ok := e.(*ast.BinaryExpr)
							if ok && be.Op == token.LOR {
								walk(be.X)
								walk(be.Y)
								return
							}
							if ok && be.Op == token.EQL && c.Src(be.X) == "code" {
								if n, ok := statusOf(be.Y); ok {
									codes = append(codes, n)
									return
								}
							}
							good = false
						}
						walk(ch.Cond)
						if good {
							challengeCodes = codes
						} else {
							bad("challenge status test left the shape code == A || code == B: %s", c.Src(ch.Cond))
						}
						// parameter names from the Sprintf formats, in source order
						var fmts []string
						ast.Inspect(ch.Body, func(n ast.Node) bool {
							if ce, ok := n.(*ast.CallExpr); ok && c.Src(ce.Fun) == "fmt.Sprintf" && len(ce.Args) == 2 {
								if v, ok := c.Const("auth", ce.Args[0]); ok {
									if s, err := strconv.Unquote(v.ExactString()); err == nil {
										fmts = append(fmts, s+" <- "+c.Src(ce.Args[1]))
									}
								}
							}
							return true
						})
						if len(fmts) == 2 && strings.HasSuffix(fmts[0], "=%q <- opts.ResourceMetadataURL") && strings.HasSuffix(fmts[1], `=%q <- strings.Join(opts.Scopes, " ")`) {
							paramRM = strings.SplitN(fmts[0], "=%q", 2)[0]
							paramScope = strings.SplitN(fmts[1], "=%q", 2)[0]
						} else {
							bad("challenge parameters are not NAME=%%q of the metadata URL then NAME=%%q of the blank-joined scopes: %v", fmts)
						}
						body := c.Src(ch.Body)
						body = strings.ReplaceAll(body, fmt.Sprintf("%q", paramRM+"=%q"), "<RM=%q>")
						body = strings.ReplaceAll(body, fmt.Sprintf("%q", paramScope+"=%q"), "<SCOPE=%q>")
						shape = append(shape, "if code in challengeCodes "+body)
					} else {
						shape = append(shape, c.Src(b))
					}
				}
				shape = append(shape, "}")
			} else {
				shape = append(shape, c.Src(st))
			}
		}
		c.Fact("bearer.middleware_shape", shape)
	}

	var b strings.Builder
	w := func(format string, a ...any) { fmt.Fprintf(&b, format, a...) }
	w("namespace Generated.Bearer\n")
	w("/-- auth/auth.go verify: `len(fields) != N || strings.ToLower(fields[0]) != S` -/\n")
	w("def nFields : Nat := %d\ndef scheme : String := %s\n", nFields, LeanStr(scheme))
	ret := func(name string, r bearerRet) {
		w("def st%s : Nat := %d\ndef msg%s : String := %s\n", name, r.code, name, LeanStr(r.msg))
	}
	ret("NoBearer", noBearer)
	w("/-- the errors.Is chain in source order: (sentinel, status); sentinel 0 = ErrInvalidToken, 1 = ErrOAuth. The message is err.Error(). -/\n")
	var cs []string
	for _, p := range chain {
		cs = append(cs, fmt.Sprintf("(%d, %d)", p[0], p[1]))
	}
	w("def errChain : List (Nat × Nat) := [%s]\n", strings.Join(cs, ", "))
	w("def stErrOther : Nat := %d\n", errOther)
	ret("NilInfo", nilInfo)
	ret("Scope", scope)
	ret("MissingExp", missing)
	ret("Expired", expiredR)
	w("/-- zero Expiration is rejected when `%s` -/\n", missingSrc)
	w("def missingRejected (allow : Bool) : Bool := %s\n", missingCond)
	w("/-- non-zero Expiration is rejected when `%s` (instants and durations as integers, ns) -/\n", expiredSrc)
	w("def expired (exp skew now : Int) : Bool := %s\n", expiredCond)
	w("/-- RequireBearerToken: statuses that get a WWW-Authenticate challenge -/\n")
	var cc []string
	for _, n := range challengeCodes {
		cc = append(cc, strconv.Itoa(n))
	}
	w("def challengeCodes : List Nat := [%s]\n", strings.Join(cc, ", "))
	w("def paramRM : String := %s\ndef paramScope : String := %s\n", LeanStr(paramRM), LeanStr(paramScope))
	w("end Generated.Bearer\n")
	c.Lean["BearerGen"] = b.String()
}
