package main

import (
	"fmt"
	"go/ast"
	"go/token"
	"sort"
	"strings"
)

// E7 (C11): header name and HTTP status codes of the session layer of StreamableHTTPHandler, and the
// structural facts the model relies on:
//   - every serveStateful{GET,POST,DELETE} path that has a session id reaches the transport/session
//     only through the sessionInfo returned by lookupSession, guarded by `if !ok { return }`;
//   - h.sessions is only touched while h.mu is held;
//   - sessionInfo.refs / sessionInfo.timer are only touched while i.timerMu is held (startPOST,
//     endPOST, stopTimer), apart from the initialisation before the entry is published in h.sessions.

// net/http status constants (stdlib; part of the trusted base).
var sessHTTPStatus = map[string]int{
	"StatusOK": 200, "StatusAccepted": 202, "StatusNoContent": 204, "StatusBadRequest": 400, "StatusUnauthorized": 401,
	"StatusForbidden": 403, "StatusNotFound": 404, "StatusMethodNotAllowed": 405, "StatusConflict": 409, "StatusGone": 410,
	"StatusRequestEntityTooLarge": 413, "StatusUnsupportedMediaType": 415, "StatusInternalServerError": 500,
}

func sessStatusOf(c *Ctx, e ast.Expr) (int, bool) {
	if se, ok := e.(*ast.SelectorExpr); ok {
		if id, ok := se.X.(*ast.Ident); ok && id.Name == "http" {
			n, ok := sessHTTPStatus[se.Sel.Name]
			return n, ok
		}
	}
	if v, ok := c.Const("mcp", e); ok {
		var n int
		if _, err := fmt.Sscanf(v.ExactString(), "%d", &n); err == nil {
			return n, true
		}
	}
	return 0, false
}

// httpErrorsIn lists, in source order, the statuses of http.Error(w, msg, status) and
// w.WriteHeader(status) calls inside n.
func httpErrorsIn(c *Ctx, n ast.Node) []int {
	var out []int
	ast.Inspect(n, func(x ast.Node) bool {
		ce, ok := x.(*ast.CallExpr)
		if !ok {
			return true
		}
		switch c.Src(ce.Fun) {
		case "http.Error":
			if len(ce.Args) == 3 {
				if s, ok := sessStatusOf(c, ce.Args[2]); ok {
					out = append(out, s)
				} else {
					out = append(out, -1)
				}
			}
		case "w.WriteHeader":
			if len(ce.Args) == 1 {
				if s, ok := sessStatusOf(c, ce.Args[0]); ok {
					out = append(out, s)
				} else {
					out = append(out, -1)
				}
			}
		}
		return true
	})
	return out
}

// ifWithCond finds the first if statement inside n whose condition prints as cond.
func ifWithCond(c *Ctx, n ast.Node, cond string) *ast.IfStmt {
	var found *ast.IfStmt
	ast.Inspect(n, func(x ast.Node) bool {
		if found != nil {
			return false
		}
		if is, ok := x.(*ast.IfStmt); ok && c.Src(is.Cond) == cond {
			found = is
			return false
		}
		return true
	})
	return found
}

func mentions(c *Ctx, n ast.Node, sel string) bool {
	found := false
	ast.Inspect(n, func(x ast.Node) bool {
		if se, ok := x.(*ast.SelectorExpr); ok && c.Src(se) == sel {
			found = true
		}
		return !found
	})
	return found
}

// lockWalk visits every simple statement of body (descending into nested blocks and function
// literals) and reports, for statements mentioning one of fields, whether mutex is held there.
// Lock state: set by `<mutex>.Lock()`, cleared by `<mutex>.Unlock()`; `defer <mutex>.Unlock()` keeps
// it; a function literal starts unlocked.
func lockWalk(c *Ctx, body *ast.BlockStmt, mutex string, fields []string, report func(field string, locked bool, stmt ast.Stmt)) {
	var walkBlock func(list []ast.Stmt, locked bool) bool
	var walkStmt func(s ast.Stmt, locked bool) bool
	checkExprs := func(s ast.Stmt, n ast.Node, locked bool) {
		// nested function literals are walked separately
		ast.Inspect(n, func(x ast.Node) bool {
			if fl, ok := x.(*ast.FuncLit); ok {
				walkBlock(fl.Body.List, false)
				return false
			}
			if se, ok := x.(*ast.SelectorExpr); ok {
				for _, f := range fields {
					if c.Src(se) == f {
						report(f, locked, s)
					}
				}
			}
			return true
		})
	}
	walkStmt = func(s ast.Stmt, locked bool) bool {
		switch st := s.(type) {
		case *ast.ExprStmt:
			switch c.Src(st.X) {
			case mutex + ".Lock()":
				return true
			case mutex + ".Unlock()":
				return false
			}
			checkExprs(s, st.X, locked)
		case *ast.BlockStmt:
			return walkBlock(st.List, locked)
		case *ast.IfStmt:
			if st.Init != nil {
				locked = walkStmt(st.Init, locked)
			}
			checkExprs(s, st.Cond, locked)
			walkBlock(st.Body.List, locked)
			if st.Else != nil {
				walkStmt(st.Else, locked)
			}
		case *ast.ForStmt:
			walkBlock(st.Body.List, locked)
		case *ast.RangeStmt:
			checkExprs(s, st.X, locked)
			walkBlock(st.Body.List, locked)
		case *ast.SwitchStmt:
			for _, cc := range st.Body.List {
				walkBlock(cc.(*ast.CaseClause).Body, locked)
			}
		case *ast.DeferStmt:
			if c.Src(st.Call) == mutex+".Unlock()" {
				return locked
			}
			checkExprs(s, st.Call, locked)
		default:
			checkExprs(s, s, locked)
		}
		return locked
	}
	walkBlock = func(list []ast.Stmt, locked bool) bool {
		for _, s := range list {
			locked = walkStmt(s, locked)
		}
		return locked
	}
	walkBlock(body.List, false)
}

// callSeq lists, in source order, the calls in n whose printed callee ends with one of the names.
func callSeq(c *Ctx, n ast.Node, names []string) []string {
	var out []string
	ast.Inspect(n, func(x ast.Node) bool {
		if ce, ok := x.(*ast.CallExpr); ok {
			f := c.Src(ce.Fun)
			for _, nm := range names {
				if f == nm || strings.HasSuffix(f, "."+nm) {
					out = append(out, f)
				}
			}
		}
		return true
	})
	return out
}

func init() {
	reg(func(c *Ctx) {
		const dir = "mcp"
		publishChecks := false
		hdr, ok := c.ConstString(dir, "sessionIDHeader")
		if !ok {
			c.Errf("sessions: sessionIDHeader not a string constant")
		}
		st := map[string]int{}
		get := func(name string, v int, ok bool) {
			if !ok {
				c.Errf("sessions: cannot extract %s", name)
				v = 0
			}
			st[name] = v
		}

		// lookupSession: 404 for a missing entry, 403 for a user mismatch.
		lk := c.Func(dir, "StreamableHTTPHandler", "lookupSession")
		if lk == nil {
			c.Errf("sessions: lookupSession not found")
		} else {
			if is := ifWithCond(c, lk.Body, "info == nil"); is != nil {
				e := httpErrorsIn(c, is.Body)
				get("lookupMissing", first(e), len(e) == 1)
			} else {
				get("lookupMissing", 0, false)
			}
			guard := ifWithCond(c, lk.Body, `info.userID != ""`)
			var mism *ast.IfStmt
			if guard != nil {
				mism = ifWithCond(c, guard.Body, "tokenInfo == nil || tokenInfo.UserID != info.userID")
			}
			if mism != nil {
				e := httpErrorsIn(c, mism.Body)
				get("lookupUserMismatch", first(e), len(e) == 1)
			} else {
				get("lookupUserMismatch", 0, false)
			}
			c.Fact("sessions.lookup_shape", map[string]any{
				"missing_check":  ifWithCond(c, lk.Body, "info == nil") != nil,
				"owner_guard":    guard != nil,
				"mismatch_check": mism != nil,
				"statuses":       httpErrorsIn(c, lk.Body),
				"calls":          callSeq(c, lk.Body, []string{"Lock", "Unlock", "TokenInfoFromContext"}),
			})
		}

		// missing id for GET / DELETE, 204 for DELETE, 405s
		for _, fn := range []string{"serveStatefulGET", "serveStatefulDELETE"} {
			fd := c.Func(dir, "StreamableHTTPHandler", fn)
			if fd == nil {
				c.Errf("sessions: %s not found", fn)
				continue
			}
			if is := ifWithCond(c, fd.Body, `sessionID == ""`); is != nil {
				e := httpErrorsIn(c, is.Body)
				get(fn+"MissingID", first(e), len(e) == 1)
			} else {
				get(fn+"MissingID", 0, false)
			}
		}
		if fd := c.Func(dir, "StreamableHTTPHandler", "serveStatefulDELETE"); fd != nil {
			e := httpErrorsIn(c, fd.Body)
			get("deleteOK", last(e), len(e) == 2)
		}
		if fd := c.Func(dir, "StreamableHTTPHandler", "serveStateless"); fd != nil {
			if is := ifWithCond(c, fd.Body, "req.Method != http.MethodPost"); is != nil {
				e := httpErrorsIn(c, is.Body)
				get("statelessNotPost", first(e), len(e) == 1)
			} else {
				get("statelessNotPost", 0, false)
			}
			// the stateless path reads the session id header only under the legacy compatibility flag
			reads := 0
			guarded := 0
			ast.Inspect(fd.Body, func(x ast.Node) bool {
				if is, ok := x.(*ast.IfStmt); ok && strings.Contains(c.Src(is.Cond), "legacySessions") {
					ast.Inspect(is.Body, func(y ast.Node) bool {
						if ce, ok := y.(*ast.CallExpr); ok && c.Src(ce) == "req.Header.Get(sessionIDHeader)" {
							guarded++
						}
						return true
					})
				}
				if ce, ok := x.(*ast.CallExpr); ok && c.Src(ce) == "req.Header.Get(sessionIDHeader)" {
					reads++
				}
				return true
			})
			c.Fact("sessions.stateless_header_reads", map[string]int{"total": reads, "under_legacy_flag": guarded})
			c.Fact("sessions.stateless_calls", callSeq(c, fd.Body, []string{"lookupSession", "GetSessionID", "connectStreamable", "Close", "ServeHTTP", "serveStatelessLegacyDELETE", "serveEphemeral"}))
		}
		// the compatibility path of a stateless endpoint (MCPGODEBUG allowsessionsinstateless=1): DELETE is a
		// no-op that only demands an id; a POST's temporary session gets the request's id, or a minted one
		if fd := c.Func(dir, "StreamableHTTPHandler", "serveStatelessLegacyDELETE"); fd != nil {
			if is := ifWithCond(c, fd.Body, `sessionID == ""`); is != nil {
				e := httpErrorsIn(c, is.Body)
				get("statelessLegacyDeleteMissingID", first(e), len(e) == 1)
			} else {
				get("statelessLegacyDeleteMissingID", 0, false)
			}
			e := httpErrorsIn(c, fd.Body)
			get("statelessLegacyDeleteOK", last(e), len(e) == 2)
			c.Fact("sessions.legacy_delete_calls", callSeq(c, fd.Body, []string{"lookupSession", "Close", "Get", "Lock", "delete"}))
		} else {
			get("statelessLegacyDeleteMissingID", 0, false)
			get("statelessLegacyDeleteOK", 0, false)
		}
		if fd := c.Func(dir, "StreamableHTTPHandler", "serveStateless"); fd != nil {
			src := []string{"<no legacy id branch>"}
			if is := ifWithCond(c, fd.Body, "legacySessions && !info.usesNewProtocol"); is != nil {
				src = callSeq(c, is.Body, []string{"Get", "GetSessionID"})
				if inner := ifWithCond(c, is.Body, `sessionID == ""`); inner != nil {
					src = append(src, "minted-only-if-absent")
				}
			}
			c.Fact("sessions.legacy_id_source", src)
			flag := ""
			if len(fd.Body.List) > 0 {
				flag = c.Src(fd.Body.List[0])
			}
			c.Fact("sessions.legacy_flag", flag)
		}
		// requests refused before the session layer: Content-Type, Accept, getServer == nil (POST), Accept (GET); each
		// check must come before the first read of the session id header and before GetSessionID
		gate := map[string]any{}
		for _, g := range []struct{ fn, pre string }{{"serveStatefulPOST", "stateful"}, {"serveStateless", "stateless"}, {"serveStatefulGET", "statefulGET"}} {
			fd := c.Func(dir, "StreamableHTTPHandler", g.fn)
			if fd == nil {
				continue
			}
			conds := []struct{ name, cond string }{
				{"BadContentType", `disablecontenttypecheck != "1" && baseMediaType(req.Header.Get("Content-Type")) != "application/json"`},
				{"BadAccept", "!jsonOK || !streamOK"},
				{"NoServer", "server == nil"},
			}
			if g.fn == "serveStatefulGET" {
				conds = []struct{ name, cond string }{{"BadAccept", "!streamOK"}}
			}
			var order []string
			for _, s := range fd.Body.List {
				if is, ok := s.(*ast.IfStmt); ok {
					for _, cd := range conds {
						if c.Src(is.Cond) == cd.cond {
							e := httpErrorsIn(c, is.Body)
							_, ret := is.Body.List[len(is.Body.List)-1].(*ast.ReturnStmt)
							get(g.pre+cd.name, first(e), len(e) == 1 && ret)
							order = append(order, cd.name)
						}
					}
				}
				src := c.Src(s)
				if strings.Contains(src, "req.Header.Get(sessionIDHeader)") && !strings.Contains(src, "legacySessions &&") || strings.HasPrefix(src, "sessionID := req.Header.Get(sessionIDHeader)") {
					order = append(order, "<reads session id>")
				}
				if strings.Contains(src, "GetSessionID()") {
					order = append(order, "<GetSessionID>")
				}
				if strings.Contains(src, "ephemeralConnectOpts(") || strings.Contains(src, "connectStreamable(") {
					order = append(order, "<connect>")
				}
			}
			gate[g.fn] = order
			for _, cd := range conds {
				if _, ok := st[g.pre+cd.name]; !ok {
					get(g.pre+cd.name, 0, false)
				}
			}
		}
		// ServeHTTP's own refusals (DNS rebinding protection, cross-origin protection) come before the dispatch
		if fd := c.Func(dir, "StreamableHTTPHandler", "ServeHTTP"); fd != nil {
			var order []string
			for _, s := range fd.Body.List {
				if is, ok := s.(*ast.IfStmt); ok {
					switch c.Src(is.Cond) {
					case `!h.opts.DisableLocalhostProtection && disablelocalhostprotection != "1"`:
						e := httpErrorsIn(c, is.Body)
						get("serveBadHost", first(e), len(e) == 1)
						order = append(order, "BadHost")
					case "h.opts.CrossOriginProtection != nil":
						e := httpErrorsIn(c, is.Body)
						get("serveCrossOrigin", first(e), len(e) == 1)
						order = append(order, "CrossOrigin")
					case "h.opts.Stateless":
						order = append(order, "<dispatch>")
					}
				}
			}
			gate["ServeHTTP"] = order
		}
		for _, nm := range []string{"serveBadHost", "serveCrossOrigin"} {
			if _, ok := st[nm]; !ok {
				get(nm, 0, false)
			}
		}
		c.Fact("sessions.gate_order", gate)
		// the creation path of a stateful endpoint whose GetSessionID returns "": a temporary session, never published
		if fd := c.Func(dir, "StreamableHTTPHandler", "serveStatefulPOST"); fd != nil {
			calls := []string{"<no empty-id branch>"}
			returns := false
			for _, s := range fd.Body.List {
				if is, ok := s.(*ast.IfStmt); ok && c.Src(is.Cond) == `sessionID == ""` {
					calls = callSeq(c, is.Body, []string{"ephemeralConnectOpts", "connectStreamable", "serveEphemeral", "startPOST", "AfterFunc"})
					if n := len(is.Body.List); n > 0 {
						_, returns = is.Body.List[n-1].(*ast.ReturnStmt)
					}
				}
			}
			c.Fact("sessions.empty_id_is_ephemeral", map[string]any{"calls": calls, "returns_before_publication": returns})
		}
		if fd := c.Func(dir, "StreamableHTTPHandler", "serveStateful"); fd != nil {
			var def *ast.CaseClause
			ast.Inspect(fd.Body, func(x ast.Node) bool {
				if cc, ok := x.(*ast.CaseClause); ok && cc.List == nil {
					def = cc
				}
				return true
			})
			if def != nil {
				e := httpErrorsIn(c, def)
				get("statefulOtherMethod", first(e), len(e) == 1)
			} else {
				get("statefulOtherMethod", 0, false)
			}
		}

		// --- structural fact: the transport/session is reached only through lookupSession's result
		// a temporary session (stateless endpoint, or GetSessionID returned ""): served once, then closed
		if fd := c.Func(dir, "", "serveEphemeral"); fd != nil {
			c.Fact("sessions.ephemeral_calls", callSeq(c, fd.Body, []string{"Close", "ServeHTTP", "close", "Wait", "lookupSession"}))
		} else {
			c.Fact("sessions.ephemeral_calls", []string{"<serveEphemeral not found>"})
		}
		interesting := []string{"lookupSession", "startPOST", "endPOST", "ServeHTTP", "Close", "GetSessionID", "connectStreamable", "AfterFunc", "stopTimer", "serveEphemeral"}
		shape := map[string]any{}
		for _, fn := range []string{"serveStatefulGET", "serveStatefulPOST", "serveStatefulDELETE"} {
			fd := c.Func(dir, "StreamableHTTPHandler", fn)
			if fd == nil {
				continue
			}
			// sources of the variable sessInfo, and whether each lookup is followed by `if !ok { return }`
			var sources []string
			guarded := true
			var scan func(list []ast.Stmt)
			scan = func(list []ast.Stmt) {
				for i, s := range list {
					if as, ok := s.(*ast.AssignStmt); ok && len(as.Lhs) >= 1 && c.Src(as.Lhs[0]) == "sessInfo" {
						src := c.Src(as.Rhs[0])
						switch {
						case strings.HasPrefix(src, "h.lookupSession("):
							sources = append(sources, "lookupSession")
							okGuard := false
							if i+1 < len(list) {
								if is, ok := list[i+1].(*ast.IfStmt); ok && c.Src(is.Cond) == "!ok" && len(is.Body.List) == 1 {
									if _, ok := is.Body.List[0].(*ast.ReturnStmt); ok {
										okGuard = true
									}
								}
							}
							guarded = guarded && okGuard
						case strings.HasPrefix(src, "&sessionInfo{"):
							sources = append(sources, "new")
						default:
							sources = append(sources, "other:"+src)
						}
					}
					switch st := s.(type) {
					case *ast.IfStmt:
						scan(st.Body.List)
						if eb, ok := st.Else.(*ast.BlockStmt); ok {
							scan(eb.List)
						}
					case *ast.BlockStmt:
						scan(st.List)
					}
				}
			}
			scan(fd.Body.List)
			// every use of .transport / .session goes through sessInfo (or the freshly connected locals)
			var via []string
			ast.Inspect(fd.Body, func(x ast.Node) bool {
				if se, ok := x.(*ast.SelectorExpr); ok && (se.Sel.Name == "transport" || se.Sel.Name == "session") {
					via = append(via, c.Src(se))
				}
				return true
			})
			sort.Strings(via)
			via = uniq(via)
			shape[fn] = map[string]any{"sessInfo_from": sources, "lookup_guarded": guarded, "reached_via": via,
				"calls": callSeq(c, fd.Body, interesting)}
		}
		c.Fact("sessions.lookup_before_transport", shape)

		// --- the body of a stateful POST is read by the session's transport only (inside ServeHTTP, i.e. after
		// lookupSession and startPOST): the handler itself never touches req.Body, and hands req to nothing else
		if fd := c.Func(dir, "StreamableHTTPHandler", "serveStatefulPOST"); fd != nil {
			bodyRefs := 0
			var reqTo []string
			ast.Inspect(fd.Body, func(x ast.Node) bool {
				switch n := x.(type) {
				case *ast.SelectorExpr:
					if c.Src(n.X) == "req" && n.Sel.Name == "Body" {
						bodyRefs++
					}
				case *ast.CallExpr:
					for _, a := range n.Args {
						if c.Src(a) == "req" {
							reqTo = append(reqTo, c.Src(n.Fun))
						}
					}
				}
				return true
			})
			sort.Strings(reqTo)
			c.Fact("sessions.post_body_read_by_transport_only", map[string]any{"req_body_refs": bodyRefs, "req_passed_to": uniq(reqTo)})
		} else {
			c.Fact("sessions.post_body_read_by_transport_only", "<serveStatefulPOST not found>")
		}

		// --- h.sessions only under h.mu
		mapAcc := map[string]any{}
		for _, fd := range c.Methods(dir, "StreamableHTTPHandler") {
			if fd.Body == nil {
				continue
			}
			var acc []string
			lockWalk(c, fd.Body, "h.mu", []string{"h.sessions"}, func(f string, locked bool, s ast.Stmt) {
				acc = append(acc, fmt.Sprintf("%v", locked))
			})
			if len(acc) > 0 {
				mapAcc[fd.Name.Name] = acc
			}
		}
		c.Fact("sessions.map_access_locked", mapAcc)

		// --- refs / timer only under i.timerMu in sessionInfo's methods; elsewhere only initialised
		timerAcc := map[string]any{}
		for _, fd := range c.Methods(dir, "sessionInfo") {
			var acc []string
			lockWalk(c, fd.Body, "i.timerMu", []string{"i.refs", "i.timer"}, func(f string, locked bool, s ast.Stmt) {
				acc = append(acc, fmt.Sprintf("%s:%v", f, locked))
			})
			timerAcc[fd.Name.Name] = uniq(acc)
		}
		c.Fact("sessions.timer_access_locked", timerAcc)
		// outside the methods: every mention of .refs / .timer / .timerMu in package mcp's streamable.go handler code
		outside := []string{}
		for _, f := range c.load(dir) {
			for _, d := range f.Decls {
				fd, ok := d.(*ast.FuncDecl)
				if !ok || fd.Body == nil || recvName(fd) == "sessionInfo" {
					continue
				}
				ast.Inspect(fd.Body, func(x ast.Node) bool {
					if se, ok := x.(*ast.SelectorExpr); ok {
						if id, ok := se.X.(*ast.Ident); ok && (id.Name == "sessInfo" || id.Name == "info") &&
							(se.Sel.Name == "refs" || se.Sel.Name == "timer" || se.Sel.Name == "timerMu") {
							outside = append(outside, fd.Name.Name+":"+c.Src(se))
						}
					}
					return true
				})
			}
		}
		sort.Strings(outside)
		c.Fact("sessions.timer_access_outside_methods", uniq(outside))
		// the initialisation happens before the entry is published, and publication is followed by startPOST
		if fd := c.Func(dir, "StreamableHTTPHandler", "serveStatefulPOST"); fd != nil {
			pos := func(pred func(ast.Stmt) bool) token.Pos {
				for _, s := range fd.Body.List {
					if pred(s) {
						return s.Pos()
					}
				}
				return token.NoPos
			}
			pInit := pos(func(s ast.Stmt) bool { return mentions(c, s, "sessInfo.timer") })
			pPub := pos(func(s ast.Stmt) bool {
				return strings.Contains(c.Src(s), "h.sessions[transport.SessionID] = sessInfo")
			})
			pStart := pos(func(s ast.Stmt) bool { return c.Src(s) == "sessInfo.startPOST()" })
			pEnd := pos(func(s ast.Stmt) bool { return c.Src(s) == "defer sessInfo.endPOST()" })
			pServe := pos(func(s ast.Stmt) bool { return c.Src(s) == "sessInfo.transport.ServeHTTP(w, req)" })
			pClean := pos(func(s ast.Stmt) bool {
				ds, ok := s.(*ast.DeferStmt)
				return ok && strings.Contains(c.Src(ds), "session.InitializeParams() == nil") && strings.Contains(c.Src(ds), "session.Close()")
			})
			c.Fact("sessions.creation_order", map[string]bool{
				"timer_init_before_publish":    pInit != token.NoPos && pPub != token.NoPos && pInit < pPub,
				"publish_before_startPOST":     pPub != token.NoPos && pStart != token.NoPos && pPub < pStart,
				"cleanup_defer_before_endPOST": pClean != token.NoPos && pEnd != token.NoPos && pClean < pEnd, // LIFO: endPOST runs first
				"startPOST_before_serve":       pStart != token.NoPos && pServe != token.NoPos && pStart < pEnd && pEnd < pServe,
			})
			// F20: the publication must not insert a session whose onClose has already run:
			//   if session.calledOnClose.Load() { sessInfo.stopTimer() } else { h.sessions[id] = sessInfo }
			checked := false
			ast.Inspect(fd.Body, func(x ast.Node) bool {
				is, ok := x.(*ast.IfStmt)
				if !ok || c.Src(is.Cond) != "session.calledOnClose.Load()" {
					return true
				}
				eb, ok := is.Else.(*ast.BlockStmt)
				if ok && strings.Contains(c.Src(eb), "h.sessions[transport.SessionID] = sessInfo") &&
					!strings.Contains(c.Src(is.Body), "h.sessions[") && strings.Contains(c.Src(is.Body), "sessInfo.stopTimer()") {
					checked = true
				}
				return true
			})
			// ... and there is no other insertion into h.sessions in the whole handler
			inserts := 0
			for _, m := range c.Methods(dir, "StreamableHTTPHandler") {
				if m.Body == nil {
					continue
				}
				ast.Inspect(m.Body, func(x ast.Node) bool {
					if as, ok := x.(*ast.AssignStmt); ok {
						for _, l := range as.Lhs {
							if ix, ok := l.(*ast.IndexExpr); ok && c.Src(ix.X) == "h.sessions" {
								inserts++
							}
						}
					}
					return true
				})
			}
			publishChecks = checked && inserts == 1
			c.Fact("sessions.publish_checks_closed", map[string]any{"checked": checked, "insertions": inserts})
			// onClose: stopTimer + delete under h.mu
			var onClose *ast.FuncLit
			ast.Inspect(fd.Body, func(x ast.Node) bool {
				if kv, ok := x.(*ast.KeyValueExpr); ok && c.Src(kv.Key) == "onClose" {
					if fl, ok := kv.Value.(*ast.FuncLit); ok {
						onClose = fl
					}
				}
				return true
			})
			if onClose != nil {
				c.Fact("sessions.onclose_calls", callSeq(c, onClose.Body, []string{"Lock", "Unlock", "stopTimer", "delete"}))
			} else {
				c.Fact("sessions.onclose_calls", []string{"<missing>"})
			}
		}

		// --- collaborator failures: what the handler / transport answer when the event store fails
		// (a) Transport.Connect failed (EventStore.Open of the standalone stream): every
		//     `if err != nil` that follows a connectStreamable call in the handler answers the same status
		connSt := []int{}
		for _, fn := range []string{"serveStatefulPOST", "serveStateless"} {
			fd := c.Func(dir, "StreamableHTTPHandler", fn)
			if fd == nil {
				continue
			}
			var scan func(list []ast.Stmt)
			scan = func(list []ast.Stmt) {
				for i, s := range list {
					if as, ok := s.(*ast.AssignStmt); ok && len(as.Rhs) == 1 && strings.HasPrefix(c.Src(as.Rhs[0]), "connectStreamable(") {
						if i+1 < len(list) {
							if is, ok := list[i+1].(*ast.IfStmt); ok && c.Src(is.Cond) == "err != nil" {
								connSt = append(connSt, httpErrorsIn(c, is.Body)...)
							}
						}
					}
					switch st := s.(type) {
					case *ast.IfStmt:
						scan(st.Body.List)
						if eb, ok := st.Else.(*ast.BlockStmt); ok {
							scan(eb.List)
						}
					case *ast.BlockStmt:
						scan(st.List)
					}
				}
			}
			scan(fd.Body.List)
		}
		same := len(connSt) > 0
		for _, x := range connSt {
			same = same && x == connSt[0]
		}
		get("connectFailed", first(connSt), same)
		c.Fact("sessions.connect_failure_statuses", connSt)
		// (b) the stream of a POST's calls cannot be opened: servePOST answers before anything is handed over
		if fd := c.Func(dir, "streamableServerConn", "servePOST"); fd != nil {
			okB := false
			for i, s := range fd.Body.List {
				if as, ok := s.(*ast.AssignStmt); ok && len(as.Rhs) == 1 && strings.HasPrefix(c.Src(as.Rhs[0]), "c.newStream(") && i+1 < len(fd.Body.List) {
					if is, ok := fd.Body.List[i+1].(*ast.IfStmt); ok && c.Src(is.Cond) == "err != nil" {
						e := httpErrorsIn(c, is.Body)
						_, ret := is.Body.List[len(is.Body.List)-1].(*ast.ReturnStmt)
						get("storeOpenFailed", first(e), len(e) == 1 && ret)
						okB = true
					}
				}
			}
			if !okB {
				get("storeOpenFailed", 0, false)
			}
		} else {
			get("storeOpenFailed", 0, false)
		}
		// (c) replay impossible: acquireStream answers inside the After loop
		if fd := c.Func(dir, "streamableServerConn", "acquireStream"); fd != nil {
			okC := false
			ast.Inspect(fd.Body, func(x ast.Node) bool {
				if rs, ok := x.(*ast.RangeStmt); ok && strings.Contains(c.Src(rs.X), "eventStore.After(") {
					if is := ifWithCond(c, rs.Body, "err != nil"); is != nil {
						e := httpErrorsIn(c, is.Body)
						get("replayFailed", first(e), len(e) == 1)
						okC = true
					}
				}
				return true
			})
			if !okC {
				get("replayFailed", 0, false)
			}
		} else {
			get("replayFailed", 0, false)
		}
		// (d) ServerSession.Close: the error of conn.Close() is kept in a variable and returned only
		// by the LAST statement, after the onClose hook has run exactly under its once-guard: no return
		// path skips the hook.  (The model's `closeDone` removes the entry on the error outcome too.)
		if fd := c.Func(dir, "ServerSession", "Close"); fd != nil {
			idxClose, idxHook, plain := -1, -1, false
			returns := 0
			ast.Inspect(fd.Body, func(x ast.Node) bool {
				if _, ok := x.(*ast.FuncLit); ok {
					return false
				}
				if _, ok := x.(*ast.ReturnStmt); ok {
					returns++
				}
				return true
			})
			hookCond := ""
			for i, s := range fd.Body.List {
				if strings.Contains(c.Src(s), "ss.conn.Close()") && idxClose < 0 {
					idxClose = i
					if as, ok := s.(*ast.AssignStmt); ok && len(as.Lhs) == 1 && c.Src(as.Rhs[0]) == "ss.conn.Close()" {
						plain = true
					}
				}
				if is, ok := s.(*ast.IfStmt); ok && strings.Contains(c.Src(is.Body), "ss.onClose()") && idxHook < 0 {
					idxHook = i
					hookCond = c.Src(is.Cond)
				}
			}
			_, lastIsReturn := fd.Body.List[len(fd.Body.List)-1].(*ast.ReturnStmt)
			c.Fact("sessions.close_runs_onclose", map[string]any{
				"conn_close_is_plain_assignment": plain,
				"hook_follows_conn_close":        idxClose >= 0 && idxHook == idxClose+1,
				"hook_guard":                     hookCond,
				"returns":                        returns,
				"only_return_is_last_statement":  returns == 1 && lastIsReturn,
			})
		} else {
			c.Fact("sessions.close_runs_onclose", "<ServerSession.Close not found>")
		}
		// (e) closing the streamable server connection: done is closed first, the only error it can
		// report is the event store's
		if fd := c.Func(dir, "streamableServerConn", "Close"); fd != nil {
			var rets []string
			ast.Inspect(fd.Body, func(x ast.Node) bool {
				if r, ok := x.(*ast.ReturnStmt); ok && len(r.Results) == 1 {
					rets = append(rets, c.Src(r.Results[0]))
				}
				return true
			})
			c.Fact("sessions.conn_close", map[string]any{
				"calls":   callSeq(c, fd.Body, []string{"Lock", "Unlock", "close", "SessionClosed"}),
				"returns": rets,
			})
		}
		keys := make([]string, 0, len(st))
		for k := range st {
			keys = append(keys, k)
		}
		sort.Strings(keys)
		var b strings.Builder
		b.WriteString("namespace Generated.Sessions\n")
		fmt.Fprintf(&b, "/-- mcp/streamable_headers.go `sessionIDHeader` -/\ndef sessionIDHeader : String := %s\n", LeanStr(hdr))
		for _, k := range keys {
			fmt.Fprintf(&b, "/-- HTTP status written by the session layer of mcp/streamable.go (%s) -/\ndef %s : Nat := %d\n", k, k, st[k])
		}
		fmt.Fprintf(&b, "/-- F20: serveStatefulPOST publishes the new session only if its onClose has not run yet -/\ndef publishChecksClosed : Bool := %v\n", publishChecks)
		b.WriteString("end Generated.Sessions\n")
		c.Lean["SessionsGen"] = b.String()

	})
}

func first(l []int) int {
	if len(l) == 0 {
		return 0
	}
	return l[0]
}
func last(l []int) int {
	if len(l) == 0 {
		return 0
	}
	return l[len(l)-1]
}
func uniq(l []string) []string {
	out := l[:0:0]
	for i, s := range l {
		if i == 0 || s != l[i-1] {
			out = append(out, s)
		}
	}
	return out
}
