package main

import (
	"fmt"
	"go/ast"
	"go/token"
	"strconv"
	"strings"
)

// Engine sseclient (C01, C02): the 2024-11-05 HTTP+SSE CLIENT transport, mcp/sse.go
// (*SSEClientTransport).Connect and (*sseClientConn).Write.
//
// Regenerated into Lean (Generated/SseClientGen.lean):
//   - the FILTER of the event pump (the goroutine that ranges over scanEvents and sends evt.Data to
//     `incoming`): every `if <cond> { continue }` in front of the send, read as a disjunction of the atoms
//     `len(evt.Data) == 0` (events without data are skipped), `evt.Name != "" && evt.Name != "<lit>"`
//     (only events of the default type or named <lit> pass) and `evt.Name != "<lit>"` (only events NAMED <lit>
//     pass); any other condition is an extraction error;
//   - the name the first event must have (`evt.Name != "endpoint"`);
//   - whether the endpoint scan and the pump read from ONE buffered reader (`x := bufio.NewReader(resp.Body)`
//     handed to both scanEvents calls; scanEvents' own bufio.NewReader returns it unchanged);
//   - the status ranges Connect and Write accept.
//
// Structural facts: the source text of those conditions, the send statement, the reference resolution.
func init() {
	reg(func(c *Ctx) {
		var b strings.Builder
		b.WriteString("/-! The event pump and the endpoint handling of the SSE client transport (engine sseclient, C01/C02). -/\n")
		b.WriteString("namespace Generated.SseClient\n")
		bytesLit := func(s string) string {
			p := make([]string, len(s))
			for i := 0; i < len(s); i++ {
				p[i] = strconv.Itoa(int(s[i]))
			}
			return "[" + strings.Join(p, ", ") + "]"
		}
		strip := func(e ast.Expr) ast.Expr {
			for {
				p, ok := e.(*ast.ParenExpr)
				if !ok {
					return e
				}
				e = p.X
			}
		}
		var disj func(e ast.Expr) []ast.Expr
		disj = func(e ast.Expr) []ast.Expr {
			e = strip(e)
			if be, ok := e.(*ast.BinaryExpr); ok && be.Op == token.LOR {
				return append(disj(be.X), disj(be.Y)...)
			}
			return []ast.Expr{e}
		}
		// nameNeq: `evt.Name != "<lit>"` -> lit
		nameNeq := func(e ast.Expr) (string, bool) {
			be, ok := strip(e).(*ast.BinaryExpr)
			if !ok || be.Op != token.NEQ || c.Src(be.X) != "evt.Name" {
				return "", false
			}
			lit, ok := be.Y.(*ast.BasicLit)
			if !ok || lit.Kind != token.STRING {
				return "", false
			}
			s, err := strconv.Unquote(lit.Value)
			return s, err == nil
		}

		fd := c.Func("mcp", "SSEClientTransport", "Connect")
		if fd == nil {
			c.Errf("sseclient: (*SSEClientTransport).Connect not found")
			fd = &ast.FuncDecl{Body: &ast.BlockStmt{}}
		}

		// ---- the two `range scanEvents(X)` loops: the first lexically is the endpoint scan, the one inside
		// the `go func` is the pump
		type loop struct {
			arg  string
			body *ast.BlockStmt
			inGo bool
		}
		var loops []loop
		var walk func(n ast.Node, inGo bool)
		walk = func(n ast.Node, inGo bool) {
			ast.Inspect(n, func(m ast.Node) bool {
				switch x := m.(type) {
				case *ast.GoStmt:
					if m != n {
						walk(x.Call, true)
						return false
					}
				case *ast.RangeStmt:
					if ce, ok := x.X.(*ast.CallExpr); ok && c.Src(ce.Fun) == "scanEvents" && len(ce.Args) == 1 {
						loops = append(loops, loop{arg: c.Src(ce.Args[0]), body: x.Body, inGo: inGo})
					}
				}
				return true
			})
		}
		walk(fd.Body, false)
		var first, pump *loop
		for i := range loops {
			if loops[i].inGo && pump == nil {
				pump = &loops[i]
			}
			if !loops[i].inGo && first == nil {
				first = &loops[i]
			}
		}
		if first == nil || pump == nil || len(loops) != 2 {
			c.Errf("sseclient: Connect: expected one `range scanEvents` for the endpoint event and one in the pump goroutine, found %d", len(loops))
		}

		// ---- one reader?
		decl := ""
		single := false
		if first != nil && pump != nil {
			if first.arg == pump.arg && !strings.ContainsAny(first.arg, ".(") {
				ast.Inspect(fd.Body, func(n ast.Node) bool {
					as, ok := n.(*ast.AssignStmt)
					if ok && as.Tok == token.DEFINE && len(as.Lhs) == 1 && len(as.Rhs) == 1 && c.Src(as.Lhs[0]) == first.arg {
						decl = c.Src(as.Rhs[0])
					}
					return true
				})
				single = decl == "bufio.NewReader(resp.Body)"
			}
			c.Fact("sseclient.scan_readers", map[string]any{"endpoint": first.arg, "pump": pump.arg, "decl": decl})
		}
		fmt.Fprintf(&b, "/-- the endpoint scan and the pump read from one `bufio.Reader` (nothing read ahead by the first scan is lost) -/\ndef singleReader : Bool := %v\n", single)

		// ---- the pump's filter
		skipEmpty, rule, lit := false, 0, ""
		var conds []string
		send := ""
		if pump != nil {
		stmts:
			for _, st := range pump.body.List {
				switch x := st.(type) {
				case *ast.IfStmt:
					action := "?"
					if len(x.Body.List) == 1 {
						action = c.Src(x.Body.List[0])
					}
					conds = append(conds, c.Src(x.Cond)+" => "+action)
					if x.Else != nil || x.Init != nil {
						c.Errf("sseclient: pump: if with else/init: %s", c.Src(x.Cond))
						rule = 3
						continue
					}
					if c.Src(x.Cond) == "err != nil" && action == "return" {
						continue
					}
					if action != "continue" {
						c.Errf("sseclient: pump: unexpected action %q for %s", action, c.Src(x.Cond))
						rule = 3
						continue
					}
					for _, atom := range disj(x.Cond) {
						src := c.Src(atom)
						if src == "len(evt.Data) == 0" {
							skipEmpty = true
							continue
						}
						if l, ok := nameNeq(atom); ok && l != "" {
							// several name tests compose: an event must pass all of them
							if rule == 0 || (rule <= 2 && lit == l) {
								rule, lit = 2, l
							} else {
								rule = 3
							}
							continue
						}
						if be, ok := strip(atom).(*ast.BinaryExpr); ok && be.Op == token.LAND {
							l1, ok1 := nameNeq(be.X)
							l2, ok2 := nameNeq(be.Y)
							if ok1 && ok2 && ((l1 == "" && l2 != "") || (l2 == "" && l1 != "")) {
								if rule == 0 {
									rule, lit = 1, l1+l2
								} else if rule > 2 || lit != l1+l2 {
									rule = 3
								}
								continue
							}
						}
						c.Errf("sseclient: pump: condition not understood: %s", src)
						rule = 3
					}
				case *ast.SelectStmt:
					for _, cl := range x.Body.List {
						if cc, ok := cl.(*ast.CommClause); ok {
							if ss, ok := cc.Comm.(*ast.SendStmt); ok {
								send = c.Src(ss)
							}
						}
					}
					break stmts
				default:
					c.Errf("sseclient: pump: unexpected statement %s", c.Src(st))
				}
			}
		}
		if send != "s.incoming <- evt.Data" {
			c.Errf("sseclient: pump: the send is %q", send)
		}
		c.Fact("sseclient.pump_filter", conds)
		c.Fact("sseclient.pump_send", send)
		fmt.Fprintf(&b, "/-- pump: events whose data is empty are skipped -/\ndef pumpSkipEmptyData : Bool := %v\n", skipEmpty)
		fmt.Fprintf(&b, "/-- pump: which event names pass: 0 = any, 1 = the default type (no name) or the literal, 2 = only the literal, 3 = not understood -/\ndef pumpNameRule : Nat := %d\n", rule)
		fmt.Fprintf(&b, "/-- pump: the literal of the name test (%q) -/\ndef pumpNameLiteral : List UInt8 := %s\n", lit, bytesLit(lit))

		// ---- the endpoint event
		epName, resolve := "", ""
		if first != nil {
			ast.Inspect(fd.Body, func(n ast.Node) bool {
				switch x := n.(type) {
				case *ast.IfStmt:
					if l, ok := nameNeq(x.Cond); ok && epName == "" && len(x.Body.List) == 1 {
						if _, isRet := x.Body.List[0].(*ast.ReturnStmt); isRet {
							epName = l
							c.Fact("sseclient.endpoint_check", c.Src(x.Cond))
						}
					}
				case *ast.ReturnStmt:
					if len(x.Results) == 1 {
						if ce, ok := x.Results[0].(*ast.CallExpr); ok && strings.HasSuffix(c.Src(ce.Fun), ".Parse") && c.Src(ce.Fun) != "url.Parse" {
							resolve = c.Src(ce)
						}
					}
				}
				return true
			})
		}
		if epName == "" {
			c.Errf("sseclient: Connect: no `evt.Name != \"...\"` test of the first event")
		}
		c.Fact("sseclient.endpoint_resolve", resolve)
		fmt.Fprintf(&b, "/-- the name the first event must have (%q) -/\ndef endpointEventName : List UInt8 := %s\n", epName, bytesLit(epName))

		// ---- status checks: `resp.StatusCode < lo || resp.StatusCode >= hi`
		status := func(fd *ast.FuncDecl, what string) (int, int) {
			lo, hi := -1, -1
			if fd == nil {
				c.Errf("sseclient: %s not found", what)
				return lo, hi
			}
			ast.Inspect(fd.Body, func(n ast.Node) bool {
				ifs, ok := n.(*ast.IfStmt)
				if !ok {
					return true
				}
				be, ok := ifs.Cond.(*ast.BinaryExpr)
				if !ok || be.Op != token.LOR {
					return true
				}
				l, ok1 := be.X.(*ast.BinaryExpr)
				r, ok2 := be.Y.(*ast.BinaryExpr)
				if ok1 && ok2 && l.Op == token.LSS && r.Op == token.GEQ && c.Src(l.X) == "resp.StatusCode" && c.Src(r.X) == "resp.StatusCode" {
					a, e1 := strconv.Atoi(c.Src(l.Y))
					z, e2 := strconv.Atoi(c.Src(r.Y))
					if e1 == nil && e2 == nil && lo < 0 {
						lo, hi = a, z
						c.Fact("sseclient."+what+"_status_check", c.Src(ifs.Cond))
					}
				}
				return true
			})
			if lo < 0 {
				c.Errf("sseclient: %s: no status range check", what)
				lo, hi = 0, 0
			}
			return lo, hi
		}
		clo, chi := status(fd, "connect")
		wlo, whi := status(c.Func("mcp", "sseClientConn", "Write"), "write")
		fmt.Fprintf(&b, "/-- Connect accepts the GET's status iff lo ≤ status < hi -/\ndef connectStatusLo : Nat := %d\ndef connectStatusHi : Nat := %d\n", clo, chi)
		fmt.Fprintf(&b, "/-- Write accepts a POST's status iff lo ≤ status < hi -/\ndef writeStatusLo : Nat := %d\ndef writeStatusHi : Nat := %d\n", wlo, whi)
		// ---- the code a request is refused with while the connection is closing (internal/jsonrpc2 ErrServerClosing)
		closing := int64(0)
		if e := c.ValueExpr("internal/jsonrpc2", "ErrServerClosing"); e != nil {
			if ce, ok := e.(*ast.CallExpr); ok && len(ce.Args) >= 1 {
				if v, ok := c.Const("internal/jsonrpc2", ce.Args[0]); ok {
					if n, err := strconv.ParseInt(v.ExactString(), 10, 64); err == nil {
						closing = n
					}
				}
			}
		}
		if closing == 0 {
			c.Errf("sseclient: internal/jsonrpc2 ErrServerClosing: code not found")
		}
		fmt.Fprintf(&b, "/-- internal/jsonrpc2 ErrServerClosing: the code of the error response to a request refused during shutdown -/\ndef serverClosingCode : Int := %d\n", closing)
		b.WriteString("end Generated.SseClient\n")
		c.Lean["SseClientGen"] = b.String()
	})
}
